//! Correspondence harness: drives the real chalk functions (compiled from /repo's current
//! working tree through path dependencies) and writes, per case, the request line for the Lean
//! model driver and the implementation's canonical answer.
//!
//!   corr <PROP> --tier quick|thorough --seed N --out DIR [--replay FILE]
//!
//! Outputs in DIR: requests.txt, expected.txt, meta.txt (tab separated: nontrivial flag, tags),
//! stats.json (counters, samples, implementation-vs-oracle failures found on the Rust side).
#![allow(dead_code)]
mod gen;
mod horn;
mod progen;
mod solver;
mod suite;
mod ops;
mod rng;
mod wire;
mod wire_sol;

use std::collections::BTreeMap;
use std::io::Write;

pub struct Ctx {
    pub prop: String,
    pub tier: String,
    pub seed: u64,
    pub replay: Option<String>,
    pub corpus_dir: String,
    /// (index, count) when this process is one shard of a sharded run
    pub shard: Option<(usize, usize)>,
    pub outdir: String,
}

impl Ctx {
    pub fn thorough(&self) -> bool {
        self.tier == "thorough"
    }
    /// number of cases: quick / thorough
    pub fn budget(&self, quick: usize, thorough: usize) -> usize {
        if let Ok(s) = std::env::var("VERIF_CASES") {
            if let Ok(n) = s.parse() {
                return n;
            }
        }
        if self.thorough() {
            thorough
        } else {
            quick
        }
    }
    /// does case `i` belong to this shard? (sharding never changes what is generated for case i)
    pub fn mine(&self, i: usize) -> bool {
        match self.shard {
            Some((k, n)) => i % n == k,
            None => true,
        }
    }
    /// record the case about to run, so that the parent can name it if this process dies
    /// Returns false when the case crashed the process in an earlier attempt of this shard and
    /// must be skipped (it has been reported by the parent).
    pub fn inflight(&self, label: &str) -> bool {
        if self.shard.is_some() {
            if let Ok(s) = std::fs::read_to_string(format!("{}/crashed.txt", self.outdir)) {
                if s.lines().any(|l| l == label) {
                    return false;
                }
            }
            let _ = std::fs::write(format!("{}/inflight.txt", self.outdir), label);
        }
        true
    }
    pub fn rng(&self, stream: u64, index: u64) -> rng::Rng {
        rng::Rng::for_case(self.seed, &self.prop, stream, index)
    }
    /// request lines of the committed corpus for this property followed by the replay file
    pub fn corpus_lines(&self) -> Vec<String> {
        let mut v = vec![];
        let dir = format!("{}/{}", self.corpus_dir, self.prop);
        if let Ok(rd) = std::fs::read_dir(&dir) {
            let mut files: Vec<_> = rd.filter_map(|e| e.ok()).map(|e| e.path()).collect();
            files.sort();
            for f in files {
                if let Ok(s) = std::fs::read_to_string(&f) {
                    for l in s.lines() {
                        let l = l.trim();
                        if !l.is_empty() && !(l.starts_with("# ") || l == "#") {
                            v.push(l.to_string());
                        }
                    }
                }
            }
        }
        v
    }
}

pub struct Case {
    pub request: String,
    pub expected: String,
    pub nontrivial: bool,
    pub tags: String,
}

/// A failure of the property itself observed on the implementation (independent of the model).
pub struct OracleFailure {
    pub what: String,
    pub input: String,
    pub classifier: String,
}

#[derive(Default)]
pub struct Out {
    pub cases: Vec<Case>,
    pub counters: BTreeMap<String, u64>,
    pub oracle_failures: Vec<OracleFailure>,
    pub notes: Vec<String>,
    /// property-level evaluations done purely on the Rust side (no model line)
    pub evaluations_extra: u64,
    /// pre-rendered JSON fragments merged from shards
    pub raw_failures: Vec<String>,
    pub raw_notes: Vec<String>,
}

impl Out {
    pub fn case(&mut self, request: String, expected: String, nontrivial: bool, tags: &str) {
        self.cases.push(Case { request, expected, nontrivial, tags: tags.to_string() });
    }
    pub fn count(&mut self, key: &str) {
        *self.counters.entry(key.to_string()).or_insert(0) += 1;
    }
    pub fn count_n(&mut self, key: &str, n: u64) {
        *self.counters.entry(key.to_string()).or_insert(0) += n;
    }
    pub fn fail(&mut self, what: &str, input: &str, classifier: &str) {
        self.oracle_failures.push(OracleFailure {
            what: what.to_string(),
            input: input.to_string(),
            classifier: classifier.to_string(),
        });
    }
}

pub fn json_str(s: &str) -> String {
    let mut o = String::from("\"");
    for c in s.chars() {
        match c {
            '"' => o.push_str("\\\""),
            '\\' => o.push_str("\\\\"),
            '\n' => o.push_str("\\n"),
            '\t' => o.push_str("\\t"),
            '\r' => o.push_str("\\r"),
            c if (c as u32) < 0x20 => o.push_str(&format!("\\u{:04x}", c as u32)),
            c => o.push(c),
        }
    }
    o.push('"');
    o
}

fn run_sharded(prop: &str, tier: &str, seed: u64, outdir: &str, corpus: &str) {
    let n: usize = std::env::var("VERIF_SHARDS").ok().and_then(|s| s.parse().ok()).unwrap_or(12);
    // a shard is stopped when the case in flight has not changed for `timeout` (a solver call that does
    // not return), or when the whole run exceeds `cap` (quick: the same limit; thorough: 6 hours)
    let timeout = std::time::Duration::from_secs(std::env::var("VERIF_SHARD_TIMEOUT").ok().and_then(|s| s.parse().ok()).unwrap_or(900));
    let cap = if tier == "thorough" { std::time::Duration::from_secs(6 * 3600) } else { timeout };
    std::fs::create_dir_all(outdir).unwrap();
    let exe = std::env::current_exe().unwrap();
    let spawn = |i: usize, dir: &str| {
        std::process::Command::new(&exe)
            .args([prop, "--tier", tier, "--seed", &seed.to_string(), "--out", dir, "--corpus", corpus])
            .env("VERIF_SHARD", i.to_string())
            .env("VERIF_SHARD_COUNT", n.to_string())
            .stdout(std::process::Stdio::null())
            .stderr(std::process::Stdio::null())
            .spawn()
            .expect("spawn shard")
    };
    let mut children = vec![];
    for i in 0..n {
        let dir = format!("{}/shard_{}", outdir, i);
        std::fs::create_dir_all(&dir).unwrap();
        let child = spawn(i, &dir);
        children.push((i, dir, child, 0usize));
    }
    let start = std::time::Instant::now();
    let mut out = Out::default();
    let mut rq = String::new();
    let mut ex = String::new();
    let mut me = String::new();
    while let Some((i, dir, mut child, attempts)) = children.pop() {
        let status = loop {
            match child.try_wait().unwrap() {
                Some(st) => break Some(st),
                None => {
                    let stalled = match std::fs::metadata(format!("{}/inflight.txt", dir)).and_then(|m| m.modified()) {
                        Ok(t) => t.elapsed().map(|e| e > timeout).unwrap_or(false),
                        Err(_) => start.elapsed() > timeout,
                    };
                    if stalled || start.elapsed() > cap {
                        let _ = child.kill();
                        let _ = child.wait();
                        break None;
                    }
                    std::thread::sleep(std::time::Duration::from_millis(50));
                }
            }
        };
        let inflight = std::fs::read_to_string(format!("{}/inflight.txt", dir)).unwrap_or_default();
        match status {
            Some(st) if st.success() => {
                rq.push_str(&std::fs::read_to_string(format!("{}/requests.txt", dir)).unwrap_or_default());
                ex.push_str(&std::fs::read_to_string(format!("{}/expected.txt", dir)).unwrap_or_default());
                me.push_str(&std::fs::read_to_string(format!("{}/meta.txt", dir)).unwrap_or_default());
                if let Ok(st) = std::fs::read_to_string(format!("{}/stats.json", dir)) {
                    merge_stats(&st, &mut out);
                }
            }
            Some(st) => {
                out.fail(
                    &format!("the harness process died ({}) while running the real code on this case", st),
                    &inflight,
                    "process_abnormal_exit",
                );
                // run the shard again without the crashing case
                if attempts < 8 && !inflight.is_empty() {
                    use std::io::Write;
                    let mut f = std::fs::OpenOptions::new().create(true).append(true).open(format!("{}/crashed.txt", dir)).unwrap();
                    writeln!(f, "{}", inflight).unwrap();
                    let _ = std::fs::remove_file(format!("{}/inflight.txt", dir));
                    let c = spawn(i, &dir);
                    children.push((i, dir, c, attempts + 1));
                }
            }
            None => {
                out.fail(&format!("shard {}: the case in flight did not finish within {:?}", i, timeout), &inflight, "process_timeout");
                // run the rest of the shard without the case that hangs
                if attempts < 8 && !inflight.is_empty() && start.elapsed() <= cap {
                    use std::io::Write;
                    let mut f = std::fs::OpenOptions::new().create(true).append(true).open(format!("{}/crashed.txt", dir)).unwrap();
                    writeln!(f, "{}", inflight).unwrap();
                    let _ = std::fs::remove_file(format!("{}/inflight.txt", dir));
                    let c = spawn(i, &dir);
                    children.push((i, dir, c, attempts + 1));
                }
            }
        }
    }
    std::fs::write(format!("{}/requests.txt", outdir), rq).unwrap();
    std::fs::write(format!("{}/expected.txt", outdir), ex).unwrap();
    std::fs::write(format!("{}/meta.txt", outdir), me).unwrap();
    write_stats(prop, rq_lines(outdir), &out, outdir);
}

fn rq_lines(outdir: &str) -> usize {
    std::fs::read_to_string(format!("{}/requests.txt", outdir)).map(|s| s.lines().count()).unwrap_or(0)
}

/// minimal reader of the stats.json this program writes (counters, notes, oracle failures)
fn merge_stats(text: &str, out: &mut Out) {
    // counters
    if let Some(start) = text.find("\"counters\": {") {
        let rest = &text[start + 13..];
        if let Some(end) = rest.find('}') {
            for kv in rest[..end].split(", ") {
                if let Some((k, v)) = kv.rsplit_once(": ") {
                    let k = k.trim().trim_matches('"');
                    if let Ok(n) = v.trim().parse::<u64>() {
                        out.count_n(k, n);
                    }
                }
            }
        }
    }
    if let Some(start) = text.find("\"evaluations_extra\": ") {
        let rest = &text[start + 21..];
        let end = rest.find(',').unwrap_or(0);
        out.evaluations_extra += rest[..end].trim().parse::<u64>().unwrap_or(0);
    }
    // failures and notes are carried over verbatim as pre-rendered JSON
    if let Some(start) = text.find("\"oracle_failures\": [") {
        let body = &text[start + 20..];
        if let Some(end) = body.rfind(']') {
            let inner = body[..end].trim();
            if !inner.is_empty() {
                out.raw_failures.push(inner.to_string());
            }
        }
    }
    if let Some(start) = text.find("\"notes\": [") {
        let body = &text[start + 10..];
        if let Some(end) = body.find("],\n") {
            let inner = body[..end].trim();
            if !inner.is_empty() {
                out.raw_notes.push(inner.to_string());
            }
        }
    }
}

fn write_stats(prop: &str, ncases: usize, out: &Out, outdir: &str) {
    let mut st = String::from("{\n");
    st.push_str(&format!("  \"property\": {},\n", json_str(prop)));
    st.push_str(&format!("  \"cases\": {},\n", ncases));
    st.push_str(&format!("  \"evaluations_extra\": {},\n", out.evaluations_extra));
    st.push_str("  \"counters\": {");
    let mut first = true;
    for (k, v) in &out.counters {
        if !first {
            st.push_str(", ");
        }
        first = false;
        st.push_str(&format!("{}: {}", json_str(k), v));
    }
    st.push_str("},\n  \"notes\": [");
    let mut notes: Vec<String> = out.notes.iter().take(50).map(|n| json_str(n)).collect();
    notes.extend(out.raw_notes.iter().cloned());
    st.push_str(&notes.join(", "));
    st.push_str("],\n  \"oracle_failures\": [");
    let mut fs: Vec<String> = out
        .oracle_failures
        .iter()
        .map(|f| {
            format!(
                "{{\"what\": {}, \"input\": {}, \"classifier\": {}}}",
                json_str(&f.what),
                json_str(&f.input),
                json_str(&f.classifier)
            )
        })
        .collect();
    fs.extend(out.raw_failures.iter().cloned());
    st.push_str(&fs.join(",\n    "));
    st.push_str("]\n}\n");
    std::fs::write(format!("{}/stats.json", outdir), st).unwrap();
}

fn main() {
    let args: Vec<String> = std::env::args().collect();
    if args.len() < 2 {
        eprintln!("usage: corr <PROP> --tier quick|thorough --seed N --out DIR [--replay FILE]");
        std::process::exit(2);
    }
    let prop = args[1].clone();
    if prop == "probe" {
        // triage aid: corr probe <program-file> <goal text> [slg|recursive]
        let text = std::fs::read_to_string(&args[2]).expect("program file");
        let which = args.get(4).cloned();
        let budget = std::env::var("PROBE_BUDGET").ok().and_then(|b| b.parse::<u64>().ok());
        for (name, choice) in solver::solver_choices() {
            if which.as_deref().map_or(false, |w| w != name) {
                continue;
            }
            // the goals (separated by `;`) are posed to one shared instance in order, and each to a fresh one
            match solver::lower_program(&text, choice.clone()) {
                Err(e) => println!("{}: lowering failed: {}", name, e),
                Ok((shared, program)) => {
                    for gtext in args[3].split(';') {
                        match solver::lower_goal_text(&program, gtext.trim()) {
                            Err(e) => println!("{}: goal failed: {}", name, e),
                            Ok(g) => {
                                let peeled = solver::peel(&g);
                                let rs = solver::solve_budget(&shared, &peeled, budget);
                                chalk_recursive::verif::reset_work(budget);
                                chalk_engine::verif_work::reset(budget);
                                let r = solver::solve_fresh(&text, &peeled, choice.clone());
                                let work = chalk_recursive::verif::work() + chalk_engine::verif_work::work();
                                chalk_recursive::verif::reset_work(None);
                                chalk_engine::verif_work::reset(None);
                                println!("{}: {{ {} }} shared={} fresh={} {:?} fresh-work={}", name, gtext.trim(), solver::answer_kind(&rs), solver::answer_kind(&r), r.as_ref().err(), work);
                            }
                        }
                    }
                }
            }
        }
        return;
    }
    let mut tier = "quick".to_string();
    let mut seed: u64 = 1;
    let mut outdir = ".".to_string();
    let mut replay = None;
    let mut corpus_dir = "/verif/corpus".to_string();
    let mut i = 2;
    while i < args.len() {
        match args[i].as_str() {
            "--tier" => {
                tier = args[i + 1].clone();
                i += 2;
            }
            "--seed" => {
                seed = args[i + 1].parse().expect("seed");
                i += 2;
            }
            "--out" => {
                outdir = args[i + 1].clone();
                i += 2;
            }
            "--replay" => {
                replay = Some(args[i + 1].clone());
                i += 2;
            }
            "--corpus" => {
                corpus_dir = args[i + 1].clone();
                i += 2;
            }
            other => {
                eprintln!("unknown argument {}", other);
                std::process::exit(2);
            }
        }
    }
    // panics of the code under test are caught per case; keep stderr quiet
    if std::env::var("VERIF_DEBUG").is_err() {
        std::panic::set_hook(Box::new(|_| {}));
    }
    let shard = match (std::env::var("VERIF_SHARD"), std::env::var("VERIF_SHARD_COUNT")) {
        (Ok(i), Ok(n)) => Some((i.parse().unwrap(), n.parse().unwrap())),
        _ => None,
    };
    // properties whose cases run the real solvers are sharded over child processes: a solver that
    // aborts the process (native stack overflow) or runs away is then reported for the case in flight
    if shard.is_none() && replay.is_none() && ops::sharded(&prop) {
        run_sharded(&prop, &tier, seed, &outdir, &corpus_dir);
        return;
    }
    let ctx = Ctx { prop: prop.clone(), tier, seed, replay, corpus_dir, shard, outdir: outdir.clone() };
    let mut out = Out::default();
    if !ops::run(&ctx, &mut out) {
        eprintln!("unknown property {}", prop);
        std::process::exit(2);
    }
    std::fs::create_dir_all(&outdir).unwrap();
    let mut rq = std::io::BufWriter::new(std::fs::File::create(format!("{}/requests.txt", outdir)).unwrap());
    let mut ex = std::io::BufWriter::new(std::fs::File::create(format!("{}/expected.txt", outdir)).unwrap());
    let mut me = std::io::BufWriter::new(std::fs::File::create(format!("{}/meta.txt", outdir)).unwrap());
    for c in &out.cases {
        writeln!(rq, "{}", c.request).unwrap();
        writeln!(ex, "{}", c.expected).unwrap();
        writeln!(me, "{}\t{}", if c.nontrivial { 1 } else { 0 }, c.tags).unwrap();
    }
    write_stats(&prop, out.cases.len(), &out, &outdir);
}
