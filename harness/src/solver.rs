//! Running the real solvers on program text + goal text.
use crate::wire::*;
use chalk_integration::db::ChalkDatabase;
use chalk_integration::interner::ChalkIr;
use chalk_integration::lowering::lower_goal;
use chalk_integration::program::Program;
use chalk_integration::query::LoweringDatabase;
use chalk_integration::SolverChoice;
use chalk_ir::*;
use chalk_solve::ext::GoalExt;
use chalk_solve::Solution;
use std::sync::Arc;

pub fn lower_program(text: &str, choice: SolverChoice) -> Result<(ChalkDatabase, Arc<Program>), String> {
    let db = ChalkDatabase::with(text, choice);
    match catch(std::panic::AssertUnwindSafe(|| db.program_ir())) {
        Ok(Ok(p)) => Ok((db, p)),
        Ok(Err(e)) => Err(format!("{}", e)),
        Err(site) => Err(format!("panic: {}", site)),
    }
}

pub fn lower_goal_text(program: &Program, text: &str) -> Result<Goal<ChalkIr>, String> {
    let r = catch(std::panic::AssertUnwindSafe(|| {
        chalk_integration::tls::set_current_program(&Arc::new(program.clone()), || {
            let parsed = chalk_parse::parse_goal(text).map_err(|e| format!("{}", e))?;
            lower_goal(&*parsed, program).map_err(|e| format!("{}", e))
        })
    }));
    match r {
        Ok(x) => x,
        Err(site) => Err(format!("panic: {}", site)),
    }
}

pub fn peel(goal: &Goal<ChalkIr>) -> UCanonical<InEnvironment<Goal<ChalkIr>>> {
    goal.clone().into_peeled_goal(I)
}

/// fresh solver of the given choice on the given program text; Err(panic site) on panic
pub fn solve_fresh(text: &str, goal: &UCanonical<InEnvironment<Goal<ChalkIr>>>, choice: SolverChoice) -> Result<Option<Solution<ChalkIr>>, String> {
    let db = ChalkDatabase::with(text, choice);
    let goal = goal.clone();
    catch(std::panic::AssertUnwindSafe(move || db.solve(&goal)))
}

pub fn answer_kind(r: &Result<Option<Solution<ChalkIr>>, String>) -> &'static str {
    match r {
        Ok(None) => "none",
        Ok(Some(Solution::Unique(_))) => "unique",
        Ok(Some(Solution::Ambig(_))) => "ambig",
        Err(_) => "panic",
    }
}

pub fn solver_choices() -> Vec<(&'static str, SolverChoice)> {
    vec![("slg", SolverChoice::slg_default()), ("recursive", SolverChoice::recursive_default())]
}
