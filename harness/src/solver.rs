//! Running the real solvers on program text + goal text.
use crate::wire::*;
use chalk_integration::db::ChalkDatabase;
use chalk_integration::interner::ChalkIr;
use chalk_integration::lowering::lower_goal;
use chalk_integration::program::Program;
use chalk_integration::query::LoweringDatabase;
use chalk_integration::SolverChoice;
use chalk_ir::*;
use chalk_solve::ext::GoalExt;
use chalk_solve::Solution;
use std::sync::Arc;

pub fn lower_program(text: &str, choice: SolverChoice) -> Result<(ChalkDatabase, Arc<Program>), String> {
    let db = ChalkDatabase::with(text, choice);
    match catch(std::panic::AssertUnwindSafe(|| db.program_ir())) {
        Ok(Ok(p)) => Ok((db, p)),
        Ok(Err(e)) => Err(format!("{}", e)),
        Err(site) => Err(format!("panic: {}", site)),
    }
}

pub fn lower_goal_text(program: &Program, text: &str) -> Result<Goal<ChalkIr>, String> {
    let r = catch(std::panic::AssertUnwindSafe(|| {
        chalk_integration::tls::set_current_program(&Arc::new(program.clone()), || {
            let parsed = chalk_parse::parse_goal(text).map_err(|e| format!("{}", e))?;
            lower_goal(&*parsed, program).map_err(|e| format!("{}", e))
        })
    }));
    match r {
        Ok(x) => x,
        Err(site) => Err(format!("panic: {}", site)),
    }
}

pub fn peel(goal: &Goal<ChalkIr>) -> UCanonical<InEnvironment<Goal<ChalkIr>>> {
    goal.clone().into_peeled_goal(I)
}

/// Work budgets installed around every solver call the harness makes outside the C09 family (which
/// has its own): a solver that does not return must end the case with `Err(BUDGET_PANIC)`, not hang the
/// check.  Steps can be cheap and numerous (an enumeration over several copies of a growing impl takes
/// > 8000 SLG steps in 0.2 s) or ever heavier (F32, F35: a few thousand steps take minutes), so the
/// budgets are generous and the sharded checks add a wall-clock limit per shard on top.
pub const DEFAULT_SLG_BUDGET: u64 = 200_000;
pub const DEFAULT_REC_BUDGET: u64 = 2_000_000;

/// runs `f` with the default budgets installed in both engines' cfg(chalk_verif) counters
pub fn with_default_budgets<T>(f: impl FnOnce() -> T) -> T {
    chalk_recursive::verif::reset_work(Some(DEFAULT_REC_BUDGET));
    chalk_engine::verif_work::reset(Some(DEFAULT_SLG_BUDGET));
    let r = f();
    chalk_recursive::verif::reset_work(None);
    chalk_engine::verif_work::reset(None);
    r
}

/// fresh solver of the given choice on the given program text; Err(panic site) on panic,
/// Err(BUDGET_PANIC) when the default work budget is exceeded
pub fn solve_fresh(text: &str, goal: &UCanonical<InEnvironment<Goal<ChalkIr>>>, choice: SolverChoice) -> Result<Option<Solution<ChalkIr>>, String> {
    let db = ChalkDatabase::with(text, choice);
    let goal = goal.clone();
    let r = with_default_budgets(|| catch(std::panic::AssertUnwindSafe(move || db.solve(&goal))));
    match r {
        Err(site) if site.contains(BUDGET_PANIC) => Err(BUDGET_PANIC.to_string()),
        r => r,
    }
}

/// Payload of the panic raised by the `cfg(chalk_verif)` work counters when a budget is exceeded.
pub const BUDGET_PANIC: &str = "verif-work-budget-exceeded";

/// `solve_fresh` with a budget on the solvers' work counters (ticks of the SLG `ensure_root_answer`
/// loop and of the recursive solver's `solve_goal` / fixed-point loop); exceeding it gives
/// `Err(BUDGET_PANIC)`.
pub fn solve_fresh_budget(
    text: &str,
    goal: &UCanonical<InEnvironment<Goal<ChalkIr>>>,
    choice: SolverChoice,
    budget: Option<u64>,
) -> Result<Option<Solution<ChalkIr>>, String> {
    let db = ChalkDatabase::with(text, choice);
    solve_budget(&db, goal, budget)
}

/// the same on a given (possibly reused) solver instance
pub fn solve_budget(db: &ChalkDatabase, goal: &UCanonical<InEnvironment<Goal<ChalkIr>>>, budget: Option<u64>) -> Result<Option<Solution<ChalkIr>>, String> {
    // `None`: the default budgets (never unlimited: a solver that does not return must not hang the check)
    chalk_recursive::verif::reset_work(Some(budget.unwrap_or(DEFAULT_REC_BUDGET)));
    chalk_engine::verif_work::reset(Some(budget.unwrap_or(DEFAULT_SLG_BUDGET)));
    let goal = goal.clone();
    let r = catch(std::panic::AssertUnwindSafe(move || db.solve(&goal)));
    chalk_recursive::verif::reset_work(None);
    chalk_engine::verif_work::reset(None);
    match r {
        Err(site) if site.contains(BUDGET_PANIC) => Err(BUDGET_PANIC.to_string()),
        r => r,
    }
}

pub fn answer_kind(r: &Result<Option<Solution<ChalkIr>>, String>) -> &'static str {
    match r {
        Ok(None) => "none",
        Ok(Some(Solution::Unique(_))) => "unique",
        Ok(Some(Solution::Ambig(_))) => "ambig",
        Err(_) => "panic",
    }
}

pub fn solver_choices() -> Vec<(&'static str, SolverChoice)> {
    vec![("slg", SolverChoice::slg_default()), ("recursive", SolverChoice::recursive_default())]
}
