//! Extraction of the `program { .. }` / `goal { .. }` blocks of the repository's own test files at
//! run time (so the corpus follows the repo): a small brace matcher over /repo/tests/test/*.rs.
pub struct SuiteCase {
    pub file: String,
    pub program: String,
    pub goals: Vec<String>,
}

fn block_after(src: &[u8], start: usize) -> Option<(usize, usize)> {
    // `start` points at '{'; returns (content_start, index of matching '}')
    let mut depth = 0i32;
    let mut i = start;
    while i < src.len() {
        match src[i] {
            b'{' => depth += 1,
            b'}' => {
                depth -= 1;
                if depth == 0 {
                    return Some((start + 1, i));
                }
            }
            _ => {}
        }
        i += 1;
    }
    None
}

fn find_kw(src: &str, kw: &str, from: usize) -> Option<usize> {
    let mut pos = from;
    while let Some(off) = src[pos..].find(kw) {
        let at = pos + off;
        let before_ok = at == 0 || !src.as_bytes()[at - 1].is_ascii_alphanumeric() && src.as_bytes()[at - 1] != b'_';
        let rest = src[at + kw.len()..].trim_start();
        if before_ok && rest.starts_with('{') {
            let brace = at + kw.len() + (src[at + kw.len()..].len() - rest.len());
            return Some(brace);
        }
        pos = at + kw.len();
    }
    None
}

pub fn load(dir: &str) -> Vec<SuiteCase> {
    let mut files: Vec<_> = match std::fs::read_dir(dir) {
        Ok(rd) => rd.filter_map(|e| e.ok()).map(|e| e.path()).filter(|p| p.extension().map(|x| x == "rs").unwrap_or(false)).collect(),
        Err(_) => return vec![],
    };
    files.sort();
    let mut out = vec![];
    for f in files {
        let src = match std::fs::read_to_string(&f) {
            Ok(s) => s,
            Err(_) => continue,
        };
        let bytes = src.as_bytes();
        let mut pos = 0;
        // programs, each followed by the goals up to the next program
        let mut progs: Vec<(usize, usize, String)> = vec![];
        while let Some(b) = find_kw(&src, "program", pos) {
            if let Some((s, e)) = block_after(bytes, b) {
                progs.push((b, e, src[s..e].to_string()));
                pos = e;
            } else {
                break;
            }
        }
        for (k, (_, pend, ptext)) in progs.iter().enumerate() {
            let limit = progs.get(k + 1).map(|p| p.0).unwrap_or(src.len());
            let mut goals = vec![];
            let mut gp = *pend;
            while let Some(b) = find_kw(&src[..limit], "goal", gp) {
                if let Some((s, e)) = block_after(bytes, b) {
                    if e <= limit {
                        goals.push(src[s..e].split_whitespace().collect::<Vec<_>>().join(" "));
                    }
                    gp = e;
                } else {
                    break;
                }
            }
            out.push(SuiteCase { file: f.file_name().unwrap().to_string_lossy().to_string(), program: ptext.clone(), goals });
        }
    }
    out
}
