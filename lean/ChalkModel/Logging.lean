/-
  The "logging database" (chalk-solve/src/logging_db.rs): a wrapper around the program database
  that records every item the solver consulted and prints the recorded items as a stand-alone
  sub-program.  Replaying the goal on the printed sub-program must give the same answer.

  The semantic content is a *restriction lemma*: a sub-program that contains every clause reachable
  from the goal has the same meaning on the reachable atoms.  This file contains the definitions:
  the declarative notions (`ClosedUnder`, `AgreeOn`, `Reach`), an executable reachability
  computation (`reachList`, `closedList`, `restrict`, `needs`), and an item-level model of the
  one place where lowering items to clauses is *not* monotone in the item set: auto traits.
-/
import ChalkModel.Sem

namespace Chalk.Logging
open Chalk.Sem

/-! ### declarative notions -/

/-- instance-level closure: `R` contains, with every instance of a clause head, the corresponding
    instances of the clause's body atoms (the atoms a derivation search can reach) -/
def ClosedUnder (P : Program) (R : Atom → Prop) : Prop :=
  ∀ c ∈ P.clauses, ∀ σ : Nat → Tm, R (c.head.inst σ) → ∀ b ∈ c.body, R (b.inst σ)

/-- `P` and `Q` have the same coinductive predicates and the same clauses among those with a head
    instance in `R` -/
def AgreeOn (P Q : Program) (R : Atom → Prop) : Prop :=
  (∀ p, Q.coind p = P.coind p) ∧
    ∀ (c : Clause) (σ : Nat → Tm), R (c.head.inst σ) → (c ∈ P.clauses ↔ c ∈ Q.clauses)

/-- predicate-level reachability from a list of seed predicates -/
inductive Reach (P : Program) (seeds : List String) : String → Prop where
  | seed {p : String} : p ∈ seeds → Reach P seeds p
  | step {c : Clause} {b : Atom} :
      c ∈ P.clauses → Reach P seeds c.head.pred → b ∈ c.body → Reach P seeds b.pred

/-! ### executable reachability -/

/-- append `p` unless it is already there -/
def insertNew (S : List String) (p : String) : List String :=
  if S.contains p then S else S ++ [p]

/-- append the elements of the second list that are not yet present, keeping first occurrences -/
def addAll (S : List String) : List String → List String
  | [] => S
  | p :: ps => addAll (insertNew S p) ps

/-- predicates of the body atoms of the clauses whose head predicate is in `S` -/
def firedBodies (P : Program) (S : List String) : List String :=
  (P.clauses.filter (fun c => S.contains c.head.pred)).flatMap (fun c => c.body.map (fun b => b.pred))

/-- one round: add the body predicates of every clause whose head predicate is in `S` -/
def reachStep (P : Program) (S : List String) : List String :=
  addAll S (firedBodies P S)

def reachIter (P : Program) : Nat → List String → List String
  | 0, S => S
  | n + 1, S => reachStep P (reachIter P n S)

/-- predicates reachable from `seeds`: `reachStep` iterated `P.clauses.length + 1` times, which is
    enough to reach the fixed point (`reachList_closed`) -/
def reachList (P : Program) (seeds : List String) : List String :=
  reachIter P (P.clauses.length + 1) seeds

/-- decidable check: `S` contains the body predicates of every clause whose head predicate is in `S` -/
def closedList (P : Program) (S : List String) : Bool :=
  P.clauses.all (fun c => !S.contains c.head.pred || c.body.all (fun b => S.contains b.pred))

/-- the sub-program of the clauses whose head predicate is in `S` -/
def restrict (P : Program) (S : List String) : Program :=
  ⟨P.clauses.filter (fun c => S.contains c.head.pred), P.coind⟩

/-- predicates of all atoms of a goal, including the hypotheses of `implies` -/
def goalPreds : Goal → List String
  | .atom a => [a.pred]
  | .tt => []
  | .and g h => goalPreds g ++ goalPreds h
  | .implies hyps g => hyps.map (fun a => a.pred) ++ goalPreds g
  | .not g => goalPreds g
  | .eq _ _ => []

/-- the predicates a goal needs -/
def needs (P : Program) (g : Goal) : List String := reachList P (goalPreds g)

/-! ### auto traits: lowering is not monotone in the item set

  chalk-solve/src/clauses.rs `push_auto_trait_impls` generates, for an `#[auto]` trait `T` and an
  ADT `S<..>` with fields `f1 .. fk`, the default clause `T(S<v0..vn-1>) :- T(f1), .., T(fk)` —
  *unless* "there is an `impl AutoTrait for Foo<..>` or `impl !AutoTrait for Foo<..>`, where Foo is
  the adt we're looking at, then we don't generate our own rules".  The test is
  `impl_provided_for(auto_trait, ty)`, which compares only the ADT *name*, not its arguments.

  Hence the clause set is not monotone in the item set: removing an explicit impl *adds* a clause.
  A recording wrapper that logs only what `impls_for_trait` returned (impls that `could_match` the
  goal's type arguments) can lose a suppressing impl whose arguments differ, and the replayed
  sub-program then has a default clause the original did not have.  `SuppressionFaithful` states
  what must be recorded additionally.  This is exactly where finding F9a lives:

      #[auto] trait Send {}  struct Foo<T> {}  struct A {}  struct B {}  impl Send for Foo<A> {}

  goal `Foo<B>: Send`: the original has no solution; a log without `impl Send for Foo<A>` answers
  Unique (see `f9aItems`, `f9aLog` below). -/

/-- item-level model of the part of a program that matters for auto traits -/
structure AutoItems where
  /-- clauses of all ordinary impls and of all non-auto items -/
  base : List Clause
  /-- names of the `#[auto]` traits -/
  autoTraits : List String
  /-- ADT name, arity, field types over the variables `0 .. arity-1` -/
  adts : List (String × Nat × List Tm)
  /-- `(auto trait, head ADT name, clause)` for every explicit impl `impl Auto for Adt<..>`;
      a negative impl `impl !Auto for Adt<..>` contributes no clause (`none`) -/
  explicit : List (String × String × Option Clause)

/-- `.var i, .., .var (i+n-1)` -/
def varTms : Nat → Nat → Tms
  | _, 0 => .nil
  | i, n + 1 => .cons (.var i) (varTms (i + 1) n)

/-- the default auto-trait clause `t(s(v0..vn-1)) :- t(f)` for each field type `f` -/
def defaultClause (t s : String) (n : Nat) (fields : List Tm) : Clause :=
  ⟨⟨t, .cons (.app s (varTms 0 n)) .nil⟩, fields.map (fun f => ⟨t, .cons f .nil⟩)⟩

/-- `impl_provided_for`: is there an explicit (positive or negative) impl of `t` for the ADT named
    `s`, whatever its arguments -/
def hasExplicit (I : AutoItems) (t s : String) : Bool :=
  I.explicit.any (fun e => e.1 == t && e.2.1 == s)

/-- the default clauses: for each auto trait and each ADT without an explicit impl -/
def defaultClauses (I : AutoItems) : List Clause :=
  I.autoTraits.flatMap (fun t => I.adts.flatMap (fun adt =>
    if hasExplicit I t adt.1 then [] else [defaultClause t adt.1 adt.2.1 adt.2.2]))

/-- lowering of the items to clauses -/
def lowerAuto (I : AutoItems) : List Clause :=
  I.base ++ I.explicit.filterMap (fun e => e.2.2) ++ defaultClauses I

/-- what the recording wrapper must record *in addition* to the consulted items: whenever the
    default auto impl of `t` for `s` was suppressed in the original items `I`, the log `L` contains
    at least one suppressing explicit (positive or negative) impl of `t` for `s` — even though that
    impl need not match the goal's type arguments and is therefore not among the impls returned by
    `impls_for_trait` -/
def SuppressionFaithful (I L : AutoItems) : Prop :=
  ∀ t ∈ L.autoTraits, ∀ adt ∈ L.adts, (hasExplicit L t adt.1 = true ↔ hasExplicit I t adt.1 = true)

/-- the program of finding F9a -/
def f9aItems : AutoItems where
  base := []
  autoTraits := ["Send"]
  adts := [("Foo", 1, []), ("A", 0, []), ("B", 0, [])]
  explicit := [("Send", "Foo", some ⟨⟨"Send", .cons (.app "Foo" (.cons (.app "A" .nil) .nil)) .nil⟩, []⟩)]

/-- a log of `f9aItems` for the goal `Foo<B>: Send` that recorded only the impls returned by
    `impls_for_trait` (none: `Foo<A>` does not match `Foo<B>`) -/
def f9aLog : AutoItems := { f9aItems with explicit := [] }

/-- auto traits are coinductive -/
def autoProgram (I : AutoItems) : Program := ⟨lowerAuto I, fun p => I.autoTraits.contains p⟩

end Chalk.Logging
