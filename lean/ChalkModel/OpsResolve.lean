/- Driver op for C24: `(lower (item…) goal?)` → `((program ok|err K|panic S) (goal ok|err K|panic S|none))`.
   Decodes the AST serialised by harness/src/ops/c24.rs (module `conv`), runs `Resolve.lowerBoth`.
   No model logic here. -/
import ChalkModel.Wire
import ChalkModel.Resolve

namespace Chalk
open Sexp

namespace ResolveWire
open Resolve

def name? : Sexp → Option String
  | .atom s => some s
  | _ => none

def names? : Sexp → Option (List String)
  | .list xs => xs.mapM name?
  | _ => none

def vk? : Sexp → Option AVarKind
  | .list [.atom "ty", .atom n] => some ⟨.ty, n⟩
  | .list [.atom "lt", .atom n] => some ⟨.lt, n⟩
  | .list [.atom "const", .atom n] => some ⟨.const, n⟩
  | _ => none

def vks? : Sexp → Option (List AVarKind)
  | .list xs => xs.mapM vk?
  | _ => none

def lifetime? : Sexp → Option ALifetime
  | .list [.atom "lid", .atom n] => some (.id n)
  | .atom "static" => some .static
  | .atom "erased" => some .erased
  | _ => none

def const? : Sexp → Option AConst
  | .list [.atom "cid", .atom n] => some (.id n)
  | .atom "cval" => some .value
  | _ => none

mutual
partial def ty? : Sexp → Option ATy
  | .list [.atom "id", .atom n] => some (.id n)
  | .list [.atom "apply", .atom n, args] => do some (.apply n (← gargs? args))
  | .list [.atom "tuple", ts] => do some (.tuple (← tys? ts))
  | .atom "leaf" => some .leaf
  | .list [.atom "ref", l, t] => do some (.ref (← lifetime? l) (← ty? t))
  | .list [.atom "raw", t] => do some (.raw (← ty? t))
  | .list [.atom "slice", t] => do some (.slice (← ty? t))
  | .list [.atom "array", t, c] => do some (.array (← ty? t) (← const? c))
  | .list [.atom "fn", lts, .atom abi, ts] => do some (.fnptr (← names? lts) abi (← tys? ts))
  | .list [.atom "proj", s, .atom tr, targs, .atom n, args] => do
      some (.proj (← ty? s) tr (← gargs? targs) n (← gargs? args))
  | .list [.atom "dyn", bs, l] => do some (.dyn (← qibs? bs) (← lifetime? l))
  | _ => none
partial def tys? : Sexp → Option ATys
  | .list xs => do
      let ts ← xs.mapM ty?
      some (ts.foldr ATys.cons ATys.nil)
  | _ => none
partial def garg? : Sexp → Option AGArg
  | .list [.atom "ty", t] => do some (.ty (← ty? t))
  | .list [.atom "lt", l] => do some (.lt (← lifetime? l))
  | .list [.atom "gid", .atom n] => some (.id n)
  | .list [.atom "const", c] => do some (.const (← const? c))
  | _ => none
partial def gargs? : Sexp → Option AGArgs
  | .list xs => do
      let as ← xs.mapM garg?
      some (as.foldr AGArgs.cons AGArgs.nil)
  | _ => none
partial def qib? : Sexp → Option AQIB
  | .list [.atom "tb", v, .atom tr, args] => do some (.traitBound (← vks? v) tr (← gargs? args))
  | .list [.atom "ab", v, .atom tr, args, .atom n, aargs, value] => do
      some (.aliasEq (← vks? v) tr (← gargs? args) n (← gargs? aargs) (← ty? value))
  | _ => none
partial def qibs? : Sexp → Option AQIBs
  | .list xs => do
      let bs ← xs.mapM qib?
      some (bs.foldr AQIBs.cons AQIBs.nil)
  | _ => none
end

def traitRef? (s tr args : Sexp) : Option ATraitRef := do
  some ⟨← ty? s, ← name? tr, ← gargs? args⟩

def proj? (s tr targs n args : Sexp) : Option AProj := do
  some ⟨← traitRef? s tr targs, ← name? n, ← gargs? args⟩

def wc? : Sexp → Option AWhereClause
  | .list [.atom "impl", s, tr, args] => do some (.implemented (← traitRef? s tr args))
  | .list [.atom "projeq", s, tr, targs, n, args, t] => do some (.projEq (← proj? s tr targs n args) (← ty? t))
  | .list [.atom "ltout", a, b] => do some (.ltOutlives (← lifetime? a) (← lifetime? b))
  | .list [.atom "tyout", t, l] => do some (.tyOutlives (← ty? t) (← lifetime? l))
  | _ => none

def qwc? : Sexp → Option AQWC
  | .list [v, w] => do some ⟨← vks? v, ← wc? w⟩
  | _ => none

def qwcs? : Sexp → Option (List AQWC)
  | .list xs => xs.mapM qwc?
  | _ => none

def dg? : Sexp → Option ADomainGoal
  | .list [.atom "holds", w] => do some (.holds (← wc? w))
  | .list [.atom "normalize", s, tr, targs, n, args, t] => do
      some (.normalize (← proj? s tr targs n args) (← ty? t))
  | .list [.atom "ofty", t] => do some (.ofTy (← ty? t))
  | .list [.atom "oftr", s, tr, args] => do some (.ofTraitRef (← traitRef? s tr args))
  | .atom "nullary" => some .nullary
  | .list [.atom "objsafe", .atom n] => some (.objectSafe n)
  | _ => none

def leaf? : Sexp → Option ALeaf
  | .list [.atom "dg", d] => do some (.domain (← dg? d))
  | .list [.atom "unify", a, b] => do some (.unify (← garg? a) (← garg? b))
  | .list [.atom "subtype", a, b] => do some (.subtype (← ty? a) (← ty? b))
  | _ => none

mutual
partial def goal? : Sexp → Option AGoal
  | .list [.atom "quant", v, g] => do some (.quant (← vks? v) (← goal? g))
  | .list [.atom "implies", .list cs, g] => do
      let cs ← cs.mapM clause?
      some (.implies (cs.foldr AClauses.cons AClauses.nil) (← goal? g))
  | .list [.atom "and", gs] => do some (.and (← goals? gs))
  | .list [.atom "not", g] => do some (.not (← goal? g))
  | .list [.atom "compat", g] => do some (.compatible (← goal? g))
  | .list [.atom "leaf", l] => do some (.leaf (← leaf? l))
  | _ => none
partial def goals? : Sexp → Option AGoals
  | .list xs => do
      let gs ← xs.mapM goal?
      some (gs.foldr AGoals.cons AGoals.nil)
  | _ => none
partial def clause? : Sexp → Option AClause
  | .list [v, d, gs] => do some (.mk (← vks? v) (← dg? d) (← goals? gs))
  | _ => none
end

def variances? : Sexp → Option (Option Nat)
  | .atom "-" => some none
  | s => do some (some (← s.nat?))

def assocDefn? : Sexp → Option AAssocTyDefn
  | .list [.atom n, v, bs, ws] => do some ⟨n, ← vks? v, ← qibs? bs, ← qwcs? ws⟩
  | _ => none

def assocValue? : Sexp → Option AAssocTyValue
  | .list [.atom n, v, t] => do some ⟨n, ← vks? v, ← ty? t⟩
  | _ => none

def item? : Sexp → Option AItem
  | .list [.atom "adt", .atom n, v, f, fields, ws, var] => do
      some (.adt n (← vks? v) (← bool? f) (← tys? fields) (← qwcs? ws) (← variances? var))
  | .list [.atom "fndef", .atom n, v, ws, args, ret, .atom abi, var] => do
      some (.fnDef n (← vks? v) (← qwcs? ws) (← tys? args) (← ty? ret) abi (← variances? var))
  | .list [.atom "closure", .atom n, v, args, ret, up] => do
      some (.closure n (← vks? v) (← tys? args) (← ty? ret) (← tys? up))
  | .list [.atom "trait", .atom n, v, auto, ws, .list assoc] => do
      some (.trait n (← vks? v) (← bool? auto) (← qwcs? ws) (← assoc.mapM assocDefn?))
  | .list [.atom "opaque", .atom n, v, t, bs, ws] => do
      some (.opaqueTy n (← vks? v) (← ty? t) (← qibs? bs) (← qwcs? ws))
  | .list [.atom "coroutine", .atom n, v, up, res, yld, ret, wit, lts] => do
      some (.coroutine n (← vks? v) (← tys? up) (← ty? res) (← ty? yld) (← ty? ret) (← tys? wit) (← names? lts))
  | .list [.atom "impl", v, pos, s, tr, args, ws, .list vals] => do
      some (.impl (← vks? v) (← bool? pos) (← traitRef? s tr args) (← qwcs? ws) (← vals.mapM assocValue?))
  | .list [.atom "clause", c] => do some (.clause (← clause? c))
  | .list [.atom "foreign", .atom n] => some (.foreign n)
  | _ => none

def lastComponent (s : String) : String :=
  match (s.splitOn ".").getLast? with
  | some x => x
  | none => s

def outcomeSexp (tag : String) : Option (Outcome Unit) → Sexp
  | none => .list [.atom tag, .atom "none"]
  | some (.ok _) => .list [.atom tag, .atom "ok"]
  | some (.err e) => .list [.atom tag, .atom "err", .atom (lastComponent (toString (repr e)))]
  | some (.panic s) => .list [.atom tag, .atom "panic", .atom (lastComponent (toString (repr s)))]

def run (ver : Version) (items : List Sexp) (g : Option Sexp) : Option Sexp := do
  let p ← items.mapM item?
  let g ← match g with
    | some g => do some (some (← goal? g))
    | none => some none
  let (pr, gr) := lowerBoth ver p g
  some (.list [outcomeSexp "program" (some pr), outcomeSexp "goal" gr])

end ResolveWire

def opsResolve : Sexp → Option Sexp
  | .list [.atom "lower", .list items] => ResolveWire.run .fixed items none
  | .list [.atom "lower", .list items, g] => ResolveWire.run .fixed items (some g)
  | .list [.atom "lower-legacy", .list items] => ResolveWire.run .legacy items none
  | .list [.atom "lower-legacy", .list items, g] => ResolveWire.run .legacy items (some g)
  | _ => none

end Chalk
