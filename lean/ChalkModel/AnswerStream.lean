/-
  Model of the SLG answer stream seen by `solve_multiple`:
  * `Table::push_answer` (`chalk-engine/src/table.rs`): de-duplication through `answers_hash`,
    the panic when a previously ambiguous substitution arrives unambiguous;
  * `Forest::root_answer` (`logic.rs`): an answer with delayed subgoals is `InvalidAnswer`;
  * `ForestSolver::{peek_answer, next_answer}` (`forest.rs`): `peek` skips invalid answers by
    advancing the index, `next` = `peek` then increment;
  * `SLGSolver::solve_multiple` (`solve.rs`): classification `Definite / Ambiguous / Floundered`
    and the "more answers follow" flag computed by `peek_answer`.
  The engine that *fills* the table is abstracted: the table content is a parameter (and is what
  the correspondence run dumps from the real forest through a cfg hook).
-/
import ChalkModel.Fold

namespace Chalk

/-- a stored answer: a key identifying its canonical substitution, the `ambiguous` flag, whether
    it still carries delayed subgoals, whether its substitution is the identity -/
structure StoredAnswer where
  key : Nat
  ambiguous : Bool
  delayed : Bool
  identity : Bool
  deriving DecidableEq, Repr

structure STable where
  answers : List StoredAnswer := []
  hash : List (Nat × Bool) := []
  floundered : Bool := false
  deriving Repr

/-- `Table::push_answer` -/
def STable.pushAnswer (t : STable) (a : StoredAnswer) : Res (STable × Bool) :=
  if t.floundered then .error (.panic "assert !floundered")
  else match t.hash.lookup a.key with
    | none => .ok ({ t with answers := t.answers ++ [a], hash := (a.key, a.ambiguous) :: t.hash }, true)
    | some wasAmbiguous =>
        if wasAmbiguous && !a.ambiguous then .error (.panic "New answer was not ambiguous whereas previous answer was.")
        else .ok (t, false)

inductive PeekResult where
  | answer (idx : Nat) (a : StoredAnswer)
  | floundered
  | noMore
  deriving DecidableEq, Repr

/-- `peek_answer` on a completed table: skip invalid (delayed) answers from `idx` on -/
def peekFrom (floundered : Bool) : List StoredAnswer → Nat → PeekResult
  | [], _ => if floundered then .floundered else .noMore
  | a :: rest, idx => if a.delayed then peekFrom floundered rest (idx + 1) else .answer idx a

inductive Yield where
  | definite (key : Nat)
  | ambiguous (key : Nat)
  | floundered
  deriving DecidableEq, Repr

def classify (a : StoredAnswer) : Yield :=
  if !a.ambiguous then .definite a.key
  else if a.identity then .floundered
  else .ambiguous a.key

/-- `solve_multiple` over the answers from position `idx` on; `decisions` are the callback's return
    values (missing = `true`... the run stops when the list is exhausted: `fuel`).  Returns the
    callback invocations `(yield, more-answers-follow flag)`. -/
def solveMultiple (floundered : Bool) : List StoredAnswer → (decisions : List Bool) → List (Yield × Bool)
  | _, [] => []
  | answers, d :: ds =>
      match peekFrom floundered answers 0 with
      | .noMore => []
      | .floundered =>
          -- the index is incremented, the table stays floundered: the same again next time
          (.floundered, true) :: (if d then solveMultiple floundered [] ds else [])
      | .answer i a =>
          let rest := answers.drop (i + 1)
          let more := peekFrom floundered rest 0 != .noMore
          (classify a, more) :: (if d then solveMultiple floundered rest ds else [])
termination_by answers ds => ds.length

end Chalk
