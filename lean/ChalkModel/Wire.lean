/-
  S-expression wire format shared with `harness/src/wire.rs` (DESIGN Appendix B).
  Parsing/printing is glue of the correspondence check, not part of any theorem.
-/
import ChalkModel.Fold

namespace Chalk

inductive Sexp where
  | atom (s : String)
  | list (xs : List Sexp)
  deriving Repr, Inhabited, BEq

namespace Sexp

partial def toStr : Sexp → String
  | .atom s => s
  | .list xs => "(" ++ " ".intercalate (xs.map toStr) ++ ")"

/-- tokenizer: parentheses and whitespace-separated atoms -/
def tokenize (s : String) : List String := Id.run do
  let mut toks : Array String := #[]
  let mut cur : String := ""
  for c in s.toList do
    if c == '(' || c == ')' then
      if cur != "" then toks := toks.push cur
      cur := ""
      toks := toks.push (String.singleton c)
    else if c == ' ' || c == '\n' || c == '\t' || c == '\r' then
      if cur != "" then toks := toks.push cur
      cur := ""
    else
      cur := cur.push c
  if cur != "" then toks := toks.push cur
  return toks.toList

/-- parse one S-expression from a token list; returns the rest -/
partial def parseToks : List String → Option (Sexp × List String)
  | [] => none
  | "(" :: rest =>
      let rec go (acc : Array Sexp) (ts : List String) : Option (Sexp × List String) :=
        match ts with
        | [] => none
        | ")" :: rest' => some (.list acc.toList, rest')
        | _ => match parseToks ts with
          | some (x, rest') => go (acc.push x) rest'
          | none => none
      go #[] rest
  | ")" :: _ => none
  | t :: rest => some (.atom t, rest)

def parse (s : String) : Option Sexp :=
  match parseToks (tokenize s) with
  | some (x, []) => some x
  | _ => none

def nat? : Sexp → Option Nat
  | .atom s => s.toNat?
  | _ => none

end Sexp

open Sexp

def sNat (n : Nat) : Sexp := .atom (toString n)
def sBool (b : Bool) : Sexp := .atom (if b then "1" else "0")
def bool? : Sexp → Option Bool
  | .atom "1" => some true
  | .atom "0" => some false
  | _ => none

def TyVarKind.toSexp : TyVarKind → Sexp
  | .general => .atom "g" | .integer => .atom "i" | .float => .atom "f"
def TyVarKind.ofSexp? : Sexp → Option TyVarKind
  | .atom "g" => some .general | .atom "i" => some .integer | .atom "f" => some .float
  | _ => none

def VarKind.toSexp : VarKind → Sexp
  | .ty k => .list [.atom "kty", k.toSexp]
  | .lt => .atom "klt"
  | .const c => .list [.atom "kconst", sNat c]
def VarKind.ofSexp? : Sexp → Option VarKind
  | .list [.atom "kty", k] => (TyVarKind.ofSexp? k).map .ty
  | .atom "klt" => some .lt
  | .list [.atom "kconst", c] => c.nat?.map .const
  | _ => none

def kindsToSexp (ks : List VarKind) : Sexp := .list (ks.map VarKind.toSexp)
def kindsOfSexp? : Sexp → Option (List VarKind)
  | .list xs => xs.mapM VarKind.ofSexp?
  | _ => none

def Lifetime.toSexp : Lifetime → Sexp
  | .bound db idx => .list [.atom "lbound", sNat db, sNat idx]
  | .infer v => .list [.atom "linfer", sNat v]
  | .placeholder ui idx => .list [.atom "lph", sNat ui, sNat idx]
  | .static => .atom "static"
  | .erased => .atom "erased"
  | .error => .atom "lerror"
def Lifetime.ofSexp? : Sexp → Option Lifetime
  | .list [.atom "lbound", a, b] => do some (.bound (← a.nat?) (← b.nat?))
  | .list [.atom "linfer", a] => do some (.infer (← a.nat?))
  | .list [.atom "lph", a, b] => do some (.placeholder (← a.nat?) (← b.nat?))
  | .atom "static" => some .static
  | .atom "erased" => some .erased
  | .atom "lerror" => some .error
  | _ => none

def ConstValue.toSexp : ConstValue → Sexp
  | .bound db idx => .list [.atom "cbound", sNat db, sNat idx]
  | .infer v => .list [.atom "cinfer", sNat v]
  | .placeholder ui idx => .list [.atom "cph", sNat ui, sNat idx]
  | .concrete k => .list [.atom "cval", sNat k]
def ConstValue.ofSexp? : Sexp → Option ConstValue
  | .list [.atom "cbound", a, b] => do some (.bound (← a.nat?) (← b.nat?))
  | .list [.atom "cinfer", a] => do some (.infer (← a.nat?))
  | .list [.atom "cph", a, b] => do some (.placeholder (← a.nat?) (← b.nat?))
  | .list [.atom "cval", a] => do some (.concrete (← a.nat?))
  | _ => none

def TyName.tag : TyName → String × Nat
  | .adt id => ("adt", id) | .assocTy id => ("assoc", id) | .tuple n => ("tuple", n)
  | .opaqueTy id => ("opaque-ty", id) | .fnDef id => ("fndef", id) | .closure id => ("closure", id)
  | .coroutine id => ("coroutine", id) | .witness id => ("witness", id)
def TyName.ofTag? : String → Nat → Option TyName
  | "adt", id => some (.adt id) | "assoc", id => some (.assocTy id) | "tuple", n => some (.tuple n)
  | "opaque-ty", id => some (.opaqueTy id) | "fndef", id => some (.fnDef id)
  | "closure", id => some (.closure id) | "coroutine", id => some (.coroutine id)
  | "witness", id => some (.witness id)
  | _, _ => none

mutual
  partial def Ty.toSexp : Ty → Sexp
    | .app n args => let (t, id) := n.tag; .list [.atom t, sNat id, args.toSexp]
    | .scalar s => .list [.atom "scalar", sNat s]
    | .str => .atom "str"
    | .never => .atom "never"
    | .foreign id => .list [.atom "foreign", sNat id]
    | .error => .atom "error"
    | .array t c => .list [.atom "array", t.toSexp, c.toSexp]
    | .slice t => .list [.atom "slice", t.toSexp]
    | .raw m t => .list [.atom "raw", sBool m, t.toSexp]
    | .ref m l t => .list [.atom "ref", sBool m, l.toSexp, t.toSexp]
    | .placeholder ui idx => .list [.atom "ph", sNat ui, sNat idx]
    | .dyn kinds bounds l => .list [.atom "dyn", kindsToSexp kinds, bounds.toSexp, l.toSexp]
    | .proj id args => .list [.atom "proj", sNat id, args.toSexp]
    | .opaque id args => .list [.atom "opaque", sNat id, args.toSexp]
    | .function nb sig args => .list [.atom "fn", sNat nb, sNat sig, args.toSexp]
    | .bound db idx => .list [.atom "bound", sNat db, sNat idx]
    | .infer v k => .list [.atom "infer", sNat v, k.toSexp]
  partial def Const.toSexp : Const → Sexp
    | .mk ty v => .list [.atom "const", ty.toSexp, v.toSexp]
  partial def GArg.toSexp : GArg → Sexp
    | .ty t => .list [.atom "ty", t.toSexp]
    | .lt l => .list [.atom "lt", l.toSexp]
    | .ct c => .list [.atom "ct", c.toSexp]
  partial def Args.toSexp (a : Args) : Sexp := .list (a.toList.map GArg.toSexp)
  partial def WC.toSexp : WC → Sexp
    | .implemented tr args => .list [.atom "impl", sNat tr, args.toSexp]
    | .aliasEqProj id args ty => .list [.atom "aeq-proj", sNat id, args.toSexp, ty.toSexp]
    | .aliasEqOpaque id args ty => .list [.atom "aeq-opaque", sNat id, args.toSexp, ty.toSexp]
    | .ltOutlives a b => .list [.atom "lt-outlives", a.toSexp, b.toSexp]
    | .tyOutlives t l => .list [.atom "ty-outlives", t.toSexp, l.toSexp]
  partial def QWC.toSexp : QWC → Sexp
    | .mk kinds wc => .list [.atom "qwc", kindsToSexp kinds, wc.toSexp]
  partial def QWCs.toSexp (q : QWCs) : Sexp := .list (q.toList.map QWC.toSexp)
end

mutual
  partial def Ty.ofSexp? : Sexp → Option Ty
    | .atom "str" => some .str
    | .atom "never" => some .never
    | .atom "error" => some .error
    | .list [.atom "scalar", s] => do some (.scalar (← s.nat?))
    | .list [.atom "foreign", s] => do some (.foreign (← s.nat?))
    | .list [.atom "array", t, c] => do some (.array (← Ty.ofSexp? t) (← Const.ofSexp? c))
    | .list [.atom "slice", t] => do some (.slice (← Ty.ofSexp? t))
    | .list [.atom "raw", m, t] => do some (.raw (← bool? m) (← Ty.ofSexp? t))
    | .list [.atom "ref", m, l, t] => do some (.ref (← bool? m) (← Lifetime.ofSexp? l) (← Ty.ofSexp? t))
    | .list [.atom "ph", a, b] => do some (.placeholder (← a.nat?) (← b.nat?))
    | .list [.atom "dyn", ks, qs, l] => do
        some (.dyn (← kindsOfSexp? ks) (← QWCs.ofSexp? qs) (← Lifetime.ofSexp? l))
    | .list [.atom "proj", id, args] => do some (.proj (← id.nat?) (← Args.ofSexp? args))
    | .list [.atom "opaque", id, args] => do some (.opaque (← id.nat?) (← Args.ofSexp? args))
    | .list [.atom "fn", nb, sig, args] => do
        some (.function (← nb.nat?) (← sig.nat?) (← Args.ofSexp? args))
    | .list [.atom "bound", a, b] => do some (.bound (← a.nat?) (← b.nat?))
    | .list [.atom "infer", v, k] => do some (.infer (← v.nat?) (← TyVarKind.ofSexp? k))
    | .list [.atom tag, id, args] => do
        some (.app (← TyName.ofTag? tag (← id.nat?)) (← Args.ofSexp? args))
    | _ => none
  partial def Const.ofSexp? : Sexp → Option Const
    | .list [.atom "const", t, v] => do some (.mk (← Ty.ofSexp? t) (← ConstValue.ofSexp? v))
    | _ => none
  partial def GArg.ofSexp? : Sexp → Option GArg
    | .list [.atom "ty", t] => do some (.ty (← Ty.ofSexp? t))
    | .list [.atom "lt", l] => do some (.lt (← Lifetime.ofSexp? l))
    | .list [.atom "ct", c] => do some (.ct (← Const.ofSexp? c))
    | _ => none
  partial def Args.ofSexp? : Sexp → Option Args
    | .list xs => do some (Args.ofList (← xs.mapM GArg.ofSexp?))
    | _ => none
  partial def WC.ofSexp? : Sexp → Option WC
    | .list [.atom "impl", tr, args] => do some (.implemented (← tr.nat?) (← Args.ofSexp? args))
    | .list [.atom "aeq-proj", id, args, ty] => do
        some (.aliasEqProj (← id.nat?) (← Args.ofSexp? args) (← Ty.ofSexp? ty))
    | .list [.atom "aeq-opaque", id, args, ty] => do
        some (.aliasEqOpaque (← id.nat?) (← Args.ofSexp? args) (← Ty.ofSexp? ty))
    | .list [.atom "lt-outlives", a, b] => do
        some (.ltOutlives (← Lifetime.ofSexp? a) (← Lifetime.ofSexp? b))
    | .list [.atom "ty-outlives", t, l] => do
        some (.tyOutlives (← Ty.ofSexp? t) (← Lifetime.ofSexp? l))
    | _ => none
  partial def QWC.ofSexp? : Sexp → Option QWC
    | .list [.atom "qwc", ks, wc] => do some (.mk (← kindsOfSexp? ks) (← WC.ofSexp? wc))
    | _ => none
  partial def QWCs.ofSexp? : Sexp → Option QWCs
    | .list xs => do some (QWCs.ofList (← xs.mapM QWC.ofSexp?))
    | _ => none
end

def argsListOfSexp? : Sexp → Option (List GArg)
  | .list xs => xs.mapM GArg.ofSexp?
  | _ => none

/-- responses -/
def resToSexp {α} (enc : α → Sexp) : Res α → Sexp
  | .ok a => .list [.atom "ok", enc a]
  | .error .noSolution => .list [.atom "err", .atom "no-solution"]
  | .error (.panic site) => .list [.atom "panic", .atom (site.replace " " "-")]

end Chalk

namespace Chalk
open Sexp

def Variance.toSexp : Variance → Sexp
  | .co => .atom "co" | .inv => .atom "inv" | .contra => .atom "contra"
def Variance.ofSexp? : Sexp → Option Variance
  | .atom "co" => some .co | .atom "inv" => some .inv | .atom "contra" => some .contra
  | _ => none

def Alias.toSexp : Alias → Sexp
  | .proj id a => .list [.atom "proj", sNat id, a.toSexp]
  | .opaque id a => .list [.atom "opaque", sNat id, a.toSexp]
def Alias.ofSexp? : Sexp → Option Alias
  | .list [.atom "proj", id, a] => do some (.proj (← id.nat?) (← Args.ofSexp? a))
  | .list [.atom "opaque", id, a] => do some (.opaque (← id.nat?) (← Args.ofSexp? a))
  | _ => none

def DomainGoal.toSexp : DomainGoal → Sexp
  | .holds w => .list [.atom "holds", w.toSexp]
  | .wfTrait tr a => .list [.atom "wf-trait", sNat tr, a.toSexp]
  | .wfTy t => .list [.atom "wf-ty", t.toSexp]
  | .fromEnvTrait tr a => .list [.atom "from-env-trait", sNat tr, a.toSexp]
  | .fromEnvTy t => .list [.atom "from-env-ty", t.toSexp]
  | .normalize al t => .list [.atom "normalize", al.toSexp, t.toSexp]
  | .isLocal t => .list [.atom "is-local", t.toSexp]
  | .isUpstream t => .list [.atom "is-upstream", t.toSexp]
  | .isFullyVisible t => .list [.atom "is-fully-visible", t.toSexp]
  | .localImplAllowed tr a => .list [.atom "local-impl-allowed", sNat tr, a.toSexp]
  | .compatible => .atom "compatible"
  | .downstreamType t => .list [.atom "downstream-type", t.toSexp]
  | .reveal => .atom "reveal"
  | .objectSafe tr => .list [.atom "object-safe", sNat tr]

def DomainGoal.ofSexp? : Sexp → Option DomainGoal
  | .list [.atom "holds", w] => do some (.holds (← WC.ofSexp? w))
  | .list [.atom "wf-trait", tr, a] => do some (.wfTrait (← tr.nat?) (← Args.ofSexp? a))
  | .list [.atom "wf-ty", t] => do some (.wfTy (← Ty.ofSexp? t))
  | .list [.atom "from-env-trait", tr, a] => do some (.fromEnvTrait (← tr.nat?) (← Args.ofSexp? a))
  | .list [.atom "from-env-ty", t] => do some (.fromEnvTy (← Ty.ofSexp? t))
  | .list [.atom "normalize", al, t] => do some (.normalize (← Alias.ofSexp? al) (← Ty.ofSexp? t))
  | .list [.atom "is-local", t] => do some (.isLocal (← Ty.ofSexp? t))
  | .list [.atom "is-upstream", t] => do some (.isUpstream (← Ty.ofSexp? t))
  | .list [.atom "is-fully-visible", t] => do some (.isFullyVisible (← Ty.ofSexp? t))
  | .list [.atom "local-impl-allowed", tr, a] => do some (.localImplAllowed (← tr.nat?) (← Args.ofSexp? a))
  | .atom "compatible" => some .compatible
  | .list [.atom "downstream-type", t] => do some (.downstreamType (← Ty.ofSexp? t))
  | .atom "reveal" => some .reveal
  | .list [.atom "object-safe", tr] => do some (.objectSafe (← tr.nat?))
  | _ => none

/-- `(udb (<variance list of adt 0> <of adt 1> ...) (<of fndef 0> ...))`; ids beyond the lists
    have the empty list -/
def variancesOfSexp? : Sexp → Option (List Variance)
  | .list xs => xs.mapM Variance.ofSexp?
  | _ => none

def varianceTableOfSexp? : Sexp → Option (List (List Variance))
  | .list xs => xs.mapM variancesOfSexp?
  | _ => none

def resBoolToSexp : Res Bool → Sexp := resToSexp sBool

end Chalk
