/-
  The contract of a solver answer for a goal with unknowns (C01), as an executable acceptance
  predicate over the certified Stage-A evaluator:

  * `Unique σ`        — sound: the goal instantiated by `σ` (its own variables replaced by distinct
                        opaque constants) is certified to hold; complete: no certified solution
                        found by the bounded enumeration fails to be an instance of `σ`.
  * `No solution`     — no certified solution is found by the bounded enumeration.
  * `Ambig(Definite σ)` — the completeness half only.
  * other `Ambig`     — no claim.
  A rejection always carries a witness certified by `evalGoal_sound`; an acceptance of the
  completeness half is "refutation-complete up to the enumeration depth" (DESIGN §5, Stage C open).
-/
import ChalkModel.Eval

namespace Chalk.Sem

def Goal.inst (σ : Nat → Tm) : Goal → Goal
  | .atom a => .atom (a.inst σ)
  | .tt => .tt
  | .and g h => .and (g.inst σ) (h.inst σ)
  | .implies hyps g => .implies (hyps.map (Atom.inst σ)) (g.inst σ)
  | .not g => .not (g.inst σ)
  | .eq s t => .eq (s.inst σ) (t.inst σ)

/-- a constructor symbol with its arity -/
abbrev Sig := List (String × Nat)

/-- all argument tuples of length `n` over `pool` -/
def tuples (pool : List Tm) : Nat → List Tms
  | 0 => [.nil]
  | n + 1 => pool.flatMap fun t => (tuples pool n).map fun ts => .cons t ts

/-- closed terms of depth ≤ `d` over the signature, smaller depths first -/
def termsUpTo (sig : Sig) : Nat → List Tm
  | 0 => (sig.filter (·.2 = 0)).map fun (c, _) => .app c .nil
  | d + 1 =>
      let pool := termsUpTo sig d
      pool ++ ((sig.filter (·.2 ≠ 0)).flatMap fun (c, n) => (tuples pool n).map fun ts => Tm.app c ts).filter
        (fun t => !pool.contains t)

/-- all assignments of `n` variables from `pool` (variable 0 first) -/
def assignments (pool : List Tm) : Nat → List (List Tm)
  | 0 => [[]]
  | n + 1 => pool.flatMap fun t => (assignments pool n).map fun ts => t :: ts

def listSubst (θ : List Tm) : Nat → Tm := fun i => θ.getD i (.var i)

/-- certified solutions among the candidates -/
def solutionsAmong (P : Program) (fuel : Nat) (g : Goal) (cands : List (List Tm)) : List (List Tm) :=
  cands.filter fun θ => evalGoal P fuel [] (g.inst (listSubst θ)) = .yes

/-- is the ground tuple `θ` an instance of the answer substitution `σ` (terms over variables)? -/
def tmsOfList : List Tm → Tms
  | [] => .nil
  | t :: ts => .cons t (tmsOfList ts)

def isInstance (σ θ : List Tm) : Bool := (matchTms (tmsOfList σ) (tmsOfList θ) []).isSome

/-- number the answer's own variables with opaque constants `!g<i>` -/
def genericSubst : Nat → Tm := fun i => .app ("!g" ++ toString i) .nil

mutual
  def Tm.linearAcc : Tm → List Nat → Option (List Nat)
    | .var i, seen => if seen.contains i then none else some (i :: seen)
    | .app _ args, seen => args.linearAcc seen
  def Tms.linearAcc : Tms → List Nat → Option (List Nat)
    | .nil, seen => some seen
    | .cons t ts, seen => match t.linearAcc seen with
        | some s => ts.linearAcc s
        | none => none
end
def isLinear (σ : List Tm) : Bool := ((tmsOfList σ).linearAcc []).isSome

inductive Answer where
  | none
  | unique (σ : List Tm)
  | definite (σ : List Tm)
  | ambigOther
  | malformed

inductive RejectKind where
  | noneButSolution | uniqueDoesNotHold | excludesSolution | malformed
  deriving DecidableEq, Repr

inductive Judgement where
  | accepted (stage : String)
  /-- `kind` is what the theorems speak about; `classifier` only names the shape for known findings -/
  | rejected (kind : RejectKind) (classifier : String) (witness : List Tm)
  | inconclusive (why : String)

def Goal.mentionsCoind (P : Program) : Goal → Bool
  | .atom a => P.coind a.pred
  | .tt => false
  | .and g h => g.mentionsCoind P || h.mentionsCoind P
  | .implies _ g => g.mentionsCoind P
  | .not g => g.mentionsCoind P
  | .eq _ _ => false

/-- the acceptance predicate -/
def judgeAnswer (P : Program) (fuel : Nat) (g : Goal) (cands : List (List Tm)) (slg : Bool) : Answer → Judgement
  | .none =>
      match solutionsAmong P fuel g cands with
      | θ :: _ => .rejected .noneButSolution "no_solution_but_solution_exists" θ
      | [] => .accepted "none:bounded"
  | .unique σ =>
      match evalGoal P fuel [] (g.inst (fun i => (σ.getD i (.var i)).inst genericSubst)) with
      | .no => .rejected .uniqueDoesNotHold
          (if slg && g.mentionsCoind P then "slg_coinductive_variant_cycle" else "unique_does_not_hold")
          (σ.map (Tm.inst genericSubst))
      | v =>
        match (solutionsAmong P fuel g cands).filter (fun θ => !isInstance σ θ) with
        | θ :: _ => .rejected .excludesSolution "unique_excludes_solution" θ
        | [] => if v = .yes then .accepted "unique:A+bounded" else .inconclusive "generic-instance-undecided"
  | .definite σ =>
      match (solutionsAmong P fuel g cands).filter (fun θ => !isInstance σ θ) with
      | θ :: _ => .rejected .excludesSolution
          (if slg && !isLinear σ then "slg_guidance_nonlinear" else "definite_guidance_excludes_solution") θ
      | [] => .accepted "definite:bounded"
  | .ambigOther => .accepted "ambig:no-claim"
  | .malformed => .rejected .malformed "malformed_answer" []

end Chalk.Sem
