/-
  Driver ops for C14 / C15 / C29 (unifier).  Request:
    (relate <udb> (script <op>*) <variance> <a> <b>)
  with script ops `(new-universe)`, `(new-var <ui>)`, `(relate <variance> <a> <b>)` (a history
  step: a failing one is rolled back and the script goes on).  Response:
    (ok (hist <0|1>*) (goals <goal>*) <probe>)   |   (err no-solution (hist ..) <probe>)
    (panic <site>) | (panic-in-history <k> <site>) | (unsupported) | (out-of-fuel)
  <probe> = (probe <maxUniverse> (<var> <root> (unbound <ui>) | (bound <deep-resolved value>))*)
  Only calls model definitions (`relate`, `Table.*`, `Table.resolveGArg`).
-/
import ChalkModel.Wire
import ChalkModel.OpsMatch
import ChalkModel.Unify

namespace Chalk
open Sexp

def UGoal.toSexp : UGoal → Sexp
  | .outlives a b => .list [.atom "outlives", a.toSexp, b.toSexp]
  | .subtype a b => .list [.atom "subtype", a.toSexp, b.toSexp]
  | .aliasEq al ty => .list [.atom "alias-eq", al.toSexp, ty.toSexp]

inductive UScriptOp where
  | newUniverse
  | newVar (ui : Nat)
  | relate (v : Variance) (a b : Ty)

def UScriptOp.ofSexp? : Sexp → Option UScriptOp
  | .list [.atom "new-universe"] => some .newUniverse
  | .list [.atom "new-var", ui] => do some (.newVar (← ui.nat?))
  | .list [.atom "relate", v, a, b] => do
      some (.relate (← Variance.ofSexp? v) (← Ty.ofSexp? a) (← Ty.ofSexp? b))
  | _ => none

def uScriptOfSexp? : Sexp → Option (List UScriptOp)
  | .list (.atom "script" :: ops) => ops.mapM UScriptOp.ofSexp?
  | _ => none

/-- fuel used by the driver (see `Unify.lean`: more fuel never changes a non-`outOfFuel` answer) -/
def uDriverFuel : Nat := 100000

def uProbeSexp (t : Table) : Sexp :=
  let n := t.numVars
  let rows := (List.range n).map fun v =>
    let val := match t.probeValue v with
      | .unbound ui => Sexp.list [.atom "unbound", sNat ui]
      | .bound g => .list [.atom "bound", (t.resolveGArg (n + 1) g).toSexp]
    Sexp.list [sNat v, sNat (t.find v), val]
  .list (.atom "probe" :: sNat t.maxUniverse :: rows)

inductive UScriptRes where
  | done (t : Table) (hist : List Bool)
  | panic (k : Nat) (site : String)
  | unsupported
  | outOfFuel

def uRunScript (db : UDb) : List UScriptOp → Table → List Bool → Nat → UScriptRes
  | [], t, hist, _ => .done t hist.reverse
  | .newUniverse :: ops, t, hist, k => uRunScript db ops t.newUniverse.1 hist (k + 1)
  | .newVar ui :: ops, t, hist, k => uRunScript db ops (t.newVariable ui).1 hist (k + 1)
  | .relate v a b :: ops, t, hist, k =>
      match relate db uDriverFuel uDriverFuel t v a b with
      | (t', .ok _) => uRunScript db ops t' (true :: hist) (k + 1)
      | (t', .noSolution) => uRunScript db ops t' (false :: hist) (k + 1)
      | (_, .panic s) => .panic k s
      | (_, .unsupported _) => .unsupported
      | (_, .outOfFuel) => .outOfFuel

def uSite (s : String) : Sexp := .atom (s.replace " " "-")

def opsUnify : Sexp → Option Sexp
  | .list [.atom "relate", db, script, v, a, b] => do
      let db ← udbOfSexp? db
      let script ← uScriptOfSexp? script
      let v ← Variance.ofSexp? v
      let a ← Ty.ofSexp? a
      let b ← Ty.ofSexp? b
      match uRunScript db script Table.new [] 0 with
      | .panic k s => some (.list [.atom "panic-in-history", sNat k, uSite s])
      | .unsupported => some (.list [.atom "unsupported"])
      | .outOfFuel => some (.list [.atom "out-of-fuel"])
      | .done t hist =>
          let h := Sexp.list (.atom "hist" :: hist.map sBool)
          match relate db uDriverFuel uDriverFuel t v a b with
          | (t', .ok goals) =>
              some (.list [.atom "ok", h, .list (.atom "goals" :: goals.map UGoal.toSexp), uProbeSexp t'])
          | (t', .noSolution) => some (.list [.atom "err", .atom "no-solution", h, uProbeSexp t'])
          | (_, .panic s) => some (.list [.atom "panic", uSite s])
          | (_, .unsupported _) => some (.list [.atom "unsupported"])
          | (_, .outOfFuel) => some (.list [.atom "out-of-fuel"])
  | _ => none

end Chalk
