/- Driver ops for C20 (orphan check): decode program flags + impl / goal, run resolution over the
   clause model of `Orphan.lean`, print `yes` / `no`.  No model logic here.

   `(orphan <adts> <traits> (impl <trait> <ty> ..))`            the orphan check of one impl
   `(orphan-goal <adts> <traits> <pred> <ty>)`                  one auxiliary domain goal
   `(orphan-legacy ..)`, `(orphan-goal-legacy ..)`              same, clauses before the repair of F5
   adts = `((id upstream fundamental) ..)`, traits = `((id upstream) ..)`,
   ty = `(adt id ty ..) | (scalar n) | (tuple ty ..) | (param i)`,
   pred = `is-local | is-upstream | is-fully-visible | downstream-type`. -/
import ChalkModel.Wire
import ChalkModel.Orphan

namespace Chalk.Orphan
open Chalk Chalk.Sexp

mutual
  partial def tyOfSexp? : Sexp → Option Ty
    | .list (.atom "adt" :: id :: args) => do some (.adt (← id.nat?) (← tysOfList? args))
    | .list [.atom "scalar", n] => do some (.scalar (← n.nat?))
    | .list (.atom "tuple" :: args) => do some (.tuple (← tysOfList? args))
    | .list [.atom "param", i] => do some (.param (← i.nat?))
    | _ => none
  partial def tysOfList? : List Sexp → Option Tys
    | [] => some .nil
    | x :: xs => do some (.cons (← tyOfSexp? x) (← tysOfList? xs))
end

def programOfSexp? (adts traits : Sexp) : Option Program :=
  match adts, traits with
  | .list adtl, .list trl => do
      let atab ← adtl.mapM fun
        | .list [id, u, f] => do some ((← id.nat?), AdtFlags.mk (← bool? u) (← bool? f))
        | _ => none
      let ttab ← trl.mapM fun
        | .list [id, u] => do some ((← id.nat?), (← bool? u))
        | _ => none
      some ⟨fun id => ((atab.find? (·.1 == id)).map (·.2)).getD ⟨false, false⟩,
            fun tr => ((ttab.find? (·.1 == tr)).map (·.2)).getD false⟩
  | _, _ => none

def predOfSexp? : Sexp → Option Pred
  | .atom "is-local" => some .isLocal
  | .atom "is-upstream" => some .isUpstream
  | .atom "is-fully-visible" => some .isFullyVisible
  | .atom "downstream-type" => some .downstreamType
  | _ => none

def yesNo (b : Bool) : Sexp := .atom (if b then "yes" else "no")

def implOfSexp? : Sexp → Option Impl
  | .list (.atom "impl" :: tr :: args) => do some ⟨← tr.nat?, ← tysOfList? args⟩
  | _ => none

def opsOrphan : Sexp → Option Sexp
  | .list [.atom "orphan", adts, traits, im] => do
      some (yesNo (provable true (← programOfSexp? adts traits) (orphanGoal (← implOfSexp? im))))
  | .list [.atom "orphan-legacy", adts, traits, im] => do
      some (yesNo (provable false (← programOfSexp? adts traits) (orphanGoal (← implOfSexp? im))))
  | .list [.atom "orphan-goal", adts, traits, p, t] => do
      some (yesNo (provable true (← programOfSexp? adts traits) (.ty (← predOfSexp? p) (← tyOfSexp? t))))
  | .list [.atom "orphan-goal-legacy", adts, traits, p, t] => do
      some (yesNo (provable false (← programOfSexp? adts traits) (.ty (← predOfSexp? p) (← tyOfSexp? t))))
  | _ => none

end Chalk.Orphan
