/-
  Declarative meaning of programs of the Horn fragment (DESIGN §5): first-order terms over the
  program's type constructors plus opaque constants, impls as Horn clauses, inductive predicates
  read as a least fixed point, coinductive ones (`#[coinductive]`, auto traits) as a greatest fixed
  point over a coinductive stratum that is closed under its own clauses ("coinductive impls only
  depend on coinductive goals").  Both fixed points are defined impredicatively (Knaster–Tarski):
  this file contains no algorithm.
-/
namespace Chalk.Sem

mutual
  inductive Tm where
    | app (c : String) (args : Tms)
    | var (i : Nat)
  inductive Tms where
    | nil
    | cons (t : Tm) (ts : Tms)
end

deriving instance DecidableEq, Repr for Tm, Tms

instance : Inhabited Tm := ⟨.var 0⟩

structure Atom where
  pred : String
  args : Tms
  deriving DecidableEq, Repr

/-- a Horn clause `head :- body`; variables are numbered, implicitly universally quantified -/
structure Clause where
  head : Atom
  body : List Atom
  deriving DecidableEq, Repr

structure Program where
  clauses : List Clause
  /-- predicates read coinductively -/
  coind : String → Bool

mutual
  def Tm.inst (σ : Nat → Tm) : Tm → Tm
    | .app c args => .app c (args.inst σ)
    | .var i => σ i
  def Tms.inst (σ : Nat → Tm) : Tms → Tms
    | .nil => .nil
    | .cons t ts => .cons (t.inst σ) (ts.inst σ)
end

def Atom.inst (σ : Nat → Tm) (a : Atom) : Atom := ⟨a.pred, a.args.inst σ⟩

/-- one-step consequence through the program's clauses: `a` is an instance of a clause head whose
    instantiated body atoms all satisfy `X` -/
def ViaClause (P : Program) (X : Atom → Prop) (a : Atom) : Prop :=
  ∃ c ∈ P.clauses, ∃ σ : Nat → Tm, c.head.inst σ = a ∧ ∀ b ∈ c.body, X (b.inst σ)

/-- greatest fixed point: `a` belongs to some set that is consistent w.r.t. `Φ` -/
def InGfp (Φ : (Atom → Prop) → Atom → Prop) (a : Atom) : Prop :=
  ∃ X : Atom → Prop, (∀ x, X x → Φ X x) ∧ X a

/-- least fixed point: `a` belongs to every set closed under `Ψ` -/
def InLfp (Ψ : (Atom → Prop) → Atom → Prop) (a : Atom) : Prop :=
  ∀ X : Atom → Prop, (∀ x, Ψ X x → X x) → X a

/-- the coinductive stratum: coinductive predicates, hypotheses `Γ` count as given -/
def CoStep (P : Program) (Γ : List Atom) (X : Atom → Prop) (a : Atom) : Prop :=
  P.coind a.pred = true ∧ (a ∈ Γ ∨ ViaClause P X a)

def CoHolds (P : Program) (Γ : List Atom) (a : Atom) : Prop := InGfp (CoStep P Γ) a

/-- the inductive stratum on top of it -/
def IndStep (P : Program) (Γ : List Atom) (X : Atom → Prop) (a : Atom) : Prop :=
  a ∈ Γ ∨ (P.coind a.pred = true ∧ CoHolds P Γ a) ∨ (P.coind a.pred = false ∧ ViaClause P X a)

/-- `Holds P Γ a`: the atom `a` is true in the program `P` under hypotheses `Γ` -/
def Holds (P : Program) (Γ : List Atom) (a : Atom) : Prop := InLfp (IndStep P Γ) a

/-! Goals without unknowns. `forall` is instantiated by the caller with an opaque constant (a
    constructor symbol that occurs nowhere in the program), as chalk does with placeholders. -/
inductive Goal where
  | atom (a : Atom)
  | tt
  | and (g h : Goal)
  | implies (hyps : List Atom) (g : Goal)
  | not (g : Goal)
  | eq (s t : Tm)
  deriving Repr

def GHolds (P : Program) : List Atom → Goal → Prop
  | Γ, .atom a => Holds P Γ a
  | _, .tt => True
  | Γ, .and g h => GHolds P Γ g ∧ GHolds P Γ h
  | Γ, .implies hyps g => GHolds P (hyps ++ Γ) g
  | Γ, .not g => ¬ GHolds P Γ g
  | _, .eq s t => s = t

end Chalk.Sem
