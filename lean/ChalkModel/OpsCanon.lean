/-
  Driver ops for C16 (canonicalize / u_canonicalize / instantiate / map_from_canonical / invert).
  The inference table is described in the request as a script that both sides run:
    (table <numUniverses> (<step> ...))     step ::= (new-var <ui>) | (unify-vv <a> <b>) | (bind <v> <garg>)
  Wire glue only; no model logic.
-/
import ChalkModel.Wire
import ChalkModel.OpsAggregate
import ChalkModel.Canon
import ChalkModel.UCanon
import ChalkModel.Invert

namespace Chalk
open Sexp

def newUniverses : Nat → Table → Table
  | 0, t => t
  | n + 1, t => newUniverses n t.newUniverse.1

def runScriptStep (t : Table) : Sexp → Option (Res Table)
  | .list [.atom "new-var", ui] => do some (.ok (t.newVariable (← ui.nat?)).1)
  | .list [.atom "unify-vv", a, b] => do some (t.unifyVarVar (← a.nat?) (← b.nat?))
  | .list [.atom "bind", v, g] => do some (t.unifyVarValue (← v.nat?) (.bound (← GArg.ofSexp? g)))
  | _ => none

def runScript : Table → List Sexp → Option (Res Table)
  | t, [] => some (.ok t)
  | t, s :: rest =>
    match runScriptStep t s with
    | none => none
    | some (.error e) => some (.error e)
    | some (.ok t') => runScript t' rest

def tableOfSexp? : Sexp → Option (Res Table)
  | .list [.atom "table", nu, .list steps] => do runScript (newUniverses (← nu.nat?) Table.new) steps
  | _ => none

def rootsToSexp (fv : List (VarKind × Nat)) : Sexp := .list (fv.map fun p => sNat p.2)
def natsToSexp (xs : List Nat) : Sexp := .list (xs.map sNat)

def canonicalizedToSexp (c : Canonicalized Args) : Sexp :=
  .list [canonArgsToSexp c.quantified, rootsToSexp c.freeVars]

def canonTyToSexp (c : Canon Ty) : Sexp := .list [.atom "canon", bindersToSexp c.binders, c.value.toSexp]

def ucanonToSexp (u : UCanonicalized Args) : Sexp :=
  .list [.list [.atom "ucanon", sNat u.quantified.universes, canonArgsToSexp u.quantified.canonical],
         natsToSexp u.universes]

def scriptPanic (e : Err) : Sexp := resToSexp (fun (_ : Unit) => .atom "unit") (.error e)

def withTable (ts : Sexp) (k : Table → Sexp) : Option Sexp :=
  match tableOfSexp? ts with
  | none => none
  | some (.error e) => some (.list [.atom "script", scriptPanic e])
  | some (.ok t) => some (k t)

def opsCanon : Sexp → Option Sexp
  | .list [.atom "canon", ts, v] => do
      let v ← Args.ofSexp? v
      withTable ts fun t => resToSexp canonicalizedToSexp (t.canonicalize v)
  | .list [.atom "canon-ty", ts, v] => do
      let v ← Ty.ofSexp? v
      withTable ts fun t => resToSexp (fun c => .list [canonTyToSexp c.quantified, rootsToSexp c.freeVars])
        (t.canonicalizeTy v)
  | .list [.atom "ucanon", c] => do
      some (resToSexp ucanonToSexp (uCanonicalize (← canonArgsOfSexp? c)))
  | .list [.atom "map-from-canonical", um, c] => do
      some (resToSexp canonArgsToSexp (mapFromCanonical (← natListOfSexp? um) (← canonArgsOfSexp? c)))
  | .list [.atom "instantiate-canon", ts, c] => do
      let c ← canonArgsOfSexp? c
      withTable ts fun t =>
        match t.instantiateCanonical c with
        | .error e => scriptPanic e
        | .ok (v, t') =>
          resToSexp (fun cz => .list [v.toSexp, canonArgsToSexp cz.quantified, rootsToSexp cz.freeVars])
            (t'.canonicalize v)
  | .list [.atom "instantiate-ex", ts, ks, v] => do
      let ks ← kindsOfSexp? ks
      let v ← Args.ofSexp? v
      withTable ts fun t => resToSexp (fun p => p.1.toSexp) (t.instantiateBindersExistentially ks v)
  | .list [.atom "instantiate-univ", ts, ks, v] => do
      let ks ← kindsOfSexp? ks
      let v ← Args.ofSexp? v
      withTable ts fun t => resToSexp (fun p => .list [p.1.toSexp, sNat p.2.maxUniverse])
        (t.instantiateBindersUniversally ks v)
  | .list [.atom "invert", ts, v] => do
      let v ← Args.ofSexp? v
      withTable ts fun t =>
        match t.invert v with
        | .error e => scriptPanic e
        | .ok none => .list [.atom "ok", .atom "none"]
        | .ok (some (r, t')) =>
          resToSexp (fun cz => .list [.atom "some", r.toSexp, canonArgsToSexp cz.quantified])
            (t'.canonicalize r)
  | _ => none

end Chalk
