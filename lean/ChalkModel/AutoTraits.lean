/-
  C05: the clauses an auto trait contributes, built from the program *data* (ADTs with their field
  types, explicit positive impls, negative impls) exactly as the property's sentence says:
  "an auto trait holds for a type exactly when the type has an applicable explicit impl or, if its
  type constructor has no explicit or negative impl, when every constituent type satisfies it, with
  cyclic requirements counted as satisfied" (= coinductive reading).
-/
import ChalkModel.Sem

namespace Chalk.Sem

/-- an ADT: constructor symbol, number of type parameters, field types over variables `0..n-1`
    (all variants' fields together) -/
structure AdtDecl where
  name : String
  nparams : Nat
  fields : List Tm
  deriving Repr

structure AutoData where
  adts : List AdtDecl
  /-- built-in constructors without constituents (scalars, str, never) -/
  leaves : List String
  /-- tuple constructors: symbol and arity; constituents = the components -/
  tuples : List (String × Nat)
  /-- explicit positive impls of all traits, as clauses -/
  impls : List Clause
  /-- (auto trait, constructor symbol) pairs for which an explicit *or negative* impl exists -/
  provided : List (String × String)
  autoTraits : List String
  coTraits : List String

def varList : Nat → Nat → Tms
  | _, 0 => .nil
  | i, n + 1 => .cons (.var i) (varList (i + 1) n)

def tmsToList' : Tms → List Tm
  | .nil => []
  | .cons t ts => t :: tmsToList' ts

/-- the default ("auto") impl clauses of auto trait `tr` -/
def autoClausesFor (D : AutoData) (tr : String) : List Clause :=
  let ok (c : String) : Bool := !(D.provided.contains (tr, c))
  (D.adts.filter (fun a => ok a.name)).map (fun a =>
      ⟨⟨tr, .cons (.app a.name (varList 0 a.nparams)) .nil⟩, a.fields.map fun f => ⟨tr, .cons f .nil⟩⟩) ++
  (D.leaves.filter ok).map (fun c => ⟨⟨tr, .cons (.app c .nil) .nil⟩, []⟩) ++
  (D.tuples.filter (fun t => ok t.1)).map (fun (c, n) =>
      ⟨⟨tr, .cons (.app c (varList 0 n)) .nil⟩, (tmsToList' (varList 0 n)).map fun x => ⟨tr, .cons x .nil⟩⟩)

def autoProgram (D : AutoData) : Program :=
  ⟨D.impls ++ D.autoTraits.flatMap (autoClausesFor D), fun p => D.autoTraits.contains p || D.coTraits.contains p⟩

end Chalk.Sem
