/-
  Wire format for Horn programs / goals and the certified-checker driver ops
  (`judge-ground`: C02 and the ground parts of C01/C05/C06/C13).
  Responses: `(accepted <stage> <detail>)`, `(rejected <classifier> <detail>)`,
  `(inconclusive <why>)`.
-/
import ChalkModel.Props.C01gen
import ChalkModel.Wire
import ChalkModel.Eval
import ChalkModel.Contract
import ChalkModel.Compat
import ChalkModel.AutoTraits
import ChalkModel.Enumeration
import ChalkModel.AnswerStream
import ChalkModel.WfCheck

namespace Chalk.Sem
open Chalk Chalk.Sexp

mutual
  partial def tmOfSexp? : Sexp → Option Tm
    | .list [.atom "var", i] => do some (.var (← i.nat?))
    | .list (.atom "app" :: .atom c :: args) => do some (.app c (← tmsOfList? args))
    | _ => none
  partial def tmsOfList? : List Sexp → Option Tms
    | [] => some .nil
    | x :: xs => do some (.cons (← tmOfSexp? x) (← tmsOfList? xs))
end

mutual
  partial def tmToSexp : Tm → Sexp
    | .var i => .list [.atom "var", sNat i]
    | .app c args => .list (.atom "app" :: .atom c :: tmsToList args)
  partial def tmsToList : Tms → List Sexp
    | .nil => []
    | .cons t ts => tmToSexp t :: tmsToList ts
end

def atomOfSexp? : Sexp → Option Atom
  | .list (.atom "atom" :: .atom p :: args) => do some ⟨p, ← tmsOfList? args⟩
  | _ => none
def atomToSexp (a : Atom) : Sexp := .list (.atom "atom" :: .atom a.pred :: tmsToList a.args)

def atomsOfSexp? : Sexp → Option (List Atom)
  | .list xs => xs.mapM atomOfSexp?
  | _ => none

def clauseOfSexp? : Sexp → Option Clause
  | .list [.atom "clause", h, b] => do some ⟨← atomOfSexp? h, ← atomsOfSexp? b⟩
  | _ => none

/-- `(program (clauses...) (coinductive-preds...))` -/
def programOfSexp? : Sexp → Option Program
  | .list [.atom "program", .list cs, .list co] => do
      let cls ← cs.mapM clauseOfSexp?
      let cos ← co.mapM fun | .atom s => some s | _ => none
      some ⟨cls, fun p => cos.contains p⟩
  | _ => none

partial def goalOfSexp? : Sexp → Option Goal
  | .atom "tt" => some .tt
  | .list [.atom "and", g, h] => do some (.and (← goalOfSexp? g) (← goalOfSexp? h))
  | .list [.atom "implies", hs, g] => do some (.implies (← atomsOfSexp? hs) (← goalOfSexp? g))
  | .list [.atom "not", g] => do some (.not (← goalOfSexp? g))
  | .list [.atom "eq", s, t] => do some (.eq (← tmOfSexp? s) (← tmOfSexp? t))
  | a => (atomOfSexp? a).map .atom

def Verdict.toSexp : Verdict → Sexp
  | .yes => .atom "yes" | .no => .atom "no" | .unknown => .atom "unknown"

/-- the answer kinds a solver can give for a goal without unknowns -/
inductive GroundAnswer where
  | unique | none | ambig | other
  deriving DecidableEq

def groundAnswerOfSexp : Sexp → GroundAnswer
  | .atom "unique" => .unique
  | .atom "none" => .none
  | .atom "ambig" => .ambig
  | _ => .other

/-- C02's contract for one solver answer given the certified verdict -/
def judgeGround (v : Verdict) (ans : GroundAnswer) : Sexp :=
  match v, ans with
  | .unknown, _ => .list [.atom "inconclusive", .atom "fuel-or-fragment"]
  | .yes, .unique => .list [.atom "accepted", .atom "A", .atom "yes"]
  | .no, .none => .list [.atom "accepted", .atom "A", .atom "no"]
  | .yes, .none => .list [.atom "rejected", .atom "no_solution_but_goal_holds", .atom "certified-yes"]
  | .no, .unique => .list [.atom "rejected", .atom "unique_but_goal_fails", .atom "certified-no"]
  | .yes, .ambig => .list [.atom "rejected", .atom "ground_goal_ambiguous", .atom "certified-yes"]
  | .no, .ambig => .list [.atom "rejected", .atom "ground_goal_ambiguous", .atom "certified-no"]
  | _, .other => .list [.atom "rejected", .atom "malformed_answer", .atom "-"]

def sigOfSexp? : Sexp → Option Sig
  | .list xs => xs.mapM fun
      | .list [.atom c, n] => do some (c, ← n.nat?)
      | _ => none
  | _ => none

def tmListOfSexp? : Sexp → Option (List Tm)
  | .list xs => xs.mapM tmOfSexp?
  | _ => none

def answerOfSexp : Sexp → Answer
  | .atom "none" => .none
  | .atom "ambig" => .ambigOther
  | .list [.atom "unique", σ] => match tmListOfSexp? σ with | some l => .unique l | none => .malformed
  | .list [.atom "definite", σ] => match tmListOfSexp? σ with | some l => .definite l | none => .malformed
  | _ => .malformed

def Judgement.toSexp : Judgement → Sexp
  | .accepted st => .list [.atom "accepted", .atom st]
  | .rejected _ c w => .list [.atom "rejected", .atom c, .list (w.map tmToSexp)]
  | .inconclusive why => .list [.atom "inconclusive", .atom why]

/-- An accepted `Unique σ` is certified on the generic instantiation of `σ`; when program, goal and
    answer contain no `!g…` symbol and the goal is positive, `C01gen.accepted_unique_holds_every_instance`
    lifts that to EVERY instantiation — the stage name records that the theorem's executable side
    conditions were evaluated and hold. -/
def refineUniqueStage (P : Program) (g : Goal) (ans : Answer) (r : Sexp) : Sexp :=
  match r, ans with
  | .list [.atom "accepted", .atom "unique:A+bounded"], .unique σ =>
      if Chalk.C01gen.Program.avoidsGenericB P && Chalk.C01gen.Goal.avoidsGenericB g && g.positiveB
          && Chalk.C01gen.answerAvoidsGenericB σ
      then .list [.atom "accepted", .atom "unique:A+bounded+every-instance"] else r
  | r, _ => r

def strList? : Sexp → Option (List String)
  | .list xs => xs.mapM fun | .atom s => some s | _ => none
  | _ => none

/-- `(auto-data (adts (name n (fields..))..) (leaves ..) (tuples (name n)..) (impls clause..)
      (provided (tr name)..) (autotraits ..) (cotraits ..))` -/
def autoDataOfSexp? : Sexp → Option AutoData
  | .list [.atom "auto-data", .list adts, leaves, .list tuples, .list impls, .list provided, autos, cos] => do
      let adts ← adts.mapM fun
        | .list [.atom name, n, fs] => do some (⟨name, ← n.nat?, ← tmListOfSexp? fs⟩ : AdtDecl)
        | _ => none
      let tuples ← tuples.mapM fun
        | .list [.atom name, n] => do some (name, ← n.nat?)
        | _ => none
      let provided ← provided.mapM fun
        | .list [.atom tr, .atom name] => some (tr, name)
        | _ => none
      some { adts := adts, leaves := ← strList? leaves, tuples := tuples, impls := ← impls.mapM clauseOfSexp?,
             provided := provided, autoTraits := ← strList? autos, coTraits := ← strList? cos }
  | _ => none

def storedOfSexp? : Sexp → Option StoredAnswer
  | .list [k, a, d, i] => do some ⟨← k.nat?, ← bool? a, ← bool? d, ← bool? i⟩
  | _ => none

def yieldToSexp : Yield × Bool → Sexp
  | (.definite k, m) => .list [.atom "definite", sNat k, sBool m]
  | (.ambiguous k, m) => .list [.atom "ambiguous", sNat k, sBool m]
  | (.floundered, m) => .list [.atom "floundered", sBool m]

def EnumVerdict.toSexp : EnumVerdict → Sexp
  | .accepted st => .list [.atom "accepted", .atom st]
  | .notSound i σ => .list [.atom "rejected", .atom "enumerated_answer_does_not_hold", .list (sNat i :: σ.map tmToSexp)]
  | .duplicate i j => .list [.atom "rejected", .atom "answer_enumerated_twice", .list [sNat i, sNat j]]
  | .misses θ => .list [.atom "rejected", .atom "enumeration_misses_solution", .list (θ.map tmToSexp)]
  | .inconclusive why => .list [.atom "inconclusive", .atom why]

/-- classifier refinement only (as for `judge-enumeration`): an unsound `Unique` of the SLG solver on a
    program with coinductive predicates is the F11 shape, also when the goal reaches the coinductive
    predicate only through an inductive one -/
def refineF11 (P : Program) (slg : Bool) (c : String) : String :=
  if slg && P.clauses.any (fun cl => P.coind cl.head.pred) then
    if c == "unique_does_not_hold" then "slg_coinductive_variant_cycle"
    else if c == "unique_excludes_solution" then "slg_coinductive_unique_excludes_solution"
    else c
  else c

def opsSem : Sexp → Option Sexp
  | .list [.atom "decide", p, g, fuel] => do
      some (.list [.atom "ok", (evalGoal (← programOfSexp? p) (← fuel.nat?) [] (← goalOfSexp? g)).toSexp])
  | .list [.atom "judge-ground", p, g, fuel, ans] => do
      let v := evalGoal (← programOfSexp? p) (← fuel.nat?) [] (← goalOfSexp? g)
      some (judgeGround v (groundAnswerOfSexp ans))
  | .list [.atom "judge-ground", p, g, fuel, ans, .atom ctx] => do
      let v := evalGoal (← programOfSexp? p) (← fuel.nat?) [] (← goalOfSexp? g)
      -- `ctx` (which solver, which shape of input) only refines the classifier of a rejection
      some (match judgeGround v (groundAnswerOfSexp ans) with
        | .list [.atom "rejected", .atom c, d] => .list [.atom "rejected", .atom (c ++ "@" ++ ctx), d]
        | r => r)
  | .list [.atom "judge-ground-auto", d, g, fuel, ans, .atom ctx] => do
      let v := evalGoal (autoProgram (← autoDataOfSexp? d)) (← fuel.nat?) [] (← goalOfSexp? g)
      -- `ctx` (which solver, fresh or reused instance) only refines the classifier of a rejection
      some (match judgeGround v (groundAnswerOfSexp ans) with
        | .list [.atom "rejected", .atom c, d] => .list [.atom "rejected", .atom (c ++ "@" ++ ctx), d]
        | r => r)
  | .list [.atom "stream", fl, .list answers, .list decisions] => do
      let r := solveMultiple (← bool? fl) (← answers.mapM storedOfSexp?) (← decisions.mapM bool?)
      some (.list (.atom "ok" :: r.map yieldToSexp))
  | .list [.atom "judge-enumeration", p, g, nvars, fuel, sig, depth, maxc, .list answers, complete] => do
      let P ← programOfSexp? p
      let pool := termsUpTo (← sigOfSexp? sig) (← depth.nat?)
      let cands := (assignments pool (← nvars.nat?)).take (← maxc.nat?)
      let v := judgeEnumeration P (← fuel.nat?) (← goalOfSexp? g) cands (← answers.mapM tmListOfSexp?) (← bool? complete)
      -- classifier refinement only: unsound answers of programs with coinductive predicates are the F11 shape
      some (match v with
        | .notSound i σ =>
            if P.clauses.any (fun c => P.coind c.head.pred) then
              .list [.atom "rejected", .atom "slg_coinductive_variant_cycle", .list (sNat i :: σ.map tmToSexp)]
            else v.toSexp
        | _ => v.toSexp)
  | .list [.atom "judge-wf", p, .list imps, sig, depth, maxc, fuel] => do
      let P ← programOfSexp? p
      let imps ← imps.mapM fun
        | .list [n, prem, concl] => do some (⟨← n.nat?, ← atomsOfSexp? prem, ← atomOfSexp? concl⟩ : Implication)
        | _ => none
      let pool := termsUpTo (← sigOfSexp? sig) (← depth.nat?)
      some (match judgeWf P (← fuel.nat?) pool (← maxc.nat?) imps 0 0 0 with
        | .accepted c u => .list [.atom "accepted", .atom "wf-instances", sNat c, sNat u]
        | .rejected i θ => .list [.atom "rejected", .atom "accepted_program_violates_implied_bound", .list (sNat i :: θ.map tmToSexp)])
  | .list [.atom "compatible", a, b] =>
      let (x, y) := (answerOfSexp a, answerOfSexp b)
      some (if compatible x y then .list [.atom "accepted", .atom "compatible"]
            else .list [.atom "rejected", .atom "solvers_contradict", .list []])
  | .list [.atom "compatible", a, b, .atom ctx] =>
      let (x, y) := (answerOfSexp a, answerOfSexp b)
      -- `ctx` (the shape of input) only refines the classifier of a rejection
      some (if compatible x y then .list [.atom "accepted", .atom "compatible"]
            else .list [.atom "rejected", .atom ("solvers_contradict@" ++ ctx), .list []])
  | .list [.atom "judge-answer", p, g, nvars, fuel, sig, depth, maxc, slg, ans, .atom ctx] => do
      let P ← programOfSexp? p
      let pool := termsUpTo (← sigOfSexp? sig) (← depth.nat?)
      let cands := (assignments pool (← nvars.nat?)).take (← maxc.nat?)
      -- `ctx` (which solver, which shape of input) only refines the classifier of a rejection
      let isSlg ← bool? slg
      let G ← goalOfSexp? g
      some (match (judgeAnswer P (← fuel.nat?) G cands isSlg (answerOfSexp ans)).toSexp with
        | .list [.atom "rejected", .atom c, d] =>
            .list [.atom "rejected", .atom (refineF11 P isSlg c ++ "@" ++ ctx), d]
        | r => refineUniqueStage P G (answerOfSexp ans) r)
  | .list [.atom "judge-answer", p, g, nvars, fuel, sig, depth, maxc, slg, ans] => do
      let P ← programOfSexp? p
      let pool := termsUpTo (← sigOfSexp? sig) (← depth.nat?)
      let cands := (assignments pool (← nvars.nat?)).take (← maxc.nat?)
      let isSlg ← bool? slg
      let G ← goalOfSexp? g
      some (match (judgeAnswer P (← fuel.nat?) G cands isSlg (answerOfSexp ans)).toSexp with
        | .list [.atom "rejected", .atom c, d] => .list [.atom "rejected", .atom (refineF11 P isSlg c), d]
        | r => refineUniqueStage P G (answerOfSexp ans) r)
  | _ => none

end Chalk.Sem
