/-
  Ground resolution over an arbitrary clause source (used by `Builtin.lean`, C08).

  `cf a` lists the bodies of the clause instances whose head is the ground atom `a`.  `Derivable cf`
  is the least fixed point (the meaning).  `solve` is depth-first resolution with an ancestor stack
  (an atom that is its own ancestor fails along that path: an inductive cycle proves nothing) and
  fuel; `unknown` only when the fuel runs out.  Soundness of both `yes` and `no` is proved in
  `Lemmas/GroundResLemmas.lean`.
-/
import ChalkModel.Eval

namespace Chalk.GroundRes
open Chalk.Sem (Verdict)

inductive Derivable {α : Type} (cf : α → List (List α)) : α → Prop where
  | step {a : α} {body : List α} : body ∈ cf a → (∀ b, b ∈ body → Derivable cf b) → Derivable cf a

def solve {α : Type} [DecidableEq α] (cf : α → List (List α)) : Nat → List α → α → Verdict
  | 0, _, _ => .unknown
  | fuel + 1, stack, a =>
      if a ∈ stack then .no
      else
        (cf a).foldr (fun body acc =>
          (body.foldr (fun b acc' => (solve cf fuel (a :: stack) b).and acc') .yes).or acc) .no

end Chalk.GroundRes
