/-
  Model of chalk's coherence check for ONE trait (chalk-solve/src/coherence.rs and
  chalk-solve/src/coherence/solve.rs), parameterised by the answers of the two solver queries it
  makes (`disjoint`, `specializes`).  Imports nothing: linked into the model driver.

  Anchors (Rust item -> definition here):
    CoherenceSolver::visit_specializations_of_trait  -> `visit` / `visitPairs`   (solve.rs)
    Itertools::tuple_combinations over the impl list -> `pairs`
    CoherenceSolver::build_specialization_forest     -> `buildForest`, `record`   (coherence.rs)
    petgraph DiGraph add_node / update_edge / neighbors / externals(Incoming) / node_count
                                                     -> `Graph.*`
    SpecializationPriorities::insert                 -> `PMap.insert`
    CoherenceSolver::set_priorities                  -> `setPriorities` (+ `forEach` for its loop)
    CoherenceSolver::specialization_priorities       -> `specializationPriorities`

  The model mirrors the code AFTER the repair of finding F4 ("fix: coherence: …" in /repo):
  `insert` keeps the highest priority and reports whether it changed, `set_priorities` returns
  early when it did not and gives up with `OverlappingImpls` once the depth reaches the number of
  nodes.  The code BEFORE the repair (`assert!(old_value.is_none())`) is kept as `Legacy.*` so that
  the defect stays stated and machine-checked (Props/C19.lean, `legacy_assert_trips_on_chain`).

  Impls are numbered 0..n-1 in the order of `local_impls_to_coherence_check` (source order).
  A petgraph `NodeIndex` is represented by the node's weight (the impl number): `node_map` in
  `build_specialization_forest` maintains exactly that bijection, the order of node indices is the
  order of the list `Graph.nodes`.
-/

namespace Chalk.Coherence

/-- Answers of the solver for the pair `(l, r)`, `l` before `r` in the impl list.
    `specLR = specializes(l_id, r_id)` ("`r` is more special than `l`"),
    `specRL = specializes(r_id, l_id)` ("`l` is more special than `r`"). -/
structure PairAns where
  disjoint : Bool
  specLR : Bool
  specRL : Bool
  deriving Repr, DecidableEq, Inhabited

/-- Everything `specialization_priorities` reads for one trait. -/
structure Input where
  /-- number of local impls of the trait -/
  n : Nat
  /-- `trait_datum.flags.marker` -/
  marker : Bool
  /-- `!impl_datum.is_positive()` -/
  negative : Nat → Bool
  /-- solver answers for the pair `(l, r)`, consulted only for `l < r < n` -/
  oracle : Nat → Nat → PairAns

/-- Three-way result: `overlap` is `Err(CoherenceError::OverlappingImpls)`, `panic` a Rust panic. -/
inductive Res (α : Type) where
  | ok (a : α)
  | overlap
  | panic
  deriving Repr, DecidableEq

/-- `impls.into_iter().tuple_combinations()`: all pairs in list order, first component outermost. -/
def pairs : List Nat → List (Nat × Nat)
  | [] => []
  | x :: xs => xs.map (fun y => (x, y)) ++ pairs xs

/-- The loop body of `visit_specializations_of_trait`; `acc` are the calls of
    `record_specialization(less_special, more_special)` made so far, in order. -/
def visitPairs (inp : Input) : List (Nat × Nat) → List (Nat × Nat) → Option (List (Nat × Nat))
  | [], acc => some acc
  | (l, r) :: rest, acc =>
    -- Two negative impls never overlap.
    if inp.negative l && inp.negative r then visitPairs inp rest acc
    else if !(inp.oracle l r).disjoint then
      match (inp.oracle l r).specLR, (inp.oracle l r).specRL with
      | true, false => visitPairs inp rest (acc ++ [(l, r)])
      | false, true => visitPairs inp rest (acc ++ [(r, l)])
      | _, _ => none
    else visitPairs inp rest acc

/-- `visit_specializations_of_trait`: `none` is `Err(OverlappingImpls)`. -/
def visit (inp : Input) : Option (List (Nat × Nat)) :=
  -- Ignore impls for marker traits as they are allowed to overlap.
  if inp.marker then some []
  else visitPairs inp (pairs (List.range inp.n)) []

/-- The part of `petgraph::Graph<ImplId, ()>` the code uses. -/
structure Graph where
  /-- node weights in `add_node` order -/
  nodes : List Nat
  /-- `(source, target)` in `add_edge` order -/
  edges : List (Nat × Nat)
  deriving Repr, DecidableEq

namespace Graph

def empty : Graph := ⟨[], []⟩

/-- `*node_map.entry(v).or_insert_with(|| forest.add_node(v))` -/
def addNode (g : Graph) (v : Nat) : Graph :=
  if v ∈ g.nodes then g else { g with nodes := g.nodes ++ [v] }

/-- `update_edge(a, b, ())`: adds the edge unless it is there already. -/
def updateEdge (g : Graph) (a b : Nat) : Graph :=
  if (a, b) ∈ g.edges then g else { g with edges := g.edges ++ [(a, b)] }

def nodeCount (g : Graph) : Nat := g.nodes.length

/-- `neighbors(v)`: targets of the outgoing edges, most recently added edge first. -/
def neighbors (g : Graph) (v : Nat) : List Nat :=
  ((g.edges.filter (fun e => e.1 == v)).map (fun e => e.2)).reverse

/-- `externals(Direction::Incoming)`: nodes without an incoming edge, in node-index order. -/
def externalsIncoming (g : Graph) : List Nat :=
  g.nodes.filter (fun v => !(g.edges.any (fun e => e.2 == v)))

end Graph

/-- the closure passed to `visit_specializations_of_trait` in `build_specialization_forest` -/
def record (g : Graph) (e : Nat × Nat) : Graph :=
  ((g.addNode e.1).addNode e.2).updateEdge e.1 e.2

/-- `build_specialization_forest` -/
def buildForest (inp : Input) : Option Graph :=
  match visit inp with
  | none => none
  | some recs => some (recs.foldl record Graph.empty)

/-- `IndexMap<ImplId, SpecializationPriority>`: entries in insertion order. -/
abbrev PMap := List (Nat × Nat)

namespace PMap

def get? : PMap → Nat → Option Nat
  | [], _ => none
  | (k, v) :: rest, i => if k = i then some v else get? rest i

/-- `SpecializationPriorities::insert` (after the repair): keep the highest priority stored so
    far (an updated entry keeps its position, a new one is appended); `true` iff the map changed. -/
def insert : PMap → Nat → Nat → PMap × Bool
  | [], k, p => ([(k, p)], true)
  | (k', v) :: rest, k, p =>
    if k' = k then
      if v ≥ p then ((k', v) :: rest, false) else ((k', p) :: rest, true)
    else
      ((k', v) :: (insert rest k p).1, (insert rest k p).2)

end PMap

/-- `for x in xs { f(x, map)?; }` -/
def forEach (f : Nat → PMap → Res PMap) : List Nat → PMap → Res PMap
  | [], m => .ok m
  | c :: cs, m =>
    match f c m with
    | .ok m' => forEach f cs m'
    | .overlap => .overlap
    | .panic => .panic

/-- `set_priorities(idx, forest, p, map)`.  The first argument is `forest.node_count() - p`
    (it is `node_count` at the roots, where `p = 0`, and decreases as `p` increases), so the
    test `p >= forest.node_count()` is "first argument is 0". -/
def setPriorities (g : Graph) : Nat → Nat → Nat → PMap → Res PMap
  | 0, _, _, _ => .overlap
  | d + 1, idx, p, m =>
    -- `forest.node_weight(idx).expect("index should be a valid index into graph")`
    if idx ∈ g.nodes then
      match PMap.insert m idx p with
      | (m', true) => forEach (fun c m'' => setPriorities g d c (p + 1) m'') (g.neighbors idx) m'
      | (m', false) => .ok m'
    else .panic

/-- `specialization_priorities`, result as the insertion-ordered map. -/
def specializationPriorities (inp : Input) : Res PMap :=
  match buildForest inp with
  | none => .overlap
  | some g => forEach (fun r m => setPriorities g g.nodeCount r 0 m) g.externalsIncoming []

/-- Canonical rendering of the accepted priorities: one entry per impl `0..n-1`
    (`none`: the impl takes part in no specialization and has no entry in the map). -/
def priorityList (inp : Input) (m : PMap) : List (Option Nat) :=
  (List.range inp.n).map (fun i => m.get? i)

/-- Which queries `visit_specializations_of_trait` makes, in order: per visited pair `(l, r)` the
    number of solver answers consumed (0: both negative, skipped; 1: `disjoint` only; 3: all). -/
def queryTraceAux (inp : Input) : List (Nat × Nat) → List (Nat × Nat × Nat)
  | [] => []
  | (l, r) :: rest =>
    if inp.negative l && inp.negative r then (l, r, 0) :: queryTraceAux inp rest
    else if !(inp.oracle l r).disjoint then
      match (inp.oracle l r).specLR, (inp.oracle l r).specRL with
      | true, false => (l, r, 3) :: queryTraceAux inp rest
      | false, true => (l, r, 3) :: queryTraceAux inp rest
      | _, _ => [(l, r, 3)]
    else (l, r, 1) :: queryTraceAux inp rest

def queryTrace (inp : Input) : List (Nat × Nat × Nat) :=
  if inp.marker then [] else queryTraceAux inp (pairs (List.range inp.n))

/-! ### The code before the repair of F4 (`/repo` commit 47ba51d), kept to state the defect -/
namespace Legacy

/-- `let old_value = self.map.insert(impl_id, p); assert!(old_value.is_none());` -/
def insert (m : PMap) (k p : Nat) : Res PMap :=
  match m.get? k with
  | none => .ok (m ++ [(k, p)])
  | some _ => .panic

/-- `set_priorities` without depth test: the first argument is plain fuel (never exhausted before
    the assertion fails when it is at least the number of nodes). -/
def setPriorities (g : Graph) : Nat → Nat → Nat → PMap → Res PMap
  | 0, _, _, _ => .overlap
  | d + 1, idx, p, m =>
    if idx ∈ g.nodes then
      match insert m idx p with
      | .ok m' => forEach (fun c m'' => setPriorities g d c (p + 1) m'') (g.neighbors idx) m'
      | .overlap => .overlap
      | .panic => .panic
    else .panic

def specializationPriorities (inp : Input) : Res PMap :=
  match buildForest inp with
  | none => .overlap
  | some g => forEach (fun r m => setPriorities g (g.nodeCount + 1) r 0 m) g.externalsIncoming []

end Legacy

/-! ### Inputs from a pair table (what the driver receives) -/

/-- Position of `(l, r)` in `tuple_combinations` order. -/
def pairIndex (n l r : Nat) : Nat := (pairs (List.range n)).idxOf (l, r)

def Input.ofTable (n : Nat) (marker : Bool) (neg : List Bool) (table : List PairAns) : Input :=
  { n := n, marker := marker,
    negative := fun i => neg.getD i false,
    oracle := fun l r => table.getD (pairIndex n l r) ⟨true, false, false⟩ }

end Chalk.Coherence
