/-
  MakeSolution.lean — executable model of `AggregateOps::make_solution`
  (chalk-engine/src/slg/aggregate.rs) over a COMPLETED root table.

  What is modelled.  `make_solution` draws answers from an `AnswerStream` (`next_answer`,
  `peek_answer`, `any_future_answer`).  On a table that is already complete — every answer stored,
  no strand left, not floundered — and with a `should_continue` that never says stop, the stream is
  a pure function of the stored answers, in their order:
    * `next_answer`  = the next stored answer, else `NoMoreSolutions`;
    * `peek_answer`  = the same without advancing;
    * `any_future_answer(test)` = `test` holds for the substitution of SOME stored answer from the
      current index on (`Forest::any_future_answer`: the cached answers starting at `answer_index`,
      then the strands — there are none), evaluated left to right, stopping at the first hit.
  This is the situation of every query on a solver instance that has answered the same goal (or
  enumerated it with `solve_multiple`) before.  The harness brings the real forest into that state
  first (C17's `ms` cases), then compares the real `solve` with this function on the answers dumped
  through the cfg hook.
  NOT modelled: incomplete tables (strands are pursued on demand), `Floundered`, `QuantumExceeded`
  (interrupted runs), `expected_answers` (a test-only assertion, `None` in `SolverChoice::slg_default`).
  Region constraints of answers are carried only by `Unique`, as in the code.  Imports only model files.
-/
import ChalkModel.Aggregate

namespace Chalk

/-- `CompleteAnswer { subst: Canonical<ConstrainedSubst>, ambiguous }` -/
structure CAnswer where
  binders : List (VarKind × Nat)
  subst : Args
  constraints : List Constraint
  ambiguous : Bool
  deriving Repr, DecidableEq

/-- `answers.any_future_answer(|new| new.may_invalidate(cur))` on a completed table: the stored
    answers from the current index on, left to right, short-circuiting (a panic of
    `may_invalidate` is reached only if no earlier answer said `true`). -/
def anyFutureInvalidates (cur : Args) : List CAnswer → Res Bool
  | [] => .ok false
  | a :: rest =>
      match mayInvalidate a.subst cur with
      | .ok true => .ok true
      | .ok false => anyFutureInvalidates cur rest
      | .error e => .error e

/-- `Substitution::is_empty` -/
def Args.isNil : Args → Bool
  | .nil => true
  | _ => false

/-- the `loop` of `make_solution`: `rest` = the stored answers not yet consumed, `subst` = the
    current guidance, returns the guidance and the number of answers merged after the first -/
def guidanceLoop (universes : List Nat) : List CAnswer → Canon Args → Nat → Res (Guidance × Nat)
  | rest, subst, n =>
      if subst.value.isNil || isTrivial subst.value then .ok (.unknown, n)
      else
        match anyFutureInvalidates subst.value rest with
        | .error e => .error e
        | .ok false => .ok (.definite subst, n)
        | .ok true =>
          match rest with
          | [] => .ok (.definite subst, n)          -- NoMoreSolutions
          | a :: rest' =>
            match mergeIntoGuidance universes subst.value a.subst with
            | .error e => .error e
            | .ok s' => guidanceLoop universes rest' s' (n + 1)

/-- `make_solution(root_goal, answers, should_continue)` on a completed table whose stored answers
    are `answers`; `universes` = the universes of the root goal's canonical binders. -/
def makeSolution (universes : List Nat) : List CAnswer → Res (Option Solution)
  | [] => .ok none
  | a :: rest =>
      if rest.isEmpty && !a.ambiguous then .ok (some (.unique a.binders a.subst a.constraints))
      else
        match guidanceLoop universes rest ⟨a.binders, a.subst⟩ 1 with
        | .ok (g, _) => .ok (some (.ambig g))
        | .error e => .error e

end Chalk
