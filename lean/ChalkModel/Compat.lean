/-
  C04: when do two solver answers contradict each other?  `compatible` is the executable relation
  the check evaluates on the real outputs; `Contract S a` is the meaning of an answer relative to
  an arbitrary solution set `S` (DESIGN §5) — no reference semantics is needed to compare two
  solvers: if both meet their contract for the same `S`, they are compatible (Props/C04.lean).
-/
import ChalkModel.Contract

namespace Chalk.Sem

/-- the answer's own variables replaced by distinct opaque constants -/
def generic (σ : List Tm) : List Tm := σ.map (Tm.inst genericSubst)

def compatible : Answer → Answer → Bool
  | .malformed, _ => false
  | _, .malformed => false
  | .none, .unique _ => false
  | .unique _, .none => false
  | .unique σ, .unique τ => isInstance τ (generic σ) && isInstance σ (generic τ)
  | .unique σ, .definite γ => isInstance γ (generic σ)
  | .definite γ, .unique σ => isInstance γ (generic σ)
  | _, _ => true

/-- what an answer claims about the set `S` of solutions (tuples of closed terms) -/
def Contract (S : List Tm → Prop) : Answer → Prop
  | .none => ∀ θ, ¬ S θ
  | .unique σ => (∀ τ : Nat → Tm, S (σ.map (Tm.inst τ))) ∧ (∀ θ, S θ → isInstance σ θ = true)
  | .definite σ => ∀ θ, S θ → isInstance σ θ = true
  | .ambigOther => True
  | .malformed => False

end Chalk.Sem
