/- Driver op for the fixed-point framework model (C09–C12, C05c): decode an abstract instance and
   a script of calls on ONE solver instance, run `FixedPoint`, print per call the outcome, the
   hook's work counter and the cache.  No model logic here.

   (fp-run (cfg <overflowDepth> <rounds> <fixF3> <fixF7> <fixF10> <fixF16>) <cachingEnabled>
           ((<coinductive> <ground> ((<subgoal>*)*))*)
           ((<goal> (<oracle bit>*) <default bit> <budget>|-)*))
   → ((<unique|none|ambig|panic:<site>> <work> ((<goal> <u|n|a>)*))*)                       -/
import ChalkModel.Wire
import ChalkModel.FixedPoint

namespace Chalk
open Sexp
open Chalk.FixedPoint

def fpNatList? : Sexp → Option (List Nat)
  | .list xs => xs.mapM Sexp.nat?
  | _ => none

def fpNode? : Sexp → Option (Bool × Bool × List (List Nat))
  | .list [c, g, .list alts] => do some (← bool? c, ← bool? g, ← alts.mapM fpNatList?)
  | _ => none

def fpCall? : Sexp → Option Call
  | .list [g, .list bits, d, b] => do
      let budget ← (match b with | .atom "-" => some none | x => (x.nat?).map some)
      some { goal := ← g.nat?, oracle := ← bits.mapM bool?, dflt := ← bool? d, budget := budget }
  | _ => none

def fpCfg? : Sexp → Option Cfg
  | .list [.atom "cfg", od, r, a, b, c, d] => do
      some ⟨← od.nat?, ← r.nat?, none, ← bool? a, ← bool? b, ← bool? c, ← bool? d⟩
  | _ => none

def fpSite : Site → String
  | .stackNotEmpty => "stack-not-empty" | .overflow => "overflow" | .budget => "budget"
  | .unwrapNoSolution => "unwrap-no-solution" | .popMismatch => "pop-mismatch"
  | .insertDup => "insert-dup" | .cacheStackDepth => "cache-stack-depth" | .cacheLinks => "cache-links"
  | .index => "index" | .fuelDepth => "fuel-depth" | .fuelRounds => "fuel-rounds"

def fpV : V → String
  | .unique => "unique" | .noSolution => "none" | .ambig => "ambig"

def fpV1 : V → String
  | .unique => "u" | .noSolution => "n" | .ambig => "a"

def fpRun (inst : Instance) (cfg : Cfg) : List Call → St → List Sexp
  | [], _ => []
  | c :: cs, s =>
    let r := runCall inst cfg c s
    let o := match r.outcome with
      | .value v => fpV v
      | .panic site => "panic:" ++ fpSite site
    let dump := (cacheDump r.state).map (fun (k, v) => Sexp.list [sNat k, .atom (fpV1 v)])
    .list [.atom o, sNat r.state.work, .list dump] :: fpRun inst cfg cs r.state

def opsFixedPoint : Sexp → Option Sexp
  | .list [.atom "fp-run", cfg, caching, .list nodes, .list calls] => do
      let cfg ← fpCfg? cfg
      let inst := Instance.ofTable (← nodes.mapM fpNode?)
      some (.list (fpRun inst cfg (← calls.mapM fpCall?) (St.fresh (← bool? caching))))
  | _ => none

end Chalk
