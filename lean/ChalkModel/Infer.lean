/-
  Model of `chalk-solve/src/infer.rs` (`InferenceTable::{new, new_universe, new_variable, snapshot,
  rollback_to, commit, probe_var, inference_var_root, universe_of_unbound_var,
  normalize_*_shallow}`), `infer/var.rs` (`InferenceValue::unify_values`) and of the observable
  behaviour of `ena`'s `InPlaceUnificationTable` (`new_key`, `find`, `probe_value`,
  `unify_var_var` = union by rank with `unify_values`, `unify_var_value`, snapshots).
  `ena` itself is external code: its contract is assumed as modelled here and validated by the
  correspondence runs (path compression does not change roots and is not modelled).
-/
import ChalkModel.Fold

namespace Chalk

inductive InferValue where
  | unbound (ui : Nat)
  | bound (v : GArg)
  deriving DecidableEq, Repr

instance : Inhabited InferValue := ⟨.unbound 0⟩

structure Table where
  /-- parent pointer of each variable; a root points to itself -/
  parent : List Nat := []
  /-- rank of each variable (meaningful at roots) -/
  rank : List Nat := []
  /-- value stored with each variable (meaningful at roots) -/
  value : List InferValue := []
  maxUniverse : Nat := 0
  deriving DecidableEq, Repr

def Table.new : Table := {}

def Table.numVars (t : Table) : Nat := t.parent.length

def Table.findFuel (t : Table) : Nat → Nat → Nat
  | 0, v => v
  | fuel + 1, v =>
      let p := t.parent.getD v v
      if p = v then v else t.findFuel fuel p

/-- `unify.find(var)`: the root of `var`'s class -/
def Table.find (t : Table) (v : Nat) : Nat := t.findFuel t.parent.length v

/-- `unify.probe_value(var)` -/
def Table.probeValue (t : Table) (v : Nat) : InferValue := t.value.getD (t.find v) (.unbound 0)

/-- `probe_var` -/
def Table.probeVar (t : Table) (v : Nat) : Option GArg :=
  match t.probeValue v with
  | .unbound _ => none
  | .bound g => some g

/-- `universe_of_unbound_var` -/
def Table.universeOfUnbound (t : Table) (v : Nat) : Res Nat :=
  match t.probeValue v with
  | .unbound ui => .ok ui
  | .bound _ => .error (.panic "var_universe invoked on bound variable")

def Table.newUniverse (t : Table) : Table × Nat :=
  ({ t with maxUniverse := t.maxUniverse + 1 }, t.maxUniverse + 1)

/-- `new_variable(ui)`: returns the table and the new variable's index -/
def Table.newVariable (t : Table) (ui : Nat) : Table × Nat :=
  ({ t with parent := t.parent ++ [t.parent.length], rank := t.rank ++ [0],
            value := t.value ++ [.unbound ui] }, t.parent.length)

/-- `InferenceValue::unify_values` -/
def unifyValues : InferValue → InferValue → Res InferValue
  | .unbound a, .unbound b => .ok (.unbound (min a b))
  | .bound g, .unbound _ => .ok (.bound g)
  | .unbound _, .bound g => .ok (.bound g)
  | .bound _, .bound _ => .error (.panic "we should not be asked to unify two bound things")

/-- `unify.unify_var_var(a, b)`: union by rank (equal ranks: `a`'s root is redirected to `b`'s) -/
def Table.unifyVarVar (t : Table) (a b : Nat) : Res Table :=
  let ra := t.find a
  let rb := t.find b
  if ra = rb then .ok t
  else
    match unifyValues (t.value.getD ra (.unbound 0)) (t.value.getD rb (.unbound 0)) with
    | .error e => .error e
    | .ok v =>
      let ka := t.rank.getD ra 0
      let kb := t.rank.getD rb 0
      if ka > kb then
        .ok { t with parent := t.parent.set rb ra, value := t.value.set ra v }
      else if ka < kb then
        .ok { t with parent := t.parent.set ra rb, value := t.value.set rb v }
      else
        .ok { t with parent := t.parent.set ra rb, rank := t.rank.set rb (ka + 1), value := t.value.set rb v }

/-- `unify.unify_var_value(var, value)` -/
def Table.unifyVarValue (t : Table) (a : Nat) (val : InferValue) : Res Table :=
  let ra := t.find a
  match unifyValues (t.value.getD ra (.unbound 0)) val with
  | .error e => .error e
  | .ok v => .ok { t with value := t.value.set ra v }

/-- `snapshot()` / `rollback_to(snapshot)`: the snapshot holds `vars`, `max_universe` and ena's
    own snapshot; rolling back restores all three, i.e. the whole modelled table. -/
abbrev Snapshot := Table
def Table.snapshot (t : Table) : Snapshot := t
def Table.rollbackTo (_ : Table) (s : Snapshot) : Table := s

/-- `normalize_ty_shallow` (twice through the table, as the Rust code does) -/
def Table.normalizeTyShallowInner (t : Table) : Ty → Option Ty
  | .infer v _ => match t.probeVar v with
      | some (.ty ty) => some ty
      | _ => none
  | _ => none
def Table.normalizeTyShallow (t : Table) (leaf : Ty) : Option Ty :=
  match t.normalizeTyShallowInner leaf with
  | some ty => some ((t.normalizeTyShallowInner ty).getD ty)
  | none => none
def Table.normalizeLifetimeShallow (t : Table) : Lifetime → Option Lifetime
  | .infer v => match t.probeVar v with
      | some (.lt l) => some l
      | _ => none
  | _ => none
def Table.normalizeConstShallow (t : Table) : Const → Option Const
  | .mk _ (.infer v) => match t.probeVar v with
      | some (.ct c) => some c
      | _ => none
  | _ => none

end Chalk
