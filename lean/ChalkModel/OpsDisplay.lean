/-
  Driver ops of the writer model (C22).  Wire format (harness/src/ops/c22_model.rs):
    (print (names (key base) ...) (items item ...))        → `toks t1 t2 ...` first rendering
    (reprint (names ...) (items ...))                      → tokens of the second rendering: the
        printed tokens are parsed back by `Parse.parseProgram`, the result is expanded the way
        lowering expands alias-eq clauses (`Display.reparse`) and printed again
    (check-wf (names ...) (items ...))                     → `wf b lowered b roundtrip b equiv b`: whether the
        program (ids resolved to their final names) satisfies the hypotheses of the C22 theorems
        (`WfProgram`, `Lowered`), and the theorems' conclusions evaluated on it
        (`parseProgram (print p) = some p`, `reparse p ≈ p`)
  Only decoding and calls; no model logic.
-/
import ChalkModel.Wire
import ChalkModel.Display
import ChalkModel.Parse
import ChalkModel.Lemmas.DisplayItems
import ChalkModel.Lemmas.DisplayEquiv

namespace Chalk.Display
open Chalk Chalk.Sexp

def vkOfSexp? : Sexp → Option VK
  | .atom "t" => some .ty | .atom "l" => some .lt | .atom "c" => some .ct
  | _ => none

def vksOfSexp? : Sexp → Option (List VK)
  | .list xs => xs.mapM vkOfSexp?
  | _ => none

def scalarOfName? (n : String) : Option Scalar := Scalar.all.find? fun s => s.name == n

def ltOfSexp? : Sexp → Option Lt
  | .atom "static" => some .static
  | .atom "erased" => some .erased
  | .list [.atom "lb", d, i] => do some (.bound (← d.nat?) (← i.nat?))
  | _ => none

def ctOfSexp? : Sexp → Option Ct
  | .list [.atom "cb", d, i] => do some (.bound (← d.nat?) (← i.nat?))
  | .list [.atom "cv", n] => do some (.val (← n.nat?))
  | _ => none

def keyOf? : Sexp → Option String
  | .atom s => some s
  | _ => none

mutual
  partial def tyOfSexp? : Sexp → Option Ty
    | .atom "never" => some .never
    | .atom "str" => some .str
    | .list [.atom "bv", d, i] => do some (.bound (← d.nat?) (← i.nat?))
    | .list (.atom "adt" :: .atom k :: args) => do some (.adt k (Args.ofList (← args.mapM gargOfSexp?)))
    | .list [.atom "sc", .atom n] => do some (.scalar (← scalarOfName? n))
    | .list (.atom "tup" :: ts) => do some (.tuple (Tys.ofList (← ts.mapM tyOfSexp?)))
    | .list [.atom "ref", m, l, t] => do some (.ref (← bool? m) (← ltOfSexp? l) (← tyOfSexp? t))
    | .list [.atom "raw", m, t] => do some (.raw (← bool? m) (← tyOfSexp? t))
    | .list [.atom "slice", t] => do some (.slice (← tyOfSexp? t))
    | .list [.atom "arr", t, c] => do some (.array (← tyOfSexp? t) (← ctOfSexp? c))
    | .list [.atom "fn", nb, .list args, ret] => do
        some (.fnPtr (← nb.nat?) (Tys.ofList (← args.mapM tyOfSexp?)) (← tyOfSexp? ret))
    | .list [.atom "proj", .atom tr, .atom assoc, self, targs, aargs] => do
        some (.proj tr assoc (← tyOfSexp? self) (← argsOfSexp? targs) (← argsOfSexp? aargs))
    | .list [.atom "dyn", .list bs, l] => do some (.dyn (Bounds.ofList (← bs.mapM boundOfSexp?)) (← ltOfSexp? l))
    | _ => none
  partial def gargOfSexp? : Sexp → Option GArg
    | .list [.atom "ty", t] => do some (.ty (← tyOfSexp? t))
    | .list [.atom "lt", l] => do some (.lt (← ltOfSexp? l))
    | .list [.atom "ct", c] => do some (.ct (← ctOfSexp? c))
    | _ => none
  partial def argsOfSexp? : Sexp → Option Args
    | .list xs => do some (Args.ofList (← xs.mapM gargOfSexp?))
    | _ => none
  partial def boundOfSexp? : Sexp → Option Bound
    | .list [.atom "tb", ks, .atom tr, args] => do some (.trait (← vksOfSexp? ks) tr (← argsOfSexp? args))
    | .list [.atom "ab", ks, .atom tr, .atom assoc, targs, aargs, v] => do
        some (.aliasEq (← vksOfSexp? ks) tr assoc (← argsOfSexp? targs) (← argsOfSexp? aargs) (← tyOfSexp? v))
    | _ => none
end

def wcOfSexp? : Sexp → Option WC
  | .list [.atom "impl", self, .atom tr, args] => do some (.implemented (← tyOfSexp? self) tr (← argsOfSexp? args))
  | .list [.atom "aeq", self, .atom tr, .atom assoc, targs, aargs, v] => do
      some (.aliasEq (← tyOfSexp? self) tr assoc (← argsOfSexp? targs) (← argsOfSexp? aargs) (← tyOfSexp? v))
  | .list [.atom "lo", a, b] => do some (.ltOutlives (← ltOfSexp? a) (← ltOfSexp? b))
  | .list [.atom "to", t, l] => do some (.tyOutlives (← tyOfSexp? t) (← ltOfSexp? l))
  | _ => none

def qwcOfSexp? : Sexp → Option QWC
  | .list [.atom "q", ks, w] => do some ⟨← vksOfSexp? ks, ← wcOfSexp? w⟩
  | _ => none

def qwcsOfSexp? : Sexp → Option (List QWC)
  | .list xs => xs.mapM qwcOfSexp?
  | _ => none

def tysOfSexp? : Sexp → Option (List Ty)
  | .list xs => xs.mapM tyOfSexp?
  | _ => none

def optAtom? : Sexp → Option (Option String)
  | .atom "none" => some none
  | .atom s => some (some s)
  | _ => none

def assocOfSexp? : Sexp → Option AssocTyDatum
  | .list [.atom "assoc", .atom k, ks, .list bs, ws] => do
      some ⟨k, ← vksOfSexp? ks, ← bs.mapM boundOfSexp?, ← qwcsOfSexp? ws⟩
  | _ => none

def valueOfSexp? : Sexp → Option AssocTyValue
  | .list [.atom "val", .atom k, ks, t] => do some ⟨k, ← vksOfSexp? ks, ← tyOfSexp? t⟩
  | _ => none

def itemOfSexp? : Sexp → Option Item
  | .list [.atom "adt", .atom k, up, fu, ph, zst, rc, rp, ri, en, ks, ws, .list vs] => do
      let ri ← optAtom? ri
      let ri ← match ri with
        | none => some none
        | some n => (scalarOfName? n).map some
      some (.adt ⟨k, ← bool? up, ← bool? fu, ← bool? ph, ← bool? zst, ← bool? rc, ← bool? rp, ri, ← bool? en,
        ← vksOfSexp? ks, ← qwcsOfSexp? ws, ← vs.mapM tysOfSexp?⟩)
  | .list [.atom "trait", .atom k, au, ma, up, fu, ne, co, os, lang, ks, ws, .list as] => do
      some (.trait ⟨k, ← bool? au, ← bool? ma, ← bool? up, ← bool? fu, ← bool? ne, ← bool? co, ← bool? os, ← optAtom? lang,
        ← vksOfSexp? ks, ← qwcsOfSexp? ws, ← as.mapM assocOfSexp?⟩)
  | .list [.atom "impl", ext, ks, neg, .atom tr, args, self, ws, .list vs] => do
      some (.impl ⟨← bool? ext, ← vksOfSexp? ks, ← bool? neg, tr, ← argsOfSexp? args, ← tyOfSexp? self, ← qwcsOfSexp? ws,
        ← vs.mapM valueOfSexp?⟩)
  | _ => none

def namesOfSexp? : Sexp → Option (List (String × String))
  | .list (.atom "names" :: xs) => xs.mapM fun
      | .list [.atom k, .atom b] => some (k, b)
      | _ => none
  | _ => none

def programOfSexp? : Sexp → Option Program
  | .list (.atom "items" :: xs) => xs.mapM itemOfSexp?
  | _ => none

def toksLine (ts : List Tok) : Sexp := .atom (" ".intercalate ("toks" :: ts.map Tok.str))

def baseOf (names : List (String × String)) (k : String) : String := (lookupStr k names).getD k

/-- ids renamed to their final names (layer 1) -/
def resolved (names : List (String × String)) (p : Program) : Program :=
  let st := aliasesOf (baseOf names) (occProgram p)
  p.map (Item.rename (finalName (baseOf names) st))

def opsDisplay : Sexp → Option Sexp
  | .list [.atom "print", names, items] => do
      let names ← namesOfSexp? names
      let p ← programOfSexp? items
      some (toksLine (writeItems (baseOf names) p))
  | .list [.atom "reprint", names, items] => do
      let names ← namesOfSexp? names
      let p ← programOfSexp? items
      match Parse.parseProgram (print (resolved names p)) with
      | some p' => some (toksLine (print (reparse p')))
      | none => some (.atom "parse-failed")
  | .list [.atom "check-wf", names, items] => do
      let names ← namesOfSexp? names
      let p := resolved names (← programOfSexp? items)
      let b (x : Bool) : String := if x then "1" else "0"
      some (.atom ("wf " ++ b (Parse.wfProgram p) ++ " lowered " ++ b (Lowered p)
        ++ " roundtrip " ++ b (decide (Parse.parseProgram (print p) = some p))
        ++ " equiv " ++ b (Program.equiv (reparse p) p)))
  | _ => none

end Chalk.Display
