/-
  Model of `chalk-ir/src/fold.rs` (`TypeSuperFoldable for Ty/Lifetime/Const`, the default
  `try_fold_free_*`/`_inference_*`/`_placeholder_*` methods), `fold/binder_impls.rs`
  (`FnPointer`, `Binders<T>`) and the derived folds for `GenericArg`, `Substitution`,
  `WhereClause`, `DynTy` — restricted to folders that do not override `try_fold_ty` itself.

  A folder is a record of handlers for the leaves; `none` for a handler means "the default
  method of `FallibleTypeFolder`" (rebuild the leaf, folding the const's type where the Rust
  default does).  `outer` is the `outer_binder: DebruijnIndex` argument.
-/
import ChalkModel.Syntax

namespace Chalk

inductive Err where
  | noSolution
  | panic (site : String)
  deriving DecidableEq, Repr, Inhabited

abbrev Res (α : Type) := Except Err α

/-- Leaf handlers of a `FallibleTypeFolder`. `db` is the de Bruijn index already shifted out by
    `outer` (the `bound_var1` of `try_super_fold_with`). -/
structure Folder where
  freeVarTy : Option ((db idx outer : Nat) → Res Ty) := none
  freeVarLt : Option ((db idx outer : Nat) → Res Lifetime) := none
  /-- receives the (unfolded) type of the constant, as the Rust method does -/
  freeVarConst : Option ((ty : Ty) → (db idx outer : Nat) → Res Const) := none
  inferTy : Option ((v : Nat) → (k : TyVarKind) → (outer : Nat) → Res Ty) := none
  inferLt : Option ((v : Nat) → (outer : Nat) → Res Lifetime) := none
  /-- receives the unfolded type -/
  inferConst : Option ((ty : Ty) → (v : Nat) → (outer : Nat) → Res Const) := none
  phTy : Option ((ui idx outer : Nat) → Res Ty) := none
  phLt : Option ((ui idx outer : Nat) → Res Lifetime) := none
  phConst : Option ((ty : Ty) → (ui idx outer : Nat) → Res Const) := none

def foldLifetime (f : Folder) (outer : Nat) : Lifetime → Res Lifetime
  | .bound db idx =>
      if outer ≤ db then
        match f.freeVarLt with
        | some h => h (db - outer) idx outer
        | none => .ok (.bound (db - outer + outer) idx)
      else .ok (.bound db idx)
  | .infer v => match f.inferLt with
      | some h => h v outer
      | none => .ok (.infer v)
  | .placeholder ui idx => match f.phLt with
      | some h => h ui idx outer
      | none => .ok (.placeholder ui idx)
  | .static => .ok .static
  | .erased => .ok .erased
  | .error => .ok .error

mutual
  def foldTy (f : Folder) (outer : Nat) : Ty → Res Ty
    | .app n args => match foldArgs f outer args with
        | .ok args' => .ok (.app n args')
        | .error e => .error e
    | .scalar s => .ok (.scalar s)
    | .str => .ok .str
    | .never => .ok .never
    | .foreign id => .ok (.foreign id)
    | .error => .ok .error
    | .array t c => match foldTy f outer t with
        | .ok t' => match foldConst f outer c with
            | .ok c' => .ok (.array t' c')
            | .error e => .error e
        | .error e => .error e
    | .slice t => match foldTy f outer t with
        | .ok t' => .ok (.slice t')
        | .error e => .error e
    | .raw m t => match foldTy f outer t with
        | .ok t' => .ok (.raw m t')
        | .error e => .error e
    | .ref m l t => match foldLifetime f outer l with
        | .ok l' => match foldTy f outer t with
            | .ok t' => .ok (.ref m l' t')
            | .error e => .error e
        | .error e => .error e
    | .placeholder ui idx => match f.phTy with
        | some h => h ui idx outer
        | none => .ok (.placeholder ui idx)
    | .dyn kinds bounds l => match foldQWCs f (outer + 1) bounds with
        | .ok b' => match foldLifetime f outer l with
            | .ok l' => .ok (.dyn kinds b' l')
            | .error e => .error e
        | .error e => .error e
    | .proj id args => match foldArgs f outer args with
        | .ok args' => .ok (.proj id args')
        | .error e => .error e
    | .opaque id args => match foldArgs f outer args with
        | .ok args' => .ok (.opaque id args')
        | .error e => .error e
    | .function nb sig args => match foldArgs f (outer + 1) args with
        | .ok args' => .ok (.function nb sig args')
        | .error e => .error e
    | .bound db idx =>
        if outer ≤ db then
          match f.freeVarTy with
          | some h => h (db - outer) idx outer
          | none => .ok (.bound (db - outer + outer) idx)
        else .ok (.bound db idx)
    | .infer v k => match f.inferTy with
        | some h => h v k outer
        | none => .ok (.infer v k)
  def foldConst (f : Folder) (outer : Nat) : Const → Res Const
    | .mk ty (.bound db idx) =>
        if outer ≤ db then
          match f.freeVarConst with
          | some h => h ty (db - outer) idx outer
          | none => match foldTy f outer ty with
              | .ok ty' => .ok (.mk ty' (.bound (db - outer + outer) idx))
              | .error e => .error e
        else .ok (.mk ty (.bound db idx))
    | .mk ty (.infer v) => match f.inferConst with
        | some h => h ty v outer
        | none => match foldTy f outer ty with
            | .ok ty' => .ok (.mk ty' (.infer v))
            | .error e => .error e
    | .mk ty (.placeholder ui idx) => match f.phConst with
        | some h => h ty ui idx outer
        | none => match foldTy f outer ty with
            | .ok ty' => .ok (.mk ty' (.placeholder ui idx))
            | .error e => .error e
    | .mk ty (.concrete k) => match foldTy f outer ty with
        | .ok ty' => .ok (.mk ty' (.concrete k))
        | .error e => .error e
  def foldGArg (f : Folder) (outer : Nat) : GArg → Res GArg
    | .ty t => match foldTy f outer t with
        | .ok t' => .ok (.ty t')
        | .error e => .error e
    | .lt l => match foldLifetime f outer l with
        | .ok l' => .ok (.lt l')
        | .error e => .error e
    | .ct c => match foldConst f outer c with
        | .ok c' => .ok (.ct c')
        | .error e => .error e
  def foldArgs (f : Folder) (outer : Nat) : Args → Res Args
    | .nil => .ok .nil
    | .cons a as => match foldGArg f outer a with
        | .ok a' => match foldArgs f outer as with
            | .ok as' => .ok (.cons a' as')
            | .error e => .error e
        | .error e => .error e
  def foldWC (f : Folder) (outer : Nat) : WC → Res WC
    | .implemented tr args => match foldArgs f outer args with
        | .ok args' => .ok (.implemented tr args')
        | .error e => .error e
    | .aliasEqProj id args ty => match foldArgs f outer args with
        | .ok args' => match foldTy f outer ty with
            | .ok ty' => .ok (.aliasEqProj id args' ty')
            | .error e => .error e
        | .error e => .error e
    | .aliasEqOpaque id args ty => match foldArgs f outer args with
        | .ok args' => match foldTy f outer ty with
            | .ok ty' => .ok (.aliasEqOpaque id args' ty')
            | .error e => .error e
        | .error e => .error e
    | .ltOutlives a b => match foldLifetime f outer a with
        | .ok a' => match foldLifetime f outer b with
            | .ok b' => .ok (.ltOutlives a' b')
            | .error e => .error e
        | .error e => .error e
    | .tyOutlives t l => match foldTy f outer t with
        | .ok t' => match foldLifetime f outer l with
            | .ok l' => .ok (.tyOutlives t' l')
            | .error e => .error e
        | .error e => .error e
  def foldQWC (f : Folder) (outer : Nat) : QWC → Res QWC
    | .mk kinds wc => match foldWC f (outer + 1) wc with
        | .ok wc' => .ok (.mk kinds wc')
        | .error e => .error e
  def foldQWCs (f : Folder) (outer : Nat) : QWCs → Res QWCs
    | .nil => .ok .nil
    | .cons q qs => match foldQWC f outer q with
        | .ok q' => match foldQWCs f outer qs with
            | .ok qs' => .ok (.cons q' qs')
            | .error e => .error e
        | .error e => .error e
end

def foldAlias (f : Folder) (outer : Nat) : Alias → Res Alias
  | .proj id args => match foldArgs f outer args with
      | .ok a => .ok (.proj id a)
      | .error e => .error e
  | .opaque id args => match foldArgs f outer args with
      | .ok a => .ok (.opaque id a)
      | .error e => .error e

/-- derived `TypeFoldable for DomainGoal` -/
def foldDomainGoal (f : Folder) (outer : Nat) : DomainGoal → Res DomainGoal
  | .holds w => match foldWC f outer w with
      | .ok w' => .ok (.holds w')
      | .error e => .error e
  | .wfTrait tr a => match foldArgs f outer a with
      | .ok a' => .ok (.wfTrait tr a')
      | .error e => .error e
  | .wfTy t => match foldTy f outer t with
      | .ok t' => .ok (.wfTy t')
      | .error e => .error e
  | .fromEnvTrait tr a => match foldArgs f outer a with
      | .ok a' => .ok (.fromEnvTrait tr a')
      | .error e => .error e
  | .fromEnvTy t => match foldTy f outer t with
      | .ok t' => .ok (.fromEnvTy t')
      | .error e => .error e
  | .normalize al t => match foldAlias f outer al with
      | .ok al' => match foldTy f outer t with
          | .ok t' => .ok (.normalize al' t')
          | .error e => .error e
      | .error e => .error e
  | .isLocal t => match foldTy f outer t with
      | .ok t' => .ok (.isLocal t')
      | .error e => .error e
  | .isUpstream t => match foldTy f outer t with
      | .ok t' => .ok (.isUpstream t')
      | .error e => .error e
  | .isFullyVisible t => match foldTy f outer t with
      | .ok t' => .ok (.isFullyVisible t')
      | .error e => .error e
  | .localImplAllowed tr a => match foldArgs f outer a with
      | .ok a' => .ok (.localImplAllowed tr a')
      | .error e => .error e
  | .compatible => .ok .compatible
  | .downstreamType t => match foldTy f outer t with
      | .ok t' => .ok (.downstreamType t')
      | .error e => .error e
  | .reveal => .ok .reveal
  | .objectSafe tr => .ok (.objectSafe tr)

/-- The folder all of whose methods are the trait defaults: "a folder that changes nothing". -/
def Folder.noop : Folder := {}

end Chalk
