/-
  C20 — the orphan check.

  Three things live here (no algorithmic cleverness, no imports):

  * the fragment: types built from struct applications (flags `#[upstream]`, `#[fundamental]` come
    from the program's declaration of the struct), scalars, tuples and the impl's type parameters;
    an impl is a trait id plus the type arguments of its trait reference, `Self` first;
  * the SPEC `OrphanOk`, written from the property's sentence: the trait is local, or some type
    argument is local (looking through fundamental type constructors) and no argument before it
    mentions an impl type parameter; built-in types (scalars, tuples) are never local;
  * the CLAUSE MODEL: `clausesFor` lists, for a ground domain goal, the bodies of the program
    clauses chalk generates whose head matches it — arm by arm after
      chalk-solve/src/clauses.rs                  `program_clauses_that_could_match`, `match_ty`
      chalk-solve/src/clauses/program_clauses.rs  `AdtDatum::to_program_clauses`,
                                                  `fully_visible_program_clauses`,
                                                  `TraitDatum::to_program_clauses` (orphan rules part)
    Its meaning is the least fixed point `Derivable`; `provable` is plain SLD resolution over
    `clausesFor` (these clauses only recurse into type arguments, so the recursion is on the size
    of the goal and needs no fuel).

  The orphan check (`coherence/orphan.rs::perform_orphan_check`) asks for
  `forall<P̄> { LocalImplAllowed(Self: Trait<Ā>) }` in the empty environment: the impl's parameters
  become placeholders, for which `match_ty` generates only `WellFormed` facts.  The model keeps the
  one constructor `Ty.param` for the parameter and for the placeholder standing in for it.

  `fixed = true` is the code after the repair of finding F5 (`match_ty` also emits
  `IsFullyVisible` clauses for scalars / `str` / `!` / tuples); `fixed = false` is the code before.
-/
namespace Chalk.Orphan

mutual
  inductive Ty where
    /-- `Foo<args>` for a struct declared by the program -/
    | adt (id : Nat) (args : Tys)
    | scalar (s : Nat)
    /-- `(args)`; the arity is the number of arguments, `()` included -/
    | tuple (args : Tys)
    /-- the impl's `i`-th type parameter / the placeholder the goal's `forall` puts in its place -/
    | param (i : Nat)
  inductive Tys where
    | nil
    | cons (t : Ty) (ts : Tys)
end

deriving instance DecidableEq, Repr for Ty, Tys

instance : Inhabited Ty := ⟨.scalar 0⟩

def Tys.toList : Tys → List Ty
  | .nil => []
  | .cons t ts => t :: ts.toList

def Tys.ofList : List Ty → Tys
  | [] => .nil
  | t :: ts => .cons t (Tys.ofList ts)

/-- `AdtFlags` of rust_ir (the two flags the orphan clauses read) -/
structure AdtFlags where
  upstream : Bool
  fundamental : Bool
  deriving DecidableEq, Repr

structure Program where
  adt : Nat → AdtFlags
  /-- `TraitFlags::upstream` -/
  traitUpstream : Nat → Bool

/-- `impl<P̄> Trait<A1..An> for A0`: `args = [A0, A1, .., An]` -/
structure Impl where
  trait : Nat
  args : Tys

/-! ## The specification (from the property's sentence) -/

mutual
  /-- the type mentions an impl type parameter, at any depth -/
  def Ty.mentionsParam : Ty → Bool
    | .adt _ args => args.mentionsParam
    | .scalar _ => false
    | .tuple args => args.mentionsParam
    | .param _ => true
  def Tys.mentionsParam : Tys → Bool
    | .nil => false
    | .cons t ts => t.mentionsParam || ts.mentionsParam
end

mutual
  /-- the type is local, looking through fundamental type constructors: a struct of the current
      crate, or a `#[fundamental]` struct one of whose arguments is local.  Scalars and tuples are
      built-in, hence upstream; a type parameter is not a local type. -/
  def Ty.isLocal (P : Program) : Ty → Bool
    | .adt id args => !(P.adt id).upstream || ((P.adt id).fundamental && args.anyLocal P)
    | .scalar _ => false
    | .tuple _ => false
    | .param _ => false
  def Tys.anyLocal (P : Program) : Tys → Bool
    | .nil => false
    | .cons t ts => t.isLocal P || ts.anyLocal P
end

/-- "An impl passes the orphan check exactly when its trait is local, or some type argument is
    local (looking through fundamental type constructors) and every type argument before it
    mentions no impl type parameter." -/
def OrphanOk (P : Program) (im : Impl) : Prop :=
  P.traitUpstream im.trait = false ∨
  ∃ (i : Nat) (t : Ty), im.args.toList[i]? = some t ∧ t.isLocal P = true ∧
    ∀ (j : Nat) (u : Ty), j < i → im.args.toList[j]? = some u → u.mentionsParam = false

/-- the same as a program: scan the arguments from the left -/
def firstLocalOk (P : Program) : List Ty → Bool
  | [] => false
  | t :: ts => t.isLocal P || (!t.mentionsParam && firstLocalOk P ts)

def orphanOkB (P : Program) (im : Impl) : Bool :=
  !P.traitUpstream im.trait || firstLocalOk P im.args.toList

/-! ## The clause model -/

/-- the four `DomainGoal`s about one type that `program_clauses_that_could_match` sends to `match_ty` -/
inductive Pred where
  | isLocal | isUpstream | isFullyVisible | downstreamType
  deriving DecidableEq, Repr

/-- ground domain goals of the orphan rules -/
inductive DG where
  | ty (p : Pred) (t : Ty)
  /-- `LocalImplAllowed(A0: Trait<A1..An>)` -/
  | localImplAllowed (trait : Nat) (args : Tys)
  deriving DecidableEq, Repr

/-- `AdtDatum::to_program_clauses` (the coherence part), heads instantiated with `args`:
    * `fully_visible_program_clauses`: `IsFullyVisible(Foo<T̄>) :- IsFullyVisible(T̄)`;
    * not `#[upstream]`: fact `IsLocal(Foo<T̄>)`;
    * `#[upstream] #[fundamental]`: one clause `IsLocal(Foo<T̄>) :- IsLocal(Ti)` per parameter and
      `IsUpstream(Foo<T̄>) :- IsUpstream(T̄)`;
    * `#[upstream]` only: fact `IsUpstream(Foo<T̄>)`;
    * `#[fundamental]` (local or upstream): `DownstreamType(Foo<T̄>) :- DownstreamType(Ti)` per parameter. -/
def adtClauses (f : AdtFlags) (args : List Ty) : Pred → List (List DG)
  | .isFullyVisible => [args.map (DG.ty .isFullyVisible)]
  | .isLocal =>
      if !f.upstream then [[]]
      else if f.fundamental then args.map (fun a => [DG.ty .isLocal a])
      else []
  | .isUpstream =>
      if !f.upstream then []
      else if f.fundamental then [args.map (DG.ty .isUpstream)]
      else [[]]
  | .downstreamType =>
      if f.fundamental then args.map (fun a => [DG.ty .downstreamType a]) else []

/-- `match_ty`, arm `Str | Never | Scalar(_) | Tuple(0, _)`: before the repair only
    `WellFormed(ty)`; after it also the fact `IsFullyVisible(ty)`.  No `IsUpstream` clause
    (finding F5b, open), no `IsLocal`, no `DownstreamType`. -/
def scalarClauses (fixed : Bool) : Pred → List (List DG)
  | .isUpstream => []
  | .isFullyVisible => if fixed then [[]] else []
  | .isLocal => []
  | .downstreamType => []

/-- `match_ty`, arm `Tuple(len, _)`: before the repair only the `WellFormed` clause; after it also
    `IsFullyVisible((T̄)) :- IsFullyVisible(T̄)`.  (For `len = 0` the scalar arm applies; it
    generates the same clause.) -/
def tupleClauses (fixed : Bool) (args : List Ty) : Pred → List (List DG)
  | .isUpstream => []
  | .isFullyVisible => if fixed then [args.map (DG.ty .isFullyVisible)] else []
  | .isLocal => []
  | .downstreamType => []

/-- `TraitDatum::to_program_clauses`, "Impls for remote traits must have a local type in the
    right place": for `i` in `0..n` the clause
    `LocalImplAllowed(..) :- IsFullyVisible(A0), .., IsFullyVisible(A(i-1)), IsLocal(Ai)`;
    `pre` = the `IsFullyVisible` conditions accumulated so far -/
def liaBodies : List DG → List Ty → List (List DG)
  | _, [] => []
  | pre, t :: ts => (pre ++ [DG.ty .isLocal t]) :: liaBodies (pre ++ [DG.ty .isFullyVisible t]) ts

/-- bodies of the clauses whose head matches the ground goal `g` (empty environment) -/
def clausesFor (fixed : Bool) (P : Program) : DG → List (List DG)
  | .ty p (.adt id args) => adtClauses (P.adt id) args.toList p
  | .ty p (.scalar _) => scalarClauses fixed p
  | .ty p (.tuple args) => tupleClauses fixed args.toList p
  -- `TyKind::Placeholder(_)`: only `WellFormed`
  | .ty _ (.param _) => []
  | .localImplAllowed tr args =>
      -- "Impls for traits declared locally always pass the impl rules"
      if P.traitUpstream tr then liaBodies [] args.toList else [[]]

/-- the meaning of the clause set: least fixed point -/
inductive Derivable (fixed : Bool) (P : Program) : DG → Prop where
  | step {g : DG} {body : List DG} :
      body ∈ clausesFor fixed P g → (∀ b, b ∈ body → Derivable fixed P b) → Derivable fixed P g

/-- the goal `perform_orphan_check` poses -/
def orphanGoal (im : Impl) : DG := .localImplAllowed im.trait im.args

/-! ## Resolution over the clause model (what the driver runs) -/

mutual
  def Ty.size : Ty → Nat
    | .adt _ args => args.size + 1
    | .scalar _ => 1
    | .tuple args => args.size + 1
    | .param _ => 1
  def Tys.size : Tys → Nat
    | .nil => 0
    | .cons t ts => t.size + ts.size + 1
end

def DG.size : DG → Nat
  | .ty _ t => t.size
  | .localImplAllowed _ args => args.size + 1

theorem Tys.size_of_mem : (ts : Tys) → (a : Ty) → a ∈ ts.toList → a.size ≤ ts.size
  | .nil, a, h => by simp [Tys.toList] at h
  | .cons t ts, a, h => by
      simp only [Tys.toList, List.mem_cons] at h
      cases h with
      | inl h => subst h; simp [Tys.size]; omega
      | inr h => have := Tys.size_of_mem ts a h; simp [Tys.size]; omega

theorem liaBodies_lt (n : Nat) : (ts : List Ty) → (pre : List DG) →
    (∀ b ∈ pre, b.size < n) → (∀ t ∈ ts, t.size < n) →
    ∀ body ∈ liaBodies pre ts, ∀ b ∈ body, b.size < n
  | [], _, _, _ => by simp [liaBodies]
  | t :: ts, pre, hpre, hts => by
      intro body hb b hbb
      simp only [liaBodies, List.mem_cons] at hb
      have ht : t.size < n := hts t (by simp)
      cases hb with
      | inl h =>
          subst h
          simp only [List.mem_append, List.mem_singleton] at hbb
          cases hbb with
          | inl h => exact hpre b h
          | inr h => subst h; exact ht
      | inr h =>
          refine liaBodies_lt n ts (pre ++ [DG.ty .isFullyVisible t]) ?_ (fun u hu => hts u (by simp [hu])) body h b hbb
          intro c hc
          simp only [List.mem_append, List.mem_singleton] at hc
          cases hc with
          | inl h => exact hpre c h
          | inr h => subst h; exact ht

/-- every condition of a matching clause is about a strictly smaller goal -/
theorem clausesFor_lt (fixed : Bool) (P : Program) (g : DG) (body : List DG) (b : DG)
    (hb : body ∈ clausesFor fixed P g) (hbb : b ∈ body) : b.size < g.size := by
  cases g with
  | ty p t =>
      cases t with
      | adt id args =>
          have hs := Tys.size_of_mem args
          cases p <;> simp only [clausesFor, adtClauses] at hb
          · split at hb
            · simp at hb; subst hb; simp at hbb
            · split at hb
              · simp only [List.mem_map] at hb
                obtain ⟨a, ha, rfl⟩ := hb
                simp at hbb; subst hbb
                have := hs a ha; simp [DG.size, Ty.size]; omega
              · simp at hb
          · split at hb
            · simp at hb
            · split at hb
              · simp at hb; subst hb
                simp only [List.mem_map] at hbb
                obtain ⟨a, ha, rfl⟩ := hbb
                have := hs a ha; simp [DG.size, Ty.size]; omega
              · simp at hb; subst hb; simp at hbb
          · simp at hb; subst hb
            simp only [List.mem_map] at hbb
            obtain ⟨a, ha, rfl⟩ := hbb
            have := hs a ha; simp [DG.size, Ty.size]; omega
          · split at hb
            · simp only [List.mem_map] at hb
              obtain ⟨a, ha, rfl⟩ := hb
              simp at hbb; subst hbb
              have := hs a ha; simp [DG.size, Ty.size]; omega
            · simp at hb
      | scalar s =>
          cases p <;> cases fixed <;> simp [clausesFor, scalarClauses] at hb <;> (subst hb; simp at hbb)
      | tuple args =>
          have hs := Tys.size_of_mem args
          cases p <;> cases fixed <;> simp [clausesFor, tupleClauses] at hb
          subst hb
          simp only [List.mem_map] at hbb
          obtain ⟨a, ha, rfl⟩ := hbb
          have := hs a ha; simp [DG.size, Ty.size]; omega
      | param i => simp [clausesFor] at hb
  | localImplAllowed tr args =>
      simp only [clausesFor] at hb
      split at hb
      · refine liaBodies_lt (args.size + 1) args.toList [] (by simp) ?_ body hb b hbb
        intro t ht
        have := Tys.size_of_mem args t ht; omega
      · simp at hb; subst hb; simp at hbb

/-- SLD resolution on ground goals: some matching clause all of whose conditions are provable -/
def provable (fixed : Bool) (P : Program) (g : DG) : Bool :=
  (clausesFor fixed P g).attach.any fun body =>
    body.1.attach.all fun b => provable fixed P b.1
termination_by g.size
decreasing_by exact clausesFor_lt fixed P g body.1 b.1 body.2 b.2

/-- verdict of the orphan check on the code as it is (after the repair of F5) -/
def orphanCheck (P : Program) (im : Impl) : Bool := provable true P (orphanGoal im)

end Chalk.Orphan
