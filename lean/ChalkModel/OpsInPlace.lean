/- Driver ops for C27 (in-place folding): decode the harness's parameters, run the `InPlace` model,
   print the canonical rendering. No model logic here. -/
import ChalkModel.Wire
import ChalkModel.InPlace

namespace Chalk
open Sexp

/-! C27: `map-vec` / `map-box` run the `InPlace` model on the harness's parameters.
    Layout names → (`is_layout_identical`, `is_zst::<T>`, `needs_drop::<T>`, `needs_drop::<U>`; ids of `T` all 0, ids of `U` all 0);
    zero-sized elements cannot carry an id, the harness reports 0 for them. -/
def c27Layout : String → Option (InPlace.Layout × Bool × Bool)
  | "same" => some ({ identical := true, zst := false }, false, false)
  | "same-wide" => some ({ identical := true, zst := false }, false, false)
  | "plain-to-drop" => some ({ identical := true, zst := false, glueT := false }, false, false)
  | "drop-to-plain" => some ({ identical := true, zst := false, glueU := false }, false, false)
  | "plain-to-plain" => some ({ identical := true, zst := false, glueT := false, glueU := false }, false, false)
  | "diff" => some ({ identical := false, zst := false }, false, false)
  | "plain-diff" => some ({ identical := false, zst := false, glueT := false }, false, false)
  | "diff-plain" => some ({ identical := false, zst := false, glueU := false }, false, false)
  | "shrink" => some ({ identical := false, zst := false }, false, false)
  | "zst" => some ({ identical := true, zst := true }, true, true)
  | "zst-sized" => some ({ identical := false, zst := true }, true, false)
  | "sized-zst" => some ({ identical := false, zst := false }, false, true)
  | _ => none

def c27Mode : Sexp → Option (Option InPlace.FailMode)
  | .atom "err" => some (some .err)
  | .atom "panic" => some (some .panic)
  | .atom "none" => some none
  | _ => none

def c27Tag : InPlace.Tag → (Nat × String)
  | .T => (0, "T") | .U => (1, "U") | .cb => (2, "cb")

def c27Slot : InPlace.Slot → Sexp
  | .liveU u => sNat u
  | .liveT t => .list [.atom "T", sNat t]
  | .moved => .atom "moved"
  | .dropped => .atom "dropped"

def c27Render : InPlace.Run → Sexp
  | .ub site => .list [.atom "ub", .atom (site.replace " " "-")]
  | .fin exit st =>
    let key : Nat × InPlace.Tag → Nat := fun e => e.1 * 3 + (c27Tag e.2).1
    let log := st.log.mergeSort (fun a b => key a ≤ key b)
    let logS := Sexp.list (log.map fun e => .list [sNat e.1, .atom (c27Tag e.2).2])
    match exit with
    | .ok => .list [.atom "ok", .list (st.result.slots.map c27Slot), logS]
    | .err => .list [.atom "err", .list [], logS]
    | .panic => .list [.atom "panic", .list [], logS]

def c27Callback (zstU : Bool) (k : Option Nat) (mode : Option InPlace.FailMode) : InPlace.Callback :=
  fun i _ =>
    match mode with
    | some m => if k = some i then m.out else .ok (if zstU then 0 else 100 + i)
    | none => .ok (if zstU then 0 else 100 + i)

def opsInPlace : Sexp → Option Sexp
  | .list [.atom "map-vec", .atom lay, n, k, mode] => do
      let (l, zstT, zstU) ← c27Layout lay
      let n ← n.nat?
      let mode ← c27Mode mode
      let k ← (match k with | .atom "none" => some none | k => k.nat?.map some)
      let ids := if zstT then List.replicate n 0 else List.range n
      some (c27Render (InPlace.fallibleMapVec l (c27Callback zstU k mode) ids))
  | .list [.atom "map-box", .atom lay, mode] => do
      let (l, _, zstU) ← c27Layout lay
      let mode ← c27Mode mode
      some (c27Render (InPlace.fallibleMapBox l (c27Callback zstU (some 0) mode) 0))
  | _ => none

end Chalk
