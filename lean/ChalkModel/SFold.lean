/-
  Folding with a folder that carries mutable state (`&mut self` of a `TypeFolder`): the same
  traversal as `Fold.lean` (`TypeSuperFoldable for Ty/Lifetime/Const`, the derived folds, the
  `outer_binder` discipline, field order of the Rust structs), with the state threaded through in
  traversal order.  Used for the folders whose answers depend on what they have seen so far
  (`Canonicalizer`, `Inverter`).

  Every leaf method is a handler.  The three const methods receive the constant's type *unfolded*,
  as the Rust methods do; the flags `folds…ConstTy` say that the method is the trait default, which
  first folds that type with the same folder (`ty.try_fold_with(self.as_dyn(), outer_binder)`) —
  the handler then receives the folded type.
-/
import ChalkModel.Fold

namespace Chalk

/-- sequencing of a state-threading step -/
@[inline] def bindS {α β σ : Type} (x : Res (α × σ)) (k : α → σ → Res (β × σ)) : Res (β × σ) :=
  match x with
  | .ok (a, s) => k a s
  | .error e => .error e

structure SFolder (σ : Type) where
  freeVarTy : (db idx outer : Nat) → σ → Res (Ty × σ)
  freeVarLt : (db idx outer : Nat) → σ → Res (Lifetime × σ)
  freeVarConst : (ty : Ty) → (db idx outer : Nat) → σ → Res (Const × σ)
  inferTy : (v : Nat) → (k : TyVarKind) → (outer : Nat) → σ → Res (Ty × σ)
  inferLt : (v outer : Nat) → σ → Res (Lifetime × σ)
  inferConst : (ty : Ty) → (v outer : Nat) → σ → Res (Const × σ)
  phTy : (ui idx outer : Nat) → σ → Res (Ty × σ)
  phLt : (ui idx outer : Nat) → σ → Res (Lifetime × σ)
  phConst : (ty : Ty) → (ui idx outer : Nat) → σ → Res (Const × σ)
  foldsFreeVarConstTy : Bool := false
  foldsInferConstTy : Bool := false
  foldsPhConstTy : Bool := false

def sfoldLifetime {σ : Type} (f : SFolder σ) (outer : Nat) : Lifetime → σ → Res (Lifetime × σ)
  | .bound db idx, s =>
      if outer ≤ db then f.freeVarLt (db - outer) idx outer s else .ok (.bound db idx, s)
  | .infer v, s => f.inferLt v outer s
  | .placeholder ui idx, s => f.phLt ui idx outer s
  | .static, s => .ok (.static, s)
  | .erased, s => .ok (.erased, s)
  | .error, s => .ok (.error, s)

mutual
  def sfoldTy {σ : Type} (f : SFolder σ) (outer : Nat) : Ty → σ → Res (Ty × σ)
    | .app n args, s => bindS (sfoldArgs f outer args s) fun args' s1 => .ok (.app n args', s1)
    | .scalar sc, s => .ok (.scalar sc, s)
    | .str, s => .ok (.str, s)
    | .never, s => .ok (.never, s)
    | .foreign id, s => .ok (.foreign id, s)
    | .error, s => .ok (.error, s)
    | .array t c, s =>
        bindS (sfoldTy f outer t s) fun t' s1 =>
        bindS (sfoldConst f outer c s1) fun c' s2 => .ok (.array t' c', s2)
    | .slice t, s => bindS (sfoldTy f outer t s) fun t' s1 => .ok (.slice t', s1)
    | .raw m t, s => bindS (sfoldTy f outer t s) fun t' s1 => .ok (.raw m t', s1)
    | .ref m l t, s =>
        bindS (sfoldLifetime f outer l s) fun l' s1 =>
        bindS (sfoldTy f outer t s1) fun t' s2 => .ok (.ref m l' t', s2)
    | .placeholder ui idx, s => f.phTy ui idx outer s
    | .dyn kinds bounds l, s =>
        bindS (sfoldQWCs f (outer + 1) bounds s) fun b' s1 =>
        bindS (sfoldLifetime f outer l s1) fun l' s2 => .ok (.dyn kinds b' l', s2)
    | .proj id args, s => bindS (sfoldArgs f outer args s) fun args' s1 => .ok (.proj id args', s1)
    | .opaque id args, s => bindS (sfoldArgs f outer args s) fun args' s1 => .ok (.opaque id args', s1)
    | .function nb sig args, s =>
        bindS (sfoldArgs f (outer + 1) args s) fun args' s1 => .ok (.function nb sig args', s1)
    | .bound db idx, s =>
        if outer ≤ db then f.freeVarTy (db - outer) idx outer s else .ok (.bound db idx, s)
    | .infer v k, s => f.inferTy v k outer s
  def sfoldConst {σ : Type} (f : SFolder σ) (outer : Nat) : Const → σ → Res (Const × σ)
    | .mk ty (.bound db idx), s =>
        if outer ≤ db then
          if f.foldsFreeVarConstTy then
            bindS (sfoldTy f outer ty s) fun ty' s1 => f.freeVarConst ty' (db - outer) idx outer s1
          else f.freeVarConst ty (db - outer) idx outer s
        else .ok (.mk ty (.bound db idx), s)
    | .mk ty (.infer v), s =>
        if f.foldsInferConstTy then
          bindS (sfoldTy f outer ty s) fun ty' s1 => f.inferConst ty' v outer s1
        else f.inferConst ty v outer s
    | .mk ty (.placeholder ui idx), s =>
        if f.foldsPhConstTy then
          bindS (sfoldTy f outer ty s) fun ty' s1 => f.phConst ty' ui idx outer s1
        else f.phConst ty ui idx outer s
    | .mk ty (.concrete k), s =>
        bindS (sfoldTy f outer ty s) fun ty' s1 => .ok (.mk ty' (.concrete k), s1)
  def sfoldGArg {σ : Type} (f : SFolder σ) (outer : Nat) : GArg → σ → Res (GArg × σ)
    | .ty t, s => bindS (sfoldTy f outer t s) fun t' s1 => .ok (.ty t', s1)
    | .lt l, s => bindS (sfoldLifetime f outer l s) fun l' s1 => .ok (.lt l', s1)
    | .ct c, s => bindS (sfoldConst f outer c s) fun c' s1 => .ok (.ct c', s1)
  def sfoldArgs {σ : Type} (f : SFolder σ) (outer : Nat) : Args → σ → Res (Args × σ)
    | .nil, s => .ok (.nil, s)
    | .cons a as, s =>
        bindS (sfoldGArg f outer a s) fun a' s1 =>
        bindS (sfoldArgs f outer as s1) fun as' s2 => .ok (.cons a' as', s2)
  def sfoldWC {σ : Type} (f : SFolder σ) (outer : Nat) : WC → σ → Res (WC × σ)
    | .implemented tr args, s =>
        bindS (sfoldArgs f outer args s) fun args' s1 => .ok (.implemented tr args', s1)
    | .aliasEqProj id args ty, s =>
        bindS (sfoldArgs f outer args s) fun args' s1 =>
        bindS (sfoldTy f outer ty s1) fun ty' s2 => .ok (.aliasEqProj id args' ty', s2)
    | .aliasEqOpaque id args ty, s =>
        bindS (sfoldArgs f outer args s) fun args' s1 =>
        bindS (sfoldTy f outer ty s1) fun ty' s2 => .ok (.aliasEqOpaque id args' ty', s2)
    | .ltOutlives a b, s =>
        bindS (sfoldLifetime f outer a s) fun a' s1 =>
        bindS (sfoldLifetime f outer b s1) fun b' s2 => .ok (.ltOutlives a' b', s2)
    | .tyOutlives t l, s =>
        bindS (sfoldTy f outer t s) fun t' s1 =>
        bindS (sfoldLifetime f outer l s1) fun l' s2 => .ok (.tyOutlives t' l', s2)
  def sfoldQWC {σ : Type} (f : SFolder σ) (outer : Nat) : QWC → σ → Res (QWC × σ)
    | .mk kinds wc, s => bindS (sfoldWC f (outer + 1) wc s) fun wc' s1 => .ok (.mk kinds wc', s1)
  def sfoldQWCs {σ : Type} (f : SFolder σ) (outer : Nat) : QWCs → σ → Res (QWCs × σ)
    | .nil, s => .ok (.nil, s)
    | .cons q qs, s =>
        bindS (sfoldQWC f outer q s) fun q' s1 =>
        bindS (sfoldQWCs f outer qs s1) fun qs' s2 => .ok (.cons q' qs', s2)
end

/-- the three free-variable methods of a folder with `forbid_free_vars() = true` -/
def forbidFreeVarTy {σ : Type} : (db idx outer : Nat) → σ → Res (Ty × σ) :=
  fun _ _ _ _ => .error (.panic "unexpected free variable")
def forbidFreeVarLt {σ : Type} : (db idx outer : Nat) → σ → Res (Lifetime × σ) :=
  fun _ _ _ _ => .error (.panic "unexpected free variable")
def forbidFreeVarConst {σ : Type} : (ty : Ty) → (db idx outer : Nat) → σ → Res (Const × σ) :=
  fun _ _ _ _ _ => .error (.panic "unexpected free variable")

end Chalk
