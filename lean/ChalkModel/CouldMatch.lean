/-
  Model of `chalk-ir/src/could_match.rs` (`MatchZipper::{zip_tys, zip_lifetimes, zip_consts,
  zip_binders}`, `CouldMatch for ProgramClause`), the parts of `zip.rs` it runs through
  (`Zipper::zip_substs`, `Zip for [T]`, `GenericArgData`, `TraitRef`, `ProjectionTy`, `OpaqueTy`,
  the derived zips of `DomainGoal`/`WhereClause`/`AliasEq`/`Normalize`/...), and the filter of
  `Program::impls_for_trait` (`chalk-integration/src/program.rs`).

  Results are `Res Bool`: `zip_substs` indexes the declared variance list at every position it
  visits (`v.as_slice(interner)[i]`), which panics when the list is shorter than the substitution.
-/
import ChalkModel.Fold

namespace Chalk

/-- the part of `UnificationDatabase` the pre-filter consults -/
structure UDb where
  adtVariance : Nat → List Variance
  fnDefVariance : Nat → List Variance

def oobPanic : Err := .panic "index out of bounds"

mutual
  /-- `MatchZipper::zip_tys(a, b).is_ok()` -/
  def cmTy (db : UDb) : Ty → Ty → Res Bool
    | .app n args, b => match b with
        | .app n' args' =>
            match n, n' with
            | .adt i, .adt j =>
                if i = j then cmZipSubsts db (some (db.adtVariance i).length) 0 args args' else .ok false
            | .fnDef i, .fnDef j =>
                if i = j then cmZipSubsts db (some (db.fnDefVariance i).length) 0 args args' else .ok false
            -- `id_a == id_b && matches(..)` / `zip_substs(None)`: same loop without variances
            | .assocTy i, .assocTy j => if i = j then cmZipSubsts db none 0 args args' else .ok false
            | .tuple i, .tuple j => if i = j then cmZipSubsts db none 0 args args' else .ok false
            | .opaqueTy i, .opaqueTy j => if i = j then cmZipSubsts db none 0 args args' else .ok false
            | .closure i, .closure j => if i = j then cmZipSubsts db none 0 args args' else .ok false
            | .coroutine i, .coroutine j => if i = j then cmZipSubsts db none 0 args args' else .ok false
            | .witness i, .witness j => if i = j then cmZipSubsts db none 0 args args' else .ok false
            | _, _ => .ok true   -- different kinds of type: the `_ => true` arm
        | _ => .ok true
    | .scalar s, b => match b with
        | .scalar s' => .ok (s == s')
        | _ => .ok true
    | .foreign i, b => match b with
        | .foreign i' => .ok (i == i')
        | _ => .ok true
    | .slice t, b => match b with
        | .slice t' => cmTy db t t'
        | _ => .ok true
    | .raw m t, b => match b with
        | .raw m' t' => if m = m' then cmTy db t t' else .ok false
        | _ => .ok true
    | .ref m _ t, b => match b with
        | .ref m' _ t' => if m = m' then cmTy db t t' else .ok false   -- lifetimes always match
        | _ => .ok true
    | .array t _, b => match b with
        | .array t' _ => cmTy db t t'                                  -- consts always match
        | _ => .ok true
    | _, _ => .ok true   -- Str/Str, Never/Never, Error/Error and every other pair
  /-- derived `Zip for GenericArgData` under the `MatchZipper` -/
  def cmGArg (db : UDb) : GArg → GArg → Res Bool
    | .ty t, b => match b with
        | .ty t' => cmTy db t t'
        | _ => .ok false
    | .lt _, b => match b with
        | .lt _ => .ok true
        | _ => .ok false
    | .ct _, b => match b with
        | .ct _ => .ok true
        | _ => .ok false
  /-- `Zipper::zip_substs(ambient, variances, a, b)`: `a.iter().zip(b)` (truncating), the variance
      list indexed at each visited position, stop at the first mismatch. `vlen` = length of the
      variance list when one is passed. -/
  def cmZipSubsts (db : UDb) (vlen : Option Nat) (i : Nat) : Args → Args → Res Bool
    | .cons a as, bs => match bs with
        | .cons b bs' =>
            match vlen with
            | some n =>
                if i < n then
                  match cmGArg db a b with
                  | .ok true => cmZipSubsts db vlen (i + 1) as bs'
                  | r => r
                else .error oobPanic
            | none =>
                match cmGArg db a b with
                | .ok true => cmZipSubsts db vlen (i + 1) as bs'
                | r => r
        | .nil => .ok true
    | .nil, _ => .ok true
end

/-- `<[GenericArg] as Zip>::zip_with`: length test, then element-wise. -/
def cmSlice (db : UDb) (a b : Args) : Res Bool :=
  if a.length = b.length then cmZipSubsts db none 0 a b else .ok false

/-- `Zip for TraitRef` / `ProjectionTy` / `OpaqueTy`: id equality, then `zip_substs(None)`. -/
def cmNamed (db : UDb) (id id' : Nat) (a b : Args) : Res Bool :=
  if id = id' then cmZipSubsts db none 0 a b else .ok false

def andThen (r : Res Bool) (k : Unit → Res Bool) : Res Bool :=
  match r with
  | .ok true => k ()
  | r => r

def cmAlias (db : UDb) : Alias → Alias → Res Bool
  | .proj id a, .proj id' a' => cmNamed db id id' a a'
  | .opaque id a, .opaque id' a' => cmNamed db id id' a a'
  | _, _ => .ok false

/-- derived `Zip for WhereClause` (and `AliasEq`, `LifetimeOutlives`, `TypeOutlives`) -/
def cmWC (db : UDb) : WC → WC → Res Bool
  | .implemented tr a, .implemented tr' a' => cmNamed db tr tr' a a'
  | .aliasEqProj id a t, .aliasEqProj id' a' t' => andThen (cmNamed db id id' a a') fun _ => cmTy db t t'
  | .aliasEqOpaque id a t, .aliasEqOpaque id' a' t' => andThen (cmNamed db id id' a a') fun _ => cmTy db t t'
  | .aliasEqProj .., .aliasEqOpaque .. => .ok false
  | .aliasEqOpaque .., .aliasEqProj .. => .ok false
  | .ltOutlives _ _, .ltOutlives _ _ => .ok true
  | .tyOutlives t _, .tyOutlives t' _ => cmTy db t t'
  | _, _ => .ok false

/-- derived `Zip for DomainGoal` under the `MatchZipper` -/
def cmDomainGoal (db : UDb) : DomainGoal → DomainGoal → Res Bool
  | .holds w, .holds w' => cmWC db w w'
  | .wfTrait tr a, .wfTrait tr' a' => cmNamed db tr tr' a a'
  | .wfTy t, .wfTy t' => cmTy db t t'
  | .fromEnvTrait tr a, .fromEnvTrait tr' a' => cmNamed db tr tr' a a'
  | .fromEnvTy t, .fromEnvTy t' => cmTy db t t'
  | .normalize al t, .normalize al' t' => andThen (cmAlias db al al') fun _ => cmTy db t t'
  | .isLocal t, .isLocal t' => cmTy db t t'
  | .isUpstream t, .isUpstream t' => cmTy db t t'
  | .isFullyVisible t, .isFullyVisible t' => cmTy db t t'
  | .localImplAllowed tr a, .localImplAllowed tr' a' => cmNamed db tr tr' a a'
  | .compatible, .compatible => .ok true
  | .downstreamType t, .downstreamType t' => cmTy db t t'
  | .reveal, .reveal => .ok true
  | .objectSafe tr, .objectSafe tr' => .ok (tr == tr')
  | _, _ => .ok false

/-- `Program::impls_for_trait`: the impls (as `(trait id, header arguments)` in declaration order)
    kept by the filter; the `assert_eq!` on lengths is a panic outcome. Returns kept indices. -/
def implsForTrait (db : UDb) (traitId : Nat) (params : Args) :
    (impls : List (Nat × Args)) → (idx : Nat) → Res (List Nat)
  | [], _ => .ok []
  | (tr, hdr) :: rest, idx =>
      if tr = traitId then
        if hdr.length = params.length then
          match cmSlice db params hdr with
          | .ok keep =>
              match implsForTrait db traitId params rest (idx + 1) with
              | .ok ks => .ok (if keep then idx :: ks else ks)
              | .error e => .error e
          | .error e => .error e
        else .error (.panic "assert_eq substitution.len parameters.len")
      else implsForTrait db traitId params rest (idx + 1)

end Chalk
