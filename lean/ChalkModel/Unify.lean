/-
  Model of `chalk-solve/src/infer/unify.rs`:
  `InferenceTable::relate` (snapshot / rollback_to / commit), `Unifier::{relate, relate_ty_ty,
  unify_var_var, unify_general_var_specific_ty, relate_binders (at `FnSubst`, at the bounds of a
  `dyn` and at a quantified where clause), relate_alias_ty,
  generalize_ty/_lifetime/_const/_generic_var/_substitution, relate_var_ty,
  relate_lifetime_lifetime, unify_lifetime_var, relate_const_const, unify_var_const,
  push_lifetime_outlives_goals, push_subtype_goal}`, `OccursCheck` (all nine overridden folder
  methods, run over the `TypeSuperFoldable` traversal of `chalk-ir/src/fold.rs`), and the parts of
  `chalk-ir/src/zip.rs` the unifier runs through (`Zipper::zip_substs`, `Zip for [T]`,
  `GenericArgData`, `FnSubst`, `DynTy`, `QuantifiedWhereClauses`, `WhereClause`, `TraitRef`,
  `AliasEq`, `Binders`), `infer/instantiate.rs`
  (`instantiate_binders_universally/_existentially`).

  Conventions
  * The unifier's state is `UState` = inference table + the `goals` vector (push order).
  * Outcomes: `Except UErr`: `noSolution`, `panic site`, `unsupported what` (kept in the type for
    arms a model does not cover; every arm of `relate_ty_ty` is covered, so it is never produced),
    `outOfFuel`.
  * Recursion that is not structural (both sides are first normalized through the table; the
    occurs check and `generalize_ty` follow bound variables) is bounded by fuel:
    `relateTy db jf fuel`: `fuel` bounds the *nesting depth* of `relate_ty_ty` calls (every nested
    call gets `fuel - 1`, siblings share it), `jf` bounds the length of a chain of
    variable-to-value jumps inside one occurs check / generalization / resolution.
    `fuel > depth of the two types fully resolved through the table + 2 * (number of
    variable bindings made on one path)` and `jf > number of variables` suffice on tables built
    by `relate` itself (values never contain their own variable: occurs check). On the rigid
    fragment `fuel ≥ depth of the left type` is proved sufficient (`relateTy_rigid`); the driver
    runs with fuel 100000 and the differential runs never produced `outOfFuel`.
  * `ena`'s table is the model of `Infer.lean`.
-/
import ChalkModel.Infer
import ChalkModel.CouldMatch
import ChalkModel.Shift
import ChalkModel.Variance

namespace Chalk

/-- the goals the unifier returns (`RelationResult.goals`, each `InEnvironment` of the one
    environment passed in): `LifetimeOutlives { a, b }`, `SubtypeGoal { a, b }`, `AliasEq` -/
inductive UGoal where
  | outlives (a b : Lifetime)
  | subtype (a b : Ty)
  | aliasEq (alias : Alias) (ty : Ty)
  deriving DecidableEq, Repr

inductive UErr where
  | noSolution
  | panic (site : String)
  | unsupported (what : String)
  | outOfFuel
  deriving DecidableEq, Repr, Inhabited

abbrev URes (α : Type) := Except UErr α

def liftRes {α} : Res α → URes α
  | .ok a => .ok a
  | .error .noSolution => .error .noSolution
  | .error (.panic s) => .error (.panic s)

structure UState where
  table : Table
  goals : List UGoal := []
  deriving DecidableEq, Repr

def uPanicBound : UErr := .panic "unification encountered bound variable"
def uPanicFree : UErr := .panic "unexpected free variable"
def uPanicKind : UErr := .panic "called Option::unwrap on a None value"
def uPanicOob : UErr := .panic "index out of bounds"
def uPanicSub : UErr := .panic "attempt to subtract with overflow"

/-- `push_lifetime_outlives_goals(variance, a, b)` -/
def pushOutlives (v : Variance) (a b : Lifetime) (st : UState) : UState :=
  let g1 := match v with
    | .inv | .contra => [UGoal.outlives a b]
    | .co => []
  let g2 := match v with
    | .inv | .co => [UGoal.outlives b a]
    | .contra => []
  { st with goals := st.goals ++ (g1 ++ g2) }

/-- `push_subtype_goal(a, b)` -/
def pushSubtype (a b : Ty) (st : UState) : UState :=
  { st with goals := st.goals ++ [.subtype a b] }

def pushAliasEq (al : Alias) (ty : Ty) (st : UState) : UState :=
  { st with goals := st.goals ++ [.aliasEq al ty] }

/-- a table operation lifted to the unifier state (`.unwrap()` / `.expect(..)` on its result) -/
def UState.withTable (st : UState) (r : Res Table) : URes UState :=
  match r with
  | .ok t => .ok { st with table := t }
  | .error e => liftRes (.error e)

/-- `Ty::is_integer` / `Ty::is_float` on the scalar codes of the wire format
    (10..15 `Int`, 20..25 `Uint`, 30..33 `Float`) -/
def Ty.isIntegerTy : Ty → Bool
  | .scalar s => (10 ≤ s && s ≤ 15) || (20 ≤ s && s ≤ 25)
  | _ => false
def Ty.isFloatTy : Ty → Bool
  | .scalar s => 30 ≤ s && s ≤ 33
  | _ => false

/-! ## `OccursCheck` (a `FallibleTypeFolder` with `forbid_free_vars`) -/

structure OccCtx where
  /-- `self.var` -/
  var : Nat
  /-- `self.universe_index` -/
  ui : Nat

/-- "fold the value of a bound variable with the same folder": the three recursive calls of
    `try_fold_inference_{ty,lifetime,const}` that leave the term being traversed -/
structure OccJumps where
  jT : Ty → UState → URes (Ty × UState)
  jL : (outer : Nat) → Lifetime → UState → URes (Lifetime × UState)
  jC : Const → UState → URes (Const × UState)

/-- `TypeSuperFoldable for Lifetime` with the `OccursCheck` methods
    `try_fold_inference_lifetime`, `try_fold_free_placeholder_lifetime` -/
def occLt (J : OccJumps) (c : OccCtx) (outer : Nat) (l : Lifetime) (st : UState) : URes (Lifetime × UState) :=
  match l with
  | .bound db idx => if outer ≤ db then .error uPanicFree else .ok (.bound db idx, st)
  | .infer v =>
      match st.table.probeValue v with
      | .unbound ui =>
          if c.ui < ui then
            match st.withTable (st.table.unifyVarValue v (.unbound c.ui)) with
            | .ok st' => .ok (.infer v, st')
            | .error e => .error e
          else .ok (.infer v, st)
      | .bound (.lt l') => J.jL outer l' st
      | .bound _ => .error uPanicKind
  | .placeholder ui idx =>
      if c.ui < ui then
        let (t', x) := st.table.newVariable c.ui
        .ok (.infer x, pushOutlives .inv (.infer x) (.placeholder ui idx) { st with table := t' })
      else .ok (.placeholder ui idx, st)
  | .static => .ok (.static, st)
  | .erased => .ok (.erased, st)
  | .error => .ok (.error, st)

mutual
  def occTy (J : OccJumps) (c : OccCtx) (outer : Nat) : Ty → UState → URes (Ty × UState)
    | .app n args, st => match occArgs J c outer args st with
        | .ok (args', st') => .ok (.app n args', st')
        | .error e => .error e
    | .scalar s, st => .ok (.scalar s, st)
    | .str, st => .ok (.str, st)
    | .never, st => .ok (.never, st)
    | .foreign id, st => .ok (.foreign id, st)
    | .error, st => .ok (.error, st)
    | .array t k, st => match occTy J c outer t st with
        | .ok (t', st1) => match occConst J c outer k st1 with
            | .ok (k', st2) => .ok (.array t' k', st2)
            | .error e => .error e
        | .error e => .error e
    | .slice t, st => match occTy J c outer t st with
        | .ok (t', st') => .ok (.slice t', st')
        | .error e => .error e
    | .raw m t, st => match occTy J c outer t st with
        | .ok (t', st') => .ok (.raw m t', st')
        | .error e => .error e
    | .ref m l t, st => match occLt J c outer l st with
        | .ok (l', st1) => match occTy J c outer t st1 with
            | .ok (t', st2) => .ok (.ref m l' t', st2)
            | .error e => .error e
        | .error e => .error e
    -- `try_fold_free_placeholder_ty`
    | .placeholder ui idx, st => if c.ui < ui then .error .noSolution else .ok (.placeholder ui idx, st)
    | .dyn kinds bounds l, st => match occQWCs J c (outer + 1) bounds st with
        | .ok (b', st1) => match occLt J c outer l st1 with
            | .ok (l', st2) => .ok (.dyn kinds b' l', st2)
            | .error e => .error e
        | .error e => .error e
    | .proj id args, st => match occArgs J c outer args st with
        | .ok (args', st') => .ok (.proj id args', st')
        | .error e => .error e
    | .opaque id args, st => match occArgs J c outer args st with
        | .ok (args', st') => .ok (.opaque id args', st')
        | .error e => .error e
    | .function nb sig args, st => match occArgs J c (outer + 1) args st with
        | .ok (args', st') => .ok (.function nb sig args', st')
        | .error e => .error e
    | .bound db idx, st => if outer ≤ db then .error uPanicFree else .ok (.bound db idx, st)
    -- `try_fold_inference_ty`
    | .infer v k, st =>
        match st.table.probeValue v with
        | .bound (.ty val) => J.jT val st
        | .bound _ => .error uPanicKind
        | .unbound ui =>
            if st.table.find v = st.table.find c.var then .error .noSolution
            else if c.ui < ui then
              match st.withTable (st.table.unifyVarValue v (.unbound c.ui)) with
              | .ok st' => .ok (.infer v k, st')
              | .error e => .error e
            else .ok (.infer v k, st)
  def occConst (J : OccJumps) (c : OccCtx) (outer : Nat) : Const → UState → URes (Const × UState)
    | .mk ty (.bound db idx), st =>
        if outer ≤ db then .error uPanicFree else .ok (.mk ty (.bound db idx), st)
    -- `try_fold_inference_const` (the constant's type is passed through unfolded)
    | .mk ty (.infer v), st =>
        match st.table.probeValue v with
        | .bound (.ct val) => J.jC val st
        | .bound _ => .error uPanicKind
        | .unbound ui =>
            if st.table.find v = st.table.find c.var then .error .noSolution
            else if c.ui < ui then
              match st.withTable (st.table.unifyVarValue v (.unbound c.ui)) with
              | .ok st' => .ok (.mk ty (.infer v), st')
              | .error e => .error e
            else .ok (.mk ty (.infer v), st)
    -- `try_fold_free_placeholder_const`
    | .mk ty (.placeholder ui idx), st =>
        if c.ui < ui then .error .noSolution else .ok (.mk ty (.placeholder ui idx), st)
    | .mk ty (.concrete k), st => match occTy J c outer ty st with
        | .ok (ty', st') => .ok (.mk ty' (.concrete k), st')
        | .error e => .error e
  def occGArg (J : OccJumps) (c : OccCtx) (outer : Nat) : GArg → UState → URes (GArg × UState)
    | .ty t, st => match occTy J c outer t st with
        | .ok (t', st') => .ok (.ty t', st')
        | .error e => .error e
    | .lt l, st => match occLt J c outer l st with
        | .ok (l', st') => .ok (.lt l', st')
        | .error e => .error e
    | .ct k, st => match occConst J c outer k st with
        | .ok (k', st') => .ok (.ct k', st')
        | .error e => .error e
  def occArgs (J : OccJumps) (c : OccCtx) (outer : Nat) : Args → UState → URes (Args × UState)
    | .nil, st => .ok (.nil, st)
    | .cons a as, st => match occGArg J c outer a st with
        | .ok (a', st1) => match occArgs J c outer as st1 with
            | .ok (as', st2) => .ok (.cons a' as', st2)
            | .error e => .error e
        | .error e => .error e
  def occWC (J : OccJumps) (c : OccCtx) (outer : Nat) : WC → UState → URes (WC × UState)
    | .implemented tr args, st => match occArgs J c outer args st with
        | .ok (args', st') => .ok (.implemented tr args', st')
        | .error e => .error e
    | .aliasEqProj id args ty, st => match occArgs J c outer args st with
        | .ok (args', st1) => match occTy J c outer ty st1 with
            | .ok (ty', st2) => .ok (.aliasEqProj id args' ty', st2)
            | .error e => .error e
        | .error e => .error e
    | .aliasEqOpaque id args ty, st => match occArgs J c outer args st with
        | .ok (args', st1) => match occTy J c outer ty st1 with
            | .ok (ty', st2) => .ok (.aliasEqOpaque id args' ty', st2)
            | .error e => .error e
        | .error e => .error e
    | .ltOutlives a b, st => match occLt J c outer a st with
        | .ok (a', st1) => match occLt J c outer b st1 with
            | .ok (b', st2) => .ok (.ltOutlives a' b', st2)
            | .error e => .error e
        | .error e => .error e
    | .tyOutlives t l, st => match occTy J c outer t st with
        | .ok (t', st1) => match occLt J c outer l st1 with
            | .ok (l', st2) => .ok (.tyOutlives t' l', st2)
            | .error e => .error e
        | .error e => .error e
  def occQWC (J : OccJumps) (c : OccCtx) (outer : Nat) : QWC → UState → URes (QWC × UState)
    | .mk kinds wc, st => match occWC J c (outer + 1) wc st with
        | .ok (wc', st') => .ok (.mk kinds wc', st')
        | .error e => .error e
  def occQWCs (J : OccJumps) (c : OccCtx) (outer : Nat) : QWCs → UState → URes (QWCs × UState)
    | .nil, st => .ok (.nil, st)
    | .cons q qs, st => match occQWC J c outer q st with
        | .ok (q', st1) => match occQWCs J c outer qs st1 with
            | .ok (qs', st2) => .ok (.cons q' qs', st2)
            | .error e => .error e
        | .error e => .error e
end

/-- the jumps with `jf` levels of variable-to-value indirection left -/
def occJumps (c : OccCtx) : Nat → OccJumps
  | 0 => { jT := fun _ _ => .error .outOfFuel, jL := fun _ _ _ => .error .outOfFuel,
           jC := fun _ _ => .error .outOfFuel }
  | n + 1 => { jT := fun val st => occTy (occJumps c n) c 0 val st,
               jL := fun outer l st => occLt (occJumps c n) c outer l st,
               jC := fun val st => occConst (occJumps c n) c 0 val st }

/-- `ty.try_fold_with(&mut OccursCheck::new(self, var, universe_index), INNERMOST)` -/
def occursCheckTy (jf : Nat) (c : OccCtx) (t : Ty) (st : UState) : URes (Ty × UState) :=
  occTy (occJumps c jf) c 0 t st
def occursCheckConst (jf : Nat) (c : OccCtx) (k : Const) (st : UState) : URes (Const × UState) :=
  occConst (occJumps c jf) c 0 k st

/-! ## generalization -/

/-- `generalize_lifetime` -/
def generalizeLifetime (ui : Nat) (v : Variance) (l : Lifetime) (t : Table) : Lifetime × Table :=
  match l, v with
  | .bound db idx, _ => (.bound db idx, t)
  | l, .inv => (l, t)
  | _, _ => let (t', x) := t.newVariable ui; (.infer x, t')

/-- `generalize_const` -/
def generalizeConst (ui : Nat) (k : Const) (t : Table) : Const × Table :=
  match k with
  | .mk ty (.bound db idx) => (.mk ty (.bound db idx), t)
  | .mk ty _ => let (t', x) := t.newVariable ui; (.mk ty (.infer x), t')

/-- how `generalize_substitution`'s `get_variance(i)` closure answers -/
inductive GenVariances where
  /-- `|_| variance` -/
  | const (v : Variance)
  /-- `variances.as_slice(interner)[i]` -/
  | table (vs : List Variance)
  /-- `FnPointer`: `variance.xform(Contravariant)` for `i < len - 1`, `variance` for the last -/
  | fnPtr (v : Variance) (len : Nat)

def GenVariances.get (g : GenVariances) (i : Nat) : URes Variance :=
  match g with
  | .const v => .ok v
  | .table vs => match vs[i]? with
      | some v => .ok v
      | none => .error uPanicOob
  | .fnPtr v len => if i + 1 < len then .ok (v.xform .contra) else .ok v

mutual
  /-- `generalize_ty(ty, universe_index, variance)`; `jG` = the recursive call on the value of a
      bound general variable -/
  def generalizeTy (jG : Variance → Ty → Table → URes (Ty × Table)) (db : UDb) (ui : Nat)
      (v : Variance) : Ty → Table → URes (Ty × Table)
    | .app n args, t =>
        let gv : GenVariances := match n with
          | .adt id => if v = .inv then .const .inv else .table (db.adtVariance id)
          | .fnDef id => if v = .inv then .const .inv else .table (db.fnDefVariance id)
          | _ => .const v
        match generalizeArgs jG db ui gv 0 args t with
        | .ok (args', t') => .ok (.app n args', t')
        | .error e => .error e
    | .scalar s, t => .ok (.scalar s, t)
    | .str, t => .ok (.str, t)
    | .never, t => .ok (.never, t)
    | .foreign id, t => .ok (.foreign id, t)
    | .error, t => .ok (.error, t)
    | .array ty k, t => match generalizeTy jG db ui v ty t with
        | .ok (ty', t1) => let (k', t2) := generalizeConst ui k t1; .ok (.array ty' k', t2)
        | .error e => .error e
    | .slice ty, t => match generalizeTy jG db ui v ty t with
        | .ok (ty', t') => .ok (.slice ty', t')
        | .error e => .error e
    | .raw m ty, t => match generalizeTy jG db ui (if m then .inv else .co) ty t with
        | .ok (ty', t') => .ok (.raw m ty', t')
        | .error e => .error e
    | .ref m l ty, t =>
        let (l', t1) := generalizeLifetime ui (v.xform .contra) l t
        match generalizeTy jG db ui (if m then .inv else .co) ty t1 with
        | .ok (ty', t2) => .ok (.ref m l' ty', t2)
        | .error e => .error e
    | .placeholder u idx, t => .ok (.placeholder u idx, t)
    | .dyn kinds bounds l, t =>
        let (l', t1) := generalizeLifetime ui (v.xform .contra) l t
        match generalizeQWCs jG db ui v bounds t1 with
        | .ok (bounds', t2) => .ok (.dyn kinds bounds' l', t2)
        | .error e => .error e
    | .proj _ _, t => let (t', x) := t.newVariable ui; .ok (.infer x .general, t')
    | .opaque _ _, t => let (t', x) := t.newVariable ui; .ok (.infer x .general, t')
    | .function nb sig args, t =>
        match generalizeArgs jG db ui (.fnPtr v args.length) 0 args t with
        | .ok (args', t') => .ok (.function nb sig args', t')
        | .error e => .error e
    | .bound d idx, t => .ok (.bound d idx, t)
    | .infer x k, t =>
        match k with
        | .integer => .ok (.infer x k, t)
        | .float => .ok (.infer x k, t)
        | .general =>
            match t.normalizeTyShallow (.infer x k) with
            | some ty => jG v ty t
            | none =>
                if v = .inv then .ok (.infer x k, t)
                else let (t', y) := t.newVariable ui; .ok (.infer y .general, t')
  /-- `generalize_generic_var` -/
  def generalizeGArg (jG : Variance → Ty → Table → URes (Ty × Table)) (db : UDb) (ui : Nat)
      (v : Variance) : GArg → Table → URes (GArg × Table)
    | .ty ty, t => match generalizeTy jG db ui v ty t with
        | .ok (ty', t') => .ok (.ty ty', t')
        | .error e => .error e
    | .lt l, t => let (l', t') := generalizeLifetime ui v l t; .ok (.lt l', t')
    | .ct k, t => let (k', t') := generalizeConst ui k t; .ok (.ct k', t')
  /-- `generalize_substitution(substitution, universe_index, get_variance)` -/
  def generalizeArgs (jG : Variance → Ty → Table → URes (Ty × Table)) (db : UDb) (ui : Nat)
      (gv : GenVariances) (i : Nat) : Args → Table → URes (Args × Table)
    | .nil, t => .ok (.nil, t)
    | .cons a as, t =>
        match gv.get i with
        | .error e => .error e
        | .ok v =>
          match generalizeGArg jG db ui v a t with
          | .ok (a', t1) => match generalizeArgs jG db ui gv (i + 1) as t1 with
              | .ok (as', t2) => .ok (.cons a' as', t2)
              | .error e => .error e
          | .error e => .error e
  /-- the `|clause| match clause { .. }` closure of the `Dyn` arm of `generalize_ty` -/
  def generalizeWC (jG : Variance → Ty → Table → URes (Ty × Table)) (db : UDb) (ui : Nat)
      (v : Variance) : WC → Table → URes (WC × Table)
    -- `generalize_substitution_skip_self`
    | .implemented tr .nil, t => .ok (.implemented tr .nil, t)
    | .implemented tr (.cons self rest), t =>
        match generalizeArgs jG db ui (.const v) 1 rest t with
        | .ok (rest', t') => .ok (.implemented tr (.cons self rest'), t')
        | .error e => .error e
    | .aliasEqProj id args _, t =>
        match generalizeArgs jG db ui (.const v) 0 args t with
        | .ok (args', t1) => let (t2, x) := t1.newVariable ui; .ok (.aliasEqProj id args' (.infer x .general), t2)
        | .error e => .error e
    | .aliasEqOpaque id args _, t =>
        match generalizeArgs jG db ui (.const v) 0 args t with
        | .ok (args', t1) => let (t2, x) := t1.newVariable ui; .ok (.aliasEqOpaque id args' (.infer x .general), t2)
        | .error e => .error e
    | .tyOutlives _ _, t =>
        let (t1, l) := t.newVariable ui
        let (t2, x) := t1.newVariable ui
        .ok (.tyOutlives (.infer x .general) (.infer l), t2)
    | .ltOutlives _ _, _ => .error (.panic "internal error: entered unreachable code")
  def generalizeQWC (jG : Variance → Ty → Table → URes (Ty × Table)) (db : UDb) (ui : Nat)
      (v : Variance) : QWC → Table → URes (QWC × Table)
    | .mk kinds wc, t => match generalizeWC jG db ui v wc t with
        | .ok (wc', t') => .ok (.mk kinds wc', t')
        | .error e => .error e
  def generalizeQWCs (jG : Variance → Ty → Table → URes (Ty × Table)) (db : UDb) (ui : Nat)
      (v : Variance) : QWCs → Table → URes (QWCs × Table)
    | .nil, t => .ok (.nil, t)
    | .cons q qs, t => match generalizeQWC jG db ui v q t with
        | .ok (q', t1) => match generalizeQWCs jG db ui v qs t1 with
            | .ok (qs', t2) => .ok (.cons q' qs', t2)
            | .error e => .error e
        | .error e => .error e
end

def generalizeJump (db : UDb) (ui : Nat) : Nat → Variance → Ty → Table → URes (Ty × Table)
  | 0 => fun _ _ _ => .error .outOfFuel
  | n + 1 => fun v ty t => generalizeTy (generalizeJump db ui n) db ui v ty t

def generalizeTyTop (db : UDb) (jf : Nat) (ui : Nat) (v : Variance) (ty : Ty) (t : Table) : URes (Ty × Table) :=
  generalizeTy (generalizeJump db ui jf) db ui v ty t

/-! ## shallow normalization: `assert_ty_ref` / `assert_lifetime_ref` / `assert_const_ref` -/

/-- `normalize_ty_shallow(leaf)` does not hit `assert_ty_ref().unwrap()` on a value of another sort -/
def Table.tyKindOk (t : Table) : Ty → Bool
  | .infer v _ => match t.probeVar v with
      | none => true
      | some (.ty (.infer w _)) => match t.probeVar w with
          | none => true
          | some (.ty _) => true
          | some _ => false
      | some (.ty _) => true
      | some _ => false
  | _ => true
def Table.ltKindOk (t : Table) : Lifetime → Bool
  | .infer v => match t.probeVar v with
      | none => true
      | some (.lt _) => true
      | some _ => false
  | _ => true
def Table.ctKindOk (t : Table) : Const → Bool
  | .mk _ (.infer v) => match t.probeVar v with
      | none => true
      | some (.ct _) => true
      | some _ => false
  | _ => true

/-! ## lifetimes -/

/-- `unify_lifetime_var(variance, var, value, value_ui)` -/
def unifyLifetimeVar (v : Variance) (var : Nat) (value : Lifetime) (valueUi : Nat) (st : UState) : URes UState :=
  match liftRes (st.table.universeOfUnbound var) with
  | .error e => .error e
  | .ok varUi =>
      if varUi ≥ valueUi ∧ v = .inv then
        st.withTable (st.table.unifyVarValue var (.bound (.lt value)))
      else .ok (pushOutlives v (.infer var) value st)

/-- `relate_lifetime_lifetime(variance, a, b)` (arm order of the Rust match) -/
def relateLifetime (v : Variance) (a0 b0 : Lifetime) (st : UState) : URes UState :=
  if !(st.table.ltKindOk a0 && st.table.ltKindOk b0) then .error uPanicKind else
  let a := (st.table.normalizeLifetimeShallow a0).getD a0
  let b := (st.table.normalizeLifetimeShallow b0).getD b0
  match a with
  | .infer va =>
      match b with
      | .infer vb => st.withTable (st.table.unifyVarVar va vb)
      | .placeholder ui _ => unifyLifetimeVar v va b ui st
      | .erased => unifyLifetimeVar v va b 0 st
      | .static => unifyLifetimeVar v va b 0 st
      | .error => unifyLifetimeVar v va b 0 st
      | .bound _ _ => .error uPanicBound
  | .placeholder ui _ =>
      match b with
      | .infer vb => unifyLifetimeVar v.invert vb a ui st
      | .error => .ok st
      | .bound _ _ => .error uPanicBound
      | _ => if a ≠ b then .ok (pushOutlives v a b st) else .ok st
  | .static =>
      match b with
      | .infer vb => unifyLifetimeVar v.invert vb a 0 st
      | .error => .ok st
      | .bound _ _ => .error uPanicBound
      | _ => if a ≠ b then .ok (pushOutlives v a b st) else .ok st
  | .erased =>
      match b with
      | .infer vb => unifyLifetimeVar v.invert vb a 0 st
      | .error => .ok st
      | .bound _ _ => .error uPanicBound
      | _ => if a ≠ b then .ok (pushOutlives v a b st) else .ok st
  | .error =>
      match b with
      | .infer vb => unifyLifetimeVar v.invert vb a 0 st
      | _ => .ok st
  | .bound _ _ =>
      match b with
      | .error => .ok st
      | _ => .error uPanicBound

/-! ## the recursive knot: everything below takes `rel` = `relate_ty_ty` one level down -/

abbrev RelTy := Variance → Ty → Ty → UState → URes UState

/-- `unify_var_const(var, c)` -/
def unifyVarConst (jf : Nat) (var : Nat) (k : Const) (st : UState) : URes UState :=
  match liftRes (st.table.universeOfUnbound var) with
  | .error e => .error e
  | .ok ui =>
      match occursCheckConst jf { var := var, ui := ui } k st with
      | .error e => .error e
      | .ok (k1, st1) => st1.withTable (st1.table.unifyVarValue var (.bound (.ct k1)))

/-- `relate_const_const(variance, a, b)` -/
def relateConst (rel : RelTy) (jf : Nat) (v : Variance) (a0 b0 : Const) (st : UState) : URes UState :=
  if !(st.table.ctKindOk a0 && st.table.ctKindOk b0) then .error uPanicKind else
  let a := (st.table.normalizeConstShallow a0).getD a0
  let b := (st.table.normalizeConstShallow b0).getD b0
  match a, b with
  | .mk aTy aVal, .mk bTy bVal =>
    match rel v aTy bTy st with
    | .error e => .error e
    | .ok st1 =>
      match aVal with
      | .infer v1 =>
          match bVal with
          | .infer v2 => st1.withTable (st1.table.unifyVarVar v1 v2)
          | .concrete _ => unifyVarConst jf v1 b st1
          | .placeholder _ _ => unifyVarConst jf v1 b st1
          | .bound _ _ => .error uPanicBound
      | .concrete k1 =>
          match bVal with
          | .infer v2 => unifyVarConst jf v2 a st1
          | .concrete k2 => if k1 = k2 then .ok st1 else .error .noSolution
          | .placeholder _ _ => .error .noSolution
          | .bound _ _ => .error uPanicBound
      | .placeholder u1 i1 =>
          match bVal with
          | .infer v2 => unifyVarConst jf v2 a st1
          | .placeholder u2 i2 => if u1 = u2 ∧ i1 = i2 then .ok st1 else .error .noSolution
          | .concrete _ => .error .noSolution
          | .bound _ _ => .error uPanicBound
      | .bound _ _ => .error uPanicBound

/-- derived `Zip for GenericArgData` under the `Unifier` -/
def relateGArg (rel : RelTy) (jf : Nat) (v : Variance) (a b : GArg) (st : UState) : URes UState :=
  match a with
  | .ty ta => match b with
      | .ty tb => rel v ta tb st
      | _ => .error .noSolution
  | .lt la => match b with
      | .lt lb => relateLifetime v la lb st
      | _ => .error .noSolution
  | .ct ka => match b with
      | .ct kb => relateConst rel jf v ka kb st
      | _ => .error .noSolution

/-- `Zipper::zip_substs(ambient, variances, a, b)`: `a.iter().zip(b.iter()).enumerate()`
    (truncating), the declared variance list indexed at every visited position -/
def zipSubsts (rel : RelTy) (jf : Nat) (ambient : Variance) (vs : Option (List Variance)) :
    Nat → Args → Args → UState → URes UState
  | i, .cons a as, .cons b bs, st =>
      let w : URes Variance := match vs with
        | some l => match l[i]? with
            | some x => .ok x
            | none => .error uPanicOob
        | none => .ok .inv
      match w with
      | .error e => .error e
      | .ok w =>
        match relateGArg rel jf (ambient.xform w) a b st with
        | .ok st' => zipSubsts rel jf ambient vs (i + 1) as bs st'
        | .error e => .error e
  | _, .nil, _, st => .ok st
  | _, .cons _ _, .nil, st => .ok st

/-- `<[GenericArg] as Zip>::zip_with`: length test, then element-wise with one variance -/
def zipSlice (rel : RelTy) (jf : Nat) (v : Variance) : List GArg → List GArg → UState → URes UState
  | a :: as, b :: bs, st =>
      match relateGArg rel jf v a b st with
      | .ok st' => zipSlice rel jf v as bs st'
      | .error e => .error e
  | _, _, st => .ok st

/-- `Zip for FnSubst` -/
def zipFnSubst (rel : RelTy) (jf : Nat) (v : Variance) (a b : Args) (st : UState) : URes UState :=
  let la := a.toList
  let lb := b.toList
  if la.length = 0 ∨ lb.length = 0 then .error uPanicSub
  else if la.length ≠ lb.length then .error .noSolution
  else
    match zipSlice rel jf (v.xform .contra) la.dropLast lb.dropLast st with
    | .error e => .error e
    | .ok st1 =>
        match la.getLast?, lb.getLast? with
        | some ra, some rb => relateGArg rel jf v ra rb st1
        | _, _ => .error uPanicKind

/-- `instantiate_binders_universally` on `Binders<FnSubst>` with `nb` lifetime binders:
    a new universe only when there is a binder, placeholders `!ui.idx`, `Subst::apply` -/
def instFnUniversally (nb : Nat) (args : Args) (st : UState) : URes (Args × UState) :=
  let (t', ui) := if nb = 0 then (st.table, 0) else st.table.newUniverse
  let params := (List.range nb).map fun i => GArg.lt (.placeholder ui i)
  match liftRes (args.subst params) with
  | .ok a => .ok (a, { st with table := t' })
  | .error e => .error e

def freshLifetimeVars : Nat → Nat → Table → List GArg × Table
  | 0, _, t => ([], t)
  | n + 1, ui, t =>
      let (t1, x) := t.newVariable ui
      let (rest, t2) := freshLifetimeVars n ui t1
      (.lt (.infer x) :: rest, t2)

/-- `instantiate_binders_existentially`: fresh lifetime variables in `max_universe`,
    `Substitution::apply` -/
def instFnExistentially (nb : Nat) (args : Args) (st : UState) : URes (Args × UState) :=
  let (params, t') := freshLifetimeVars nb st.table.maxUniverse st.table
  match liftRes (foldArgs (applyFolder params) 0 args) with
  | .ok a => .ok (a, { st with table := t' })
  | .error e => .error e

/-- `relate_binders(variance, a, b)` at `T = FnSubst` -/
def relateFnBinders (rel : RelTy) (jf : Nat) (v : Variance) (nbA : Nat) (a : Args) (nbB : Nat) (b : Args)
    (st : UState) : URes UState :=
  let first : URes UState :=
    if v = .inv ∨ v = .contra then
      match instFnUniversally nbA a st with
      | .error e => .error e
      | .ok (aU, st1) =>
        match instFnExistentially nbB b st1 with
        | .error e => .error e
        | .ok (bE, st2) => zipFnSubst rel jf .contra aU bE st2
    else .ok st
  match first with
  | .error e => .error e
  | .ok st3 =>
    if v = .inv ∨ v = .co then
      match instFnUniversally nbB b st3 with
      | .error e => .error e
      | .ok (bU, st4) =>
        match instFnExistentially nbA a st4 with
        | .error e => .error e
        | .ok (aE, st5) => zipFnSubst rel jf .co aE bU st5
    else .ok st3

/-! ### `dyn` types: `Zip for DynTy`, `relate_binders` at `QuantifiedWhereClauses` / `WhereClause` -/

/-- the parameters `instantiate_binders_universally` substitutes: placeholder `!ui.idx` of each kind -/
def universalParamsFrom (ui : Nat) : Nat → List VarKind → List GArg
  | _, [] => []
  | i, .ty _ :: ks => .ty (.placeholder ui i) :: universalParamsFrom ui (i + 1) ks
  | i, .lt :: ks => .lt (.placeholder ui i) :: universalParamsFrom ui (i + 1) ks
  | i, .const c :: ks => .ct (.mk (.scalar c) (.placeholder ui i)) :: universalParamsFrom ui (i + 1) ks

/-- `fresh_subst`: one new variable per binder, `to_generic_arg` -/
def freshVarsFor : List VarKind → Nat → Table → List GArg × Table
  | [], _, t => ([], t)
  | k :: ks, ui, t =>
      let (t1, x) := t.newVariable ui
      let g : GArg := match k with
        | .ty kind => .ty (.infer x kind)
        | .lt => .lt (.infer x)
        | .const c => .ct (.mk (.scalar c) (.infer x))
      let (rest, t2) := freshVarsFor ks ui t1
      (g :: rest, t2)

/-- `instantiate_binders_universally(Binders { kinds, value })`, `fold` = the value's `try_fold_with` -/
def instUniversallyWith {α : Type} (fold : Folder → Nat → α → Res α) (kinds : List VarKind) (value : α)
    (st : UState) : URes (α × UState) :=
  let (t', ui) := if kinds.isEmpty then (st.table, 0) else st.table.newUniverse
  match liftRes (fold (substFolder (universalParamsFrom ui 0 kinds)) 0 value) with
  | .ok a => .ok (a, { st with table := t' })
  | .error e => .error e

/-- `instantiate_binders_existentially` -/
def instExistentiallyWith {α : Type} (fold : Folder → Nat → α → Res α) (kinds : List VarKind) (value : α)
    (st : UState) : URes (α × UState) :=
  let (params, t') := freshVarsFor kinds st.table.maxUniverse st.table
  match liftRes (fold (applyFolder params) 0 value) with
  | .ok a => .ok (a, { st with table := t' })
  | .error e => .error e

/-- derived `Zip for WhereClause` (`TraitRef`, `AliasEq`/`AliasTy`/`ProjectionTy`/`OpaqueTy`,
    `LifetimeOutlives`, `TypeOutlives`) under the `Unifier` -/
def zipWC (rel : RelTy) (jf : Nat) (v : Variance) (a b : WC) (st : UState) : URes UState :=
  match a with
  | .implemented tr as => match b with
      | .implemented tr' bs => if tr = tr' then zipSubsts rel jf v none 0 as bs st else .error .noSolution
      | _ => .error .noSolution
  | .aliasEqProj id as ty => match b with
      | .aliasEqProj id' bs ty' =>
          if id = id' then
            match zipSubsts rel jf v none 0 as bs st with
            | .ok st1 => rel v ty ty' st1
            | .error e => .error e
          else .error .noSolution
      | _ => .error .noSolution
  | .aliasEqOpaque id as ty => match b with
      | .aliasEqOpaque id' bs ty' =>
          if id = id' then
            match zipSubsts rel jf v none 0 as bs st with
            | .ok st1 => rel v ty ty' st1
            | .error e => .error e
          else .error .noSolution
      | _ => .error .noSolution
  | .ltOutlives a1 a2 => match b with
      | .ltOutlives b1 b2 =>
          match relateLifetime v a1 b1 st with
          | .ok st1 => relateLifetime v a2 b2 st1
          | .error e => .error e
      | _ => .error .noSolution
  | .tyOutlives ty l => match b with
      | .tyOutlives ty' l' =>
          match rel v ty ty' st with
          | .ok st1 => relateLifetime v l l' st1
          | .error e => .error e
      | _ => .error .noSolution

/-- `relate_binders(variance, a, b)` at `T = WhereClause` (a quantified where clause) -/
def relateWCBinders (rel : RelTy) (jf : Nat) (v : Variance) (a b : QWC) (st : UState) : URes UState :=
  match a, b with
  | .mk ka wa, .mk kb wb =>
    let first : URes UState :=
      if v = .inv ∨ v = .contra then
        match instUniversallyWith foldWC ka wa st with
        | .error e => .error e
        | .ok (aU, st1) =>
          match instExistentiallyWith foldWC kb wb st1 with
          | .error e => .error e
          | .ok (bE, st2) => zipWC rel jf .contra aU bE st2
      else .ok st
    match first with
    | .error e => .error e
    | .ok st3 =>
      if v = .inv ∨ v = .co then
        match instUniversallyWith foldWC kb wb st3 with
        | .error e => .error e
        | .ok (bU, st4) =>
          match instExistentiallyWith foldWC ka wa st4 with
          | .error e => .error e
          | .ok (aE, st5) => zipWC rel jf .co aE bU st5
      else .ok st3

/-- `Zip for QuantifiedWhereClauses`: slices of equal length, element-wise `zip_binders` -/
def zipQWCsList (rel : RelTy) (jf : Nat) (v : Variance) : List QWC → List QWC → UState → URes UState
  | a :: as, b :: bs, st =>
      match relateWCBinders rel jf v a b st with
      | .ok st' => zipQWCsList rel jf v as bs st'
      | .error e => .error e
  | _, _, st => .ok st

def zipQWCs (rel : RelTy) (jf : Nat) (v : Variance) (a b : QWCs) (st : UState) : URes UState :=
  if a.toList.length ≠ b.toList.length then .error .noSolution
  else zipQWCsList rel jf v a.toList b.toList st

/-- `relate_binders(variance, a, b)` at `T = QuantifiedWhereClauses` (the bounds of a `dyn`) -/
def relateQWCsBinders (rel : RelTy) (jf : Nat) (v : Variance) (ka : List VarKind) (qa : QWCs)
    (kb : List VarKind) (qb : QWCs) (st : UState) : URes UState :=
  let first : URes UState :=
    if v = .inv ∨ v = .contra then
      match instUniversallyWith foldQWCs ka qa st with
      | .error e => .error e
      | .ok (aU, st1) =>
        match instExistentiallyWith foldQWCs kb qb st1 with
        | .error e => .error e
        | .ok (bE, st2) => zipQWCs rel jf .contra aU bE st2
    else .ok st
  match first with
  | .error e => .error e
  | .ok st3 =>
    if v = .inv ∨ v = .co then
      match instUniversallyWith foldQWCs kb qb st3 with
      | .error e => .error e
      | .ok (bU, st4) =>
        match instExistentiallyWith foldQWCs ka qa st4 with
        | .error e => .error e
        | .ok (aE, st5) => zipQWCs rel jf .co aE bU st5
    else .ok st3

/-- `Zip for DynTy`: bounds at `variance.xform(Invariant)`, lifetime at `variance.xform(Contravariant)` -/
def relateDyn (rel : RelTy) (jf : Nat) (v : Variance) (ka : List VarKind) (qa : QWCs) (la : Lifetime)
    (kb : List VarKind) (qb : QWCs) (lb : Lifetime) (st : UState) : URes UState :=
  match relateQWCsBinders rel jf (v.xform .inv) ka qa kb qb st with
  | .ok st1 => relateLifetime (v.xform .contra) la lb st1
  | .error e => .error e

/-- `relate_alias_ty(variance, alias, ty)` -/
def relateAliasTy (rel : RelTy) (v : Variance) (al : Alias) (ty : Ty) (st : UState) : URes UState :=
  match v with
  | .inv => .ok (pushAliasEq al ty st)
  | _ =>
      let (t', x) := st.table.newVariable 0
      let var : Ty := .infer x .general
      rel v var ty (pushAliasEq al var { st with table := t' })

/-- `relate_var_ty(variance, var, var_kind, ty)` -/
def relateVarTy (rel : RelTy) (db : UDb) (jf : Nat) (v : Variance) (var : Nat) (kind : TyVarKind) (ty : Ty)
    (st : UState) : URes UState :=
  let kindOk : Bool := match kind with
    | .general => true
    | .integer => ty.isIntegerTy
    | .float => ty.isFloatTy
  if !kindOk then .error .noSolution
  else
    match liftRes (st.table.universeOfUnbound var) with
    | .error e => .error e
    | .ok ui =>
      match occursCheckTy jf { var := var, ui := ui } ty st with
      | .error e => .error e
      | .ok (ty1, st1) =>
        match generalizeTyTop db jf ui v ty1 st1.table with
        | .error e => .error e
        | .ok (gen, t2) =>
          match ({ st1 with table := t2 } : UState).withTable (t2.unifyVarValue var (.bound (.ty gen))) with
          | .error e => .error e
          | .ok st3 => rel v gen ty1 st3

def Ty.asAlias : Ty → Option Alias
  | .proj id args => some (.proj id args)
  | .opaque id args => some (.opaque id args)
  | _ => none

def Ty.isBoundVar : Ty → Bool
  | .bound _ _ => true
  | _ => false
def Ty.isErrorTy : Ty → Bool
  | .error => true
  | _ => false
def Ty.isFunction : Ty → Bool
  | .function _ _ _ => true
  | _ => false
def Ty.isPlaceholder : Ty → Bool
  | .placeholder _ _ => true
  | _ => false
def Ty.isDyn : Ty → Bool
  | .dyn _ _ _ => true
  | _ => false

/-- the arms of `relate_ty_ty` from `(Adt, Adt)` down: same constructor, else `NoSolution` -/
def relateSameCtor (rel : RelTy) (db : UDb) (jf : Nat) (v : Variance) (a b : Ty) (st : UState) : URes UState :=
  match a with
  | .app n as =>
      match b with
      | .app n' bs =>
          match n with
          | .adt i => match n' with
              | .adt j => if i = j then zipSubsts rel jf v (some (db.adtVariance i)) 0 as bs st else .error .noSolution
              | _ => .error .noSolution
          | .assocTy i => match n' with
              | .assocTy j => if i = j then zipSubsts rel jf v none 0 as bs st else .error .noSolution
              | _ => .error .noSolution
          | .tuple i => match n' with
              | .tuple j => if i = j then zipSubsts rel jf v (some (List.replicate i .co)) 0 as bs st else .error .noSolution
              | _ => .error .noSolution
          | .opaqueTy i => match n' with
              | .opaqueTy j => if i = j then zipSubsts rel jf v none 0 as bs st else .error .noSolution
              | _ => .error .noSolution
          | .fnDef i => match n' with
              | .fnDef j => if i = j then zipSubsts rel jf v (some (db.fnDefVariance i)) 0 as bs st else .error .noSolution
              | _ => .error .noSolution
          | .closure i => match n' with
              | .closure j => if i = j then zipSubsts rel jf v none 0 as bs st else .error .noSolution
              | _ => .error .noSolution
          | .coroutine i => match n' with
              | .coroutine j => if i = j then zipSubsts rel jf v none 0 as bs st else .error .noSolution
              | _ => .error .noSolution
          | .witness i => match n' with
              | .witness j => if i = j then zipSubsts rel jf v none 0 as bs st else .error .noSolution
              | _ => .error .noSolution
      | _ => .error .noSolution
  | .scalar s => match b with
      | .scalar s' => if s = s' then .ok st else .error .noSolution
      | _ => .error .noSolution
  | .str => match b with
      | .str => .ok st
      | _ => .error .noSolution
  | .never => match b with
      | .never => .ok st
      | _ => .error .noSolution
  | .foreign i => match b with
      | .foreign j => if i = j then .ok st else .error .noSolution
      | _ => .error .noSolution
  | .slice ta => match b with
      | .slice tb => rel v ta tb st
      | _ => .error .noSolution
  | .ref ma la ta => match b with
      | .ref mb lb tb =>
          if ma ≠ mb then .error .noSolution
          else
            match relateLifetime (v.xform .contra) la lb st with
            | .error e => .error e
            | .ok st1 => rel (v.xform (if ma then .inv else .co)) ta tb st1
      | _ => .error .noSolution
  | .raw ma ta => match b with
      | .raw mb tb =>
          if ma ≠ mb then .error .noSolution
          else rel (v.xform (if ma then .inv else .co)) ta tb st
      | _ => .error .noSolution
  | .array ta ka => match b with
      | .array tb kb =>
          match rel v ta tb st with
          | .error e => .error e
          | .ok st1 => relateConst rel jf v ka kb st1
      | _ => .error .noSolution
  | _ => .error .noSolution

/-- `relate_ty_ty(variance, a, b)` with `rel` for the nested calls -/
def relateTyStep (rel : RelTy) (db : UDb) (jf : Nat) (v : Variance) (a0 b0 : Ty) (st : UState) : URes UState :=
  if !(st.table.tyKindOk a0 && st.table.tyKindOk b0) then .error uPanicKind else
  let a := (st.table.normalizeTyShallow a0).getD a0
  let b := (st.table.normalizeTyShallow b0).getD b0
  if a = b then .ok st
  else
    match a, b with
    | .infer v1 k1, .infer v2 k2 =>
        if k1 = .general ∧ k2 = .general then
          match v with
          | .inv => st.withTable (st.table.unifyVarVar v1 v2)
          | .co => .ok (pushSubtype a b st)
          | .contra => .ok (pushSubtype b a st)
        else if k1 = k2 then st.withTable (st.table.unifyVarVar v1 v2)
        else if k1 = .general then st.withTable (st.table.unifyVarValue v1 (.bound (.ty b)))
        else if k2 = .general then st.withTable (st.table.unifyVarValue v2 (.bound (.ty a)))
        else .error .noSolution
    | .function nb1 sig1 args1, .function nb2 sig2 args2 =>
        if sig1 = sig2 then relateFnBinders rel jf v nb1 args1 nb2 args2 st else .error .noSolution
    | .placeholder u1 i1, .placeholder u2 i2 =>
        if u1 = u2 ∧ i1 = i2 then .ok st else .error .noSolution
    | .dyn ka qa la, .dyn kb qb lb => relateDyn rel jf v ka qa la kb qb lb st
    | _, _ =>
      if a.isBoundVar || b.isBoundVar then .error uPanicBound
      else
        match b.asAlias with
        | some al => relateAliasTy rel v.invert al a st
        | none =>
          match a.asAlias with
          | some al => relateAliasTy rel v al b st
          | none =>
            match a with
            | .infer var kind => relateVarTy rel db jf v var kind b st
            | _ =>
              match b with
              | .infer var kind => relateVarTy rel db jf v.invert var kind a st
              | _ =>
                if a.isErrorTy || b.isErrorTy then .ok st
                else if a.isFunction || b.isFunction then .error .noSolution
                else if a.isPlaceholder || b.isPlaceholder then .error .noSolution
                else if a.isDyn || b.isDyn then .error .noSolution
                else relateSameCtor rel db jf v a b st

/-- `relate_ty_ty` with at most `fuel` nested calls -/
def relateTy (db : UDb) (jf : Nat) : Nat → RelTy
  | 0 => fun _ _ _ _ => .error .outOfFuel
  | n + 1 => fun v a b st => relateTyStep (relateTy db jf n) db jf v a b st

/-! ## `InferenceTable::relate` -/

/-- `table.ty_root(a).unwrap_or(a)` -/
def Table.tyRootOr (t : Table) : Ty → Ty
  | .infer v _ => .infer (t.find v) .general
  | a => a

/-- the `goals.retain(..)` of `Unifier::relate` -/
def retainGoal (t : Table) : UGoal → Bool
  | .subtype a b => t.tyRootOr a != t.tyRootOr b
  | _ => true

inductive RelOutcome where
  | ok (goals : List UGoal)
  | noSolution
  | panic (site : String)
  | unsupported (what : String)
  | outOfFuel
  deriving DecidableEq, Repr

/-- `InferenceTable::relate(interner, db, environment, variance, a, b)` at `T = Ty`:
    the table afterwards and the outcome. After a panic the real table is unspecified (the
    snapshot is neither committed nor rolled back); the model returns the rolled-back table. -/
def relate (db : UDb) (jf fuel : Nat) (t : Table) (v : Variance) (a b : Ty) : Table × RelOutcome :=
  let snapshot := t.snapshot
  match relateTy db jf fuel v a b { table := t, goals := [] } with
  | .ok st => (st.table, .ok (st.goals.filter (retainGoal st.table)))
  | .error .noSolution => (t.rollbackTo snapshot, .noSolution)
  | .error (.panic s) => (t.rollbackTo snapshot, .panic s)
  | .error (.unsupported w) => (t.rollbackTo snapshot, .unsupported w)
  | .error .outOfFuel => (t.rollbackTo snapshot, .outOfFuel)

/-! ## observation: deep resolution through the table (what the harness compares) -/

structure ResJumps where
  rT : Ty → Ty
  rL : Lifetime → Lifetime
  rC : Const → Const

/-- resolve a lifetime: a bound variable is replaced by its (resolved) value -/
def resolveLt (J : ResJumps) (t : Table) : Lifetime → Lifetime
  | .infer v => match t.probeVar v with
      | some (.lt l) => J.rL l
      | _ => .infer v
  | l => l

mutual
  def resolveTy (J : ResJumps) (t : Table) : Ty → Ty
    | .app n args => .app n (resolveArgs J t args)
    | .array ty k => .array (resolveTy J t ty) (resolveConst J t k)
    | .slice ty => .slice (resolveTy J t ty)
    | .raw m ty => .raw m (resolveTy J t ty)
    | .ref m l ty => .ref m (resolveLt J t l) (resolveTy J t ty)
    | .dyn kinds bounds l => .dyn kinds (resolveQWCs J t bounds) (resolveLt J t l)
    | .proj id args => .proj id (resolveArgs J t args)
    | .opaque id args => .opaque id (resolveArgs J t args)
    | .function nb sig args => .function nb sig (resolveArgs J t args)
    | .infer v k => match t.probeVar v with
        | some (.ty val) => J.rT val
        | _ => .infer v k
    | ty => ty
  def resolveConst (J : ResJumps) (t : Table) : Const → Const
    | .mk ty (.infer v) => match t.probeVar v with
        | some (.ct val) => J.rC val
        | _ => .mk (resolveTy J t ty) (.infer v)
    | .mk ty val => .mk (resolveTy J t ty) val
  def resolveGArg (J : ResJumps) (t : Table) : GArg → GArg
    | .ty ty => .ty (resolveTy J t ty)
    | .lt l => .lt (resolveLt J t l)
    | .ct k => .ct (resolveConst J t k)
  def resolveArgs (J : ResJumps) (t : Table) : Args → Args
    | .nil => .nil
    | .cons a as => .cons (resolveGArg J t a) (resolveArgs J t as)
  def resolveWC (J : ResJumps) (t : Table) : WC → WC
    | .implemented tr args => .implemented tr (resolveArgs J t args)
    | .aliasEqProj id args ty => .aliasEqProj id (resolveArgs J t args) (resolveTy J t ty)
    | .aliasEqOpaque id args ty => .aliasEqOpaque id (resolveArgs J t args) (resolveTy J t ty)
    | .ltOutlives a b => .ltOutlives (resolveLt J t a) (resolveLt J t b)
    | .tyOutlives ty l => .tyOutlives (resolveTy J t ty) (resolveLt J t l)
  def resolveQWC (J : ResJumps) (t : Table) : QWC → QWC
    | .mk kinds wc => .mk kinds (resolveWC J t wc)
  def resolveQWCs (J : ResJumps) (t : Table) : QWCs → QWCs
    | .nil => .nil
    | .cons q qs => .cons (resolveQWC J t q) (resolveQWCs J t qs)
end

/-- jumps with `n` levels left; out of levels (a cyclic table) the value is left as it is -/
def resJumps (t : Table) : Nat → ResJumps
  | 0 => { rT := id, rL := id, rC := id }
  | n + 1 => { rT := fun ty => resolveTy (resJumps t n) t ty, rL := fun l => resolveLt (resJumps t n) t l,
               rC := fun k => resolveConst (resJumps t n) t k }

/-- the type with every bound variable replaced by its value, `jf` levels deep -/
def Table.resolveTy (t : Table) (jf : Nat) (ty : Ty) : Ty := Chalk.resolveTy (resJumps t jf) t ty
def Table.resolveGArg (t : Table) (jf : Nat) (g : GArg) : GArg := Chalk.resolveGArg (resJumps t jf) t g

end Chalk
