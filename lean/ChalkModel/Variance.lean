/-
  Model of `chalk-ir/src/lib.rs` `Variance::{xform, invert}`.
-/
import ChalkModel.Syntax

namespace Chalk

/-- `Variance::xform(self, other)` (arm order of the Rust match) -/
def Variance.xform : Variance → Variance → Variance
  | .inv, _ => .inv
  | _, .inv => .inv
  | v, .co => v
  | .co, .contra => .contra
  | .contra, .contra => .co

/-- `Variance::invert` -/
def Variance.invert : Variance → Variance
  | .inv => .inv
  | .co => .contra
  | .contra => .co

end Chalk
