/-
  Model of `chalk-solve/src/solve/truncate.rs`: `needs_truncation` and `TySizeVisitor`
  (fields `size`, `depth`, `max_size`), i.e. the "size limit" (`max_size`) that the solvers test
  goals, answers and solutions against.

  (a) STATEFUL model.  `St` is the visitor's mutable state; `visitTy` is `TySizeVisitor::visit_ty`
      with the `match self.kind(interner)` of `<Ty as TypeSuperVisitable>::super_visit_with`
      (`chalk-ir/src/visit.rs`) inlined arm by arm: every arm is
      `St.leave (<the arm of super_visit_with> (St.enter s))`.  All other visitor methods are the
      defaults of `TypeVisitor` (`visit_lifetime`, `visit_const`, `visit_where_clause`, ... call
      `super_visit_with`), the impls of `chalk-ir/src/visit/boring_impls.rs`
      (`GenericArg`, `Substitution`, `QuantifiedWhereClauses`, `Vec<T>`: `visit_iter`),
      `visit/binder_impls.rs` (`Binders<T>`, `FnPointer`: visit the value under
      `outer_binder.shifted_in()`) and the derives (`DynTy`, `AliasTy`, `ProjectionTy`, `OpaqueTy`,
      `TraitRef`, `AliasEq`, `LifetimeOutlives`, `TypeOutlives`, `GenericArgData`, `WhereClause`:
      all fields in declaration order).  `outer_binder` only decides between
      `visit_free_var` and nothing; neither touches the state, so it is not carried.
      What the traversal does NOT reach (and therefore does not count):
        * the type of a constant (`<Const as TypeSuperVisitable>::super_visit_with` matches on
          `data.value` only), hence also not the `[T; N]` length's type;
        * the kinds of a binder (`Binders::visit_with` visits `self.value` only);
        * ids, scalars, mutability, tuple arity, fn signature (`const_visit!`/`id_visit!`);
        * lifetimes contain no types.
      The visitor never breaks (`ControlFlow::Continue` everywhere), so no `try_break!` exit.

      Inference table: the model is for a table in which NO variable is bound, so
      `normalize_ty_shallow` returns `None` for every type (`probe_var` = `Unbound`) and an
      inference variable is a leaf of size 1 (`visit_inference_var` = `Continue`).

  (b) PURE specification: `tyNodes` = number of type nodes reachable by the traversal;
      `maxTop` = the maximum of `tyNodes` over the top-level types of a value.
-/
import ChalkModel.Syntax

namespace Chalk.Truncate

/-- `TySizeVisitor { size, depth, max_size }` (without `interner`, `infer`) -/
structure St where
  size : Nat
  depth : Nat
  maxSize : Nat
  deriving DecidableEq, Repr, Inhabited

/-- `TySizeVisitor::new` -/
def St.init : St := ⟨0, 0, 0⟩

/-- `self.size += 1; self.max_size = max(self.size, self.max_size); self.depth += 1;` -/
def St.enter (s : St) : St :=
  let size := s.size + 1
  ⟨size, s.depth + 1, max size s.maxSize⟩

/-- `self.depth -= 1; if self.depth == 0 { self.size = 0; }` -/
def St.leave (s : St) : St :=
  let depth := s.depth - 1
  if depth = 0 then ⟨0, depth, s.maxSize⟩ else ⟨s.size, depth, s.maxSize⟩

/-- `visit_lifetime` (default) → `<Lifetime as TypeSuperVisitable>::super_visit_with`:
    every arm is `Continue` (`visit_free_var` / `visit_inference_var` / `visit_free_placeholder`
    defaults without the `forbid_*` switches). -/
def visitLifetime (s : St) : Lifetime → St
  | .bound _ _ => s
  | .infer _ => s
  | .placeholder _ _ => s
  | .static => s
  | .erased => s
  | .error => s

/-- `visit_const` (default) → `<Const as TypeSuperVisitable>::super_visit_with`:
    `match &self.data(interner).value {..}`; the constant's `ty` is not visited. -/
def visitConst (s : St) : Const → St
  | .mk _ty (.bound _ _) => s
  | .mk _ty (.infer _) => s
  | .mk _ty (.placeholder _ _) => s
  | .mk _ty (.concrete _) => s

mutual
  /-- `TySizeVisitor::visit_ty` (with `normalize_ty_shallow = None`) around the arms of
      `<Ty as TypeSuperVisitable>::super_visit_with` -/
  def visitTy (s : St) : Ty → St
    -- Adt / AssociatedType / Tuple / OpaqueType / FnDef / Closure / Coroutine / CoroutineWitness:
    -- (id or arity: no-op,) `substitution.visit_with`
    | .app _ args => (visitArgs s.enter args).leave
    | .scalar _ => s.enter.leave
    | .str => s.enter.leave
    | .never => s.enter.leave
    | .foreign _ => s.enter.leave
    | .error => s.enter.leave
    | .array t c => (visitConst (visitTy s.enter t) c).leave
    | .slice t => (visitTy s.enter t).leave
    | .raw _ t => (visitTy s.enter t).leave
    | .ref _ l t => (visitTy (visitLifetime s.enter l) t).leave
    | .placeholder _ _ => s.enter.leave
    -- `DynTy`: `bounds` (a `Binders<QuantifiedWhereClauses>`), then `lifetime`
    | .dyn _ bounds l => (visitLifetime (visitQWCs s.enter bounds) l).leave
    | .proj _ args => (visitArgs s.enter args).leave
    | .opaque _ args => (visitArgs s.enter args).leave
    -- `FnPointer::visit_with`: `self.substitution` only
    | .function _ _ args => (visitArgs s.enter args).leave
    | .bound _ _ => s.enter.leave
    | .infer _ _ => s.enter.leave
  /-- `GenericArg::visit_with` → derived `GenericArgData::visit_with` -/
  def visitGArg (s : St) : GArg → St
    | .ty t => visitTy s t
    | .lt l => visitLifetime s l
    | .ct c => visitConst s c
  /-- `Substitution::visit_with` = `visit_iter` -/
  def visitArgs (s : St) : Args → St
    | .nil => s
    | .cons a as => visitArgs (visitGArg s a) as
  /-- `visit_where_clause` (default) → derived `WhereClause::super_visit_with` -/
  def visitWC (s : St) : WC → St
    | .implemented _ args => visitArgs s args
    | .aliasEqProj _ args ty => visitTy (visitArgs s args) ty
    | .aliasEqOpaque _ args ty => visitTy (visitArgs s args) ty
    | .ltOutlives a b => visitLifetime (visitLifetime s a) b
    | .tyOutlives t l => visitLifetime (visitTy s t) l
  /-- `Binders<WhereClause>::visit_with` -/
  def visitQWC (s : St) : QWC → St
    | .mk _ wc => visitWC s wc
  /-- `QuantifiedWhereClauses::visit_with` = `visit_iter` -/
  def visitQWCs (s : St) : QWCs → St
    | .nil => s
    | .cons q qs => visitQWCs (visitQWC s q) qs
end

/-- `Vec<Ty>::visit_with` / `&[Ty]::visit_with` = `visit_iter` (the value of the unit test
    `multiple_types`) -/
def visitTys (s : St) : List Ty → St
  | [] => s
  | t :: ts => visitTys (visitTy s t) ts

/-- `AliasTy::visit_with` (derived): `ProjectionTy` / `OpaqueTy`: id (no-op), `substitution` -/
def visitAlias (s : St) : Alias → St
  | .proj _ args => visitArgs s args
  | .opaque _ args => visitArgs s args

/-- `visit_domain_goal` (default) → derived `DomainGoal::super_visit_with`
    (`WellFormed`/`FromEnv`: `Trait(TraitRef)` | `Ty(Ty)`; `Normalize { alias, ty }`) -/
def visitDomainGoal (s : St) : DomainGoal → St
  | .holds wc => visitWC s wc
  | .wfTrait _ args => visitArgs s args
  | .wfTy t => visitTy s t
  | .fromEnvTrait _ args => visitArgs s args
  | .fromEnvTy t => visitTy s t
  | .normalize alias ty => visitTy (visitAlias s alias) ty
  | .isLocal t => visitTy s t
  | .isUpstream t => visitTy s t
  | .isFullyVisible t => visitTy s t
  | .localImplAllowed _ args => visitArgs s args
  | .compatible => s
  | .downstreamType t => visitTy s t
  | .reveal => s
  | .objectSafe _ => s

/-- The `value: impl TypeVisitable<I>` of `needs_truncation`, for the kinds of value modelled. -/
inductive Value where
  | ty (t : Ty)
  | garg (a : GArg)
  | args (a : Args)
  | tys (ts : List Ty)
  | wc (w : WC)
  | goal (g : DomainGoal)
  deriving DecidableEq, Repr

/-- `value.visit_with(&mut visitor, DebruijnIndex::INNERMOST)` -/
def visitValue (s : St) : Value → St
  | .ty t => visitTy s t
  | .garg a => visitGArg s a
  | .args a => visitArgs s a
  | .tys ts => visitTys s ts
  | .wc w => visitWC s w
  | .goal g => visitDomainGoal s g

/-- `visitor.max_size` at the end of `needs_truncation` -/
def maxSizeOf (v : Value) : Nat := (visitValue St.init v).maxSize

/-- `needs_truncation(interner, infer, max_size, value)`: `visitor.max_size > max_size` -/
def needsTruncation (maxSize : Nat) (v : Value) : Bool := decide (maxSizeOf v > maxSize)

/-! ### (b) Pure specification (no state) -/

mutual
  /-- number of type nodes of `t` reachable by the traversal (including `t` itself) -/
  def tyNodes : Ty → Nat
    | .app _ args => 1 + argsNodes args
    | .scalar _ => 1
    | .str => 1
    | .never => 1
    | .foreign _ => 1
    | .error => 1
    | .array t _ => 1 + tyNodes t
    | .slice t => 1 + tyNodes t
    | .raw _ t => 1 + tyNodes t
    | .ref _ _ t => 1 + tyNodes t
    | .placeholder _ _ => 1
    | .dyn _ bounds _ => 1 + qwcsNodes bounds
    | .proj _ args => 1 + argsNodes args
    | .opaque _ args => 1 + argsNodes args
    | .function _ _ args => 1 + argsNodes args
    | .bound _ _ => 1
    | .infer _ _ => 1
  def gargNodes : GArg → Nat
    | .ty t => tyNodes t
    | .lt _ => 0
    | .ct _ => 0
  /-- sum over the arguments -/
  def argsNodes : Args → Nat
    | .nil => 0
    | .cons a as => gargNodes a + argsNodes as
  def wcNodes : WC → Nat
    | .implemented _ args => argsNodes args
    | .aliasEqProj _ args ty => argsNodes args + tyNodes ty
    | .aliasEqOpaque _ args ty => argsNodes args + tyNodes ty
    | .ltOutlives _ _ => 0
    | .tyOutlives t _ => tyNodes t
  def qwcNodes : QWC → Nat
    | .mk _ wc => wcNodes wc
  def qwcsNodes : QWCs → Nat
    | .nil => 0
    | .cons q qs => qwcNodes q + qwcsNodes qs
end

/-- the top-level types of a generic argument / substitution / where clause / goal: the types the
    traversal meets at `depth = 0` -/
def gargTopTys : GArg → List Ty
  | .ty t => [t]
  | .lt _ => []
  | .ct _ => []

def argsTopTys : Args → List Ty
  | .nil => []
  | .cons a as => gargTopTys a ++ argsTopTys as

def wcTopTys : WC → List Ty
  | .implemented _ args => argsTopTys args
  | .aliasEqProj _ args ty => argsTopTys args ++ [ty]
  | .aliasEqOpaque _ args ty => argsTopTys args ++ [ty]
  | .ltOutlives _ _ => []
  | .tyOutlives t _ => [t]

def aliasTopTys : Alias → List Ty
  | .proj _ args => argsTopTys args
  | .opaque _ args => argsTopTys args

def goalTopTys : DomainGoal → List Ty
  | .holds wc => wcTopTys wc
  | .wfTrait _ args => argsTopTys args
  | .wfTy t => [t]
  | .fromEnvTrait _ args => argsTopTys args
  | .fromEnvTy t => [t]
  | .normalize alias ty => aliasTopTys alias ++ [ty]
  | .isLocal t => [t]
  | .isUpstream t => [t]
  | .isFullyVisible t => [t]
  | .localImplAllowed _ args => argsTopTys args
  | .compatible => []
  | .downstreamType t => [t]
  | .reveal => []
  | .objectSafe _ => []

/-- the top-level types of a value -/
def Value.topTys : Value → List Ty
  | .ty t => [t]
  | .garg a => gargTopTys a
  | .args a => argsTopTys a
  | .tys ts => ts
  | .wc w => wcTopTys w
  | .goal g => goalTopTys g

/-- maximum of `tyNodes` over a list of types (0 for the empty list) -/
def maxNodes : List Ty → Nat
  | [] => 0
  | t :: ts => max (tyNodes t) (maxNodes ts)

/-- the specification of `visitor.max_size`: the size of the largest top-level type of the value
    (NOT the sum over the top-level types) -/
def maxTop (v : Value) : Nat := maxNodes v.topTys

end Chalk.Truncate
