/- Driver ops for C19 (coherence of one trait): decode the table of solver answers, run the
   `Coherence` model, print the canonical rendering. No model logic here. -/
import ChalkModel.Wire
import ChalkModel.Coherence

namespace Chalk
open Sexp

/-! C19: `(priorities n (marker neg0 neg1 …) ((disjoint specLR specRL) …))` and
    `(coh-trace …)` with the same arguments; pairs in `tuple_combinations` order. -/
def pairAns? : Sexp → Option Coherence.PairAns
  | .list [d, a, b] => do some ⟨← bool? d, ← bool? a, ← bool? b⟩
  | _ => none

def cohInput? (n flags table : Sexp) : Option Coherence.Input :=
  match flags, table with
  | .list (m :: negs), .list ps => do
      some (Coherence.Input.ofTable (← n.nat?) (← bool? m) (← negs.mapM bool?) (← ps.mapM pairAns?))
  | _, _ => none

def opsCoherence : Sexp → Option Sexp
  | .list [.atom "priorities", n, flags, table] => do
      let inp ← cohInput? n flags table
      some (match Coherence.specializationPriorities inp with
        | .ok pm => .list [.atom "ok", .list ((Coherence.priorityList inp pm).map
            (fun p => match p with | some p => sNat p | none => .atom "-"))]
        | .overlap => .atom "overlap"
        | .panic => .atom "panic")
  | .list [.atom "coh-trace", n, flags, table] => do
      let inp ← cohInput? n flags table
      some (.list ((Coherence.queryTrace inp).map (fun (l, r, k) => .list [sNat l, sNat r, sNat k])))
  | _ => none

end Chalk
