/-
  Stage-A evaluator (DESIGN §5): decides ground atoms/goals of the Horn fragment by resolution with
  one-sided matching, an ancestor stack (inductive atom on the stack = failure along this path;
  coinductive atom on the stack = success) and fuel.  `unknown` = out of fuel or outside the
  fragment (a clause variable that does not occur in the clause head, a coinductive clause with a
  non-coinductive condition).  Soundness of `yes`/`no` w.r.t. `Sem.lean` is proved in
  `Lemmas/EvalLemmas.lean`.
-/
import ChalkModel.Sem

namespace Chalk.Sem

inductive Verdict where
  | yes | no | unknown
  deriving DecidableEq, Repr

abbrev Asg := List (Nat × Tm)

def Asg.get (σ : Asg) (i : Nat) : Option Tm :=
  match σ with
  | [] => none
  | (j, t) :: rest => if j = i then some t else Asg.get rest i

def Asg.toFun (σ : Asg) : Nat → Tm := fun i => (σ.get i).getD (.var i)

mutual
  /-- one-sided matching of a pattern against a term, extending `σ` -/
  def matchTm : Tm → Tm → Asg → Option Asg
    | .var i, t, σ => match σ.get i with
        | some t' => if t' = t then some σ else none
        | none => some ((i, t) :: σ)
    | .app c args, .app c' args', σ => if c = c' then matchTms args args' σ else none
    | .app _ _, .var _, _ => none
  def matchTms : Tms → Tms → Asg → Option Asg
    | .nil, .nil, σ => some σ
    | .cons p ps, .cons t ts, σ => match matchTm p t σ with
        | some σ' => matchTms ps ts σ'
        | none => none
    | _, _, _ => none
end

def matchAtom (pat a : Atom) : Option Asg :=
  if pat.pred = a.pred then matchTms pat.args a.args [] else none

mutual
  def Tm.varsIn (σ : Asg) : Tm → Bool
    | .var i => (σ.get i).isSome
    | .app _ args => args.varsIn σ
  def Tms.varsIn (σ : Asg) : Tms → Bool
    | .nil => true
    | .cons t ts => t.varsIn σ && ts.varsIn σ
end

/-- all variables of the clause body are bound by matching the head -/
def bodyBound (σ : Asg) (body : List Atom) : Bool := body.all fun b => b.args.varsIn σ

def Verdict.or : Verdict → Verdict → Verdict
  | .yes, _ => .yes
  | _, .yes => .yes
  | .no, .no => .no
  | _, _ => .unknown

def Verdict.and : Verdict → Verdict → Verdict
  | .no, _ => .no
  | _, .no => .no
  | .yes, .yes => .yes
  | _, _ => .unknown

def Verdict.neg : Verdict → Verdict
  | .yes => .no | .no => .yes | .unknown => .unknown

/-- the coinductive stratum; `stack` = coinductive atoms assumed along the current path -/
def evalCo (P : Program) (Γ : List Atom) : Nat → List Atom → Atom → Verdict
  | 0, _, _ => .unknown
  | fuel + 1, stack, a =>
      if P.coind a.pred = false then .unknown
      else if a ∈ Γ then .yes
      else if a ∈ stack then .yes
      else
        P.clauses.foldr (fun c acc =>
          (match matchAtom c.head a with
           | none => Verdict.no
           | some σ =>
               if bodyBound σ c.body then
                 c.body.foldr (fun (b : Atom) acc' => (evalCo P Γ fuel (a :: stack) (b.inst σ.toFun)).and acc') .yes
               else .unknown).or acc) .no

/-- the inductive stratum; `stack` = inductive atoms that are ancestors on the current path -/
def evalInd (P : Program) (Γ : List Atom) : Nat → List Atom → Atom → Verdict
  | 0, _, _ => .unknown
  | fuel + 1, stack, a =>
      if a ∈ Γ then .yes
      else if P.coind a.pred then evalCo P Γ fuel [] a
      else if a ∈ stack then .no
      else
        P.clauses.foldr (fun c acc =>
          (match matchAtom c.head a with
           | none => Verdict.no
           | some σ =>
               if bodyBound σ c.body then
                 c.body.foldr (fun (b : Atom) acc' => (evalInd P Γ fuel (a :: stack) (b.inst σ.toFun)).and acc') .yes
               else .unknown).or acc) .no

def evalGoal (P : Program) (fuel : Nat) : List Atom → Goal → Verdict
  | Γ, .atom a => evalInd P Γ fuel [] a
  | _, .tt => .yes
  | Γ, .and g h => (evalGoal P fuel Γ g).and (evalGoal P fuel Γ h)
  | Γ, .implies hyps g => evalGoal P fuel (hyps ++ Γ) g
  | Γ, .not g => (evalGoal P fuel Γ g).neg
  | _, .eq s t => if s = t then .yes else .no

end Chalk.Sem
