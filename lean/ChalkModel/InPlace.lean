/-
  Slot-level model of `chalk-ir/src/fold/in_place.rs`
  (`fallible_map_box`, `fallible_map_vec`, `VecMappedInPlace::{new, finish}`, `Drop for VecMappedInPlace`).

  An allocation (`Region`) is a list of slots plus the state of its buffer.  The primitive steps
  (`ptr::read`, `ptr::write`, `ptr::drop_in_place`, freeing the buffer) return `Step.ub` when they are
  applied to a slot/buffer in the wrong state: read of a moved-out/dropped slot, drop of a moved-out
  or already dropped slot (double drop), drop at the wrong type, any access to a freed buffer,
  a second free.  Overwriting a live slot or freeing a buffer that still holds live slots is *not*
  `ub` (it is a leak); leaks show up as elements missing from the drop log.

  The `map` callback is an arbitrary function `position → id → ok newId | err | panic` (the position
  argument makes it as general as an `FnMut` with state; an `id → …` callback ignores it).  The
  callback takes ownership of its argument: when it fails, the argument is dropped by the callback,
  which is logged with tag `cb`.

  Drop glue: `Layout.glueT` / `Layout.glueU` say whether `T` / `U` have a destructor
  (`mem::needs_drop`).  Dropping an element of a type without drop glue runs no code and logs
  nothing — such drops (and such leaks) are not observable — but the slot still changes state, so
  dropping it twice or dropping a moved-out slot is still `ub` in the model.

  What is *not* modelled: the allocator (sizes, capacities, alignment of the buffer), i.e. the
  buffer is an ownership token `owned | freed`.

  This file imports nothing (it is linked into the model driver).
-/

namespace Chalk.InPlace

/-- who dropped an element, and at which type -/
inductive Tag where
  | T    -- dropped as a `T` by the code under study (guard / iterator)
  | U    -- dropped as a `U` by the code under study (guard / partial result)
  | cb   -- the `T` handed to the callback, dropped by the callback when it failed
  deriving DecidableEq, Repr

inductive ElemTy where
  | T | U
  deriving DecidableEq, Repr

def ElemTy.tag : ElemTy → Tag
  | .T => .T
  | .U => .U

inductive Slot where
  | liveT (id : Nat)   -- initialised, holds a `T`
  | liveU (id : Nat)   -- initialised, holds a `U`
  | moved              -- read out with `ptr::read` / never initialised
  | dropped            -- destructor has run
  deriving DecidableEq, Repr

def ElemTy.live : ElemTy → Nat → Slot
  | .T => .liveT
  | .U => .liveU

inductive Buf where
  | owned | freed
  deriving DecidableEq, Repr

structure Region where
  slots : List Slot
  buf : Buf
  deriving DecidableEq, Repr

abbrev Log := List (Nat × Tag)

inductive CbOut where
  | ok (newId : Nat) | err | panic
  deriving DecidableEq, Repr

/-- `map`: call index (= element position) → element id → outcome -/
abbrev Callback := Nat → Nat → CbOut

/-- `is_layout_identical::<T, U>()`, `is_zst::<T>()`, `mem::needs_drop::<T>()`, `mem::needs_drop::<U>()` -/
structure Layout where
  identical : Bool
  zst : Bool
  glueT : Bool := true
  glueU : Bool := true
  deriving DecidableEq, Repr

/-- does the element type have drop glue -/
def Layout.glue (lay : Layout) : ElemTy → Bool
  | .T => lay.glueT
  | .U => lay.glueU

/-- a destructor run on an element of type `ty`: recorded iff the type has drop glue -/
def Layout.logDrop (lay : Layout) (ty : ElemTy) (id : Nat) (tag : Tag) (log : Log) : Log :=
  if lay.glue ty then log ++ [(id, tag)] else log

inductive Step (α : Type) where
  | ub (site : String)
  | ok (a : α)

/-! ### primitive steps -/

/-- `ptr::read(ptr.add(i))` at type `T`: moves the value out, the slot stays behind uninitialised -/
def Region.read (r : Region) (i : Nat) : Step (Nat × Region) :=
  match r.buf with
  | .freed => .ub "read from freed buffer"
  | .owned =>
    match r.slots[i]? with
    | none => .ub "read out of bounds"
    | some (.liveT id) => .ok (id, { r with slots := r.slots.set i .moved })
    | some (.liveU _) => .ub "read of a U as T"
    | some .moved => .ub "read of moved-out slot"
    | some .dropped => .ub "read of dropped slot"

/-- `ptr::write(ptr.add(i) as *mut U, u)`: overwrites without dropping the old contents -/
def Region.write (r : Region) (i : Nat) (u : Nat) : Step Region :=
  match r.buf with
  | .freed => .ub "write to freed buffer"
  | .owned =>
    match r.slots[i]? with
    | none => .ub "write out of bounds"
    | some _ => .ok { r with slots := r.slots.set i (.liveU u) }

/-- `ptr::drop_in_place(ptr.add(i) as *mut ty)` -/
def Region.dropInPlace (lay : Layout) (ty : ElemTy) (r : Region) (i : Nat) (log : Log) : Step (Region × Log) :=
  match r.buf with
  | .freed => .ub "drop_in_place in freed buffer"
  | .owned =>
    match r.slots[i]?, ty with
    | none, _ => .ub "drop_in_place out of bounds"
    | some (.liveT id), .T => .ok ({ r with slots := r.slots.set i .dropped }, lay.logDrop .T id .T log)
    | some (.liveU id), .U => .ok ({ r with slots := r.slots.set i .dropped }, lay.logDrop .U id .U log)
    | some (.liveT _), .U => .ub "drop_in_place of a T as U"
    | some (.liveU _), .T => .ub "drop_in_place of a U as T"
    | some .moved, _ => .ub "drop_in_place of moved-out slot"
    | some .dropped, _ => .ub "double drop"

/-- dropping `Vec::from_raw_parts(ptr, 0, cap)` / a `Box<MaybeUninit<_>>` / an emptied `IntoIter`:
    no element destructor runs, the buffer is released -/
def Region.free (r : Region) : Step Region :=
  match r.buf with
  | .freed => .ub "double free"
  | .owned => .ok { r with buf := .freed }

/-- `Vec::push` on the vector being collected (capacity growth is not modelled) -/
def Region.push (r : Region) (u : Nat) : Step Region :=
  match r.buf with
  | .freed => .ub "push to freed buffer"
  | .owned => .ok { r with slots := r.slots ++ [.liveU u] }

/-- `for i in start .. start+count { drop_in_place(ptr.add(i) as *mut ty) }` -/
def dropRange (lay : Layout) (ty : ElemTy) : (count : Nat) → (i : Nat) → Region → Log → Step (Region × Log)
  | 0, _, r, log => .ok (r, log)
  | c + 1, i, r, log =>
    match r.dropInPlace lay ty i log with
    | .ub s => .ub s
    | .ok (r', log') => dropRange lay ty c (i + 1) r' log'

/-! ### whole-function outcomes -/

/-- how the function under study was left -/
inductive Exit where
  | ok | err | panic
  deriving DecidableEq, Repr

/-- the two failure modes of the callback -/
inductive FailMode where
  | err | panic
  deriving DecidableEq, Repr

def FailMode.out : FailMode → CbOut
  | .err => .err
  | .panic => .panic

def FailMode.exit : FailMode → Exit
  | .err => .err
  | .panic => .panic

/-- memory after the call: `src` is the allocation of the argument, `dst` the allocation made by
    the fallback path (`collect()` / `Box::new`), `none` on the in-place path -/
structure St where
  src : Region
  dst : Option Region
  log : Log
  deriving DecidableEq, Repr

/-- the allocation owned by the returned `Vec<U>` / `Box<U>` on `Exit.ok` -/
def St.result (st : St) : Region :=
  match st.dst with
  | some d => d
  | none => st.src

inductive Run where
  | ub (site : String)
  | fin (exit : Exit) (st : St)

/-! ### `fallible_map_vec`, in-place path -/

/-- `VecMappedInPlace { ptr, len, cap, map_in_progress }` (`ptr`/`cap` are the region) -/
structure Guard where
  len : Nat
  mapInProgress : Nat
  deriving DecidableEq, Repr

/-- `impl Drop for VecMappedInPlace`: drop `0..map_in_progress` as `U`, `map_in_progress+1..len`
    as `T`, then `Vec::from_raw_parts(ptr, 0, cap)` is dropped (frees the storage) -/
def guardDrop (lay : Layout) (g : Guard) (r : Region) (log : Log) : Step (Region × Log) :=
  match dropRange lay .U g.mapInProgress 0 r log with
  | .ub s => .ub s
  | .ok (r1, l1) =>
    match dropRange lay .T (g.len - (g.mapInProgress + 1)) (g.mapInProgress + 1) r1 l1 with
    | .ub s => .ub s
    | .ok (r2, l2) =>
      match r2.free with
      | .ub s => .ub s
      | .ok r3 => .ok (r3, l2)

/-- leaving the function through `?` (error) or by unwinding (panic) after the callback consumed
    element `id`: the callback's drop is logged, then the guard's destructor runs -/
def failInPlace (lay : Layout) (mode : FailMode) (g : Guard) (id : Nat) (r : Region) (log : Log) : Run :=
  match guardDrop lay g r (lay.logDrop .T id .cb log) with
  | .ub s => .ub s
  | .ok (r', log') => .fin mode.exit ⟨r', none, log'⟩

/-- the `for i in 0..vec.len` loop of `fallible_map_vec`, `rem` iterations left, followed by
    `vec.finish()` (`ManuallyDrop`: the guard's destructor does not run;
    `Vec::from_raw_parts(ptr as *mut U, len, cap)` takes the region over) -/
def mapLoop (lay : Layout) (cb : Callback) : (rem : Nat) → (i : Nat) → Guard → Region → Log → Run
  | 0, _, _, r, log => .fin .ok ⟨r, none, log⟩
  | rem + 1, i, g, r, log =>
    match r.read i with                                   -- let val = ptr::read(place)
    | .ub s => .ub s
    | .ok (id, r1) =>
      let g1 : Guard := { g with mapInProgress := i }     -- vec.map_in_progress = i
      match cb i id with                                  -- map(val)?
      | .ok u =>
        match r1.write i u with                           -- ptr::write(place as *mut U, mapped_val)
        | .ub s => .ub s
        | .ok r2 => mapLoop lay cb rem (i + 1) g1 r2 log
      | .err => failInPlace lay .err g1 id r1 log
      | .panic => failInPlace lay .panic g1 id r1 log

/-- dropping a whole `Vec<T>` (used only by the unreachable `assert!` arm of `new`) -/
def dropVecT (lay : Layout) (r : Region) (log : Log) : Step (Region × Log) :=
  match dropRange lay .T r.slots.length 0 r log with
  | .ub s => .ub s
  | .ok (r1, l1) =>
    match r1.free with
    | .ub s => .ub s
    | .ok r2 => .ok (r2, l1)

/-- `VecMappedInPlace::new(vec)` followed by the loop.  `new` asserts `is_layout_identical`; if the
    assertion failed, `vec` would be dropped by unwinding.  `mem::forget(vec)` runs no destructor. -/
def mapVecInPlace (lay : Layout) (cb : Callback) (ids : List Nat) : Run :=
  let r : Region := ⟨ids.map .liveT, .owned⟩
  if !lay.identical then
    match dropVecT lay r [] with
    | .ub s => .ub s
    | .ok (r', log) => .fin .panic ⟨r', none, log⟩
  else
    mapLoop lay cb ids.length 0 ⟨ids.length, 0⟩ r []

/-! ### `fallible_map_vec`, fallback path `vec.into_iter().map(map).collect()` -/

/-- `Drop for vec::IntoIter<T>` with the cursor at `i`: drops the remaining `[i, len)` as `T`,
    frees the buffer -/
def iterDrop (lay : Layout) (i : Nat) (src : Region) (log : Log) : Step (Region × Log) :=
  match dropRange lay .T (src.slots.length - i) i src log with
  | .ub s => .ub s
  | .ok (r1, l1) =>
    match r1.free with
    | .ub s => .ub s
    | .ok r2 => .ok (r2, l1)

/-- `Drop for Vec<U>` of the partially collected result -/
def dropVecU (lay : Layout) (dst : Region) (log : Log) : Step (Region × Log) :=
  match dropRange lay .U dst.slots.length 0 dst log with
  | .ub s => .ub s
  | .ok (r1, l1) =>
    match r1.free with
    | .ub s => .ub s
    | .ok r2 => .ok (r2, l1)

/-- the callback failed on element `id` (cursor already advanced to `i`): the callback's drop is
    logged, the iterator and the partial result are dropped.  (The relative order of these two
    destructors belongs to `std`, not to chalk; the correspondence check compares multisets.) -/
def failCollect (lay : Layout) (mode : FailMode) (i : Nat) (id : Nat) (src dst : Region) (log : Log) : Run :=
  match iterDrop lay i src (lay.logDrop .T id .cb log) with
  | .ub s => .ub s
  | .ok (src', l1) =>
    match dropVecU lay dst l1 with
    | .ub s => .ub s
    | .ok (dst', l2) => .fin mode.exit ⟨src', some dst', l2⟩

/-- `IntoIter::next` / `map` / push into the collected vector, `rem` elements left; when the
    iterator is exhausted it is dropped (frees the source buffer) and the collected vector is returned -/
def collectLoop (lay : Layout) (cb : Callback) : (rem : Nat) → (i : Nat) → (src dst : Region) → Log → Run
  | 0, i, src, dst, log =>
    match iterDrop lay i src log with
    | .ub s => .ub s
    | .ok (src', log') => .fin .ok ⟨src', some dst, log'⟩
  | rem + 1, i, src, dst, log =>
    match src.read i with
    | .ub s => .ub s
    | .ok (id, src1) =>
      match cb i id with
      | .ok u =>
        match dst.push u with
        | .ub s => .ub s
        | .ok dst1 => collectLoop lay cb rem (i + 1) src1 dst1 log
      | .err => failCollect lay .err (i + 1) id src1 dst log
      | .panic => failCollect lay .panic (i + 1) id src1 dst log

def mapVecFallback (lay : Layout) (cb : Callback) (ids : List Nat) : Run :=
  collectLoop lay cb ids.length 0 ⟨ids.map .liveT, .owned⟩ ⟨[], .owned⟩ []

/-- `fallible_map_vec` -/
def fallibleMapVec (lay : Layout) (cb : Callback) (ids : List Nat) : Run :=
  if !lay.identical || lay.zst then
    mapVecFallback lay cb ids
  else
    mapVecInPlace lay cb ids

/-! ### `fallible_map_box` -/

/-- in-place path: `Box::into_raw`, `ptr::read`, `Box<MaybeUninit<U>>::from_raw` (owns the
    allocation, never drops the contents), `map(val)?`, `ptr::write`, `Box::from_raw` -/
def mapBoxInPlace (lay : Layout) (cb : Callback) (id : Nat) : Run :=
  let r : Region := ⟨[.liveT id], .owned⟩
  match r.read 0 with
  | .ub s => .ub s
  | .ok (v, r1) =>
    match cb 0 v with
    | .ok u =>
      match r1.write 0 u with
      | .ub s => .ub s
      | .ok r2 => .fin .ok ⟨r2, none, []⟩
    | .err =>
      match r1.free with                      -- `raw: Box<MaybeUninit<U>>` dropped
      | .ub s => .ub s
      | .ok r2 => .fin .err ⟨r2, none, lay.logDrop .T v .cb []⟩
    | .panic =>
      match r1.free with
      | .ub s => .ub s
      | .ok r2 => .fin .panic ⟨r2, none, lay.logDrop .T v .cb []⟩

/-- fallback path `map(*b).map(Box::new)`: `*b` moves the value out of the box; the emptied box
    `b` frees its allocation when the function is left (normally or by unwinding);
    `Box::new(u)` = fresh allocation + write -/
def mapBoxFallback (lay : Layout) (cb : Callback) (id : Nat) : Run :=
  let r : Region := ⟨[.liveT id], .owned⟩
  match r.read 0 with
  | .ub s => .ub s
  | .ok (v, r1) =>
    match cb 0 v with
    | .ok u =>
      match (Region.mk [.moved] .owned).write 0 u with
      | .ub s => .ub s
      | .ok d =>
        match r1.free with
        | .ub s => .ub s
        | .ok r2 => .fin .ok ⟨r2, some d, []⟩
    | .err =>
      match r1.free with
      | .ub s => .ub s
      | .ok r2 => .fin .err ⟨r2, none, lay.logDrop .T v .cb []⟩
    | .panic =>
      match r1.free with
      | .ub s => .ub s
      | .ok r2 => .fin .panic ⟨r2, none, lay.logDrop .T v .cb []⟩

/-- `fallible_map_box` -/
def fallibleMapBox (lay : Layout) (cb : Callback) (id : Nat) : Run :=
  if !lay.identical || lay.zst then
    mapBoxFallback lay cb id
  else
    mapBoxInPlace lay cb id

/-! ### specification vocabulary used by the theorems -/

/-- the callback answers `ok us[j]` on the elements `xs[j]` presented at positions `i + j` -/
def Oks (cb : Callback) : Nat → List Nat → List Nat → Prop
  | _, [], [] => True
  | i, x :: xs, u :: us => cb i x = .ok u ∧ Oks cb (i + 1) xs us
  | _, _, _ => False

/-- no slot of the region holds a live value -/
def Region.nothingLive (r : Region) : Prop :=
  ∀ s ∈ r.slots, s = .moved ∨ s = .dropped

end Chalk.InPlace
