/- Driver ops for C18 (pre-filter). -/
import ChalkModel.Wire
import ChalkModel.CouldMatch

namespace Chalk
open Sexp

def udbOfSexp? : Sexp → Option UDb
  | .list [.atom "udb", adts, fns] => do
      let a ← varianceTableOfSexp? adts
      let f ← varianceTableOfSexp? fns
      some { adtVariance := fun i => a.getD i [], fnDefVariance := fun i => f.getD i [] }
  | _ => none

def implListOfSexp? : Sexp → Option (List (Nat × Args))
  | .list xs => xs.mapM fun
      | .list [tr, hdr] => do some ((← tr.nat?), (← Args.ofSexp? hdr))
      | _ => none
  | _ => none

def opsMatch : Sexp → Option Sexp
  | .list [.atom "cm-ty", db, a, b] => do
      some (resBoolToSexp (cmTy (← udbOfSexp? db) (← Ty.ofSexp? a) (← Ty.ofSexp? b)))
  | .list [.atom "cm-dg", db, a, b] => do
      some (resBoolToSexp (cmDomainGoal (← udbOfSexp? db) (← DomainGoal.ofSexp? a) (← DomainGoal.ofSexp? b)))
  | .list [.atom "cm-args", db, a, b] => do
      some (resBoolToSexp (cmSlice (← udbOfSexp? db) (← Args.ofSexp? a) (← Args.ofSexp? b)))
  | .list [.atom "impls-for", db, tr, params, impls] => do
      let r := implsForTrait (← udbOfSexp? db) (← tr.nat?) (← Args.ofSexp? params) (← implListOfSexp? impls) 0
      some (resToSexp (fun l => .list (l.map sNat)) r)
  | _ => none

end Chalk
