/-
  Symmetry of the rigid fragment: swapping the two types and inverting the variance yields the
  same outlives obligations up to order (`subConstraints_swap`), hence `relate` on rigid types
  returns permuted goal lists for the two orders (`relate_swap_goals`).
-/
import ChalkModel.Lemmas.UnifyRigid

namespace Chalk

theorem Variance.xform_invert (v w : Variance) : (v.xform w).invert = v.invert.xform w := by
  cases v <;> cases w <;> rfl

theorem Variance.invert_invert (v : Variance) : v.invert.invert = v := by
  cases v <;> rfl

theorem ltConstraints_swap (v : Variance) (a b : Lifetime) :
    (ltConstraints v.invert b a).Perm (ltConstraints v a b) := by
  by_cases h : a = b ∨ a = .error ∨ b = .error
  · have h' : b = a ∨ b = .error ∨ a = .error := by
      rcases h with h | h | h
      · exact .inl h.symm
      · exact .inr (.inr h)
      · exact .inr (.inl h)
    simp [ltConstraints, h, h']
  · have h' : ¬ (b = a ∨ b = .error ∨ a = .error) := by
      intro h'
      apply h
      rcases h' with h' | h' | h'
      · exact .inl h'.symm
      · exact .inr (.inr h')
      · exact .inr (.inl h')
    cases v <;> simp [ltConstraints, h, h', Variance.invert]
    exact List.Perm.swap _ _ _

mutual
  theorem subConstraints_swap (db : UDb) : (v : Variance) → (a b : Ty) → a.eraseLt = b.eraseLt →
      (subConstraints db v.invert b a).Perm (subConstraints db v a b)
    | v, .app n as, b, h => by
        cases b <;> simp [Ty.eraseLt] at h
        rename_i n' bs
        obtain ⟨rfl, h⟩ := h
        simpa [subConstraints] using subConstraintsArgs_swap db v (declaredVariances db n) 0 as bs h
    | v, .scalar s, b, h => by cases b <;> simp [Ty.eraseLt] at h <;> simp [subConstraints]
    | v, .str, b, h => by cases b <;> simp [Ty.eraseLt] at h <;> simp [subConstraints]
    | v, .never, b, h => by cases b <;> simp [Ty.eraseLt] at h <;> simp [subConstraints]
    | v, .foreign id, b, h => by cases b <;> simp [Ty.eraseLt] at h <;> simp [subConstraints]
    | v, .error, b, h => by cases b <;> simp [Ty.eraseLt] at h <;> simp [subConstraints]
    | v, .array ta (.mk tka vka), b, h => by
        cases b <;> simp [Ty.eraseLt] at h
        rename_i tb kb
        obtain ⟨tkb, vkb⟩ := kb
        simp [Const.eraseLt] at h
        simp only [subConstraints]
        exact (subConstraints_swap db v ta tb h.1).append (subConstraints_swap db v tka tkb h.2.1)
    | v, .slice ta, b, h => by
        cases b <;> simp [Ty.eraseLt] at h
        rename_i tb
        simpa [subConstraints] using subConstraints_swap db v ta tb h
    | v, .raw m ta, b, h => by
        cases b <;> simp [Ty.eraseLt] at h
        rename_i m' tb
        obtain ⟨rfl, h⟩ := h
        simpa [subConstraints, Variance.xform_invert] using subConstraints_swap db (v.xform _) ta tb h
    | v, .ref m la ta, b, h => by
        cases b <;> simp [Ty.eraseLt] at h
        rename_i m' lb tb
        obtain ⟨rfl, h⟩ := h
        simp only [subConstraints]
        have h1 := ltConstraints_swap (v.xform .contra) la lb
        have h2 := subConstraints_swap db (v.xform (if m then .inv else .co)) ta tb h
        rw [Variance.xform_invert] at h1 h2
        exact h1.append h2
    | v, .placeholder ui idx, b, h => by cases b <;> simp [Ty.eraseLt] at h <;> simp [subConstraints]
    | v, .dyn kinds bounds l, b, h => by cases b <;> simp [Ty.eraseLt] at h <;> simp [subConstraints]
    | v, .proj id args, b, h => by cases b <;> simp [Ty.eraseLt] at h <;> simp [subConstraints]
    | v, .opaque id args, b, h => by cases b <;> simp [Ty.eraseLt] at h <;> simp [subConstraints]
    | v, .function nb sig as, b, h => by
        cases b <;> simp [Ty.eraseLt] at h
        rename_i nb' sig' bs
        have hc := subConstraintsFn_swap db .contra as bs h.2.2
        have ho := subConstraintsFn_swap db .co as bs h.2.2
        simp only [Variance.invert] at hc ho
        cases v <;> simp only [subConstraints, Variance.invert]
        · exact ho
        · exact (ho.append hc).trans List.perm_append_comm
        · exact hc
    | v, .bound d idx, b, h => by cases b <;> simp [Ty.eraseLt] at h <;> simp [subConstraints]
    | v, .infer x k, b, h => by cases b <;> simp [Ty.eraseLt] at h <;> simp [subConstraints]
  termination_by structural _ a => a
  theorem subConstraintsGArg_swap (db : UDb) : (v : Variance) → (a b : GArg) → a.eraseLt = b.eraseLt →
      (subConstraintsGArg db v.invert b a).Perm (subConstraintsGArg db v a b)
    | v, .ty ta, b, h => by
        cases b <;> simp [GArg.eraseLt] at h
        rename_i tb
        simpa [subConstraintsGArg] using subConstraints_swap db v ta tb h
    | v, .lt la, b, h => by
        cases b <;> simp [GArg.eraseLt] at h
        rename_i lb
        simpa [subConstraintsGArg] using ltConstraints_swap v la lb
    | v, .ct (.mk ta va), b, h => by
        cases b <;> simp [GArg.eraseLt] at h
        rename_i kb
        obtain ⟨tb, vb⟩ := kb
        simp [Const.eraseLt] at h
        simpa [subConstraintsGArg] using subConstraints_swap db v ta tb h.1
  termination_by structural _ a => a
  theorem subConstraintsArgs_swap (db : UDb) : (v : Variance) → (vs : Option (List Variance)) → (i : Nat) →
      (a b : Args) → a.eraseLt = b.eraseLt →
      (subConstraintsArgs db v.invert vs i b a).Perm (subConstraintsArgs db v vs i a b)
    | v, vs, i, .nil, b, h => by cases b <;> simp [subConstraintsArgs]
    | v, vs, i, .cons x xs, b, h => by
        cases b <;> simp [Args.eraseLt] at h
        rename_i y ys
        simp only [subConstraintsArgs]
        have h1 := subConstraintsGArg_swap db (v.xform (positionVariance vs i)) x y h.1
        rw [Variance.xform_invert] at h1
        exact h1.append (subConstraintsArgs_swap db v vs (i + 1) xs ys h.2)
  termination_by structural _ _ _ a => a
  theorem subConstraintsFn_swap (db : UDb) : (v : Variance) → (a b : Args) → a.eraseLt = b.eraseLt →
      (subConstraintsFn db v.invert b a).Perm (subConstraintsFn db v a b)
    | v, .nil, b, h => by cases b <;> simp [subConstraintsFn]
    | v, .cons x .nil, b, h => by
        cases b <;> simp [Args.eraseLt] at h
        rename_i y ys
        cases ys <;> simp [Args.eraseLt] at h
        simpa [subConstraintsFn] using subConstraintsGArg_swap db v x y h
    | v, .cons x (.cons x' xs), b, h => by
        cases b <;> simp [Args.eraseLt] at h
        rename_i y ys
        cases ys <;> simp [Args.eraseLt] at h
        rename_i y' ys'
        simp only [subConstraintsFn]
        have h1 := subConstraintsGArg_swap db (v.xform .contra) x y h.1
        rw [Variance.xform_invert] at h1
        have h2 := subConstraintsFn_swap db v (.cons x' xs) (.cons y' ys') (by simp [Args.eraseLt, h.2])
        exact h1.append h2
  termination_by structural _ a => a
end

theorem relate_rigid (db : UDb) (ar : TyName → Nat) (hdb : db.arityOk ar) (jf fuel : Nat) (t : Table)
    (v : Variance) (a b : Ty)
    (ha : a.rigid = true) (hb : b.rigid = true) (haa : a.arityOk ar = true) (hab : b.arityOk ar = true)
    (hd : a.depth ≤ fuel) (he : a.eraseLt = b.eraseLt) :
    relate db jf fuel t v a b = (t, .ok (outlivesGoals (subConstraints db v a b))) := by
  simp [relate, relateTy_rigid db ar hdb jf fuel v a b _ ha hb haa hab hd, he, filter_retain_outlives]

theorem relate_swap_goals (db : UDb) (ar : TyName → Nat) (hdb : db.arityOk ar) (jf fuel : Nat) (t : Table)
    (v : Variance) (a b : Ty)
    (ha : a.rigid = true) (hb : b.rigid = true) (haa : a.arityOk ar = true) (hab : b.arityOk ar = true)
    (hda : a.depth ≤ fuel) (hdb' : b.depth ≤ fuel) (he : a.eraseLt = b.eraseLt) :
    ∃ g1 g2, relate db jf fuel t v a b = (t, .ok g1) ∧ relate db jf fuel t v.invert b a = (t, .ok g2) ∧
      g2.Perm g1 :=
  ⟨_, _, relate_rigid db ar hdb jf fuel t v a b ha hb haa hab hda he,
    relate_rigid db ar hdb jf fuel t v.invert b a hb ha hab haa hdb' he.symm,
    (subConstraints_swap db v a b he).map _⟩

#print axioms Chalk.subConstraints_swap
#print axioms Chalk.relate_swap_goals

end Chalk
