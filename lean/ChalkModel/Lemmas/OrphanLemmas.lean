/-
  Lemmas for C20: what the orphan clauses derive, predicate by predicate, and the agreement of
  the resolution procedure `provable` with the least fixed point `Derivable`.
-/
import ChalkModel.Orphan

namespace Chalk.Orphan

theorem derivable_iff (fixed : Bool) (P : Program) (g : DG) :
    Derivable fixed P g ↔ ∃ body ∈ clausesFor fixed P g, ∀ b ∈ body, Derivable fixed P b := by
  constructor
  · intro h
    cases h with
    | step hb hall => exact ⟨_, hb, hall⟩
  · rintro ⟨body, hb, hall⟩
    exact .step hb hall

theorem exists_singleton_body {D : DG → Prop} (f : Ty → DG) (l : List Ty) :
    (∃ body : List DG, (∃ a, a ∈ l ∧ [f a] = body) ∧ ∀ b, b ∈ body → D b) ↔ ∃ a, a ∈ l ∧ D (f a) := by
  constructor
  · rintro ⟨body, ⟨a, ha, rfl⟩, h⟩
    exact ⟨a, ha, h _ (by simp)⟩
  · rintro ⟨a, ha, h⟩
    exact ⟨[f a], ⟨a, ha, rfl⟩, by simpa using h⟩

/-! ### `provable` computes `Derivable` -/

theorem provable_unfold (fixed : Bool) (P : Program) (g : DG) :
    provable fixed P g = (clausesFor fixed P g).any fun body => body.all fun b => provable fixed P b := by
  rw [provable]
  simp

theorem provable_iff_aux (fixed : Bool) (P : Program) : (n : Nat) → (g : DG) → g.size < n →
    (provable fixed P g = true ↔ Derivable fixed P g)
  | 0, _, h => by omega
  | n + 1, g, h => by
      rw [provable_unfold, derivable_iff]
      simp only [List.any_eq_true, List.all_eq_true]
      constructor
      · rintro ⟨body, hb, hall⟩
        refine ⟨body, hb, fun b hbb => ?_⟩
        have hlt := clausesFor_lt fixed P g body b hb hbb
        exact (provable_iff_aux fixed P n b (by omega)).1 (hall b hbb)
      · rintro ⟨body, hb, hall⟩
        refine ⟨body, hb, fun b hbb => ?_⟩
        have hlt := clausesFor_lt fixed P g body b hb hbb
        exact (provable_iff_aux fixed P n b (by omega)).2 (hall b hbb)

theorem provable_iff_derivable (fixed : Bool) (P : Program) (g : DG) :
    provable fixed P g = true ↔ Derivable fixed P g :=
  provable_iff_aux fixed P (g.size + 1) g (by omega)

/-! ### `IsFullyVisible` (repaired code): exactly the types that mention no impl parameter -/

theorem Tys.mentionsParam_false_iff : (ts : Tys) →
    (ts.mentionsParam = false ↔ ∀ a ∈ ts.toList, a.mentionsParam = false)
  | .nil => by simp [Tys.mentionsParam, Tys.toList]
  | .cons t ts => by
      simp [Tys.mentionsParam, Tys.toList, Tys.mentionsParam_false_iff ts]

theorem Tys.anyLocal_iff (P : Program) : (ts : Tys) →
    (ts.anyLocal P = true ↔ ∃ a ∈ ts.toList, a.isLocal P = true)
  | .nil => by simp [Tys.anyLocal, Tys.toList]
  | .cons t ts => by
      simp [Tys.anyLocal, Tys.toList, Tys.anyLocal_iff P ts]

mutual
  theorem fullyVisible_ty (P : Program) : (t : Ty) →
      (Derivable true P (.ty .isFullyVisible t) ↔ t.mentionsParam = false)
    | .adt id args => by
        rw [derivable_iff]
        simp [clausesFor, adtClauses, Ty.mentionsParam]
        exact fullyVisible_tys P args
    | .scalar s => by
        rw [derivable_iff]
        simp [clausesFor, scalarClauses, Ty.mentionsParam]
    | .tuple args => by
        rw [derivable_iff]
        simp [clausesFor, tupleClauses, Ty.mentionsParam]
        exact fullyVisible_tys P args
    | .param i => by
        rw [derivable_iff]
        simp [clausesFor, Ty.mentionsParam]
  theorem fullyVisible_tys (P : Program) : (ts : Tys) →
      ((∀ a ∈ ts.toList, Derivable true P (.ty .isFullyVisible a)) ↔ ts.mentionsParam = false)
    | .nil => by simp [Tys.toList, Tys.mentionsParam]
    | .cons t ts => by
        simp [Tys.toList, Tys.mentionsParam, fullyVisible_ty P t, fullyVisible_tys P ts]
end

/-! ### `IsLocal` (both code versions): local, looking through fundamental constructors -/

mutual
  theorem isLocal_ty (fixed : Bool) (P : Program) : (t : Ty) →
      (Derivable fixed P (.ty .isLocal t) ↔ t.isLocal P = true)
    | .adt id args => by
        rw [derivable_iff]
        have ih := isLocal_tys fixed P args
        cases hu : (P.adt id).upstream <;> cases hf : (P.adt id).fundamental <;>
          simp [clausesFor, adtClauses, Ty.isLocal, hu, hf]
        rw [exists_singleton_body]
        exact ih
    | .scalar s => by
        rw [derivable_iff]
        simp [clausesFor, scalarClauses, Ty.isLocal]
    | .tuple args => by
        rw [derivable_iff]
        simp [clausesFor, tupleClauses, Ty.isLocal]
    | .param i => by
        rw [derivable_iff]
        simp [clausesFor, Ty.isLocal]
  theorem isLocal_tys (fixed : Bool) (P : Program) : (ts : Tys) →
      ((∃ a ∈ ts.toList, Derivable fixed P (.ty .isLocal a)) ↔ ts.anyLocal P = true)
    | .nil => by simp [Tys.toList, Tys.anyLocal]
    | .cons t ts => by
        simp [Tys.toList, Tys.anyLocal, isLocal_ty fixed P t, ← isLocal_tys fixed P ts]
end

/-! ### `IsUpstream` (both code versions) -/

mutual
  /-- what the `IsUpstream` clauses derive: an `#[upstream]` struct (all arguments upstream if it
      is also `#[fundamental]`); NOT scalars and tuples — `match_ty` has no `IsUpstream` clause for
      built-in types (finding F5b, open: it matters to the overlap check, not to the orphan check) -/
  def Ty.isUpstream (P : Program) : Ty → Bool
    | .adt id args => (P.adt id).upstream && (!(P.adt id).fundamental || args.allUpstream P)
    | .scalar _ => false
    | .tuple _ => false
    | .param _ => false
  def Tys.allUpstream (P : Program) : Tys → Bool
    | .nil => true
    | .cons t ts => t.isUpstream P && ts.allUpstream P
end

mutual
  theorem isUpstream_ty (fixed : Bool) (P : Program) : (t : Ty) →
      (Derivable fixed P (.ty .isUpstream t) ↔ t.isUpstream P = true)
    | .adt id args => by
        rw [derivable_iff]
        have ih := isUpstream_tys fixed P args
        cases hu : (P.adt id).upstream <;> cases hf : (P.adt id).fundamental <;>
          simp [clausesFor, adtClauses, Ty.isUpstream, hu, hf]
        exact ih
    | .scalar s => by
        rw [derivable_iff]
        simp [clausesFor, scalarClauses, Ty.isUpstream]
    | .tuple args => by
        rw [derivable_iff]
        simp [clausesFor, tupleClauses, Ty.isUpstream]
    | .param i => by
        rw [derivable_iff]
        simp [clausesFor, Ty.isUpstream]
  theorem isUpstream_tys (fixed : Bool) (P : Program) : (ts : Tys) →
      ((∀ a ∈ ts.toList, Derivable fixed P (.ty .isUpstream a)) ↔ ts.allUpstream P = true)
    | .nil => by simp [Tys.toList, Tys.allUpstream]
    | .cons t ts => by
        simp [Tys.toList, Tys.allUpstream, isUpstream_ty fixed P t, isUpstream_tys fixed P ts]
end

/-! ### `DownstreamType`: nothing is derivable in the empty environment -/

mutual
  theorem downstream_ty (fixed : Bool) (P : Program) : (t : Ty) →
      ¬ Derivable fixed P (.ty .downstreamType t)
    | .adt id args => by
        rw [derivable_iff]
        have ih := downstream_tys fixed P args
        cases hf : (P.adt id).fundamental <;> simp [clausesFor, adtClauses, hf]
        exact ih
    | .scalar s => by
        rw [derivable_iff]
        simp [clausesFor, scalarClauses]
    | .tuple args => by
        rw [derivable_iff]
        simp [clausesFor, tupleClauses]
    | .param i => by
        rw [derivable_iff]
        simp [clausesFor]
  theorem downstream_tys (fixed : Bool) (P : Program) : (ts : Tys) →
      ∀ a ∈ ts.toList, ¬ Derivable fixed P (.ty .downstreamType a)
    | .nil => by simp [Tys.toList]
    | .cons t ts => by
        simp only [Tys.toList, List.mem_cons]
        rintro a (rfl | h)
        · exact downstream_ty fixed P a
        · exact downstream_tys fixed P ts a h
end

/-! ### `LocalImplAllowed` -/

/-- the clauses for a remote trait, with the accumulated `IsFullyVisible` conditions `pre`;
    `FV`/`L` abstract what `IsFullyVisible`/`IsLocal` derive -/
theorem liaBodies_iff {fixed : Bool} {P : Program} {fv : Ty → Bool}
    (hfv : ∀ t, Derivable fixed P (.ty .isFullyVisible t) ↔ fv t = true) :
    (ts : List Ty) → (pre : List DG) →
    ((∃ body ∈ liaBodies pre ts, ∀ b ∈ body, Derivable fixed P b) ↔
      (∀ b ∈ pre, Derivable fixed P b) ∧
        (ts.foldr (fun t acc => t.isLocal P || (fv t && acc)) false) = true)
  | [], pre => by simp [liaBodies]
  | t :: ts, pre => by
      simp only [liaBodies, List.mem_cons, exists_eq_or_imp, List.foldr_cons]
      rw [liaBodies_iff hfv ts (pre ++ [DG.ty .isFullyVisible t])]
      simp only [List.mem_append, List.mem_singleton, Bool.or_eq_true, Bool.and_eq_true]
      constructor
      · rintro (h | ⟨h1, h2⟩)
        · exact ⟨fun b hb => h b (Or.inl hb), Or.inl ((isLocal_ty fixed P t).1 (h _ (Or.inr rfl)))⟩
        · exact ⟨fun b hb => h1 b (Or.inl hb), Or.inr ⟨(hfv t).1 (h1 _ (Or.inr rfl)), h2⟩⟩
      · rintro ⟨hpre, (h | ⟨h1, h2⟩)⟩
        · left
          rintro b (hb | rfl)
          · exact hpre b hb
          · exact (isLocal_ty fixed P t).2 h
        · right
          refine ⟨?_, h2⟩
          rintro b (hb | rfl)
          · exact hpre b hb
          · exact (hfv t).2 h1

theorem firstLocalOk_eq_foldr (P : Program) : (ts : List Ty) →
    firstLocalOk P ts = ts.foldr (fun t acc => t.isLocal P || (!t.mentionsParam && acc)) false
  | [] => rfl
  | t :: ts => by simp [firstLocalOk, firstLocalOk_eq_foldr P ts]

theorem localImplAllowed_iff (P : Program) (tr : Nat) (args : Tys) :
    Derivable true P (.localImplAllowed tr args) ↔
      (P.traitUpstream tr = false ∨ firstLocalOk P args.toList = true) := by
  rw [derivable_iff]
  cases hu : P.traitUpstream tr
  · simp [clausesFor, hu]
  · simp only [clausesFor, hu, if_true]
    rw [liaBodies_iff (fv := fun t => !t.mentionsParam) (by intro t; simp [fullyVisible_ty P t])]
    simp [firstLocalOk_eq_foldr]

/-! ### the scanning form of the spec is the sentence -/

theorem firstLocalOk_iff (P : Program) : (ts : List Ty) →
    (firstLocalOk P ts = true ↔
      ∃ (i : Nat) (t : Ty), ts[i]? = some t ∧ t.isLocal P = true ∧
        ∀ (j : Nat) (u : Ty), j < i → ts[j]? = some u → u.mentionsParam = false)
  | [] => by simp [firstLocalOk]
  | t :: ts => by
      simp only [firstLocalOk, Bool.or_eq_true, Bool.and_eq_true, Bool.not_eq_true']
      rw [firstLocalOk_iff P ts]
      constructor
      · rintro (h | ⟨hm, i, u, hi, hl, hall⟩)
        · exact ⟨0, t, by simp, h, by intro j u hj; omega⟩
        · refine ⟨i + 1, u, by simpa using hi, hl, ?_⟩
          intro j v hj hv
          cases j with
          | zero => simp at hv; subst hv; exact hm
          | succ j => exact hall j v (by omega) (by simpa using hv)
      · rintro ⟨i, u, hi, hl, hall⟩
        cases i with
        | zero => simp at hi; subst hi; exact Or.inl hl
        | succ i =>
            right
            refine ⟨hall 0 t (by omega) (by simp), i, u, by simpa using hi, hl, ?_⟩
            intro j v hj hv
            exact hall (j + 1) v (by omega) (by simpa using hv)

theorem orphanOkB_iff (P : Program) (im : Impl) : orphanOkB P im = true ↔ OrphanOk P im := by
  simp only [orphanOkB, OrphanOk, Bool.or_eq_true, Bool.not_eq_true', firstLocalOk_iff]

end Chalk.Orphan

namespace Chalk.Orphan

/-! ### the code before the repair of F5, on types without built-in constructors -/

mutual
  /-- built from struct applications and impl parameters only -/
  def Ty.structOnly : Ty → Bool
    | .adt _ args => args.structOnly
    | .scalar _ => false
    | .tuple _ => false
    | .param _ => true
  def Tys.structOnly : Tys → Bool
    | .nil => true
    | .cons t ts => t.structOnly && ts.structOnly
end

mutual
  theorem legacy_fullyVisible_ty (P : Program) : (t : Ty) → t.structOnly = true →
      (Derivable false P (.ty .isFullyVisible t) ↔ t.mentionsParam = false)
    | .adt id args, h => by
        rw [derivable_iff]
        simp [clausesFor, adtClauses, Ty.mentionsParam]
        exact legacy_fullyVisible_tys P args (by simpa [Ty.structOnly] using h)
    | .scalar s, h => by simp [Ty.structOnly] at h
    | .tuple args, h => by simp [Ty.structOnly] at h
    | .param i, _ => by
        rw [derivable_iff]
        simp [clausesFor, Ty.mentionsParam]
  theorem legacy_fullyVisible_tys (P : Program) : (ts : Tys) → ts.structOnly = true →
      ((∀ a ∈ ts.toList, Derivable false P (.ty .isFullyVisible a)) ↔ ts.mentionsParam = false)
    | .nil, _ => by simp [Tys.toList, Tys.mentionsParam]
    | .cons t ts, h => by
        simp only [Tys.structOnly, Bool.and_eq_true] at h
        simp [Tys.toList, Tys.mentionsParam, legacy_fullyVisible_ty P t h.1,
          legacy_fullyVisible_tys P ts h.2]
end

theorem Tys.structOnly_mem : (ts : Tys) → ts.structOnly = true → ∀ a ∈ ts.toList, a.structOnly = true
  | .nil, _ => by simp [Tys.toList]
  | .cons t ts, h => by
      simp only [Tys.structOnly, Bool.and_eq_true] at h
      simp only [Tys.toList, List.mem_cons]
      rintro a (rfl | ha)
      · exact h.1
      · exact Tys.structOnly_mem ts h.2 a ha

/-- `liaBodies_iff` with the characterisation of `IsFullyVisible` only required on the listed types -/
theorem liaBodies_iff_on {fixed : Bool} {P : Program} {fv : Ty → Bool} :
    (ts : List Ty) → (pre : List DG) →
    (∀ t ∈ ts, (Derivable fixed P (.ty .isFullyVisible t) ↔ fv t = true)) →
    ((∃ body ∈ liaBodies pre ts, ∀ b ∈ body, Derivable fixed P b) ↔
      (∀ b ∈ pre, Derivable fixed P b) ∧
        (ts.foldr (fun t acc => t.isLocal P || (fv t && acc)) false) = true)
  | [], pre, _ => by simp [liaBodies]
  | t :: ts, pre, hfv => by
      simp only [liaBodies, List.mem_cons, exists_eq_or_imp, List.foldr_cons]
      rw [liaBodies_iff_on ts (pre ++ [DG.ty .isFullyVisible t]) (fun u hu => hfv u (by simp [hu]))]
      have hfvt := hfv t (by simp)
      simp only [List.mem_append, List.mem_singleton, Bool.or_eq_true, Bool.and_eq_true]
      constructor
      · rintro (h | ⟨h1, h2⟩)
        · exact ⟨fun b hb => h b (Or.inl hb), Or.inl ((isLocal_ty fixed P t).1 (h _ (Or.inr rfl)))⟩
        · exact ⟨fun b hb => h1 b (Or.inl hb), Or.inr ⟨hfvt.1 (h1 _ (Or.inr rfl)), h2⟩⟩
      · rintro ⟨hpre, (h | ⟨h1, h2⟩)⟩
        · left
          rintro b (hb | rfl)
          · exact hpre b hb
          · exact (isLocal_ty fixed P t).2 h
        · right
          refine ⟨?_, h2⟩
          rintro b (hb | rfl)
          · exact hpre b hb
          · exact hfvt.2 h1

theorem legacy_localImplAllowed_iff (P : Program) (tr : Nat) (args : Tys) (h : args.structOnly = true) :
    Derivable false P (.localImplAllowed tr args) ↔
      (P.traitUpstream tr = false ∨ firstLocalOk P args.toList = true) := by
  rw [derivable_iff]
  cases hu : P.traitUpstream tr
  · simp [clausesFor, hu]
  · simp only [clausesFor, hu, if_true]
    rw [liaBodies_iff_on (fv := fun t => !t.mentionsParam) args.toList []
      (by intro t ht; simp [legacy_fullyVisible_ty P t (Tys.structOnly_mem args h t ht)])]
    simp [firstLocalOk_eq_foldr]

end Chalk.Orphan
