/-
  FixedPointSemB.lean — the evaluation layer (`fulfillRound`, `fulfillSolve`, `solveFromClauses`,
  `solveIteration`) against the specification of a sub-goal solver (partial correctness).
-/
import ChalkModel.Lemmas.FixedPointSemA
import ChalkModel.Lemmas.FixedPointLemmas

namespace Chalk.FixedPoint.Cyc

/-- the class of instances: `dom` is closed under `deps`, every goal of `dom` is ground and has
    polarity `c` -/
structure Hyp (c : Bool) (inst : Instance) (dom : List Nat) : Prop where
  closed : ∀ k, k ∈ dom → ∀ alt, alt ∈ inst.deps k → ∀ j, j ∈ alt → j ∈ dom
  ground : ∀ k, k ∈ dom → inst.ground k = true
  coind : ∀ k, k ∈ dom → inst.coind k = c

/-- partial-correctness specification of a sub-goal solver -/
def SubSpec (c : Bool) (inst : Instance) (dom : List Nat) (fx : Bool) (rec : SubSolver) : Prop :=
  ∀ g m s v m' s', Inv c inst dom fx s → g ∈ dom → rec g m s = .ok (v, m') s' →
    Inv c inst dom fx s' ∧ Step c inst s s' m' ∧ MinLe m' m ∧ Fact c inst s s' m' g v

section
variable {c : Bool} {inst : Instance} {dom : List Nat} {fx : Bool} {rec : SubSolver} {cfg : Cfg}

/-- a sub-list of `cs` appended to `acc` -/
theorem fulfillRound_sem (hrec : SubSpec c inst dom fx rec) :
    ∀ (cs acc : List Nat) (m : Min) (s : St) (o : Option (List Nat)) (m' : Min) (s' : St),
      Inv c inst dom fx s → (∀ x, x ∈ cs → x ∈ dom) → fulfillRound rec cs acc m s = .ok (o, m') s' →
      Inv c inst dom fx s' ∧ Step c inst s s' m' ∧ MinLe m' m ∧
        ((∃ ret, o = some (acc ++ ret) ∧ (∀ x, x ∈ ret → x ∈ cs) ∧ (ret ≠ [] → s'.interrupted = true) ∧
            ∀ x, x ∈ cs → Fact c inst s s' m' x .unique ∨ x ∈ ret) ∨
         (o = none ∧ ∃ x, x ∈ cs ∧ Fact c inst s s' m' x .noSolution))
  | [], acc, m, s, o, m', s', hi, _, h => by
    simp only [fulfillRound, Res.ok.injEq, Prod.mk.injEq] at h
    obtain ⟨⟨ho, hm⟩, hs⟩ := h
    subst ho; subst hm; subst hs
    refine ⟨hi, Step.refl _ _, MinLe.refl _, Or.inl ⟨[], by simp, ?_, ?_, ?_⟩⟩
    · intro x hx; cases hx
    · intro hne; exact absurd rfl hne
    · intro x hx; cases hx
  | x :: rest, acc, m, s, o, m', s', hi, hd, h => by
    simp only [fulfillRound] at h
    cases hr : rec x m s with
    | panic site s1 => rw [hr] at h; cases h
    | ok r s1 =>
      obtain ⟨v, m1⟩ := r
      rw [hr] at h
      obtain ⟨hi1, hs1, hle1, hf1⟩ := hrec x m s v m1 s1 hi (hd x (List.mem_cons_self ..)) hr
      cases v with
      | noSolution =>
        simp only [Res.ok.injEq, Prod.mk.injEq] at h
        obtain ⟨⟨ho, hm⟩, hs⟩ := h
        subst ho; subst hm; subst hs
        exact ⟨hi1, hs1, hle1, Or.inr ⟨rfl, x, List.mem_cons_self .., hf1⟩⟩
      | unique =>
        simp only at h
        obtain ⟨hi2, hs2, hle2, hres⟩ := fulfillRound_sem hrec rest acc m1 s1 o m' s' hi1
          (fun y hy => hd y (List.mem_cons_of_mem _ hy)) h
        refine ⟨hi2, hs1.trans hs2 hle2 hi1 hi2, hle2.trans hle1, ?_⟩
        cases hres with
        | inl hres =>
          obtain ⟨ret, ho, hsub, hint, hall⟩ := hres
          refine Or.inl ⟨ret, ho, fun y hy => List.mem_cons_of_mem _ (hsub y hy), hint, fun y hy => ?_⟩
          cases List.mem_cons.mp hy with
          | inl e => rw [e]; exact Or.inl (hf1.step (Step.refl s m) hi hs2 hle2)
          | inr e =>
            cases hall y e with
            | inl h1 => exact Or.inl (h1.step hs1 hi1 (Step.refl s' m') (MinLe.refl _))
            | inr h1 => exact Or.inr h1
        | inr hres =>
          obtain ⟨y, hy, hfy⟩ := hres.2
          exact Or.inr ⟨hres.1, y, List.mem_cons_of_mem _ hy,
            hfy.step hs1 hi1 (Step.refl s' m') (MinLe.refl _)⟩
      | ambig =>
        simp only at h
        obtain ⟨hi2, hs2, hle2, hres⟩ := fulfillRound_sem hrec rest (acc ++ [x]) m1 s1 o m' s' hi1
          (fun y hy => hd y (List.mem_cons_of_mem _ hy)) h
        refine ⟨hi2, hs1.trans hs2 hle2 hi1 hi2, hle2.trans hle1, ?_⟩
        cases hres with
        | inl hres =>
          obtain ⟨ret, ho, hsub, _, hall⟩ := hres
          refine Or.inl ⟨x :: ret, by rw [ho, List.append_assoc]; rfl, fun y hy => ?_,
            fun _ => hs2.intr hf1.ambig, fun y hy => ?_⟩
          · cases List.mem_cons.mp hy with
            | inl e => rw [e]; exact List.mem_cons_self ..
            | inr e => exact List.mem_cons_of_mem _ (hsub y e)
          · cases List.mem_cons.mp hy with
            | inl e => rw [e]; exact Or.inr (List.mem_cons_self ..)
            | inr e =>
              cases hall y e with
              | inl h1 => exact Or.inl (h1.step hs1 hi1 (Step.refl s' m') (MinLe.refl _))
              | inr h1 => exact Or.inr (List.mem_cons_of_mem _ h1)
        | inr hres =>
          obtain ⟨y, hy, hfy⟩ := hres.2
          exact Or.inr ⟨hres.1, y, List.mem_cons_of_mem _ hy,
            hfy.step hs1 hi1 (Step.refl s' m') (MinLe.refl _)⟩

/-- the last pass of `Fulfill::solve` over the retained (ambiguous) obligations -/
theorem suggestPass_sem (hrec : SubSpec c inst dom fx rec) :
    ∀ (ds : List Nat) (m : Min) (s : St) (v : V) (m' : Min) (s' : St),
      Inv c inst dom fx s → (∀ x, x ∈ ds → x ∈ dom) → s.interrupted = true →
      suggestPass cfg rec ds m s = .ok (v, m') s' →
      Inv c inst dom fx s' ∧ Step c inst s s' m' ∧ MinLe m' m ∧
        ((v = .ambig ∧ s'.interrupted = true) ∨
         (v = .noSolution ∧ ∃ x, x ∈ ds ∧ Fact c inst s s' m' x .noSolution))
  | [], m, s, v, m', s', hi, _, hint, h => by
    simp only [suggestPass, Res.ok.injEq, Prod.mk.injEq] at h
    obtain ⟨⟨hv, hm⟩, hs⟩ := h
    subst hv; subst hm; subst hs
    exact ⟨hi, Step.refl _ _, MinLe.refl _, Or.inl ⟨rfl, hint⟩⟩
  | x :: rest, m, s, v, m', s', hi, hd, hint, h => by
    simp only [suggestPass] at h
    cases hr : rec x m s with
    | panic site s1 => rw [hr] at h; cases h
    | ok r s1 =>
      obtain ⟨w, m1⟩ := r
      rw [hr] at h
      obtain ⟨hi1, hs1, hle1, hf1⟩ := hrec x m s w m1 s1 hi (hd x (List.mem_cons_self ..)) hr
      cases w with
      | noSolution =>
        simp only at h
        by_cases h16 : cfg.fixF16 = true
        · simp only [h16, if_true, Res.ok.injEq, Prod.mk.injEq] at h
          obtain ⟨⟨hv, hm⟩, hs⟩ := h
          subst hv; subst hm; subst hs
          exact ⟨hi1, hs1, hle1, Or.inr ⟨rfl, x, List.mem_cons_self .., hf1⟩⟩
        · simp only [h16] at h
          cases h
      | unique =>
        simp only [Res.ok.injEq, Prod.mk.injEq] at h
        obtain ⟨⟨hv, hm⟩, hs⟩ := h
        subst hv; subst hm; subst hs
        exact ⟨hi1, hs1, hle1, Or.inl ⟨rfl, hs1.intr hint⟩⟩
      | ambig =>
        simp only at h
        obtain ⟨hi2, hs2, hle2, hres⟩ := suggestPass_sem hrec rest m1 s1 v m' s' hi1
          (fun y hy => hd y (List.mem_cons_of_mem _ hy)) (hs1.intr hint) h
        refine ⟨hi2, hs1.trans hs2 hle2 hi1 hi2, hle2.trans hle1, ?_⟩
        cases hres with
        | inl hres => exact Or.inl hres
        | inr hres =>
          obtain ⟨hv, y, hy, hfy⟩ := hres
          exact Or.inr ⟨hv, y, List.mem_cons_of_mem _ hy, hfy.step hs1 hi1 (Step.refl s' m') (MinLe.refl _)⟩

theorem fulfillSolve_sem (hrec : SubSpec c inst dom fx rec) (alt : List Nat) (m : Min) (s : St) (v : V)
    (m' : Min) (s' : St) (hi : Inv c inst dom fx s) (hd : ∀ x, x ∈ alt → x ∈ dom)
    (h : fulfillSolve cfg rec alt m s = .ok (v, m') s') :
    Inv c inst dom fx s' ∧ Step c inst s s' m' ∧ MinLe m' m ∧
      ((v = .unique ∧ ∀ x, x ∈ alt → Fact c inst s s' m' x .unique) ∨
       (v = .noSolution ∧ ∃ x, x ∈ alt ∧ Fact c inst s s' m' x .noSolution) ∨
       (v = .ambig ∧ s'.interrupted = true)) := by
  unfold fulfillSolve at h
  cases hr : fulfillRound rec alt.reverse [] m s with
  | panic site s1 => rw [hr] at h; cases h
  | ok r s1 =>
    obtain ⟨o, m1⟩ := r
    rw [hr] at h
    obtain ⟨hi1, hs1, hle1, hres⟩ := fulfillRound_sem hrec alt.reverse [] m s o m1 s1 hi
      (fun x hx => hd x (List.mem_reverse.mp hx)) hr
    cases hres with
    | inr hres =>
      obtain ⟨ho, x, hx, hfx⟩ := hres
      subst ho
      simp only [Res.ok.injEq, Prod.mk.injEq] at h
      obtain ⟨⟨hv, hm⟩, hs⟩ := h
      subst hv; subst hm; subst hs
      exact ⟨hi1, hs1, hle1, Or.inr (Or.inl ⟨rfl, x, List.mem_reverse.mp hx, hfx⟩)⟩
    | inl hres =>
      obtain ⟨ret, ho, hsub, hint, hall⟩ := hres
      rw [List.nil_append] at ho
      subst ho
      cases ret with
      | nil =>
        simp only [Res.ok.injEq, Prod.mk.injEq] at h
        obtain ⟨⟨hv, hm⟩, hs⟩ := h
        subst hv; subst hm; subst hs
        refine ⟨hi1, hs1, hle1, Or.inl ⟨rfl, fun x hx => ?_⟩⟩
        cases hall x (List.mem_reverse.mpr hx) with
        | inl h1 => exact h1
        | inr h1 => cases h1
      | cons r0 rs =>
        simp only at h
        have hsub' : ∀ x, x ∈ (r0 :: rs).reverse → x ∈ alt :=
          fun x hx => List.mem_reverse.mp (hsub x (List.mem_reverse.mp hx))
        obtain ⟨hi2, hs2, hle2, hres2⟩ := suggestPass_sem (cfg := cfg) hrec (r0 :: rs).reverse m1 s1 v m' s' hi1
          (fun x hx => hd x (hsub' x hx)) (hint (by simp)) h
        refine ⟨hi2, hs1.trans hs2 hle2 hi1 hi2, hle2.trans hle1, ?_⟩
        cases hres2 with
        | inl h1 => exact Or.inr (Or.inr h1)
        | inr h1 =>
          obtain ⟨hv, y, hy, hfy⟩ := h1
          exact Or.inr (Or.inl ⟨hv, y, hsub' y hy, hfy.step hs1 hi1 (Step.refl s' m') (MinLe.refl _)⟩)

/-- the running solution of the clause loop on ground goals: nothing yet, or ambiguous -/
def CurOK (s : St) (cur : Option V) : Prop := cur = none ∨ (cur = some .ambig ∧ s.interrupted = true)

theorem solveFromClauses_sem (hrec : SubSpec c inst dom fx rec) :
    ∀ (alts : List (List Nat)) (cur : Option V) (m : Min) (s : St) (v : V) (m' : Min) (s' : St),
      Inv c inst dom fx s → CurOK s cur → (∀ alt, alt ∈ alts → ∀ x, x ∈ alt → x ∈ dom) →
      solveFromClauses cfg rec true alts cur m s = .ok (v, m') s' →
      Inv c inst dom fx s' ∧ Step c inst s s' m' ∧ MinLe m' m ∧
        ((v = .unique ∧ ∃ alt, alt ∈ alts ∧ ∀ x, x ∈ alt → Fact c inst s s' m' x .unique) ∨
         (v = .noSolution ∧ cur = none ∧
            ∀ alt, alt ∈ alts → ∃ x, x ∈ alt ∧ Fact c inst s s' m' x .noSolution) ∨
         (v = .ambig ∧ s'.interrupted = true))
  | [], cur, m, s, v, m', s', hi, hcur, _, h => by
    simp only [solveFromClauses, Res.ok.injEq, Prod.mk.injEq] at h
    obtain ⟨⟨hv, hm⟩, hs⟩ := h
    subst hv; subst hm; subst hs
    refine ⟨hi, Step.refl _ _, MinLe.refl _, ?_⟩
    cases hcur with
    | inl e => subst e; exact Or.inr (Or.inl ⟨rfl, rfl, fun alt ha => by cases ha⟩)
    | inr e => rw [e.1]; exact Or.inr (Or.inr ⟨rfl, e.2⟩)
  | alt :: rest, cur, m, s, v, m', s', hi, hcur, hd, h => by
    rw [solveFromClauses_cons] at h
    cases hr : fulfillSolve cfg rec alt m s with
    | panic site s1 => rw [hr] at h; cases h
    | ok r s1 =>
      obtain ⟨w, m1⟩ := r
      rw [hr] at h
      obtain ⟨hi1, hs1, hle1, hres⟩ := fulfillSolve_sem hrec alt m s w m1 s1 hi
        (hd alt (List.mem_cons_self ..)) hr
      have hcur1 : CurOK s1 cur := hcur.imp id (fun e => ⟨e.1, hs1.intr e.2⟩)
      have hrest := fun (cur' : Option V) (hc' : CurOK s1 cur')
          (h' : solveFromClauses cfg rec true rest cur' m1 s1 = .ok (v, m') s') =>
        solveFromClauses_sem hrec rest cur' m1 s1 v m' s' hi1 hc'
          (fun a ha => hd a (List.mem_cons_of_mem _ ha)) h'
      rcases hres with hres | hres | hres
      · -- the alternative succeeded: the trivially true solution ends the loop
        obtain ⟨hw, hall⟩ := hres
        subst hw
        have hstep : stepCur true .unique cur = some .unique := by
          cases hcur with
          | inl e => subst e; rfl
          | inr e => rw [e.1]; rfl
        simp only [hstep] at h
        simp only [trivialTrue, Bool.true_and, beq_self_eq_true, if_true, Res.ok.injEq, Prod.mk.injEq] at h
        obtain ⟨⟨hv, hm⟩, hs⟩ := h
        subst hv; subst hm; subst hs
        exact ⟨hi1, hs1, hle1, Or.inl ⟨rfl, alt, List.mem_cons_self .., hall⟩⟩
      · -- the alternative failed
        obtain ⟨hw, x, hx, hfx⟩ := hres
        subst hw
        have hstep : stepCur true .noSolution cur = cur := rfl
        simp only [hstep] at h
        have h' : solveFromClauses cfg rec true rest cur m1 s1 = .ok (v, m') s' := by
          cases hcur with
          | inl e => subst e; exact h
          | inr e =>
            rw [e.1] at h ⊢
            simpa [trivialTrue] using h
        obtain ⟨hi2, hs2, hle2, hres2⟩ := hrest cur hcur1 h'
        refine ⟨hi2, hs1.trans hs2 hle2 hi1 hi2, hle2.trans hle1, ?_⟩
        rcases hres2 with h2 | h2 | h2
        · obtain ⟨hv, a, ha, hall⟩ := h2
          exact Or.inl ⟨hv, a, List.mem_cons_of_mem _ ha, fun y hy =>
            (hall y hy).step hs1 hi1 (Step.refl s' m') (MinLe.refl _)⟩
        · obtain ⟨hv, hc0, hall⟩ := h2
          refine Or.inr (Or.inl ⟨hv, hc0, fun a ha => ?_⟩)
          cases List.mem_cons.mp ha with
          | inl e => rw [e]; exact ⟨x, hx, hfx.step (Step.refl s m) hi hs2 hle2⟩
          | inr e =>
            obtain ⟨y, hy, hfy⟩ := hall a e
            exact ⟨y, hy, hfy.step hs1 hi1 (Step.refl s' m') (MinLe.refl _)⟩
        · exact Or.inr (Or.inr h2)
      · -- the alternative is ambiguous (solving was interrupted)
        obtain ⟨hw, hint1⟩ := hres
        subst hw
        have hstep : stepCur true .ambig cur = some .ambig := by
          cases hcur with
          | inl e => subst e; rfl
          | inr e => rw [e.1]; rfl
        simp only [hstep] at h
        have h' : solveFromClauses cfg rec true rest (some .ambig) m1 s1 = .ok (v, m') s' := by
          simpa [trivialTrue] using h
        obtain ⟨hi2, hs2, hle2, hres2⟩ := hrest (some .ambig) (Or.inr ⟨rfl, hint1⟩) h'
        refine ⟨hi2, hs1.trans hs2 hle2 hi1 hi2, hle2.trans hle1, ?_⟩
        rcases hres2 with h2 | h2 | h2
        · obtain ⟨hv, a, ha, hall⟩ := h2
          exact Or.inl ⟨hv, a, List.mem_cons_of_mem _ ha, fun y hy =>
            (hall y hy).step hs1 hi1 (Step.refl s' m') (MinLe.refl _)⟩
        · exact absurd h2.2.1 (by simp)
        · exact Or.inr (Or.inr h2)

/-- the outcome of one iteration in terms of the polarity -/
def IterFact (c : Bool) (inst : Instance) (s s' : St) (m' : Min) (g : Nat) (v : V) : Prop :=
  (v = top c ∧ J c inst (Wit c inst s' m') g) ∨
  (v = bot c ∧ J (!c) inst (fun x => ¬ Tgt c inst x ∧ ¬ InG c inst s x) g) ∨
  (v = .ambig ∧ s'.interrupted = true)

/-- a definite answer reported for a sub-goal, read in terms of the polarity -/
theorem Fact.top_wit {s s' : St} {m' : Min} {x : Nat} (h : Fact c inst s s' m' x (top c)) :
    Wit c inst s' m' x := by
  rcases h with h | h | h
  · exact h.2
  · exact absurd h.1 (top_ne_bot c)
  · exact absurd h.1 (top_ne_ambig c)

theorem Fact.bot_not {s s' : St} {m' : Min} {x : Nat} (h : Fact c inst s s' m' x (bot c)) :
    ¬ Tgt c inst x ∧ ¬ InG c inst s x := by
  rcases h with h | h | h
  · exact absurd h.1.symm (top_ne_bot c)
  · exact h.2
  · exact absurd h.1 (bot_ne_ambig c)

theorem iterFact_of {s s' : St} {m' : Min} {g : Nat} {v : V}
    (h : (v = .unique ∧ ∃ alt, alt ∈ inst.deps g ∧ ∀ x, x ∈ alt → Fact c inst s s' m' x .unique) ∨
         (v = .noSolution ∧ ∀ alt, alt ∈ inst.deps g → ∃ x, x ∈ alt ∧ Fact c inst s s' m' x .noSolution) ∨
         (v = .ambig ∧ s'.interrupted = true)) :
    IterFact c inst s s' m' g v := by
  cases c with
  | true =>
    rcases h with h | h | h
    · obtain ⟨hv, alt, ha, hall⟩ := h
      exact Or.inl ⟨hv, alt, ha, fun x hx => (hall x hx).top_wit⟩
    · refine Or.inr (Or.inl ⟨h.1, fun alt ha => ?_⟩)
      obtain ⟨x, hx, hf⟩ := h.2 alt ha
      exact ⟨x, hx, hf.bot_not⟩
    · exact Or.inr (Or.inr h)
  | false =>
    rcases h with h | h | h
    · obtain ⟨hv, alt, ha, hall⟩ := h
      exact Or.inr (Or.inl ⟨hv, alt, ha, fun x hx => (hall x hx).bot_not⟩)
    · refine Or.inl ⟨h.1, fun alt ha => ?_⟩
      obtain ⟨x, hx, hf⟩ := h.2 alt ha
      exact ⟨x, hx, hf.top_wit⟩
    · exact Or.inr (Or.inr h)

theorem shouldContinue_quiet {s : St} (h : s.oracle = [] ∧ s.oracleDefault = true ∧ s.interrupted = false) :
    shouldContinue s = (true, s) := by
  unfold shouldContinue
  rw [h.1, h.2.1]

/-- changing the oracle and raising the `interrupted` flag keeps the invariant -/
theorem Inv.oracleChange {s : St} (hi : Inv c inst dom fx s) (o : List Bool) (i : Bool)
    (hint : s.interrupted = true → i = true)
    (hq : QuietSt s → s.interrupted = false → o = [] ∧ i = false) :
    Inv c inst dom fx { s with oracle := o, interrupted := i } :=
  ⟨hi.fixes.imp id (fun h => ⟨⟨(hq h.1 h.2).1, h.1.2⟩, (hq h.1 h.2).2⟩),
   fun k n hn ha => hint (hi.amb k n hn ha), hi.cacheOK, hi.stackCo, hi.nodup, hi.disj, hi.inDom, hi.val,
   hi.approx, hi.stk, hi.nonstk, hi.cnt, hi.just⟩

theorem Step.oracleChange (s : St) (o : List Bool) (i : Bool) (lb : Min)
    (hint : s.interrupted = true → i = true)
    (hq : QuietSt s → o = [] ∧ (s.interrupted = false → i = false)) :
    Step c inst s { s with oracle := o, interrupted := i } lb :=
  ⟨⟨[], by simp, fun n hn => by cases hn⟩, StackExt.refl _, fun _ _ h => h, fun _ _ h => h,
   fun k hu hd => absurd hd (hu _), rfl, hint, fun q => ⟨⟨(hq q).1, q.2⟩, (hq q).2⟩⟩

/-- one call of the `should_continue` callback -/
theorem shouldContinue_cases (s : St) : ∃ b o, shouldContinue s = (b, { s with oracle := o }) ∧
    (QuietSt s → b = true ∧ o = []) := by
  obtain ⟨st, gr, ca, orc, od, w, intr⟩ := s
  cases orc with
  | nil => exact ⟨od, [], rfl, fun q => ⟨q.2, rfl⟩⟩
  | cons b rest => exact ⟨b, rest, rfl, fun q => by cases q.1⟩

theorem solveIteration_sem (hyp : Hyp c inst dom) (h3 : cfg.fixF3 = true) (hrec : SubSpec c inst dom fx rec)
    (g : Nat) (hg : g ∈ dom) (m : Min) (s : St) (v : V) (m' : Min) (s' : St) (hi : Inv c inst dom fx s)
    (h : solveIteration inst cfg rec g m s = .ok (v, m') s') :
    Inv c inst dom fx s' ∧ Step c inst s s' m' ∧ MinLe m' m ∧ IterFact c inst s s' m' g v := by
  unfold solveIteration at h
  -- the state after the call of `should_continue`
  have hsc := shouldContinue_cases s
  obtain ⟨b, o, hb, hq⟩ := hsc
  rw [hb] at h
  have i1 : Inv c inst dom fx { s with oracle := o } :=
    hi.oracleChange o s.interrupted id (fun q e => ⟨(hq q).2, e⟩)
  have st1 : Step c inst s { s with oracle := o } m :=
    Step.oracleChange s o s.interrupted m id (fun q => ⟨(hq q).2, id⟩)
  cases b with
  | false =>
    simp only [h3, if_true, Res.ok.injEq, Prod.mk.injEq] at h
    obtain ⟨⟨hv, hm⟩, hs⟩ := h
    subst hv; subst hm; subst hs
    refine ⟨hi.oracleChange o true (fun _ => rfl) (fun q _ => by cases (hq q).1), ?_, MinLe.refl _,
      Or.inr (Or.inr ⟨rfl, rfl⟩)⟩
    exact Step.oracleChange s o true _ (fun _ => rfl) (fun q => by cases (hq q).1)
  | true =>
    simp only [hyp.ground g hg] at h
    obtain ⟨hi1, hs1, hle1, hres⟩ := solveFromClauses_sem hrec (inst.deps g) none m _ v m' s' i1 (Or.inl rfl)
      (fun alt ha x hx => hyp.closed g hg alt ha x hx) h
    refine ⟨hi1, st1.trans hs1 hle1 i1 hi1, hle1, iterFact_of ?_⟩
    rcases hres with h1 | h1 | h1
    · obtain ⟨hv, alt, ha, hall⟩ := h1
      exact Or.inl ⟨hv, alt, ha, fun x hx => (hall x hx).step st1 i1 (Step.refl s' m') (MinLe.refl _)⟩
    · refine Or.inr (Or.inl ⟨h1.1, fun alt ha => ?_⟩)
      obtain ⟨x, hx, hf⟩ := h1.2.2 alt ha
      exact ⟨x, hx, hf.step st1 i1 (Step.refl s' m') (MinLe.refl _)⟩
    · exact Or.inr (Or.inr h1)

end

end Chalk.FixedPoint.Cyc
