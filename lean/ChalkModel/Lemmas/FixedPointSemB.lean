/-
  FixedPointSemB.lean — the evaluation layer (`fulfillRound`, `fulfillSolve`, `solveFromClauses`,
  `solveIteration`) against the specification of a sub-goal solver (partial correctness).
-/
import ChalkModel.Lemmas.FixedPointSemA
import ChalkModel.Lemmas.FixedPointLemmas

namespace Chalk.FixedPoint.Cyc

/-- the class of instances: `dom` is closed under `deps`, every goal of `dom` is ground and has
    polarity `c` -/
structure Hyp (c : Bool) (inst : Instance) (dom : List Nat) : Prop where
  closed : ∀ k, k ∈ dom → ∀ alt, alt ∈ inst.deps k → ∀ j, j ∈ alt → j ∈ dom
  ground : ∀ k, k ∈ dom → inst.ground k = true
  coind : ∀ k, k ∈ dom → inst.coind k = c

/-- partial-correctness specification of a sub-goal solver -/
def SubSpec (c : Bool) (inst : Instance) (dom : List Nat) (rec : SubSolver) : Prop :=
  ∀ g m s v m' s', Inv c inst dom s → g ∈ dom → rec g m s = .ok (v, m') s' →
    Inv c inst dom s' ∧ Step c inst s s' m' ∧ MinLe m' m ∧ Fact c inst s s' m' g v

section
variable {c : Bool} {inst : Instance} {dom : List Nat} {rec : SubSolver} {cfg : Cfg}

theorem fulfillRound_sem (hrec : SubSpec c inst dom rec) :
    ∀ (cs acc : List Nat) (m : Min) (s : St) (o : Option (List Nat)) (m' : Min) (s' : St),
      Inv c inst dom s → (∀ x, x ∈ cs → x ∈ dom) → fulfillRound rec cs acc m s = .ok (o, m') s' →
      Inv c inst dom s' ∧ Step c inst s s' m' ∧ MinLe m' m ∧
        ((o = some acc ∧ ∀ x, x ∈ cs → Fact c inst s s' m' x .unique) ∨
         (o = none ∧ ∃ x, x ∈ cs ∧ Fact c inst s s' m' x .noSolution))
  | [], acc, m, s, o, m', s', hi, _, h => by
    simp only [fulfillRound, Res.ok.injEq, Prod.mk.injEq] at h
    obtain ⟨⟨ho, hm⟩, hs⟩ := h
    subst ho; subst hm; subst hs
    exact ⟨hi, Step.refl _ _, MinLe.refl _, Or.inl ⟨rfl, fun x hx => by cases hx⟩⟩
  | x :: rest, acc, m, s, o, m', s', hi, hd, h => by
    simp only [fulfillRound] at h
    cases hr : rec x m s with
    | panic site s1 => rw [hr] at h; cases h
    | ok r s1 =>
      obtain ⟨v, m1⟩ := r
      rw [hr] at h
      obtain ⟨hi1, hs1, hle1, hf1⟩ := hrec x m s v m1 s1 hi (hd x (List.mem_cons_self ..)) hr
      cases v with
      | ambig => exact hf1.ne_ambig.elim
      | noSolution =>
        simp only [Res.ok.injEq, Prod.mk.injEq] at h
        obtain ⟨⟨ho, hm⟩, hs⟩ := h
        subst ho; subst hm; subst hs
        exact ⟨hi1, hs1, hle1, Or.inr ⟨rfl, x, List.mem_cons_self .., hf1⟩⟩
      | unique =>
        simp only at h
        obtain ⟨hi2, hs2, hle2, hres⟩ := fulfillRound_sem hrec rest acc m1 s1 o m' s' hi1
          (fun y hy => hd y (List.mem_cons_of_mem _ hy)) h
        refine ⟨hi2, hs1.trans hs2 hle2 hi1 hi2, hle2.trans hle1, ?_⟩
        cases hres with
        | inl hres =>
          refine Or.inl ⟨hres.1, fun y hy => ?_⟩
          cases List.mem_cons.mp hy with
          | inl e => rw [e]; exact hf1.step (Step.refl s m) hi hs2 hle2
          | inr e => exact (hres.2 y e).step hs1 hi1 (Step.refl s' m') (MinLe.refl _)
        | inr hres =>
          obtain ⟨y, hy, hfy⟩ := hres.2
          exact Or.inr ⟨hres.1, y, List.mem_cons_of_mem _ hy,
            hfy.step hs1 hi1 (Step.refl s' m') (MinLe.refl _)⟩

theorem fulfillSolve_sem (hrec : SubSpec c inst dom rec) (alt : List Nat) (m : Min) (s : St) (v : V)
    (m' : Min) (s' : St) (hi : Inv c inst dom s) (hd : ∀ x, x ∈ alt → x ∈ dom)
    (h : fulfillSolve cfg rec alt m s = .ok (v, m') s') :
    Inv c inst dom s' ∧ Step c inst s s' m' ∧ MinLe m' m ∧
      ((v = .unique ∧ ∀ x, x ∈ alt → Fact c inst s s' m' x .unique) ∨
       (v = .noSolution ∧ ∃ x, x ∈ alt ∧ Fact c inst s s' m' x .noSolution)) := by
  unfold fulfillSolve at h
  cases hr : fulfillRound rec alt.reverse [] m s with
  | panic site s1 => rw [hr] at h; cases h
  | ok r s1 =>
    obtain ⟨o, m1⟩ := r
    rw [hr] at h
    obtain ⟨hi1, hs1, hle1, hres⟩ := fulfillRound_sem hrec alt.reverse [] m s o m1 s1 hi
      (fun x hx => hd x (List.mem_reverse.mp hx)) hr
    cases hres with
    | inl hres =>
      obtain ⟨ho, hall⟩ := hres
      subst ho
      simp only [Res.ok.injEq, Prod.mk.injEq] at h
      obtain ⟨⟨hv, hm⟩, hs⟩ := h
      subst hv; subst hm; subst hs
      exact ⟨hi1, hs1, hle1, Or.inl ⟨rfl, fun x hx => hall x (List.mem_reverse.mpr hx)⟩⟩
    | inr hres =>
      obtain ⟨ho, x, hx, hfx⟩ := hres
      subst ho
      simp only [Res.ok.injEq, Prod.mk.injEq] at h
      obtain ⟨⟨hv, hm⟩, hs⟩ := h
      subst hv; subst hm; subst hs
      exact ⟨hi1, hs1, hle1, Or.inr ⟨rfl, x, List.mem_reverse.mp hx, hfx⟩⟩

theorem solveFromClauses_sem (hrec : SubSpec c inst dom rec) :
    ∀ (alts : List (List Nat)) (m : Min) (s : St) (v : V) (m' : Min) (s' : St),
      Inv c inst dom s → (∀ alt, alt ∈ alts → ∀ x, x ∈ alt → x ∈ dom) →
      solveFromClauses cfg rec true alts none m s = .ok (v, m') s' →
      Inv c inst dom s' ∧ Step c inst s s' m' ∧ MinLe m' m ∧
        ((v = .unique ∧ ∃ alt, alt ∈ alts ∧ ∀ x, x ∈ alt → Fact c inst s s' m' x .unique) ∨
         (v = .noSolution ∧ ∀ alt, alt ∈ alts → ∃ x, x ∈ alt ∧ Fact c inst s s' m' x .noSolution))
  | [], m, s, v, m', s', hi, _, h => by
    simp only [solveFromClauses, Option.getD_none, Res.ok.injEq, Prod.mk.injEq] at h
    obtain ⟨⟨hv, hm⟩, hs⟩ := h
    subst hv; subst hm; subst hs
    exact ⟨hi, Step.refl _ _, MinLe.refl _, Or.inr ⟨rfl, fun alt ha => by cases ha⟩⟩
  | alt :: rest, m, s, v, m', s', hi, hd, h => by
    rw [solveFromClauses_cons] at h
    cases hr : fulfillSolve cfg rec alt m s with
    | panic site s1 => rw [hr] at h; cases h
    | ok r s1 =>
      obtain ⟨w, m1⟩ := r
      rw [hr] at h
      obtain ⟨hi1, hs1, hle1, hres⟩ := fulfillSolve_sem hrec alt m s w m1 s1 hi
        (hd alt (List.mem_cons_self ..)) hr
      cases hres with
      | inl hres =>
        obtain ⟨hw, hall⟩ := hres
        subst hw
        simp only [stepCur, trivialTrue, Bool.true_and, beq_self_eq_true, if_true, Res.ok.injEq,
          Prod.mk.injEq] at h
        obtain ⟨⟨hv, hm⟩, hs⟩ := h
        subst hv; subst hm; subst hs
        exact ⟨hi1, hs1, hle1, Or.inl ⟨rfl, alt, List.mem_cons_self .., hall⟩⟩
      | inr hres =>
        obtain ⟨hw, x, hx, hfx⟩ := hres
        subst hw
        simp only [stepCur] at h
        obtain ⟨hi2, hs2, hle2, hres2⟩ := solveFromClauses_sem hrec rest m1 s1 v m' s' hi1
          (fun a ha => hd a (List.mem_cons_of_mem _ ha)) h
        refine ⟨hi2, hs1.trans hs2 hle2 hi1 hi2, hle2.trans hle1, ?_⟩
        cases hres2 with
        | inl hres2 =>
          obtain ⟨hv, a, ha, hall⟩ := hres2
          exact Or.inl ⟨hv, a, List.mem_cons_of_mem _ ha, fun y hy =>
            (hall y hy).step hs1 hi1 (Step.refl s' m') (MinLe.refl _)⟩
        | inr hres2 =>
          refine Or.inr ⟨hres2.1, fun a ha => ?_⟩
          cases List.mem_cons.mp ha with
          | inl e => rw [e]; exact ⟨x, hx, hfx.step (Step.refl s m) hi hs2 hle2⟩
          | inr e =>
            obtain ⟨y, hy, hfy⟩ := hres2.2 a e
            exact ⟨y, hy, hfy.step hs1 hi1 (Step.refl s' m') (MinLe.refl _)⟩

/-- the outcome of one iteration in terms of the polarity -/
def IterFact (c : Bool) (inst : Instance) (s s' : St) (m' : Min) (g : Nat) (v : V) : Prop :=
  (v = top c ∧ J c inst (Wit c inst s' m') g) ∨
  (v = bot c ∧ J (!c) inst (fun x => ¬ Tgt c inst x ∧ ¬ InG c inst s x) g)

theorem iterFact_of {s s' : St} {m' : Min} {g : Nat} {v : V}
    (h : (v = .unique ∧ ∃ alt, alt ∈ inst.deps g ∧ ∀ x, x ∈ alt → Fact c inst s s' m' x .unique) ∨
         (v = .noSolution ∧ ∀ alt, alt ∈ inst.deps g → ∃ x, x ∈ alt ∧ Fact c inst s s' m' x .noSolution)) :
    IterFact c inst s s' m' g v := by
  cases c with
  | true =>
    cases h with
    | inl h =>
      obtain ⟨hv, alt, ha, hall⟩ := h
      refine Or.inl ⟨hv, alt, ha, fun x hx => ?_⟩
      cases hall x hx with
      | inl h => exact h.2
      | inr h => exact absurd h.1 (by decide)
    | inr h =>
      refine Or.inr ⟨h.1, fun alt ha => ?_⟩
      obtain ⟨x, hx, hf⟩ := h.2 alt ha
      refine ⟨x, hx, ?_⟩
      cases hf with
      | inl h => exact absurd h.1 (by decide)
      | inr h => exact h.2
  | false =>
    cases h with
    | inl h =>
      obtain ⟨hv, alt, ha, hall⟩ := h
      refine Or.inr ⟨hv, alt, ha, fun x hx => ?_⟩
      cases hall x hx with
      | inl h => exact absurd h.1 (by decide)
      | inr h => exact h.2
    | inr h =>
      refine Or.inl ⟨h.1, fun alt ha => ?_⟩
      obtain ⟨x, hx, hf⟩ := h.2 alt ha
      refine ⟨x, hx, ?_⟩
      cases hf with
      | inl h => exact h.2
      | inr h => exact absurd h.1 (by decide)

theorem shouldContinue_quiet {s : St} (h : s.oracle = [] ∧ s.oracleDefault = true ∧ s.interrupted = false) :
    shouldContinue s = (true, s) := by
  unfold shouldContinue
  rw [h.1, h.2.1]

theorem solveIteration_sem (hyp : Hyp c inst dom) (hrec : SubSpec c inst dom rec) (g : Nat) (hg : g ∈ dom)
    (m : Min) (s : St) (v : V) (m' : Min) (s' : St) (hi : Inv c inst dom s)
    (h : solveIteration inst cfg rec g m s = .ok (v, m') s') :
    Inv c inst dom s' ∧ Step c inst s s' m' ∧ MinLe m' m ∧ IterFact c inst s s' m' g v := by
  unfold solveIteration at h
  rw [shouldContinue_quiet hi.quiet] at h
  simp only [hyp.ground g hg] at h
  obtain ⟨hi1, hs1, hle1, hres⟩ := solveFromClauses_sem hrec (inst.deps g) m s v m' s' hi
    (fun alt ha x hx => hyp.closed g hg alt ha x hx) h
  exact ⟨hi1, hs1, hle1, iterFact_of hres⟩

end

end Chalk.FixedPoint.Cyc
