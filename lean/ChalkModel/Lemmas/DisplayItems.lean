/-
  C22, layer "items": `parseItem` inverts `printItem` on well-formed items, and
  `parseProgram (print p) = some p`.
-/
import ChalkModel.Lemmas.DisplayItemParts

set_option linter.unusedSimpArgs false
set_option linter.unusedVariables false

namespace Chalk.Display.Parse
open Chalk.Display

/-! ### well-formed items -/

/-- struct/enum: clauses and fields live under the item's binders; a struct has exactly one
    field list -/
def wfAdt (d : AdtDatum) : Bool :=
  d.wcs.all (wfQWC [d.kinds]) && d.vfields.all (fun v => v.all (wfTy [d.kinds]))
    && (d.isEnum || d.vfields.length == 1)

/-- `tks`: the trait's binders; the associated type's binders start with them, and its bounds and
    clauses only refer to its own binder level -/
def wfAssocTy (tks : List VK) (a : AssocTyDatum) : Bool :=
  a.kinds.take tks.length == tks && a.bounds.all (wfBound [a.kinds, []]) && a.wcs.all (wfQWC [a.kinds, []])

/-- `Self` is the trait's first binder -/
def wfTrait (d : TraitDatum) : Bool :=
  d.kinds.head? == some .ty && d.wcs.all (wfQWC [d.kinds]) && d.assocs.all (wfAssocTy d.kinds)

def wfValue (iks : List VK) (v : AssocTyValue) : Bool :=
  v.kinds.take iks.length == iks && wfTy [v.kinds, []] v.value

def wfImpl (d : ImplDatum) : Bool :=
  wfArgs [d.kinds] d.args && wfTy [d.kinds] d.selfTy && d.wcs.all (wfQWC [d.kinds]) && d.values.all (wfValue d.kinds)

def wfItem : Item → Bool
  | .adt d => wfAdt d
  | .trait d => wfTrait d
  | .impl d => wfImpl d

def wfProgram (p : Program) : Bool := p.all wfItem

def WfItem (it : Item) : Prop := wfItem it = true
instance (it : Item) : Decidable (WfItem it) := by unfold WfItem; infer_instance

/-- every item of the program is well-formed -/
def WfProgram (p : Program) : Prop := wfProgram p = true
instance (p : Program) : Decidable (WfProgram p) := by unfold WfProgram; infer_instance

/-! ### attributes -/

def optAttr (b : Bool) (x : String × Option String) : List (String × Option String) := if b then [x] else []

theorem render_optAttr_none (b : Bool) (w : String) :
    ((optAttr b (w, none)).map renderAttr).flatten = flag b w := by
  cases b <;> simp [optAttr, flag, renderAttr]

theorem render_optAttr_some (b : Bool) (w a : String) :
    ((optAttr b (w, some a)).map renderAttr).flatten = if b then attr1 w a else [] := by
  cases b <;> simp [optAttr, renderAttr]

theorem any_optAttr (b : Bool) (x : String × Option String) (f : String × Option String → Bool) :
    (optAttr b x).any f = (b && f x) := by
  cases b <;> simp [optAttr]

theorem find_optAttr (b : Bool) (x : String × Option String) (f : String × Option String → Bool) :
    (optAttr b x).find? f = if (b && f x) = true then some x else none := by
  cases b <;> simp [optAttr, List.find?]

theorem length_optAttr (b : Bool) (x : String × Option String) : (optAttr b x).length ≤ 1 := by
  cases b <;> simp [optAttr]

theorem scalarOfName_C : scalarOfName "C" = none := by decide
theorem scalarOfName_packed : scalarOfName "packed" = none := by decide

def adtAttrs (d : AdtDatum) : List (String × Option String) :=
  optAttr d.upstream ("upstream", none) ++ optAttr d.fundamental ("fundamental", none)
    ++ optAttr d.phantomData ("phantom_data", none) ++ optAttr d.oneZst ("one_zst", none)
    ++ optAttr d.reprC ("repr", some "C") ++ optAttr d.reprPacked ("repr", some "packed")
    ++ (match d.reprInt with | some sc => [("repr", some sc.name)] | none => [])

theorem adtAttrs_print (d : AdtDatum) :
    ((adtAttrs d).map renderAttr).flatten =
      flag d.upstream "upstream" ++ flag d.fundamental "fundamental" ++ flag d.phantomData "phantom_data"
        ++ flag d.oneZst "one_zst"
        ++ (if d.reprC then attr1 "repr" "C" else []) ++ (if d.reprPacked then attr1 "repr" "packed" else [])
        ++ (match d.reprInt with | some sc => attr1 "repr" sc.name | none => []) := by
  simp only [adtAttrs, List.map_append, List.flatten_append, render_optAttr_none, render_optAttr_some]
  cases d.reprInt <;> simp [renderAttr]

theorem adtAttrs_length (d : AdtDatum) : (adtAttrs d).length ≤ 7 := by
  have h1 := length_optAttr d.upstream ("upstream", none)
  have h2 := length_optAttr d.fundamental ("fundamental", none)
  have h3 := length_optAttr d.phantomData ("phantom_data", none)
  have h4 := length_optAttr d.oneZst ("one_zst", none)
  have h5 := length_optAttr d.reprC ("repr", some "C")
  have h6 := length_optAttr d.reprPacked ("repr", some "packed")
  simp only [adtAttrs, List.length_append]
  cases d.reprInt <;> simp <;> omega

theorem adtAttrs_decode (d : AdtDatum) :
    hasAttr (adtAttrs d) "upstream" = d.upstream ∧ hasAttr (adtAttrs d) "fundamental" = d.fundamental ∧
    hasAttr (adtAttrs d) "phantom_data" = d.phantomData ∧ hasAttr (adtAttrs d) "one_zst" = d.oneZst ∧
    hasAttr1 (adtAttrs d) "repr" "C" = d.reprC ∧ hasAttr1 (adtAttrs d) "repr" "packed" = d.reprPacked ∧
    reprIntOf (adtAttrs d) = d.reprInt := by
  refine ⟨?_, ?_, ?_, ?_, ?_, ?_, ?_⟩
  · cases h : d.reprInt <;> simp [hasAttr, adtAttrs, List.any_append, any_optAttr, h]
  · cases h : d.reprInt <;> simp [hasAttr, adtAttrs, List.any_append, any_optAttr, h]
  · cases h : d.reprInt <;> simp [hasAttr, adtAttrs, List.any_append, any_optAttr, h]
  · cases h : d.reprInt <;> simp [hasAttr, adtAttrs, List.any_append, any_optAttr, h]
  · cases h : d.reprInt with
    | none => simp [hasAttr1, adtAttrs, List.any_append, any_optAttr, h]
    | some sc =>
        have : sc.name ≠ "C" := by cases sc <;> decide
        simp [hasAttr1, adtAttrs, List.any_append, any_optAttr, h, this]
  · cases h : d.reprInt with
    | none => simp [hasAttr1, adtAttrs, List.any_append, any_optAttr, h]
    | some sc =>
        have : sc.name ≠ "packed" := by cases sc <;> decide
        simp [hasAttr1, adtAttrs, List.any_append, any_optAttr, h, this]
  · cases h : d.reprInt with
    | none => simp [reprIntOf, adtAttrs, List.find?_append, find_optAttr, h, scalarOfName_C, scalarOfName_packed]
    | some sc =>
        simp [reprIntOf, adtAttrs, List.find?_append, find_optAttr, h, scalarOfName_C, scalarOfName_packed,
          scalarOfName_name]


/-! ### struct / enum -/

theorem parseAdt_struct {fuel : Nat} {as : List (String × Option String)} {n : String}
    {toks rest1 rest2 rest3 : List Tok} {ks : List VK} {wcs : List QWC} {fs : List Ty}
    (h1 : parseAngleBinders fuel toks = some (ks, rest1))
    (h2 : parseWhere fuel (PSt.init.deeper ks none) rest1 = some (wcs, .kw "{" :: rest2))
    (h3 : parseFields fuel (PSt.init.deeper ks none) rest2 = some (fs, .kw "}" :: rest3)) :
    parseAdt fuel as false (.name n :: toks) =
      some (.adt ⟨n, hasAttr as "upstream", hasAttr as "fundamental", hasAttr as "phantom_data", hasAttr as "one_zst",
        hasAttr1 as "repr" "C", hasAttr1 as "repr" "packed", reprIntOf as, false, ks, wcs, [fs]⟩, rest3) := by
  simp [parseAdt, h1, h2, h3]

theorem parseAdt_enum {fuel : Nat} {as : List (String × Option String)} {n : String}
    {toks rest1 rest2 rest3 : List Tok} {ks : List VK} {wcs : List QWC} {vs : List (List Ty)}
    (h1 : parseAngleBinders fuel toks = some (ks, rest1))
    (h2 : parseWhere fuel (PSt.init.deeper ks none) rest1 = some (wcs, .kw "{" :: rest2))
    (h3 : parseVariants fuel (PSt.init.deeper ks none) rest2 = some (vs, .kw "}" :: rest3)) :
    parseAdt fuel as true (.name n :: toks) =
      some (.adt ⟨n, hasAttr as "upstream", hasAttr as "fundamental", hasAttr as "phantom_data", hasAttr as "one_zst",
        hasAttr1 as "repr" "C", hasAttr1 as "repr" "packed", reprIntOf as, true, ks, wcs, vs⟩, rest3) := by
  simp [parseAdt, h1, h2, h3]

theorem parseItem_struct {fuel : Nat} {toks rest rest' : List Tok} {as : List (String × Option String)} {it : Item}
    (h1 : parseAttrs fuel toks = some (as, .kw "struct" :: rest))
    (h2 : parseAdt fuel as false rest = some (it, rest')) : parseItem fuel toks = some (it, rest') := by
  simp [parseItem, h1, h2]

theorem parseItem_enum {fuel : Nat} {toks rest rest' : List Tok} {as : List (String × Option String)} {it : Item}
    (h1 : parseAttrs fuel toks = some (as, .kw "enum" :: rest))
    (h2 : parseAdt fuel as true rest = some (it, rest')) : parseItem fuel toks = some (it, rest') := by
  simp [parseItem, h1, h2]

theorem parseItem_trait {fuel : Nat} {toks rest rest' : List Tok} {as : List (String × Option String)} {it : Item}
    (h1 : parseAttrs fuel toks = some (as, .kw "trait" :: rest))
    (h2 : parseTrait fuel as rest = some (it, rest')) : parseItem fuel toks = some (it, rest') := by
  simp [parseItem, h1, h2]

theorem parseItem_impl {fuel : Nat} {toks rest rest' : List Tok} {as : List (String × Option String)} {it : Item}
    (h1 : parseAttrs fuel toks = some (as, .kw "impl" :: rest))
    (h2 : parseImpl fuel as rest = some (it, rest')) : parseItem fuel toks = some (it, rest') := by
  simp [parseItem, h1, h2]

theorem parseItem_adt (d : AdtDatum) (hwf : wfAdt d = true) (fuel : Nat)
    (hfuel : 8 * (printAdt d).length + 16 ≤ fuel) (rest : List Tok) :
    parseItem fuel (printAdt d ++ rest) = some (.adt d, rest) := by
  simp only [wfAdt, Bool.and_eq_true, Bool.or_eq_true, beq_iff_eq] at hwf
  obtain ⟨⟨hwcs, hfields⟩, hone⟩ := hwf
  have hp : Faithful (PSt.init.deeper d.kinds none) := faithful_item d.kinds
  have hst : (PSt.init.deeper d.kinds none).st = St.init.deeper none := rfl
  have hlen := adtAttrs_length d
  have hkl := angle_binders_length (St.init.deeper none) d.kinds 0
  obtain ⟨e1, e2, e3, e4, e5, e6, e7⟩ := adtAttrs_decode d
  -- the shape of the printed item
  have hsh : printAdt d = ((adtAttrs d).map renderAttr).flatten ++
      .kw (if d.isEnum then "enum" else "struct") :: .name d.name ::
        (angle ((St.init.deeper none).binderNamesFrom 0 d.kinds) ++ (printWhere (St.init.deeper none) d.wcs ++
          .kw "{" :: ((if d.isEnum then printVariantsFrom (St.init.deeper none) 0 d.vfields
            else printFields (St.init.deeper none) (d.vfields.headD [])) ++ [.kw "}"]))) := by
    rw [adtAttrs_print]
    simp only [printAdt, St.binderNames, List.append_assoc, List.cons_append, List.nil_append]
    cases d.reprInt <;> rfl
  rw [hsh] at hfuel ⊢
  simp only [List.length_append, List.length_cons, List.length_nil] at hfuel
  have hattrs := parseAttrs_print (adtAttrs d) fuel
    (.kw (if d.isEnum then "enum" else "struct") :: .name d.name ::
        (angle ((St.init.deeper none).binderNamesFrom 0 d.kinds) ++ (printWhere (St.init.deeper none) d.wcs ++
          .kw "{" :: ((if d.isEnum then printVariantsFrom (St.init.deeper none) 0 d.vfields
            else printFields (St.init.deeper none) (d.vfields.headD [])) ++ [.kw "}"]))) ++ rest)
    (by omega) (by cases d.isEnum <;> simp)
  have hb := parseAngleBinders_print (St.init.deeper none) d.kinds 0 fuel
    (printWhere (St.init.deeper none) d.wcs ++
          .kw "{" :: ((if d.isEnum then printVariantsFrom (St.init.deeper none) 0 d.vfields
            else printFields (St.init.deeper none) (d.vfields.headD [])) ++ [.kw "}"]) ++ rest)
    fresh_item (by omega)
    (by simp only [List.append_assoc, List.cons_append]
        exact printWhere_follow _ _ _ _ _ (by decide) (by decide))
  have hw := parseWhere_print hp (ws := d.wcs) hwcs (fuel := fuel) (by rw [hst]; omega)
    (rest := .kw "{" :: ((if d.isEnum then printVariantsFrom (St.init.deeper none) 0 d.vfields
            else printFields (St.init.deeper none) (d.vfields.headD [])) ++ [.kw "}"] ++ rest))
    (by simp) (by simp) (by simp)
  rw [hst] at hw
  simp only [List.append_assoc, List.cons_append, List.nil_append] at hattrs hb hw ⊢
  cases hE : d.isEnum with
  | true =>
      simp only [hE, if_true] at hattrs hb hw hfuel ⊢
      have hv := parseVariants_print hp d.vfields 0 fuel (.kw "}" :: rest) hfields (by rw [hst]; omega) (by simp)
      rw [hst] at hv
      have := parseItem_enum hattrs (parseAdt_enum (as := adtAttrs d) (n := d.name) hb hw hv)
      rw [this, e1, e2, e3, e4, e5, e6, e7, ← hE]
  | false =>
      simp only [hE, Bool.false_eq_true, if_false, false_or] at hattrs hb hw hfuel hone ⊢
      obtain ⟨fs, hfs⟩ : ∃ fs, d.vfields = [fs] := by
        cases h : d.vfields with
        | nil => simp [h] at hone
        | cons a t => cases t with
          | nil => exact ⟨a, rfl⟩
          | cons b t => simp [h] at hone
      have hfs' : d.vfields.headD [] = fs := by simp [hfs]
      rw [hfs'] at hattrs hb hw hfuel ⊢
      rw [hfs] at hfields
      simp only [List.all_cons, List.all_nil, Bool.and_true] at hfields
      have hf := parseFields_print hp fs 0 fuel (.kw "}" :: rest) hfields
        (by rw [hst]; simp only [printFields] at hfuel; omega) (by simp) (by simp) (by simp)
      rw [hst] at hf
      simp only [printFields] at hattrs hb hw ⊢
      have := parseItem_struct hattrs (parseAdt_struct (as := adtAttrs d) (n := d.name) hb hw hf)
      rw [this, e1, e2, e3, e4, e5, e6, e7, ← hE, ← hfs]


/-! ### associated types -/

theorem parseAssocTy_nobounds {fuel : Nat} {p : PSt} {tks own : List VK} {n : String}
    {toks rest1 rest4 : List Tok} {wcs : List QWC}
    (h1 : parseAngleBinders fuel toks = some (own, rest1)) (h0 : ∀ r, rest1 ≠ .kw ":" :: r)
    (h3 : parseWhere fuel (p.mapped tks.length (tks ++ own)) rest1 = some (wcs, .kw ";" :: rest4)) :
    parseAssocTy fuel p tks (.kw "type" :: .name n :: toks) = some (⟨n, tks ++ own, [], wcs⟩, rest4) := by
  simp [parseAssocTy, h1, h0, h3]

theorem parseAssocTy_bounds {fuel : Nat} {p : PSt} {tks own : List VK} {n : String}
    {toks rest2 rest3 rest4 : List Tok} {bs : Bounds} {wcs : List QWC}
    (h1 : parseAngleBinders fuel toks = some (own, .kw ":" :: rest2))
    (h2 : parseBounds fuel (p.mapped tks.length (tks ++ own)) rest2 = some (bs, rest3))
    (h3 : parseWhere fuel (p.mapped tks.length (tks ++ own)) rest3 = some (wcs, .kw ";" :: rest4)) :
    parseAssocTy fuel p tks (.kw "type" :: .name n :: toks) = some (⟨n, tks ++ own, bs.toList, wcs⟩, rest4) := by
  simp [parseAssocTy, h1, h2, h3]

theorem eq_append_of_take {tks ks : List VK} (h : (ks.take tks.length == tks) = true) :
    ks = tks ++ ks.drop tks.length := by
  have h' : ks.take tks.length = tks := by simpa using h
  conv => lhs; rw [← List.take_append_drop tks.length ks, h']

theorem parseAssocTy_print {p : PSt} (hp : Faithful p) (hre : p.st.remap = []) {tks : List VK} {tl : List (List VK)}
    (henv : p.env = tks :: tl) (a : AssocTyDatum)
    (hk : (a.kinds.take tks.length == tks) = true)
    (hwb : a.bounds.all (wfBound (p.mapped tks.length a.kinds).env) = true)
    (hww : a.wcs.all (wfQWC (p.mapped tks.length a.kinds).env) = true)
    (fuel : Nat) (hfuel : 8 * (printAssocTy p.st tks.length a).length + 1 ≤ fuel) (rest : List Tok) :
    parseAssocTy fuel p tks (printAssocTy p.st tks.length a ++ rest) = some (a, rest) := by
  rcases a with ⟨name, kinds, bounds, wcs⟩
  simp only at hk hwb hww
  have hkinds := eq_append_of_take hk
  generalize kinds.drop tks.length = own at hkinds
  subst hkinds
  have hM : Faithful (p.mapped tks.length (tks ++ own)) := hp.mapped hre henv own
  have hfr : FreshFrom (p.mapped tks.length (tks ++ own)).st tks.length := fresh_mapped hp hre _ _ (by simp)
  have hol := angle_binders_length (p.mapped tks.length (tks ++ own)).st own tks.length
  have hsh : printAssocTy p.st tks.length ⟨name, tks ++ own, bounds, wcs⟩ =
      .kw "type" :: .name name :: (angle ((p.mapped tks.length (tks ++ own)).st.binderNamesFrom tks.length own) ++
        ((if bounds.isEmpty then [] else .kw ":" :: printBounds (p.mapped tks.length (tks ++ own)).st (Bounds.ofList bounds))
          ++ (printWhere (p.mapped tks.length (tks ++ own)).st wcs ++ [.kw ";"]))) := by
    rw [← printBounds_ofList, ← binderNames_drop]
    simp only [printAssocTy, PSt.mapped, List.append_assoc, List.cons_append, List.nil_append]
  rw [hsh] at hfuel ⊢
  simp only [List.length_append, List.length_cons, List.length_nil] at hfuel
  have hw := parseWhere_print hM (ws := wcs) hww (fuel := fuel) (by omega) (rest := .kw ";" :: rest)
    (by simp) (by simp) (by simp)
  cases bounds with
  | nil =>
      simp only [List.isEmpty_nil, if_true, List.nil_append, List.append_assoc, List.cons_append] at hfuel ⊢
      have hb := parseAngleBinders_print (p.mapped tks.length (tks ++ own)).st own tks.length fuel
        (printWhere (p.mapped tks.length (tks ++ own)).st wcs ++ .kw ";" :: rest) hfr (by omega)
        (printWhere_follow _ _ _ _ _ (by decide) (by decide))
      exact parseAssocTy_nobounds hb (printWhere_follow _ _ _ _ _ (by decide) (by decide)) hw
  | cons b bs =>
      simp only [List.isEmpty_cons, Bool.false_eq_true, if_false, List.nil_append, List.append_assoc,
        List.cons_append, List.length_cons] at hfuel ⊢
      have hb := parseAngleBinders_print (p.mapped tks.length (tks ++ own)).st own tks.length fuel
        (.kw ":" :: (printBounds (p.mapped tks.length (tks ++ own)).st (Bounds.ofList (b :: bs)) ++
          (printWhere (p.mapped tks.length (tks ++ own)).st wcs ++ .kw ";" :: rest))) hfr (by omega) (by simp)
      have hsz := szBounds_le (Bounds.ofList (b :: bs)) (p.mapped tks.length (tks ++ own)).st
      have hbs := parseBounds_of_all (Bounds.ofList (b :: bs)) (boundsOK _) (p.mapped tks.length (tks ++ own)) fuel
        (printWhere (p.mapped tks.length (tks ++ own)).st wcs ++ .kw ";" :: rest) hM
        (by simp [Bounds.ofList]) (by rw [wfBounds_ofList]; exact hwb) (by omega)
        (printWhere_follow _ _ _ _ _ (by decide) (by decide))
        (fun r e => absurd e (printWhere_follow _ _ _ _ _ (by decide) (by decide) r))
      have := parseAssocTy_bounds (p := p) (tks := tks) (n := name) hb hbs hw
      rw [toList_ofList] at this
      exact this

theorem parseAssocTys_nil {f : Nat} {p : PSt} {tks : List VK} {rest : List Tok}
    (h : ∀ r, rest ≠ .kw "type" :: r) : parseAssocTys (f + 1) p tks rest = some ([], rest) := by
  simp [parseAssocTys, h]

theorem parseAssocTys_cons {f : Nat} {p : PSt} {tks : List VK} {tl rest rest' : List Tok}
    {a : AssocTyDatum} {as : List AssocTyDatum}
    (h1 : parseAssocTy f p tks (.kw "type" :: tl) = some (a, rest))
    (h2 : parseAssocTys f p tks rest = some (as, rest')) :
    parseAssocTys (f + 1) p tks (.kw "type" :: tl) = some (a :: as, rest') := by
  simp [parseAssocTys, h1, h2]

theorem printAssocTy_head (s : St) (n : Nat) (a : AssocTyDatum) :
    ∃ tl, printAssocTy s n a = .kw "type" :: tl :=
  ⟨_, by simp only [printAssocTy, List.cons_append]; rfl⟩

theorem parseAssocTys_print {p : PSt} (hp : Faithful p) (hre : p.st.remap = []) {tks : List VK} {tl : List (List VK)}
    (henv : p.env = tks :: tl) : ∀ (as : List AssocTyDatum) (fuel : Nat) (rest : List Tok),
    (∀ a ∈ as, (a.kinds.take tks.length == tks) = true ∧
      a.bounds.all (wfBound (p.mapped tks.length a.kinds).env) = true ∧
      a.wcs.all (wfQWC (p.mapped tks.length a.kinds).env) = true) →
    8 * ((as.map (printAssocTy p.st tks.length)).flatten).length + 2 ≤ fuel →
    (∀ r, rest ≠ .kw "type" :: r) →
    parseAssocTys fuel p tks ((as.map (printAssocTy p.st tks.length)).flatten ++ rest) = some (as, rest)
  | [], fuel, rest, _, hf, h => by
      obtain ⟨f, rfl⟩ : ∃ f, fuel = f + 1 := ⟨fuel - 1, by omega⟩
      simp only [List.map_nil, List.flatten_nil, List.nil_append]
      exact parseAssocTys_nil h
  | a :: as, fuel, rest, hwf, hf, h => by
      simp only [List.map_cons, List.flatten_cons, List.length_append] at hf
      obtain ⟨f, rfl⟩ : ∃ f, fuel = f + 1 := ⟨fuel - 1, by omega⟩
      obtain ⟨tl', e⟩ := printAssocTy_head p.st tks.length a
      have hc : 1 ≤ (printAssocTy p.st tks.length a).length := by rw [e]; simp
      have ih := parseAssocTys_print hp hre henv as f rest (fun x hx => hwf x (by simp [hx])) (by omega) h
      obtain ⟨h1, h2, h3⟩ := hwf a (by simp)
      have ha := parseAssocTy_print hp hre henv a h1 h2 h3 f (by omega)
        (((as.map (printAssocTy p.st tks.length)).flatten) ++ rest)
      simp only [List.map_cons, List.flatten_cons, List.append_assoc]
      rw [e] at ha ⊢
      exact parseAssocTys_cons ha ih


/-! ### traits -/

def traitAttrs (d : TraitDatum) : List (String × Option String) :=
  optAttr d.auto ("auto", none) ++ optAttr d.marker ("marker", none) ++ optAttr d.upstream ("upstream", none)
    ++ optAttr d.fundamental ("fundamental", none) ++ optAttr d.nonEnumerable ("non_enumerable", none)
    ++ optAttr d.coind ("coinductive", none) ++ optAttr d.objectSafe ("object_safe", none)
    ++ (match d.wellKnown with | some w => [("lang", some w)] | none => [])

theorem traitAttrs_print (d : TraitDatum) :
    ((traitAttrs d).map renderAttr).flatten =
      flag d.auto "auto" ++ flag d.marker "marker" ++ flag d.upstream "upstream" ++ flag d.fundamental "fundamental"
        ++ flag d.nonEnumerable "non_enumerable" ++ flag d.coind "coinductive" ++ flag d.objectSafe "object_safe"
        ++ (match d.wellKnown with | some w => attr1 "lang" w | none => []) := by
  simp only [traitAttrs, List.map_append, List.flatten_append, render_optAttr_none]
  cases d.wellKnown <;> simp [renderAttr]

theorem traitAttrs_length (d : TraitDatum) : (traitAttrs d).length ≤ 8 := by
  have h1 := length_optAttr d.auto ("auto", none)
  have h2 := length_optAttr d.marker ("marker", none)
  have h3 := length_optAttr d.upstream ("upstream", none)
  have h4 := length_optAttr d.fundamental ("fundamental", none)
  have h5 := length_optAttr d.nonEnumerable ("non_enumerable", none)
  have h6 := length_optAttr d.coind ("coinductive", none)
  have h7 := length_optAttr d.objectSafe ("object_safe", none)
  simp only [traitAttrs, List.length_append]
  cases d.wellKnown <;> simp <;> omega

theorem traitAttrs_decode (d : TraitDatum) :
    hasAttr (traitAttrs d) "auto" = d.auto ∧ hasAttr (traitAttrs d) "marker" = d.marker ∧
    hasAttr (traitAttrs d) "upstream" = d.upstream ∧ hasAttr (traitAttrs d) "fundamental" = d.fundamental ∧
    hasAttr (traitAttrs d) "non_enumerable" = d.nonEnumerable ∧ hasAttr (traitAttrs d) "coinductive" = d.coind ∧
    hasAttr (traitAttrs d) "object_safe" = d.objectSafe ∧ attrArg (traitAttrs d) "lang" = d.wellKnown := by
  refine ⟨?_, ?_, ?_, ?_, ?_, ?_, ?_, ?_⟩
  · cases h : d.wellKnown <;> simp [hasAttr, traitAttrs, List.any_append, any_optAttr, h]
  · cases h : d.wellKnown <;> simp [hasAttr, traitAttrs, List.any_append, any_optAttr, h]
  · cases h : d.wellKnown <;> simp [hasAttr, traitAttrs, List.any_append, any_optAttr, h]
  · cases h : d.wellKnown <;> simp [hasAttr, traitAttrs, List.any_append, any_optAttr, h]
  · cases h : d.wellKnown <;> simp [hasAttr, traitAttrs, List.any_append, any_optAttr, h]
  · cases h : d.wellKnown <;> simp [hasAttr, traitAttrs, List.any_append, any_optAttr, h]
  · cases h : d.wellKnown <;> simp [hasAttr, traitAttrs, List.any_append, any_optAttr, h]
  · cases h : d.wellKnown <;> simp [attrArg, traitAttrs, List.find?_append, find_optAttr, h]

theorem parseTrait_step {fuel : Nat} {as : List (String × Option String)} {n : String}
    {toks rest1 rest2 rest3 : List Tok} {own : List VK} {wcs : List QWC} {assocs : List AssocTyDatum}
    (h1 : parseAngleBinders fuel toks = some (own, rest1))
    (h2 : parseWhere fuel (PSt.init.deeper (.ty :: own) (some 0)) rest1 = some (wcs, .kw "{" :: rest2))
    (h3 : parseAssocTys fuel (PSt.init.deeper (.ty :: own) (some 0)) (.ty :: own) rest2 = some (assocs, .kw "}" :: rest3)) :
    parseTrait fuel as (.name n :: toks) =
      some (.trait ⟨n, hasAttr as "auto", hasAttr as "marker", hasAttr as "upstream", hasAttr as "fundamental",
        hasAttr as "non_enumerable", hasAttr as "coinductive", hasAttr as "object_safe", attrArg as "lang",
        .ty :: own, wcs, assocs⟩, rest3) := by
  simp [parseTrait, h1, h2, h3]

theorem parseItem_trait_print (d : TraitDatum) (hwf : wfTrait d = true) (fuel : Nat)
    (hfuel : 8 * (printTrait d).length + 16 ≤ fuel) (rest : List Tok) :
    parseItem fuel (printTrait d ++ rest) = some (.trait d, rest) := by
  simp only [wfTrait, Bool.and_eq_true, beq_iff_eq] at hwf
  obtain ⟨⟨hhead, hwcs⟩, hassocs⟩ := hwf
  obtain ⟨own, hown⟩ : ∃ own, d.kinds = .ty :: own := by
    cases h : d.kinds with
    | nil => simp [h] at hhead
    | cons k ks => simp [h] at hhead; subst hhead; exact ⟨ks, rfl⟩
  have hp : Faithful (PSt.init.deeper (.ty :: own) (some 0)) := faithful_trait own
  have hst : (PSt.init.deeper (.ty :: own) (some 0)).st = St.init.deeper (some 0) := rfl
  have hlen := traitAttrs_length d
  have hkl := angle_binders_length (St.init.deeper (some 0)) own 1
  obtain ⟨e1, e2, e3, e4, e5, e6, e7, e8⟩ := traitAttrs_decode d
  have hsh : printTrait d = ((traitAttrs d).map renderAttr).flatten ++
      .kw "trait" :: .name d.name ::
        (angle ((St.init.deeper (some 0)).binderNamesFrom 1 own) ++ (printWhere (St.init.deeper (some 0)) d.wcs ++
          .kw "{" :: ((d.assocs.map (printAssocTy (St.init.deeper (some 0)) (own.length + 1))).flatten ++ [.kw "}"]))) := by
    rw [traitAttrs_print]
    simp only [printTrait, hown, St.binderNames, binderNamesFrom_cons, List.drop_succ_cons, List.drop_zero,
      List.append_assoc, List.cons_append, List.nil_append]
    cases d.wellKnown <;> rfl
  rw [hsh] at hfuel ⊢
  simp only [List.length_append, List.length_cons, List.length_nil] at hfuel
  have hattrs := parseAttrs_print (traitAttrs d) fuel
    (.kw "trait" :: .name d.name ::
        (angle ((St.init.deeper (some 0)).binderNamesFrom 1 own) ++ (printWhere (St.init.deeper (some 0)) d.wcs ++
          .kw "{" :: ((d.assocs.map (printAssocTy (St.init.deeper (some 0)) (own.length + 1))).flatten ++ [.kw "}"]))) ++ rest)
    (by omega) (by simp)
  have hb := parseAngleBinders_print (St.init.deeper (some 0)) own 1 fuel
    (printWhere (St.init.deeper (some 0)) d.wcs ++
          .kw "{" :: ((d.assocs.map (printAssocTy (St.init.deeper (some 0)) (own.length + 1))).flatten ++ [.kw "}"]) ++ rest)
    fresh_trait (by omega)
    (by simp only [List.append_assoc, List.cons_append]
        exact printWhere_follow _ _ _ _ _ (by decide) (by decide))
  rw [hown] at hwcs hassocs
  have hw := parseWhere_print hp (ws := d.wcs) hwcs (fuel := fuel) (by rw [hst]; omega)
    (rest := .kw "{" :: ((d.assocs.map (printAssocTy (St.init.deeper (some 0)) (own.length + 1))).flatten ++ [.kw "}"] ++ rest))
    (by simp) (by simp) (by simp)
  have ha := parseAssocTys_print hp rfl (tks := .ty :: own) (tl := []) rfl d.assocs fuel (.kw "}" :: rest)
    (by
      intro a ha
      have := List.all_eq_true.1 hassocs a ha
      simp only [wfAssocTy, Bool.and_eq_true] at this
      exact ⟨this.1.1, this.1.2, this.2⟩)
    (by simp only [List.length_cons]; rw [hst]; omega) (by simp)
  simp only [List.length_cons] at ha
  rw [hst] at hw ha
  simp only [List.append_assoc, List.cons_append, List.nil_append] at hattrs hb hw ha ⊢
  have := parseItem_trait hattrs (parseTrait_step (as := traitAttrs d) (n := d.name) hb hw ha)
  rw [this, e1, e2, e3, e4, e5, e6, e7, e8, ← hown]

/-! ### impls -/

theorem parseAssocValue_step {fuel : Nat} {p : PSt} {iks own : List VK} {n : String}
    {toks rest1 rest2 : List Tok} {t : Ty}
    (h1 : parseAngleBinders fuel toks = some (own, .kw "=" :: rest1))
    (h2 : parseTy fuel (p.mapped iks.length (iks ++ own)) rest1 = some (t, .kw ";" :: rest2)) :
    parseAssocValue fuel p iks (.kw "type" :: .name n :: toks) = some (⟨n, iks ++ own, t⟩, rest2) := by
  simp [parseAssocValue, h1, h2]

theorem parseAssocValue_print {p : PSt} (hp : Faithful p) (hre : p.st.remap = []) {iks : List VK} {tl : List (List VK)}
    (henv : p.env = iks :: tl) (v : AssocTyValue)
    (hk : (v.kinds.take iks.length == iks) = true)
    (hwv : wfTy (p.mapped iks.length v.kinds).env v.value = true)
    (fuel : Nat) (hfuel : 8 * (printAssocValue p.st iks.length v).length + 1 ≤ fuel) (rest : List Tok) :
    parseAssocValue fuel p iks (printAssocValue p.st iks.length v ++ rest) = some (v, rest) := by
  rcases v with ⟨name, kinds, value⟩
  simp only at hk hwv
  have hkinds := eq_append_of_take hk
  generalize kinds.drop iks.length = own at hkinds
  subst hkinds
  have hM : Faithful (p.mapped iks.length (iks ++ own)) := hp.mapped hre henv own
  have hfr : FreshFrom (p.mapped iks.length (iks ++ own)).st iks.length := fresh_mapped hp hre _ _ (by simp)
  have hol := angle_binders_length (p.mapped iks.length (iks ++ own)).st own iks.length
  have hsh : printAssocValue p.st iks.length ⟨name, iks ++ own, value⟩ =
      .kw "type" :: .name name :: (angle ((p.mapped iks.length (iks ++ own)).st.binderNamesFrom iks.length own) ++
        .kw "=" :: (printTy (p.mapped iks.length (iks ++ own)).st value ++ [.kw ";"])) := by
    rw [← binderNames_drop]
    simp only [printAssocValue, PSt.mapped, List.append_assoc, List.cons_append, List.nil_append]
  rw [hsh] at hfuel ⊢
  simp only [List.length_append, List.length_cons, List.length_nil] at hfuel
  have hsz := szTy_le value (p.mapped iks.length (iks ++ own)).st
  have hb := parseAngleBinders_print (p.mapped iks.length (iks ++ own)).st own iks.length fuel
    (.kw "=" :: (printTy (p.mapped iks.length (iks ++ own)).st value ++ .kw ";" :: rest)) hfr (by omega) (by simp)
  have ht := parseTy_print hM hwv (fuel := fuel) (by omega) (rest := .kw ";" :: rest) (by simp)
  simp only [List.append_assoc, List.cons_append, List.nil_append]
  exact parseAssocValue_step hb ht

theorem parseAssocValues_nil {f : Nat} {p : PSt} {iks : List VK} {rest : List Tok}
    (h : ∀ r, rest ≠ .kw "type" :: r) : parseAssocValues (f + 1) p iks rest = some ([], rest) := by
  simp [parseAssocValues, h]

theorem parseAssocValues_cons {f : Nat} {p : PSt} {iks : List VK} {tl rest rest' : List Tok}
    {a : AssocTyValue} {as : List AssocTyValue}
    (h1 : parseAssocValue f p iks (.kw "type" :: tl) = some (a, rest))
    (h2 : parseAssocValues f p iks rest = some (as, rest')) :
    parseAssocValues (f + 1) p iks (.kw "type" :: tl) = some (a :: as, rest') := by
  simp [parseAssocValues, h1, h2]

theorem printAssocValue_head (s : St) (n : Nat) (a : AssocTyValue) :
    ∃ tl, printAssocValue s n a = .kw "type" :: tl :=
  ⟨_, by simp only [printAssocValue, List.cons_append]; rfl⟩

theorem parseAssocValues_print {p : PSt} (hp : Faithful p) (hre : p.st.remap = []) {iks : List VK} {tl : List (List VK)}
    (henv : p.env = iks :: tl) : ∀ (vs : List AssocTyValue) (fuel : Nat) (rest : List Tok),
    (∀ v ∈ vs, (v.kinds.take iks.length == iks) = true ∧
      wfTy (p.mapped iks.length v.kinds).env v.value = true) →
    8 * ((vs.map (printAssocValue p.st iks.length)).flatten).length + 2 ≤ fuel →
    (∀ r, rest ≠ .kw "type" :: r) →
    parseAssocValues fuel p iks ((vs.map (printAssocValue p.st iks.length)).flatten ++ rest) = some (vs, rest)
  | [], fuel, rest, _, hf, h => by
      obtain ⟨f, rfl⟩ : ∃ f, fuel = f + 1 := ⟨fuel - 1, by omega⟩
      simp only [List.map_nil, List.flatten_nil, List.nil_append]
      exact parseAssocValues_nil h
  | a :: as, fuel, rest, hwf, hf, h => by
      simp only [List.map_cons, List.flatten_cons, List.length_append] at hf
      obtain ⟨f, rfl⟩ : ∃ f, fuel = f + 1 := ⟨fuel - 1, by omega⟩
      obtain ⟨tl', e⟩ := printAssocValue_head p.st iks.length a
      have hc : 1 ≤ (printAssocValue p.st iks.length a).length := by rw [e]; simp
      have ih := parseAssocValues_print hp hre henv as f rest (fun x hx => hwf x (by simp [hx])) (by omega) h
      obtain ⟨h1, h2⟩ := hwf a (by simp)
      have ha := parseAssocValue_print hp hre henv a h1 h2 f (by omega)
        (((as.map (printAssocValue p.st iks.length)).flatten) ++ rest)
      simp only [List.map_cons, List.flatten_cons, List.append_assoc]
      rw [e] at ha ⊢
      exact parseAssocValues_cons ha ih

theorem parseImpl_step {fuel : Nat} {as : List (String × Option String)} (neg : Bool) {tr : String}
    {toks rest1 rest2 rest3 rest4 rest5 : List Tok} {ks : List VK} {args : Args} {self : Ty}
    {wcs : List QWC} {vals : List AssocTyValue}
    (h1 : parseAngleBinders fuel toks = some (ks, (if neg then [.kw "!"] else []) ++ .name tr :: rest1))
    (h2 : parseAngleArgs fuel (PSt.init.deeper ks none) rest1 = some (args, .kw "for" :: rest2))
    (h3 : parseTy fuel (PSt.init.deeper ks none) rest2 = some (self, rest3))
    (h4 : parseWhere fuel (PSt.init.deeper ks none) rest3 = some (wcs, .kw "{" :: rest4))
    (h5 : parseAssocValues fuel (PSt.init.deeper ks none) ks rest4 = some (vals, .kw "}" :: rest5)) :
    parseImpl fuel as toks = some (.impl ⟨hasAttr as "upstream", ks, neg, tr, args, self, wcs, vals⟩, rest5) := by
  cases neg <;> simp at h1 <;> simp [parseImpl, h1, h2, h3, h4, h5]

theorem parseItem_impl_print (d : ImplDatum) (hwf : wfImpl d = true) (fuel : Nat)
    (hfuel : 8 * (printImpl d).length + 16 ≤ fuel) (rest : List Tok) :
    parseItem fuel (printImpl d ++ rest) = some (.impl d, rest) := by
  simp only [wfImpl, Bool.and_eq_true] at hwf
  obtain ⟨⟨⟨hargs, hself⟩, hwcs⟩, hvals⟩ := hwf
  have hp : Faithful (PSt.init.deeper d.kinds none) := faithful_item d.kinds
  have hst : (PSt.init.deeper d.kinds none).st = St.init.deeper none := rfl
  have hkl := angle_binders_length (St.init.deeper none) d.kinds 0
  have hsh : printImpl d = (((optAttr d.external ("upstream", none)).map renderAttr).flatten) ++
      .kw "impl" :: (angle ((St.init.deeper none).binderNamesFrom 0 d.kinds) ++
        ((if d.negative then [.kw "!"] else []) ++ .name d.tr :: (printAngleArgs (St.init.deeper none) d.args ++
          .kw "for" :: (printTy (St.init.deeper none) d.selfTy ++ (printWhere (St.init.deeper none) d.wcs ++
            .kw "{" :: ((d.values.map (printAssocValue (St.init.deeper none) d.kinds.length)).flatten ++ [.kw "}"])))))) := by
    rw [render_optAttr_none]
    simp only [printImpl, St.binderNames, List.append_assoc, List.cons_append, List.nil_append]
  rw [hsh] at hfuel ⊢
  simp only [List.length_append, List.length_cons, List.length_nil] at hfuel
  have hal := length_optAttr d.external ("upstream", none)
  have hattrs := parseAttrs_print (optAttr d.external ("upstream", none)) fuel
    (.kw "impl" :: (angle ((St.init.deeper none).binderNamesFrom 0 d.kinds) ++
        ((if d.negative then [.kw "!"] else []) ++ .name d.tr :: (printAngleArgs (St.init.deeper none) d.args ++
          .kw "for" :: (printTy (St.init.deeper none) d.selfTy ++ (printWhere (St.init.deeper none) d.wcs ++
            .kw "{" :: ((d.values.map (printAssocValue (St.init.deeper none) d.kinds.length)).flatten ++ [.kw "}"])))))) ++ rest)
    (by omega) (by simp)
  have hb := parseAngleBinders_print (St.init.deeper none) d.kinds 0 fuel
    ((if d.negative then [.kw "!"] else []) ++ .name d.tr :: (printAngleArgs (St.init.deeper none) d.args ++
          .kw "for" :: (printTy (St.init.deeper none) d.selfTy ++ (printWhere (St.init.deeper none) d.wcs ++
            .kw "{" :: ((d.values.map (printAssocValue (St.init.deeper none) d.kinds.length)).flatten ++ .kw "}" :: rest)))))
    fresh_item (by omega) (by cases d.negative <;> simp)
  have hsa := szArgs_le d.args (St.init.deeper none)
  have hsa' := printArgs_le_angle (St.init.deeper none) d.args
  have hss := szTy_le d.selfTy (St.init.deeper none)
  obtain ⟨f, hf⟩ : ∃ f, fuel = f + 1 := ⟨fuel - 1, by omega⟩
  have hargs' := angleOK (argsOK d.args) hp (f := f)
    (rest := .kw "for" :: (printTy (St.init.deeper none) d.selfTy ++ (printWhere (St.init.deeper none) d.wcs ++
            .kw "{" :: ((d.values.map (printAssocValue (St.init.deeper none) d.kinds.length)).flatten ++ .kw "}" :: rest))))
    hargs (by omega) (by simp)
  rw [← hf, hst] at hargs'
  have hself' := parseTy_print hp hself (fuel := fuel) (by omega)
    (rest := printWhere (St.init.deeper none) d.wcs ++
            .kw "{" :: ((d.values.map (printAssocValue (St.init.deeper none) d.kinds.length)).flatten ++ .kw "}" :: rest))
    (printWhere_follow _ _ _ _ _ (by decide) (by decide))
  have hw := parseWhere_print hp (ws := d.wcs) hwcs (fuel := fuel) (by rw [hst]; omega)
    (rest := .kw "{" :: ((d.values.map (printAssocValue (St.init.deeper none) d.kinds.length)).flatten ++ .kw "}" :: rest))
    (by simp) (by simp) (by simp)
  have hv := parseAssocValues_print hp rfl (iks := d.kinds) (tl := []) rfl d.values fuel (.kw "}" :: rest)
    (by
      intro a ha
      have := List.all_eq_true.1 hvals a ha
      simp only [wfValue, Bool.and_eq_true] at this
      exact this)
    (by rw [hst]; omega) (by simp)
  rw [hst] at hself' hw hv
  simp only [List.append_assoc, List.cons_append, List.nil_append] at hattrs hb hw hv ⊢
  have := parseItem_impl hattrs (parseImpl_step (as := optAttr d.external ("upstream", none)) d.negative hb hargs' hself' hw hv)
  rw [this]
  simp [hasAttr, any_optAttr]

/-! ### programs -/

theorem parseItem_print (it : Item) (hwf : wfItem it = true) (fuel : Nat)
    (hfuel : 8 * (printItem it).length + 16 ≤ fuel) (rest : List Tok) :
    parseItem fuel (printItem it ++ rest) = some (it, rest) := by
  cases it with
  | adt d => exact parseItem_adt d hwf fuel hfuel rest
  | trait d => exact parseItem_trait_print d hwf fuel hfuel rest
  | impl d => exact parseItem_impl_print d hwf fuel hfuel rest

theorem printItem_head (it : Item) : ∃ tok tl, printItem it = tok :: tl := by
  have : printItem it ≠ [] := by
    cases it <;> simp [printItem, printAdt, printTrait, printImpl]
  cases h : printItem it with
  | nil => exact absurd h this
  | cons a b => exact ⟨a, b, rfl⟩

theorem parseItems_cons {n fuel : Nat} {tok : Tok} {tl rest : List Tok} {it : Item} {its : Program}
    (h1 : parseItem fuel (tok :: tl) = some (it, rest)) (h2 : parseItems n fuel rest = some its) :
    parseItems (n + 1) fuel (tok :: tl) = some (it :: its) := by
  simp [parseItems, h1, h2]

theorem parseItems_print : ∀ (p : Program) (n fuel : Nat), wfProgram p = true → p.length + 1 ≤ n →
    (∀ it ∈ p, 8 * (printItem it).length + 16 ≤ fuel) → parseItems n fuel (print p) = some p
  | [], n, fuel, _, hn, _ => by
      obtain ⟨m, rfl⟩ : ∃ m, n = m + 1 := ⟨n - 1, by omega⟩
      simp [print, parseItems]
  | it :: its, n, fuel, hwf, hn, hfuel => by
      simp only [List.length_cons] at hn
      obtain ⟨m, rfl⟩ : ∃ m, n = m + 1 := ⟨n - 1, by omega⟩
      simp only [wfProgram, List.all_cons, Bool.and_eq_true] at hwf
      have ih := parseItems_print its m fuel hwf.2 (by omega) (fun x hx => hfuel x (by simp [hx]))
      have h1 := parseItem_print it hwf.1 fuel (hfuel it (by simp)) (print its)
      obtain ⟨tok, tl, e⟩ := printItem_head it
      simp only [print, List.map_cons, List.flatten_cons]
      rw [e] at h1 ⊢
      exact parseItems_cons h1 ih

theorem print_length_ge (p : Program) : p.length ≤ (print p).length ∧ ∀ it ∈ p, (printItem it).length ≤ (print p).length := by
  induction p with
  | nil => simp [print]
  | cons it its ih =>
      obtain ⟨tok, tl, e⟩ := printItem_head it
      have h1 : 1 ≤ (printItem it).length := by rw [e]; simp
      have e2 : (print (it :: its)).length = (printItem it).length + (print its).length := by
        simp [print]
      constructor
      · rw [e2, List.length_cons]; omega
      · intro x hx
        rw [e2]
        rcases List.mem_cons.1 hx with rfl | hx
        · omega
        · have := ih.2 x hx; omega

/-- **P3.** the parser inverts the writer on well-formed programs -/
theorem parseProgram_print (p : Program) (hwf : wfProgram p = true) : parseProgram (print p) = some p := by
  obtain ⟨h1, h2⟩ := print_length_ge p
  unfold parseProgram
  apply parseItems_print p _ _ hwf (by omega)
  intro it hit
  have := h2 it hit
  simp only [fuelFor]
  omega

end Chalk.Display.Parse
