/-
  C22: one-step unfoldings of the type parser, one lemma per production.
-/
import ChalkModel.Lemmas.DisplayBasic

set_option linter.unusedSimpArgs false
set_option linter.unusedVariables false

namespace Chalk.Display.Parse
open Chalk.Display

variable (f : Nat) (p : PSt)

theorem parseTy_adt {n : String} {rest rest' : List Tok} {args : Args}
    (h : parseAngleArgs f p rest = some (args, rest')) :
    parseTy (f + 1) p (.name n :: rest) = some (.adt n args, rest') := by
  simp [parseTy, h]

theorem parseTy_scalar (sc : Scalar) (rest : List Tok) :
    parseTy (f + 1) p (.kw sc.name :: rest) = some (.scalar sc, rest) := by
  cases sc <;> simp [parseTy, Scalar.name, scalarOfName, Scalar.all]

theorem parseTy_unit (rest : List Tok) :
    parseTy (f + 1) p (.kw "(" :: .kw ")" :: rest) = some (.tuple .nil, rest) := by
  simp [parseTy]

theorem parseTy_tuple1 {toks rest : List Tok} {t : Ty}
    (h0 : ∀ r, toks ≠ .kw ")" :: r)
    (ht : parseTy f p toks = some (t, .kw "," :: .kw ")" :: rest)) :
    parseTy (f + 1) p (.kw "(" :: toks) = some (.tuple (.cons t .nil), rest) := by
  simp [parseTy, ht, h0]

theorem parseTy_tuple2 {toks rest rest' : List Tok} {t : Ty} {ts : Tys}
    (h0 : ∀ r, toks ≠ .kw ")" :: r)
    (ht : parseTy f p toks = some (t, .kw "," :: rest))
    (h1 : ∀ r, rest ≠ .kw ")" :: r)
    (hts : parseTys f p rest = some (ts, .kw ")" :: rest')) :
    parseTy (f + 1) p (.kw "(" :: toks) = some (.tuple (.cons t ts), rest') := by
  simp [parseTy, ht, hts, h0, h1]

theorem parseTy_ref_mut {toks rest rest' : List Tok} {l : Lt} {t : Ty}
    (hl : parseLt p toks = some (l, .kw "mut" :: rest))
    (ht : parseTy f p rest = some (t, rest')) :
    parseTy (f + 1) p (.kw "&" :: toks) = some (.ref true l t, rest') := by
  simp [parseTy, hl, ht]

theorem parseTy_ref {toks rest rest' : List Tok} {l : Lt} {t : Ty}
    (hl : parseLt p toks = some (l, rest)) (hm : ∀ r, rest ≠ .kw "mut" :: r)
    (ht : parseTy f p rest = some (t, rest')) :
    parseTy (f + 1) p (.kw "&" :: toks) = some (.ref false l t, rest') := by
  simp [parseTy, hl, ht, hm]

theorem parseTy_raw_mut {toks rest : List Tok} {t : Ty}
    (ht : parseTy f p toks = some (t, rest)) :
    parseTy (f + 1) p (.kw "*" :: .kw "mut" :: toks) = some (.raw true t, rest) := by
  simp [parseTy, ht]

theorem parseTy_raw_const {toks rest : List Tok} {t : Ty}
    (ht : parseTy f p toks = some (t, rest)) :
    parseTy (f + 1) p (.kw "*" :: .kw "const" :: toks) = some (.raw false t, rest) := by
  simp [parseTy, ht]

theorem parseTy_slice {toks rest : List Tok} {t : Ty}
    (ht : parseTy f p toks = some (t, .kw "]" :: rest)) :
    parseTy (f + 1) p (.kw "[" :: toks) = some (.slice t, rest) := by
  simp [parseTy, ht]

theorem parseTy_array {toks rest rest' : List Tok} {t : Ty} {c : Ct}
    (ht : parseTy f p toks = some (t, .kw ";" :: rest))
    (hc : parseCt p rest = some (c, .kw "]" :: rest')) :
    parseTy (f + 1) p (.kw "[" :: toks) = some (.array t c, rest') := by
  simp [parseTy, ht, hc]

theorem parseTy_for {toks rest : List Tok} {ks : List VK} {res : Option (Ty × List Tok)}
    (hb : parseBinders f toks = some (ks, .kw ">" :: .kw "fn" :: .kw "(" :: rest))
    (hr : parseFnRest f p ks.length rest = res) :
    parseTy (f + 1) p (.kw "for" :: .kw "<" :: toks) = res := by
  simp [parseTy, hb, hr]

theorem parseTy_fn (rest : List Tok) :
    parseTy (f + 1) p (.kw "fn" :: .kw "(" :: rest) = parseFnRest f p 0 rest := by
  simp [parseTy]

theorem parseTy_proj {toks r1 r2 r3 : List Tok} {self : Ty} {tr assoc : String} {targs aargs : Args}
    (hs : parseTy f p toks = some (self, .kw "as" :: .name tr :: r1))
    (ht : parseAngleArgs f p r1 = some (targs, .kw ">" :: .kw "::" :: .name assoc :: r2))
    (ha : parseAngleArgs f p r2 = some (aargs, r3)) :
    parseTy (f + 1) p (.kw "<" :: toks) = some (.proj tr assoc self targs aargs, r3) := by
  simp [parseTy, hs, ht, ha]

theorem parseTy_dyn {toks r1 r2 : List Tok} {bs : Bounds} {l : Lt}
    (hb : parseBounds f (p.deeper [.ty] none) toks = some (bs, .kw "+" :: r1))
    (hl : parseLt p r1 = some (l, r2)) :
    parseTy (f + 1) p (.kw "dyn" :: toks) = some (.dyn bs l, r2) := by
  simp [parseTy, hb, hl]

theorem parseTy_never (rest : List Tok) :
    parseTy (f + 1) p (.kw "!" :: rest) = some (.never, rest) := by
  simp [parseTy]

theorem parseTy_str (rest : List Tok) :
    parseTy (f + 1) p (.kw "str" :: rest) = some (.str, rest) := by
  simp [parseTy]

theorem parseTy_var (s : St) (v : Nat × Nat) {d i : Nat} (rest : List Tok)
    (h : p.varOf (s.varTok v) = some (d, i)) :
    parseTy (f + 1) p (s.varTok v :: rest) = some (.bound d i, rest) := by
  rcases varTok_cases s v with e | ⟨a, b, e⟩
  · rw [e] at h ⊢; simp [parseTy, h]
  · rw [e] at h ⊢; simp [parseTy, h]

/-! `parseFnRest` -/

theorem parseFnRest_nil {nb : Nat} {rest rest' : List Tok} {ret : Ty}
    (hr : parseTy f (p.deeper (List.replicate nb .lt) none) rest = some (ret, rest')) :
    parseFnRest (f + 1) p nb (.kw ")" :: .kw "->" :: rest) = some (.fnPtr nb .nil ret, rest') := by
  simp [parseFnRest, hr]

theorem parseFnRest_cons {nb : Nat} {toks rest rest' : List Tok} {args : Tys} {ret : Ty}
    (h0 : ∀ r, toks ≠ .kw ")" :: .kw "->" :: r)
    (ha : parseTys f (p.deeper (List.replicate nb .lt) none) toks = some (args, .kw ")" :: .kw "->" :: rest))
    (hr : parseTy f (p.deeper (List.replicate nb .lt) none) rest = some (ret, rest')) :
    parseFnRest (f + 1) p nb toks = some (.fnPtr nb args ret, rest') := by
  simp [parseFnRest, ha, hr, h0]

/-! lists -/

theorem parseTys_one {toks rest : List Tok} {t : Ty}
    (ht : parseTy f p toks = some (t, rest)) (h : ∀ r, rest ≠ .kw "," :: r) :
    parseTys (f + 1) p toks = some (.cons t .nil, rest) := by
  simp [parseTys, ht, h]

theorem parseTys_more {toks rest rest' : List Tok} {t : Ty} {ts : Tys}
    (ht : parseTy f p toks = some (t, .kw "," :: rest))
    (hts : parseTys f p rest = some (ts, rest')) :
    parseTys (f + 1) p toks = some (.cons t ts, rest') := by
  simp [parseTys, ht, hts]

theorem parseArgs_one {toks rest : List Tok} {a : GArg}
    (ha : parseGArg f p toks = some (a, rest)) (h : ∀ r, rest ≠ .kw "," :: r) :
    parseArgs (f + 1) p toks = some (.cons a .nil, rest) := by
  simp [parseArgs, ha, h]

theorem parseArgs_more {toks rest rest' : List Tok} {a : GArg} {as : Args}
    (ha : parseGArg f p toks = some (a, .kw "," :: rest))
    (has : parseArgs f p rest = some (as, rest')) :
    parseArgs (f + 1) p toks = some (.cons a as, rest') := by
  simp [parseArgs, ha, has]

theorem parseAngleArgs_nil {toks : List Tok} (h : ∀ r, toks ≠ .kw "<" :: r) :
    parseAngleArgs (f + 1) p toks = some (.nil, toks) := by
  simp [parseAngleArgs, h]

theorem parseAngleArgs_cons {toks rest : List Tok} {args : Args}
    (h : parseArgs f p toks = some (args, .kw ">" :: rest)) :
    parseAngleArgs (f + 1) p (.kw "<" :: toks) = some (args, rest) := by
  simp [parseAngleArgs, h]

/-! generic arguments -/

theorem parseGArg_lt {toks rest : List Tok} {l : Lt}
    (h1 : isLtStart toks = true) (h2 : parseLt p toks = some (l, rest)) :
    parseGArg (f + 1) p toks = some (.lt l, rest) := by
  simp [parseGArg, h1, h2]

theorem parseGArg_num (n : Nat) (rest : List Tok) :
    parseGArg (f + 1) p (.num n :: rest) = some (.ct (.val n), rest) := by
  simp [parseGArg, isLtStart]

theorem parseGArg_var_ct (s : St) (v : Nat × Nat) {d i : Nat} (rest : List Tok)
    (h : p.varOf (s.varTok v) = some (d, i)) (hk : kindAt p.env d i = some .ct) :
    parseGArg (f + 1) p (s.varTok v :: rest) = some (.ct (.bound d i), rest) := by
  rcases varTok_cases s v with e | ⟨a, b, e⟩
  · rw [e] at h ⊢; simp [parseGArg, isLtStart, h, hk]
  · rw [e] at h ⊢; simp [parseGArg, isLtStart, h, hk]

theorem parseGArg_var_ty (s : St) (v : Nat × Nat) {d i : Nat} (rest : List Tok)
    (h : p.varOf (s.varTok v) = some (d, i)) (hk : kindAt p.env d i = some .ty) :
    parseGArg (f + 1) p (s.varTok v :: rest) = some (.ty (.bound d i), rest) := by
  rcases varTok_cases s v with e | ⟨a, b, e⟩
  · rw [e] at h ⊢; simp [parseGArg, isLtStart, h, hk]
  · rw [e] at h ⊢; simp [parseGArg, isLtStart, h, hk]

theorem parseGArg_ty {tok : Tok} {tl rest : List Tok} {t : Ty}
    (hh : tyHead tok = true) (h1 : isLtStart (tok :: tl) = false)
    (ht : parseTy f p (tok :: tl) = some (t, rest)) :
    parseGArg (f + 1) p (tok :: tl) = some (.ty t, rest) := by
  cases tok with
  | kw w => simp [parseGArg, h1, PSt.varOf, ht]
  | name n => simp [parseGArg, h1, PSt.varOf, ht]
  | _ => simp [tyHead] at hh

/-! trait tails, bounds -/

theorem parseTraitTail_nil {toks : List Tok} (h : ∀ r, toks ≠ .kw "<" :: r) :
    parseTraitTail (f + 1) p toks = some (.plain .nil, toks) := by
  simp [parseTraitTail, h]

theorem parseTraitTail_plain {toks rest : List Tok} {args : Args}
    (h : parseArgs f p toks = some (args, .kw ">" :: rest)) :
    parseTraitTail (f + 1) p (.kw "<" :: toks) = some (.plain args, rest) := by
  simp [parseTraitTail, h]

theorem parseTraitTail_assoc {toks r1 r2 : List Tok} {args targs aargs : Args} {assoc : String} {v : Ty}
    (h : parseArgs f p toks = some (args, .kw "=" :: r1))
    (hu : unsnocArgs args = some (targs, .ty (.adt assoc aargs)))
    (hv : parseTy f p r1 = some (v, .kw ">" :: r2)) :
    parseTraitTail (f + 1) p (.kw "<" :: toks) = some (.assoc targs assoc aargs v, r2) := by
  simp [parseTraitTail, h, hu, hv]

theorem parseBound_trait {toks rest rest' : List Tok} {ks : List VK} {tr : String} {args : Args}
    (h1 : parseForall f toks = some (ks, .name tr :: rest))
    (h2 : parseTraitTail f (p.deeper ks none) rest = some (.plain args, rest')) :
    parseBound (f + 1) p toks = some (.trait ks tr args, rest') := by
  simp [parseBound, h1, h2]

theorem parseBound_aliasEq {toks rest rest' : List Tok} {ks : List VK} {tr assoc : String} {targs aargs : Args} {v : Ty}
    (h1 : parseForall f toks = some (ks, .name tr :: rest))
    (h2 : parseTraitTail f (p.deeper ks none) rest = some (.assoc targs assoc aargs v, rest')) :
    parseBound (f + 1) p toks = some (.aliasEq ks tr assoc targs aargs v, rest') := by
  simp [parseBound, h1, h2]

theorem parseBounds_last {toks rest : List Tok} {b : Bound}
    (hb : parseBound f p toks = some (b, rest))
    (h : ∀ r, rest = .kw "+" :: r → isLtStart r = true) :
    parseBounds (f + 1) p toks = some (.cons b .nil, rest) := by
  simp only [parseBounds, hb]
  split
  · rename_i b' r heq
    simp at heq
    obtain ⟨rfl, rfl⟩ := heq
    simp [h r rfl]
  · rename_i b' r hno heq
    simp at heq
    obtain ⟨rfl, rfl⟩ := heq
    rfl
  · rename_i heq; simp at heq

theorem parseBounds_more {toks rest rest' : List Tok} {b : Bound} {bs : Bounds}
    (hb : parseBound f p toks = some (b, .kw "+" :: rest))
    (h : isLtStart rest = false)
    (hbs : parseBounds f p rest = some (bs, rest')) :
    parseBounds (f + 1) p toks = some (.cons b bs, rest') := by
  simp [parseBounds, hb, h, hbs]

end Chalk.Display.Parse
