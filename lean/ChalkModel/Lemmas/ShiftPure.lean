import ChalkModel.Lemmas.SubstLemmas

/-! A pure description of what `Shifter` computes (it never fails), used to state and prove
    commutation laws as plain equations. -/
namespace Chalk

def Lifetime.shift (k c : Nat) : Lifetime → Lifetime
  | .bound db idx => if c ≤ db then .bound (db + k) idx else .bound db idx
  | l => l

mutual
  def Ty.shift (k c : Nat) : Ty → Ty
    | .app n args => .app n (args.shift k c)
    | .scalar s => .scalar s | .str => .str | .never => .never | .foreign id => .foreign id | .error => .error
    | .array t cn => .array (t.shift k c) (cn.shift k c)
    | .slice t => .slice (t.shift k c)
    | .raw m t => .raw m (t.shift k c)
    | .ref m l t => .ref m (l.shift k c) (t.shift k c)
    | .placeholder ui idx => .placeholder ui idx
    | .dyn ks bounds l => .dyn ks (bounds.shift k (c + 1)) (l.shift k c)
    | .proj id args => .proj id (args.shift k c)
    | .opaque id args => .opaque id (args.shift k c)
    | .function nb sig args => .function nb sig (args.shift k (c + 1))
    | .bound db idx => if c ≤ db then .bound (db + k) idx else .bound db idx
    | .infer v kd => .infer v kd
  def Const.shift (k c : Nat) : Const → Const
    | .mk ty (.bound db idx) => if c ≤ db then .mk ty (.bound (db + k) idx) else .mk ty (.bound db idx)
    | .mk ty v => .mk (ty.shift k c) v
  def GArg.shift (k c : Nat) : GArg → GArg
    | .ty t => .ty (t.shift k c)
    | .lt l => .lt (l.shift k c)
    | .ct cn => .ct (cn.shift k c)
  def Args.shift (k c : Nat) : Args → Args
    | .nil => .nil
    | .cons a as => .cons (a.shift k c) (as.shift k c)
  def WC.shift (k c : Nat) : WC → WC
    | .implemented tr args => .implemented tr (args.shift k c)
    | .aliasEqProj id args ty => .aliasEqProj id (args.shift k c) (ty.shift k c)
    | .aliasEqOpaque id args ty => .aliasEqOpaque id (args.shift k c) (ty.shift k c)
    | .ltOutlives a b => .ltOutlives (a.shift k c) (b.shift k c)
    | .tyOutlives t l => .tyOutlives (t.shift k c) (l.shift k c)
  def QWC.shift (k c : Nat) : QWC → QWC
    | .mk ks wc => .mk ks (wc.shift k (c + 1))
  def QWCs.shift (k c : Nat) : QWCs → QWCs
    | .nil => .nil
    | .cons q qs => .cons (q.shift k c) (qs.shift k c)
end

theorem foldLifetime_shifter (k c : Nat) (l : Lifetime) :
    foldLifetime (shifter k) c l = .ok (l.shift k c) := by
  cases l <;> simp [foldLifetime, shifter, Lifetime.shift]
  case bound db idx => split <;> simp; omega

mutual
  theorem foldTy_shifter (k c : Nat) : (t : Ty) → foldTy (shifter k) c t = .ok (t.shift k c)
    | .app n args => by simp [foldTy, Ty.shift, foldArgs_shifter k c args]
    | .scalar s => by simp [foldTy, Ty.shift]
    | .str => by simp [foldTy, Ty.shift]
    | .never => by simp [foldTy, Ty.shift]
    | .foreign id => by simp [foldTy, Ty.shift]
    | .error => by simp [foldTy, Ty.shift]
    | .array t cn => by simp [foldTy, Ty.shift, foldTy_shifter k c t, foldConst_shifter k c cn]
    | .slice t => by simp [foldTy, Ty.shift, foldTy_shifter k c t]
    | .raw m t => by simp [foldTy, Ty.shift, foldTy_shifter k c t]
    | .ref m l t => by simp [foldTy, Ty.shift, foldTy_shifter k c t, foldLifetime_shifter]
    | .placeholder ui idx => by simp [foldTy, Ty.shift, shifter]
    | .dyn ks bounds l => by simp [foldTy, Ty.shift, foldQWCs_shifter k (c+1) bounds, foldLifetime_shifter]
    | .proj id args => by simp [foldTy, Ty.shift, foldArgs_shifter k c args]
    | .opaque id args => by simp [foldTy, Ty.shift, foldArgs_shifter k c args]
    | .function nb sig args => by simp [foldTy, Ty.shift, foldArgs_shifter k (c+1) args]
    | .bound db idx => by
        simp [foldTy, Ty.shift, shifter]; split <;> simp; omega
    | .infer v kd => by simp [foldTy, Ty.shift, shifter]
  theorem foldConst_shifter (k c : Nat) : (cn : Const) → foldConst (shifter k) c cn = .ok (cn.shift k c)
    | .mk ty (.bound db idx) => by
        simp [foldConst, Const.shift, shifter]; split <;> simp; omega
    | .mk ty (.infer v) => by
        have := foldTy_shifter k c ty
        simp [foldConst, Const.shift, shifter] at *; simp [this]
    | .mk ty (.placeholder ui idx) => by
        have := foldTy_shifter k c ty
        simp [foldConst, Const.shift, shifter] at *; simp [this]
    | .mk ty (.concrete v) => by simp [foldConst, Const.shift, foldTy_shifter k c ty]
  theorem foldGArg_shifter (k c : Nat) : (a : GArg) → foldGArg (shifter k) c a = .ok (a.shift k c)
    | .ty t => by simp [foldGArg, GArg.shift, foldTy_shifter k c t]
    | .lt l => by simp [foldGArg, GArg.shift, foldLifetime_shifter]
    | .ct cn => by simp [foldGArg, GArg.shift, foldConst_shifter k c cn]
  theorem foldArgs_shifter (k c : Nat) : (a : Args) → foldArgs (shifter k) c a = .ok (a.shift k c)
    | .nil => by simp [foldArgs, Args.shift]
    | .cons a as => by simp [foldArgs, Args.shift, foldGArg_shifter k c a, foldArgs_shifter k c as]
  theorem foldWC_shifter (k c : Nat) : (w : WC) → foldWC (shifter k) c w = .ok (w.shift k c)
    | .implemented tr args => by simp [foldWC, WC.shift, foldArgs_shifter k c args]
    | .aliasEqProj id args ty => by simp [foldWC, WC.shift, foldArgs_shifter k c args, foldTy_shifter k c ty]
    | .aliasEqOpaque id args ty => by simp [foldWC, WC.shift, foldArgs_shifter k c args, foldTy_shifter k c ty]
    | .ltOutlives a b => by simp [foldWC, WC.shift, foldLifetime_shifter]
    | .tyOutlives t l => by simp [foldWC, WC.shift, foldTy_shifter k c t, foldLifetime_shifter]
  theorem foldQWC_shifter (k c : Nat) : (q : QWC) → foldQWC (shifter k) c q = .ok (q.shift k c)
    | .mk ks wc => by simp [foldQWC, QWC.shift, foldWC_shifter k (c+1) wc]
  theorem foldQWCs_shifter (k c : Nat) : (q : QWCs) → foldQWCs (shifter k) c q = .ok (q.shift k c)
    | .nil => by simp [foldQWCs, QWCs.shift]
    | .cons q qs => by simp [foldQWCs, QWCs.shift, foldQWC_shifter k c q, foldQWCs_shifter k c qs]
end

/-! ### shifts commute: `(t.shift o c).shift k (o + c) = (t.shift k c).shift o c` -/

theorem Lifetime.shift_shift (k o c : Nat) (l : Lifetime) :
    (l.shift o c).shift k (o + c) = (l.shift k c).shift o c := by
  cases l <;> simp [Lifetime.shift]
  case bound db idx =>
    by_cases h : c ≤ db
    · have h1 : o + c ≤ db + o := by omega
      have h2 : c ≤ db + k := by omega
      simp [h, Lifetime.shift, h1, h2]; omega
    · have h1 : ¬ (o + c ≤ db) := by omega
      simp [h, Lifetime.shift, h1]

mutual
  theorem Ty.shift_shift (k o c : Nat) : (t : Ty) → (t.shift o c).shift k (o + c) = (t.shift k c).shift o c
    | .app n args => by simp [Ty.shift, Args.shift_shift k o c args]
    | .scalar s => by simp [Ty.shift]
    | .str => by simp [Ty.shift]
    | .never => by simp [Ty.shift]
    | .foreign id => by simp [Ty.shift]
    | .error => by simp [Ty.shift]
    | .array t cn => by simp [Ty.shift, Ty.shift_shift k o c t, Const.shift_shift k o c cn]
    | .slice t => by simp [Ty.shift, Ty.shift_shift k o c t]
    | .raw m t => by simp [Ty.shift, Ty.shift_shift k o c t]
    | .ref m l t => by simp [Ty.shift, Ty.shift_shift k o c t, Lifetime.shift_shift]
    | .placeholder ui idx => by simp [Ty.shift]
    | .dyn ks bounds l => by
        have := QWCs.shift_shift k o (c+1) bounds
        simp [Ty.shift, Lifetime.shift_shift, ← Nat.add_assoc] at *; exact this
    | .proj id args => by simp [Ty.shift, Args.shift_shift k o c args]
    | .opaque id args => by simp [Ty.shift, Args.shift_shift k o c args]
    | .function nb sig args => by
        have := Args.shift_shift k o (c+1) args
        simp [Ty.shift, ← Nat.add_assoc] at *; exact this
    | .bound db idx => by
        by_cases h : c ≤ db
        · have h1 : o + c ≤ db + o := by omega
          have h2 : c ≤ db + k := by omega
          simp [h, Ty.shift, h1, h2]; omega
        · have h1 : ¬ (o + c ≤ db) := by omega
          simp [h, Ty.shift, h1]
    | .infer v kd => by simp [Ty.shift]
  theorem Const.shift_shift (k o c : Nat) : (cn : Const) → (cn.shift o c).shift k (o + c) = (cn.shift k c).shift o c
    | .mk ty (.bound db idx) => by
        by_cases h : c ≤ db
        · have h1 : o + c ≤ db + o := by omega
          have h2 : c ≤ db + k := by omega
          simp [h, Const.shift, h1, h2]; omega
        · have h1 : ¬ (o + c ≤ db) := by omega
          simp [h, Const.shift, h1]
    | .mk ty (.infer v) => by simp [Const.shift, Ty.shift_shift k o c ty]
    | .mk ty (.placeholder ui idx) => by simp [Const.shift, Ty.shift_shift k o c ty]
    | .mk ty (.concrete v) => by simp [Const.shift, Ty.shift_shift k o c ty]
  theorem GArg.shift_shift (k o c : Nat) : (a : GArg) → (a.shift o c).shift k (o + c) = (a.shift k c).shift o c
    | .ty t => by simp [GArg.shift, Ty.shift_shift k o c t]
    | .lt l => by simp [GArg.shift, Lifetime.shift_shift]
    | .ct cn => by simp [GArg.shift, Const.shift_shift k o c cn]
  theorem Args.shift_shift (k o c : Nat) : (a : Args) → (a.shift o c).shift k (o + c) = (a.shift k c).shift o c
    | .nil => by simp [Args.shift]
    | .cons a as => by simp [Args.shift, GArg.shift_shift k o c a, Args.shift_shift k o c as]
  theorem WC.shift_shift (k o c : Nat) : (w : WC) → (w.shift o c).shift k (o + c) = (w.shift k c).shift o c
    | .implemented tr args => by simp [WC.shift, Args.shift_shift k o c args]
    | .aliasEqProj id args ty => by simp [WC.shift, Args.shift_shift k o c args, Ty.shift_shift k o c ty]
    | .aliasEqOpaque id args ty => by simp [WC.shift, Args.shift_shift k o c args, Ty.shift_shift k o c ty]
    | .ltOutlives a b => by simp [WC.shift, Lifetime.shift_shift]
    | .tyOutlives t l => by simp [WC.shift, Ty.shift_shift k o c t, Lifetime.shift_shift]
  theorem QWC.shift_shift (k o c : Nat) : (q : QWC) → (q.shift o c).shift k (o + c) = (q.shift k c).shift o c
    | .mk ks wc => by
        have := WC.shift_shift k o (c+1) wc
        simp [QWC.shift, ← Nat.add_assoc] at *; exact this
  theorem QWCs.shift_shift (k o c : Nat) : (q : QWCs) → (q.shift o c).shift k (o + c) = (q.shift k c).shift o c
    | .nil => by simp [QWCs.shift]
    | .cons q qs => by simp [QWCs.shift, QWC.shift_shift k o c q, QWCs.shift_shift k o c qs]
end

end Chalk
