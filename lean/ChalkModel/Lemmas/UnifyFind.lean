/-
  Layer 1 of the unifier soundness proof: the union-find forest of `Infer.lean`.
  `find` reaches a root with fuel `parent.length` on well-formed tables; effect of `newVariable`,
  `unifyVarValue`, `unifyVarVar` on `find`, `probeVar`, `Table.WF`.
-/
import ChalkModel.Lemmas.UnifyDefs

namespace Chalk

/-! ## list helpers -/

theorem getD_set_eq {α} (l : List α) (i : Nat) (x d : α) (h : i < l.length) :
    (l.set i x).getD i d = x := by
  simp [List.getD_eq_getElem?_getD, h]

theorem getD_set_ne {α} (l : List α) (i j : Nat) (x d : α) (h : i ≠ j) :
    (l.set i x).getD j d = l.getD j d := by
  simp [List.getD_eq_getElem?_getD, h]

theorem getD_append_lt {α} (l : List α) (i : Nat) (x d : α) (h : i < l.length) :
    (l ++ [x]).getD i d = l.getD i d := by
  simp [List.getD_eq_getElem?_getD, List.getElem?_append, h]

theorem getD_append_len {α} (l : List α) (x d : α) :
    (l ++ [x]).getD l.length d = x := by
  simp [List.getD_eq_getElem?_getD]

theorem getD_of_le {α} (l : List α) (i : Nat) (d : α) (h : l.length ≤ i) : l.getD i d = d := by
  simp [List.getD_eq_getElem?_getD, h]

theorem getD_mem {α} (l : List α) (i : Nat) (d : α) (h : i < l.length) : l.getD i d ∈ l := by
  simp [List.getD_eq_getElem?_getD, h]

theorem countP_lt_of {α} (p q : α → Bool) :
    ∀ (l : List α), (∀ x, x ∈ l → p x = true → q x = true) →
      (∃ x, x ∈ l ∧ q x = true ∧ p x = false) → l.countP p < l.countP q
  | [], _, h => by obtain ⟨x, hx, _⟩ := h; simp at hx
  | a :: l, hpq, ⟨x, hx, hqx, hpx⟩ => by
      have hmono : l.countP p ≤ l.countP q :=
        List.countP_mono_left (fun y hy => hpq y (List.mem_cons_of_mem _ hy))
      rcases List.mem_cons.mp hx with rfl | hxl
      · simp [hqx, hpx]; omega
      · have ih := countP_lt_of p q l (fun y hy => hpq y (List.mem_cons_of_mem _ hy)) ⟨x, hxl, hqx, hpx⟩
        have ha := hpq a (List.mem_cons_self ..)
        simp only [List.countP_cons]
        cases hpa : p a
        · simp; split <;> omega
        · simp [ha hpa]; omega

/-! ## `findFuel` -/

def Table.isRoot (t : Table) (v : Nat) : Prop := t.parent.getD v v = v

theorem Table.findFuel_step (t : Table) (k v : Nat) (h : ¬ t.isRoot v) :
    t.findFuel (k + 1) v = t.findFuel k (t.parent.getD v v) := by
  show (if t.parent.getD v v = v then v else t.findFuel k (t.parent.getD v v)) = _
  exact if_neg h

theorem Table.findFuel_of_root (t : Table) (k v : Nat) (h : t.isRoot v) : t.findFuel k v = v := by
  cases k with
  | zero => rfl
  | succ k =>
    show (if t.parent.getD v v = v then v else t.findFuel k (t.parent.getD v v)) = _
    exact if_pos h

theorem Table.findFuel_succ_of_root (t : Table) :
    ∀ (k v : Nat), t.isRoot (t.findFuel k v) → t.findFuel (k + 1) v = t.findFuel k v := by
  intro k
  induction k with
  | zero => intro v h; exact t.findFuel_of_root 1 v h
  | succ k ih =>
    intro v h
    by_cases hp : t.parent.getD v v = v
    · rw [t.findFuel_of_root _ v hp, t.findFuel_of_root _ v hp]
    · have e1 := t.findFuel_step k v hp
      have e2 := t.findFuel_step (k + 1) v hp
      rw [e2, e1]; rw [e1] at h; exact ih _ h

theorem Table.findFuel_congr (t t' : Table) (h : t.parent = t'.parent) :
    ∀ (k v : Nat), t.findFuel k v = t'.findFuel k v := by
  intro k
  induction k with
  | zero => intro v; rfl
  | succ k ih =>
    intro v
    show (if t.parent.getD v v = v then v else t.findFuel k (t.parent.getD v v)) =
      (if t'.parent.getD v v = v then v else t'.findFuel k (t'.parent.getD v v))
    rw [h, ih]

theorem Table.find_congr (t t' : Table) (h : t.parent = t'.parent) (v : Nat) :
    t.find v = t'.find v := by
  simp [Table.find, h, t.findFuel_congr t' h]

/-- number of variables of rank above `r` -/
def Table.above (t : Table) (r : Nat) : Nat := t.rank.countP (fun x => decide (r < x))

theorem Table.above_le (t : Table) (r : Nat) : t.above r ≤ t.rank.length := List.countP_le_length

theorem Table.above_parent_lt (t : Table) (hwf : t.WF) (v : Nat) (hv : v < t.parent.length)
    (hnr : ¬ t.isRoot v) :
    t.above (t.rank.getD (t.parent.getD v v) 0) < t.above (t.rank.getD v 0) := by
  have hlt := hwf.rankInc v hv hnr
  have hp := hwf.parentLt v hv
  apply countP_lt_of
  · intro x _ hx; simp only [decide_eq_true_eq] at hx ⊢; omega
  · refine ⟨t.rank.getD (t.parent.getD v v) 0, getD_mem _ _ _ (by rw [hwf.lenRank]; exact hp), ?_, ?_⟩
    · simp only [decide_eq_true_eq]; exact hlt
    · simp only [decide_eq_false_iff_not]; omega

theorem Table.findFuel_reaches (t : Table) (hwf : t.WF) :
    ∀ (k v : Nat), v < t.parent.length → t.above (t.rank.getD v 0) ≤ k →
      t.findFuel k v < t.parent.length ∧ t.isRoot (t.findFuel k v) := by
  intro k
  induction k with
  | zero =>
    intro v hv hk
    by_cases hr : t.isRoot v
    · exact ⟨hv, hr⟩
    · have := t.above_parent_lt hwf v hv hr; omega
  | succ k ih =>
    intro v hv hk
    by_cases hr : t.isRoot v
    · rw [t.findFuel_of_root _ v hr]; exact ⟨hv, hr⟩
    · have hlt := t.above_parent_lt hwf v hv hr
      have e := t.findFuel_step k v hr
      rw [e]
      exact ih _ (hwf.parentLt v hv) (by omega)

theorem Table.find_lt (t : Table) (hwf : t.WF) (v : Nat) (hv : v < t.numVars) :
    t.find v < t.numVars :=
  (t.findFuel_reaches hwf _ v hv (by have := t.above_le (t.rank.getD v 0); rw [hwf.lenRank] at this; exact this)).1

theorem Table.find_isRoot (t : Table) (hwf : t.WF) (v : Nat) (hv : v < t.numVars) :
    t.isRoot (t.find v) :=
  (t.findFuel_reaches hwf _ v hv (by have := t.above_le (t.rank.getD v 0); rw [hwf.lenRank] at this; exact this)).2

theorem Table.find_of_root (t : Table) (v : Nat) (h : t.isRoot v) : t.find v = v :=
  t.findFuel_of_root _ v h

theorem Table.find_find (t : Table) (hwf : t.WF) (v : Nat) (hv : v < t.numVars) :
    t.find (t.find v) = t.find v :=
  t.find_of_root _ (t.find_isRoot hwf v hv)

theorem Table.find_parent (t : Table) (hwf : t.WF) (v : Nat) (hv : v < t.numVars) :
    t.find (t.parent.getD v v) = t.find v := by
  by_cases hr : t.isRoot v
  · have : t.parent.getD v v = v := hr
    rw [this]
  · have hlt := t.above_parent_lt hwf v hv hr
    have hle := t.above_le (t.rank.getD v 0)
    rw [hwf.lenRank] at hle
    unfold Table.numVars at hv
    unfold Table.find
    obtain ⟨m, hm⟩ : ∃ m, t.parent.length = m + 1 := ⟨t.parent.length - 1, by omega⟩
    rw [hm]
    have e := t.findFuel_step m v hr
    rw [e]
    exact t.findFuel_succ_of_root m _ (t.findFuel_reaches hwf m _ (hwf.parentLt v hv) (by omega)).2

/-- induction along parent chains -/
theorem Table.find_induct (t : Table) (hwf : t.WF) (P : Nat → Nat → Prop)
    (hroot : ∀ v, v < t.numVars → t.isRoot v → P v v)
    (hstep : ∀ v r, v < t.numVars → ¬ t.isRoot v → P (t.parent.getD v v) r → P v r) :
    ∀ v, v < t.numVars → P v (t.find v) := by
  have key : ∀ (k v : Nat), v < t.numVars → t.isRoot (t.findFuel k v) → P v (t.findFuel k v) := by
    intro k
    induction k with
    | zero => intro v hv hr; exact hroot v hv hr
    | succ k ih =>
      intro v hv hr
      by_cases hrv : t.isRoot v
      · rw [t.findFuel_of_root _ v hrv]; exact hroot v hv hrv
      · have e := t.findFuel_step k v hrv
        rw [e] at hr ⊢
        exact hstep v _ hv hrv (ih _ (hwf.parentLt v hv) hr)
  intro v hv
  exact key _ v hv (t.find_isRoot hwf v hv)

/-! ## values -/

def InferValue.toOpt : InferValue → Option GArg
  | .unbound _ => none
  | .bound g => some g

theorem Table.probeVar_eq (t : Table) (v : Nat) :
    t.probeVar v = (t.value.getD (t.find v) (.unbound 0)).toOpt := by
  unfold Table.probeVar Table.probeValue
  split <;> rename_i h <;> rw [h] <;> rfl

theorem unifyValues_spec (x y z : InferValue) (h : unifyValues x y = .ok z) :
    (∀ g, x.toOpt = some g → z.toOpt = some g) ∧ (∀ g, y.toOpt = some g → z.toOpt = some g) ∧
    (∀ g, z.toOpt = some g → x.toOpt = some g ∨ y.toOpt = some g) ∧
    (x.toOpt = none ∨ y.toOpt = none) := by
  cases x <;> cases y <;> simp [unifyValues] at h <;> subst h <;> simp [InferValue.toOpt]

/-! ## `newVariable` -/

theorem Table.newVariable_numVars (t : Table) (ui : Nat) :
    (t.newVariable ui).1.numVars = t.numVars + 1 := by
  simp [Table.newVariable, Table.numVars]

theorem Table.newVariable_snd (t : Table) (ui : Nat) : (t.newVariable ui).2 = t.numVars := rfl

theorem Table.newVariable_maxUniverse (t : Table) (ui : Nat) :
    (t.newVariable ui).1.maxUniverse = t.maxUniverse := rfl

theorem Table.newVariable_parent_old (t : Table) (ui v : Nat) (hv : v < t.numVars) :
    (t.newVariable ui).1.parent.getD v v = t.parent.getD v v :=
  getD_append_lt _ _ _ _ hv

theorem Table.newVariable_WF (t : Table) (ui : Nat) (h : t.WF) : (t.newVariable ui).1.WF := by
  refine ⟨?_, ?_, ?_, ?_⟩
  · simp [Table.newVariable, h.lenRank]
  · simp [Table.newVariable, h.lenValue]
  · intro v hv
    show (t.parent ++ [t.parent.length]).getD v v < (t.parent ++ [t.parent.length]).length
    have hlen : (t.parent ++ [t.parent.length]).length = t.parent.length + 1 := by simp
    rw [hlen]
    have hv' : v < t.parent.length + 1 := by rw [← hlen]; exact hv
    by_cases hlt : v < t.parent.length
    · rw [getD_append_lt _ _ _ _ hlt]; have := h.parentLt v hlt; omega
    · have : v = t.parent.length := by omega
      subst this; rw [getD_append_len]; omega
  · intro v hv hne
    have hlen : (t.parent ++ [t.parent.length]).length = t.parent.length + 1 := by simp
    have hv' : v < t.parent.length + 1 := by rw [← hlen]; exact hv
    show (t.rank ++ [0]).getD v 0 < (t.rank ++ [0]).getD ((t.parent ++ [t.parent.length]).getD v v) 0
    have hne' : (t.parent ++ [t.parent.length]).getD v v ≠ v := hne
    by_cases hlt : v < t.parent.length
    · rw [getD_append_lt _ _ _ _ hlt] at hne' ⊢
      have hp := h.parentLt v hlt
      rw [getD_append_lt _ _ _ _ (by rw [h.lenRank]; exact hlt),
          getD_append_lt _ _ _ _ (by rw [h.lenRank]; exact hp)]
      exact h.rankInc v hlt hne'
    · have : v = t.parent.length := by omega
      subst this; rw [getD_append_len] at hne'; exact absurd rfl hne'

theorem Table.newVariable_find_old (t : Table) (ui : Nat) (h : t.WF) :
    ∀ v, v < t.numVars → (t.newVariable ui).1.find v = t.find v := by
  have hwf' := t.newVariable_WF ui h
  refine t.find_induct h (fun v r => (t.newVariable ui).1.find v = r) ?_ ?_
  · intro v hv hr
    apply Table.find_of_root
    show (t.newVariable ui).1.parent.getD v v = v
    rw [t.newVariable_parent_old ui v hv]; exact hr
  · intro v r hv _ ih
    have hv' : v < (t.newVariable ui).1.numVars := by rw [t.newVariable_numVars]; omega
    rw [← (t.newVariable ui).1.find_parent hwf' v hv', t.newVariable_parent_old ui v hv]
    exact ih

theorem Table.newVariable_find_new (t : Table) (ui : Nat) :
    (t.newVariable ui).1.find t.numVars = t.numVars := by
  apply Table.find_of_root
  show (t.parent ++ [t.parent.length]).getD t.parent.length t.parent.length = t.parent.length
  rw [getD_append_len]

theorem Table.newVariable_probeVar_old (t : Table) (ui : Nat) (h : t.WF) (v : Nat) (hv : v < t.numVars) :
    (t.newVariable ui).1.probeVar v = t.probeVar v := by
  rw [Table.probeVar_eq, Table.probeVar_eq, t.newVariable_find_old ui h v hv]
  have := t.find_lt h v hv
  show ((t.value ++ [InferValue.unbound ui]).getD (t.find v) (.unbound 0)).toOpt = _
  rw [getD_append_lt _ _ _ _ (by rw [h.lenValue]; exact this)]

theorem Table.newVariable_probeVar_new (t : Table) (ui : Nat) (h : t.WF) :
    (t.newVariable ui).1.probeVar t.numVars = none := by
  rw [Table.probeVar_eq, t.newVariable_find_new ui]
  show ((t.value ++ [InferValue.unbound ui]).getD t.parent.length (.unbound 0)).toOpt = _
  rw [← h.lenValue, getD_append_len]; rfl

/-! ## linking two roots (`unifyVarVar`) -/

theorem Table.link_spec (t t' : Table) (ra rb : Nat) (hwf : t.WF)
    (hra : ra < t.numVars) (hrb : rb < t.numVars) (rra : t.isRoot ra) (rrb : t.isRoot rb)
    (hne : ra ≠ rb)
    (hp : t'.parent = t.parent.set ra rb) (hrl : t'.rank.length = t.rank.length)
    (hr : ∀ v, v ≠ rb → t'.rank.getD v 0 = t.rank.getD v 0)
    (hrb1 : t.rank.getD rb 0 ≤ t'.rank.getD rb 0) (hrb2 : t.rank.getD ra 0 < t'.rank.getD rb 0)
    (hvl : t'.value.length = t.value.length) :
    t'.WF ∧ ∀ v, v < t.numVars → t'.find v = if t.find v = ra then rb else t.find v := by
  have hlen : t'.parent.length = t.parent.length := by rw [hp]; simp
  have hpa : t'.parent.getD ra ra = rb := by rw [hp]; exact getD_set_eq _ _ _ _ hra
  have hpo : ∀ v, v ≠ ra → t'.parent.getD v v = t.parent.getD v v := by
    intro v hv; rw [hp]; exact getD_set_ne _ _ _ _ _ (Ne.symm hv)
  have hwf' : t'.WF := by
    refine ⟨by rw [hrl, hlen, hwf.lenRank], by rw [hvl, hlen, hwf.lenValue], ?_, ?_⟩
    · intro v hv
      rw [hlen] at hv ⊢
      by_cases hva : v = ra
      · subst hva; rw [hpa]; exact hrb
      · rw [hpo v hva]; exact hwf.parentLt v hv
    · intro v hv hnr
      rw [hlen] at hv
      by_cases hva : v = ra
      · subst hva; rw [hpa, hr v hne]; exact hrb2
      · rw [hpo v hva] at hnr ⊢
        have hvb : v ≠ rb := by intro e; subst e; exact hnr rrb
        rw [hr v hvb]
        have := hwf.rankInc v hv hnr
        by_cases hpb : t.parent.getD v v = rb
        · rw [hpb] at this ⊢; omega
        · rw [hr _ hpb]; exact this
  refine ⟨hwf', ?_⟩
  have hnum : t'.numVars = t.numVars := hlen
  have hrb' : t'.find rb = rb := by
    apply Table.find_of_root
    show t'.parent.getD rb rb = rb
    rw [hpo rb (Ne.symm hne)]; exact rrb
  refine t.find_induct hwf (fun v r => t'.find v = if r = ra then rb else r) ?_ ?_
  · intro v hv hroot
    by_cases hva : v = ra
    · subst hva
      rw [if_pos rfl, ← t'.find_parent hwf' v (by rw [hnum]; exact hv), hpa]; exact hrb'
    · rw [if_neg hva]
      apply Table.find_of_root
      show t'.parent.getD v v = v
      rw [hpo v hva]; exact hroot
  · intro v r hv hnr ih
    have hva : v ≠ ra := by intro e; subst e; exact hnr rra
    rw [← t'.find_parent hwf' v (by rw [hnum]; exact hv), hpo v hva]; exact ih

end Chalk
