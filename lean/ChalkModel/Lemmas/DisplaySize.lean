/-
  C22: the fuel measures are bounded by the number of printed tokens.
-/
import ChalkModel.Lemmas.DisplayLemmas

set_option linter.unusedSimpArgs false
set_option linter.unusedVariables false

namespace Chalk.Display.Parse
open Chalk.Display

theorem sepBy_length_ge (sep : List Tok) : ∀ (xs : List (List Tok)), (∀ x ∈ xs, 1 ≤ x.length) →
    xs.length ≤ (sepBy sep xs).length
  | [], _ => by simp [sepBy]
  | [x], h => by simpa [sepBy] using h x (by simp)
  | x :: y :: zs, h => by
      rw [sepBy_cons_cons]
      have h1 := sepBy_length_ge sep (y :: zs) (fun z hz => h z (by simp [hz]))
      have h2 := h x (by simp)
      simp only [List.length_append, List.length_cons] at *
      omega

theorem binderNamesFrom_length (s : St) : ∀ (ks : List VK) (i : Nat), (s.binderNamesFrom i ks).length = ks.length
  | [], _ => rfl
  | k :: ks, i => by rw [binderNamesFrom_cons]; simp [binderNamesFrom_length s ks (i + 1)]

theorem binderNamesFrom_pos (s : St) : ∀ (ks : List VK) (i : Nat), ∀ x ∈ s.binderNamesFrom i ks, 1 ≤ x.length
  | [], _, x, h => by simp [St.binderNamesFrom] at h
  | k :: ks, i, x, h => by
      rw [binderNamesFrom_cons] at h
      rcases List.mem_cons.1 h with rfl | h
      · cases k <;> simp [binderTok]
      · exact binderNamesFrom_pos s ks (i + 1) x h

theorem sepBy_binders_length (s : St) (ks : List VK) (i : Nat) :
    ks.length ≤ (sepBy comma (s.binderNamesFrom i ks)).length := by
  have := sepBy_length_ge comma (s.binderNamesFrom i ks) (binderNamesFrom_pos s ks i)
  rwa [binderNamesFrom_length] at this

theorem forallToks_length_ge (s : St) (ks : List VK) : ks.length ≤ (forallToks s ks).length := by
  cases ks with
  | nil => simp
  | cons k ks =>
      have := sepBy_binders_length s (k :: ks) 0
      simp only [forallToks, St.binderNames, List.isEmpty_cons, Bool.false_eq_true, if_false,
        List.length_cons, List.length_append] at *
      omega

theorem fnBinders_length_ge (s : St) (nb : Nat) : nb ≤ (sepBy comma (fnBinderNames s 0 nb)).length := by
  have := sepBy_binders_length s (List.replicate nb .lt) 0
  rwa [← fnBinderNames_eq, List.length_replicate] at this

theorem printLt_length (s : St) (l : Lt) : (printLt s l).length = 1 := by cases l <;> rfl
theorem printCt_length (s : St) (c : Ct) : (printCt s c).length = 1 := by cases c <;> rfl

theorem printArgs_le_tail (s : St) (as : Args) : (printArgs s as).length ≤ (printArgsTail s as).length := by
  cases as with
  | nil => simp [printArgs, printArgsTail]
  | cons a as => rw [printArgsTail_cons]; simp
theorem printTys_le_tail (s : St) (ts : Tys) : (printTys s ts).length ≤ (printTysTail s ts).length := by
  cases ts with
  | nil => simp [printTys, printTysTail]
  | cons a as => rw [printTysTail_cons]; simp
theorem printBounds_le_tail (s : St) (bs : Bounds) : (printBounds s bs).length ≤ (printBoundsTail s bs).length := by
  cases bs with
  | nil => simp [printBounds, printBoundsTail]
  | cons a as => rw [printBoundsTail_cons]; simp

theorem printArgs_le_angle (s : St) (as : Args) : (printArgs s as).length ≤ (printAngleArgs s as).length := by
  cases as with
  | nil => simp [printArgs, printAngleArgs]
  | cons a as => simp [printArgs, printAngleArgs]; omega
theorem printArgs_le_thenComma (s : St) (as : Args) : (printArgs s as).length ≤ (printArgsThenComma s as).length := by
  cases as with
  | nil => simp [printArgs, printArgsThenComma]
  | cons a as => simp [printArgs, printArgsThenComma]

mutual
  theorem szTy_le : (t : Ty) → ∀ (s : St), szTy t + 3 ≤ 8 * (printTy s t).length
    | .adt id args, s => by
        have := szArgs_le args s
        have := printArgs_le_angle s args
        simp only [szTy, printTy, List.length_cons]; omega
    | .scalar sc, s => by simp [szTy, printTy]
    | .tuple ts, s => by
        have := szTys_le ts s
        simp only [szTy, printTy, List.length_cons, List.length_append]; omega
    | .ref m l t, s => by
        have := szTy_le t s
        simp only [szTy, printTy, List.length_cons, List.length_append]; omega
    | .raw m t, s => by
        have := szTy_le t s
        simp only [szTy, printTy, List.length_cons, List.length_append]; omega
    | .slice t, s => by
        have := szTy_le t s
        simp only [szTy, printTy, List.length_cons, List.length_append]; omega
    | .array t c, s => by
        have := szTy_le t s
        simp only [szTy, printTy, List.length_cons, List.length_append]; omega
    | .fnPtr nb args ret, s => by
        have := szTys_le args (s.deeper none)
        have := szTy_le ret (s.deeper none)
        have := fnBinders_length_ge (s.deeper none) nb
        by_cases h : nb = 0
        · simp only [szTy, printTy, h, if_true, List.length_cons, List.length_append, List.length_nil]; omega
        · simp only [szTy, printTy, h, if_false, List.length_cons, List.length_append, List.length_nil]; omega
    | .proj tr assoc self targs aargs, s => by
        have := szTy_le self s
        have := szArgs_le targs s
        have := szArgs_le aargs s
        have := printArgs_le_angle s targs
        have := printArgs_le_angle s aargs
        simp only [szTy, printTy, List.length_cons, List.length_append]; omega
    | .dyn bs l, s => by
        have := szBounds_le bs (s.deeper none)
        simp only [szTy, printTy, List.length_cons, List.length_append]; omega
    | .never, s => by simp [szTy, printTy]
    | .str, s => by simp [szTy, printTy]
    | .bound d i, s => by simp [szTy, printTy]
  theorem szGArg_le : (a : GArg) → ∀ (s : St), szGArg a + 2 ≤ 8 * (printGArg s a).length
    | .ty t, s => by
        have := szTy_le t s
        simp only [szGArg, printGArg]; omega
    | .lt l, s => by simp [szGArg, printGArg, printLt_length]
    | .ct c, s => by simp [szGArg, printGArg, printCt_length]
  theorem szArgs_le : (as : Args) → ∀ (s : St), szArgs as ≤ 8 * (printArgs s as).length
    | .nil, s => by simp [szArgs]
    | .cons a as, s => by
        have := szGArg_le a s
        have := szArgs_le as s
        have := printArgs_le_tail s as
        simp only [szArgs, printArgs, List.length_append]; omega
  theorem szTys_le : (ts : Tys) → ∀ (s : St), szTys ts ≤ 8 * (printTys s ts).length
    | .nil, s => by simp [szTys]
    | .cons t ts, s => by
        have := szTy_le t s
        have := szTys_le ts s
        have := printTys_le_tail s ts
        simp only [szTys, printTys, List.length_append]; omega
  theorem szBound_le : (b : Bound) → ∀ (s : St), szBound b + 6 ≤ 8 * (printBound s b).length
    | .trait ks tr args, s => by
        have := szArgs_le args (s.deeper none)
        have := printArgs_le_angle (s.deeper none) args
        have := forallToks_length_ge (s.deeper none) ks
        simp only [szBound, printBound, List.length_cons, List.length_append]; omega
    | .aliasEq ks tr assoc targs aargs v, s => by
        have := szArgs_le targs (s.deeper none)
        have := szArgs_le aargs (s.deeper none)
        have := szTy_le v (s.deeper none)
        have := printArgs_le_angle (s.deeper none) aargs
        have := printArgs_le_thenComma (s.deeper none) targs
        have := forallToks_length_ge (s.deeper none) ks
        simp only [szBound, printBound, List.length_cons, List.length_append, List.length_nil]; omega
  theorem szBounds_le : (bs : Bounds) → ∀ (s : St), szBounds bs ≤ 8 * (printBounds s bs).length
    | .nil, s => by simp [szBounds]
    | .cons b bs, s => by
        have := szBound_le b s
        have := szBounds_le bs s
        have := printBounds_le_tail s bs
        simp only [szBounds, printBounds, List.length_append]; omega
end

/-- **P1.** parsing a printed type gives the type back -/
theorem parseTyTop_print {p : PSt} (hp : Faithful p) {t : Ty} (hwf : wfTy p.env t = true) :
    parseTyTop p (printTy p.st t) = some t := by
  have hsz := szTy_le t p.st
  have := parseTy_print hp hwf (fuel := fuelFor (printTy p.st t)) (by simp only [fuelFor]; omega)
    (rest := []) (by simp)
  rw [List.append_nil] at this
  simp [parseTyTop, this]

end Chalk.Display.Parse
