/-
  FixedPointMixJ.lean — partial correctness of `solve_goal` (mixed polarities, no mixed cycle).
-/
import ChalkModel.Lemmas.FixedPointMixI
import ChalkModel.Lemmas.FixedPointSemJ

namespace Chalk.FixedPoint.Mix
open Chalk.FixedPoint.Cyc (JE JA MinLe InCache InGraph Def Undef flagAt StackExt stackGoals
  getElem?_lt_length getElem?_prefix headNode mid_cases mid_at Rest Popped setCycle_length setCycle_getElem?_ne
  setCycle_getElem?_eq updateNode_mid finishGoal pushed cacheLookup inCache_iff_lookup keptSt cachedSt
  not_minGe minGe_iff updateFrom_le_left updateFrom_le_right solveGoal_cached solveGoal_hit
  solveGoal_tick_panic solveGoal_overflow solveGoal_new lookup_some lookup_none stackExt_setCycle_true
  drained)

theorem updateFrom_cases (a b : Min) : Min.updateFrom a b = a ∨ Min.updateFrom a b = b := by
  cases a with
  | none => exact Or.inr (by cases b <;> rfl)
  | some x =>
    cases b with
    | none => exact Or.inl rfl
    | some y =>
      simp only [Min.updateFrom]
      rcases Nat.le_total x y with h | h
      · left; exact congrArg some (Nat.min_eq_left h)
      · right; exact congrArg some (Nat.min_eq_right h)

section
variable {inst : Instance} {P : Nat → Prop} {dom : List Nat} {lvl : Nat → Nat} {fx : Bool} {cfg : Cfg}

/-- the bookkeeping of `solve_goal` after the loop -/
theorem finishGoal_sem (h3 : cfg.fixF3 = true) {s0 : St} {g : Nat} {sub : Min} {s3 : St}
    (hp : LoopPost inst P dom lvl fx s0 g sub s3) (m : Min) (v : V) (m' : Min) (s' : St)
    (h : finishGoal cfg m s0.stack.length s0.graph.length sub s3 = .ok (v, m') s') :
    Inv inst P dom lvl fx s' ∧ Step inst P s0 s' m' ∧ MinLe m' m ∧ Fact inst P s0 s' m' g v ∧
      LinkOK lvl s' (lvl g) s0.graph.length m m' := by
  obtain ⟨st', s1, old, cur, new, new3, A, hcase, hg3, hlen3, hget3, R3⟩ := hp
  have hg4 : updateNode (fun n => { n with links := sub, stackDepth := none }) s0.graph.length s3.graph =
      s0.graph ++ (⟨g, cur, none, sub⟩ : Node) :: new3 := by
    rw [hg3, updateNode_mid]
  have hpop : s0.stack.length + 1 = s3.stack.length := hlen3.symm
  simp only [finishGoal, pop, hpop, if_true, hg4, mid_at] at h
  have hlow : cur = botOf inst g → ¬ InG inst P s0 g :=
    fun hb => loop_low A.L A.i1 A.step A.fact g A.L.u0 (Or.inr ⟨rfl, hb⟩)
  have hsget : ∀ i, i < s0.stack.length → s3.stack.dropLast[i]? = s1.stack[i]? := by
    intro i hi
    rw [List.getElem?_dropLast, ← hget3 i hi]
    have : i < s3.stack.length - 1 := by omega
    simp only [this, if_true]
  have hslen : s3.stack.dropLast.length = s0.stack.length := by
    rw [List.length_dropLast]; omega
  have hle : MinLe (Min.updateFrom m sub) m := updateFrom_le_left m sub
  have hfl' : cur ≠ .ambig → ¬ flagAt s1.stack s0.stack.length ∨ old = cur := by
    intro hne
    cases hcase with
    | inl h1 => exact h1.2
    | inr h1 => exact absurd h1.2 hne
  -- the link of the result, for any final graph that keeps the old graph as a prefix
  have hlink : ∀ sF : St, (∃ r, sF.graph = s0.graph ++ r) →
      LinkOK lvl sF (lvl g) s0.graph.length m (Min.updateFrom m sub) := by
    intro sF hpre
    cases updateFrom_cases m sub with
    | inl e => exact Or.inl e
    | inr e =>
      cases A.link with
      | inl e2 =>
        left
        rw [e2]
        cases m <;> rfl
      | inr e2 =>
        obtain ⟨l, e3, hex⟩ := e2
        refine Or.inr ⟨l, by rw [e, e3], fun hlt => ?_⟩
        obtain ⟨n', hn', hle'⟩ := hex (by rw [A.gt, List.length_append]; omega)
        obtain ⟨r, hr⟩ := hpre
        rw [A.g1] at hn'
        rcases mid_cases _ _ _ l n' hn' with h1 | h1 | h1
        · exact ⟨n', by rw [hr]; exact getElem?_prefix h1.2, hle'⟩
        · omega
        · omega
  -- the reported fact, once the node is gone from the graph
  have hfact : ∀ (sF : St), sF.interrupted = s1.interrupted → (cur ≠ .ambig → Holds P cur g) →
      Fact inst P s0 sF (Min.updateFrom m sub) g cur := by
    intro sF hiF hcorr
    rcases A.cur_val with hc | hc | hc
    · exact Or.inl ⟨hc, Or.inl (hcorr (by rw [hc]; exact topOf_ne_ambig inst g))⟩
    · exact Or.inr (Or.inl ⟨hc, hcorr (by rw [hc]; exact botOf_ne_ambig inst g), hlow hc⟩)
    · exact Or.inr (Or.inr ⟨hc, by rw [hiF]; exact A.amb hc⟩)
  by_cases hge : Min.ge sub s0.graph.length = true
  · cases hc1 : s1.cache with
    | none =>
      have hc3 : s3.cache = none := by rw [R3.cache]; exact hc1
      simp only [hge, if_true, hc3, rollbackTo, List.take_left, Res.ok.injEq, Prod.mk.injEq] at h
      obtain ⟨⟨hv, hm'⟩, hs'⟩ := h
      subst hv; subst hm'; subst hs'
      have Pp : Popped s0 s1 { keptSt s3 s0.graph with cache := none } :=
        ⟨hslen, hsget, hc1.symm, R3.oracle, R3.oracleDefault, R3.interrupted⟩
      obtain ⟨i6, hs6, hcorr⟩ := A.finish_discard (s6 := { keptSt s3 s0.graph with cache := none }) Pp hfl'
        ((minGe_iff _ _).mp hge) rfl
      exact ⟨i6, hs6 _, hle, hfact _ R3.interrupted hcorr, hlink _ ⟨[], by simp [keptSt]⟩⟩
    | some cc1 =>
    have hc3 : s3.cache = some cc1 := by rw [R3.cache]; exact hc1
    by_cases hint : s3.interrupted = true
    · have hand : (cfg.fixF3 && s3.interrupted) = true := by rw [hint, h3]; rfl
      simp only [hge, if_true, hc3, hand, rollbackTo, List.take_left, Res.ok.injEq, Prod.mk.injEq] at h
      obtain ⟨⟨hv, hm'⟩, hs'⟩ := h
      subst hv; subst hm'; subst hs'
      have Pp : Popped s0 s1 { keptSt s3 s0.graph with cache := some cc1 } :=
        ⟨hslen, hsget, hc1.symm, R3.oracle, R3.oracleDefault, R3.interrupted⟩
      obtain ⟨i6, hs6, hcorr⟩ := A.finish_discard (s6 := { keptSt s3 s0.graph with cache := some cc1 }) Pp hfl'
        ((minGe_iff _ _).mp hge) rfl
      exact ⟨i6, hs6 _, hle, hfact _ R3.interrupted hcorr, hlink _ ⟨[], by simp [keptSt]⟩⟩
    · have hint' : s3.interrupted = false := by cases hh : s3.interrupted <;> simp_all
      have hni : s1.interrupted = false := by rw [← R3.interrupted]; exact hint'
      have hne : cur ≠ .ambig := fun e => by rw [A.amb e] at hni; cases hni
      have hnew : new3 = new := by
        cases hcase with
        | inl h1 => exact h1.1
        | inr h1 => exact absurd h1.2 hne
      subst hnew
      have hand : (cfg.fixF3 && s3.interrupted) = false := by rw [hint']; simp
      simp only [hge, if_true, hc3, hand, Bool.false_eq_true, if_false, moveToCache,
        List.drop_left, List.take_left] at h
      cases hdr : drainToCache s0.graph.length ((⟨g, cur, none, sub⟩ : Node) :: new3) cc1 with
      | error site => rw [hdr] at h; cases h
      | ok cc6 =>
        rw [hdr] at h
        simp only [Res.ok.injEq, Prod.mk.injEq] at h
        obtain ⟨⟨hv, hm'⟩, hs'⟩ := h
        subst hv; subst hm'; subst hs'
        have Pp : Popped s0 s1 { cachedSt s3 s0.graph cc6 with cache := s1.cache } :=
          ⟨hslen, hsget, rfl, R3.oracle, R3.oracleDefault, R3.interrupted⟩
        obtain ⟨i6, hs6, hcorr⟩ := A.finish_cache (s6 := cachedSt s3 s0.graph cc6) Pp (hfl' hne)
          ((minGe_iff _ _).mp hge) rfl cc1 cc6 hc1 rfl hdr hni
        exact ⟨i6, hs6 _, hle, hfact _ R3.interrupted (fun _ => hcorr), hlink _ ⟨[], by simp [cachedSt]⟩⟩
  · obtain ⟨l, hl, hlt⟩ := not_minGe hge
    simp only [hge, Bool.false_eq_true, if_false, Res.ok.injEq, Prod.mk.injEq] at h
    obtain ⟨⟨hv, hm'⟩, hs'⟩ := h
    subst hv; subst hm'; subst hs'
    have Pp : Popped s0 s1 (keptSt s3 (s0.graph ++ (⟨g, cur, none, sub⟩ : Node) :: new3)) :=
      ⟨hslen, hsget, R3.cache, R3.oracle, R3.oracleDefault, R3.interrupted⟩
    have hkeep : Inv inst P dom lvl fx (keptSt s3 (s0.graph ++ (⟨g, cur, none, sub⟩ : Node) :: new3)) ∧
        Step inst P s0 (keptSt s3 (s0.graph ++ (⟨g, cur, none, sub⟩ : Node) :: new3)) sub := by
      cases hcase with
      | inl h1 =>
        obtain ⟨e, hfl⟩ := h1
        subst e
        exact A.finish_keep Pp hfl l hl hlt rfl
      | inr h1 =>
        obtain ⟨e, hca⟩ := h1
        subst e; subst hca
        exact A.finish_keep_amb rfl Pp l hl hlt rfl
    obtain ⟨i5, hs5⟩ := hkeep
    refine ⟨i5, hs5.weaken (updateFrom_le_right m sub), hle, ?_, hlink _ ⟨_, rfl⟩⟩
    rcases A.cur_val with hc | hc | hc
    · refine Or.inl ⟨hc, Or.inr ⟨s0.graph.length, _, mid_at _ _ _, rfl, rfl, hc.symm, ?_,
        fun d hd => by cases hd⟩⟩
      refine (updateFrom_le_right m sub).trans ?_
      rw [hl]
      exact Nat.le_of_lt hlt
    · exact Or.inr (Or.inl ⟨hc, A.cur_holds hc, hlow hc⟩)
    · exact Or.inr (Or.inr ⟨hc, by
        show s3.interrupted = true
        rw [R3.interrupted]; exact A.amb hc⟩)

theorem Step.of_work {s s' : St} {w : Nat} {lb : Min} (h : Step inst P { s with work := w } s' lb) :
    Step inst P s s' lb :=
  ⟨h.graph, h.stack, h.cacheExt, h.ext, h.low, h.cacheMode, h.intr, h.quiet⟩

theorem Fact.of_work {s s' : St} {w : Nat} {m' : Min} {g : Nat} {v : V}
    (h : Fact inst P { s with work := w } s' m' g v) : Fact inst P s s' m' g v := h

/-- what a node found in the graph reports -/
theorem hit_fact {s : St} (hi : Inv inst P dom lvl fx s) {g dfn : Nat} {node : Node} (hn : s.graph[dfn]? = some node)
    (hgo : node.goal = g) {s' : St} {m' : Min} (hpre : s'.graph = s.graph)
    (hint : s'.interrupted = s.interrupted)
    (hfl : ∀ d, node.stackDepth = some d → flagAt s'.stack d) (l : Nat) (hlk : node.links = some l)
    (hl : l ≤ dfn) (hm' : MinLe m' node.links) : Fact inst P s s' m' g node.solution := by
  subst hgo
  rcases hi.val dfn node hn with ht' | hb | ha
  · refine Or.inl ⟨ht', Or.inr ⟨dfn, node, by rw [hpre]; exact hn, rfl, rfl, ht'.symm, ?_, hfl⟩⟩
    refine hm'.trans ?_
    rw [hlk]; exact hl
  · exact Or.inr (Or.inl ⟨hb, hi.approx dfn node hn hb,
      hi.not_inG_of_bot (Or.inr ⟨dfn, node, hn, rfl, hb⟩)⟩)
  · exact Or.inr (Or.inr ⟨ha, by rw [hint]; exact hi.amb dfn node hn ha⟩)

/-- PARTIAL CORRECTNESS of `solve_goal` -/
theorem solveGoal_sem (hyp : MHyp inst P dom lvl) (h3 : cfg.fixF3 = true) (h10 : fx = true → cfg.fixF10 = true) :
    ∀ d, SubSpec inst P dom lvl fx (solveGoal inst cfg d)
  | 0 => by
    intro g m s v m' s' _ _ _ h
    simp [solveGoal] at h
  | d + 1 => by
    intro g m s v m' s' hi hg hbel h
    cases ht : tick cfg s with
    | panic site s0 => rw [solveGoal_tick_panic _ _ _ _ _ _ _ _ ht] at h; cases h
    | ok u s0 =>
      have e0 := tick_ok cfg s s0 ht
      subst e0
      have i0 : Inv inst P dom lvl fx { s with work := s.work + 1 } := hi.work _
      cases hc : cacheLookup ({ s with work := s.work + 1 } : St) g with
      | some w =>
        rw [solveGoal_cached inst cfg d g m s _ w ht hc] at h
        simp only [Res.ok.injEq, Prod.mk.injEq] at h
        obtain ⟨⟨hv, hm'⟩, hs'⟩ := h
        subst hv; subst hm'; subst hs'
        refine ⟨i0, Step.work s _ _, MinLe.refl _, ?_, Or.inl rfl⟩
        have hin : InCache s g w := (inCache_iff_lookup _ g w).mpr hc
        have hh := hi.cacheOK g w hin
        rcases hi.defVal (Or.inl hin) with e | e | e
        · exact Or.inl ⟨e, Or.inl hh⟩
        · refine Or.inr (Or.inl ⟨e, hh, hi.not_inG_of_bot (Or.inl ?_)⟩)
          rw [← e]; exact hin
        · rw [e] at hh; exact hh.elim
      | none =>
        cases hl : lookup ({ s with work := s.work + 1 } : St).graph g with
        | some dfn =>
          obtain ⟨node, hn, hgo⟩ := lookup_some hl
          rw [solveGoal_hit inst cfg d g m s _ ht hc dfn hl node hn] at h
          cases hsd : node.stackDepth with
          | none =>
            simp only [hsd, Res.ok.injEq, Prod.mk.injEq] at h
            obtain ⟨⟨hv, hm'⟩, hs'⟩ := h
            subst hv; subst hm'; subst hs'
            obtain ⟨l, hlk, hll⟩ := i0.nonstk dfn node hn hsd
            refine ⟨i0, Step.work s _ _, updateFrom_le_left _ _, ?_, ?_⟩
            · exact Fact.of_work (hit_fact i0 hn hgo rfl rfl (fun d' hd' => by rw [hsd] at hd'; cases hd') l hlk
                (Nat.le_of_lt hll) (updateFrom_le_right m node.links))
            · cases updateFrom_cases m node.links with
              | inl e => exact Or.inl e
              | inr e =>
                refine Or.inr ⟨l, by rw [e, hlk], fun _ => ?_⟩
                obtain ⟨n', hn', hle'⟩ := i0.lvlLinks dfn node l hn hsd hlk
                exact ⟨n', hn', by rw [← hgo]; exact hle'⟩
          | some depth =>
            obtain ⟨hdl, hlk⟩ := i0.stk dfn node depth hn hsd
            have hnle : ¬ ({ s with work := s.work + 1 } : St).stack.length ≤ depth := Nat.not_le.mpr hdl
            have hext := stackExt_setCycle_true depth s.stack
            have i1 : Inv inst P dom lvl fx
                { ({ s with work := s.work + 1 } : St) with stack := setCycle true depth s.stack } :=
              i0.stackChange rfl ⟨rfl, rfl, rfl, rfl⟩ hext
            have hmix : mixedFrom (setCycle true depth ({ s with work := s.work + 1 } : St).stack) depth = false :=
              hit_not_mixed i0 hbel hn hgo hsd
            simp only [hsd, hnle, if_false, hmix, Bool.false_eq_true, Res.ok.injEq, Prod.mk.injEq] at h
            obtain ⟨⟨hv, hm'⟩, hs'⟩ := h
            subst hv; subst hm'; subst hs'
            have hst : Step inst P ({ s with work := s.work + 1 } : St)
                { ({ s with work := s.work + 1 } : St) with stack := setCycle true depth s.stack }
                (Min.updateFrom m node.links) :=
              Step.stackOnly (s := { s with work := s.work + 1 })
                (s' := { ({ s with work := s.work + 1 } : St) with stack := setCycle true depth s.stack })
                rfl ⟨rfl, rfl, rfl, rfl⟩ hext _
            refine ⟨i1, Step.of_work hst, updateFrom_le_left _ _, ?_, ?_⟩
            · refine Fact.of_work (hit_fact i0 hn hgo rfl rfl (fun d' hd' => ?_) dfn hlk (Nat.le_refl _)
                (updateFrom_le_right m node.links))
              rw [hsd] at hd'
              cases hd'
              have hlt : depth < s.stack.length := hdl
              exact ⟨_, setCycle_getElem?_eq true depth s.stack _ (List.getElem?_eq_getElem hlt), rfl⟩
            · cases updateFrom_cases m node.links with
              | inl e => exact Or.inl e
              | inr e =>
                exact Or.inr ⟨dfn, by rw [e, hlk], fun _ => ⟨node, hn, by rw [hgo]; exact Nat.le_refl _⟩⟩
        | none =>
          have hu : Undef ({ s with work := s.work + 1 } : St) g := by
            intro w hw
            cases hw with
            | inl hw =>
              rw [inCache_iff_lookup, hc] at hw
              cases hw
            | inr hw =>
              obtain ⟨i, n, hn, hgo, _⟩ := hw
              exact lookup_none hl n (List.mem_of_getElem? hn) hgo
          by_cases hov : cfg.overflowDepth ≤ ({ s with work := s.work + 1 } : St).stack.length
          · rw [solveGoal_overflow inst cfg d g m s _ ht hc hl hov] at h; cases h
          · rw [solveGoal_new inst cfg d g m s _ ht hc hl hov] at h
            cases hloop : solveNewSubgoal inst cfg (solveGoal inst cfg d) g
                ({ s with work := s.work + 1 } : St).stack.length ({ s with work := s.work + 1 } : St).graph.length
                cfg.rounds (pushed inst g { s with work := s.work + 1 }) with
            | panic site s3 => rw [hloop] at h; cases h
            | ok sub s3 =>
              rw [hloop] at h
              have hp := loop_sem hyp h3 h10 (solveGoal_sem hyp h3 h10 d) cfg.rounds _ sub s3
                (push_loopSt hyp i0 hu hg hbel) hloop
              obtain ⟨i', hs', hle', hf', hk'⟩ := finishGoal_sem h3 hp m v m' s' h
              exact ⟨i', Step.of_work hs', hle', Fact.of_work hf', hk'⟩

end

end Chalk.FixedPoint.Mix
