import ChalkModel.Eval

namespace Chalk.Sem

/-- `τ` agrees with the finite assignment `σ` on its domain -/
def Agrees (τ : Nat → Tm) (σ : Asg) : Prop := ∀ i t, σ.get i = some t → τ i = t

def Extends (σ σ' : Asg) : Prop := ∀ i t, σ.get i = some t → σ'.get i = some t

theorem Extends.refl (σ : Asg) : Extends σ σ := fun _ _ h => h
theorem Extends.trans {a b c : Asg} (h1 : Extends a b) (h2 : Extends b c) : Extends a c :=
  fun i t h => h2 i t (h1 i t h)

theorem Asg.get_cons_self (σ : Asg) (i : Nat) (t : Tm) : Asg.get ((i, t) :: σ) i = some t := by
  simp [Asg.get]

theorem extends_cons {σ : Asg} {i : Nat} {t : Tm} (h : σ.get i = none) : Extends σ ((i, t) :: σ) := by
  intro j u hj
  simp only [Asg.get]
  by_cases hij : i = j
  · subst hij; rw [h] at hj; cases hj
  · simp [hij, hj]

theorem agrees_toFun (σ : Asg) : Agrees σ.toFun σ := by
  intro i t h; simp [Asg.toFun, h]

mutual
  theorem Tm.inst_congr (τ τ' : Nat → Tm) (σ : Asg) (h1 : Agrees τ σ) (h2 : Agrees τ' σ) :
      (t : Tm) → t.varsIn σ = true → t.inst τ = t.inst τ'
    | .var i, hv => by
        simp only [Tm.varsIn] at hv
        cases hg : σ.get i with
        | none => simp [hg] at hv
        | some u => simp [Tm.inst, h1 i u hg, h2 i u hg]
    | .app c args, hv => by
        simp only [Tm.varsIn] at hv
        simp [Tm.inst, Tms.inst_congr τ τ' σ h1 h2 args hv]
  theorem Tms.inst_congr (τ τ' : Nat → Tm) (σ : Asg) (h1 : Agrees τ σ) (h2 : Agrees τ' σ) :
      (ts : Tms) → ts.varsIn σ = true → ts.inst τ = ts.inst τ'
    | .nil, _ => by simp [Tms.inst]
    | .cons t ts, hv => by
        simp only [Tms.varsIn, Bool.and_eq_true] at hv
        simp [Tms.inst, Tm.inst_congr τ τ' σ h1 h2 t hv.1, Tms.inst_congr τ τ' σ h1 h2 ts hv.2]
end

mutual
  theorem Tm.varsIn_mono {σ σ' : Asg} (he : Extends σ σ') : (t : Tm) → t.varsIn σ = true → t.varsIn σ' = true
    | .var i, hv => by
        simp only [Tm.varsIn] at hv ⊢
        cases hg : σ.get i with
        | none => simp [hg] at hv
        | some u => simp [he i u hg]
    | .app c args, hv => by
        simp only [Tm.varsIn] at hv ⊢
        exact Tms.varsIn_mono he args hv
  theorem Tms.varsIn_mono {σ σ' : Asg} (he : Extends σ σ') : (ts : Tms) → ts.varsIn σ = true → ts.varsIn σ' = true
    | .nil, _ => by simp [Tms.varsIn]
    | .cons t ts, hv => by
        simp only [Tms.varsIn, Bool.and_eq_true] at hv ⊢
        exact ⟨Tm.varsIn_mono he t hv.1, Tms.varsIn_mono he ts hv.2⟩
end

theorem agrees_of_extends {τ : Nat → Tm} {σ σ' : Asg} (he : Extends σ σ') (h : Agrees τ σ') : Agrees τ σ :=
  fun i t hi => h i t (he i t hi)

/-! ### soundness of matching -/
mutual
  theorem matchTm_sound : (p t : Tm) → (σ σ' : Asg) → matchTm p t σ = some σ' →
      Extends σ σ' ∧ p.varsIn σ' = true ∧ p.inst σ'.toFun = t
    | .var i, t, σ, σ', h => by
        simp only [matchTm] at h
        cases hg : σ.get i with
        | some u =>
          simp only [hg] at h
          split at h
          · rename_i hu; injection h with h; subst h; subst hu
            exact ⟨Extends.refl _, by simp [Tm.varsIn, hg], by simp [Tm.inst, Asg.toFun, hg]⟩
          · cases h
        | none =>
          simp only [hg] at h
          injection h with h; subst h
          exact ⟨extends_cons hg, by simp [Tm.varsIn, Asg.get], by simp [Tm.inst, Asg.toFun, Asg.get]⟩
    | .app c args, .app c' args', σ, σ', h => by
        simp only [matchTm] at h
        split at h
        · rename_i hc; subst hc
          obtain ⟨h1, h2, h3⟩ := matchTms_sound args args' σ σ' h
          exact ⟨h1, by simp [Tm.varsIn, h2], by simp [Tm.inst, h3]⟩
        · cases h
    | .app _ _, .var _, _, _, h => by simp [matchTm] at h
  theorem matchTms_sound : (ps ts : Tms) → (σ σ' : Asg) → matchTms ps ts σ = some σ' →
      Extends σ σ' ∧ ps.varsIn σ' = true ∧ ps.inst σ'.toFun = ts
    | .nil, .nil, σ, σ', h => by
        simp [matchTms] at h; subst h
        exact ⟨Extends.refl _, by simp [Tms.varsIn], by simp [Tms.inst]⟩
    | .cons p ps, .cons t ts, σ, σ', h => by
        simp only [matchTms] at h
        cases hm : matchTm p t σ with
        | none => simp [hm] at h
        | some σ1 =>
          simp only [hm] at h
          obtain ⟨e1, v1, i1⟩ := matchTm_sound p t σ σ1 hm
          obtain ⟨e2, v2, i2⟩ := matchTms_sound ps ts σ1 σ' h
          refine ⟨e1.trans e2, ?_, ?_⟩
          · simp [Tms.varsIn, Tm.varsIn_mono e2 p v1, v2]
          · have : p.inst σ'.toFun = p.inst σ1.toFun :=
              Tm.inst_congr _ _ σ1 (agrees_of_extends e2 (agrees_toFun σ')) (agrees_toFun σ1) p v1
            simp [Tms.inst, this, i1, i2]
    | .nil, .cons _ _, _, _, h => by simp [matchTms] at h
    | .cons _ _, .nil, _, _, h => by simp [matchTms] at h
end

/-! ### completeness of matching -/
mutual
  theorem matchTm_complete (τ : Nat → Tm) : (p t : Tm) → (σ : Asg) → Agrees τ σ → p.inst τ = t →
      ∃ σ', matchTm p t σ = some σ' ∧ Agrees τ σ'
    | .var i, t, σ, ha, hi => by
        simp only [Tm.inst] at hi
        simp only [matchTm]
        cases hg : σ.get i with
        | some u =>
          have : τ i = u := ha i u hg
          have hu : u = t := by rw [← this, hi]
          exact ⟨σ, by simp [hu], ha⟩
        | none =>
          refine ⟨(i, t) :: σ, rfl, ?_⟩
          intro j u hj
          simp only [Asg.get] at hj
          by_cases hij : i = j
          · subst hij; simp at hj; rw [← hj, hi]
          · simp [hij] at hj; exact ha j u hj
    | .app c args, t, σ, ha, hi => by
        simp only [Tm.inst] at hi
        subst hi
        simp only [matchTm, if_true]
        exact matchTms_complete τ args _ σ ha rfl
  theorem matchTms_complete (τ : Nat → Tm) : (ps ts : Tms) → (σ : Asg) → Agrees τ σ → ps.inst τ = ts →
      ∃ σ', matchTms ps ts σ = some σ' ∧ Agrees τ σ'
    | .nil, ts, σ, ha, hi => by
        simp only [Tms.inst] at hi; subst hi
        exact ⟨σ, by simp [matchTms], ha⟩
    | .cons p ps, ts, σ, ha, hi => by
        simp only [Tms.inst] at hi; subst hi
        obtain ⟨σ1, h1, a1⟩ := matchTm_complete τ p _ σ ha rfl
        obtain ⟨σ2, h2, a2⟩ := matchTms_complete τ ps _ σ1 a1 rfl
        exact ⟨σ2, by simp [matchTms, h1, h2], a2⟩
end

theorem matchAtom_sound {pat a : Atom} {σ : Asg} (h : matchAtom pat a = some σ) :
    pat.inst σ.toFun = a := by
  unfold matchAtom at h
  split at h
  · rename_i hp
    obtain ⟨_, _, hi⟩ := matchTms_sound pat.args a.args [] σ h
    cases a; cases pat; simp_all [Atom.inst]
  · cases h

theorem matchAtom_complete {pat a : Atom} (τ : Nat → Tm) (h : pat.inst τ = a) :
    ∃ σ, matchAtom pat a = some σ ∧ Agrees τ σ := by
  subst h
  unfold matchAtom
  simp only [Atom.inst, if_true]
  exact matchTms_complete τ pat.args _ [] (fun _ _ h => by simp [Asg.get] at h) rfl

theorem body_inst_eq {τ : Nat → Tm} {σ : Asg} (ha : Agrees τ σ) {body : List Atom}
    (hb : bodyBound σ body = true) {b : Atom} (hm : b ∈ body) : b.inst τ = b.inst σ.toFun := by
  simp only [bodyBound, List.all_eq_true] at hb
  have := hb b hm
  simp [Atom.inst, Tms.inst_congr τ σ.toFun σ ha (agrees_toFun σ) b.args this]

end Chalk.Sem
