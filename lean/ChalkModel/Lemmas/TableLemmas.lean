import ChalkModel.Canon

/-! Facts about the inference-table model needed for the canonicalization theorems:
    fresh variables created by `fresh_subst` are their own roots, unbound, in the binder's universe. -/
namespace Chalk

/-- the per-variable lists of a table have one entry per variable (true of `Table.new` and kept by
    every operation of `Infer.lean`) -/
def Table.Aligned (t : Table) : Prop := t.value.length = t.parent.length

theorem Table.new_aligned : Table.new.Aligned := rfl

theorem Table.newVariable_aligned (t : Table) (ui : Nat) (h : t.Aligned) : (t.newVariable ui).1.Aligned := by
  simp [Table.newVariable, Table.Aligned] at *; omega

theorem Table.find_self (t : Table) (v : Nat) (h : t.parent.getD v v = v) : t.find v = v := by
  unfold Table.find
  cases t.parent.length with
  | zero => rfl
  | succ n =>
    simp [Table.findFuel]
    intro h'
    exact absurd (by simpa [List.getD] using h) h'

/-- the arguments `fresh_subst` returns when the table has `n` variables -/
def freshArgs : Nat → List (VarKind × Nat) → List GArg
  | _, [] => []
  | n, (k, _) :: bs => k.toInferArg n :: freshArgs (n + 1) bs

/-- the `free_vars` the canonicalizer records for them -/
def freshVars : Nat → List (VarKind × Nat) → List (VarKind × Nat)
  | _, [] => []
  | n, (k, _) :: bs => (k, n) :: freshVars (n + 1) bs

theorem freshSubst_spec : (bs : List (VarKind × Nat)) → (t : Table) →
    (t.freshSubst bs).1.parent = t.parent ++ List.range' t.parent.length bs.length ∧
    (t.freshSubst bs).1.value = t.value ++ bs.map (fun b => InferValue.unbound b.2) ∧
    (t.freshSubst bs).2 = freshArgs t.parent.length bs
  | [], t => by simp [Table.freshSubst, freshArgs]
  | (k, u) :: bs, t => by
    have ih := freshSubst_spec bs (t.newVariable u).1
    simp only [Table.freshSubst, freshArgs]
    obtain ⟨h1, h2, h3⟩ := ih
    refine ⟨?_, ?_, ?_⟩
    · rw [h1]; simp [Table.newVariable, List.range'_succ]
    · rw [h2]; simp [Table.newVariable]
    · rw [h3]; simp [Table.newVariable]

theorem freshArgs_get : (bs : List (VarKind × Nat)) → (n i : Nat) → (k : VarKind) → (u : Nat) →
    bs[i]? = some (k, u) → (freshArgs n bs)[i]? = some (k.toInferArg (n + i))
  | [], _, i, _, _, h => by simp at h
  | (k0, u0) :: bs, n, 0, k, u, h => by simp at h; simp [freshArgs, h.1]
  | (k0, u0) :: bs, n, i + 1, k, u, h => by
    simp at h
    have := freshArgs_get bs (n + 1) i k u h
    have e : n + 1 + i = n + (i + 1) := by omega
    rw [e] at this
    simp [freshArgs, this]

theorem freshArgs_length : (bs : List (VarKind × Nat)) → (n : Nat) → (freshArgs n bs).length = bs.length
  | [], _ => rfl
  | (_, _) :: bs, n => by simp [freshArgs, freshArgs_length bs (n + 1)]

theorem freshVars_get : (bs : List (VarKind × Nat)) → (n i : Nat) → (k : VarKind) → (u : Nat) →
    bs[i]? = some (k, u) → (freshVars n bs)[i]? = some (k, n + i)
  | [], _, i, _, _, h => by simp at h
  | (k0, u0) :: bs, n, 0, k, u, h => by simp at h; simp [freshVars, h.1]
  | (k0, u0) :: bs, n, i + 1, k, u, h => by
    simp at h
    have := freshVars_get bs (n + 1) i k u h
    have e : n + 1 + i = n + (i + 1) := by omega
    rw [e] at this
    simp [freshVars, this]

theorem freshVars_length : (bs : List (VarKind × Nat)) → (n : Nat) → (freshVars n bs).length = bs.length
  | [], _ => rfl
  | (_, _) :: bs, n => by simp [freshVars, freshVars_length bs (n + 1)]

/-- what the table knows about the `i`-th fresh variable -/
theorem freshSubst_var (t : Table) (ht : t.Aligned) (bs : List (VarKind × Nat)) (i : Nat) (k : VarKind) (u : Nat)
    (hi : bs[i]? = some (k, u)) :
    (t.freshSubst bs).1.find (t.numVars + i) = t.numVars + i ∧
    (t.freshSubst bs).1.probeVar (t.numVars + i) = none ∧
    (t.freshSubst bs).1.universeOfUnbound (t.numVars + i) = .ok u := by
  obtain ⟨h1, h2, _⟩ := freshSubst_spec bs t
  have hlt : i < bs.length := by
    have := (List.getElem?_eq_some_iff.mp hi).1; exact this
  have hfind : (t.freshSubst bs).1.find (t.numVars + i) = t.numVars + i := by
    apply Table.find_self
    rw [h1]
    simp [Table.numVars, List.getD, List.getElem?_append_right, List.getElem?_range', hlt]
  have hval : (t.freshSubst bs).1.probeValue (t.numVars + i) = .unbound u := by
    unfold Table.probeValue
    rw [hfind, h2]
    have : t.numVars = t.value.length := by simp [Table.numVars, ht.symm]
    rw [this]
    simp [List.getD, List.getElem?_append_right, hi]
  refine ⟨hfind, ?_, ?_⟩
  · simp [Table.probeVar, hval]
  · simp [Table.universeOfUnbound, hval]

end Chalk
