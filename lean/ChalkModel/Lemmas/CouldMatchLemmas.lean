import ChalkModel.CouldMatch

namespace Chalk

/-! Inversion of `fold` on rigid constructors. -/

theorem foldTy_slice_inv {F o t c} (h : foldTy F o (.slice t) = .ok c) :
    ∃ t', foldTy F o t = .ok t' ∧ c = .slice t' := by
  simp only [foldTy] at h
  cases ht : foldTy F o t <;> simp [ht] at h
  exact ⟨_, rfl, h.symm⟩

theorem foldTy_raw_inv {F o m t c} (h : foldTy F o (.raw m t) = .ok c) :
    ∃ t', foldTy F o t = .ok t' ∧ c = .raw m t' := by
  simp only [foldTy] at h
  cases ht : foldTy F o t <;> simp [ht] at h
  exact ⟨_, rfl, h.symm⟩

theorem foldTy_ref_inv {F o m l t c} (h : foldTy F o (.ref m l t) = .ok c) :
    ∃ l' t', foldTy F o t = .ok t' ∧ c = .ref m l' t' := by
  simp only [foldTy] at h
  cases hl : foldLifetime F o l <;> simp [hl] at h
  cases ht : foldTy F o t <;> simp [ht] at h
  exact ⟨_, _, rfl, h.symm⟩

theorem foldTy_array_inv {F o t k c} (h : foldTy F o (.array t k) = .ok c) :
    ∃ t' k', foldTy F o t = .ok t' ∧ c = .array t' k' := by
  simp only [foldTy] at h
  cases ht : foldTy F o t <;> simp [ht] at h
  cases hk : foldConst F o k <;> simp [hk] at h
  exact ⟨_, _, rfl, h.symm⟩

theorem foldTy_app_inv {F o n args c} (h : foldTy F o (.app n args) = .ok c) :
    ∃ args', foldArgs F o args = .ok args' ∧ c = .app n args' := by
  simp only [foldTy] at h
  cases ha : foldArgs F o args <;> simp [ha] at h
  exact ⟨_, rfl, h.symm⟩

theorem foldArgs_cons_inv {F o a as c} (h : foldArgs F o (.cons a as) = .ok c) :
    ∃ a' as', foldGArg F o a = .ok a' ∧ foldArgs F o as = .ok as' ∧ c = .cons a' as' := by
  simp only [foldArgs] at h
  cases ha : foldGArg F o a <;> simp [ha] at h
  cases hs : foldArgs F o as <;> simp [hs] at h
  exact ⟨_, _, rfl, rfl, h.symm⟩

theorem foldGArg_ty_inv {F o t c} (h : foldGArg F o (.ty t) = .ok c) :
    ∃ t', foldTy F o t = .ok t' ∧ c = .ty t' := by
  simp only [foldGArg] at h
  cases ht : foldTy F o t <;> simp [ht] at h
  exact ⟨_, rfl, h.symm⟩

theorem foldGArg_lt_inv {F o l c} (h : foldGArg F o (.lt l) = .ok c) : ∃ l', c = .lt l' := by
  simp only [foldGArg] at h
  cases hl : foldLifetime F o l <;> simp [hl] at h
  exact ⟨_, h.symm⟩

theorem foldGArg_ct_inv {F o k c} (h : foldGArg F o (.ct k) = .ok c) : ∃ k', c = .ct k' := by
  simp only [foldGArg] at h
  cases hk : foldConst F o k <;> simp [hk] at h
  exact ⟨_, h.symm⟩

/-! The pre-filter never says `false` for two terms that have a common instance under *any* two
    folders (arbitrary replacement of free variables, inference variables and placeholders). -/
mutual
  theorem cmTy_common_instance (db : UDb) (F G : Folder) : (a : Ty) → (o1 o2 : Nat) → (b c : Ty) →
      foldTy F o1 a = .ok c → foldTy G o2 b = .ok c → cmTy db a b ≠ .ok false
    | .app n args, o1, o2, b, c, h1, h2 => by
        cases b <;> simp [cmTy]
        case app n' args' =>
          obtain ⟨x, hx, rfl⟩ := foldTy_app_inv h1
          obtain ⟨y, hy, hc⟩ := foldTy_app_inv h2
          injection hc with hn hxy
          subst hn; subst hxy
          cases n <;> simp <;> exact cmZipSubsts_common_instance db F G args o1 o2 _ _ _ _ hx hy
    | .scalar s, o1, o2, b, c, h1, h2 => by
        cases b <;> simp [cmTy]
        simp [foldTy] at h1 h2; rw [← h1] at h2; injection h2 with h; exact h.symm
    | .foreign s, o1, o2, b, c, h1, h2 => by
        cases b <;> simp [cmTy]
        simp [foldTy] at h1 h2; rw [← h1] at h2; injection h2 with h; exact h.symm
    | .slice t, o1, o2, b, c, h1, h2 => by
        cases b <;> simp [cmTy]
        case slice t' =>
          obtain ⟨x, hx, rfl⟩ := foldTy_slice_inv h1
          obtain ⟨y, hy, hc⟩ := foldTy_slice_inv h2
          injection hc with hxy; subst hxy
          exact cmTy_common_instance db F G t o1 o2 t' _ hx hy
    | .raw m t, o1, o2, b, c, h1, h2 => by
        cases b <;> simp [cmTy]
        case raw m' t' =>
          obtain ⟨x, hx, rfl⟩ := foldTy_raw_inv h1
          obtain ⟨y, hy, hc⟩ := foldTy_raw_inv h2
          injection hc with hm hxy; subst hm; subst hxy
          exact ⟨rfl, cmTy_common_instance db F G t o1 o2 t' _ hx hy⟩
    | .ref m l t, o1, o2, b, c, h1, h2 => by
        cases b <;> simp [cmTy]
        case ref m' l' t' =>
          obtain ⟨lx, x, hx, rfl⟩ := foldTy_ref_inv h1
          obtain ⟨ly, y, hy, hc⟩ := foldTy_ref_inv h2
          injection hc with hm hl hxy; subst hm; subst hxy
          exact ⟨rfl, cmTy_common_instance db F G t o1 o2 t' _ hx hy⟩
    | .array t k, o1, o2, b, c, h1, h2 => by
        cases b <;> simp [cmTy]
        case array t' k' =>
          obtain ⟨x, kx, hx, rfl⟩ := foldTy_array_inv h1
          obtain ⟨y, ky, hy, hc⟩ := foldTy_array_inv h2
          injection hc with hxy hk; subst hxy
          exact cmTy_common_instance db F G t o1 o2 t' _ hx hy
    | .str, _, _, b, _, _, _ => by cases b <;> simp [cmTy]
    | .never, _, _, b, _, _, _ => by cases b <;> simp [cmTy]
    | .error, _, _, b, _, _, _ => by cases b <;> simp [cmTy]
    | .placeholder _ _, _, _, b, _, _, _ => by cases b <;> simp [cmTy]
    | .dyn _ _ _, _, _, b, _, _, _ => by cases b <;> simp [cmTy]
    | .proj _ _, _, _, b, _, _, _ => by cases b <;> simp [cmTy]
    | .opaque _ _, _, _, b, _, _, _ => by cases b <;> simp [cmTy]
    | .function _ _ _, _, _, b, _, _, _ => by cases b <;> simp [cmTy]
    | .bound _ _, _, _, b, _, _, _ => by cases b <;> simp [cmTy]
    | .infer _ _, _, _, b, _, _, _ => by cases b <;> simp [cmTy]
  theorem cmGArg_common_instance (db : UDb) (F G : Folder) : (a : GArg) → (o1 o2 : Nat) → (b c : GArg) →
      foldGArg F o1 a = .ok c → foldGArg G o2 b = .ok c → cmGArg db a b ≠ .ok false
    | .ty t, o1, o2, b, c, h1, h2 => by
        obtain ⟨x, hx, rfl⟩ := foldGArg_ty_inv h1
        cases b with
        | ty t' =>
          obtain ⟨y, hy, hc⟩ := foldGArg_ty_inv h2
          injection hc with hxy; subst hxy
          simp only [cmGArg]
          exact cmTy_common_instance db F G t o1 o2 t' _ hx hy
        | lt l => obtain ⟨y, hc⟩ := foldGArg_lt_inv h2; cases hc
        | ct k => obtain ⟨y, hc⟩ := foldGArg_ct_inv h2; cases hc
    | .lt l, o1, o2, b, c, h1, h2 => by
        obtain ⟨x, rfl⟩ := foldGArg_lt_inv h1
        cases b with
        | ty t' => obtain ⟨y, hy, hc⟩ := foldGArg_ty_inv h2; cases hc
        | lt l => simp [cmGArg]
        | ct k => obtain ⟨y, hc⟩ := foldGArg_ct_inv h2; cases hc
    | .ct k, o1, o2, b, c, h1, h2 => by
        obtain ⟨x, rfl⟩ := foldGArg_ct_inv h1
        cases b with
        | ty t' => obtain ⟨y, hy, hc⟩ := foldGArg_ty_inv h2; cases hc
        | lt l => obtain ⟨y, hc⟩ := foldGArg_lt_inv h2; cases hc
        | ct k => simp [cmGArg]
  theorem cmZipSubsts_common_instance (db : UDb) (F G : Folder) : (as : Args) → (o1 o2 : Nat) →
      (vlen : Option Nat) → (i : Nat) → (bs cs : Args) →
      foldArgs F o1 as = .ok cs → foldArgs G o2 bs = .ok cs → cmZipSubsts db vlen i as bs ≠ .ok false
    | .nil, _, _, _, _, _, _, _, _ => by simp [cmZipSubsts]
    | .cons a as, o1, o2, vlen, i, bs, cs, h1, h2 => by
        cases bs with
        | nil => simp [cmZipSubsts]
        | cons b bs' =>
          obtain ⟨x, xs, hx, hxs, rfl⟩ := foldArgs_cons_inv h1
          obtain ⟨y, ys, hy, hys, hc⟩ := foldArgs_cons_inv h2
          injection hc with hxy hxys; subst hxy; subst hxys
          have hg := cmGArg_common_instance db F G a o1 o2 b _ hx hy
          have hr := cmZipSubsts_common_instance db F G as o1 o2 vlen (i + 1) bs' _ hxs hys
          simp only [cmZipSubsts]
          cases vlen with
          | none =>
            simp only
            cases hgv : cmGArg db a b with
            | error e => simp
            | ok v => cases v <;> simp_all
          | some n =>
            simp only
            split
            · cases hgv : cmGArg db a b with
              | error e => simp
              | ok v => cases v <;> simp_all
            · simp
end

end Chalk

namespace Chalk

theorem cmNamed_common_instance (db : UDb) (F G : Folder) (o1 o2 : Nat) (id id' : Nat) (a b c : Args)
    (hid : id = id') (h1 : foldArgs F o1 a = .ok c) (h2 : foldArgs G o2 b = .ok c) :
    cmNamed db id id' a b ≠ .ok false := by
  simp [cmNamed, hid]
  exact cmZipSubsts_common_instance db F G a o1 o2 none 0 b c h1 h2

theorem foldArgs_length {F o} : (a : Args) → (c : Args) → foldArgs F o a = .ok c → c.length = a.length
  | .nil, c, h => by simp [foldArgs] at h; subst h; rfl
  | .cons x xs, c, h => by
      obtain ⟨x', xs', _, hxs, rfl⟩ := foldArgs_cons_inv h
      have := foldArgs_length xs xs' hxs
      simp [Args.length, Args.toList] at *; exact this

/-- the slice zip used by `impls_for_trait` -/
theorem cmSlice_common_instance (db : UDb) (F G : Folder) (o1 o2 : Nat) (a b c : Args)
    (h1 : foldArgs F o1 a = .ok c) (h2 : foldArgs G o2 b = .ok c) : cmSlice db a b ≠ .ok false := by
  have l1 := foldArgs_length a c h1
  have l2 := foldArgs_length b c h2
  simp [cmSlice, ← l1, ← l2]
  exact cmZipSubsts_common_instance db F G a o1 o2 none 0 b c h1 h2

theorem andThen_ne_false {r : Res Bool} {k : Unit → Res Bool} (h1 : r ≠ .ok false) (h2 : k () ≠ .ok false) :
    andThen r k ≠ .ok false := by
  unfold andThen
  cases r with
  | error e => simp
  | ok v => cases v <;> simp_all

theorem cmWC_common_instance (db : UDb) (F G : Folder) (o1 o2 : Nat) (a b c : WC)
    (h1 : foldWC F o1 a = .ok c) (h2 : foldWC G o2 b = .ok c) : cmWC db a b ≠ .ok false := by
  cases a <;> cases b <;> simp only [foldWC] at h1 h2
  all_goals (try (simp only [cmWC]))
  case implemented.implemented tr a tr' a' =>
    cases ha : foldArgs F o1 a <;> simp [ha] at h1
    cases hb : foldArgs G o2 a' <;> simp [hb] at h2
    subst h1; injection h2 with ht hx; subst hx
    exact cmNamed_common_instance db F G o1 o2 _ _ _ _ _ ht.symm ha hb
  case aliasEqProj.aliasEqProj id a t id' a' t' =>
    cases ha : foldArgs F o1 a <;> simp [ha] at h1
    cases ht : foldTy F o1 t <;> simp [ht] at h1
    cases hb : foldArgs G o2 a' <;> simp [hb] at h2
    cases ht' : foldTy G o2 t' <;> simp [ht'] at h2
    subst h1; injection h2 with hi hx hy; subst hx; subst hy
    exact andThen_ne_false (cmNamed_common_instance db F G o1 o2 _ _ _ _ _ hi.symm ha hb)
      (cmTy_common_instance db F G t o1 o2 t' _ ht ht')
  case aliasEqOpaque.aliasEqOpaque id a t id' a' t' =>
    cases ha : foldArgs F o1 a <;> simp [ha] at h1
    cases ht : foldTy F o1 t <;> simp [ht] at h1
    cases hb : foldArgs G o2 a' <;> simp [hb] at h2
    cases ht' : foldTy G o2 t' <;> simp [ht'] at h2
    subst h1; injection h2 with hi hx hy; subst hx; subst hy
    exact andThen_ne_false (cmNamed_common_instance db F G o1 o2 _ _ _ _ _ hi.symm ha hb)
      (cmTy_common_instance db F G t o1 o2 t' _ ht ht')
  case ltOutlives.ltOutlives => simp
  case tyOutlives.tyOutlives t l t' l' =>
    cases ht : foldTy F o1 t <;> simp [ht] at h1
    cases hl : foldLifetime F o1 l <;> simp [hl] at h1
    cases ht' : foldTy G o2 t' <;> simp [ht'] at h2
    cases hl' : foldLifetime G o2 l' <;> simp [hl'] at h2
    subst h1; injection h2 with hx hy; subst hx
    exact cmTy_common_instance db F G t o1 o2 t' _ ht ht'
  all_goals (
    exfalso
    repeat (first
      | (split at h1 <;> try (simp at h1))
      | (split at h2 <;> try (simp at h2)))
    all_goals (try (subst h1; cases h2)))

end Chalk

namespace Chalk

theorem cmAlias_common_instance (db : UDb) (F G : Folder) (o1 o2 : Nat) (a b c : Alias)
    (h1 : foldAlias F o1 a = .ok c) (h2 : foldAlias G o2 b = .ok c) : cmAlias db a b ≠ .ok false := by
  cases a <;> cases b <;> simp only [foldAlias] at h1 h2 <;> simp only [cmAlias]
  case proj.proj id a id' a' =>
    cases ha : foldArgs F o1 a <;> simp [ha] at h1
    cases hb : foldArgs G o2 a' <;> simp [hb] at h2
    subst h1; injection h2 with hi hx; subst hx
    exact cmNamed_common_instance db F G o1 o2 _ _ _ _ _ hi.symm ha hb
  case opaque.opaque id a id' a' =>
    cases ha : foldArgs F o1 a <;> simp [ha] at h1
    cases hb : foldArgs G o2 a' <;> simp [hb] at h2
    subst h1; injection h2 with hi hx; subst hx
    exact cmNamed_common_instance db F G o1 o2 _ _ _ _ _ hi.symm ha hb
  all_goals (
    exfalso
    repeat (first
      | (split at h1 <;> try (simp at h1))
      | (split at h2 <;> try (simp at h2)))
    all_goals (try (subst h1; cases h2)))

/-- a clause conclusion and a goal with a common instance are never rejected -/
theorem cmDomainGoal_common_instance (db : UDb) (F G : Folder) (o1 o2 : Nat) (a b c : DomainGoal)
    (h1 : foldDomainGoal F o1 a = .ok c) (h2 : foldDomainGoal G o2 b = .ok c) :
    cmDomainGoal db a b ≠ .ok false := by
  cases a <;> cases b <;> simp only [foldDomainGoal] at h1 h2 <;> simp only [cmDomainGoal]
  case holds.holds w w' =>
    cases ha : foldWC F o1 w <;> simp [ha] at h1
    cases hb : foldWC G o2 w' <;> simp [hb] at h2
    subst h1; injection h2 with hx; subst hx
    exact cmWC_common_instance db F G o1 o2 _ _ _ ha hb
  case wfTrait.wfTrait tr a tr' a' =>
    cases ha : foldArgs F o1 a <;> simp [ha] at h1
    cases hb : foldArgs G o2 a' <;> simp [hb] at h2
    subst h1; injection h2 with hi hx; subst hx
    exact cmNamed_common_instance db F G o1 o2 _ _ _ _ _ hi.symm ha hb
  case fromEnvTrait.fromEnvTrait tr a tr' a' =>
    cases ha : foldArgs F o1 a <;> simp [ha] at h1
    cases hb : foldArgs G o2 a' <;> simp [hb] at h2
    subst h1; injection h2 with hi hx; subst hx
    exact cmNamed_common_instance db F G o1 o2 _ _ _ _ _ hi.symm ha hb
  case localImplAllowed.localImplAllowed tr a tr' a' =>
    cases ha : foldArgs F o1 a <;> simp [ha] at h1
    cases hb : foldArgs G o2 a' <;> simp [hb] at h2
    subst h1; injection h2 with hi hx; subst hx
    exact cmNamed_common_instance db F G o1 o2 _ _ _ _ _ hi.symm ha hb
  case wfTy.wfTy t t' =>
    cases ha : foldTy F o1 t <;> simp [ha] at h1
    cases hb : foldTy G o2 t' <;> simp [hb] at h2
    subst h1; injection h2 with hx; subst hx
    exact cmTy_common_instance db F G t o1 o2 t' _ ha hb
  case fromEnvTy.fromEnvTy t t' =>
    cases ha : foldTy F o1 t <;> simp [ha] at h1
    cases hb : foldTy G o2 t' <;> simp [hb] at h2
    subst h1; injection h2 with hx; subst hx
    exact cmTy_common_instance db F G t o1 o2 t' _ ha hb
  case isLocal.isLocal t t' =>
    cases ha : foldTy F o1 t <;> simp [ha] at h1
    cases hb : foldTy G o2 t' <;> simp [hb] at h2
    subst h1; injection h2 with hx; subst hx
    exact cmTy_common_instance db F G t o1 o2 t' _ ha hb
  case isUpstream.isUpstream t t' =>
    cases ha : foldTy F o1 t <;> simp [ha] at h1
    cases hb : foldTy G o2 t' <;> simp [hb] at h2
    subst h1; injection h2 with hx; subst hx
    exact cmTy_common_instance db F G t o1 o2 t' _ ha hb
  case isFullyVisible.isFullyVisible t t' =>
    cases ha : foldTy F o1 t <;> simp [ha] at h1
    cases hb : foldTy G o2 t' <;> simp [hb] at h2
    subst h1; injection h2 with hx; subst hx
    exact cmTy_common_instance db F G t o1 o2 t' _ ha hb
  case downstreamType.downstreamType t t' =>
    cases ha : foldTy F o1 t <;> simp [ha] at h1
    cases hb : foldTy G o2 t' <;> simp [hb] at h2
    subst h1; injection h2 with hx; subst hx
    exact cmTy_common_instance db F G t o1 o2 t' _ ha hb
  case normalize.normalize al t al' t' =>
    cases ha : foldAlias F o1 al <;> simp [ha] at h1
    cases ht : foldTy F o1 t <;> simp [ht] at h1
    cases hb : foldAlias G o2 al' <;> simp [hb] at h2
    cases ht' : foldTy G o2 t' <;> simp [ht'] at h2
    subst h1; injection h2 with hx hy; subst hx; subst hy
    exact andThen_ne_false (cmAlias_common_instance db F G o1 o2 _ _ _ ha hb)
      (cmTy_common_instance db F G t o1 o2 t' _ ht ht')
  case compatible.compatible => simp
  case reveal.reveal => simp
  case objectSafe.objectSafe tr tr' =>
    simp at h1 h2; subst h1; injection h2 with h; simp [h]
  all_goals (
    exfalso
    repeat (first
      | (split at h1 <;> try (simp at h1))
      | (split at h2 <;> try (simp at h2)))
    all_goals (try (simp at h1))
    all_goals (try (simp at h2))
    all_goals (try (subst h1; cases h2))
    all_goals (try (subst h2; cases h1)))

/-- every impl whose header has a common instance with the parameters is kept by the filter -/
theorem implsForTrait_keeps (db : UDb) (traitId : Nat) (params : Args) (F G : Folder) (o1 o2 : Nat) :
    (impls : List (Nat × Args)) → (idx : Nat) → (kept : List Nat) →
    implsForTrait db traitId params impls idx = .ok kept →
    ∀ j hdr, impls[j]? = some (traitId, hdr) →
      (∃ c, foldArgs F o1 params = .ok c ∧ foldArgs G o2 hdr = .ok c) → (idx + j) ∈ kept
  | [], _, _, _, j, hdr, hj, _ => by simp at hj
  | (tr, h) :: rest, idx, kept, hk, j, hdr, hj, hc => by
      simp only [implsForTrait] at hk
      by_cases htr : tr = traitId
      · simp only [htr, if_true] at hk
        split at hk
        · cases hs : cmSlice db params h with
          | error e => simp [hs] at hk
          | ok keep =>
            simp only [hs] at hk
            cases hr : implsForTrait db traitId params rest (idx + 1) with
            | error e => simp [hr] at hk
            | ok ks =>
              simp only [hr] at hk
              injection hk with hk
              cases j with
              | zero =>
                simp at hj
                obtain ⟨c, hp, hh⟩ := hc
                have : cmSlice db params h ≠ .ok false := by
                  rw [hj.2]; exact cmSlice_common_instance db F G o1 o2 _ _ _ hp hh
                cases keep with
                | false => exact absurd hs this
                | true => subst hk; simp
              | succ j =>
                have := implsForTrait_keeps db traitId params F G o1 o2 rest (idx + 1) ks hr j hdr (by simpa using hj) hc
                have e : idx + (j + 1) = idx + 1 + j := by omega
                subst hk
                cases keep <;> simp [e, this]
        · simp at hk
      · simp only [htr, if_false] at hk
        cases j with
        | zero => simp at hj; exact absurd hj.1 htr
        | succ j =>
          have := implsForTrait_keeps db traitId params F G o1 o2 rest (idx + 1) kept hk j hdr (by simpa using hj) hc
          have e : idx + (j + 1) = idx + 1 + j := by omega
          rw [e]; exact this

end Chalk
