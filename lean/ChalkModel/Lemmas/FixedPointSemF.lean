/-
  FixedPointSemF.lean — the loop of `solve_new_subgoal` goes round again (`restart`).
-/
import ChalkModel.Lemmas.FixedPointSemD

namespace Chalk.FixedPoint.Cyc

theorem single_cases {α : Type} (G : List α) (h : α) (i : Nat) (n : α) (hn : (G ++ [h])[i]? = some n) :
    (i < G.length ∧ G[i]? = some n) ∨ (i = G.length ∧ n = h) := by
  rcases mid_cases G h [] i n hn with h1 | h1 | h1
  · exact Or.inl h1
  · exact Or.inr h1
  · cases h1.2.1

section
variable {c : Bool} {inst : Instance} {dom : List Nat} {fx : Bool}
variable {s0 st s1 : St} {g : Nat} {old cur : V} {m : Min} {new : List Node}

/-- everything but stack and graph is kept -/
structure Rest (s1 s2 : St) : Prop where
  cache : s2.cache = s1.cache
  oracle : s2.oracle = s1.oracle
  oracleDefault : s2.oracleDefault = s1.oracleDefault
  interrupted : s2.interrupted = s1.interrupted

theorem Rest.inCache {s1 s2 : St} (R : Rest s1 s2) {k : Nat} {v : V} : InCache s2 k v ↔ InCache s1 k v := by
  unfold InCache
  rw [R.cache]

theorem After.restart (A : After c inst dom fx s0 st s1 g old cur m new) {s2 : St} (R : Rest s1 s2)
    (hst2 : s2.stack = setCycle false s0.stack.length s1.stack)
    (hg2 : s2.graph = s0.graph ++ [headNode s0 g cur]) : LoopSt c inst dom fx s0 g s2 := by
  have hlen2 : s2.stack.length = s0.stack.length + 1 := by rw [hst2, setCycle_length, A.slen]
  have hsext : ∀ (i : Nat) (e : StackEntry), s0.stack[i]? = some e → ∃ e' : StackEntry, s2.stack[i]? = some e' ∧
      e'.coinductiveGoal = e.coinductiveGoal ∧ (e.cycle = true → e'.cycle = true) := by
    intro i e he
    obtain ⟨e', he', h2⟩ := A.sext i e he
    refine ⟨e', ?_, h2⟩
    rw [hst2, setCycle_getElem?_ne _ _ _ _ (Nat.ne_of_lt (getElem?_lt_length he))]
    exact he'
  have hflag : ∀ d, flagAt s0.stack d → flagAt s2.stack d := by
    intro d hd
    obtain ⟨e, he, hc⟩ := hd
    obtain ⟨e', he', _, hf⟩ := hsext d e he
    exact ⟨e', he', hf hc⟩
  have hnode : ∀ {i : Nat} {n : Node}, s2.graph[i]? = some n →
      (i < s0.graph.length ∧ s0.graph[i]? = some n) ∨ (i = s0.graph.length ∧ n = headNode s0 g cur) := by
    intro i n hn
    rw [hg2] at hn
    exact single_cases _ _ i n hn
  have hnode1 : ∀ {i : Nat} {n : Node}, s2.graph[i]? = some n → ∃ n', s1.graph[i]? = some n' ∧ n'.goal = n.goal := by
    intro i n hn
    cases hnode hn with
    | inl h => exact ⟨n, A.g0 h.2, rfl⟩
    | inr h => exact ⟨_, by rw [h.1]; exact A.head, by rw [h.2]; rfl⟩
  have hinv : Inv c inst dom fx s2 := by
    refine ⟨fixes_of_eq A.i1.fixes R.oracle R.oracleDefault R.interrupted, ?_, ?_, ?_, ?_, ?_, ?_, ?_, ?_, ?_, ?_, ?_, ?_⟩
    · intro i n hn ha
      rw [R.interrupted]
      cases hnode hn with
      | inl h => exact A.i1.amb i n (A.g0 h.2) ha
      | inr h =>
        rw [h.2] at ha
        have e : cur = .ambig := ha
        have hf := A.fact
        rw [e] at hf
        exact hf.ambig
    · exact fun k v h => A.i1.cacheOK k v (R.inCache.mp h)
    · intro e he
      obtain ⟨i, hi⟩ := List.getElem?_of_mem he
      rw [hst2] at hi
      by_cases hid : i = s0.stack.length
      · subst hid
        have hlt : s0.stack.length < s1.stack.length := by rw [A.slen]; exact Nat.lt_succ_self _
        obtain ⟨e1, he1⟩ : ∃ e1, s1.stack[s0.stack.length]? = some e1 :=
          ⟨s1.stack[s0.stack.length], List.getElem?_eq_getElem hlt⟩
        rw [setCycle_getElem?_eq _ _ _ _ he1] at hi
        cases hi
        exact A.i1.stackCo e1 (List.mem_of_getElem? he1)
      · rw [setCycle_getElem?_ne _ _ _ _ hid] at hi
        exact A.i1.stackCo e (List.mem_of_getElem? hi)
    · have := A.L.inv.nodup
      rw [A.gt] at this
      rw [hg2]
      simpa [List.map_append, headNode] using this
    · intro i n hn v hc
      obtain ⟨n', hn', hgo⟩ := hnode1 hn
      exact A.i1.disj i n' hn' v (by rw [hgo]; exact R.inCache.mp hc)
    · intro i n hn
      obtain ⟨n', hn', hgo⟩ := hnode1 hn
      rw [← hgo]; exact A.i1.inDom i n' hn'
    · intro i n hn
      cases hnode hn with
      | inl h => exact A.L.i0.val i n h.2
      | inr h => rw [h.2]; exact A.cur_val
    · intro i n hn hb
      cases hnode hn with
      | inl h => exact A.L.i0.approx i n h.2 hb
      | inr h => rw [h.2] at hb ⊢; exact A.fact.not_tgt hb
    · intro i n d hn hd
      cases hnode hn with
      | inl h =>
        have := A.L.i0.stk i n d h.2 hd
        exact ⟨by rw [hlen2]; exact Nat.lt_succ_of_lt this.1, this.2⟩
      | inr h =>
        rw [h.2] at hd ⊢
        simp only [headNode, Option.some.injEq] at hd
        subst hd
        exact ⟨by rw [hlen2]; exact Nat.lt_succ_self _, by rw [h.1]; rfl⟩
    · intro i n hn hd
      cases hnode hn with
      | inl h => exact A.L.i0.nonstk i n h.2 hd
      | inr h => rw [h.2] at hd; cases hd
    · rw [hg2, stackGoals_append, List.length_append, A.L.i0.cnt, hlen2]
      rfl
    · intro i n hn hd htop
      cases hnode hn with
      | inl h =>
        exact J.mono (fun j hj => hj.from0 ⟨_, hg2⟩ hflag) (A.L.i0.just i n h.2 hd htop)
      | inr h => rw [h.2] at hd; cases hd
  refine ⟨A.L.i0, A.L.u0, A.L.gdom, hinv, ⟨cur, hg2⟩, hlen2, hsext,
    fun k v h => R.inCache.mpr (A.cacheExt k v h), ?_, by rw [R.cache, A.step.cacheMode, A.L.cacheMode],
    fun e => by rw [R.interrupted]; exact A.step.intr (A.L.intr e),
    fun q => by
      obtain ⟨q1, i1⟩ := A.L.quiet q
      obtain ⟨q2, i2⟩ := A.step.quiet q1
      exact ⟨⟨by rw [R.oracle]; exact q2.1, by rw [R.oracleDefault]; exact q2.2⟩,
        fun e => by rw [R.interrupted]; exact i2 (i1 e)⟩⟩
  intro k hu hd
  apply loop_low A.L A.i1 A.step A.fact k hu
  cases hd with
  | inl h => exact Or.inl (Or.inl (R.inCache.mp h))
  | inr h =>
    obtain ⟨i, n, hn, hgo, hvn⟩ := h
    cases hnode hn with
    | inl h1 => exact absurd (Or.inr ⟨i, n, h1.2, hgo, hvn⟩) (hu _)
    | inr h1 =>
      rw [h1.2] at hgo hvn
      exact Or.inr ⟨hgo.symm, hvn⟩

end

end Chalk.FixedPoint.Cyc
