/-
  FixedPointMixF.lean — the loop goes round again (mixed polarities): `restart`.
-/
import ChalkModel.Lemmas.FixedPointMixD
import ChalkModel.Lemmas.FixedPointSemF

namespace Chalk.FixedPoint.Mix
open Chalk.FixedPoint.Cyc (JE JA MinLe InCache InGraph Def Undef flagAt StackExt stackGoals
  getElem?_lt_length getElem?_prefix def_or_undef headNode mid_cases mid_at mid_corr Popped
  stackGoals_append stackGoals_nonstack single_cases Rest setCycle_length setCycle_getElem?_ne
  setCycle_getElem?_eq)

section
variable {inst : Instance} {P : Nat → Prop} {dom : List Nat} {lvl : Nat → Nat} {fx : Bool}
variable {s0 st s1 : St} {g : Nat} {old cur : V} {m : Min} {new : List Node}

theorem After.restart (A : After inst P dom lvl fx s0 st s1 g old cur m new) {s2 : St} (R : Rest s1 s2)
    (hst2 : s2.stack = setCycle false s0.stack.length s1.stack)
    (hg2 : s2.graph = s0.graph ++ [headNode s0 g cur]) : LoopSt inst P dom lvl fx s0 g s2 := by
  have hlen2 : s2.stack.length = s0.stack.length + 1 := by rw [hst2, setCycle_length, A.slen]
  have hsext : ∀ (i : Nat) (e : StackEntry), s0.stack[i]? = some e → ∃ e' : StackEntry, s2.stack[i]? = some e' ∧
      e'.coinductiveGoal = e.coinductiveGoal ∧ (e.cycle = true → e'.cycle = true) := by
    intro i e he
    obtain ⟨e', he', h2⟩ := A.sext i e he
    refine ⟨e', ?_, h2⟩
    rw [hst2, setCycle_getElem?_ne _ _ _ _ (Nat.ne_of_lt (getElem?_lt_length he))]
    exact he'
  have hflag : ∀ d, flagAt s0.stack d → flagAt s2.stack d := by
    intro d hd
    obtain ⟨e, he, hc⟩ := hd
    obtain ⟨e', he', _, hf⟩ := hsext d e he
    exact ⟨e', he', hf hc⟩
  have hnode : ∀ {i : Nat} {n : Node}, s2.graph[i]? = some n →
      (i < s0.graph.length ∧ s0.graph[i]? = some n) ∨ (i = s0.graph.length ∧ n = headNode s0 g cur) := by
    intro i n hn
    rw [hg2] at hn
    exact single_cases _ _ i n hn
  have hnode1 : ∀ {i : Nat} {n : Node}, s2.graph[i]? = some n → ∃ n', s1.graph[i]? = some n' ∧ n'.goal = n.goal := by
    intro i n hn
    cases hnode hn with
    | inl h => exact ⟨n, A.g0 h.2, rfl⟩
    | inr h => exact ⟨_, by rw [h.1]; exact A.head, by rw [h.2]; rfl⟩
  have hhead2 : s2.graph[s0.graph.length]? = some (headNode s0 g cur) := by rw [hg2]; exact mid_at _ _ _
  have hinv : Inv inst P dom lvl fx s2 := by
    refine ⟨A.fixes5 R.oracle R.oracleDefault R.interrupted, ?_, ?_, ?_, ?_, ?_, ?_, ?_, ?_, ?_, ?_, ?_, ?_, ?_, ?_⟩
    · intro i n hn ha
      rw [R.interrupted]
      cases hnode hn with
      | inl h => exact A.i1.amb i n (A.g0 h.2) ha
      | inr h =>
        rw [h.2] at ha
        exact A.amb ha
    · exact fun k v h => A.i1.cacheOK k v (R.inCache.mp h)
    · -- stackNode
      intro d e he
      rw [hst2] at he
      by_cases hid : d = s0.stack.length
      · subst hid
        have hlt : s0.stack.length < s1.stack.length := by rw [A.slen]; exact Nat.lt_succ_self _
        have he1 : s1.stack[s0.stack.length]? = some s1.stack[s0.stack.length] := List.getElem?_eq_getElem hlt
        rw [setCycle_getElem?_eq _ _ _ _ he1] at he
        cases he
        obtain ⟨i, n, hn, hd, hc⟩ := A.i1.stackNode _ _ he1
        -- the node at this depth in `s1` is the head node
        have : i = s0.graph.length := by
          rw [A.g1] at hn
          rcases mid_cases _ _ _ i n hn with h1 | h1 | h1
          · have := (A.L.i0.stk i n _ h1.2 hd).1; omega
          · exact h1.1
          · rw [(A.hnew n h1.2.1).1] at hd; cases hd
        subst this
        rw [A.head] at hn
        cases hn
        exact ⟨_, _, hhead2, rfl, hc⟩
      · rw [setCycle_getElem?_ne _ _ _ _ hid] at he
        have hlt : d < s0.stack.length := by
          have := getElem?_lt_length he
          rw [A.slen] at this
          omega
        obtain ⟨e', he', hco, _⟩ := A.sext d s0.stack[d] (List.getElem?_eq_getElem hlt)
        rw [he] at he'
        cases he'
        obtain ⟨i, n, hn, hd, hc⟩ := A.L.i0.stackNode d s0.stack[d] (List.getElem?_eq_getElem hlt)
        exact ⟨i, n, by rw [hg2]; exact getElem?_prefix hn, hd, by rw [hco, hc]⟩
    · -- chain
      intro i n d i' n' d' hn hd hn' hd' hle
      cases hnode hn with
      | inl h =>
        cases hnode hn' with
        | inl h' => exact A.L.i0.chain i n d i' n' d' h.2 hd h'.2 hd' hle
        | inr h' => rw [h'.2]; exact A.L.below i n d h.2 hd
      | inr h =>
        rw [h.2] at hd
        simp only [headNode, Option.some.injEq] at hd
        cases hnode hn' with
        | inl h' =>
          have := (A.L.i0.stk i' n' d' h'.2 hd').1
          omega
        | inr h' => rw [h.2, h'.2]; exact ⟨Nat.le_refl _, fun _ => rfl⟩
    · have := A.L.inv.nodup
      rw [A.gt] at this
      rw [hg2]
      simpa [List.map_append, headNode] using this
    · intro i n hn v hc
      obtain ⟨n', hn', hgo⟩ := hnode1 hn
      exact A.i1.disj i n' hn' v (by rw [hgo]; exact R.inCache.mp hc)
    · intro i n hn
      obtain ⟨n', hn', hgo⟩ := hnode1 hn
      rw [← hgo]; exact A.i1.inDom i n' hn'
    · intro i n hn
      cases hnode hn with
      | inl h => exact A.L.i0.val i n h.2
      | inr h => rw [h.2]; exact A.cur_val
    · intro i n hn hb
      cases hnode hn with
      | inl h => exact A.L.i0.approx i n h.2 hb
      | inr h => rw [h.2] at hb ⊢; exact A.cur_holds hb
    · intro i n d hn hd
      cases hnode hn with
      | inl h =>
        have := A.L.i0.stk i n d h.2 hd
        exact ⟨by rw [hlen2]; exact Nat.lt_succ_of_lt this.1, this.2⟩
      | inr h =>
        rw [h.2] at hd ⊢
        simp only [headNode, Option.some.injEq] at hd
        subst hd
        exact ⟨by rw [hlen2]; exact Nat.lt_succ_self _, by rw [h.1]; rfl⟩
    · intro i n hn hd
      cases hnode hn with
      | inl h => exact A.L.i0.nonstk i n h.2 hd
      | inr h => rw [h.2] at hd; cases hd
    · rw [hg2, stackGoals_append, List.length_append, A.L.i0.cnt, hlen2]
      rfl
    · intro i n hn hd htop
      cases hnode hn with
      | inl h =>
        exact JV.mono (fun j hj => hj.from0 ⟨_, hg2⟩ hflag) (A.L.i0.just i n h.2 hd htop)
      | inr h => rw [h.2] at hd; cases hd
    · intro i n l hn hd hlk
      cases hnode hn with
      | inl h =>
        obtain ⟨n', hn', hle⟩ := A.L.i0.lvlLinks i n l h.2 hd hlk
        exact ⟨n', by rw [hg2]; exact getElem?_prefix hn', hle⟩
      | inr h => rw [h.2] at hd; cases hd
  refine ⟨A.L.hP, A.L.i0, A.L.u0, A.L.gdom, A.L.below, hinv, ⟨cur, hg2⟩, hlen2, hsext,
    fun k v h => R.inCache.mpr (A.cacheExt k v h), ?_, by rw [R.cache, A.step.cacheMode, A.L.cacheMode],
    (A.flags R.oracle R.oracleDefault R.interrupted).1, (A.flags R.oracle R.oracleDefault R.interrupted).2⟩
  intro k hu hd
  apply loop_low A.L A.i1 A.step A.fact k hu
  cases hd with
  | inl h => exact Or.inl (Or.inl (R.inCache.mp h))
  | inr h =>
    obtain ⟨i, n, hn, hgo, hvn⟩ := h
    cases hnode hn with
    | inl h1 => exact absurd (Or.inr ⟨i, n, h1.2, hgo, hvn⟩) (hu _)
    | inr h1 =>
      rw [h1.2] at hgo hvn
      have e : g = k := hgo
      subst e
      exact Or.inr ⟨rfl, hvn⟩

end

end Chalk.FixedPoint.Mix
