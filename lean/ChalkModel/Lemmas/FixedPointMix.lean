/-
  FixedPointMix.lean — the fixed-point iteration of `FixedPoint.lean` on ground instances that MIX
  coinductive and inductive goals but have NO MIXED CYCLE (stratified instances).  Definitions.

  The development `FixedPointSem*.lean` (namespace `Cyc`, one polarity `c`) is generalised: the
  polarity is per goal (`inst.coind k`), the semantic target is an abstract truth predicate `P`
  subject to `Strat` (fixed point of `T`, greatest on coinductive goals, least on inductive goals),
  and stratification is given by a level function `lvl` (`MHyp.lvl_le`: levels do not increase along
  dependencies and strictly decrease across a change of polarity — equivalent, for finite graphs,
  to "no cycle contains goals of both polarities").
-/
import ChalkModel.Lemmas.FixedPointSem

namespace Chalk.FixedPoint.Mix
open Chalk.FixedPoint.Cyc (JE JA InGfp InLfp MinLe InCache InGraph Def Undef flagAt StackExt stackGoals QuietSt)

/-- the optimistic value of goal `k` (`initial_value`) -/
def topOf (inst : Instance) (k : Nat) : V := initialValue (inst.coind k)
/-- the other definite value -/
def botOf (inst : Instance) (k : Nat) : V := if inst.coind k then .noSolution else .unique

/-- `v` is the true answer of `j` w.r.t. the truth predicate `P` -/
def Holds (P : Nat → Prop) (v : V) (j : Nat) : Prop :=
  match v with
  | .unique => P j
  | .noSolution => ¬ P j
  | .ambig => False

/-- justification of the value `v` for goal `k` from a predicate on its sub-goals: `unique` needs an
    alternative all of whose sub-goals satisfy `X`, `noSolution` needs in every alternative a
    sub-goal that satisfies `X` -/
def JV (inst : Instance) (v : V) (X : Nat → Prop) (k : Nat) : Prop :=
  match v with
  | .unique => JE inst X k
  | .noSolution => JA inst X k
  | .ambig => False

/-- the opposite definite value -/
def neg : V → V
  | .unique => .noSolution
  | .noSolution => .unique
  | .ambig => .ambig

theorem topOf_ne_botOf (inst : Instance) (k : Nat) : topOf inst k ≠ botOf inst k := by
  unfold topOf botOf initialValue; cases inst.coind k <;> decide
theorem topOf_ne_ambig (inst : Instance) (k : Nat) : topOf inst k ≠ .ambig := by
  unfold topOf initialValue; cases inst.coind k <;> decide
theorem botOf_ne_ambig (inst : Instance) (k : Nat) : botOf inst k ≠ .ambig := by
  unfold botOf; cases inst.coind k <;> decide
theorem neg_topOf (inst : Instance) (k : Nat) : neg (topOf inst k) = botOf inst k := by
  unfold topOf botOf initialValue; cases inst.coind k <;> rfl
theorem topOf_eq_iff (inst : Instance) (j k : Nat) : topOf inst j = topOf inst k ↔ inst.coind j = inst.coind k := by
  unfold topOf initialValue; cases inst.coind j <;> cases inst.coind k <;> decide
theorem topOf_unique_iff (inst : Instance) (k : Nat) : topOf inst k = .unique ↔ inst.coind k = true := by
  unfold topOf initialValue; cases inst.coind k <;> decide
theorem topOf_noSolution_iff (inst : Instance) (k : Nat) : topOf inst k = .noSolution ↔ inst.coind k = false := by
  unfold topOf initialValue; cases inst.coind k <;> decide
theorem botOf_eq_of_ne {inst : Instance} {j k : Nat} (h : topOf inst j ≠ topOf inst k) :
    botOf inst k = topOf inst j := by
  unfold topOf botOf initialValue at *
  generalize inst.coind j = a at *
  generalize inst.coind k = b at *
  cases a <;> cases b <;> simp_all

theorem JV.mono {inst : Instance} {v : V} {X Y : Nat → Prop} (h : ∀ j, X j → Y j) {k : Nat}
    (hk : JV inst v X k) : JV inst v Y k := by
  cases v with
  | unique => exact JE.mono h hk
  | noSolution => exact JA.mono h hk
  | ambig => exact hk

/-- duality -/
theorem JV.dual {inst : Instance} {v : V} {X : Nat → Prop} {k : Nat}
    (h : JV inst (neg v) (fun j => ¬ X j) k) : ¬ JV inst v X k := by
  cases v with
  | unique =>
    rintro ⟨alt, ha, hj⟩
    obtain ⟨j, hjm, hn⟩ := h alt ha
    exact hn (hj j hjm)
  | noSolution =>
    intro h2
    obtain ⟨alt, ha, hj⟩ := h
    obtain ⟨j, hjm, hx⟩ := h2 alt ha
    exact hj j hjm hx
  | ambig => exact fun h2 => h2

theorem Holds.excl {P : Nat → Prop} {v : V} {j : Nat} (h1 : Holds P v j) (h2 : Holds P (neg v) j) : False := by
  cases v with
  | unique => exact h2 h1
  | noSolution => exact h1 h2
  | ambig => exact h1

theorem Holds.unique {P : Nat → Prop} {v w : V} {j : Nat} (h1 : Holds P v j) (h2 : Holds P w j) : v = w := by
  cases v <;> cases w <;> first | rfl | exact absurd h1 h2 | exact absurd h2 h1 | exact h1.elim | exact h2.elim

/-- the truth predicate of a stratified instance: a fixed point of `T` that is greatest on the
    coinductive goals and least on the inductive goals -/
structure Strat (inst : Instance) (P : Nat → Prop) : Prop where
  fix : ∀ k, P k ↔ JE inst P k
  co : ∀ S : Nat → Prop, (∀ k, S k → inst.coind k = true ∧ JE inst (fun j => S j ∨ P j) k) → ∀ k, S k → P k
  ind : ∀ N : Nat → Prop, (∀ k, N k → inst.coind k = false ∧ JA inst (fun j => N j ∨ ¬ P j) k) →
    ∀ k, N k → ¬ P k

theorem Strat.unfold {inst : Instance} {P : Nat → Prop} (hP : Strat inst P) {v : V} {k : Nat}
    (h : Holds P v k) : JV inst v (Holds P v) k := by
  cases v with
  | unique => exact (hP.fix k).mp h
  | noSolution =>
    intro alt ha
    apply Classical.byContradiction
    intro hn
    apply h
    refine (hP.fix k).mpr ⟨alt, ha, fun j hj => ?_⟩
    apply Classical.byContradiction
    intro hl
    exact hn ⟨j, hj, hl⟩
  | ambig => exact h

/-- `j` may optimistically be taken to have the value `v`: it is an optimistic goal of the
    matching polarity in `S`, or `v` is its true answer -/
def Opt (inst : Instance) (P : Nat → Prop) (S : Nat → Prop) (v : V) (j : Nat) : Prop :=
  (topOf inst j = v ∧ S j) ∨ Holds P v j

theorem Opt.mono {inst : Instance} {P : Nat → Prop} {S S' : Nat → Prop} (h : ∀ j, S j → S' j) {v : V} {j : Nat}
    (hj : Opt inst P S v j) : Opt inst P S' v j := by
  cases hj with
  | inl h1 => exact Or.inl ⟨h1.1, h j h1.2⟩
  | inr h1 => exact Or.inr h1

/-- coinduction/induction principle, polarity-generic: optimistic claims that justify each other
    (within their polarity; across polarities only true answers count) are true -/
theorem Strat.coind {inst : Instance} {P : Nat → Prop} (hP : Strat inst P) (S : Nat → Prop)
    (hS : ∀ k, S k → JV inst (topOf inst k) (Opt inst P S (topOf inst k)) k) :
    ∀ k, S k → Holds P (topOf inst k) k := by
  have hco : ∀ k, (inst.coind k = true ∧ S k) → P k := by
    refine hP.co _ ?_
    rintro k ⟨hc, hk⟩
    refine ⟨hc, ?_⟩
    have := hS k hk
    rw [(topOf_unique_iff inst k).mpr hc] at this
    refine JE.mono ?_ this
    intro j hj
    cases hj with
    | inl h1 => exact Or.inl ⟨(topOf_unique_iff inst j).mp h1.1, h1.2⟩
    | inr h1 => exact Or.inr h1
  have hind : ∀ k, (inst.coind k = false ∧ S k) → ¬ P k := by
    refine hP.ind _ ?_
    rintro k ⟨hc, hk⟩
    refine ⟨hc, ?_⟩
    have := hS k hk
    rw [(topOf_noSolution_iff inst k).mpr hc] at this
    refine JA.mono ?_ this
    intro j hj
    cases hj with
    | inl h1 => exact Or.inl ⟨(topOf_noSolution_iff inst j).mp h1.1, h1.2⟩
    | inr h1 => exact Or.inr h1
  intro k hk
  cases hc : inst.coind k with
  | true => rw [(topOf_unique_iff inst k).mpr hc]; exact hco k ⟨hc, hk⟩
  | false => rw [(topOf_noSolution_iff inst k).mpr hc]; exact hind k ⟨hc, hk⟩

section Sem
variable (inst : Instance) (P : Nat → Prop)

/-- relative optimistic fixed point: the goals that get their optimistic value when every goal the
    state knows is held at its current value (sub-goals of the other polarity count with their
    true answer) -/
def InG (s : St) (k : Nat) : Prop :=
  ∃ S : Nat → Prop, (∀ x, S x → (Def s x (topOf inst x) ∨ Def s x .ambig) ∨
    (Undef s x ∧ JV inst (topOf inst x) (Opt inst P S (topOf inst x)) x)) ∧ S k

/-- the answer `v` for `j` is justified in `s` by nodes at or above `lb`: it is true outright, or it
    is the optimistic value of `j` and a node at `dfn ≥ lb` holds it (if that node is on the stack,
    its cycle flag is set) -/
def Wit (s : St) (lb : Min) (v : V) (j : Nat) : Prop :=
  Holds P v j ∨ ∃ (i : Nat) (n : Node), s.graph[i]? = some n ∧ n.goal = j ∧ n.solution = v ∧
    topOf inst j = v ∧ MinLe lb (some i) ∧ ∀ d, n.stackDepth = some d → flagAt s.stack d

/-- `g` lies below every goal on the stack in the stratification -/
def Below (lvl : Nat → Nat) (s : St) (g : Nat) : Prop :=
  ∀ (i : Nat) (n : Node) (d : Nat), s.graph[i]? = some n → n.stackDepth = some d →
    lvl g ≤ lvl n.goal ∧ (lvl g = lvl n.goal → inst.coind g = inst.coind n.goal)

/-- the state invariant -/
structure Inv (dom : List Nat) (lvl : Nat → Nat) (fx : Bool) (s : St) : Prop where
  /-- the repairs F10 and F16 are assumed (`fx`), or solving is not interrupted at all -/
  fixes : fx = true ∨ (QuietSt s ∧ s.interrupted = false)
  amb : ∀ (i : Nat) (n : Node), s.graph[i]? = some n → n.solution = .ambig → s.interrupted = true
  cacheOK : ∀ k v, InCache s k v → Holds P v k
  stackNode : ∀ (d : Nat) (e : StackEntry), s.stack[d]? = some e → ∃ (i : Nat) (n : Node),
    s.graph[i]? = some n ∧ n.stackDepth = some d ∧ e.coinductiveGoal = inst.coind n.goal
  chain : ∀ (i : Nat) (n : Node) (d : Nat) (i' : Nat) (n' : Node) (d' : Nat), s.graph[i]? = some n →
    n.stackDepth = some d → s.graph[i']? = some n' → n'.stackDepth = some d' → d ≤ d' →
    lvl n'.goal ≤ lvl n.goal ∧ (lvl n'.goal = lvl n.goal → inst.coind n'.goal = inst.coind n.goal)
  nodup : (s.graph.map (·.goal)).Nodup
  disj : ∀ (i : Nat) (n : Node), s.graph[i]? = some n → ∀ v, ¬ InCache s n.goal v
  inDom : ∀ (i : Nat) (n : Node), s.graph[i]? = some n → n.goal ∈ dom
  val : ∀ (i : Nat) (n : Node), s.graph[i]? = some n →
    n.solution = topOf inst n.goal ∨ n.solution = botOf inst n.goal ∨ n.solution = .ambig
  approx : ∀ (i : Nat) (n : Node), s.graph[i]? = some n → n.solution = botOf inst n.goal →
    Holds P n.solution n.goal
  stk : ∀ (i : Nat) (n : Node) (d : Nat), s.graph[i]? = some n → n.stackDepth = some d →
    d < s.stack.length ∧ n.links = some i
  nonstk : ∀ (i : Nat) (n : Node), s.graph[i]? = some n → n.stackDepth = none → ∃ l, n.links = some l ∧ l < i
  cnt : (stackGoals s.graph).length = s.stack.length
  just : ∀ (i : Nat) (n : Node), s.graph[i]? = some n → n.stackDepth = none →
    n.solution = topOf inst n.goal → JV inst n.solution (Wit inst P s n.links n.solution) n.goal
  lvlLinks : ∀ (i : Nat) (n : Node) (l : Nat), s.graph[i]? = some n → n.stackDepth = none →
    n.links = some l → ∃ n' : Node, s.graph[l]? = some n' ∧ lvl n'.goal ≤ lvl n.goal

/-- what a completed `solve_goal` did to the state (`lb`: lower bound of the links of new nodes) -/
structure Step (s s' : St) (lb : Min) : Prop where
  graph : ∃ new, s'.graph = s.graph ++ new ∧ ∀ n : Node, n ∈ new → n.stackDepth = none ∧ MinLe lb n.links
  stack : StackExt s.stack s'.stack
  cacheExt : ∀ k v, InCache s k v → InCache s' k v
  ext : ∀ k v, Def s k v → Def s' k v
  low : ∀ k, Undef s k → Def s' k (botOf inst k) → ¬ InG inst P s k
  cacheMode : s'.cache.isSome = s.cache.isSome
  intr : s.interrupted = true → s'.interrupted = true
  quiet : QuietSt s → QuietSt s' ∧ (s.interrupted = false → s'.interrupted = false)

/-- what a sub-goal call reports about its answer -/
def Fact (s0 s' : St) (m' : Min) (g : Nat) (v : V) : Prop :=
  (v = topOf inst g ∧ Wit inst P s' m' v g) ∨ (v = botOf inst g ∧ Holds P v g ∧ ¬ InG inst P s0 g) ∨
  (v = .ambig ∧ s'.interrupted = true)

/-- the returned minimums, if lowered to an index below `B` (the part of the graph that is stable
    during the call), points at a node that is not above `L` in the stratification -/
def LinkOK (lvl : Nat → Nat) (s' : St) (L B : Nat) (m m' : Min) : Prop :=
  m' = m ∨ ∃ l : Nat, m' = some l ∧ (l < B → ∃ n' : Node, s'.graph[l]? = some n' ∧ lvl n'.goal ≤ L)

end Sem

end Chalk.FixedPoint.Mix
