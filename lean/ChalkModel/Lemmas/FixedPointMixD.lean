/-
  FixedPointMixD.lean — the loop of `solve_new_subgoal` (mixed polarities): state at the start of an
  iteration (`LoopSt`), and what follows from one completed iteration.
-/
import ChalkModel.Lemmas.FixedPointMixB
import ChalkModel.Lemmas.FixedPointSemD

namespace Chalk.FixedPoint.Mix
open Chalk.FixedPoint.Cyc (JE JA MinLe InCache InGraph Def Undef flagAt StackExt stackGoals
  getElem?_lt_length getElem?_prefix def_or_undef headNode mid_cases mid_at mid_corr Popped QuietSt)

theorem Strat.fold {inst : Instance} {P : Nat → Prop} (hP : Strat inst P) {v : V} {k : Nat}
    (h : JV inst v (Holds P v) k) : Holds P v k := by
  cases v with
  | unique => exact (hP.fix k).mpr h
  | noSolution =>
    intro hk
    obtain ⟨alt, ha, hall⟩ := (hP.fix k).mp hk
    obtain ⟨j, hj, hn⟩ := h alt ha
    exact hn (hall j hj)
  | ambig => exact h

section
variable {inst : Instance} {P : Nat → Prop} {dom : List Nat} {lvl : Nat → Nat} {fx : Bool}

/-- `s` is the state at the start of an iteration of the loop for the new goal `g`, which was
    pushed on the state `s0` -/
structure LoopSt (inst : Instance) (P : Nat → Prop) (dom : List Nat) (lvl : Nat → Nat) (fx : Bool) (s0 : St) (g : Nat)
    (s : St) : Prop where
  hP : Strat inst P
  i0 : Inv inst P dom lvl fx s0
  u0 : Undef s0 g
  gdom : g ∈ dom
  below : Below inst lvl s0 g
  inv : Inv inst P dom lvl fx s
  graph : ∃ v, s.graph = s0.graph ++ [headNode s0 g v]
  slen : s.stack.length = s0.stack.length + 1
  sext : ∀ (i : Nat) (e : StackEntry), s0.stack[i]? = some e → ∃ e' : StackEntry, s.stack[i]? = some e' ∧
    e'.coinductiveGoal = e.coinductiveGoal ∧ (e.cycle = true → e'.cycle = true)
  cacheExt : ∀ k v, InCache s0 k v → InCache s k v
  low : ∀ k, Undef s0 k → Def s k (botOf inst k) → ¬ InG inst P s0 k
  cacheMode : s.cache.isSome = s0.cache.isSome
  intr : s0.interrupted = true → s.interrupted = true
  quiet : QuietSt s0 → QuietSt s ∧ (s0.interrupted = false → s.interrupted = false)

theorem LoopSt.ext {s0 s : St} {g : Nat} (L : LoopSt inst P dom lvl fx s0 g s) : ∀ k v, Def s0 k v → Def s k v := by
  intro k v h
  cases h with
  | inl h => exact Or.inl (L.cacheExt k v h)
  | inr h =>
    obtain ⟨i, n, hn, hg, hv⟩ := h
    obtain ⟨w, hw⟩ := L.graph
    exact Or.inr ⟨i, n, by rw [hw]; exact getElem?_prefix hn, hg, hv⟩

theorem LoopSt.inG {s0 s : St} {g : Nat} (L : LoopSt inst P dom lvl fx s0 g s) {k : Nat} (h : InG inst P s0 k) :
    InG inst P s k :=
  InG.mono L.inv L.ext L.low h

theorem LoopSt.gtop {s0 s : St} {g : Nat} (L : LoopSt inst P dom lvl fx s0 g s) : GTop s g := by
  obtain ⟨w, hw⟩ := L.graph
  exact ⟨s0.graph.length, headNode s0 g w, s0.stack.length, by rw [hw]; exact mid_at _ _ _, rfl, rfl,
    L.slen.symm⟩

/-- the pessimistic outcome of an iteration is correct -/
theorem IterFact.holds_bot (hP : Strat inst P) {s s' : St} {m : Min} {g : Nat} {v : V}
    (h : IterFact inst P s s' m g v) (hv : v = botOf inst g) : Holds P v g := by
  rcases h with h | h | h
  · rw [hv] at h; exact absurd h.1.symm (topOf_ne_botOf inst g)
  · exact hP.fold (JV.mono (fun j hj => hj.1) h.2)
  · rw [hv] at h; exact absurd h.1 (botOf_ne_ambig inst g)

theorem IterFact.val {s s' : St} {m : Min} {g : Nat} {v : V} (h : IterFact inst P s s' m g v) :
    v = topOf inst g ∨ v = botOf inst g ∨ v = .ambig := by
  rcases h with h | h | h
  · exact Or.inl h.1
  · exact Or.inr (Or.inl h.1)
  · exact Or.inr (Or.inr h.1)

theorem IterFact.ambig {s s' : St} {m : Min} {g : Nat} (h : IterFact inst P s s' m g .ambig) :
    s'.interrupted = true := by
  rcases h with h | h | h
  · exact absurd h.1.symm (topOf_ne_ambig inst g)
  · exact absurd h.1.symm (botOf_ne_ambig inst g)
  · exact h.2

/-- a pessimistic outcome excludes the optimistic justification relative to the start of the iteration -/
theorem IterFact.not_opt {s s' : St} {m : Min} {g : Nat} {v : V} (h : IterFact inst P s s' m g v)
    (hv : v = botOf inst g) : ¬ JV inst (topOf inst g) (Opt inst P (InG inst P s) (topOf inst g)) g := by
  rcases h with h | h | h
  · rw [hv] at h; exact absurd h.1.symm (topOf_ne_botOf inst g)
  · apply JV.dual
    rw [neg_topOf, ← hv]
    refine JV.mono ?_ h.2
    intro j hj ho
    cases ho with
    | inl h1 => exact hj.2 h1.1 h1.2
    | inr h1 =>
      refine Holds.excl h1 ?_
      rw [neg_topOf, ← hv]; exact hj.1
  · rw [hv] at h; exact absurd h.1 (botOf_ne_ambig inst g)

/-- the relative lower bound, from the state before the push -/
theorem loop_low {s0 st s1 : St} {g : Nat} {m : Min} {cur : V} (L : LoopSt inst P dom lvl fx s0 g st)
    (i1 : Inv inst P dom lvl fx s1) (hs : Step inst P st s1 m) (hf : IterFact inst P st s1 m g cur) :
    ∀ k, Undef s0 k → (Def s1 k (botOf inst k) ∨ (k = g ∧ cur = botOf inst g)) → ¬ InG inst P s0 k := by
  intro k hu hk hin
  cases hk with
  | inl hd =>
    cases def_or_undef st k with
    | inl hdt =>
      obtain ⟨v, hv⟩ := hdt
      have : v = botOf inst k := i1.defFun (hs.ext k v hv) hd
      rw [this] at hv
      exact L.low k hu hv hin
    | inr hut => exact hs.low k hut hd (L.inG hin)
  | inr hk =>
    obtain ⟨hkg, hcur⟩ := hk
    subst hkg
    cases hin.unfold with
    | inl hd => exact hd.elim (hu _) (hu _)
    | inr hj =>
      exact hf.not_opt hcur (JV.mono (fun j hj => hj.mono (fun j' hj' => L.inG hj')) hj.2)

/-- a witness of `s0` is a witness of any state that extends its graph and keeps its flags -/
theorem Wit.from0 {s0 sX : St} {lb : Min} {v : V} {j : Nat} (h : Wit inst P s0 lb v j)
    (hg : ∃ r, sX.graph = s0.graph ++ r) (hfl : ∀ d, flagAt s0.stack d → flagAt sX.stack d) :
    Wit inst P sX lb v j := by
  cases h with
  | inl h => exact Or.inl h
  | inr h =>
    obtain ⟨i, n, hn, hgo, hv, ht, hl, hf⟩ := h
    obtain ⟨r, hr⟩ := hg
    exact Or.inr ⟨i, n, by rw [hr]; exact getElem?_prefix hn, hgo, hv, ht, hl, fun d hd => hfl d (hf d hd)⟩

/-- the situation after one completed iteration of the loop -/
structure After (inst : Instance) (P : Nat → Prop) (dom : List Nat) (lvl : Nat → Nat) (fx : Bool) (s0 st s1 : St) (g : Nat)
    (old cur : V) (m : Min) (new : List Node) : Prop where
  L : LoopSt inst P dom lvl fx s0 g st
  i1 : Inv inst P dom lvl fx s1
  step : Step inst P st s1 m
  fact : IterFact inst P st s1 m g cur
  link : LinkOK lvl s1 (lvl g) st.graph.length none m
  gt : st.graph = s0.graph ++ [headNode s0 g old]
  g1 : s1.graph = s0.graph ++ headNode s0 g old :: new
  hnew : ∀ n : Node, n ∈ new → n.stackDepth = none ∧ MinLe m n.links

theorem After.intro {s0 st s1 : St} {g : Nat} {m : Min} {cur : V} (L : LoopSt inst P dom lvl fx s0 g st)
    (i1 : Inv inst P dom lvl fx s1) (hs : Step inst P st s1 m) (hf : IterFact inst P st s1 m g cur)
    (hk : LinkOK lvl s1 (lvl g) st.graph.length none m) :
    ∃ old new, After inst P dom lvl fx s0 st s1 g old cur m new := by
  obtain ⟨old, hold⟩ := L.graph
  obtain ⟨new, hnew, hn⟩ := hs.graph
  refine ⟨old, new, L, i1, hs, hf, hk, hold, ?_, hn⟩
  rw [hnew, hold, List.append_assoc]
  rfl

section AfterLemmas
variable {s0 st s1 : St} {g : Nat} {old cur : V} {m : Min} {new : List Node}

theorem After.slen (A : After inst P dom lvl fx s0 st s1 g old cur m new) : s1.stack.length = s0.stack.length + 1 := by
  rw [A.step.stack.1, A.L.slen]

theorem After.sext (A : After inst P dom lvl fx s0 st s1 g old cur m new) :
    ∀ (i : Nat) (e : StackEntry), s0.stack[i]? = some e → ∃ e' : StackEntry, s1.stack[i]? = some e' ∧
      e'.coinductiveGoal = e.coinductiveGoal ∧ (e.cycle = true → e'.cycle = true) := by
  intro i e he
  obtain ⟨e', he', hc', hf'⟩ := A.L.sext i e he
  obtain ⟨e'', he'', hc'', hf''⟩ := A.step.stack.2 i e' he'
  exact ⟨e'', he'', hc''.trans hc', fun h => hf'' (hf' h)⟩

theorem After.cacheExt (A : After inst P dom lvl fx s0 st s1 g old cur m new) :
    ∀ k v, InCache s0 k v → InCache s1 k v :=
  fun k v h => A.step.cacheExt k v (A.L.cacheExt k v h)

theorem After.g0 (A : After inst P dom lvl fx s0 st s1 g old cur m new) {i : Nat} {n : Node}
    (h : s0.graph[i]? = some n) : s1.graph[i]? = some n := by
  rw [A.g1]; exact getElem?_prefix h

theorem After.head (A : After inst P dom lvl fx s0 st s1 g old cur m new) :
    s1.graph[s0.graph.length]? = some (headNode s0 g old) := by
  rw [A.g1]; exact mid_at _ _ _

theorem After.cur_val (A : After inst P dom lvl fx s0 st s1 g old cur m new) :
    cur = topOf inst g ∨ cur = botOf inst g ∨ cur = .ambig :=
  A.fact.val

theorem After.amb (A : After inst P dom lvl fx s0 st s1 g old cur m new) (h : cur = .ambig) :
    s1.interrupted = true := by
  have hf := A.fact
  rw [h] at hf
  exact hf.ambig

/-- quiet/interrupted bookkeeping from the state before the push to a state that carries the flags of `s1` -/
theorem After.flags (A : After inst P dom lvl fx s0 st s1 g old cur m new) {s5 : St}
    (e1 : s5.oracle = s1.oracle) (e2 : s5.oracleDefault = s1.oracleDefault) (e3 : s5.interrupted = s1.interrupted) :
    (s0.interrupted = true → s5.interrupted = true) ∧
    (QuietSt s0 → QuietSt s5 ∧ (s0.interrupted = false → s5.interrupted = false)) := by
  refine ⟨fun e => by rw [e3]; exact A.step.intr (A.L.intr e), fun q => ?_⟩
  obtain ⟨q1, i1⟩ := A.L.quiet q
  obtain ⟨q2, i2⟩ := A.step.quiet q1
  exact ⟨⟨by rw [e1]; exact q2.1, by rw [e2]; exact q2.2⟩, fun e => by rw [e3]; exact i2 (i1 e)⟩

theorem After.fixes5 (A : After inst P dom lvl fx s0 st s1 g old cur m new) {s5 : St}
    (e1 : s5.oracle = s1.oracle) (e2 : s5.oracleDefault = s1.oracleDefault) (e3 : s5.interrupted = s1.interrupted) :
    fx = true ∨ (QuietSt s5 ∧ s5.interrupted = false) :=
  A.i1.fixes.imp id (fun q => ⟨⟨by rw [e1]; exact q.1.1, by rw [e2]; exact q.1.2⟩, by rw [e3]; exact q.2⟩)

theorem After.cur_holds (A : After inst P dom lvl fx s0 st s1 g old cur m new) (h : cur = botOf inst g) :
    Holds P cur g :=
  A.fact.holds_bot A.L.hP h

theorem After.popExt (A : After inst P dom lvl fx s0 st s1 g old cur m new) {s5 : St} (Pp : Popped s0 s1 s5) :
    StackExt s0.stack s5.stack := by
  refine ⟨Pp.slen, fun i e he => ?_⟩
  obtain ⟨e', he', h2⟩ := A.sext i e he
  exact ⟨e', by rw [Pp.sget i (getElem?_lt_length he)]; exact he', h2⟩

/-- every entry of the popped stack has its node in the old graph -/
theorem After.popNode (A : After inst P dom lvl fx s0 st s1 g old cur m new) {s5 : St} (Pp : Popped s0 s1 s5) :
    ∀ (d : Nat) (e : StackEntry), s5.stack[d]? = some e → ∃ (i : Nat) (n : Node),
      s0.graph[i]? = some n ∧ n.stackDepth = some d ∧ e.coinductiveGoal = inst.coind n.goal := by
  intro d e he
  have hlt : d < s0.stack.length := by rw [← Pp.slen]; exact getElem?_lt_length he
  rw [Pp.sget d hlt] at he
  obtain ⟨e', he', hco, _⟩ := A.sext d s0.stack[d] (List.getElem?_eq_getElem hlt)
  rw [he] at he'
  cases he'
  obtain ⟨i, n, hn, hd, hc⟩ := A.L.i0.stackNode d s0.stack[d] (List.getElem?_eq_getElem hlt)
  exact ⟨i, n, hn, hd, by rw [hco, hc]⟩

/-- a witness in `s1`, seen from a state that keeps the nodes other than the head node -/
theorem After.wit (A : After inst P dom lvl fx s0 st s1 g old cur m new) {s5 : St} (Pp : Popped s0 s1 s5)
    {h5 : Node} (hg5 : s5.graph = s0.graph ++ h5 :: new) (hgo : h5.goal = g) (hsd : h5.stackDepth = none)
    (hv : flagAt s1.stack s0.stack.length → old = h5.solution)
    {lb : Min} {v : V} {j : Nat} (h : Wit inst P s1 lb v j) : Wit inst P s5 lb v j := by
  cases h with
  | inl h => exact Or.inl h
  | inr h =>
    obtain ⟨i, n, hn, hgn, hvn, ht, hl, hf⟩ := h
    rw [A.g1] at hn
    obtain ⟨n', hn', hc⟩ := mid_corr s0.graph (headNode s0 g old) h5 new i n hn
    rw [← hg5] at hn'
    cases hc with
    | inl hc =>
      obtain ⟨_, e2, e3⟩ := hc
      subst e2; subst e3
      refine Or.inr ⟨i, _, hn', hgo.trans hgn, ?_, ht, hl, fun d hd => ?_⟩
      · rw [← hv (hf _ rfl)]; exact hvn
      · rw [hsd] at hd; cases hd
    | inr hc =>
      obtain ⟨hne, e⟩ := hc
      subst e
      refine Or.inr ⟨i, _, hn', hgn, hvn, ht, hl, fun d hd => ?_⟩
      rcases mid_cases _ _ _ i _ hn with h1 | h1 | h1
      · have := (A.L.i0.stk i _ d h1.2 hd).1
        exact Pp.flag this (hf d hd)
      · exact absurd h1.1 hne
      · rw [(A.hnew _ h1.2.1).1] at hd; cases hd

end AfterLemmas

end

end Chalk.FixedPoint.Mix
