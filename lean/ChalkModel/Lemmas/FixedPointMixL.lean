/-
  FixedPointMixL.lean — TOTALITY (mixed polarities), part 2: the iteration is monotone in the
  provisional answer of the head.
-/
import ChalkModel.Lemmas.FixedPointMixK

namespace Chalk.FixedPoint.Mix
open Chalk.FixedPoint.Cyc (JE JA MinLe InCache InGraph Def Undef flagAt StackExt stackGoals
  getElem?_lt_length getElem?_prefix def_or_undef headNode mid_cases mid_at single_cases Rest)

section
variable {inst : Instance} {P : Nat → Prop} {dom : List Nat} {lvl : Nat → Nat} {fx : Bool}
variable {s0 st s1 : St} {g : Nat} {old cur : V} {m : Min} {new : List Node}

theorem After.st_node (A : After inst P dom lvl fx s0 st s1 g old cur m new) {i : Nat} {n : Node}
    (h : st.graph[i]? = some n) : i ≤ s0.graph.length ∧ s1.graph[i]? = some n := by
  rw [A.gt] at h
  cases single_cases _ _ i n h with
  | inl h1 => exact ⟨Nat.le_of_lt h1.1, A.g0 h1.2⟩
  | inr h1 => rw [h1.1, h1.2]; exact ⟨Nat.le_refl _, A.head⟩

/-- an optimistic outcome of the iteration is justified relative to the state the iteration
    started from (upper bound) -/
theorem After.top_inG (A : After inst P dom lvl fx s0 st s1 g old cur m new) (hc : cur = topOf inst g) :
    JV inst (topOf inst g) (Opt inst P (InG inst P st) (topOf inst g)) g := by
  have hw : ∀ {lb : Min} {v : V} {j : Nat}, Wit inst P s1 lb v j →
      Opt inst P (fun k => (∃ n : Node, n ∈ new ∧ n.goal = k ∧ n.solution = topOf inst k) ∨ InG inst P st k) v j := by
    intro lb v j hw
    cases hw with
    | inl h => exact Or.inr h
    | inr h =>
      obtain ⟨i, n, hn, hgo, hv, ht, _, _⟩ := h
      left
      refine ⟨ht, ?_⟩
      rw [A.g1] at hn
      rcases mid_cases _ _ _ i n hn with h1 | h1 | h1
      · exact Or.inr (InG.of_def_top (Or.inr ⟨i, n, by rw [A.gt]; exact getElem?_prefix h1.2, hgo,
          by rw [ht]; exact hv⟩))
      · rw [h1.2] at hgo hv
        exact Or.inr (InG.of_def_top (Or.inr ⟨s0.graph.length, _, by rw [A.gt]; exact mid_at _ _ _, hgo,
          by rw [ht]; exact hv⟩))
      · exact Or.inl ⟨n, h1.2.1, hgo, by rw [ht]; exact hv⟩
  have hS : ∀ k, (∃ n : Node, n ∈ new ∧ n.goal = k ∧ n.solution = topOf inst k) → InG inst P st k := by
    refine InG.coind _ ?_
    intro x hx
    obtain ⟨n, hn, hgo, hv⟩ := hx
    obtain ⟨i, hi, hn1⟩ := A.new_index hn
    refine Or.inr ⟨?_, ?_⟩
    · intro v hd
      cases hd with
      | inl hd => exact A.i1.disj i n hn1 v (by rw [hgo]; exact A.step.cacheExt x v hd)
      | inr hd =>
        obtain ⟨i', n', hn', hgo', _⟩ := hd
        obtain ⟨hle, hn1'⟩ := A.st_node hn'
        have : i' = i := A.i1.index_inj hn1' hn1 (hgo'.trans hgo.symm)
        omega
    · rw [← hgo] at hv ⊢
      have := A.i1.just i n hn1 (A.hnew n hn).1 hv
      rw [hv] at this
      exact JV.mono (fun j hj => hw hj) this
  rcases A.fact with h | h | h
  · rw [← hc]
    refine JV.mono (fun j hj => ?_) h.2
    exact (hw hj).mono (fun k hk => hk.elim (hS k) id)
  · rw [hc] at h; exact absurd h.1 (topOf_ne_botOf inst g)
  · rw [hc] at h; exact absurd h.1 (topOf_ne_ambig inst g)

/-- after a pessimistic outcome the next iteration starts from a smaller relative fixed point -/
theorem After.restart_sub (A : After inst P dom lvl fx s0 st s1 g old cur m new) (hb : cur = botOf inst g)
    {s2 : St} (R : Rest s1 s2) (hg2 : s2.graph = s0.graph ++ [headNode s0 g cur]) :
    ∀ k, InG inst P s2 k → InG inst P st k := by
  have hnode2 : ∀ {i : Nat} {n : Node}, s2.graph[i]? = some n →
      (i < s0.graph.length ∧ s0.graph[i]? = some n) ∨ (i = s0.graph.length ∧ n = headNode s0 g cur) := by
    intro i n hn
    rw [hg2] at hn
    exact single_cases _ _ i n hn
  -- the head of `s2` holds the pessimistic value: neither optimistic nor `ambig`
  have hhead : ∀ {n : Node} {x : Nat} {w : V}, n = headNode s0 g cur → n.goal = x →
      (w = topOf inst x ∨ w = .ambig) → n.solution = w → False := by
    intro n x w e hgo hw hv
    rw [e] at hgo hv
    have e1 : g = x := hgo
    subst e1
    have e2 : cur = w := hv
    rw [hb] at e2
    cases hw with
    | inl e3 => rw [e3] at e2; exact topOf_ne_botOf inst g e2.symm
    | inr e3 => rw [e3] at e2; exact botOf_ne_ambig inst g e2
  have hopt21 : ∀ x w, (w = topOf inst x ∨ w = .ambig) → Def s2 x w → Def s1 x w := by
    intro x w hw hd
    cases hd with
    | inl h => exact Or.inl (R.inCache.mp h)
    | inr h =>
      obtain ⟨i, n, hn, hgo, hv⟩ := h
      cases hnode2 hn with
      | inl h1 => exact Or.inr ⟨i, n, A.g0 h1.2, hgo, hv⟩
      | inr h1 => exact (hhead h1.2 hgo hw hv).elim
  have hdef2 : ∀ x v, Def st x v → ∃ v', Def s2 x v' := by
    intro x v hd
    cases hd with
    | inl h => exact ⟨v, Or.inl (R.inCache.mpr (A.step.cacheExt x v h))⟩
    | inr h =>
      obtain ⟨i, n, hn, hgo, hv⟩ := h
      rw [A.gt] at hn
      cases single_cases _ _ i n hn with
      | inl h1 => exact ⟨v, Or.inr ⟨i, n, by rw [hg2]; exact getElem?_prefix h1.2, hgo, hv⟩⟩
      | inr h1 =>
        rw [h1.2] at hgo
        exact ⟨cur, Or.inr ⟨s0.graph.length, headNode s0 g cur, by rw [hg2]; exact mid_at _ _ _, hgo, rfl⟩⟩
  refine InG.coind _ ?_
  intro x hx
  cases def_or_undef st x with
  | inl hd =>
    obtain ⟨v, hv⟩ := hd
    cases hx.unfold with
    | inl h2 =>
      left
      cases h2 with
      | inl h3 =>
        have : v = topOf inst x := A.i1.defFun (A.step.ext x v hv) (hopt21 x _ (Or.inl rfl) h3)
        rw [this] at hv
        exact Or.inl hv
      | inr h3 =>
        have : v = .ambig := A.i1.defFun (A.step.ext x v hv) (hopt21 x _ (Or.inr rfl) h3)
        rw [this] at hv
        exact Or.inr hv
    | inr h2 =>
      obtain ⟨v', hv'⟩ := hdef2 x v hv
      exact absurd hv' (h2.1 v')
  | inr hu =>
    refine Or.inr ⟨hu, ?_⟩
    cases hx.unfold with
    | inl h2 =>
      have hcache : ∀ w, (w = topOf inst x ∨ w = .ambig) → Def s2 x w → Holds P (topOf inst x) x := by
        intro w hw hd
        cases hd with
        | inl hc =>
          have hc1 : InCache s1 x w := R.inCache.mp hc
          have hh := A.i1.cacheOK x _ hc1
          cases hw with
          | inl e => rw [e] at hh; exact hh
          | inr e => rw [e] at hh; exact hh.elim
        | inr hgph =>
          exfalso
          obtain ⟨i, n, hn, hgo, hv⟩ := hgph
          cases hnode2 hn with
          | inl h1 => exact hu _ (Or.inr ⟨i, n, by rw [A.gt]; exact getElem?_prefix h1.2, hgo, hv⟩)
          | inr h1 => exact hhead h1.2 hgo hw hv
      have ht : Holds P (topOf inst x) x := h2.elim (hcache _ (Or.inl rfl)) (hcache _ (Or.inr rfl))
      cases (A.L.inv.tgt_sub_InG A.L.hP ht).unfold with
      | inl h => exact h.elim (fun h' => absurd h' (hu _)) (fun h' => absurd h' (hu _))
      | inr h => exact JV.mono (fun j hj => hj.mono (fun k hk => Or.inr hk)) h.2
    | inr h2 => exact JV.mono (fun j hj => hj.mono (fun k hk => Or.inl hk)) h2.2

end

end Chalk.FixedPoint.Mix
