/-
  FixedPointSemG.lean — leaving the loop of `solve_new_subgoal` as the head of its component:
  the nodes from `dfn` on are moved to the cache (`finish_cache`); their answers are correct.
-/
import ChalkModel.Lemmas.FixedPointSemD

namespace Chalk.FixedPoint.Cyc

/-! ### the drain loop of `move_to_cache` -/

theorem drain_sub (dfn : Nat) : ∀ (ns : List Node) (cc cc' : List (Nat × V)),
    drainToCache dfn ns cc = .ok cc' → ∀ k v, cacheGet cc' k = some v →
      cacheGet cc k = some v ∨ ∃ n : Node, n ∈ ns ∧ n.goal = k ∧ n.solution = v
  | [], cc, cc', h, k, v, hk => by
    simp only [drainToCache] at h
    cases h
    exact Or.inl hk
  | n :: ns, cc, cc', h, k, v, hk => by
    simp only [drainToCache] at h
    split at h
    · cases h
    · split at h
      · cases h
      · cases drain_sub dfn ns _ cc' h k v hk with
        | inl h1 =>
          rw [cacheGet_insert] at h1
          by_cases hg : n.goal = k
          · simp only [hg, if_true, Option.some.injEq] at h1
            exact Or.inr ⟨n, List.mem_cons_self .., hg, h1⟩
          · simp only [hg, if_false] at h1
            exact Or.inl h1
        | inr h1 =>
          obtain ⟨n', hn', h2⟩ := h1
          exact Or.inr ⟨n', List.mem_cons_of_mem _ hn', h2⟩

theorem drain_keep (dfn : Nat) : ∀ (ns : List Node) (cc cc' : List (Nat × V)),
    drainToCache dfn ns cc = .ok cc' → ∀ k v, cacheGet cc k = some v → (∀ n : Node, n ∈ ns → n.goal ≠ k) →
      cacheGet cc' k = some v
  | [], cc, cc', h, k, v, hk, _ => by
    simp only [drainToCache] at h
    cases h
    exact hk
  | n :: ns, cc, cc', h, k, v, hk, hne => by
    simp only [drainToCache] at h
    split at h
    · cases h
    · split at h
      · cases h
      · apply drain_keep dfn ns _ cc' h k v ?_ (fun n' hn' => hne n' (List.mem_cons_of_mem _ hn'))
        rw [cacheGet_insert]
        simp only [hne n (List.mem_cons_self ..), if_false]
        exact hk

section
variable {c : Bool} {inst : Instance} {dom : List Nat} {fx : Bool}
variable {s0 st s1 : St} {g : Nat} {old cur : V} {m : Min} {new : List Node}

theorem After.new_index (A : After c inst dom fx s0 st s1 g old cur m new) {n : Node} (hn : n ∈ new) :
    ∃ i, s0.graph.length < i ∧ s1.graph[i]? = some n := by
  obtain ⟨j, hj⟩ := List.getElem?_of_mem hn
  refine ⟨s0.graph.length + (j + 1), by omega, ?_⟩
  rw [A.g1, List.getElem?_append_right (by omega)]
  have : s0.graph.length + (j + 1) - s0.graph.length = j + 1 := by omega
  rw [this, List.getElem?_cons_succ]
  exact hj

/-- the nodes that are moved to the cache -/
def drained (g : Nat) (cur : V) (m : Min) (new : List Node) : List Node := (⟨g, cur, none, m⟩ : Node) :: new

/-- a drained node, seen in `s1`: its index is at or above the head's -/
theorem After.drained_index (A : After c inst dom fx s0 st s1 g old cur m new) {n : Node}
    (hn : n ∈ drained g cur m new) :
    ∃ i n', s0.graph.length ≤ i ∧ s1.graph[i]? = some n' ∧ n'.goal = n.goal := by
  cases List.mem_cons.mp hn with
  | inl e => exact ⟨_, _, Nat.le_refl _, A.head, by rw [e]; rfl⟩
  | inr e =>
    obtain ⟨i, hi, hn'⟩ := A.new_index e
    exact ⟨i, n, Nat.le_of_lt hi, hn', rfl⟩

/-- the answers of the drained nodes are correct -/
theorem After.drained_corr (A : After c inst dom fx s0 st s1 g old cur m new)
    (hfl : ¬ flagAt s1.stack s0.stack.length ∨ old = cur) (hm : MinLe (some s0.graph.length) m) :
    ∀ n : Node, n ∈ drained g cur m new → n.solution ≠ .ambig → Corr c inst n.goal n.solution := by
  -- the optimistic ones justify each other
  have hS : ∀ k, (∃ n : Node, n ∈ drained g cur m new ∧ n.goal = k ∧ n.solution = top c) →
      J c inst (fun j => (∃ n : Node, n ∈ drained g cur m new ∧ n.goal = j ∧ n.solution = top c) ∨
        Tgt c inst j) k := by
    have hw : ∀ {lb : Min} {j : Nat}, MinLe (some s0.graph.length) lb → Wit c inst s1 lb j →
        (∃ n : Node, n ∈ drained g cur m new ∧ n.goal = j ∧ n.solution = top c) ∨ Tgt c inst j := by
      intro lb j hlb hw
      cases hw with
      | inl h => exact Or.inr h
      | inr h =>
        obtain ⟨i, n, hn, hgo, hv, hl, hf⟩ := h
        have hle : s0.graph.length ≤ i := hlb.trans hl
        rw [A.g1] at hn
        rcases mid_cases _ _ _ i n hn with h1 | h1 | h1
        · exact absurd h1.1 (Nat.not_lt.mpr hle)
        · left
          rw [h1.2] at hgo hv hf
          have hflag : flagAt s1.stack s0.stack.length := hf _ rfl
          have : old = cur := by
            cases hfl with
            | inl h => exact absurd hflag h
            | inr h => exact h
          refine ⟨_, List.mem_cons_self .., hgo, ?_⟩
          show cur = top c
          rw [← this]; exact hv
        · left
          exact ⟨n, List.mem_cons_of_mem _ h1.2.1, hgo, hv⟩
    intro k hk
    obtain ⟨n, hn, hgo, hv⟩ := hk
    cases List.mem_cons.mp hn with
    | inl e =>
      rw [e] at hgo hv
      subst hgo
      rcases A.fact with h | h | h
      · exact J.mono (fun j hj => hw hm hj) h.2
      · rw [h.1] at hv; exact absurd hv.symm (top_ne_bot c)
      · rw [h.1] at hv; exact absurd hv.symm (top_ne_ambig c)
    | inr e =>
      obtain ⟨i, _, hn1⟩ := A.new_index e
      rw [← hgo]
      exact J.mono (fun j hj => hw (hm.trans (A.hnew n e).2) hj) (A.i1.just i n hn1 (A.hnew n e).1 hv)
  have htgt := Tgt.coind (c := c) (inst := inst) _ hS
  intro n hn hna
  have hval : n.solution = top c ∨ n.solution = bot c ∨ n.solution = .ambig := by
    cases List.mem_cons.mp hn with
    | inl e => rw [e]; exact A.cur_val
    | inr e =>
      obtain ⟨i, _, hn1⟩ := A.new_index e
      exact A.i1.val i n hn1
  rcases hval with h | h | h
  · exact Or.inl ⟨h, htgt n.goal ⟨n, hn, rfl, h⟩⟩
  · refine Or.inr ⟨h, ?_⟩
    cases List.mem_cons.mp hn with
    | inl e => rw [e] at h ⊢; exact A.fact.not_tgt h
    | inr e =>
      obtain ⟨i, _, hn1⟩ := A.new_index e
      exact A.i1.approx i n hn1 h
  · exact absurd h hna

theorem After.finish_cache (A : After c inst dom fx s0 st s1 g old cur m new) {s6 : St}
    (P : Popped s0 s1 { s6 with cache := s1.cache })
    (hfl : ¬ flagAt s1.stack s0.stack.length ∨ old = cur) (hm : MinLe (some s0.graph.length) m)
    (hg6 : s6.graph = s0.graph) (cc1 cc6 : List (Nat × V)) (hc1 : s1.cache = some cc1)
    (hc6 : s6.cache = some cc6)
    (hdr : drainToCache s0.graph.length (drained g cur m new) cc1 = .ok cc6)
    (hni : s1.interrupted = false) :
    Inv c inst dom fx s6 ∧ (∀ lb, Step c inst s0 s6 lb) ∧ Corr c inst g cur := by
  have hna : ∀ n : Node, n ∈ drained g cur m new → n.solution ≠ .ambig := by
    intro n hn ha
    have : s1.interrupted = true := by
      cases List.mem_cons.mp hn with
      | inl e =>
        rw [e] at ha
        have e' : cur = .ambig := ha
        have hf := A.fact
        rw [e'] at hf
        exact hf.ambig
      | inr e =>
        obtain ⟨i, _, hn1⟩ := A.new_index e
        exact A.i1.amb i n hn1 ha
    rw [hni] at this
    cases this
  have hcorr := fun n hn => A.drained_corr hfl hm n hn (hna n hn)
  have h6i : s6.interrupted = s1.interrupted := P.interrupted
  have h6o : s6.oracle = s1.oracle := P.oracle
  have h6d : s6.oracleDefault = s1.oracleDefault := P.oracleDefault
  have hext : StackExt s0.stack s6.stack := A.popExt (s5 := { s6 with cache := s1.cache }) P
  have hflag : ∀ d, flagAt s0.stack d → flagAt s6.stack d := fun d hd => hext.flag hd
  -- a drained goal is not a goal of the old graph, nor in the old cache
  have hfresh : ∀ n : Node, n ∈ drained g cur m new → ∀ v, ¬ InCache s1 n.goal v := by
    intro n hn v hc
    obtain ⟨i, n', _, hn', hgo⟩ := A.drained_index hn
    exact A.i1.disj i n' hn' v (by rw [hgo]; exact hc)
  have hsub : ∀ k v, InCache s6 k v → InCache s1 k v ∨
      ∃ n : Node, n ∈ drained g cur m new ∧ n.goal = k ∧ n.solution = v := by
    intro k v h
    obtain ⟨cc, e, hk⟩ := h
    rw [hc6] at e
    cases e
    cases drain_sub _ _ _ _ hdr k v hk with
    | inl h => exact Or.inl ⟨cc1, hc1, h⟩
    | inr h => exact Or.inr h
  have hkeep : ∀ k v, InCache s1 k v → InCache s6 k v := by
    intro k v h
    obtain ⟨cc, e, hk⟩ := h
    rw [hc1] at e
    cases e
    refine ⟨cc6, hc6, drain_keep _ _ _ _ hdr k v hk ?_⟩
    intro n hn hgo
    exact hfresh n hn v (by rw [hgo]; exact ⟨cc1, hc1, hk⟩)
  have hinv : Inv c inst dom fx s6 := by
    refine ⟨fixes_of_eq A.i1.fixes h6o h6d h6i, ?_, ?_, A.popCo (s5 := { s6 with cache := s1.cache }) P, ?_, ?_, ?_, ?_, ?_, ?_, ?_, ?_, ?_⟩
    · intro i n hn ha
      rw [hg6] at hn
      rw [h6i]
      exact A.i1.amb i n (A.g0 hn) ha
    · intro k v h
      cases hsub k v h with
      | inl h => exact A.i1.cacheOK k v h
      | inr h =>
        obtain ⟨n, hn, hgo, hv⟩ := h
        rw [← hgo, ← hv]; exact hcorr n hn
    · rw [hg6]; exact A.L.i0.nodup
    · intro i n hn v hc
      rw [hg6] at hn
      cases hsub _ v hc with
      | inl h => exact A.i1.disj i n (A.g0 hn) v h
      | inr h =>
        obtain ⟨n', hn', hgo, _⟩ := h
        obtain ⟨i', n'', hle, hn'', hgo''⟩ := A.drained_index hn'
        have : i' = i := A.i1.index_inj hn'' (A.g0 hn) (hgo''.trans hgo)
        have := getElem?_lt_length hn
        omega
    · rw [hg6]; exact A.L.i0.inDom
    · rw [hg6]; exact A.L.i0.val
    · rw [hg6]; exact A.L.i0.approx
    · intro i n d hn hd
      rw [hg6] at hn
      have := A.L.i0.stk i n d hn hd
      exact ⟨by rw [hext.1]; exact this.1, this.2⟩
    · rw [hg6]; exact A.L.i0.nonstk
    · rw [hg6, hext.1]; exact A.L.i0.cnt
    · intro i n hn hd htop
      rw [hg6] at hn
      exact J.mono (fun j hj => hj.from0 ⟨[], by rw [hg6, List.append_nil]⟩ hflag) (A.L.i0.just i n hn hd htop)
  refine ⟨hinv, fun lb => ⟨⟨[], by rw [hg6, List.append_nil], fun n hn => by cases hn⟩, hext,
    fun k v h => hkeep k v (A.cacheExt k v h), ?_, ?_,
    by rw [hc6, ← A.L.cacheMode, ← A.step.cacheMode, hc1]; rfl,
    fun e => by rw [h6i]; exact A.step.intr (A.L.intr e),
    fun q => by
      obtain ⟨q1, i1⟩ := A.L.quiet q
      obtain ⟨q2, i2⟩ := A.step.quiet q1
      exact ⟨⟨by rw [h6o]; exact q2.1, by rw [h6d]; exact q2.2⟩, fun e => by rw [h6i]; exact i2 (i1 e)⟩⟩,
    hcorr _ (List.mem_cons_self ..)⟩
  · intro k v h
    cases h with
    | inl h => exact Or.inl (hkeep k v (A.cacheExt k v h))
    | inr h =>
      obtain ⟨i, n, hn, h2⟩ := h
      exact Or.inr ⟨i, n, by rw [hg6]; exact hn, h2⟩
  · intro k hu hd
    apply loop_low A.L A.i1 A.step A.fact k hu
    cases hd with
    | inl h =>
      cases hsub k _ h with
      | inl h => exact Or.inl (Or.inl h)
      | inr h =>
        obtain ⟨n, hn, hgo, hv⟩ := h
        cases List.mem_cons.mp hn with
        | inl e =>
          rw [e] at hgo hv
          exact Or.inr ⟨hgo.symm, hv⟩
        | inr e =>
          obtain ⟨i, _, hn1⟩ := A.new_index e
          exact Or.inl (Or.inr ⟨i, n, hn1, hgo, hv⟩)
    | inr h =>
      obtain ⟨i, n, hn, h2⟩ := h
      rw [hg6] at hn
      exact absurd (Or.inr ⟨i, n, hn, h2⟩) (hu _)

/-- caching disabled (or, generally, the cache left alone): the nodes from `dfn` on are dropped
    (`rollback_to(dfn)`); the answer of the head is correct all the same -/
theorem After.finish_discard (A : After c inst dom fx s0 st s1 g old cur m new) {s6 : St}
    (P : Popped s0 s1 s6) (hfl : cur ≠ .ambig → ¬ flagAt s1.stack s0.stack.length ∨ old = cur)
    (hm : MinLe (some s0.graph.length) m) (hg6 : s6.graph = s0.graph) :
    Inv c inst dom fx s6 ∧ (∀ lb, Step c inst s0 s6 lb) ∧ (cur ≠ .ambig → Corr c inst g cur) := by
  have hext : StackExt s0.stack s6.stack := A.popExt P
  have hflag : ∀ d, flagAt s0.stack d → flagAt s6.stack d := fun d hd => hext.flag hd
  have hinv : Inv c inst dom fx s6 := by
    refine ⟨fixes_of_eq A.i1.fixes P.oracle P.oracleDefault P.interrupted, ?_,
      fun k v h => A.i1.cacheOK k v (P.inCache.mp h), A.popCo P, ?_, ?_, ?_, ?_, ?_, ?_, ?_, ?_, ?_⟩
    · intro i n hn ha
      rw [hg6] at hn
      rw [P.interrupted]
      exact A.i1.amb i n (A.g0 hn) ha
    · rw [hg6]; exact A.L.i0.nodup
    · intro i n hn v hc
      rw [hg6] at hn
      exact A.i1.disj i n (A.g0 hn) v (P.inCache.mp hc)
    · rw [hg6]; exact A.L.i0.inDom
    · rw [hg6]; exact A.L.i0.val
    · rw [hg6]; exact A.L.i0.approx
    · intro i n d hn hd
      rw [hg6] at hn
      have := A.L.i0.stk i n d hn hd
      exact ⟨by rw [hext.1]; exact this.1, this.2⟩
    · rw [hg6]; exact A.L.i0.nonstk
    · rw [hg6, hext.1]; exact A.L.i0.cnt
    · intro i n hn hd htop
      rw [hg6] at hn
      exact J.mono (fun j hj => hj.from0 ⟨[], by rw [hg6, List.append_nil]⟩ hflag) (A.L.i0.just i n hn hd htop)
  refine ⟨hinv, fun lb => ⟨⟨[], by rw [hg6, List.append_nil], fun n hn => by cases hn⟩, hext,
    fun k v h => P.inCache.mpr (A.cacheExt k v h), ?_, ?_,
    by rw [P.cache, A.step.cacheMode, A.L.cacheMode],
    fun e => by rw [P.interrupted]; exact A.step.intr (A.L.intr e),
    fun q => by
      obtain ⟨q1, i1⟩ := A.L.quiet q
      obtain ⟨q2, i2⟩ := A.step.quiet q1
      exact ⟨⟨by rw [P.oracle]; exact q2.1, by rw [P.oracleDefault]; exact q2.2⟩,
        fun e => by rw [P.interrupted]; exact i2 (i1 e)⟩⟩,
    fun hne => A.drained_corr (hfl hne) hm _ (List.mem_cons_self ..) hne⟩
  · intro k v h
    cases h with
    | inl h => exact Or.inl (P.inCache.mpr (A.cacheExt k v h))
    | inr h =>
      obtain ⟨i, n, hn, h2⟩ := h
      exact Or.inr ⟨i, n, by rw [hg6]; exact hn, h2⟩
  · intro k hu hd
    apply loop_low A.L A.i1 A.step A.fact k hu
    cases hd with
    | inl h => exact Or.inl (Or.inl (P.inCache.mp h))
    | inr h =>
      obtain ⟨i, n, hn, h2⟩ := h
      rw [hg6] at hn
      exact absurd (Or.inr ⟨i, n, hn, h2⟩) (hu _)

end

end Chalk.FixedPoint.Cyc
