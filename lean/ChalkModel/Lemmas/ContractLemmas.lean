import ChalkModel.Contract
import ChalkModel.Lemmas.GoalLemmas

namespace Chalk.Sem

theorem tmsOfList_map_inst (τ : Nat → Tm) : (σ : List Tm) → tmsOfList (σ.map (Tm.inst τ)) = (tmsOfList σ).inst τ
  | [] => by simp [tmsOfList, Tms.inst]
  | t :: ts => by simp [tmsOfList, Tms.inst, tmsOfList_map_inst τ ts]

theorem tmsOfList_inj : (a b : List Tm) → tmsOfList a = tmsOfList b → a = b
  | [], [], _ => rfl
  | [], _ :: _, h => by simp [tmsOfList] at h
  | _ :: _, [], h => by simp [tmsOfList] at h
  | x :: xs, y :: ys, h => by
      simp only [tmsOfList] at h
      injection h with h1 h2
      rw [h1, tmsOfList_inj xs ys h2]

theorem not_instance_of_isInstance_false {σ θ : List Tm} (h : isInstance σ θ = false) :
    ∀ τ : Nat → Tm, σ.map (Tm.inst τ) ≠ θ := by
  intro τ heq
  have h2 : (tmsOfList σ).inst τ = tmsOfList θ := by rw [← tmsOfList_map_inst, heq]
  obtain ⟨σ', hm, _⟩ := matchTms_complete τ (tmsOfList σ) (tmsOfList θ) [] (fun _ _ h => by simp [Asg.get] at h) h2
  simp [isInstance, hm] at h

theorem mem_solutionsAmong {P : Program} {fuel : Nat} {g : Goal} {cands : List (List Tm)} {θ : List Tm}
    (h : θ ∈ solutionsAmong P fuel g cands) : GHolds P [] (g.inst (listSubst θ)) := by
  simp only [solutionsAmong, List.mem_filter, decide_eq_true_eq] at h
  exact (evalGoal_sound P fuel _ []).1 h.2

end Chalk.Sem
