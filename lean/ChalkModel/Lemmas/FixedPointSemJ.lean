/-
  FixedPointSemJ.lean — partial correctness of `solve_goal` and `solve_root_goal` on ground
  instances of one polarity.
-/
import ChalkModel.Lemmas.FixedPointSemI

namespace Chalk.FixedPoint.Cyc

section
variable {c : Bool} {inst : Instance} {dom : List Nat} {cfg : Cfg}

theorem not_minGe {sub : Min} {dfn : Nat} (h : ¬ Min.ge sub dfn = true) : ∃ l, sub = some l ∧ l < dfn := by
  cases sub with
  | none => exact absurd rfl h
  | some l =>
    refine ⟨l, rfl, ?_⟩
    simp only [Min.ge, decide_eq_true_eq] at h
    omega

/-- the state after `move_to_cache` -/
def cachedSt (s3 : St) (G : List Node) (cc6 : List (Nat × V)) : St :=
  { s3 with graph := G, stack := s3.stack.dropLast, cache := some cc6 }

/-- the state after the pop when the node stays in the graph -/
def keptSt (s3 : St) (G : List Node) : St := { s3 with graph := G, stack := s3.stack.dropLast }

/-- the bookkeeping of `solve_goal` after the loop -/
theorem finishGoal_sem {s0 : St} {g : Nat} {sub : Min} {s3 : St}
    (hp : LoopPost c inst dom s0 g sub s3) (m : Min) (v : V) (m' : Min) (s' : St)
    (h : finishGoal cfg m s0.stack.length s0.graph.length sub s3 = .ok (v, m') s') :
    Inv c inst dom s' ∧ Step c inst s0 s' m' ∧ MinLe m' m ∧ Fact c inst s0 s' m' g v := by
  obtain ⟨st', s1, old, cur, new, A, hfl, hg3, hlen3, hget3, R3⟩ := hp
  have hg4 : updateNode (fun n => { n with links := sub, stackDepth := none }) s0.graph.length s3.graph =
      s0.graph ++ (⟨g, cur, none, sub⟩ : Node) :: new := by
    rw [hg3, updateNode_mid]
  have hpop : s0.stack.length + 1 = s3.stack.length := hlen3.symm
  simp only [finishGoal, pop, hpop, if_true, hg4, mid_at] at h
  have hlow : cur = bot c → ¬ InG c inst s0 g :=
    fun hb => loop_low A.L A.i1 A.step A.fact g A.L.u0 (Or.inr ⟨rfl, hb⟩)
  have hsget : ∀ i, i < s0.stack.length → s3.stack.dropLast[i]? = s1.stack[i]? := by
    intro i hi
    rw [List.getElem?_dropLast, ← hget3 i hi]
    have : i < s3.stack.length - 1 := by omega
    simp only [this, if_true]
  have hslen : s3.stack.dropLast.length = s0.stack.length := by
    rw [List.length_dropLast]; omega
  have hle : MinLe (Min.updateFrom m sub) m := updateFrom_le_left m sub
  by_cases hge : Min.ge sub s0.graph.length = true
  · cases hc1 : s1.cache with
    | none =>
      -- caching disabled: `rollback_to(dfn)`
      have hc3 : s3.cache = none := by rw [R3.cache]; exact hc1
      simp only [hge, if_true, hc3, rollbackTo, List.take_left, Res.ok.injEq, Prod.mk.injEq] at h
      obtain ⟨⟨hv, hm'⟩, hs'⟩ := h
      subst hv; subst hm'; subst hs'
      have P : Popped s0 s1 { keptSt s3 s0.graph with cache := none } :=
        ⟨hslen, hsget, hc1.symm, R3.oracle, R3.oracleDefault, R3.interrupted⟩
      obtain ⟨i6, hs6, hcorr⟩ := A.finish_discard (s6 := { keptSt s3 s0.graph with cache := none }) P hfl
        ((minGe_iff _ _).mp hge) rfl
      refine ⟨i6, hs6 _, hle, ?_⟩
      cases hcorr with
      | inl hc => exact Or.inl ⟨hc.1, Or.inl hc.2⟩
      | inr hc => exact Or.inr ⟨hc.1, hc.2, hlow hc.1⟩
    | some cc1 =>
    have hint : s3.interrupted = false := by rw [R3.interrupted]; exact A.i1.quiet.2.2
    have hc3 : s3.cache = some cc1 := by rw [R3.cache]; exact hc1
    have hand : (cfg.fixF3 && s3.interrupted) = false := by rw [hint]; simp
    simp only [hge, if_true, hc3, hand, Bool.false_eq_true, if_false, moveToCache,
      List.drop_left, List.take_left] at h
    cases hdr : drainToCache s0.graph.length ((⟨g, cur, none, sub⟩ : Node) :: new) cc1 with
    | error site => rw [hdr] at h; cases h
    | ok cc6 =>
      rw [hdr] at h
      simp only [Res.ok.injEq, Prod.mk.injEq] at h
      obtain ⟨⟨hv, hm'⟩, hs'⟩ := h
      subst hv; subst hm'; subst hs'
      have P : Popped s0 s1 { cachedSt s3 s0.graph cc6 with cache := s1.cache } :=
        ⟨hslen, hsget, rfl, R3.oracle, R3.oracleDefault, R3.interrupted⟩
      obtain ⟨i6, hs6, hcorr⟩ := A.finish_cache (s6 := cachedSt s3 s0.graph cc6) P hfl
        ((minGe_iff _ _).mp hge) rfl cc1 cc6 hc1 rfl hdr
      refine ⟨i6, hs6 _, hle, ?_⟩
      cases hcorr with
      | inl hc => exact Or.inl ⟨hc.1, Or.inl hc.2⟩
      | inr hc => exact Or.inr ⟨hc.1, hc.2, hlow hc.1⟩
  · obtain ⟨l, hl, hlt⟩ := not_minGe hge
    simp only [hge, Bool.false_eq_true, if_false, Res.ok.injEq, Prod.mk.injEq] at h
    obtain ⟨⟨hv, hm'⟩, hs'⟩ := h
    subst hv; subst hm'; subst hs'
    have P : Popped s0 s1 (keptSt s3 (s0.graph ++ (⟨g, cur, none, sub⟩ : Node) :: new)) :=
      ⟨hslen, hsget, R3.cache, R3.oracle, R3.oracleDefault, R3.interrupted⟩
    obtain ⟨i5, hs5⟩ := A.finish_keep P hfl l hl hlt rfl
    refine ⟨i5, hs5.weaken (updateFrom_le_right m sub), hle, ?_⟩
    cases A.cur_val with
    | inl hc =>
      refine Or.inl ⟨hc, Or.inr ⟨s0.graph.length, _, mid_at _ _ _, rfl, hc, ?_, fun d hd => by cases hd⟩⟩
      refine (updateFrom_le_right m sub).trans ?_
      rw [hl]
      exact Nat.le_of_lt hlt
    | inr hc => exact Or.inr ⟨hc, A.fact.not_tgt hc, hlow hc⟩

theorem Step.of_work {s s' : St} {w : Nat} {lb : Min} (h : Step c inst { s with work := w } s' lb) :
    Step c inst s s' lb :=
  ⟨h.graph, h.stack, h.cacheExt, h.ext, h.low, h.cacheMode⟩

theorem Fact.of_work {s s' : St} {w : Nat} {m' : Min} {g : Nat} {v : V}
    (h : Fact c inst { s with work := w } s' m' g v) : Fact c inst s s' m' g v := h

/-- PARTIAL CORRECTNESS of `solve_goal` -/
theorem solveGoal_sem (hyp : Hyp c inst dom) :
    ∀ d, SubSpec c inst dom (solveGoal inst cfg d)
  | 0 => by
    intro g m s v m' s' _ _ h
    simp [solveGoal] at h
  | d + 1 => by
    intro g m s v m' s' hi hg h
    cases ht : tick cfg s with
    | panic site s0 => rw [solveGoal_tick_panic _ _ _ _ _ _ _ _ ht] at h; cases h
    | ok u s0 =>
      have e0 := tick_ok cfg s s0 ht
      subst e0
      have i0 : Inv c inst dom { s with work := s.work + 1 } := hi.work _
      cases hc : cacheLookup ({ s with work := s.work + 1 } : St) g with
      | some w =>
        rw [solveGoal_cached inst cfg d g m s _ w ht hc] at h
        simp only [Res.ok.injEq, Prod.mk.injEq] at h
        obtain ⟨⟨hv, hm'⟩, hs'⟩ := h
        subst hv; subst hm'; subst hs'
        refine ⟨i0, Step.work s _ _, MinLe.refl _, ?_⟩
        have hin : InCache s g w := (inCache_iff_lookup _ g w).mpr hc
        cases hi.cacheOK g w hin with
        | inl hk => exact Or.inl ⟨hk.1, Or.inl hk.2⟩
        | inr hk =>
          refine Or.inr ⟨hk.1, hk.2, hi.not_inG_of_bot (Or.inl ?_)⟩
          rw [← hk.1]; exact hin
      | none =>
        cases hl : lookup ({ s with work := s.work + 1 } : St).graph g with
        | some dfn =>
          obtain ⟨node, hn, hgo⟩ := lookup_some hl
          rw [solveGoal_hit inst cfg d g m s _ ht hc dfn hl node hn] at h
          have hbot : node.solution = bot c → ¬ Tgt c inst g ∧ ¬ InG c inst s g := by
            intro hb
            refine ⟨by rw [← hgo]; exact i0.approx dfn node hn hb, hi.not_inG_of_bot (Or.inr ⟨dfn, node, hn, hgo, hb⟩)⟩
          cases hsd : node.stackDepth with
          | none =>
            simp only [hsd, Res.ok.injEq, Prod.mk.injEq] at h
            obtain ⟨⟨hv, hm'⟩, hs'⟩ := h
            subst hv; subst hm'; subst hs'
            obtain ⟨l, hlk, hll⟩ := i0.nonstk dfn node hn hsd
            refine ⟨i0, Step.work s _ _, updateFrom_le_left _ _, ?_⟩
            cases i0.val dfn node hn with
            | inl ht' =>
              refine Or.inl ⟨ht', Or.inr ⟨dfn, node, hn, hgo, ht', ?_, fun d' hd' => by rw [hsd] at hd'; cases hd'⟩⟩
              refine (updateFrom_le_right m node.links).trans ?_
              rw [hlk]; exact Nat.le_of_lt hll
            | inr hb => exact Or.inr ⟨hb, hbot hb⟩
          | some depth =>
            obtain ⟨hdl, hlk⟩ := i0.stk dfn node depth hn hsd
            have hnle : ¬ ({ s with work := s.work + 1 } : St).stack.length ≤ depth := Nat.not_le.mpr hdl
            have hext := stackExt_setCycle_true depth s.stack
            have i1 : Inv c inst dom { ({ s with work := s.work + 1 } : St) with stack := setCycle true depth s.stack } :=
              i0.stackChange rfl ⟨rfl, rfl, rfl, rfl⟩ hext
            have hmix : mixedFrom (setCycle true depth ({ s with work := s.work + 1 } : St).stack) depth = false :=
              mixedFrom_false i1.stackCo depth
            simp only [hsd, hnle, if_false, hmix, Bool.false_eq_true, Res.ok.injEq, Prod.mk.injEq] at h
            obtain ⟨⟨hv, hm'⟩, hs'⟩ := h
            subst hv; subst hm'; subst hs'
            have hst : Step c inst ({ s with work := s.work + 1 } : St)
                { ({ s with work := s.work + 1 } : St) with stack := setCycle true depth s.stack }
                (Min.updateFrom m node.links) :=
              Step.stackOnly (s := { s with work := s.work + 1 })
                (s' := { ({ s with work := s.work + 1 } : St) with stack := setCycle true depth s.stack })
                rfl ⟨rfl, rfl, rfl, rfl⟩ hext _
            refine ⟨i1, Step.of_work hst, updateFrom_le_left _ _, ?_⟩
            cases i0.val dfn node hn with
            | inl ht' =>
              refine Or.inl ⟨ht', Or.inr ⟨dfn, node, hn, hgo, ht', ?_, fun d' hd' => ?_⟩⟩
              · refine (updateFrom_le_right m node.links).trans ?_
                rw [hlk]; exact Nat.le_refl _
              · rw [hsd] at hd'
                cases hd'
                have hlt : depth < s.stack.length := hdl
                exact ⟨_, setCycle_getElem?_eq true depth s.stack _ (List.getElem?_eq_getElem hlt), rfl⟩
            | inr hb => exact Or.inr ⟨hb, hbot hb⟩
        | none =>
          have hu : Undef ({ s with work := s.work + 1 } : St) g := by
            intro w hw
            cases hw with
            | inl hw =>
              rw [inCache_iff_lookup, hc] at hw
              cases hw
            | inr hw =>
              obtain ⟨i, n, hn, hgo, _⟩ := hw
              exact lookup_none hl n (List.mem_of_getElem? hn) hgo
          by_cases hov : cfg.overflowDepth ≤ ({ s with work := s.work + 1 } : St).stack.length
          · rw [solveGoal_overflow inst cfg d g m s _ ht hc hl hov] at h; cases h
          · rw [solveGoal_new inst cfg d g m s _ ht hc hl hov] at h
            cases hloop : solveNewSubgoal inst cfg (solveGoal inst cfg d) g
                ({ s with work := s.work + 1 } : St).stack.length ({ s with work := s.work + 1 } : St).graph.length
                cfg.rounds (pushed inst g { s with work := s.work + 1 }) with
            | panic site s3 => rw [hloop] at h; cases h
            | ok sub s3 =>
              rw [hloop] at h
              have hp := loop_sem hyp (solveGoal_sem hyp d) cfg.rounds _ sub s3 (push_loopSt hyp i0 hu hg) hloop
              obtain ⟨i', hs', hle', hf'⟩ := finishGoal_sem hp m v m' s' h
              exact ⟨i', Step.of_work hs', hle', Fact.of_work hf'⟩

end

end Chalk.FixedPoint.Cyc
