/-
  FixedPointSemJ.lean — partial correctness of `solve_goal` and `solve_root_goal` on ground
  instances of one polarity.
-/
import ChalkModel.Lemmas.FixedPointSemI

namespace Chalk.FixedPoint.Cyc

section
variable {c : Bool} {inst : Instance} {dom : List Nat} {fx : Bool} {cfg : Cfg}

theorem not_minGe {sub : Min} {dfn : Nat} (h : ¬ Min.ge sub dfn = true) : ∃ l, sub = some l ∧ l < dfn := by
  cases sub with
  | none => exact absurd rfl h
  | some l =>
    refine ⟨l, rfl, ?_⟩
    simp only [Min.ge, decide_eq_true_eq] at h
    omega

/-- the state after `move_to_cache` -/
def cachedSt (s3 : St) (G : List Node) (cc6 : List (Nat × V)) : St :=
  { s3 with graph := G, stack := s3.stack.dropLast, cache := some cc6 }

/-- the state after the pop when the node stays in the graph -/
def keptSt (s3 : St) (G : List Node) : St := { s3 with graph := G, stack := s3.stack.dropLast }

/-- the bookkeeping of `solve_goal` after the loop -/
theorem finishGoal_sem (h3 : cfg.fixF3 = true) {s0 : St} {g : Nat} {sub : Min} {s3 : St}
    (hp : LoopPost c inst dom fx s0 g sub s3) (m : Min) (v : V) (m' : Min) (s' : St)
    (h : finishGoal cfg m s0.stack.length s0.graph.length sub s3 = .ok (v, m') s') :
    Inv c inst dom fx s' ∧ Step c inst s0 s' m' ∧ MinLe m' m ∧ Fact c inst s0 s' m' g v := by
  obtain ⟨st', s1, old, cur, new, new3, A, hcase, hg3, hlen3, hget3, R3⟩ := hp
  have hg4 : updateNode (fun n => { n with links := sub, stackDepth := none }) s0.graph.length s3.graph =
      s0.graph ++ (⟨g, cur, none, sub⟩ : Node) :: new3 := by
    rw [hg3, updateNode_mid]
  have hpop : s0.stack.length + 1 = s3.stack.length := hlen3.symm
  simp only [finishGoal, pop, hpop, if_true, hg4, mid_at] at h
  have hlow : cur = bot c → ¬ InG c inst s0 g :=
    fun hb => loop_low A.L A.i1 A.step A.fact g A.L.u0 (Or.inr ⟨rfl, hb⟩)
  have hsget : ∀ i, i < s0.stack.length → s3.stack.dropLast[i]? = s1.stack[i]? := by
    intro i hi
    rw [List.getElem?_dropLast, ← hget3 i hi]
    have : i < s3.stack.length - 1 := by omega
    simp only [this, if_true]
  have hslen : s3.stack.dropLast.length = s0.stack.length := by
    rw [List.length_dropLast]; omega
  have hle : MinLe (Min.updateFrom m sub) m := updateFrom_le_left m sub
  have hamb : cur = .ambig → s1.interrupted = true := by
    intro e
    have hf := A.fact
    rw [e] at hf
    exact hf.ambig
  have hfl' : cur ≠ .ambig → ¬ flagAt s1.stack s0.stack.length ∨ old = cur := by
    intro hne
    cases hcase with
    | inl h1 => exact h1.2
    | inr h1 => exact absurd h1.2 hne
  -- the reported fact, once the node is gone from the graph
  have hfact : ∀ (sF : St), sF.interrupted = s1.interrupted → (cur ≠ .ambig → Corr c inst g cur) →
      Fact c inst s0 sF (Min.updateFrom m sub) g cur := by
    intro sF hiF hcorr
    rcases A.cur_val with hc | hc | hc
    · have := hcorr (by rw [hc]; exact top_ne_ambig c)
      cases this with
      | inl h1 => exact Or.inl ⟨hc, Or.inl h1.2⟩
      | inr h1 => rw [hc] at h1; exact absurd h1.1 (top_ne_bot c)
    · have := hcorr (by rw [hc]; exact bot_ne_ambig c)
      cases this with
      | inl h1 => rw [hc] at h1; exact absurd h1.1.symm (top_ne_bot c)
      | inr h1 => exact Or.inr (Or.inl ⟨hc, h1.2, hlow hc⟩)
    · exact Or.inr (Or.inr ⟨hc, by rw [hiF]; exact hamb hc⟩)
  by_cases hge : Min.ge sub s0.graph.length = true
  · cases hc1 : s1.cache with
    | none =>
      -- caching disabled: `rollback_to(dfn)`
      have hc3 : s3.cache = none := by rw [R3.cache]; exact hc1
      simp only [hge, if_true, hc3, rollbackTo, List.take_left, Res.ok.injEq, Prod.mk.injEq] at h
      obtain ⟨⟨hv, hm'⟩, hs'⟩ := h
      subst hv; subst hm'; subst hs'
      have P : Popped s0 s1 { keptSt s3 s0.graph with cache := none } :=
        ⟨hslen, hsget, hc1.symm, R3.oracle, R3.oracleDefault, R3.interrupted⟩
      obtain ⟨i6, hs6, hcorr⟩ := A.finish_discard (s6 := { keptSt s3 s0.graph with cache := none }) P hfl'
        ((minGe_iff _ _).mp hge) rfl
      exact ⟨i6, hs6 _, hle, hfact _ R3.interrupted hcorr⟩
    | some cc1 =>
    have hc3 : s3.cache = some cc1 := by rw [R3.cache]; exact hc1
    by_cases hint : s3.interrupted = true
    · -- interrupted: nothing is cached (F3), `rollback_to(dfn)`
      have hand : (cfg.fixF3 && s3.interrupted) = true := by rw [hint, h3]; rfl
      simp only [hge, if_true, hc3, hand, rollbackTo, List.take_left, Res.ok.injEq, Prod.mk.injEq] at h
      obtain ⟨⟨hv, hm'⟩, hs'⟩ := h
      subst hv; subst hm'; subst hs'
      have P : Popped s0 s1 { keptSt s3 s0.graph with cache := some cc1 } :=
        ⟨hslen, hsget, hc1.symm, R3.oracle, R3.oracleDefault, R3.interrupted⟩
      obtain ⟨i6, hs6, hcorr⟩ := A.finish_discard (s6 := { keptSt s3 s0.graph with cache := some cc1 }) P hfl'
        ((minGe_iff _ _).mp hge) rfl
      exact ⟨i6, hs6 _, hle, hfact _ R3.interrupted hcorr⟩
    · have hint' : s3.interrupted = false := by cases hh : s3.interrupted <;> simp_all
      have hni : s1.interrupted = false := by rw [← R3.interrupted]; exact hint'
      have hne : cur ≠ .ambig := fun e => by rw [hamb e] at hni; cases hni
      have hnew : new3 = new := by
        cases hcase with
        | inl h1 => exact h1.1
        | inr h1 => exact absurd h1.2 hne
      subst hnew
      have hand : (cfg.fixF3 && s3.interrupted) = false := by rw [hint']; simp
      simp only [hge, if_true, hc3, hand, Bool.false_eq_true, if_false, moveToCache,
        List.drop_left, List.take_left] at h
      cases hdr : drainToCache s0.graph.length ((⟨g, cur, none, sub⟩ : Node) :: new3) cc1 with
      | error site => rw [hdr] at h; cases h
      | ok cc6 =>
        rw [hdr] at h
        simp only [Res.ok.injEq, Prod.mk.injEq] at h
        obtain ⟨⟨hv, hm'⟩, hs'⟩ := h
        subst hv; subst hm'; subst hs'
        have P : Popped s0 s1 { cachedSt s3 s0.graph cc6 with cache := s1.cache } :=
          ⟨hslen, hsget, rfl, R3.oracle, R3.oracleDefault, R3.interrupted⟩
        obtain ⟨i6, hs6, hcorr⟩ := A.finish_cache (s6 := cachedSt s3 s0.graph cc6) P (hfl' hne)
          ((minGe_iff _ _).mp hge) rfl cc1 cc6 hc1 rfl hdr hni
        exact ⟨i6, hs6 _, hle, hfact _ R3.interrupted (fun _ => hcorr)⟩
  · obtain ⟨l, hl, hlt⟩ := not_minGe hge
    simp only [hge, Bool.false_eq_true, if_false, Res.ok.injEq, Prod.mk.injEq] at h
    obtain ⟨⟨hv, hm'⟩, hs'⟩ := h
    subst hv; subst hm'; subst hs'
    have P : Popped s0 s1 (keptSt s3 (s0.graph ++ (⟨g, cur, none, sub⟩ : Node) :: new3)) :=
      ⟨hslen, hsget, R3.cache, R3.oracle, R3.oracleDefault, R3.interrupted⟩
    have hkeep : Inv c inst dom fx (keptSt s3 (s0.graph ++ (⟨g, cur, none, sub⟩ : Node) :: new3)) ∧
        Step c inst s0 (keptSt s3 (s0.graph ++ (⟨g, cur, none, sub⟩ : Node) :: new3)) sub := by
      cases hcase with
      | inl h1 =>
        obtain ⟨e, hfl⟩ := h1
        subst e
        exact A.finish_keep P hfl l hl hlt rfl
      | inr h1 =>
        obtain ⟨e, hca⟩ := h1
        subst e; subst hca
        exact A.finish_keep_amb rfl P l hl hlt rfl
    obtain ⟨i5, hs5⟩ := hkeep
    refine ⟨i5, hs5.weaken (updateFrom_le_right m sub), hle, ?_⟩
    rcases A.cur_val with hc | hc | hc
    · refine Or.inl ⟨hc, Or.inr ⟨s0.graph.length, _, mid_at _ _ _, rfl, hc, ?_, fun d hd => by cases hd⟩⟩
      refine (updateFrom_le_right m sub).trans ?_
      rw [hl]
      exact Nat.le_of_lt hlt
    · exact Or.inr (Or.inl ⟨hc, A.fact.not_tgt hc, hlow hc⟩)
    · exact Or.inr (Or.inr ⟨hc, by
        show s3.interrupted = true
        rw [R3.interrupted]; exact hamb hc⟩)

theorem Step.of_work {s s' : St} {w : Nat} {lb : Min} (h : Step c inst { s with work := w } s' lb) :
    Step c inst s s' lb :=
  ⟨h.graph, h.stack, h.cacheExt, h.ext, h.low, h.cacheMode, h.intr, h.quiet⟩

theorem Fact.of_work {s s' : St} {w : Nat} {m' : Min} {g : Nat} {v : V}
    (h : Fact c inst { s with work := w } s' m' g v) : Fact c inst s s' m' g v := h

/-- what a node found in the graph reports -/
theorem hit_fact {s : St} (hi : Inv c inst dom fx s) {g dfn : Nat} {node : Node} (hn : s.graph[dfn]? = some node)
    (hgo : node.goal = g) {s' : St} {m' : Min} (hpre : s'.graph = s.graph) (hint : s'.interrupted = s.interrupted)
    (hfl : ∀ d, node.stackDepth = some d → flagAt s'.stack d) (l : Nat) (hlk : node.links = some l)
    (hl : l ≤ dfn) (hm' : MinLe m' node.links) : Fact c inst s s' m' g node.solution := by
  subst hgo
  rcases hi.val dfn node hn with ht' | hb | ha
  · refine Or.inl ⟨ht', Or.inr ⟨dfn, node, by rw [hpre]; exact hn, rfl, ht', ?_, hfl⟩⟩
    refine hm'.trans ?_
    rw [hlk]; exact hl
  · exact Or.inr (Or.inl ⟨hb, hi.approx dfn node hn hb, hi.not_inG_of_bot (Or.inr ⟨dfn, node, hn, rfl, hb⟩)⟩)
  · exact Or.inr (Or.inr ⟨ha, by rw [hint]; exact hi.amb dfn node hn ha⟩)

/-- PARTIAL CORRECTNESS of `solve_goal` (any `should_continue` oracle) -/
theorem solveGoal_sem (hyp : Hyp c inst dom) (h3 : cfg.fixF3 = true) (h10 : fx = true → cfg.fixF10 = true) :
    ∀ d, SubSpec c inst dom fx (solveGoal inst cfg d)
  | 0 => by
    intro g m s v m' s' _ _ h
    simp [solveGoal] at h
  | d + 1 => by
    intro g m s v m' s' hi hg h
    cases ht : tick cfg s with
    | panic site s0 => rw [solveGoal_tick_panic _ _ _ _ _ _ _ _ ht] at h; cases h
    | ok u s0 =>
      have e0 := tick_ok cfg s s0 ht
      subst e0
      have i0 : Inv c inst dom fx { s with work := s.work + 1 } := hi.work _
      cases hc : cacheLookup ({ s with work := s.work + 1 } : St) g with
      | some w =>
        rw [solveGoal_cached inst cfg d g m s _ w ht hc] at h
        simp only [Res.ok.injEq, Prod.mk.injEq] at h
        obtain ⟨⟨hv, hm'⟩, hs'⟩ := h
        subst hv; subst hm'; subst hs'
        refine ⟨i0, Step.work s _ _, MinLe.refl _, ?_⟩
        have hin : InCache s g w := (inCache_iff_lookup _ g w).mpr hc
        cases hi.cacheOK g w hin with
        | inl hk => exact Or.inl ⟨hk.1, Or.inl hk.2⟩
        | inr hk =>
          refine Or.inr (Or.inl ⟨hk.1, hk.2, hi.not_inG_of_bot (Or.inl ?_)⟩)
          rw [← hk.1]; exact hin
      | none =>
        cases hl : lookup ({ s with work := s.work + 1 } : St).graph g with
        | some dfn =>
          obtain ⟨node, hn, hgo⟩ := lookup_some hl
          rw [solveGoal_hit inst cfg d g m s _ ht hc dfn hl node hn] at h
          cases hsd : node.stackDepth with
          | none =>
            simp only [hsd, Res.ok.injEq, Prod.mk.injEq] at h
            obtain ⟨⟨hv, hm'⟩, hs'⟩ := h
            subst hv; subst hm'; subst hs'
            obtain ⟨l, hlk, hll⟩ := i0.nonstk dfn node hn hsd
            refine ⟨i0, Step.work s _ _, updateFrom_le_left _ _, ?_⟩
            exact Fact.of_work (hit_fact i0 hn hgo rfl rfl (fun d' hd' => by rw [hsd] at hd'; cases hd') l hlk
              (Nat.le_of_lt hll) (updateFrom_le_right m node.links))
          | some depth =>
            obtain ⟨hdl, hlk⟩ := i0.stk dfn node depth hn hsd
            have hnle : ¬ ({ s with work := s.work + 1 } : St).stack.length ≤ depth := Nat.not_le.mpr hdl
            have hext := stackExt_setCycle_true depth s.stack
            have i1 : Inv c inst dom fx { ({ s with work := s.work + 1 } : St) with stack := setCycle true depth s.stack } :=
              i0.stackChange rfl ⟨rfl, rfl, rfl, rfl⟩ hext
            have hmix : mixedFrom (setCycle true depth ({ s with work := s.work + 1 } : St).stack) depth = false :=
              mixedFrom_false i1.stackCo depth
            simp only [hsd, hnle, if_false, hmix, Bool.false_eq_true, Res.ok.injEq, Prod.mk.injEq] at h
            obtain ⟨⟨hv, hm'⟩, hs'⟩ := h
            subst hv; subst hm'; subst hs'
            have hst : Step c inst ({ s with work := s.work + 1 } : St)
                { ({ s with work := s.work + 1 } : St) with stack := setCycle true depth s.stack }
                (Min.updateFrom m node.links) :=
              Step.stackOnly (s := { s with work := s.work + 1 })
                (s' := { ({ s with work := s.work + 1 } : St) with stack := setCycle true depth s.stack })
                rfl ⟨rfl, rfl, rfl, rfl⟩ hext _
            refine ⟨i1, Step.of_work hst, updateFrom_le_left _ _, ?_⟩
            refine Fact.of_work (hit_fact i0 hn hgo rfl rfl (fun d' hd' => ?_) dfn hlk (Nat.le_refl _)
              (updateFrom_le_right m node.links))
            rw [hsd] at hd'
            cases hd'
            have hlt : depth < s.stack.length := hdl
            exact ⟨_, setCycle_getElem?_eq true depth s.stack _ (List.getElem?_eq_getElem hlt), rfl⟩
        | none =>
          have hu : Undef ({ s with work := s.work + 1 } : St) g := by
            intro w hw
            cases hw with
            | inl hw =>
              rw [inCache_iff_lookup, hc] at hw
              cases hw
            | inr hw =>
              obtain ⟨i, n, hn, hgo, _⟩ := hw
              exact lookup_none hl n (List.mem_of_getElem? hn) hgo
          by_cases hov : cfg.overflowDepth ≤ ({ s with work := s.work + 1 } : St).stack.length
          · rw [solveGoal_overflow inst cfg d g m s _ ht hc hl hov] at h; cases h
          · rw [solveGoal_new inst cfg d g m s _ ht hc hl hov] at h
            cases hloop : solveNewSubgoal inst cfg (solveGoal inst cfg d) g
                ({ s with work := s.work + 1 } : St).stack.length ({ s with work := s.work + 1 } : St).graph.length
                cfg.rounds (pushed inst g { s with work := s.work + 1 }) with
            | panic site s3 => rw [hloop] at h; cases h
            | ok sub s3 =>
              rw [hloop] at h
              have hp := loop_sem hyp h3 h10 (solveGoal_sem hyp h3 h10 d) cfg.rounds _ sub s3
                (push_loopSt hyp i0 hu hg) hloop
              obtain ⟨i', hs', hle', hf'⟩ := finishGoal_sem h3 hp m v m' s' h
              exact ⟨i', Step.of_work hs', hle', Fact.of_work hf'⟩

end

end Chalk.FixedPoint.Cyc
