/-
  Lemmas for C24 (`Resolve.lean`): the invariants that make every indexing / unwrap site of the
  lowering code unreachable (`Tables.WF`, the presence of every associated-type key, the shape of
  the lowered program read back by `lower_goal`), and "no panic" for every lowering function.
-/
import ChalkModel.Resolve

namespace Chalk.Resolve

/-- the outcome is `ok` or `err`, never a panic -/
def NoPanic {α : Type} (o : Outcome α) : Prop := ∀ s, o ≠ .panic s

namespace NoPanic
variable {α β : Type}

theorem ok (a : α) : NoPanic (Outcome.ok a) := fun _ h => by cases h
theorem err (e : ErrKind) : NoPanic (Outcome.err e : Outcome α) := fun _ h => by cases h

theorem andThen {x : Outcome α} {f : α → Outcome β} (hx : NoPanic x)
    (hf : ∀ a, x = .ok a → NoPanic (f a)) : NoPanic (x.andThen f) := by
  cases x with
  | ok a => exact hf a rfl
  | err e => exact err e
  | panic s => exact absurd rfl (hx s)

theorem seq {x : Outcome α} {y : Outcome β} (hx : NoPanic x) (hy : NoPanic y) : NoPanic (x ⨾ y) := by
  cases x with
  | ok a => exact hy
  | err e => exact err e
  | panic s => exact absurd rfl (hx s)

theorem void {x : Outcome α} (hx : NoPanic x) : NoPanic x.void := by
  cases x with
  | ok a => exact ok ()
  | err e => exact err e
  | panic s => exact absurd rfl (hx s)

theorem ite {c : Prop} [Decidable c] {x y : Outcome α} (hx : NoPanic x) (hy : NoPanic y) :
    NoPanic (if c then x else y) := by
  split <;> assumption
end NoPanic

/-! ### association lists -/

theorem alookup_cons_ne_none {κ ν : Type} [DecidableEq κ] (l : List (κ × ν)) (k' : κ) (v : ν) (k : κ)
    (h : alookup l k ≠ none) : alookup ((k', v) :: l) k ≠ none := by
  simp only [alookup]
  split
  · simp
  · exact h

theorem alookup_cons_self {κ ν : Type} [DecidableEq κ] (l : List (κ × ν)) (k : κ) (v : ν) :
    alookup ((k, v) :: l) k = some v := by
  simp [alookup]

theorem alookup_cons_of_ne {κ ν : Type} [DecidableEq κ] (l : List (κ × ν)) (k' : κ) (v : ν) (k : κ)
    (h : k' ≠ k) : alookup ((k', v) :: l) k = alookup l k := by
  simp [alookup, h]

/-- every id a name table hands out has an entry in the companion table -/
def IdsIn {ν : Type} (ids : List (String × Nat)) (tbl : List (Nat × ν)) : Prop :=
  ∀ n id, alookup ids n = some id → alookup tbl id ≠ none

theorem IdsIn.nil {ν : Type} (tbl : List (Nat × ν)) : IdsIn [] tbl := by
  intro n id h; simp [alookup] at h

theorem IdsIn.cons {ν : Type} {ids : List (String × Nat)} {tbl : List (Nat × ν)} (h : IdsIn ids tbl)
    (n : String) (id : Nat) (v : ν) : IdsIn ((n, id) :: ids) ((id, v) :: tbl) := by
  intro n' id' h'
  simp only [alookup] at h'
  split at h'
  · cases h'; simp [alookup]
  · exact alookup_cons_ne_none _ _ _ _ (h n' id' h')

/-- invariant of the tables built by `extract_ids` (env.rs:176-212 never miss) -/
structure Tables.WF (tb : Tables) : Prop where
  adt : IdsIn tb.adtIds tb.adtKinds
  fnDef : IdsIn tb.fnDefIds tb.fnDefKinds
  closure : IdsIn tb.closureIds tb.closureKinds
  trait : IdsIn tb.traitIds tb.traitKinds
  autoT : IdsIn tb.traitIds tb.autoTraits
  opaqueT : IdsIn tb.opaqueIds tb.opaqueKinds
  coroutine : IdsIn tb.coroutineIds tb.coroutineKinds

/-- repaired code, well-formed tables -/
structure Env.WF (env : Env) : Prop where
  ver : env.ver = .fixed
  tb : env.tb.WF

theorem introduce_wf {env env' : Env} {new : List (String × Kind)} (h : env.WF)
    (hi : env.introduce new = .ok env') : env'.WF := by
  unfold Env.introduce at hi
  split at hi
  · cases hi; exact ⟨h.ver, h.tb⟩
  · cases hi

theorem introduce_noPanic (env : Env) (new : List (String × Kind)) : NoPanic (env.introduce new) := by
  unfold Env.introduce
  split
  · exact .ok _
  · exact .err _

/-! ### lookups -/

theorem kindsIndex_noPanic (site : Site) (tbl : List (Nat × List Kind)) (id : Nat)
    (h : alookup tbl id ≠ none) : NoPanic (kindsIndex site tbl id) := by
  unfold kindsIndex
  split
  · exact .ok _
  · contradiction

theorem unappliedKind_noPanic {ks : Outcome (List Kind)} (h : NoPanic ks) : NoPanic (unappliedKind ks) := by
  unfold unappliedKind
  exact h.andThen fun _ _ => NoPanic.ite (.err _) (.ok _)

theorem lookupType_adt {env : Env} {n : String} {id : Nat} (h : env.lookupType n = some (.adt id)) :
    alookup env.tb.adtIds n = some id := by
  unfold Env.lookupType at h
  repeat' (split at h)
  all_goals (first | (cases h; done) | (cases h; assumption))

theorem lookupType_fnDef {env : Env} {n : String} {id : Nat} (h : env.lookupType n = some (.fnDef id)) :
    alookup env.tb.fnDefIds n = some id := by
  unfold Env.lookupType at h
  repeat' (split at h)
  all_goals (first | (cases h; done) | (cases h; assumption))

theorem lookupType_closure {env : Env} {n : String} {id : Nat} (h : env.lookupType n = some (.closure id)) :
    alookup env.tb.closureIds n = some id := by
  unfold Env.lookupType at h
  repeat' (split at h)
  all_goals (first | (cases h; done) | (cases h; assumption))

theorem lookupType_opaque {env : Env} {n : String} {id : Nat} (h : env.lookupType n = some (.opaque id)) :
    alookup env.tb.opaqueIds n = some id := by
  unfold Env.lookupType at h
  repeat' (split at h)
  all_goals (first | (cases h; done) | (cases h; assumption))

theorem lookupType_coroutine {env : Env} {n : String} {id : Nat} (h : env.lookupType n = some (.coroutine id)) :
    alookup env.tb.coroutineIds n = some id := by
  unfold Env.lookupType at h
  repeat' (split at h)
  all_goals (first | (cases h; done) | (cases h; assumption))

theorem lookupGenericArg_noPanic {env : Env} (h : env.WF) (n : String) : NoPanic (env.lookupGenericArg n) := by
  unfold Env.lookupGenericArg
  split
  · exact .ok _
  · next id hl => exact unappliedKind_noPanic (kindsIndex_noPanic _ _ _ (h.tb.adt _ _ (lookupType_adt hl)))
  · next id hl => exact unappliedKind_noPanic (kindsIndex_noPanic _ _ _ (h.tb.fnDef _ _ (lookupType_fnDef hl)))
  · next id hl => exact unappliedKind_noPanic (kindsIndex_noPanic _ _ _ (h.tb.closure _ _ (lookupType_closure hl)))
  · next id hl => exact unappliedKind_noPanic (kindsIndex_noPanic _ _ _ (h.tb.coroutine _ _ (lookupType_coroutine hl)))
  · exact .ok _
  · exact .ok _
  · exact .err _
  · exact .err _

theorem lookupTrait_noPanic (env : Env) (n : String) : NoPanic (env.lookupTrait n) := by
  unfold Env.lookupTrait
  split
  · exact .ok _
  · exact NoPanic.ite (.err _) (.err _)

theorem lookupTrait_ok {env : Env} {n : String} {id : Nat} (h : env.lookupTrait n = .ok id) :
    alookup env.tb.traitIds n = some id := by
  unfold Env.lookupTrait at h
  split at h
  · cases h; assumption
  · split at h <;> cases h

theorem autoTrait_noPanic {env : Env} (h : env.WF) {n : String} {id : Nat} (hl : env.lookupTrait n = .ok id) :
    NoPanic (env.autoTrait id) := by
  unfold Env.autoTrait
  split
  · exact .ok _
  · next hn => exact absurd hn (h.tb.autoT _ _ (lookupTrait_ok hl))

theorem lookupAssocTy_noPanic (env : Env) (t : Nat) (n : String) : NoPanic (env.lookupAssocTy t n) := by
  unfold Env.lookupAssocTy
  split
  · exact .ok _
  · exact .err _

theorem lowerAbi_noPanic (abi : String) : NoPanic (lowerAbi abi) := by
  unfold lowerAbi; exact NoPanic.ite (.ok _) (.err _)

theorem lowerLifetime_noPanic {env : Env} (h : env.WF) (l : ALifetime) : NoPanic (lowerLifetime env l) := by
  cases l with
  | id n =>
    unfold lowerLifetime
    exact (lookupGenericArg_noPanic h n).andThen fun _ _ => NoPanic.ite (.ok _) (.err _)
  | static => exact .ok _
  | erased => exact .ok _

theorem lowerConst_noPanic {env : Env} (h : env.WF) (c : AConst) : NoPanic (lowerConst env c) := by
  cases c with
  | id n =>
    unfold lowerConst
    exact (lookupGenericArg_noPanic h n).andThen fun _ _ => NoPanic.ite (.ok _) (.err _)
  | value => exact .ok _

theorem checkArgs_noPanic (a k : ErrKind) (expected : List Kind) (n : Nat) {args : Outcome (List Kind)}
    (h : NoPanic args) : NoPanic (checkArgs a k expected n args) := by
  unfold checkArgs
  exact NoPanic.ite (.err _) (h.andThen fun _ _ => NoPanic.ite (.err _) (.ok _))

theorem checkArgsAfter_noPanic (a k : ErrKind) (expected : List Kind) {args : Outcome (List Kind)}
    (h : NoPanic args) : NoPanic (checkArgsAfter a k expected args) := by
  unfold checkArgsAfter
  exact h.andThen fun _ _ => NoPanic.ite (.err _) (NoPanic.ite (.err _) (.ok _))

theorem lowerTraitBoundWith_noPanic {env : Env} (h : env.WF) (trait : String) {args : Outcome (List Kind)}
    (ha : NoPanic args) : NoPanic (lowerTraitBoundWith env trait args) := by
  unfold lowerTraitBoundWith
  refine (lookupTrait_noPanic env trait).andThen fun tid htid => ?_
  refine (kindsIndex_noPanic _ _ _ (h.tb.trait _ _ (lookupTrait_ok htid))).andThen fun ks _ => ?_
  exact (checkArgsAfter_noPanic _ _ _ ha).seq (.ok _)

/-! ### inline bounds -/

def BoundRes.NoPanic (r : BoundRes) : Prop :=
  Resolve.NoPanic r.traitId ∧ Resolve.NoPanic r.auto ∧ Resolve.NoPanic r.lowered

theorem boundsLookupPhase_noPanic (rs : List BoundRes) (h : ∀ r ∈ rs, r.NoPanic) :
    NoPanic (boundsLookupPhase rs) := by
  induction rs with
  | nil => exact .ok _
  | cons r rs ih =>
    unfold boundsLookupPhase
    have hr := h r (List.mem_cons_self ..)
    exact hr.1.void.seq (hr.2.1.void.seq (ih fun r' hr' => h r' (List.mem_cons_of_mem _ hr')))

theorem firstFailure_noPanic (os : List (Outcome Unit)) (h : ∀ o ∈ os, NoPanic o) :
    NoPanic (firstFailure os) := by
  induction os with
  | nil => exact .ok _
  | cons o os ih =>
    unfold firstFailure
    exact (h o (List.mem_cons_self ..)).seq (ih fun o' ho' => h o' (List.mem_cons_of_mem _ ho'))

theorem mem_insertById {x y : Nat × Outcome Unit} {l : List (Nat × Outcome Unit)}
    (h : y ∈ insertById x l) : y = x ∨ y ∈ l := by
  induction l with
  | nil => simp [insertById] at h; exact Or.inl h
  | cons z zs ih =>
    unfold insertById at h
    split at h
    · simp only [List.mem_cons] at h ⊢; exact h
    · simp only [List.mem_cons] at h ⊢
      rcases h with h | h
      · exact Or.inr (Or.inl h)
      · rcases ih h with h | h
        · exact Or.inl h
        · exact Or.inr (Or.inr h)

theorem mem_sortById {y : Nat × Outcome Unit} {l : List (Nat × Outcome Unit)} (h : y ∈ sortById l) : y ∈ l := by
  induction l with
  | nil => simp [sortById] at h
  | cons x xs ih =>
    unfold sortById at h
    rcases mem_insertById h with h | h
    · simp [h]
    · exact List.mem_cons_of_mem _ (ih h)

theorem combineBounds_noPanic (rs : List BoundRes) (h : ∀ r ∈ rs, r.NoPanic) : NoPanic (combineBounds rs) := by
  unfold combineBounds
  refine (boundsLookupPhase_noPanic rs h).seq (firstFailure_noPanic _ ?_)
  intro o ho
  simp only [List.mem_append, List.mem_map, List.mem_filter] at ho
  rcases ho with ⟨r, ⟨hr, _⟩, rfl⟩ | ⟨p, hp, rfl⟩
  · exact (h r hr).2.2
  · have := mem_sortById hp
    simp only [List.mem_map, List.mem_filter] at this
    obtain ⟨r, ⟨hr, _⟩, rfl⟩ := this
    exact (h r hr).2.2


/-! ### types, generic arguments, inline bounds (mutual structural induction) -/

mutual
theorem lowerTy_noPanic : ∀ (t : ATy) (env : Env), env.WF → NoPanic (lowerTy env t)
  | .id n, env, h => by
      unfold lowerTy
      exact (lookupGenericArg_noPanic h n).andThen fun _ _ => NoPanic.ite (.ok _) (.err _)
  | .apply n args, env, h => by
      have ha := lowerGArgs_noPanic args env h
      unfold lowerTy
      split
      · exact .err _
      · exact .err _
      · next id hl =>
        exact (kindsIndex_noPanic _ _ _ (h.tb.adt _ _ (lookupType_adt hl))).andThen fun _ _ =>
          checkArgs_noPanic _ _ _ _ ha
      · next id hl =>
        exact (kindsIndex_noPanic _ _ _ (h.tb.fnDef _ _ (lookupType_fnDef hl))).andThen fun _ _ =>
          checkArgs_noPanic _ _ _ _ ha
      · next id hl =>
        exact (kindsIndex_noPanic _ _ _ (h.tb.closure _ _ (lookupType_closure hl))).andThen fun _ _ =>
          checkArgs_noPanic _ _ _ _ ha
      · next id hl =>
        exact (kindsIndex_noPanic _ _ _ (h.tb.opaqueT _ _ (lookupType_opaque hl))).andThen fun _ _ =>
          checkArgs_noPanic _ _ _ _ ha
      · next id hl =>
        exact (kindsIndex_noPanic _ _ _ (h.tb.coroutine _ _ (lookupType_coroutine hl))).andThen fun _ _ =>
          checkArgs_noPanic _ _ _ _ ha
      · rw [h.ver]; exact NoPanic.ite (.err _) (.ok _)
      · rw [h.ver]; exact .err _
  | .tuple tys, env, h => by
      unfold lowerTy; exact lowerTys_noPanic tys env h
  | .leaf, env, h => by
      unfold lowerTy; exact .ok _
  | .ref l t, env, h => by
      unfold lowerTy; exact (lowerLifetime_noPanic h l).seq (lowerTy_noPanic t env h)
  | .raw t, env, h => by
      unfold lowerTy; exact lowerTy_noPanic t env h
  | .slice t, env, h => by
      unfold lowerTy; exact lowerTy_noPanic t env h
  | .array t c, env, h => by
      unfold lowerTy; exact (lowerTy_noPanic t env h).seq (lowerConst_noPanic h c)
  | .fnptr lts abi tys, env, h => by
      unfold lowerTy
      split
      · next env' hi => exact (lowerTys_noPanic tys env' (introduce_wf h hi)).seq (lowerAbi_noPanic abi)
      · exact .err _
      · next s hi => exact absurd hi (introduce_noPanic _ _ s)
  | .proj self trait targs name args, env, h => by
      unfold lowerTy
      refine (lowerTraitBoundWith_noPanic h trait (lowerGArgs_noPanic targs env h)).andThen fun tid _ => ?_
      refine (lowerTy_noPanic self env h).seq ?_
      exact (lookupAssocTy_noPanic env tid name).andThen fun lk _ =>
        checkArgsAfter_noPanic _ _ _ (lowerGArgs_noPanic args env h)
  | .dyn bounds l, env, h => by
      unfold lowerTy
      split
      · next env' hi =>
        exact (combineBounds_noPanic _ (lowerQIBs_noPanic bounds env' (introduce_wf h hi))).seq
          (lowerLifetime_noPanic h l)
      · exact .err _
      · next s hi => exact absurd hi (introduce_noPanic _ _ s)

theorem lowerTys_noPanic : ∀ (ts : ATys) (env : Env), env.WF → NoPanic (lowerTys env ts)
  | .nil, env, h => by unfold lowerTys; exact .ok _
  | .cons t ts, env, h => by
      unfold lowerTys; exact (lowerTy_noPanic t env h).seq (lowerTys_noPanic ts env h)

theorem lowerGArg_noPanic : ∀ (a : AGArg) (env : Env), env.WF → NoPanic (lowerGArg env a)
  | .ty t, env, h => by unfold lowerGArg; exact (lowerTy_noPanic t env h).seq (.ok _)
  | .lt l, env, h => by unfold lowerGArg; exact (lowerLifetime_noPanic h l).seq (.ok _)
  | .id n, env, h => by unfold lowerGArg; exact lookupGenericArg_noPanic h n
  | .const c, env, h => by unfold lowerGArg; exact (lowerConst_noPanic h c).seq (.ok _)

theorem lowerGArgs_noPanic : ∀ (as : AGArgs) (env : Env), env.WF → NoPanic (lowerGArgs env as)
  | .nil, env, h => by unfold lowerGArgs; exact .ok _
  | .cons a as, env, h => by
      unfold lowerGArgs
      exact (lowerGArg_noPanic a env h).andThen fun _ _ =>
        (lowerGArgs_noPanic as env h).andThen fun _ _ => .ok _

theorem lowerQIB_noPanic : ∀ (b : AQIB) (env : Env), env.WF → (lowerQIB env b).NoPanic
  | .traitBound vks trait args, env, h => by
      unfold lowerQIB
      refine ⟨lookupTrait_noPanic env trait,
        (lookupTrait_noPanic env trait).andThen fun id hid => autoTrait_noPanic h hid, ?_⟩
      show NoPanic (match env.introduce (vkPairs vks) with
        | .ok env' => (lowerTraitBoundWith env' trait (lowerGArgs env' args)).void
        | .err e => .err e
        | .panic s => .panic s)
      split
      · next env' hi =>
        have h' := introduce_wf h hi
        exact (lowerTraitBoundWith_noPanic h' trait (lowerGArgs_noPanic args env' h')).void
      · exact .err _
      · next s hi => exact absurd hi (introduce_noPanic _ _ s)
  | .aliasEq vks trait args name aargs value, env, h => by
      unfold lowerQIB
      refine ⟨lookupTrait_noPanic env trait,
        (lookupTrait_noPanic env trait).andThen fun id hid => autoTrait_noPanic h hid, ?_⟩
      show NoPanic (match env.introduce (vkPairs vks) with
        | .ok env' =>
            (lowerTraitBoundWith env' trait (lowerGArgs env' args)).andThen fun t =>
              (env'.lookupAssocTy t name).andThen fun lk =>
                checkArgsAfter .IncorrectNumberOfAssociatedTypeParameters
                  .IncorrectAssociatedTypeParameterKind lk.addl (lowerGArgs env' aargs) ⨾
                lowerTy env' value
        | .err e => .err e
        | .panic s => .panic s)
      split
      · next env' hi =>
        have h' := introduce_wf h hi
        refine (lowerTraitBoundWith_noPanic h' trait (lowerGArgs_noPanic args env' h')).andThen fun t _ => ?_
        refine (lookupAssocTy_noPanic env' t name).andThen fun lk _ => ?_
        exact (checkArgsAfter_noPanic _ _ _ (lowerGArgs_noPanic aargs env' h')).seq
          (lowerTy_noPanic value env' h')
      · exact .err _
      · next s hi => exact absurd hi (introduce_noPanic _ _ s)

theorem lowerQIBs_noPanic : ∀ (bs : AQIBs) (env : Env), env.WF → ∀ r ∈ lowerQIBs env bs, r.NoPanic
  | .nil, env, h => by unfold lowerQIBs; intro r hr; cases hr
  | .cons b bs, env, h => by
      unfold lowerQIBs
      intro r hr
      rcases List.mem_cons.mp hr with rfl | hr
      · exact lowerQIB_noPanic b env h
      · exact lowerQIBs_noPanic bs env h r hr
end


/-! ### trait references, where clauses, goals -/

theorem lowerTraitRef_noPanic {env : Env} (h : env.WF) (tr : ATraitRef) : NoPanic (lowerTraitRef env tr) := by
  unfold lowerTraitRef lowerTraitBound
  exact (lowerTraitBoundWith_noPanic h _ (lowerGArgs_noPanic _ env h)).andThen fun _ _ =>
    (lowerTy_noPanic _ env h).seq (.ok _)

theorem lowerProj_noPanic {env : Env} (h : env.WF) (p : AProj) : NoPanic (lowerProj env p) := by
  unfold lowerProj
  exact (lowerTraitRef_noPanic h _).andThen fun tid _ =>
    (lookupAssocTy_noPanic env tid _).andThen fun lk _ =>
      checkArgsAfter_noPanic _ _ _ (lowerGArgs_noPanic _ env h)

theorem lowerWhereClause_noPanic {env : Env} (h : env.WF) (w : AWhereClause) :
    NoPanic (lowerWhereClause env w) := by
  cases w with
  | implemented tr => unfold lowerWhereClause; exact (lowerTraitRef_noPanic h tr).void
  | projEq p t =>
    unfold lowerWhereClause
    exact (lowerProj_noPanic h p).seq ((lowerTy_noPanic t env h).seq (lowerTraitRef_noPanic h _).void)
  | ltOutlives a b => unfold lowerWhereClause; exact (lowerLifetime_noPanic h a).seq (lowerLifetime_noPanic h b)
  | tyOutlives t l => unfold lowerWhereClause; exact (lowerTy_noPanic t env h).seq (lowerLifetime_noPanic h l)

theorem inBinders_noPanic {env : Env} (h : env.WF) (vks : List (String × Kind)) (op : Env → Outcome Unit)
    (hop : ∀ env', env'.WF → NoPanic (op env')) : NoPanic (inBinders env vks op) := by
  unfold inBinders
  exact (introduce_noPanic env vks).andThen fun env' hi => hop env' (introduce_wf h hi)

theorem lowerQWC_noPanic {env : Env} (h : env.WF) (w : AQWC) : NoPanic (lowerQWC env w) := by
  unfold lowerQWC
  exact inBinders_noPanic h _ _ fun env' h' => lowerWhereClause_noPanic h' _

theorem lowerQWCs_noPanic {env : Env} (h : env.WF) (ws : List AQWC) : NoPanic (lowerQWCs env ws) := by
  induction ws with
  | nil => exact .ok _
  | cons w ws ih => unfold lowerQWCs; exact (lowerQWC_noPanic h w).seq ih

theorem lowerDomainGoal_noPanic {env : Env} (h : env.WF) (d : ADomainGoal) : NoPanic (lowerDomainGoal env d) := by
  cases d with
  | holds wc => unfold lowerDomainGoal; exact lowerWhereClause_noPanic h wc
  | normalize p t => unfold lowerDomainGoal; exact (lowerProj_noPanic h p).seq (lowerTy_noPanic t env h)
  | ofTy t => unfold lowerDomainGoal; exact lowerTy_noPanic t env h
  | ofTraitRef tr => unfold lowerDomainGoal; exact (lowerTraitRef_noPanic h tr).void
  | nullary => exact .ok _
  | objectSafe n => unfold lowerDomainGoal; exact (lookupTrait_noPanic env n).void

theorem lowerLeaf_noPanic {env : Env} (h : env.WF) (l : ALeaf) : NoPanic (lowerLeaf env l) := by
  cases l with
  | domain dg => unfold lowerLeaf; exact lowerDomainGoal_noPanic h dg
  | unify a b => unfold lowerLeaf; exact (lowerGArg_noPanic a env h).void.seq (lowerGArg_noPanic b env h).void
  | subtype a b => unfold lowerLeaf; exact (lowerTy_noPanic a env h).seq (lowerTy_noPanic b env h)

mutual
theorem lowerGoal_noPanic : ∀ (g : AGoal) (env : Env), env.WF → NoPanic (lowerGoal env g)
  | .quant vks g, env, h => by
      unfold lowerGoal
      split
      · exact lowerGoal_noPanic g env h
      · split
        · next env' hi => exact lowerGoal_noPanic g env' (introduce_wf h hi)
        · exact .err _
        · next s hi => exact absurd hi (introduce_noPanic _ _ s)
  | .implies hyp g, env, h => by
      unfold lowerGoal; exact (lowerClauses_noPanic hyp env h).seq (lowerGoal_noPanic g env h)
  | .and gs, env, h => by unfold lowerGoal; exact lowerGoals_noPanic gs env h
  | .not g, env, h => by unfold lowerGoal; exact lowerGoal_noPanic g env h
  | .compatible g, env, h => by unfold lowerGoal; exact lowerGoal_noPanic g env h
  | .leaf l, env, h => by unfold lowerGoal; exact lowerLeaf_noPanic h l

theorem lowerGoals_noPanic : ∀ (gs : AGoals) (env : Env), env.WF → NoPanic (lowerGoals env gs)
  | .nil, env, h => by unfold lowerGoals; exact .ok _
  | .cons g gs, env, h => by
      unfold lowerGoals; exact (lowerGoal_noPanic g env h).seq (lowerGoals_noPanic gs env h)

theorem lowerGoalsRev_noPanic : ∀ (gs : AGoals) (env : Env), env.WF → NoPanic (lowerGoalsRev env gs)
  | .nil, env, h => by unfold lowerGoalsRev; exact .ok _
  | .cons g gs, env, h => by
      unfold lowerGoalsRev; exact (lowerGoalsRev_noPanic gs env h).seq (lowerGoal_noPanic g env h)

theorem lowerClause_noPanic : ∀ (c : AClause) (env : Env), env.WF → NoPanic (lowerClause env c)
  | .mk vks consequence conditions, env, h => by
      unfold lowerClause
      split
      · next env' hi =>
        have h' := introduce_wf h hi
        exact (lowerDomainGoal_noPanic h' consequence).seq (lowerGoalsRev_noPanic conditions env' h')
      · exact .err _
      · next s hi => exact absurd hi (introduce_noPanic _ _ s)

theorem lowerClauses_noPanic : ∀ (cs : AClauses) (env : Env), env.WF → NoPanic (lowerClauses env cs)
  | .nil, env, h => by unfold lowerClauses; exact .ok _
  | .cons c cs, env, h => by
      unfold lowerClauses; exact (lowerClause_noPanic c env h).seq (lowerClauses_noPanic cs env h)
end


/-! ### items -/

/-- the keys `extract_associated_types` must have created for the item at position `r` -/
def AssocOK (tb : Tables) (r : Nat) : AItem → Prop
  | .trait _ _ _ _ assoc => ∀ d ∈ assoc, alookup tb.assocLookups (r, d.name) ≠ none
  | .impl _ _ _ _ values => ∀ v ∈ values, alookup tb.assocValueIds (r, v.name) ≠ none
  | _ => True

/-- the key `extract_ids` must have created for a coroutine -/
def CoroOK (tb : Tables) : AItem → Prop
  | .coroutine name _ _ _ _ _ _ _ => alookup tb.coroutineIds name ≠ none
  | _ => True

theorem traitAssocIds_noPanic (env : Env) (r : Nat) (assoc : List AAssocTyDefn)
    (h : ∀ d ∈ assoc, alookup env.tb.assocLookups (r, d.name) ≠ none) : NoPanic (traitAssocIds env r assoc) := by
  induction assoc with
  | nil => exact .ok _
  | cons d ds ih =>
    unfold traitAssocIds
    split
    · next hn => exact absurd hn (h d (List.mem_cons_self ..))
    · exact ih fun d' hd' => h d' (List.mem_cons_of_mem _ hd')

theorem lowerAssocDefns_noPanic {env : Env} (hw : env.WF) (r : Nat) (tp : List (String × Kind))
    (assoc : List AAssocTyDefn) (h : ∀ d ∈ assoc, alookup env.tb.assocLookups (r, d.name) ≠ none) :
    ∀ acc, NoPanic (lowerAssocDefns env r tp acc assoc) := by
  induction assoc with
  | nil => intro acc; exact .ok _
  | cons d ds ih =>
    intro acc
    unfold lowerAssocDefns
    split
    · next hn => exact absurd hn (h d (List.mem_cons_self ..))
    · refine NoPanic.andThen ?_ fun _ _ => ih (fun d' hd' => h d' (List.mem_cons_of_mem _ hd')) _
      exact inBinders_noPanic hw _ _ fun env' h' =>
        (combineBounds_noPanic _ (lowerQIBs_noPanic _ env' h')).seq (lowerQWCs_noPanic h' _)

theorem implValueIds_noPanic (env : Env) (site : Site) (r : Nat) (values : List AAssocTyValue)
    (h : ∀ v ∈ values, alookup env.tb.assocValueIds (r, v.name) ≠ none) :
    NoPanic (implValueIds env site r values) := by
  induction values with
  | nil => exact .ok _
  | cons v vs ih =>
    unfold implValueIds
    split
    · next hn => exact absurd hn (h v (List.mem_cons_self ..))
    · exact ih fun v' hv' => h v' (List.mem_cons_of_mem _ hv')

theorem lowerAssocValues_noPanic {env : Env} (hw : env.WF) (r tid : Nat) (ip : List (String × Kind))
    (values : List AAssocTyValue) (h : ∀ v ∈ values, alookup env.tb.assocValueIds (r, v.name) ≠ none) :
    NoPanic (lowerAssocValues env r tid ip values) := by
  induction values with
  | nil => exact .ok _
  | cons v vs ih =>
    unfold lowerAssocValues
    split
    · next hn => exact absurd hn (h v (List.mem_cons_self ..))
    · split
      · rw [hw.ver]; exact .err _
      · exact (inBinders_noPanic hw _ _ fun env' h' => lowerTy_noPanic _ env' h').seq
          (ih fun v' hv' => h v' (List.mem_cons_of_mem _ hv'))

theorem varianceCheck_noPanic (v : Option Nat) (n : Nat) : NoPanic (varianceCheck v n) := by
  unfold varianceCheck
  split
  · exact NoPanic.ite (.err _) (.ok _)
  · exact .ok _

theorem lowerItem_noPanic {env : Env} (hw : env.WF) (r : Nat) (acc : Lowered) (it : AItem)
    (ha : AssocOK env.tb r it) (hc : CoroOK env.tb it) : NoPanic (lowerItem env r acc it) := by
  cases it with
  | adt name vks fundamental fields wcs variances =>
    unfold lowerItem
    refine NoPanic.seq (NoPanic.ite (.err _) ?_) (.ok _)
    exact (inBinders_noPanic hw _ _ fun env' h' =>
      (lowerTys_noPanic _ env' h').seq (lowerQWCs_noPanic h' _)).seq (varianceCheck_noPanic _ _)
  | fnDef name vks wcs args ret abi variances =>
    unfold lowerItem
    refine NoPanic.seq (inBinders_noPanic hw _ _ fun env' h' => ?_)
      ((lowerAbi_noPanic _).seq ((varianceCheck_noPanic _ _).seq (.ok _)))
    exact (lowerQWCs_noPanic h' _).seq (inBinders_noPanic h' _ _ fun env'' h'' =>
      (lowerTy_noPanic _ env'' h'').seq (lowerTys_noPanic _ env'' h''))
  | closure name vks args ret upvars =>
    unfold lowerItem
    exact (inBinders_noPanic hw _ _ fun env' h' =>
        (lowerTy_noPanic _ env' h').seq (lowerTys_noPanic _ env' h')).seq
      ((inBinders_noPanic hw _ _ fun env' h' => lowerTys_noPanic _ env' h').seq (.ok _))
  | trait name vks auto wcs assoc =>
    unfold lowerItem
    refine NoPanic.seq (inBinders_noPanic hw _ _ fun env' h' => ?_)
      ((traitAssocIds_noPanic env r assoc ha).seq (lowerAssocDefns_noPanic hw r _ assoc ha _))
    refine NoPanic.seq ?_ (lowerQWCs_noPanic h' _)
    split
    · exact NoPanic.ite (.err _) (NoPanic.ite (.err _) (.ok _))
    · exact .ok _
  | opaqueTy name vks ty bounds wcs =>
    unfold lowerItem
    refine NoPanic.seq (inBinders_noPanic hw _ _ fun env' h' => ?_) (.ok _)
    refine (lowerTy_noPanic _ env' h').seq (NoPanic.seq ?_ ?_)
    · exact inBinders_noPanic h' _ _ fun env'' h'' => combineBounds_noPanic _ (lowerQIBs_noPanic _ env'' h'')
    · exact inBinders_noPanic h' _ _ fun env'' h'' => lowerQWCs_noPanic h'' _
  | coroutine name vks upvars resume yield ret witnesses witnessLts =>
    unfold lowerItem
    refine NoPanic.seq (inBinders_noPanic hw _ _ fun env' h' => ?_) (NoPanic.seq ?_ (NoPanic.seq ?_ (.ok _)))
    · exact (lowerTy_noPanic _ env' h').seq ((lowerTy_noPanic _ env' h').seq
        ((lowerTy_noPanic _ env' h').seq (lowerTys_noPanic _ env' h')))
    · exact inBinders_noPanic hw _ _ fun env' h' =>
        inBinders_noPanic h' _ _ fun env'' h'' => lowerTys_noPanic _ env'' h''
    · split
      · exact .ok _
      · next hn => exact absurd hn hc
  | impl vks positive tr wcs values =>
    unfold lowerItem
    refine NoPanic.andThen ?_ fun tid _ => ?_
    · refine (introduce_noPanic env _).andThen fun env' hi => ?_
      have h' := introduce_wf hw hi
      refine (lowerTraitRef_noPanic h' tr).andThen fun tid _ => ?_
      exact (NoPanic.ite (.err _) (.ok _)).seq ((lowerQWCs_noPanic h' _).seq (.ok _))
    · exact (implValueIds_noPanic env _ r values ha).seq
        ((lowerAssocValues_noPanic hw r tid _ values ha).seq (.ok _))
  | clause c =>
    unfold lowerItem; exact (lowerClause_noPanic c env hw).seq (.ok _)
  | foreign name =>
    unfold lowerItem; exact .ok _


/-! ### `extract_associated_types`, `extract_ids` -/

/-- keys are only added, and the id tables are not touched -/
structure Mono (tb tb' : Tables) : Prop where
  lookups : ∀ k, alookup tb.assocLookups k ≠ none → alookup tb'.assocLookups k ≠ none
  values : ∀ k, alookup tb.assocValueIds k ≠ none → alookup tb'.assocValueIds k ≠ none
  coro : ∀ k, alookup tb.coroutineIds k ≠ none → alookup tb'.coroutineIds k ≠ none
  wf : tb.WF → tb'.WF

theorem Mono.refl (tb : Tables) : Mono tb tb := ⟨fun _ h => h, fun _ h => h, fun _ h => h, fun h => h⟩

theorem Mono.trans {a b c : Tables} (h1 : Mono a b) (h2 : Mono b c) : Mono a c :=
  ⟨fun k h => h2.lookups k (h1.lookups k h), fun k h => h2.values k (h1.values k h),
   fun k h => h2.coro k (h1.coro k h), fun h => h2.wf (h1.wf h)⟩

theorem AssocOK.mono {tb tb' : Tables} (m : Mono tb tb') {r : Nat} {it : AItem} (h : AssocOK tb r it) :
    AssocOK tb' r it := by
  cases it <;> simp only [AssocOK] at h ⊢
  · exact fun d hd => m.lookups _ (h d hd)
  · exact fun v hv => m.values _ (h v hv)

theorem CoroOK.mono {tb tb' : Tables} (m : Mono tb tb') {it : AItem} (h : CoroOK tb it) : CoroOK tb' it := by
  cases it <;> simp only [CoroOK] at h ⊢
  exact m.coro _ h

theorem traitAssocStep_mono (r : Nat) (acc : Tables × Nat) (d : AAssocTyDefn) :
    Mono acc.1 (traitAssocStep r acc d).1 :=
  ⟨fun _ h => alookup_cons_ne_none _ _ _ _ h, fun _ h => h, fun _ h => h,
   fun h => ⟨h.adt, h.fnDef, h.closure, h.trait, h.autoT, h.opaqueT, h.coroutine⟩⟩

theorem foldl_traitAssocStep (r : Nat) (assoc : List AAssocTyDefn) : ∀ (acc : Tables × Nat),
    Mono acc.1 (assoc.foldl (traitAssocStep r) acc).1 ∧
    ∀ d ∈ assoc, alookup (assoc.foldl (traitAssocStep r) acc).1.assocLookups (r, d.name) ≠ none := by
  induction assoc with
  | nil => intro acc; exact ⟨Mono.refl _, fun d hd => by cases hd⟩
  | cons d ds ih =>
    intro acc
    simp only [List.foldl_cons]
    obtain ⟨m, hk⟩ := ih (traitAssocStep r acc d)
    refine ⟨(traitAssocStep_mono r acc d).trans m, fun d' hd' => ?_⟩
    rcases List.mem_cons.mp hd' with rfl | hd'
    · apply m.lookups
      simp [traitAssocStep, alookup]
    · exact hk d' hd'

theorem implValueStep_mono (r : Nat) (acc : Tables × Nat) (v : AAssocTyValue) :
    Mono acc.1 (implValueStep r acc v).1 :=
  ⟨fun _ h => h, fun _ h => alookup_cons_ne_none _ _ _ _ h, fun _ h => h,
   fun h => ⟨h.adt, h.fnDef, h.closure, h.trait, h.autoT, h.opaqueT, h.coroutine⟩⟩

theorem foldl_implValueStep (r : Nat) (values : List AAssocTyValue) : ∀ (acc : Tables × Nat),
    Mono acc.1 (values.foldl (implValueStep r) acc).1 ∧
    ∀ v ∈ values, alookup (values.foldl (implValueStep r) acc).1.assocValueIds (r, v.name) ≠ none := by
  induction values with
  | nil => intro acc; exact ⟨Mono.refl _, fun v hv => by cases hv⟩
  | cons v vs ih =>
    intro acc
    simp only [List.foldl_cons]
    obtain ⟨m, hk⟩ := ih (implValueStep r acc v)
    refine ⟨(implValueStep_mono r acc v).trans m, fun v' hv' => ?_⟩
    rcases List.mem_cons.mp hv' with rfl | hv'
    · apply m.values
      simp [implValueStep, alookup]
    · exact hk v' hv'

theorem extractAssocItem_spec {tb : Tables} {next r : Nat} {it : AItem} {res : Tables × Nat}
    (h : extractAssocItem tb next r it = .ok res) : Mono tb res.1 ∧ AssocOK res.1 r it := by
  cases it <;> simp only [extractAssocItem] at h
  case trait name vks auto wcs assoc =>
    split at h
    · cases h
    · cases h
      exact ⟨(foldl_traitAssocStep r assoc (tb, next)).1, (foldl_traitAssocStep r assoc (tb, next)).2⟩
  case impl vks positive tr wcs values =>
    cases h
    exact ⟨(foldl_implValueStep r values (tb, next)).1, (foldl_implValueStep r values (tb, next)).2⟩
  all_goals (cases h; exact ⟨Mono.refl _, trivial⟩)

theorem extractAssocItem_noPanic (tb : Tables) (next r : Nat) (it : AItem) :
    NoPanic (extractAssocItem tb next r it) := by
  cases it <;> simp only [extractAssocItem]
  case trait => exact NoPanic.ite (.err _) (.ok _)
  all_goals exact .ok _

/-- every item of the list has its keys (positions counted from `r`) -/
def ItemsOK (tb : Tables) : Nat → List AItem → Prop
  | _, [] => True
  | r, it :: rest => (AssocOK tb r it ∧ CoroOK tb it) ∧ ItemsOK tb (r + 1) rest

def AssocItemsOK (tb : Tables) : Nat → List AItem → Prop
  | _, [] => True
  | r, it :: rest => AssocOK tb r it ∧ AssocItemsOK tb (r + 1) rest

theorem AssocItemsOK.mono {tb tb' : Tables} (m : Mono tb tb') : ∀ {r : Nat} {items : List AItem},
    AssocItemsOK tb r items → AssocItemsOK tb' r items
  | _, [], _ => trivial
  | _, _ :: _, h => ⟨h.1.mono m, AssocItemsOK.mono m h.2⟩

theorem extractAssoc_noPanic : ∀ (items : List AItem) (tb : Tables) (next r : Nat),
    NoPanic (extractAssoc tb next r items)
  | [], _, _, _ => .ok _
  | it :: rest, tb, next, r => by
      unfold extractAssoc
      exact (extractAssocItem_noPanic tb next r it).andThen fun res _ => extractAssoc_noPanic rest _ _ _

theorem extractAssoc_spec : ∀ (items : List AItem) (tb : Tables) (next r : Nat) (res : Tables × Nat),
    extractAssoc tb next r items = .ok res → Mono tb res.1 ∧ AssocItemsOK res.1 r items
  | [], tb, next, r, res, h => by
      simp only [extractAssoc] at h; cases h; exact ⟨Mono.refl _, trivial⟩
  | it :: rest, tb, next, r, res, h => by
      unfold extractAssoc at h
      cases hi : extractAssocItem tb next r it with
      | ok r1 =>
        rw [hi] at h
        simp only [Outcome.andThen] at h
        obtain ⟨m1, ok1⟩ := extractAssocItem_spec hi
        obtain ⟨m2, ok2⟩ := extractAssoc_spec rest r1.1 r1.2 (r + 1) res h
        exact ⟨m1.trans m2, ok1.mono m2, ok2⟩
      | err e => rw [hi] at h; simp only [Outcome.andThen] at h; cases h
      | panic s => rw [hi] at h; simp only [Outcome.andThen] at h; cases h

theorem extractIdsItem_mono (tb : Tables) (r : Nat) (it : AItem) : Mono tb (extractIdsItem tb r it) := by
  cases it <;> simp only [extractIdsItem]
  case adt =>
    exact ⟨fun _ h => h, fun _ h => h, fun _ h => h,
      fun h => ⟨h.adt.cons _ _ _, h.fnDef, h.closure, h.trait, h.autoT, h.opaqueT, h.coroutine⟩⟩
  case fnDef =>
    exact ⟨fun _ h => h, fun _ h => h, fun _ h => h,
      fun h => ⟨h.adt, h.fnDef.cons _ _ _, h.closure, h.trait, h.autoT, h.opaqueT, h.coroutine⟩⟩
  case closure =>
    exact ⟨fun _ h => h, fun _ h => h, fun _ h => h,
      fun h => ⟨h.adt, h.fnDef, h.closure.cons _ _ _, h.trait, h.autoT, h.opaqueT, h.coroutine⟩⟩
  case trait =>
    exact ⟨fun _ h => h, fun _ h => h, fun _ h => h,
      fun h => ⟨h.adt, h.fnDef, h.closure, h.trait.cons _ _ _, h.autoT.cons _ _ _, h.opaqueT, h.coroutine⟩⟩
  case opaqueTy =>
    exact ⟨fun _ h => h, fun _ h => h, fun _ h => h,
      fun h => ⟨h.adt, h.fnDef, h.closure, h.trait, h.autoT, h.opaqueT.cons _ _ _, h.coroutine⟩⟩
  case coroutine =>
    exact ⟨fun _ h => h, fun _ h => h, fun k h => alookup_cons_ne_none _ _ _ _ h,
      fun h => ⟨h.adt, h.fnDef, h.closure, h.trait, h.autoT, h.opaqueT, h.coroutine.cons _ _ _⟩⟩
  case foreign =>
    exact ⟨fun _ h => h, fun _ h => h, fun _ h => h,
      fun h => ⟨h.adt, h.fnDef, h.closure, h.trait, h.autoT, h.opaqueT, h.coroutine⟩⟩
  all_goals exact Mono.refl _

theorem extractIdsItem_coro (tb : Tables) (r : Nat) (it : AItem) : CoroOK (extractIdsItem tb r it) it := by
  cases it <;> simp only [extractIdsItem, CoroOK]
  simp [alookup]

def CoroItemsOK (tb : Tables) : List AItem → Prop
  | [] => True
  | it :: rest => CoroOK tb it ∧ CoroItemsOK tb rest

theorem CoroItemsOK.mono {tb tb' : Tables} (m : Mono tb tb') : ∀ {items : List AItem},
    CoroItemsOK tb items → CoroItemsOK tb' items
  | [], _ => trivial
  | _ :: _, h => ⟨h.1.mono m, CoroItemsOK.mono m h.2⟩

theorem extractIds_spec : ∀ (items : List AItem) (tb : Tables) (r : Nat),
    Mono tb (extractIds tb r items) ∧ CoroItemsOK (extractIds tb r items) items
  | [], tb, r => ⟨Mono.refl _, trivial⟩
  | it :: rest, tb, r => by
      unfold extractIds
      obtain ⟨m, hc⟩ := extractIds_spec rest (extractIdsItem tb r it) (r + 1)
      exact ⟨(extractIdsItem_mono tb r it).trans m, (extractIdsItem_coro tb r it).mono m, hc⟩

theorem itemsOK_of {tb : Tables} : ∀ {r : Nat} {items : List AItem},
    AssocItemsOK tb r items → CoroItemsOK tb items → ItemsOK tb r items
  | _, [], _, _ => trivial
  | _, _ :: _, ha, hc => ⟨⟨ha.1, hc.1⟩, itemsOK_of ha.2 hc.2⟩

theorem Tables.WF.empty : Tables.WF {} :=
  ⟨IdsIn.nil _, IdsIn.nil _, IdsIn.nil _, IdsIn.nil _, IdsIn.nil _, IdsIn.nil _, IdsIn.nil _⟩

/-- the tables handed to the item loop are well formed and contain every key the loop indexes -/
theorem extracted_tables {p : AProgram} {res : Tables × Nat} (h : extractAssoc {} p.length 0 p = .ok res) :
    (extractIds res.1 0 p).WF ∧ ItemsOK (extractIds res.1 0 p) 0 p := by
  obtain ⟨m1, ha⟩ := extractAssoc_spec p {} p.length 0 res h
  obtain ⟨m2, hc⟩ := extractIds_spec p res.1 0
  exact ⟨m2.wf (m1.wf Tables.WF.empty), itemsOK_of (ha.mono m2) hc⟩


/-! ### the item loop and what `lower_goal` reads back -/

theorem seq_ok_inv {α β : Type} {x : Outcome α} {y : Outcome β} {b : β} (h : (x ⨾ y) = .ok b) : y = .ok b := by
  cases x <;> simp only [Outcome.seq] at h
  · exact h
  · cases h
  · cases h

theorem andThen_ok_inv {α β : Type} {x : Outcome α} {f : α → Outcome β} {b : β}
    (h : x.andThen f = .ok b) : ∃ a, x = .ok a ∧ f a = .ok b := by
  cases x <;> simp only [Outcome.andThen] at h
  · exact ⟨_, rfl, h⟩
  · cases h
  · cases h

/-- invariant of the accumulated program data after the items before position `r` -/
structure LInv (acc : Lowered) (r : Nat) : Prop where
  keys : ∀ k, alookup acc.traitData k ≠ none → k < r
  assoc : ∀ p ∈ acc.assocTyData,
    ∃ td, alookup acc.traitData p.2.traitId = some td ∧ td.nBinders ≤ p.2.binders.length

theorem lowerAssocDefns_spec (env : Env) (r : Nat) (tp : List (String × Kind)) :
    ∀ (assoc : List AAssocTyDefn) (acc acc' : Lowered), lowerAssocDefns env r tp acc assoc = .ok acc' →
      acc'.tb = acc.tb ∧ acc'.traitData = acc.traitData ∧
      ∀ p ∈ acc'.assocTyData, p ∈ acc.assocTyData ∨ (p.2.traitId = r ∧ tp.length ≤ p.2.binders.length)
  | [], acc, acc', h => by
      simp only [lowerAssocDefns] at h; cases h
      exact ⟨rfl, rfl, fun p hp => Or.inl hp⟩
  | d :: ds, acc, acc', h => by
      unfold lowerAssocDefns at h
      split at h
      · cases h
      · next lk _ =>
        obtain ⟨_, _, h⟩ := andThen_ok_inv h
        obtain ⟨h1, h2, h3⟩ := lowerAssocDefns_spec env r tp ds _ acc' h
        refine ⟨h1, h2, fun p hp => ?_⟩
        rcases h3 p hp with hp | hp
        · rcases List.mem_cons.mp hp with rfl | hp
          · exact Or.inr ⟨rfl, by simp⟩
          · exact Or.inl hp
        · exact Or.inr hp

def isTrait : AItem → Bool
  | .trait .. => true
  | _ => false

theorem lowerItem_spec {env : Env} {r : Nat} {acc acc' : Lowered} {it : AItem}
    (h : lowerItem env r acc it = .ok acc') :
    acc'.tb = acc.tb ∧ (LInv acc r → LInv acc' (r + 1)) ∧
    (∀ k, alookup acc.traitData k ≠ none → alookup acc'.traitData k ≠ none) ∧
    (isTrait it = true → alookup acc'.traitData r ≠ none) := by
  have same : acc' = acc → acc'.tb = acc.tb ∧ (LInv acc r → LInv acc' (r + 1)) ∧
      (∀ k, alookup acc.traitData k ≠ none → alookup acc'.traitData k ≠ none) := by
    rintro rfl
    exact ⟨rfl, fun i => ⟨fun k hk => Nat.lt_succ_of_lt (i.keys k hk), i.assoc⟩, fun _ hk => hk⟩
  cases it with
  | trait name vks auto wcs assoc =>
    unfold lowerItem at h
    replace h := seq_ok_inv (seq_ok_inv h)
    obtain ⟨h1, h2, h3⟩ := lowerAssocDefns_spec _ _ _ _ _ _ h
    refine ⟨h1, fun i => ⟨fun k hk => ?_, fun p hp => ?_⟩, fun k hk => ?_, fun _ => ?_⟩
    · rw [h2] at hk
      simp only [alookup] at hk
      split at hk
      · omega
      · exact Nat.lt_succ_of_lt (i.keys k hk)
    · rw [h2]
      rcases h3 p hp with hp | ⟨hp, hl⟩
      · obtain ⟨td, htd, hle⟩ := i.assoc p hp
        refine ⟨td, ?_, hle⟩
        have : p.2.traitId < r := i.keys _ (by rw [htd]; simp)
        rw [alookup_cons_of_ne _ _ _ _ (by omega)]
        exact htd
      · refine ⟨_, by rw [hp]; exact alookup_cons_self _ _ _, ?_⟩
        simpa using hl
    · rw [h2]; exact alookup_cons_ne_none _ _ _ _ hk
    · rw [h2]; simp [alookup]
  | adt name vks fundamental fields wcs variances =>
    unfold lowerItem at h
    replace h := seq_ok_inv h
    cases h; exact ⟨(same rfl).1, (same rfl).2.1, (same rfl).2.2, fun hh => by cases hh⟩
  | fnDef name vks wcs args ret abi variances =>
    unfold lowerItem at h
    replace h := seq_ok_inv (seq_ok_inv (seq_ok_inv h))
    cases h; exact ⟨(same rfl).1, (same rfl).2.1, (same rfl).2.2, fun hh => by cases hh⟩
  | closure name vks args ret upvars =>
    unfold lowerItem at h
    replace h := seq_ok_inv (seq_ok_inv h)
    cases h; exact ⟨(same rfl).1, (same rfl).2.1, (same rfl).2.2, fun hh => by cases hh⟩
  | opaqueTy name vks ty bounds wcs =>
    unfold lowerItem at h
    replace h := seq_ok_inv h
    cases h; exact ⟨(same rfl).1, (same rfl).2.1, (same rfl).2.2, fun hh => by cases hh⟩
  | coroutine name vks upvars resume yield ret witnesses witnessLts =>
    unfold lowerItem at h
    replace h := seq_ok_inv (seq_ok_inv (seq_ok_inv h))
    cases h; exact ⟨(same rfl).1, (same rfl).2.1, (same rfl).2.2, fun hh => by cases hh⟩
  | impl vks positive tr wcs values =>
    unfold lowerItem at h
    obtain ⟨_, _, h⟩ := andThen_ok_inv h
    replace h := seq_ok_inv (seq_ok_inv h)
    cases h; exact ⟨(same rfl).1, (same rfl).2.1, (same rfl).2.2, fun hh => by cases hh⟩
  | clause c =>
    unfold lowerItem at h
    replace h := seq_ok_inv h
    cases h; exact ⟨(same rfl).1, (same rfl).2.1, (same rfl).2.2, fun hh => by cases hh⟩
  | foreign name =>
    unfold lowerItem at h
    cases h; exact ⟨(same rfl).1, (same rfl).2.1, (same rfl).2.2, fun hh => by cases hh⟩

/-- positions (counted from `r`) of the trait items -/
def traitIdxs : Nat → List AItem → List Nat
  | _, [] => []
  | r, it :: rest => if isTrait it then r :: traitIdxs (r + 1) rest else traitIdxs (r + 1) rest

theorem lowerItems_noPanic {env : Env} (hw : env.WF) : ∀ (items : List AItem) (r : Nat) (acc : Lowered),
    acc.tb = env.tb → ItemsOK env.tb r items → NoPanic (lowerItems env r acc items)
  | [], _, _, _, _ => .ok _
  | it :: rest, r, acc, ht, hk => by
      unfold lowerItems
      refine (lowerItem_noPanic hw r acc it hk.1.1 hk.1.2).andThen fun acc' h' => ?_
      exact lowerItems_noPanic hw rest (r + 1) acc' ((lowerItem_spec h').1.trans ht) hk.2

theorem lowerItems_spec {env : Env} : ∀ (items : List AItem) (r : Nat) (acc res : Lowered),
    lowerItems env r acc items = .ok res →
      res.tb = acc.tb ∧ (LInv acc r → LInv res (r + items.length)) ∧
      (∀ k, alookup acc.traitData k ≠ none → alookup res.traitData k ≠ none) ∧
      (∀ id ∈ traitIdxs r items, alookup res.traitData id ≠ none)
  | [], r, acc, res, h => by
      simp only [lowerItems] at h; cases h
      exact ⟨rfl, fun i => i, fun _ hk => hk, fun id hid => by cases hid⟩
  | it :: rest, r, acc, res, h => by
      unfold lowerItems at h
      obtain ⟨acc', h1, h2⟩ := andThen_ok_inv h
      obtain ⟨a1, a2, a3, a4⟩ := lowerItem_spec h1
      obtain ⟨b1, b2, b3, b4⟩ := lowerItems_spec rest (r + 1) acc' res h2
      refine ⟨b1.trans a1, fun i => ?_, fun k hk => b3 k (a3 k hk), fun id hid => ?_⟩
      · have := b2 (a2 i)
        simpa [Nat.add_assoc, Nat.add_comm 1] using this
      · unfold traitIdxs at hid
        split at hid
        · next ht =>
          rcases List.mem_cons.mp hid with rfl | hid
          · exact b3 _ (a4 ht)
          · exact b4 id hid
        · exact b4 id hid

theorem extractIdsItem_traitIds (tb : Tables) (r : Nat) (it : AItem) (n : String) (id : Nat)
    (h : alookup (extractIdsItem tb r it).traitIds n = some id) :
    alookup tb.traitIds n = some id ∨ (isTrait it = true ∧ id = r) := by
  cases it <;> simp only [extractIdsItem] at h
  case trait =>
    simp only [alookup] at h
    split at h
    · cases h; exact Or.inr ⟨rfl, rfl⟩
    · exact Or.inl h
  all_goals exact Or.inl h

theorem extractIds_traitIds : ∀ (items : List AItem) (tb : Tables) (r : Nat) (n : String) (id : Nat),
    alookup (extractIds tb r items).traitIds n = some id →
      alookup tb.traitIds n = some id ∨ id ∈ traitIdxs r items
  | [], _, _, _, _, h => Or.inl h
  | it :: rest, tb, r, n, id, h => by
      unfold extractIds at h
      rcases extractIds_traitIds rest _ (r + 1) n id h with h | h
      · rcases extractIdsItem_traitIds tb r it n id h with h | ⟨ht, rfl⟩
        · exact Or.inl h
        · exact Or.inr (by simp [traitIdxs, ht])
      · refine Or.inr ?_
        unfold traitIdxs
        split
        · exact List.mem_cons_of_mem _ h
        · exact h

theorem foldl_traitAssocStep_traitIds (r : Nat) (assoc : List AAssocTyDefn) : ∀ (acc : Tables × Nat),
    (assoc.foldl (traitAssocStep r) acc).1.traitIds = acc.1.traitIds := by
  induction assoc with
  | nil => intro acc; rfl
  | cons d ds ih => intro acc; simp only [List.foldl_cons]; rw [ih]; rfl

theorem foldl_implValueStep_traitIds (r : Nat) (values : List AAssocTyValue) : ∀ (acc : Tables × Nat),
    (values.foldl (implValueStep r) acc).1.traitIds = acc.1.traitIds := by
  induction values with
  | nil => intro acc; rfl
  | cons v vs ih => intro acc; simp only [List.foldl_cons]; rw [ih]; rfl

theorem extractAssoc_traitIds : ∀ (items : List AItem) (tb : Tables) (next r : Nat) (res : Tables × Nat),
    extractAssoc tb next r items = .ok res → res.1.traitIds = tb.traitIds
  | [], tb, next, r, res, h => by simp only [extractAssoc] at h; cases h; rfl
  | it :: rest, tb, next, r, res, h => by
      unfold extractAssoc at h
      obtain ⟨r1, h1, h2⟩ := andThen_ok_inv h
      rw [extractAssoc_traitIds rest _ _ _ res h2]
      cases it <;> simp only [extractAssocItem] at h1
      case trait =>
        split at h1
        · cases h1
        · cases h1; exact foldl_traitAssocStep_traitIds _ _ _
      case impl => cases h1; exact foldl_implValueStep_traitIds _ _ _
      all_goals (cases h1; rfl)

theorem alookup_map_ne_none {ν μ : Type} (f : ν → μ) (l : List (Nat × ν)) (k : Nat)
    (h : alookup l k ≠ none) : alookup (l.map fun p => (p.1, f p.2)) k ≠ none := by
  induction l with
  | nil => simp [alookup] at h
  | cons x xs ih =>
    obtain ⟨k', v⟩ := x
    simp only [List.map_cons, alookup] at h ⊢
    split
    · simp
    · next hne => rw [if_neg hne] at h; exact ih h

theorem rebuildAssocLookups_noPanic (traitData : List (Nat × TraitDatum)) :
    ∀ (l : List (Nat × AssocTyDatum)),
      (∀ p ∈ l, ∃ td, alookup traitData p.2.traitId = some td ∧ td.nBinders ≤ p.2.binders.length) →
      NoPanic (rebuildAssocLookups traitData l)
  | [], _ => .ok _
  | (id, d) :: rest, h => by
      unfold rebuildAssocLookups
      obtain ⟨td, htd, hle⟩ := h (id, d) (List.mem_cons_self ..)
      simp only at htd hle
      rw [htd]
      simp only
      rw [if_neg (by omega)]
      exact (rebuildAssocLookups_noPanic traitData rest fun p hp => h p (List.mem_cons_of_mem _ hp)).andThen
        fun _ _ => .ok _

/-- what `lower_goal` relies on in a successfully lowered program -/
structure Lowered.WF (prog : Lowered) : Prop where
  tb : prog.tb.WF
  assoc : ∀ p ∈ prog.assocTyData,
    ∃ td, alookup prog.traitData p.2.traitId = some td ∧ td.nBinders ≤ p.2.binders.length
  traits : ∀ n id, alookup prog.tb.traitIds n = some id → alookup prog.traitData id ≠ none

theorem lowerProgram_noPanic (p : AProgram) : NoPanic (lowerProgram .fixed p) := by
  unfold lowerProgram
  refine (extractAssoc_noPanic p _ _ _).andThen fun res hres => ?_
  obtain ⟨hwf, hok⟩ := extracted_tables hres
  exact lowerItems_noPanic (env := ⟨.fixed, extractIds res.1 0 p, []⟩) ⟨rfl, hwf⟩ p 0 _ rfl hok

theorem lowerProgram_wf {p : AProgram} {prog : Lowered} (h : lowerProgram .fixed p = .ok prog) : prog.WF := by
  unfold lowerProgram at h
  obtain ⟨res, hres, h⟩ := andThen_ok_inv h
  obtain ⟨hwf, _⟩ := extracted_tables hres
  obtain ⟨h1, h2, _, h4⟩ := lowerItems_spec p 0 _ prog h
  have hi : LInv { tb := extractIds res.1 0 p } 0 :=
    ⟨fun k hk => by simp [alookup] at hk, fun p hp => by cases hp⟩
  refine ⟨by rw [h1]; exact hwf, (h2 hi).assoc, fun n id hn => ?_⟩
  rw [h1] at hn
  rcases extractIds_traitIds p res.1 0 n id hn with hn | hn
  · rw [extractAssoc_traitIds p _ _ _ res hres] at hn
    simp [alookup] at hn
  · exact h4 id hn

theorem lowerGoalTop_noPanic {prog : Lowered} (hp : prog.WF) (g : AGoal) :
    NoPanic (lowerGoalTop .fixed prog g) := by
  unfold lowerGoalTop
  refine (rebuildAssocLookups_noPanic _ _ hp.assoc).andThen fun lookups _ => ?_
  apply lowerGoal_noPanic
  refine ⟨rfl, ⟨hp.tb.adt, hp.tb.fnDef, hp.tb.closure, hp.tb.trait, ?_, hp.tb.opaqueT, hp.tb.coroutine⟩⟩
  intro n id hn
  exact alookup_map_ne_none (fun d => d.auto) prog.traitData id (hp.traits n id hn)

end Chalk.Resolve
