/-
  Strengthened specifications of the occurs check and of generalization for the acyclicity
  proof (on top of `UnifyOcc.lean`, which provides `Good` for the intermediate tables).
-/
import ChalkModel.Lemmas.UnifyKinded

namespace Chalk

/-! ## occurs check: the result's variables are unbound and outside the class of `c.var` -/

def OccTySpec2 (ar : TyName → Nat) (κ : Nat → TyVarKind) (c : OccCtx)
    (f : Ty → UState → URes (Ty × UState)) : Prop :=
  ∀ ty st ty1 st1, st.table.Good ar → st.table.Kinded κ → c.var < st.table.numVars →
    ty.good ar st.table.numVars = true → ty.kinded κ = true → f ty st = .ok (ty1, st1) →
    st.table.Ext st1.table ∧ ty1.kinded κ = true ∧
    ∀ w, w ∈ ty1.tyVars → st1.table.probeVar w = none ∧ st1.table.find w ≠ st1.table.find c.var

mutual
  theorem occTy_spec2 (ar : TyName → Nat) (κ : Nat → TyVarKind) (J : OccJumps) (c : OccCtx)
      (hJ : OccTySpec ar J.jT) (hJ2 : OccTySpec2 ar κ c J.jT) (outer : Nat) :
      (ty : Ty) → ∀ st ty1 st1, st.table.Good ar → st.table.Kinded κ → c.var < st.table.numVars →
        ty.good ar st.table.numVars = true → ty.kinded κ = true →
        occTy J c outer ty st = .ok (ty1, st1) →
        st.table.Ext st1.table ∧ ty1.kinded κ = true ∧
        ∀ w, w ∈ ty1.tyVars → st1.table.probeVar w = none ∧ st1.table.find w ≠ st1.table.find c.var
    | .app n args => by
        intro st ty1 st1 hg hk hc hgd hkd h
        simp only [occTy] at h
        split at h
        · rename_i args' st' hargs
          cases h
          simp only [Ty.good, Bool.and_eq_true, beq_iff_eq] at hgd
          simp only [Ty.kinded] at hkd
          obtain ⟨h1, h2, h3⟩ := occArgs_spec2 ar κ J c hJ hJ2 outer args st args' st1 hg hk hc hgd.2 hkd hargs
          exact ⟨h1, by simpa only [Ty.kinded] using h2, by simpa only [Ty.tyVars] using h3⟩
        · cases h
    | .scalar s => by
        intro st ty1 st1 hg hk hc hgd hkd h
        simp only [occTy] at h; cases h
        exact ⟨Table.Ext.refl _, hkd, fun w hw => by simp [Ty.tyVars] at hw⟩
    | .str => by
        intro st ty1 st1 hg hk hc hgd hkd h
        simp only [occTy] at h; cases h
        exact ⟨Table.Ext.refl _, hkd, fun w hw => by simp [Ty.tyVars] at hw⟩
    | .never => by
        intro st ty1 st1 hg hk hc hgd hkd h
        simp only [occTy] at h; cases h
        exact ⟨Table.Ext.refl _, hkd, fun w hw => by simp [Ty.tyVars] at hw⟩
    | .foreign id => by
        intro st ty1 st1 hg hk hc hgd hkd h
        simp only [occTy] at h; cases h
        exact ⟨Table.Ext.refl _, hkd, fun w hw => by simp [Ty.tyVars] at hw⟩
    | .error => by intro st ty1 st1 hg hk hc hgd; simp [Ty.good] at hgd
    | .array t k => by intro st ty1 st1 hg hk hc hgd; simp [Ty.good] at hgd
    | .slice t => by
        intro st ty1 st1 hg hk hc hgd hkd h
        simp only [occTy] at h
        split at h
        · rename_i t' st' ht
          cases h
          simp only [Ty.good] at hgd
          simp only [Ty.kinded] at hkd
          obtain ⟨h1, h2, h3⟩ := occTy_spec2 ar κ J c hJ hJ2 outer t st t' st1 hg hk hc hgd hkd ht
          exact ⟨h1, by simpa only [Ty.kinded] using h2, by simpa only [Ty.tyVars] using h3⟩
        · cases h
    | .raw m t => by
        intro st ty1 st1 hg hk hc hgd hkd h
        simp only [occTy] at h
        split at h
        · rename_i t' st' ht
          cases h
          simp only [Ty.good] at hgd
          simp only [Ty.kinded] at hkd
          obtain ⟨h1, h2, h3⟩ := occTy_spec2 ar κ J c hJ hJ2 outer t st t' st1 hg hk hc hgd hkd ht
          exact ⟨h1, by simpa only [Ty.kinded] using h2, by simpa only [Ty.tyVars] using h3⟩
        · cases h
    | .ref m l t => by intro st ty1 st1 hg hk hc hgd; simp [Ty.good] at hgd
    | .placeholder ui idx => by
        intro st ty1 st1 hg hk hc hgd hkd h
        simp only [occTy] at h
        split at h
        · cases h
        · cases h
          exact ⟨Table.Ext.refl _, hkd, fun w hw => by simp [Ty.tyVars] at hw⟩
    | .dyn kinds bounds l => by intro st ty1 st1 hg hk hc hgd; simp [Ty.good] at hgd
    | .proj id args => by intro st ty1 st1 hg hk hc hgd; simp [Ty.good] at hgd
    | .opaque id args => by intro st ty1 st1 hg hk hc hgd; simp [Ty.good] at hgd
    | .function nb sig args => by intro st ty1 st1 hg hk hc hgd; simp [Ty.good] at hgd
    | .bound db idx => by intro st ty1 st1 hg hk hc hgd; simp [Ty.good] at hgd
    | .infer v k => by
        intro st ty1 st1 hg hk hc hgd hkd h
        have hv : v < st.table.numVars := by simpa [Ty.good] using hgd
        simp only [occTy] at h
        split at h
        · rename_i val hpv
          have hp : st.table.probeVar v = some (.ty val) := by simp [Table.probeVar, hpv]
          obtain ⟨T, he, hT⟩ := hg.vals v _ hv hp
          cases he
          exact hJ2 val st ty1 st1 hg hk hc hT (hk.occ v val hv hp) h
        · cases h
        · rename_i ui hpv
          have hp : st.table.probeVar v = none := by simp [Table.probeVar, hpv]
          split at h
          · cases h
          · rename_i hne
            split at h
            · split at h
              · rename_i st' hw
                cases h
                obtain ⟨t', ht', rfl⟩ := UState.withTable_ok _ _ _ hw
                have hext := st.table.unifyVarValue_unbound_Ext v _ t' hg.wf ht'
                refine ⟨hext, hkd, ?_⟩
                intro w hw
                simp [Ty.tyVars] at hw; subst hw
                show t'.probeVar w = none ∧ t'.find w ≠ t'.find c.var
                rw [hext.probe w hv, hext.find w hv, hext.find _ hc]
                exact ⟨hp, hne⟩
              · cases h
            · cases h
              refine ⟨Table.Ext.refl _, hkd, ?_⟩
              intro w hw
              simp [Ty.tyVars] at hw; subst hw
              exact ⟨hp, hne⟩
  theorem occGArg_spec2 (ar : TyName → Nat) (κ : Nat → TyVarKind) (J : OccJumps) (c : OccCtx)
      (hJ : OccTySpec ar J.jT) (hJ2 : OccTySpec2 ar κ c J.jT) (outer : Nat) :
      (a : GArg) → ∀ st a1 st1, st.table.Good ar → st.table.Kinded κ → c.var < st.table.numVars →
        a.good ar st.table.numVars = true → a.kinded κ = true →
        occGArg J c outer a st = .ok (a1, st1) →
        st.table.Ext st1.table ∧ a1.kinded κ = true ∧
        ∀ w, w ∈ a1.tyVars → st1.table.probeVar w = none ∧ st1.table.find w ≠ st1.table.find c.var
    | .ty t => by
        intro st a1 st1 hg hk hc hgd hkd h
        simp only [occGArg] at h
        split at h
        · rename_i t' st' ht
          cases h
          simp only [GArg.good] at hgd
          simp only [GArg.kinded] at hkd
          obtain ⟨h1, h2, h3⟩ := occTy_spec2 ar κ J c hJ hJ2 outer t st t' st1 hg hk hc hgd hkd ht
          exact ⟨h1, by simpa only [GArg.kinded] using h2, by simpa only [GArg.tyVars] using h3⟩
        · cases h
    | .lt l => by intro st a1 st1 hg hk hc hgd; simp [GArg.good] at hgd
    | .ct k => by intro st a1 st1 hg hk hc hgd; simp [GArg.good] at hgd
  theorem occArgs_spec2 (ar : TyName → Nat) (κ : Nat → TyVarKind) (J : OccJumps) (c : OccCtx)
      (hJ : OccTySpec ar J.jT) (hJ2 : OccTySpec2 ar κ c J.jT) (outer : Nat) :
      (as : Args) → ∀ st as1 st1, st.table.Good ar → st.table.Kinded κ → c.var < st.table.numVars →
        as.good ar st.table.numVars = true → as.kinded κ = true →
        occArgs J c outer as st = .ok (as1, st1) →
        st.table.Ext st1.table ∧ as1.kinded κ = true ∧
        ∀ w, w ∈ as1.tyVars → st1.table.probeVar w = none ∧ st1.table.find w ≠ st1.table.find c.var
    | .nil => by
        intro st as1 st1 hg hk hc hgd hkd h
        simp only [occArgs] at h; cases h
        exact ⟨Table.Ext.refl _, hkd, fun w hw => by simp [Args.tyVars] at hw⟩
    | .cons a as => by
        intro st as1 st1 hg hk hc hgd hkd h
        simp only [occArgs] at h
        simp only [Args.good, Bool.and_eq_true] at hgd
        simp only [Args.kinded, Bool.and_eq_true] at hkd
        split at h
        · rename_i a' st' ha
          obtain ⟨_, a2, a3, _⟩ := occGArg_spec ar J hJ c outer a st a' st' hg hgd.1 ha
          obtain ⟨e1, e2, e3⟩ := occGArg_spec2 ar κ J c hJ hJ2 outer a st a' st' hg hk hc hgd.1 hkd.1 ha
          split at h
          · rename_i as' st2 has
            cases h
            have hc' : c.var < st'.table.numVars := Nat.lt_of_lt_of_le hc a2.numVars
            obtain ⟨f1, f2, f3⟩ := occArgs_spec2 ar κ J c hJ hJ2 outer as st' as' st1 a2.good (e1.kinded hk) hc'
              (Args.good_mono ar _ _ a2.numVars _ hgd.2) hkd.2 has
            refine ⟨e1.trans f1, ?_, ?_⟩
            · simp only [Args.kinded, Bool.and_eq_true]; exact ⟨e2, f2⟩
            · intro w hw
              simp only [Args.tyVars, List.mem_append] at hw
              rcases hw with hw | hw
              · have hw' : w < st'.table.numVars :=
                  GArg.tyVars_lt _ a' ((GArg.good_iff ar _ a').mp a3).2.1 w hw
                rw [f1.probe w hw', f1.find w hw', f1.find _ hc']
                exact e3 w hw
              · exact f3 w hw
          · cases h
        · cases h
end

theorem occJumps_spec2 (ar : TyName → Nat) (κ : Nat → TyVarKind) (c : OccCtx) :
    ∀ n, OccTySpec2 ar κ c (occJumps c n).jT
  | 0 => by intro ty st ty1 st1 _ _ _ _ _ h; simp [occJumps] at h
  | n + 1 => by
      intro ty st ty1 st1 hg hk hc hgd hkd h
      exact occTy_spec2 ar κ _ c (occJumps_spec ar c n) (occJumps_spec2 ar κ c n) 0 ty st ty1 st1
        hg hk hc hgd hkd h

theorem occursCheckTy_spec2 (ar : TyName → Nat) (κ : Nat → TyVarKind) (jf : Nat) (c : OccCtx) :
    OccTySpec2 ar κ c (occursCheckTy jf c) := by
  intro ty st ty1 st1 hg hk hc hgd hkd h
  exact occTy_spec2 ar κ _ c (occJumps_spec ar c jf) (occJumps_spec2 ar κ c jf) 0 ty st ty1 st1
    hg hk hc hgd hkd h

/-- the occurs check keeps the head constructor of a non-variable -/
theorem occTy_isInfer (ar : TyName → Nat) (J : OccJumps) (c : OccCtx) (outer : Nat) (ty : Ty) (st : UState)
    (ty1 : Ty) (st1 : UState) (hgd : ty.good ar st.table.numVars = true) (hni : ty.isInfer = false)
    (h : occTy J c outer ty st = .ok (ty1, st1)) : ty1.isInfer = false := by
  cases ty <;> simp [Ty.good] at hgd <;> simp [Ty.isInfer] at hni <;> simp only [occTy] at h <;>
    (repeat (split at h)) <;> (try cases h) <;> rfl

/-! ## generalization of a type all of whose variables are unbound: the table is extended, the
    result's variables are variables of the input or fresh -/

mutual
  theorem generalizeTy_spec2 (ar : TyName → Nat) (κ : Nat → TyVarKind)
      (jG : Variance → Ty → Table → URes (Ty × Table)) (db : UDb) (ui : Nat) (v : Variance) :
      (ty : Ty) → ∀ t gen t2, t.WF → (∀ x, t.numVars ≤ x → κ x = .general) →
        ty.good ar t.numVars = true → ty.kinded κ = true →
        (∀ w, w ∈ ty.tyVars → t.probeVar w = none) →
        generalizeTy jG db ui v ty t = .ok (gen, t2) →
        t2.WF ∧ t.Ext t2 ∧ gen.kinded κ = true ∧
        ∀ w, w ∈ gen.tyVars → w ∈ ty.tyVars ∨ (t.numVars ≤ w ∧ w < t2.numVars)
    | .app n args => by
        intro t gen t2 hwf hκ hgd hkd hu h
        simp only [generalizeTy] at h
        split at h
        · rename_i args' t' hargs
          cases h
          simp only [Ty.good, Bool.and_eq_true, beq_iff_eq] at hgd
          simp only [Ty.kinded] at hkd
          simp only [Ty.tyVars] at hu
          obtain ⟨h1, h2, h3, h4⟩ := generalizeArgs_spec2 ar κ jG db ui _ 0 args t args' t2 hwf hκ hgd.2 hkd hu hargs
          exact ⟨h1, h2, by simpa only [Ty.kinded] using h3, by simpa only [Ty.tyVars] using h4⟩
        · cases h
    | .scalar s => by
        intro t gen t2 hwf hκ hgd hkd hu h
        simp only [generalizeTy] at h; cases h
        exact ⟨hwf, Table.Ext.refl _, hkd, fun w hw => Or.inl hw⟩
    | .str => by
        intro t gen t2 hwf hκ hgd hkd hu h
        simp only [generalizeTy] at h; cases h
        exact ⟨hwf, Table.Ext.refl _, hkd, fun w hw => Or.inl hw⟩
    | .never => by
        intro t gen t2 hwf hκ hgd hkd hu h
        simp only [generalizeTy] at h; cases h
        exact ⟨hwf, Table.Ext.refl _, hkd, fun w hw => Or.inl hw⟩
    | .foreign id => by
        intro t gen t2 hwf hκ hgd hkd hu h
        simp only [generalizeTy] at h; cases h
        exact ⟨hwf, Table.Ext.refl _, hkd, fun w hw => Or.inl hw⟩
    | .error => by intro t gen t2 hwf hκ hgd; simp [Ty.good] at hgd
    | .array ty k => by intro t gen t2 hwf hκ hgd; simp [Ty.good] at hgd
    | .slice ty => by
        intro t gen t2 hwf hκ hgd hkd hu h
        simp only [generalizeTy] at h
        split at h
        · rename_i ty' t' hty
          cases h
          simp only [Ty.good] at hgd
          simp only [Ty.kinded] at hkd
          simp only [Ty.tyVars] at hu
          obtain ⟨h1, h2, h3, h4⟩ := generalizeTy_spec2 ar κ jG db ui v ty t ty' t2 hwf hκ hgd hkd hu hty
          exact ⟨h1, h2, by simpa only [Ty.kinded] using h3, by simpa only [Ty.tyVars] using h4⟩
        · cases h
    | .raw m ty => by
        intro t gen t2 hwf hκ hgd hkd hu h
        simp only [generalizeTy] at h
        split at h
        · rename_i ty' t' hty
          cases h
          simp only [Ty.good] at hgd
          simp only [Ty.kinded] at hkd
          simp only [Ty.tyVars] at hu
          obtain ⟨h1, h2, h3, h4⟩ := generalizeTy_spec2 ar κ jG db ui _ ty t ty' t2 hwf hκ hgd hkd hu hty
          exact ⟨h1, h2, by simpa only [Ty.kinded] using h3, by simpa only [Ty.tyVars] using h4⟩
        · cases h
    | .ref m l ty => by intro t gen t2 hwf hκ hgd; simp [Ty.good] at hgd
    | .placeholder u idx => by
        intro t gen t2 hwf hκ hgd hkd hu h
        simp only [generalizeTy] at h; cases h
        exact ⟨hwf, Table.Ext.refl _, hkd, fun w hw => Or.inl hw⟩
    | .dyn kinds bounds l => by intro t gen t2 hwf hκ hgd; simp [Ty.good] at hgd
    | .proj id args => by intro t gen t2 hwf hκ hgd; simp [Ty.good] at hgd
    | .opaque id args => by intro t gen t2 hwf hκ hgd; simp [Ty.good] at hgd
    | .function nb sig args => by intro t gen t2 hwf hκ hgd; simp [Ty.good] at hgd
    | .bound d idx => by intro t gen t2 hwf hκ hgd; simp [Ty.good] at hgd
    | .infer x k => by
        intro t gen t2 hwf hκ hgd hkd hu h
        have hpx : t.probeVar x = none := hu x (by simp [Ty.tyVars])
        simp only [generalizeTy] at h
        cases k with
        | integer => simp only at h; cases h; exact ⟨hwf, Table.Ext.refl _, hkd, fun w hw => Or.inl hw⟩
        | float => simp only at h; cases h; exact ⟨hwf, Table.Ext.refl _, hkd, fun w hw => Or.inl hw⟩
        | general =>
          simp only at h
          split at h
          · rename_i ty hn
            simp [Table.normalizeTyShallow, Table.normalizeTyShallowInner, hpx] at hn
          · split at h
            · cases h; exact ⟨hwf, Table.Ext.refl _, hkd, fun w hw => Or.inl hw⟩
            · cases h
              refine ⟨t.newVariable_WF ui hwf, t.newVariable_Ext ui hwf, ?_, ?_⟩
              · simp only [Ty.kinded, decide_eq_true_eq]
                exact (hκ _ (Nat.le_refl _)).symm
              · intro w hw
                simp only [Ty.tyVars, List.mem_singleton] at hw
                subst hw
                right
                rw [t.newVariable_numVars, Table.newVariable_snd]
                exact ⟨Nat.le_refl _, Nat.lt_succ_self _⟩
  theorem generalizeGArg_spec2 (ar : TyName → Nat) (κ : Nat → TyVarKind)
      (jG : Variance → Ty → Table → URes (Ty × Table)) (db : UDb) (ui : Nat) (v : Variance) :
      (a : GArg) → ∀ t a1 t2, t.WF → (∀ x, t.numVars ≤ x → κ x = .general) →
        a.good ar t.numVars = true → a.kinded κ = true →
        (∀ w, w ∈ a.tyVars → t.probeVar w = none) →
        generalizeGArg jG db ui v a t = .ok (a1, t2) →
        t2.WF ∧ t.Ext t2 ∧ a1.kinded κ = true ∧
        ∀ w, w ∈ a1.tyVars → w ∈ a.tyVars ∨ (t.numVars ≤ w ∧ w < t2.numVars)
    | .ty ty => by
        intro t a1 t2 hwf hκ hgd hkd hu h
        simp only [generalizeGArg] at h
        split at h
        · rename_i ty' t' hty
          cases h
          simp only [GArg.good] at hgd
          simp only [GArg.kinded] at hkd
          simp only [GArg.tyVars] at hu
          obtain ⟨h1, h2, h3, h4⟩ := generalizeTy_spec2 ar κ jG db ui v ty t ty' t2 hwf hκ hgd hkd hu hty
          exact ⟨h1, h2, by simpa only [GArg.kinded] using h3, by simpa only [GArg.tyVars] using h4⟩
        · cases h
    | .lt l => by intro t a1 t2 hwf hκ hgd; simp [GArg.good] at hgd
    | .ct k => by intro t a1 t2 hwf hκ hgd; simp [GArg.good] at hgd
  theorem generalizeArgs_spec2 (ar : TyName → Nat) (κ : Nat → TyVarKind)
      (jG : Variance → Ty → Table → URes (Ty × Table)) (db : UDb) (ui : Nat) (gv : GenVariances) (i : Nat) :
      (as : Args) → ∀ t as1 t2, t.WF → (∀ x, t.numVars ≤ x → κ x = .general) →
        as.good ar t.numVars = true → as.kinded κ = true →
        (∀ w, w ∈ as.tyVars → t.probeVar w = none) →
        generalizeArgs jG db ui gv i as t = .ok (as1, t2) →
        t2.WF ∧ t.Ext t2 ∧ as1.kinded κ = true ∧
        ∀ w, w ∈ as1.tyVars → w ∈ as.tyVars ∨ (t.numVars ≤ w ∧ w < t2.numVars)
    | .nil => by
        intro t as1 t2 hwf hκ hgd hkd hu h
        simp only [generalizeArgs] at h; cases h
        exact ⟨hwf, Table.Ext.refl _, hkd, fun w hw => Or.inl hw⟩
    | .cons a as => by
        intro t as1 t2 hwf hκ hgd hkd hu h
        simp only [generalizeArgs] at h
        simp only [Args.good, Bool.and_eq_true] at hgd
        simp only [Args.kinded, Bool.and_eq_true] at hkd
        simp only [Args.tyVars, List.mem_append] at hu
        split at h
        · cases h
        · rename_i w hw
          split at h
          · rename_i a' t1 ha
            obtain ⟨a1, a2, a3, a4⟩ := generalizeGArg_spec2 ar κ jG db ui w a t a' t1 hwf hκ hgd.1 hkd.1
              (fun x hx => hu x (Or.inl hx)) ha
            split at h
            · rename_i as' t2' has
              cases h
              have hasgood := Args.good_mono ar _ _ a2.numVars _ hgd.2
              obtain ⟨b1, b2, b3, b4⟩ := generalizeArgs_spec2 ar κ jG db ui gv (i + 1) as t1 as' t2 a1
                (fun x hx => hκ x (Nat.le_trans a2.numVars hx)) hasgood hkd.2
                (fun x hx => by
                  rw [a2.probe x (Args.tyVars_lt _ as ((Args.good_iff ar _ as).mp hgd.2).2.1 x hx)]
                  exact hu x (Or.inr hx)) has
              refine ⟨b1, a2.trans b2, ?_, ?_⟩
              · simp only [Args.kinded, Bool.and_eq_true]; exact ⟨a3, b3⟩
              · intro x hx
                simp only [Args.tyVars, List.mem_append] at hx ⊢
                rcases hx with hx | hx
                · rcases a4 x hx with h | ⟨h1, h2⟩
                  · exact Or.inl (Or.inl h)
                  · exact Or.inr ⟨h1, Nat.lt_of_lt_of_le h2 b2.numVars⟩
                · rcases b4 x hx with h | ⟨h1, h2⟩
                  · exact Or.inl (Or.inr h)
                  · exact Or.inr ⟨Nat.le_trans a2.numVars h1, h2⟩
            · cases h
          · cases h
end

theorem generalizeTyTop_spec2 (ar : TyName → Nat) (κ : Nat → TyVarKind) (db : UDb) (jf ui : Nat)
    (v : Variance) (ty : Ty) (t : Table) (gen : Ty) (t2 : Table) (hwf : t.WF)
    (hκ : ∀ x, t.numVars ≤ x → κ x = .general) (hgd : ty.good ar t.numVars = true)
    (hkd : ty.kinded κ = true) (hu : ∀ w, w ∈ ty.tyVars → t.probeVar w = none)
    (h : generalizeTyTop db jf ui v ty t = .ok (gen, t2)) :
    t2.WF ∧ t.Ext t2 ∧ gen.kinded κ = true ∧
    ∀ w, w ∈ gen.tyVars → w ∈ ty.tyVars ∨ (t.numVars ≤ w ∧ w < t2.numVars) :=
  generalizeTy_spec2 ar κ _ db ui v ty t gen t2 hwf hκ hgd hkd hu h

/-- generalization keeps the head constructor of a non-variable -/
theorem generalizeTy_isInfer (ar : TyName → Nat) (jG : Variance → Ty → Table → URes (Ty × Table))
    (db : UDb) (ui : Nat) (v : Variance) (ty : Ty) (t : Table) (gen : Ty) (t2 : Table)
    (hgd : ty.good ar t.numVars = true) (hni : ty.isInfer = false)
    (h : generalizeTy jG db ui v ty t = .ok (gen, t2)) : gen.isInfer = false := by
  cases ty <;> simp [Ty.good] at hgd <;> simp [Ty.isInfer] at hni <;> simp only [generalizeTy] at h <;>
    (repeat (split at h)) <;> (try cases h) <;> rfl

end Chalk
