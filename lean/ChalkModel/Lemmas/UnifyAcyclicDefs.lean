/-
  Specification vocabulary for the syntactic form of C14 soundness: the canonical ("fully
  resolved") assignment of a table and the invariant that makes it well defined.
-/
import ChalkModel.Lemmas.UnifyDefs

namespace Chalk

/- the type variables occurring in a first-order type -/
mutual
  def Ty.tyVars : Ty → List Nat
    | .app _ args => args.tyVars
    | .slice t => t.tyVars
    | .raw _ t => t.tyVars
    | .infer v _ => [v]
    | _ => []
  def GArg.tyVars : GArg → List Nat
    | .ty t => t.tyVars
    | _ => []
  def Args.tyVars : Args → List Nat
    | .nil => []
    | .cons a as => a.tyVars ++ as.tyVars
end

/-- `canon n v`: the value of variable `v` resolved `n` levels deep; an unbound variable is
    represented by the root of its class (kind annotation erased to `general`) -/
def Table.canon (t : Table) : Nat → Nat → Ty
  | 0, v => .infer (t.find v) .general
  | n + 1, v => match t.probeVar v with
      | some (.ty ty) => ty.applyAsg (t.canon n)
      | _ => .infer (t.find v) .general

/-- `resolve t n ty`: `ty` with every variable replaced by its `n`-level resolution -/
def Table.resolve (t : Table) (n : Nat) (ty : Ty) : Ty := ty.applyAsg (t.canon n)

/-- The table is acyclic: some strict ranking of the variable classes decreases from every bound
    variable to the variables of its value (so resolution terminates). -/
def Table.Ranked (t : Table) : Prop :=
  ∃ (N : Nat) (ρ : Nat → Nat), (∀ v, ρ v < N) ∧
    ∀ v ty, v < t.numVars → t.probeVar v = some (.ty ty) →
      ∀ w, w ∈ ty.tyVars → ρ (t.find w) < ρ (t.find v)

end Chalk
