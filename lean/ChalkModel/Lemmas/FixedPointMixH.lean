/-
  FixedPointMixH.lean — (mixed polarities) stack-only changes, the hit of a goal on the stack is
  never a mixed cycle, the state after the push.
-/
import ChalkModel.Lemmas.FixedPointMixE
import ChalkModel.Lemmas.FixedPointMixF
import ChalkModel.Lemmas.FixedPointMixG
import ChalkModel.Lemmas.FixedPointSemH

namespace Chalk.FixedPoint.Mix
open Chalk.FixedPoint.Cyc (JE JA MinLe InCache InGraph Def Undef flagAt StackExt stackGoals
  getElem?_lt_length getElem?_prefix def_or_undef headNode mid_cases mid_at mid_corr Popped
  stackGoals_append stackGoals_nonstack single_cases Rest setCycle_length setCycle_getElem?_ne
  setCycle_getElem?_eq pushed)

section
variable {inst : Instance} {P : Nat → Prop} {dom : List Nat} {lvl : Nat → Nat} {fx : Bool}

theorem Inv.work {s : St} (h : Inv inst P dom lvl fx s) (w : Nat) : Inv inst P dom lvl fx { s with work := w } :=
  ⟨h.fixes, h.amb, h.cacheOK, h.stackNode, h.chain, h.nodup, h.disj, h.inDom, h.val, h.approx, h.stk, h.nonstk,
   h.cnt, h.just, h.lvlLinks⟩

theorem Step.work (s : St) (w : Nat) (lb : Min) : Step inst P s { s with work := w } lb :=
  ⟨⟨[], by simp, fun n hn => by cases hn⟩, StackExt.refl _, fun _ _ h => h, fun _ _ h => h,
   fun k hu hd => absurd hd (hu _), rfl, id, fun q => ⟨q, id⟩⟩

theorem Inv.stackChange {s s' : St} (h : Inv inst P dom lvl fx s) (hg : s'.graph = s.graph) (R : Rest s s')
    (hext : StackExt s.stack s'.stack) : Inv inst P dom lvl fx s' := by
  have hwit : ∀ {lb : Min} {v : V} {j : Nat}, Wit inst P s lb v j → Wit inst P s' lb v j :=
    fun hw => hw.from0 ⟨[], by rw [hg, List.append_nil]⟩ (fun d hd => hext.flag hd)
  refine ⟨h.fixes.imp id (fun q => ⟨⟨by rw [R.oracle]; exact q.1.1, by rw [R.oracleDefault]; exact q.1.2⟩,
      by rw [R.interrupted]; exact q.2⟩), ?_,
    fun k v hk => h.cacheOK k v (R.inCache.mp hk), ?_, ?_, ?_, ?_, ?_, ?_, ?_, ?_, ?_, ?_, ?_, ?_⟩
  · intro i n hn ha
    rw [hg] at hn
    rw [R.interrupted]; exact h.amb i n hn ha
  · intro d e' he'
    have hlt : d < s.stack.length := by rw [← hext.1]; exact getElem?_lt_length he'
    obtain ⟨e'', he'', hco, _⟩ := hext.2 d s.stack[d] (List.getElem?_eq_getElem hlt)
    rw [he'] at he''
    cases he''
    obtain ⟨i, n, hn, hd, hc⟩ := h.stackNode d s.stack[d] (List.getElem?_eq_getElem hlt)
    exact ⟨i, n, by rw [hg]; exact hn, hd, by rw [hco, hc]⟩
  · rw [hg]; exact h.chain
  · rw [hg]; exact h.nodup
  · intro i n hn v hc
    rw [hg] at hn
    exact h.disj i n hn v (R.inCache.mp hc)
  · rw [hg]; exact h.inDom
  · rw [hg]; exact h.val
  · rw [hg]; exact h.approx
  · intro i n d hn hd
    rw [hg] at hn
    have := h.stk i n d hn hd
    exact ⟨by rw [hext.1]; exact this.1, this.2⟩
  · rw [hg]; exact h.nonstk
  · rw [hg, hext.1]; exact h.cnt
  · intro i n hn hd htop
    rw [hg] at hn
    exact JV.mono (fun j hj => hwit hj) (h.just i n hn hd htop)
  · rw [hg]; exact h.lvlLinks

theorem Step.stackOnly {s s' : St} (hg : s'.graph = s.graph) (R : Rest s s')
    (hext : StackExt s.stack s'.stack) (lb : Min) : Step inst P s s' lb := by
  have hd : ∀ k v, Def s k v → Def s' k v := by
    intro k v h
    cases h with
    | inl h => exact Or.inl (R.inCache.mpr h)
    | inr h =>
      obtain ⟨i, n, hn, h2⟩ := h
      exact Or.inr ⟨i, n, by rw [hg]; exact hn, h2⟩
  refine ⟨⟨[], by rw [hg, List.append_nil], fun n hn => by cases hn⟩, hext,
    fun k v h => R.inCache.mpr h, hd, ?_, by rw [R.cache], fun e => by rw [R.interrupted]; exact e,
    fun q => ⟨⟨by rw [R.oracle]; exact q.1, by rw [R.oracleDefault]; exact q.2⟩,
      fun e => by rw [R.interrupted]; exact e⟩⟩
  intro k hu hdef
  exfalso
  cases hdef with
  | inl h => exact hu _ (Or.inl (R.inCache.mp h))
  | inr h =>
    obtain ⟨i, n, hn, h2⟩ := h
    rw [hg] at hn
    exact hu _ (Or.inr ⟨i, n, hn, h2⟩)

theorem Inv.not_inG_of_bot {s : St} (h : Inv inst P dom lvl fx s) {k : Nat} (hd : Def s k (botOf inst k)) :
    ¬ InG inst P s k := by
  intro hin
  cases hin.unfold with
  | inl h2 =>
    cases h2 with
    | inl h3 => exact topOf_ne_botOf inst k (h.defFun h3 hd)
    | inr h3 => exact botOf_ne_ambig inst k (h.defFun hd h3)
  | inr h2 => exact h2.1 _ hd

theorem mixedFrom_seg {st : List StackEntry} {b : Bool} {d : Nat}
    (h : ∀ e, e ∈ st.drop d → e.coinductiveGoal = b) : mixedFrom st d = false := by
  unfold mixedFrom
  cases b with
  | true =>
    have : (st.drop d).any (fun e => !e.coinductiveGoal) = false := by
      rw [List.any_eq_false]
      intro e he
      simp [h e he]
    simp [this]
  | false =>
    have : (st.drop d).any (fun e => e.coinductiveGoal) = false := by
      rw [List.any_eq_false]
      intro e he
      simp [h e he]
    simp [this]

/-- when the goal `g` is found on the stack at depth `depth`, the stack from there on has the
    polarity of `g`: the cycle that is closed is not mixed -/
theorem hit_same_pol {s : St} (hi : Inv inst P dom lvl fx s) {g : Nat} (hb : Below inst lvl s g) {dfn : Nat}
    {x : Node} {depth : Nat} (hx : s.graph[dfn]? = some x) (hgo : x.goal = g)
    (hsd : x.stackDepth = some depth) :
    ∀ (j : Nat) (e : StackEntry), depth ≤ j → s.stack[j]? = some e → e.coinductiveGoal = inst.coind g := by
  intro j e hle he
  obtain ⟨i, n, hn, hd, hc⟩ := hi.stackNode j e he
  have h1 := hi.chain dfn x depth i n j hx hsd hn hd hle
  have h2 := hb i n j hn hd
  rw [hgo] at h1
  rw [hc, h1.2 (Nat.le_antisymm h1.1 h2.1)]

theorem hit_not_mixed {s : St} (hi : Inv inst P dom lvl fx s) {g : Nat} (hb : Below inst lvl s g) {dfn : Nat}
    {x : Node} {depth : Nat} (hx : s.graph[dfn]? = some x) (hgo : x.goal = g)
    (hsd : x.stackDepth = some depth) :
    mixedFrom (setCycle true depth s.stack) depth = false := by
  apply mixedFrom_seg (b := inst.coind g)
  intro e he
  obtain ⟨k, hk⟩ := List.getElem?_of_mem he
  rw [List.getElem?_drop] at hk
  by_cases hk0 : depth + k = depth
  · rw [hk0] at hk
    have hlt : depth < s.stack.length := (hi.stk dfn x depth hx hsd).1
    rw [setCycle_getElem?_eq true depth s.stack _ (List.getElem?_eq_getElem hlt)] at hk
    cases hk
    exact hit_same_pol hi hb hx hgo hsd depth s.stack[depth] (Nat.le_refl _) (List.getElem?_eq_getElem hlt)
  · rw [setCycle_getElem?_ne _ _ _ _ hk0] at hk
    exact hit_same_pol hi hb hx hgo hsd (depth + k) e (Nat.le_add_right _ _) hk

/-- the state after the push starts the loop -/
theorem push_loopSt (hyp : MHyp inst P dom lvl) {s0 : St} (i0 : Inv inst P dom lvl fx s0) {g : Nat}
    (hu : Undef s0 g) (hg : g ∈ dom) (hb : Below inst lvl s0 g) :
    LoopSt inst P dom lvl fx s0 g (pushed inst g s0) := by
  have hgr : (pushed inst g s0).graph = s0.graph ++ [headNode s0 g (topOf inst g)] := by
    simp only [pushed, headNode, topOf]
  have hst : (pushed inst g s0).stack = s0.stack ++ [⟨inst.coind g, false⟩] := by
    simp only [pushed]
  have hlen : (pushed inst g s0).stack.length = s0.stack.length + 1 := by
    rw [hst, List.length_append]; rfl
  have hsext : ∀ (i : Nat) (e : StackEntry), s0.stack[i]? = some e →
      ∃ e' : StackEntry, (pushed inst g s0).stack[i]? = some e' ∧
      e'.coinductiveGoal = e.coinductiveGoal ∧ (e.cycle = true → e'.cycle = true) := by
    intro i e he
    exact ⟨e, by rw [hst]; exact getElem?_prefix he, rfl, id⟩
  have hflag : ∀ d, flagAt s0.stack d → flagAt (pushed inst g s0).stack d := by
    intro d hd
    obtain ⟨e, he, hc⟩ := hd
    exact ⟨e, by rw [hst]; exact getElem?_prefix he, hc⟩
  have hnode : ∀ {i : Nat} {n : Node}, (pushed inst g s0).graph[i]? = some n →
      (i < s0.graph.length ∧ s0.graph[i]? = some n) ∨
      (i = s0.graph.length ∧ n = headNode s0 g (topOf inst g)) := by
    intro i n hn
    rw [hgr] at hn
    exact single_cases _ _ i n hn
  have hhead : (pushed inst g s0).graph[s0.graph.length]? = some (headNode s0 g (topOf inst g)) := by
    rw [hgr]; exact mid_at _ _ _
  have hinv : Inv inst P dom lvl fx (pushed inst g s0) := by
    refine ⟨i0.fixes, ?_, i0.cacheOK, ?_, ?_, ?_, ?_, ?_, ?_, ?_, ?_, ?_, ?_, ?_, ?_⟩
    · intro i n hn ha
      cases hnode hn with
      | inl h => exact i0.amb i n h.2 ha
      | inr h =>
        rw [h.2] at ha
        have e : topOf inst g = .ambig := ha
        exact absurd e (topOf_ne_ambig inst g)
    · intro d e he
      rw [hst] at he
      rcases Nat.lt_or_ge d s0.stack.length with hlt | hge
      · rw [List.getElem?_append_left hlt] at he
        obtain ⟨i, n, hn, hd, hc⟩ := i0.stackNode d e he
        exact ⟨i, n, by rw [hgr]; exact getElem?_prefix hn, hd, hc⟩
      · have hd : d = s0.stack.length := by
          have := getElem?_lt_length he
          simp only [List.length_append, List.length_singleton] at this
          omega
        subst hd
        rw [List.getElem?_append_right (Nat.le_refl _), Nat.sub_self] at he
        cases he
        exact ⟨_, _, hhead, rfl, rfl⟩
    · intro i n d i' n' d' hn hd hn' hd' hle
      cases hnode hn with
      | inl h =>
        cases hnode hn' with
        | inl h' => exact i0.chain i n d i' n' d' h.2 hd h'.2 hd' hle
        | inr h' => rw [h'.2]; exact hb i n d h.2 hd
      | inr h =>
        rw [h.2] at hd
        simp only [headNode, Option.some.injEq] at hd
        cases hnode hn' with
        | inl h' =>
          have := (i0.stk i' n' d' h'.2 hd').1
          omega
        | inr h' => rw [h.2, h'.2]; exact ⟨Nat.le_refl _, fun _ => rfl⟩
    · rw [hgr, List.map_append, List.nodup_append]
      refine ⟨i0.nodup, by simp, ?_⟩
      intro a ha b hb' hab
      simp only [List.map_cons, List.map_nil, List.mem_singleton, headNode] at hb'
      obtain ⟨n, hn, hgo⟩ := List.mem_map.mp ha
      obtain ⟨i, hi⟩ := List.getElem?_of_mem hn
      exact hu n.solution (Or.inr ⟨i, n, hi, by rw [hgo, hab, hb'], rfl⟩)
    · intro i n hn v hc
      cases hnode hn with
      | inl h => exact i0.disj i n h.2 v hc
      | inr h => rw [h.2] at hc; exact hu v (Or.inl hc)
    · intro i n hn
      cases hnode hn with
      | inl h => exact i0.inDom i n h.2
      | inr h => rw [h.2]; exact hg
    · intro i n hn
      cases hnode hn with
      | inl h => exact i0.val i n h.2
      | inr h => rw [h.2]; exact Or.inl rfl
    · intro i n hn hb'
      cases hnode hn with
      | inl h => exact i0.approx i n h.2 hb'
      | inr h =>
        rw [h.2] at hb'
        exact absurd hb' (topOf_ne_botOf inst g)
    · intro i n d hn hd
      cases hnode hn with
      | inl h =>
        have := i0.stk i n d h.2 hd
        exact ⟨by rw [hlen]; exact Nat.lt_succ_of_lt this.1, this.2⟩
      | inr h =>
        rw [h.2] at hd ⊢
        simp only [headNode, Option.some.injEq] at hd
        subst hd
        exact ⟨by rw [hlen]; exact Nat.lt_succ_self _, by rw [h.1]; rfl⟩
    · intro i n hn hd
      cases hnode hn with
      | inl h => exact i0.nonstk i n h.2 hd
      | inr h => rw [h.2] at hd; cases hd
    · rw [hgr, stackGoals_append, List.length_append, i0.cnt, hlen]
      rfl
    · intro i n hn hd htop
      cases hnode hn with
      | inl h => exact JV.mono (fun j hj => hj.from0 ⟨_, hgr⟩ hflag) (i0.just i n h.2 hd htop)
      | inr h => rw [h.2] at hd; cases hd
    · intro i n l hn hd hlk
      cases hnode hn with
      | inl h =>
        obtain ⟨n', hn', hle⟩ := i0.lvlLinks i n l h.2 hd hlk
        exact ⟨n', by rw [hgr]; exact getElem?_prefix hn', hle⟩
      | inr h => rw [h.2] at hd; cases hd
  refine ⟨hyp.strat, i0, hu, hg, hb, hinv, ⟨topOf inst g, hgr⟩, hlen, hsext, fun k v h => h, ?_, rfl, id,
    fun q => ⟨q, id⟩⟩
  intro k hu' hd
  exfalso
  cases hd with
  | inl h => exact hu' _ (Or.inl h)
  | inr h =>
    obtain ⟨i, n, hn, hgo, hv⟩ := h
    cases hnode hn with
    | inl h1 => exact hu' _ (Or.inr ⟨i, n, h1.2, hgo, hv⟩)
    | inr h1 =>
      rw [h1.2] at hv hgo
      have e : g = k := hgo
      subst e
      exact topOf_ne_botOf inst g hv

theorem LoopSt.work {s0 st : St} {g : Nat} (L : LoopSt inst P dom lvl fx s0 g st) (w : Nat) :
    LoopSt inst P dom lvl fx s0 g { st with work := w } :=
  ⟨L.hP, L.i0, L.u0, L.gdom, L.below, L.inv.work w, L.graph, L.slen, L.sext, L.cacheExt, L.low, L.cacheMode,
   L.intr, L.quiet⟩

end

end Chalk.FixedPoint.Mix
