import ChalkModel.Shift

namespace Chalk

theorem foldLifetime_noop (outer : Nat) (l : Lifetime) : foldLifetime Folder.noop outer l = .ok l := by
  cases l <;> simp [foldLifetime, Folder.noop]
  omega

mutual
  theorem foldTy_noop (outer : Nat) : (t : Ty) → foldTy Folder.noop outer t = .ok t
    | .app n args => by simp [foldTy, foldArgs_noop outer args]
    | .scalar s => by simp [foldTy]
    | .str => by simp [foldTy]
    | .never => by simp [foldTy]
    | .foreign id => by simp [foldTy]
    | .error => by simp [foldTy]
    | .array t c => by simp [foldTy, foldTy_noop outer t, foldConst_noop outer c]
    | .slice t => by simp [foldTy, foldTy_noop outer t]
    | .raw m t => by simp [foldTy, foldTy_noop outer t]
    | .ref m l t => by simp [foldTy, foldTy_noop outer t, foldLifetime_noop]
    | .placeholder ui idx => by simp [foldTy, Folder.noop]
    | .dyn kinds bounds l => by simp [foldTy, foldQWCs_noop (outer+1) bounds, foldLifetime_noop]
    | .proj id args => by simp [foldTy, foldArgs_noop outer args]
    | .opaque id args => by simp [foldTy, foldArgs_noop outer args]
    | .function nb sig args => by simp [foldTy, foldArgs_noop (outer+1) args]
    | .bound db idx => by
        simp [foldTy, Folder.noop]; omega
    | .infer v k => by simp [foldTy, Folder.noop]
  theorem foldConst_noop (outer : Nat) : (c : Const) → foldConst Folder.noop outer c = .ok c
    | .mk ty (.bound db idx) => by
        have := foldTy_noop outer ty
        simp [foldConst, Folder.noop] at *
        simp [this]; omega
    | .mk ty (.infer v) => by
        have := foldTy_noop outer ty
        simp [foldConst, Folder.noop] at *
        simp [this]
    | .mk ty (.placeholder ui idx) => by
        have := foldTy_noop outer ty
        simp [foldConst, Folder.noop] at *
        simp [this]
    | .mk ty (.concrete k) => by simp [foldConst, foldTy_noop outer ty]
  theorem foldGArg_noop (outer : Nat) : (a : GArg) → foldGArg Folder.noop outer a = .ok a
    | .ty t => by simp [foldGArg, foldTy_noop outer t]
    | .lt l => by simp [foldGArg, foldLifetime_noop]
    | .ct c => by simp [foldGArg, foldConst_noop outer c]
  theorem foldArgs_noop (outer : Nat) : (a : Args) → foldArgs Folder.noop outer a = .ok a
    | .nil => by simp [foldArgs]
    | .cons a as => by simp [foldArgs, foldGArg_noop outer a, foldArgs_noop outer as]
  theorem foldWC_noop (outer : Nat) : (w : WC) → foldWC Folder.noop outer w = .ok w
    | .implemented tr args => by simp [foldWC, foldArgs_noop outer args]
    | .aliasEqProj id args ty => by simp [foldWC, foldArgs_noop outer args, foldTy_noop outer ty]
    | .aliasEqOpaque id args ty => by simp [foldWC, foldArgs_noop outer args, foldTy_noop outer ty]
    | .ltOutlives a b => by simp [foldWC, foldLifetime_noop]
    | .tyOutlives t l => by simp [foldWC, foldTy_noop outer t, foldLifetime_noop]
  theorem foldQWC_noop (outer : Nat) : (q : QWC) → foldQWC Folder.noop outer q = .ok q
    | .mk kinds wc => by simp [foldQWC, foldWC_noop (outer+1) wc]
  theorem foldQWCs_noop (outer : Nat) : (q : QWCs) → foldQWCs Folder.noop outer q = .ok q
    | .nil => by simp [foldQWCs]
    | .cons q qs => by simp [foldQWCs, foldQWC_noop outer q, foldQWCs_noop outer qs]
end

end Chalk
