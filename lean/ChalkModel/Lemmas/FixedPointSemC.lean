/-
  FixedPointSemC.lean — list bookkeeping for the search graph / stack, and the transfer lemmas of
  the invariant along the steps of `solve_goal` / `solve_new_subgoal`.
-/
import ChalkModel.Lemmas.FixedPointSemB

namespace Chalk.FixedPoint.Cyc

/-! ### lists -/

theorem getElem?_lt_length {α : Type} {l : List α} {i : Nat} {a : α} (h : l[i]? = some a) : i < l.length := by
  rcases Nat.lt_or_ge i l.length with h' | h'
  · exact h'
  · rw [List.getElem?_eq_none h'] at h; cases h

theorem getElem?_prefix {α : Type} {l r : List α} {i : Nat} {a : α} (h : l[i]? = some a) :
    (l ++ r)[i]? = some a := by
  rw [List.getElem?_append_left (getElem?_lt_length h)]; exact h

/-- positions of `G ++ h :: new` -/
theorem mid_cases {α : Type} (G : List α) (h : α) (new : List α) (i : Nat) (n : α)
    (hn : (G ++ h :: new)[i]? = some n) :
    (i < G.length ∧ G[i]? = some n) ∨ (i = G.length ∧ n = h) ∨
    (G.length < i ∧ n ∈ new ∧ ∀ h' : α, (G ++ h' :: new)[i]? = some n) := by
  rcases Nat.lt_trichotomy i G.length with hlt | heq | hgt
  · left
    rw [List.getElem?_append_left hlt] at hn
    exact ⟨hlt, hn⟩
  · right; left
    subst heq
    rw [List.getElem?_append_right (Nat.le_refl _), Nat.sub_self, List.getElem?_cons_zero] at hn
    exact ⟨rfl, (Option.some.inj hn).symm⟩
  · right; right
    have hle : G.length ≤ i := Nat.le_of_lt hgt
    rw [List.getElem?_append_right hle] at hn
    obtain ⟨j, hj⟩ : ∃ j, i - G.length = j + 1 := ⟨i - G.length - 1, by omega⟩
    rw [hj, List.getElem?_cons_succ] at hn
    refine ⟨hgt, List.mem_of_getElem? hn, fun h' => ?_⟩
    rw [List.getElem?_append_right hle, hj, List.getElem?_cons_succ]
    exact hn

theorem mid_at {α : Type} (G : List α) (h : α) (new : List α) : (G ++ h :: new)[G.length]? = some h := by
  rw [List.getElem?_append_right (Nat.le_refl _), Nat.sub_self, List.getElem?_cons_zero]

theorem updateNode_mid (f : Node → Node) : ∀ (G : List Node) (h : Node) (new : List Node),
    updateNode f G.length (G ++ h :: new) = G ++ f h :: new
  | [], _, _ => rfl
  | a :: G, h, new => by
    simp only [List.length_cons, List.cons_append, updateNode]
    rw [updateNode_mid f G h new]

theorem setCycle_length (b : Bool) : ∀ (d : Nat) (l : List StackEntry), (setCycle b d l).length = l.length
  | d, [] => by cases d <;> rfl
  | 0, _ :: _ => rfl
  | d + 1, e :: es => by simp only [setCycle, List.length_cons, setCycle_length b d es]

theorem setCycle_getElem?_ne (b : Bool) : ∀ (d : Nat) (l : List StackEntry) (i : Nat), i ≠ d →
    (setCycle b d l)[i]? = l[i]?
  | d, [], _, _ => by cases d <;> rfl
  | 0, e :: es, i, h => by
    cases i with
    | zero => exact absurd rfl h
    | succ i => simp only [setCycle, List.getElem?_cons_succ]
  | d + 1, e :: es, i, h => by
    cases i with
    | zero => simp only [setCycle, List.getElem?_cons_zero]
    | succ i =>
      simp only [setCycle, List.getElem?_cons_succ]
      exact setCycle_getElem?_ne b d es i (fun e => h (by rw [e]))

theorem setCycle_getElem?_eq (b : Bool) : ∀ (d : Nat) (l : List StackEntry) (e : StackEntry), l[d]? = some e →
    (setCycle b d l)[d]? = some { e with cycle := b }
  | _, [], _, h => by simp at h
  | 0, e' :: es, e, h => by
    simp only [List.getElem?_cons_zero, Option.some.injEq] at h
    subst h
    simp only [setCycle, List.getElem?_cons_zero]
  | d + 1, e' :: es, e, h => by
    simp only [List.getElem?_cons_succ] at h
    simp only [setCycle, List.getElem?_cons_succ]
    exact setCycle_getElem?_eq b d es e h

theorem lookupFrom_some (g : Nat) : ∀ (ns : List Node) (i j : Nat), lookupFrom g ns i = some j →
    ∃ n, ns[j - i]? = some n ∧ n.goal = g ∧ i ≤ j
  | [], _, _, h => by cases h
  | n :: ns, i, j, h => by
    simp only [lookupFrom] at h
    by_cases hg : n.goal = g
    · simp only [hg, if_true, Option.some.injEq] at h
      subst h
      exact ⟨n, by simp, hg, Nat.le_refl _⟩
    · simp only [hg, if_false] at h
      obtain ⟨n', hn', hg', hle⟩ := lookupFrom_some g ns (i + 1) j h
      refine ⟨n', ?_, hg', by omega⟩
      have : j - i = (j - (i + 1)) + 1 := by omega
      rw [this, List.getElem?_cons_succ]
      exact hn'

theorem lookup_some {gr : List Node} {g j : Nat} (h : lookup gr g = some j) :
    ∃ n, gr[j]? = some n ∧ n.goal = g := by
  obtain ⟨n, hn, hg, _⟩ := lookupFrom_some g gr 0 j h
  exact ⟨n, by simpa using hn, hg⟩

theorem lookupFrom_none' (g : Nat) : ∀ (ns : List Node) (i : Nat), lookupFrom g ns i = none →
    ∀ n, n ∈ ns → n.goal ≠ g
  | [], _, _, n, hn => by cases hn
  | a :: ns, i, h, n, hn => by
    simp only [lookupFrom] at h
    by_cases hg : a.goal = g
    · simp only [hg, if_true] at h; cases h
    · simp only [hg, if_false] at h
      cases List.mem_cons.mp hn with
      | inl e => rw [e]; exact hg
      | inr e => exact lookupFrom_none' g ns (i + 1) h n e

theorem lookup_none {gr : List Node} {g : Nat} (h : lookup gr g = none) : ∀ n, n ∈ gr → n.goal ≠ g :=
  lookupFrom_none' g gr 0 h

theorem stackGoals_append (a b : List Node) : stackGoals (a ++ b) = stackGoals a ++ stackGoals b := by
  simp only [stackGoals, List.filter_append, List.map_append]

theorem stackGoals_nonstack : ∀ (l : List Node), (∀ n : Node, n ∈ l → n.stackDepth = none) → stackGoals l = []
  | [], _ => rfl
  | a :: l, h => by
    have ha : a.stackDepth = none := h a (List.mem_cons_self ..)
    have := stackGoals_nonstack l (fun n hn => h n (List.mem_cons_of_mem _ hn))
    simp only [stackGoals, List.filter, ha, Option.isSome_none] at this ⊢
    exact this

/-! ### states that differ in the work counter only -/

section
variable {c : Bool} {inst : Instance} {dom : List Nat} {fx : Bool}

theorem fixes_of_eq {s s' : St} (h : fx = true ∨ (QuietSt s ∧ s.interrupted = false))
    (e1 : s'.oracle = s.oracle) (e2 : s'.oracleDefault = s.oracleDefault) (e3 : s'.interrupted = s.interrupted) :
    fx = true ∨ (QuietSt s' ∧ s'.interrupted = false) :=
  h.imp id (fun q => ⟨⟨by rw [e1]; exact q.1.1, by rw [e2]; exact q.1.2⟩, by rw [e3]; exact q.2⟩)

theorem Inv.work {s : St} (h : Inv c inst dom fx s) (w : Nat) : Inv c inst dom fx { s with work := w } :=
  ⟨h.fixes, h.amb, h.cacheOK, h.stackCo, h.nodup, h.disj, h.inDom, h.val, h.approx, h.stk, h.nonstk,
   h.cnt, h.just⟩

theorem Step.work (s : St) (w : Nat) (lb : Min) : Step c inst s { s with work := w } lb :=
  ⟨⟨[], by simp, fun n hn => by cases hn⟩, StackExt.refl _, fun _ _ h => h, fun _ _ h => h,
   fun k hu hd => absurd hd (hu _), rfl, id, fun q => ⟨q, id⟩⟩

end

end Chalk.FixedPoint.Cyc
