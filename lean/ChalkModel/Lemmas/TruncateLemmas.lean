/-
  Lemmas about the model of `TySizeVisitor` (`Truncate.lean`): the stateful traversal computes the
  pure specification (`tyNodes`, `maxNodes` of the top-level types).
-/
import ChalkModel.Truncate

namespace Chalk.Truncate

/-! ### state steps on explicit states -/

@[simp] theorem St.enter_mk (s d m : Nat) : St.enter ⟨s, d, m⟩ = ⟨s + 1, d + 1, max (s + 1) m⟩ := rfl

@[simp] theorem St.leave_mk_succ_succ (s d m : Nat) : St.leave ⟨s, d + 2, m⟩ = ⟨s, d + 1, m⟩ := by
  simp [St.leave]

@[simp] theorem St.leave_mk_one (s m : Nat) : St.leave ⟨s, 1, m⟩ = ⟨0, 0, m⟩ := by
  simp [St.leave]

theorem St.leave_mk_zero_succ (s m : Nat) : St.leave ⟨s, 0 + 1, m⟩ = ⟨0, 0, m⟩ := by
  simp [St.leave]

@[simp] theorem visitLifetime_eq (s : St) (l : Lifetime) : visitLifetime s l = s := by
  cases l <;> rfl

@[simp] theorem visitConst_eq (s : St) (c : Const) : visitConst s c = s := by
  cases c with
  | mk ty v => cases v <;> rfl

/-! ### inside a type (`depth > 0`): sizes add up -/

mutual
  theorem visitTy_pos : (t : Ty) → (s d m : Nat) → s ≤ m →
      visitTy ⟨s, d + 1, m⟩ t = ⟨s + tyNodes t, d + 1, max m (s + tyNodes t)⟩
    | .app _ args, s, d, m, h => by
        rw [visitTy, St.enter_mk, visitArgs_pos args _ _ _ (Nat.le_max_left _ _), St.leave_mk_succ_succ]
        simp only [tyNodes, St.mk.injEq, true_and]; omega
    | .scalar _, s, d, m, h => by
        rw [visitTy, St.enter_mk, St.leave_mk_succ_succ]; simp only [tyNodes, St.mk.injEq, true_and]; omega
    | .str, s, d, m, h => by
        rw [visitTy, St.enter_mk, St.leave_mk_succ_succ]; simp only [tyNodes, St.mk.injEq, true_and]; omega
    | .never, s, d, m, h => by
        rw [visitTy, St.enter_mk, St.leave_mk_succ_succ]; simp only [tyNodes, St.mk.injEq, true_and]; omega
    | .foreign _, s, d, m, h => by
        rw [visitTy, St.enter_mk, St.leave_mk_succ_succ]; simp only [tyNodes, St.mk.injEq, true_and]; omega
    | .error, s, d, m, h => by
        rw [visitTy, St.enter_mk, St.leave_mk_succ_succ]; simp only [tyNodes, St.mk.injEq, true_and]; omega
    | .array t c, s, d, m, h => by
        rw [visitTy, St.enter_mk, visitTy_pos t _ _ _ (Nat.le_max_left _ _), visitConst_eq,
          St.leave_mk_succ_succ]
        simp only [tyNodes, St.mk.injEq, true_and]; omega
    | .slice t, s, d, m, h => by
        rw [visitTy, St.enter_mk, visitTy_pos t _ _ _ (Nat.le_max_left _ _), St.leave_mk_succ_succ]
        simp only [tyNodes, St.mk.injEq, true_and]; omega
    | .raw _ t, s, d, m, h => by
        rw [visitTy, St.enter_mk, visitTy_pos t _ _ _ (Nat.le_max_left _ _), St.leave_mk_succ_succ]
        simp only [tyNodes, St.mk.injEq, true_and]; omega
    | .ref _ l t, s, d, m, h => by
        rw [visitTy, St.enter_mk, visitLifetime_eq, visitTy_pos t _ _ _ (Nat.le_max_left _ _),
          St.leave_mk_succ_succ]
        simp only [tyNodes, St.mk.injEq, true_and]; omega
    | .placeholder _ _, s, d, m, h => by
        rw [visitTy, St.enter_mk, St.leave_mk_succ_succ]; simp only [tyNodes, St.mk.injEq, true_and]; omega
    | .dyn _ bounds l, s, d, m, h => by
        rw [visitTy, St.enter_mk, visitQWCs_pos bounds _ _ _ (Nat.le_max_left _ _), visitLifetime_eq,
          St.leave_mk_succ_succ]
        simp only [tyNodes, St.mk.injEq, true_and]; omega
    | .proj _ args, s, d, m, h => by
        rw [visitTy, St.enter_mk, visitArgs_pos args _ _ _ (Nat.le_max_left _ _), St.leave_mk_succ_succ]
        simp only [tyNodes, St.mk.injEq, true_and]; omega
    | .opaque _ args, s, d, m, h => by
        rw [visitTy, St.enter_mk, visitArgs_pos args _ _ _ (Nat.le_max_left _ _), St.leave_mk_succ_succ]
        simp only [tyNodes, St.mk.injEq, true_and]; omega
    | .function _ _ args, s, d, m, h => by
        rw [visitTy, St.enter_mk, visitArgs_pos args _ _ _ (Nat.le_max_left _ _), St.leave_mk_succ_succ]
        simp only [tyNodes, St.mk.injEq, true_and]; omega
    | .bound _ _, s, d, m, h => by
        rw [visitTy, St.enter_mk, St.leave_mk_succ_succ]; simp only [tyNodes, St.mk.injEq, true_and]; omega
    | .infer _ _, s, d, m, h => by
        rw [visitTy, St.enter_mk, St.leave_mk_succ_succ]; simp only [tyNodes, St.mk.injEq, true_and]; omega
  theorem visitGArg_pos : (a : GArg) → (s d m : Nat) → s ≤ m →
      visitGArg ⟨s, d + 1, m⟩ a = ⟨s + gargNodes a, d + 1, max m (s + gargNodes a)⟩
    | .ty t, s, d, m, h => by
        rw [visitGArg, visitTy_pos t s d m h]; simp only [gargNodes]
    | .lt l, s, d, m, h => by
        rw [visitGArg, visitLifetime_eq]; simp only [gargNodes, St.mk.injEq, true_and]; omega
    | .ct c, s, d, m, h => by
        rw [visitGArg, visitConst_eq]; simp only [gargNodes, St.mk.injEq, true_and]; omega
  theorem visitArgs_pos : (a : Args) → (s d m : Nat) → s ≤ m →
      visitArgs ⟨s, d + 1, m⟩ a = ⟨s + argsNodes a, d + 1, max m (s + argsNodes a)⟩
    | .nil, s, d, m, h => by
        rw [visitArgs]; simp only [argsNodes, St.mk.injEq, true_and]; omega
    | .cons a as, s, d, m, h => by
        rw [visitArgs, visitGArg_pos a s d m h, visitArgs_pos as _ _ _ (Nat.le_max_right _ _)]
        simp only [argsNodes, St.mk.injEq, true_and]; omega
  theorem visitWC_pos : (w : WC) → (s d m : Nat) → s ≤ m →
      visitWC ⟨s, d + 1, m⟩ w = ⟨s + wcNodes w, d + 1, max m (s + wcNodes w)⟩
    | .implemented _ args, s, d, m, h => by
        rw [visitWC, visitArgs_pos args s d m h]; simp only [wcNodes]
    | .aliasEqProj _ args ty, s, d, m, h => by
        rw [visitWC, visitArgs_pos args s d m h, visitTy_pos ty _ _ _ (Nat.le_max_right _ _)]
        simp only [wcNodes, St.mk.injEq, true_and]; omega
    | .aliasEqOpaque _ args ty, s, d, m, h => by
        rw [visitWC, visitArgs_pos args s d m h, visitTy_pos ty _ _ _ (Nat.le_max_right _ _)]
        simp only [wcNodes, St.mk.injEq, true_and]; omega
    | .ltOutlives a b, s, d, m, h => by
        rw [visitWC, visitLifetime_eq, visitLifetime_eq]; simp only [wcNodes, St.mk.injEq, true_and]; omega
    | .tyOutlives t l, s, d, m, h => by
        rw [visitWC, visitLifetime_eq, visitTy_pos t s d m h]; simp only [wcNodes]
  theorem visitQWC_pos : (q : QWC) → (s d m : Nat) → s ≤ m →
      visitQWC ⟨s, d + 1, m⟩ q = ⟨s + qwcNodes q, d + 1, max m (s + qwcNodes q)⟩
    | .mk _ wc, s, d, m, h => by
        rw [visitQWC, visitWC_pos wc s d m h]; simp only [qwcNodes]
  theorem visitQWCs_pos : (q : QWCs) → (s d m : Nat) → s ≤ m →
      visitQWCs ⟨s, d + 1, m⟩ q = ⟨s + qwcsNodes q, d + 1, max m (s + qwcsNodes q)⟩
    | .nil, s, d, m, h => by
        rw [visitQWCs]; simp only [qwcsNodes, St.mk.injEq, true_and]; omega
    | .cons q qs, s, d, m, h => by
        rw [visitQWCs, visitQWC_pos q s d m h, visitQWCs_pos qs _ _ _ (Nat.le_max_right _ _)]
        simp only [qwcsNodes, St.mk.injEq, true_and]; omega
end

/-! ### at the outermost level (`depth = 0`): every type is measured on its own -/

/-- a type met at `depth = 0` (whatever `size ≤ max_size` is left in the counter): its nodes are
    added to `size`, and `size` is reset to 0 afterwards -/
theorem visitTy_zero' (t : Ty) (s m : Nat) (h : s ≤ m) :
    visitTy ⟨s, 0, m⟩ t = ⟨0, 0, max m (s + tyNodes t)⟩ := by
  cases t <;>
    simp only [visitTy, St.enter_mk, visitLifetime_eq, visitConst_eq,
      visitTy_pos _ _ _ _ (Nat.le_max_left _ _), visitArgs_pos _ _ _ _ (Nat.le_max_left _ _),
      visitQWCs_pos _ _ _ _ (Nat.le_max_left _ _), St.leave_mk_zero_succ, tyNodes, St.mk.injEq, true_and] <;>
    omega

/-- a top-level type: counted from 0, `size` reset to 0 afterwards -/
theorem visitTy_zero (t : Ty) (m : Nat) : visitTy ⟨0, 0, m⟩ t = ⟨0, 0, max m (tyNodes t)⟩ := by
  rw [visitTy_zero' t 0 m (Nat.zero_le _), Nat.zero_add]

theorem maxNodes_append (a b : List Ty) : maxNodes (a ++ b) = max (maxNodes a) (maxNodes b) := by
  induction a with
  | nil => simp [maxNodes]
  | cons t ts ih => simp only [List.cons_append, maxNodes, ih]; omega

theorem le_maxNodes {t : Ty} {ts : List Ty} (h : t ∈ ts) : tyNodes t ≤ maxNodes ts := by
  induction ts with
  | nil => cases h
  | cons u us ih =>
    simp only [maxNodes]
    rcases List.mem_cons.mp h with rfl | h'
    · omega
    · have := ih h'; omega

theorem visitGArg_zero (a : GArg) (m : Nat) :
    visitGArg ⟨0, 0, m⟩ a = ⟨0, 0, max m (maxNodes (gargTopTys a))⟩ := by
  cases a <;>
    simp only [visitGArg, visitTy_zero, visitLifetime_eq, visitConst_eq, gargTopTys, maxNodes,
      St.mk.injEq, true_and] <;> omega

theorem visitArgs_zero : (a : Args) → (m : Nat) →
    visitArgs ⟨0, 0, m⟩ a = ⟨0, 0, max m (maxNodes (argsTopTys a))⟩
  | .nil, m => by simp only [visitArgs, argsTopTys, maxNodes, St.mk.injEq, true_and]; omega
  | .cons a as, m => by
      rw [visitArgs, visitGArg_zero, visitArgs_zero as]
      simp only [argsTopTys, maxNodes_append, St.mk.injEq, true_and]; omega

theorem visitTys_zero : (ts : List Ty) → (m : Nat) →
    visitTys ⟨0, 0, m⟩ ts = ⟨0, 0, max m (maxNodes ts)⟩
  | [], m => by simp only [visitTys, maxNodes, St.mk.injEq, true_and]; omega
  | t :: ts, m => by
      rw [visitTys, visitTy_zero, visitTys_zero ts]; simp only [maxNodes, St.mk.injEq, true_and]; omega

theorem visitWC_zero (w : WC) (m : Nat) :
    visitWC ⟨0, 0, m⟩ w = ⟨0, 0, max m (maxNodes (wcTopTys w))⟩ := by
  cases w <;>
    simp only [visitWC, visitArgs_zero, visitTy_zero, visitLifetime_eq, wcTopTys, maxNodes,
      maxNodes_append, St.mk.injEq, true_and] <;> omega

theorem visitAlias_zero (al : Alias) (m : Nat) :
    visitAlias ⟨0, 0, m⟩ al = ⟨0, 0, max m (maxNodes (aliasTopTys al))⟩ := by
  cases al <;> simp only [visitAlias, visitArgs_zero, aliasTopTys]

theorem visitDomainGoal_zero (g : DomainGoal) (m : Nat) :
    visitDomainGoal ⟨0, 0, m⟩ g = ⟨0, 0, max m (maxNodes (goalTopTys g))⟩ := by
  cases g <;>
    simp only [visitDomainGoal, visitWC_zero, visitArgs_zero, visitTy_zero, visitAlias_zero,
      goalTopTys, maxNodes, maxNodes_append, St.mk.injEq, true_and] <;> omega

theorem visitValue_zero (v : Value) (m : Nat) :
    visitValue ⟨0, 0, m⟩ v = ⟨0, 0, max m (maxTop v)⟩ := by
  cases v <;>
    simp only [visitValue, visitTy_zero, visitGArg_zero, visitArgs_zero, visitTys_zero, visitWC_zero,
      visitDomainGoal_zero, maxTop, Value.topTys, maxNodes, St.mk.injEq, true_and] <;> omega

/-! ### structure of `tyNodes` -/

theorem tyNodes_pos' (t : Ty) : 0 < tyNodes t := by
  cases t <;> simp only [tyNodes] <;> omega

theorem argsNodes_eq_sum : (a : Args) → argsNodes a = (a.toList.map gargNodes).sum
  | .nil => by simp [argsNodes, Args.toList]
  | .cons a as => by simp [argsNodes, Args.toList, argsNodes_eq_sum as]

theorem gargNodes_le_argsNodes {g : GArg} : {a : Args} → g ∈ a.toList → gargNodes g ≤ argsNodes a
  | .nil, h => by simp [Args.toList] at h
  | .cons b bs, h => by
      simp only [Args.toList, List.mem_cons] at h
      simp only [argsNodes]
      rcases h with rfl | h
      · omega
      · have := gargNodes_le_argsNodes h; omega

theorem mem_argsTopTys {t : Ty} : {a : Args} → (t ∈ argsTopTys a ↔ GArg.ty t ∈ a.toList)
  | .nil => by simp [argsTopTys, Args.toList]
  | .cons b bs => by
      have ih := mem_argsTopTys (t := t) (a := bs)
      cases b <;> simp [argsTopTys, gargTopTys, Args.toList, ih]

theorem maxNodes_argsTopTys_le : (a : Args) → maxNodes (argsTopTys a) ≤ argsNodes a
  | .nil => by simp [argsTopTys, maxNodes, argsNodes]
  | .cons g as => by
      have ih := maxNodes_argsTopTys_le as
      cases g <;>
        simp only [argsTopTys, gargTopTys, maxNodes_append, maxNodes, argsNodes, gargNodes] <;> omega

end Chalk.Truncate
