import ChalkModel.Lemmas.FinalLemmas
import ChalkModel.Lemmas.CanonLemmas
import ChalkModel.Invert

/-!
  Consequences of "the value of a stateful fold is determined by its final state":
  * the canonical value is the input with every unbound variable replaced by the position of its
    root in the final `free_vars` (`numFolder`), bound variables by their numbered values;
  * the inverted value is the input with every type / lifetime placeholder replaced by the variable
    the final `inverted_*` maps assign to it (`invSubst`), plus the invariants of those maps.
-/
namespace Chalk

/-! ### numbering by the final `free_vars` -/

def pNotRecorded : Err := .panic "variable not in free_vars"
def pFreeVar : Err := .panic "unexpected free variable"

/-- the stateless substitution "replace `?x` by `^outer.(position of root(x) in fv)`", looking
    through bound variables like the canonicalizer (same budget discipline) -/
def numStep (t : Table) (fv : List (VarKind × Nat)) (inner : Option Folder) : Folder where
  freeVarTy := some fun _ _ _ => .error pFreeVar
  freeVarLt := some fun _ _ _ => .error pFreeVar
  freeVarConst := some fun _ _ _ _ => .error pFreeVar
  inferTy := some fun v _ o =>
    match t.probeVar v with
    | some g =>
      match inner with
      | none => .error pCyclic
      | some f =>
        match g with
        | .ty ty => (match foldTy f 0 ty with | .ok ty' => ty'.shiftedInFrom o | .error e => .error e)
        | _ => .error pUnwrapNone
    | none =>
      match posOf (t.find v) fv with
      | some i => .ok (.bound o i)
      | none => .error pNotRecorded
  inferLt := some fun v o =>
    match t.probeVar v with
    | some g =>
      match inner with
      | none => .error pCyclic
      | some f =>
        match g with
        | .lt l => (match foldLifetime f 0 l with | .ok l' => l'.shiftedInFrom o | .error e => .error e)
        | _ => .error pUnwrapNone
    | none =>
      match posOf (t.find v) fv with
      | some i => .ok (.bound o i)
      | none => .error pNotRecorded
  inferConst := some fun ty v o =>
    match t.probeVar v with
    | some g =>
      match inner with
      | none => .error pCyclic
      | some f =>
        match g with
        | .ct c => (match foldConst f 0 c with | .ok c' => c'.shiftedInFrom o | .error e => .error e)
        | _ => .error pUnwrapNone
    | none =>
      match posOf (t.find v) fv with
      | some i => .ok (.mk ty (.bound o i))
      | none => .error pNotRecorded
  phConst := some fun ty ui idx _ => .ok (.mk ty (.placeholder ui idx))

def numFolder (t : Table) (fv : List (VarKind × Nat)) : Nat → Folder
  | 0 => numStep t fv none
  | n + 1 => numStep t fv (some (numFolder t fv n))

def cLe (s s' : CState) : Prop := s.freeVars <+: s'.freeVars

theorem posOf_prefix (r : Nat) (l l' : List (VarKind × Nat)) (i : Nat) (h : posOf r l = some i) (hp : l <+: l') :
    posOf r l' = some i := by
  obtain ⟨m, rfl⟩ := hp
  exact posOf_append_of_some r l m i h

theorem canonAdd_final (t : Table) (st st' : CState) (k : VarKind) (r i : Nat)
    (h : canonAdd t st k r = .ok (i, st')) :
    cLe st st' ∧ ∀ s'', cLe st' s'' → posOf r s''.freeVars = some i := by
  unfold canonAdd at h
  cases hu : t.universeOfUnbound r with
  | error e => simp [hu] at h
  | ok u =>
    simp only [hu] at h
    cases hp : posOf r st.freeVars with
    | some j =>
      simp [hp] at h
      obtain ⟨rfl, rfl⟩ := h
      exact ⟨List.prefix_refl _, fun s'' hs => posOf_prefix r _ _ _ hp hs⟩
    | none =>
      simp [hp] at h
      obtain ⟨rfl, rfl⟩ := h
      refine ⟨List.prefix_append _ _, fun s'' hs => posOf_prefix r _ _ _ ?_ hs⟩
      simp [posOf_append_of_none r _ _ hp, posOf]

def NumInner (t : Table) : Option (SFolder CState) → (CState → Option Folder) → Prop
  | none, g => ∀ s, g s = none
  | some f, g => ∃ g', (∀ s, g s = some (g' s)) ∧ FinalHandlers cLe g' f

theorem num_step (t : Table) (inner : Option (SFolder CState)) (gi : CState → Option Folder)
    (hin : NumInner t inner gi) :
    FinalHandlers cLe (fun s => numStep t s.freeVars (gi s)) (canonStep t inner) := by
  refine
    { refl := fun s => List.prefix_refl _, trans := fun a b c h1 h2 => List.IsPrefix.trans h1 h2,
      freeVarTy := ?_, freeVarLt := ?_, freeVarConst := ?_, inferTy := ?_, inferLt := ?_, inferConst := ?_,
      phTy := ?_, phLt := ?_, phConstN := ?_, phConstF := ?_, noFreeVarFold := rfl, noInferFold := rfl }
  · intro db idx o s a s' h; simp [canonStep, forbidFreeVarTy] at h
  · intro db idx o s a s' h; simp [canonStep, forbidFreeVarLt] at h
  · intro ty db idx o s a s' h; simp [canonStep, forbidFreeVarConst] at h
  · -- inferTy
    intro v k o s a s' h
    simp only [canonStep] at h
    cases hp : t.probeVar v with
    | none =>
      simp only [hp] at h
      cases hadd : canonAdd t s (.ty k) (t.find v) with
      | error e => simp [hadd] at h
      | ok p =>
        obtain ⟨i, st'⟩ := p
        simp [hadd] at h
        obtain ⟨rfl, rfl⟩ := h
        obtain ⟨h1, h2⟩ := canonAdd_final t s st' _ _ i hadd
        exact ⟨h1, fun s'' hs => by simp [foldTy, numStep, hp, h2 s'' hs]⟩
    | some g =>
      simp only [hp] at h
      cases inner with
      | none => simp at h
      | some f =>
        obtain ⟨g', hg', IH⟩ := hin
        cases g with
        | ty ty =>
          simp only at h
          obtain ⟨ty', st', hf, hk⟩ := bindS_eq_ok.mp h
          obtain ⟨h1, h2⟩ := sfoldTy_final IH 0 ty s ty' st' hf
          cases hsh : ty'.shiftedInFrom o with
          | error e => simp [hsh] at hk
          | ok r =>
            simp [hsh] at hk
            obtain ⟨rfl, rfl⟩ := hk
            exact ⟨h1, fun s'' hs => by simp [foldTy, numStep, hp, hg', h2 s'' hs, hsh]⟩
        | lt l => simp at h
        | ct c => simp at h
  · -- inferLt
    intro v o s a s' h
    simp only [canonStep] at h
    cases hp : t.probeVar v with
    | none =>
      simp only [hp] at h
      cases hadd : canonAdd t s .lt (t.find v) with
      | error e => simp [hadd] at h
      | ok p =>
        obtain ⟨i, st'⟩ := p
        simp [hadd] at h
        obtain ⟨rfl, rfl⟩ := h
        obtain ⟨h1, h2⟩ := canonAdd_final t s st' _ _ i hadd
        exact ⟨h1, fun s'' hs => by simp [foldLifetime, numStep, hp, h2 s'' hs]⟩
    | some g =>
      simp only [hp] at h
      cases inner with
      | none => simp at h
      | some f =>
        obtain ⟨g', hg', IH⟩ := hin
        cases g with
        | lt l =>
          simp only at h
          obtain ⟨l', st', hf, hk⟩ := bindS_eq_ok.mp h
          obtain ⟨h1, h2⟩ := sfoldLifetime_final IH 0 l s l' st' hf
          cases hsh : l'.shiftedInFrom o with
          | error e => simp [hsh] at hk
          | ok r =>
            simp [hsh] at hk
            obtain ⟨rfl, rfl⟩ := hk
            exact ⟨h1, fun s'' hs => by
              have h2' : foldLifetime (g' s'') 0 l = .ok l' := h2 s'' hs
              simp only [foldLifetime]
              simp only [numStep, hp, hg']
              rw [h2']; simp [hsh]⟩
        | ty ty => simp at h
        | ct c => simp at h
  · -- inferConst
    intro ty v o s a s' h
    simp only [canonStep] at h
    cases hp : t.probeVar v with
    | none =>
      simp only [hp] at h
      cases hadd : canonAdd t s (.const ty.scalarCode) (t.find v) with
      | error e => simp [hadd] at h
      | ok p =>
        obtain ⟨i, st'⟩ := p
        simp [hadd] at h
        obtain ⟨rfl, rfl⟩ := h
        obtain ⟨h1, h2⟩ := canonAdd_final t s st' _ _ i hadd
        exact ⟨h1, fun s'' hs => by simp [foldConst, numStep, hp, h2 s'' hs]⟩
    | some g =>
      simp only [hp] at h
      cases inner with
      | none => simp at h
      | some f =>
        obtain ⟨g', hg', IH⟩ := hin
        cases g with
        | ct c =>
          simp only at h
          obtain ⟨c', st', hf, hk⟩ := bindS_eq_ok.mp h
          obtain ⟨h1, h2⟩ := sfoldConst_final IH 0 c s c' st' hf
          cases hsh : c'.shiftedInFrom o with
          | error e => simp [hsh] at hk
          | ok r =>
            simp [hsh] at hk
            obtain ⟨rfl, rfl⟩ := hk
            exact ⟨h1, fun s'' hs => by simp [foldConst, numStep, hp, hg', h2 s'' hs, hsh]⟩
        | ty ty => simp at h
        | lt l => simp at h
  · intro ui idx o s a s' h
    simp only [canonStep] at h; cases h
    exact ⟨List.prefix_refl _, fun s'' _ => by simp [foldTy, numStep]⟩
  · intro ui idx o s a s' h
    simp only [canonStep] at h; cases h
    exact ⟨List.prefix_refl _, fun s'' _ => by simp [foldLifetime, numStep]⟩
  · intro _ ty ui idx o s a s' h
    simp only [canonStep] at h; cases h
    exact ⟨List.prefix_refl _, fun s'' _ => by simp [foldConst, numStep]⟩
  · intro hflag; simp [canonStep] at hflag

theorem num_handlers (t : Table) : (fuel : Nat) →
    FinalHandlers cLe (fun s => numFolder t s.freeVars fuel) (canonFolder t fuel)
  | 0 => num_step t none (fun _ => none) (fun _ => rfl)
  | n + 1 => num_step t (some (canonFolder t n)) (fun s => some (numFolder t s.freeVars n))
      ⟨fun s => numFolder t s.freeVars n, fun _ => rfl, num_handlers t n⟩

/-! ### the Inverter -/

def pUnmapped : Err := .panic "placeholder not in the inverted map"

/-- the stateless substitution given by the `inverted_ty` / `inverted_lifetime` maps of a state -/
def invSubst (st : InvState) : Folder where
  freeVarTy := some fun _ _ _ => .error pFreeVar
  freeVarLt := some fun _ _ _ => .error pFreeVar
  freeVarConst := some fun _ _ _ _ => .error pFreeVar
  inferTy := some fun _ _ _ => .error pInvInfer
  inferLt := some fun _ _ => .error pInvInfer
  inferConst := some fun _ _ _ => .error pInvInfer
  phTy := some fun ui idx _ =>
    match invLookup (ui, idx) st.invertedTy with
    | some v => .ok (.infer v .general)
    | none => .error pUnmapped
  phLt := some fun ui idx _ =>
    match invLookup (ui, idx) st.invertedLt with
    | some v => .ok (.infer v)
    | none => .error pUnmapped

def invLe (s s' : InvState) : Prop := s.invertedTy <+: s'.invertedTy ∧ s.invertedLt <+: s'.invertedLt

theorem invLookup_append (p : Nat × Nat) : (l m : List ((Nat × Nat) × Nat)) → (v : Nat) →
    invLookup p l = some v → invLookup p (l ++ m) = some v
  | [], _, _, h => by simp [invLookup] at h
  | (q, w) :: l, m, v, h => by
    simp only [invLookup, List.cons_append] at h ⊢
    split
    · rename_i hq; simpa [hq] using h
    · rename_i hq; simp only [hq, if_false] at h; exact invLookup_append p l m v h

theorem invLookup_append_new (p : Nat × Nat) : (l : List ((Nat × Nat) × Nat)) → (v : Nat) →
    invLookup p l = none → invLookup p (l ++ [(p, v)]) = some v
  | [], v, _ => by simp [invLookup]
  | (q, w) :: l, v, h => by
    simp only [invLookup, List.cons_append] at h ⊢
    split
    · rename_i hq; simp [hq] at h
    · rename_i hq; simp only [hq, if_false] at h; exact invLookup_append_new p l v h

theorem invLookup_prefix (p : Nat × Nat) (l l' : List ((Nat × Nat) × Nat)) (v : Nat)
    (h : invLookup p l = some v) (hp : l <+: l') : invLookup p l' = some v := by
  obtain ⟨m, rfl⟩ := hp
  exact invLookup_append p l m v h

theorem inv_final : FinalHandlers invLe invSubst inverterFolder := by
  refine
    { refl := fun s => ⟨List.prefix_refl _, List.prefix_refl _⟩,
      trans := fun a b c h1 h2 => ⟨List.IsPrefix.trans h1.1 h2.1, List.IsPrefix.trans h1.2 h2.2⟩,
      freeVarTy := ?_, freeVarLt := ?_, freeVarConst := ?_, inferTy := ?_, inferLt := ?_, inferConst := ?_,
      phTy := ?_, phLt := ?_, phConstN := ?_, phConstF := ?_, noFreeVarFold := rfl, noInferFold := rfl }
  · intro db idx o s a s' h; simp [inverterFolder, forbidFreeVarTy] at h
  · intro db idx o s a s' h; simp [inverterFolder, forbidFreeVarLt] at h
  · intro ty db idx o s a s' h; simp [inverterFolder, forbidFreeVarConst] at h
  · intro v k o s a s' h; simp [inverterFolder] at h
  · intro v o s a s' h; simp [inverterFolder] at h
  · intro ty v o s a s' h; simp [inverterFolder] at h
  · -- phTy
    intro ui idx o s a s' h
    simp only [inverterFolder] at h
    cases hl : invLookup (ui, idx) s.invertedTy with
    | some v =>
      simp [hl] at h
      obtain ⟨rfl, rfl⟩ := h
      exact ⟨⟨List.prefix_refl _, List.prefix_refl _⟩,
        fun s'' hs => by simp [foldTy, invSubst, invLookup_prefix _ _ _ _ hl hs.1]⟩
    | none =>
      simp [hl] at h
      obtain ⟨rfl, rfl⟩ := h
      refine ⟨⟨List.prefix_append _ _, List.prefix_refl _⟩, fun s'' hs => ?_⟩
      have := invLookup_prefix _ _ _ _ (invLookup_append_new (ui, idx) s.invertedTy (s.table.newVariable ui).2 hl) hs.1
      simp [foldTy, invSubst, this]
  · -- phLt
    intro ui idx o s a s' h
    simp only [inverterFolder] at h
    cases hl : invLookup (ui, idx) s.invertedLt with
    | some v =>
      simp [hl] at h
      obtain ⟨rfl, rfl⟩ := h
      exact ⟨⟨List.prefix_refl _, List.prefix_refl _⟩,
        fun s'' hs => by simp [foldLifetime, invSubst, invLookup_prefix _ _ _ _ hl hs.2]⟩
    | none =>
      simp [hl] at h
      obtain ⟨rfl, rfl⟩ := h
      refine ⟨⟨List.prefix_refl _, List.prefix_append _ _⟩, fun s'' hs => ?_⟩
      have := invLookup_prefix _ _ _ _ (invLookup_append_new (ui, idx) s.invertedLt (s.table.newVariable ui).2 hl) hs.2
      simp [foldLifetime, invSubst, this]
  · intro hflag; simp [inverterFolder] at hflag
  · intro _ ty ty' ui idx o s a s' h
    simp only [inverterFolder] at h; cases h
    exact ⟨⟨List.prefix_refl _, List.prefix_refl _⟩, fun s'' _ hty => by
      have hn : (invSubst s'').phConst = none := rfl
      simp only [foldConst, hn, hty]⟩

/-! ### invariants of the Inverter's maps -/

theorem getD_append_left' {α : Type} (l : List α) (x d : α) (i : Nat) (h : i < l.length) :
    (l ++ [x]).getD i d = l.getD i d := by
  simp [List.getD, List.getElem?_append_left h]

theorem getD_append_length' {α : Type} (l : List α) (x d : α) : (l ++ [x]).getD l.length d = x := by
  simp [List.getD]

theorem nodup_mid (l1 l2 : List Nat) (x : Nat) (h : (l1 ++ l2).Nodup) (hx : x ∉ l1 ++ l2) :
    (l1 ++ x :: l2).Nodup := by
  rw [List.nodup_append] at h ⊢
  obtain ⟨n1, n2, n3⟩ := h
  simp only [List.mem_append, not_or] at hx
  refine ⟨n1, List.nodup_cons.mpr ⟨hx.2, n2⟩, ?_⟩
  intro a ha b hb
  rcases List.mem_cons.mp hb with rfl | hb
  · exact fun he => hx.1 (he ▸ ha)
  · exact n3 a ha b hb

theorem nodup_end (l : List Nat) (x : Nat) (h : l.Nodup) (hx : x ∉ l) : (l ++ [x]).Nodup := by
  have := nodup_mid l [] x (by simpa using h) (by simpa using hx)
  simpa using this

/-- every variable in the two maps was created after `t0`, exists in the current table, is its own
    root, unbound, in the universe of its placeholder; no variable is used twice (within or across
    the maps) -/
structure InvOk (t0 : Table) (st : InvState) : Prop where
  aligned : st.table.Aligned
  grows : t0.numVars ≤ st.table.numVars
  vars : ∀ p v, ((p, v) ∈ st.invertedTy ∨ (p, v) ∈ st.invertedLt) →
    t0.numVars ≤ v ∧ v < st.table.numVars ∧ st.table.parent.getD v v = v ∧
    st.table.value.getD v (.unbound 0) = .unbound p.1
  nodup : ((st.invertedTy ++ st.invertedLt).map (·.2)).Nodup

theorem InvOk.newVar (t0 : Table) (st : InvState) (h : InvOk t0 st) (ui : Nat) :
    (∀ p v, ((p, v) ∈ st.invertedTy ∨ (p, v) ∈ st.invertedLt) →
      t0.numVars ≤ v ∧ v < (st.table.newVariable ui).1.numVars ∧
      (st.table.newVariable ui).1.parent.getD v v = v ∧
      (st.table.newVariable ui).1.value.getD v (.unbound 0) = .unbound p.1) ∧
    (st.table.newVariable ui).1.parent.getD st.table.numVars st.table.numVars = st.table.numVars ∧
    (st.table.newVariable ui).1.value.getD st.table.numVars (.unbound 0) = .unbound ui := by
  have hal : st.table.value.length = st.table.parent.length := h.aligned
  refine ⟨?_, ?_, ?_⟩
  · intro p v hv
    obtain ⟨h1, h2, h3, h4⟩ := h.vars p v hv
    have h2' : v < st.table.parent.length := h2
    refine ⟨h1, by simp [Table.newVariable, Table.numVars]; omega, ?_, ?_⟩
    · simp only [Table.newVariable]; rw [getD_append_left' _ _ _ _ h2']; exact h3
    · simp only [Table.newVariable]; rw [getD_append_left' _ _ _ _ (by omega)]; exact h4
  · simp only [Table.newVariable, Table.numVars]; exact getD_append_length' _ _ _
  · simp only [Table.newVariable, Table.numVars, ← hal]; exact getD_append_length' _ _ _

theorem inv_invariant (t0 : Table) :
    SimHandlers True (fun s1 s2 : InvState => s1 = s2 ∧ InvOk t0 s1) inverterFolder inverterFolder := by
  refine
    { freeVarTy := ?_, freeVarLt := ?_, freeVarConst := ?_, inferTy := ?_, inferLt := ?_, inferConst := ?_,
      phTy := ?_, phLt := ?_, phConst := ?_, flagFreeVar := rfl, flagInfer := rfl, flagPh := rfl }
  · intro db idx o s1 s2 _ a s1' h; simp [inverterFolder, forbidFreeVarTy] at h
  · intro db idx o s1 s2 _ a s1' h; simp [inverterFolder, forbidFreeVarLt] at h
  · intro ty1 ty2 db idx o s1 s2 _ _ a s1' h; simp [inverterFolder, forbidFreeVarConst] at h
  · intro v k o s1 s2 _ a s1' h; simp [inverterFolder] at h
  · intro v o s1 s2 _ a s1' h; simp [inverterFolder] at h
  · intro ty1 ty2 v o s1 s2 _ _ a s1' h; simp [inverterFolder] at h
  · -- phTy
    rintro ui idx o s1 s2 ⟨rfl, hok⟩ a s1' h
    refine ⟨a, s1', h, fun _ => rfl, rfl, ?_⟩
    simp only [inverterFolder] at h
    cases hl : invLookup (ui, idx) s1.invertedTy with
    | some v => simp [hl] at h; obtain ⟨_, rfl⟩ := h; exact hok
    | none =>
      simp [hl] at h
      obtain ⟨_, rfl⟩ := h
      obtain ⟨hold, hp, hv⟩ := hok.newVar t0 s1 ui
      have hnum : (s1.table.newVariable ui).2 = s1.table.numVars := rfl
      refine ⟨Table.newVariable_aligned _ _ hok.aligned, ?_, ?_, ?_⟩
      · have := hok.grows; simp [Table.newVariable, Table.numVars] at *; omega
      · intro p v hv'
        simp only [List.mem_append, List.mem_singleton] at hv'
        rcases hv' with (hv' | hv') | hv'
        · exact hold p v (.inl hv')
        · cases hv'
          refine ⟨hok.grows, by simp [Table.newVariable, Table.numVars], hp, hv⟩
        · exact hold p v (.inr hv')
      · have hnd := hok.nodup
        simp only [List.map_append] at hnd
        have hfresh : s1.table.numVars ∉ s1.invertedTy.map (·.2) ++ s1.invertedLt.map (·.2) := by
          intro hx
          simp only [List.mem_append, List.mem_map] at hx
          rcases hx with ⟨⟨p, v⟩, hm, he⟩ | ⟨⟨p, v⟩, hm, he⟩
          · have := (hok.vars p v (.inl hm)).2.1; simp at he; omega
          · have := (hok.vars p v (.inr hm)).2.1; simp at he; omega
        simp only [List.map_append, List.map_cons, List.map_nil, List.append_assoc, List.singleton_append]
        exact nodup_mid _ _ _ hnd hfresh
  · -- phLt
    rintro ui idx o s1 s2 ⟨rfl, hok⟩ a s1' h
    refine ⟨a, s1', h, fun _ => rfl, rfl, ?_⟩
    simp only [inverterFolder] at h
    cases hl : invLookup (ui, idx) s1.invertedLt with
    | some v => simp [hl] at h; obtain ⟨_, rfl⟩ := h; exact hok
    | none =>
      simp [hl] at h
      obtain ⟨_, rfl⟩ := h
      obtain ⟨hold, hp, hv⟩ := hok.newVar t0 s1 ui
      refine ⟨Table.newVariable_aligned _ _ hok.aligned, ?_, ?_, ?_⟩
      · have := hok.grows; simp [Table.newVariable, Table.numVars] at *; omega
      · intro p v hv'
        simp only [List.mem_append, List.mem_singleton] at hv'
        rcases hv' with hv' | hv' | hv'
        · exact hold p v (.inl hv')
        · exact hold p v (.inr hv')
        · cases hv'
          refine ⟨hok.grows, by simp [Table.newVariable, Table.numVars], hp, hv⟩
      · have hnd := hok.nodup
        simp only [List.map_append] at hnd
        have hfresh : s1.table.numVars ∉ s1.invertedTy.map (·.2) ++ s1.invertedLt.map (·.2) := by
          intro hx
          simp only [List.mem_append, List.mem_map] at hx
          rcases hx with ⟨⟨p, v⟩, hm, he⟩ | ⟨⟨p, v⟩, hm, he⟩
          · have := (hok.vars p v (.inl hm)).2.1; simp at he; omega
          · have := (hok.vars p v (.inr hm)).2.1; simp at he; omega
        simp only [List.map_append, List.map_cons, List.map_nil, ← List.append_assoc]
        exact nodup_end _ _ hnd hfresh
  · -- phConst
    rintro ty1 ty2 ui idx o s1 s2 hty ⟨rfl, hok⟩ a s1' h
    have hty : ty2 = ty1 := hty (.inl trivial)
    subst hty
    refine ⟨a, s1', h, fun _ => rfl, rfl, ?_⟩
    simp only [inverterFolder] at h; cases h; exact hok

end Chalk
