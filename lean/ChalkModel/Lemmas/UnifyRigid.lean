/-
  The unifier on the rigid fragment (no inference variables, no bound variables, no aliases, no
  `dyn`, no error type, fn pointers without binders): it never touches the table, it succeeds
  exactly when the lifetime-erased types are equal, and the goals it pushes are exactly the
  outlives constraints dictated by variance (`subConstraints`, `Lemmas/UnifyDefs.lean`).
-/
import ChalkModel.Lemmas.UnifyDefs

namespace Chalk

def outlivesGoals (l : List (Lifetime × Lifetime)) : List UGoal := l.map fun p => UGoal.outlives p.1 p.2

/-! ## bookkeeping: appending outlives goals to a state -/

/-- the state with the outlives goals of `l` appended -/
def UState.addG (st : UState) (l : List (Lifetime × Lifetime)) : UState :=
  { st with goals := st.goals ++ outlivesGoals l }

@[simp] theorem outlivesGoals_nil : outlivesGoals [] = [] := rfl
@[simp] theorem outlivesGoals_append (l1 l2) :
    outlivesGoals (l1 ++ l2) = outlivesGoals l1 ++ outlivesGoals l2 := by
  simp [outlivesGoals]

@[simp] theorem UState.addG_nil (st : UState) : st.addG [] = st := by
  cases st; simp [UState.addG]

@[simp] theorem UState.addG_addG (st : UState) (l1 l2) : (st.addG l1).addG l2 = st.addG (l1 ++ l2) := by
  simp [UState.addG, List.append_assoc]

/-! ## rigid terms are untouched by the table -/

theorem tyKindOk_rigid (t : Table) (a : Ty) (h : a.rigid = true) : t.tyKindOk a = true := by
  cases a <;> simp_all [Ty.rigid, Table.tyKindOk]

theorem normalizeTyShallow_rigid (t : Table) (a : Ty) (h : a.rigid = true) : t.normalizeTyShallow a = none := by
  cases a <;> simp_all [Ty.rigid, Table.normalizeTyShallow, Table.normalizeTyShallowInner]

theorem ltKindOk_rigid (t : Table) (a : Lifetime) (h : a.rigid = true) : t.ltKindOk a = true := by
  cases a <;> simp_all [Lifetime.rigid, Table.ltKindOk]

theorem normalizeLifetimeShallow_rigid (t : Table) (a : Lifetime) (h : a.rigid = true) :
    t.normalizeLifetimeShallow a = none := by
  cases a <;> simp_all [Lifetime.rigid, Table.normalizeLifetimeShallow]

/-! ## lifetimes -/

theorem relateLifetime_rigid (v : Variance) (la lb : Lifetime) (st : UState)
    (ha : la.rigid = true) (hb : lb.rigid = true) :
    relateLifetime v la lb st = .ok (st.addG (ltConstraints v la lb)) := by
  cases la <;> simp [Lifetime.rigid] at ha <;> cases lb <;> simp [Lifetime.rigid] at hb <;>
    simp [relateLifetime, Table.ltKindOk, Table.normalizeLifetimeShallow, ltConstraints, pushOutlives] <;>
    cases v <;> simp [UState.addG, outlivesGoals] <;> split <;> split <;> simp_all

/-! ## folding a rigid term with a folder that leaves placeholders alone -/

theorem foldLifetime_rigid (f : Folder) (h2 : f.phLt = none) (outer : Nat) (l : Lifetime)
    (h : l.rigid = true) : foldLifetime f outer l = .ok l := by
  cases l <;> simp_all [foldLifetime, Lifetime.rigid]

mutual
  theorem foldTy_rigid (f : Folder) (h1 : f.phTy = none) (h2 : f.phLt = none) (h3 : f.phConst = none)
      (outer : Nat) : (t : Ty) → t.rigid = true → foldTy f outer t = .ok t
    | .app n args, h => by
        simp [Ty.rigid] at h; simp [foldTy, foldArgs_rigid f h1 h2 h3 outer args h]
    | .scalar s, _ => by simp [foldTy]
    | .str, _ => by simp [foldTy]
    | .never, _ => by simp [foldTy]
    | .foreign id, _ => by simp [foldTy]
    | .error, h => by simp [Ty.rigid] at h
    | .array t c, h => by
        simp [Ty.rigid] at h
        simp [foldTy, foldTy_rigid f h1 h2 h3 outer t h.1, foldConst_rigid f h1 h2 h3 outer c h.2]
    | .slice t, h => by
        simp [Ty.rigid] at h; simp [foldTy, foldTy_rigid f h1 h2 h3 outer t h]
    | .raw m t, h => by
        simp [Ty.rigid] at h; simp [foldTy, foldTy_rigid f h1 h2 h3 outer t h]
    | .ref m l t, h => by
        simp [Ty.rigid] at h
        simp [foldTy, foldTy_rigid f h1 h2 h3 outer t h.2, foldLifetime_rigid f h2 outer l h.1]
    | .placeholder ui idx, _ => by simp [foldTy, h1]
    | .dyn kinds bounds l, h => by simp [Ty.rigid] at h
    | .proj id args, h => by simp [Ty.rigid] at h
    | .opaque id args, h => by simp [Ty.rigid] at h
    | .function nb sig args, h => by
        simp [Ty.rigid] at h; simp [foldTy, foldArgs_rigid f h1 h2 h3 (outer + 1) args h.2]
    | .bound db idx, h => by simp [Ty.rigid] at h
    | .infer v k, h => by simp [Ty.rigid] at h
  theorem foldConst_rigid (f : Folder) (h1 : f.phTy = none) (h2 : f.phLt = none) (h3 : f.phConst = none)
      (outer : Nat) : (c : Const) → c.rigid = true → foldConst f outer c = .ok c
    | .mk ty (.bound db idx), h => by simp [Const.rigid, ConstValue.rigid] at h
    | .mk ty (.infer v), h => by simp [Const.rigid, ConstValue.rigid] at h
    | .mk ty (.placeholder ui idx), h => by
        simp [Const.rigid, ConstValue.rigid] at h
        simp [foldConst, h3, foldTy_rigid f h1 h2 h3 outer ty h]
    | .mk ty (.concrete k), h => by
        simp [Const.rigid, ConstValue.rigid] at h
        simp [foldConst, foldTy_rigid f h1 h2 h3 outer ty h]
  theorem foldGArg_rigid (f : Folder) (h1 : f.phTy = none) (h2 : f.phLt = none) (h3 : f.phConst = none)
      (outer : Nat) : (a : GArg) → a.rigid = true → foldGArg f outer a = .ok a
    | .ty t, h => by simp [GArg.rigid] at h; simp [foldGArg, foldTy_rigid f h1 h2 h3 outer t h]
    | .lt l, h => by simp [GArg.rigid] at h; simp [foldGArg, foldLifetime_rigid f h2 outer l h]
    | .ct c, h => by simp [GArg.rigid] at h; simp [foldGArg, foldConst_rigid f h1 h2 h3 outer c h]
  theorem foldArgs_rigid (f : Folder) (h1 : f.phTy = none) (h2 : f.phLt = none) (h3 : f.phConst = none)
      (outer : Nat) : (a : Args) → a.rigid = true → foldArgs f outer a = .ok a
    | .nil, _ => by simp [foldArgs]
    | .cons a as, h => by
        simp [Args.rigid] at h
        simp [foldArgs, foldGArg_rigid f h1 h2 h3 outer a h.1, foldArgs_rigid f h1 h2 h3 outer as h.2]
end

theorem instFnUniversally_rigid (args : Args) (st : UState) (h : args.rigid = true) :
    instFnUniversally 0 args st = .ok (args, st) := by
  simp [instFnUniversally, Args.subst, foldArgs_rigid (substFolder []) rfl rfl rfl 0 args h, liftRes]

theorem instFnExistentially_rigid (args : Args) (st : UState) (h : args.rigid = true) :
    instFnExistentially 0 args st = .ok (args, st) := by
  simp [instFnExistentially, freshLifetimeVars, foldArgs_rigid (applyFolder []) rfl rfl rfl 0 args h, liftRes]

/-! ## reflexivity: a type imposes no constraints against itself -/

@[simp] theorem ltConstraints_refl (v : Variance) (a : Lifetime) : ltConstraints v a a = [] := by
  simp [ltConstraints]

mutual
  theorem subConstraints_refl (db : UDb) : (v : Variance) → (x : Ty) → subConstraints db v x x = []
    | v, .app n args => by simp [subConstraints, subConstraintsArgs_refl db v _ 0 args]
    | v, .scalar s => by simp [subConstraints]
    | v, .str => by simp [subConstraints]
    | v, .never => by simp [subConstraints]
    | v, .foreign id => by simp [subConstraints]
    | v, .error => by simp [subConstraints]
    | v, .array t (.mk ty cv) => by simp [subConstraints, subConstraints_refl db v t, subConstraints_refl db v ty]
    | v, .slice t => by simp [subConstraints, subConstraints_refl db v t]
    | v, .raw m t => by simp [subConstraints, subConstraints_refl db _ t]
    | v, .ref m l t => by simp [subConstraints, subConstraints_refl db _ t]
    | v, .placeholder ui idx => by simp [subConstraints]
    | v, .dyn kinds bounds l => by simp [subConstraints]
    | v, .proj id args => by simp [subConstraints]
    | v, .opaque id args => by simp [subConstraints]
    | v, .function nb sig args => by
        cases v <;> simp [subConstraints, subConstraintsFn_refl db _ args]
    | v, .bound d idx => by simp [subConstraints]
    | v, .infer x k => by simp [subConstraints]
  theorem subConstraintsGArg_refl (db : UDb) : (v : Variance) → (x : GArg) → subConstraintsGArg db v x x = []
    | v, .ty t => by simp [subConstraintsGArg, subConstraints_refl db v t]
    | v, .lt l => by simp [subConstraintsGArg]
    | v, .ct (.mk ty cv) => by simp [subConstraintsGArg, subConstraints_refl db v ty]
  theorem subConstraintsArgs_refl (db : UDb) : (v : Variance) → (vs : Option (List Variance)) → (i : Nat) →
      (x : Args) → subConstraintsArgs db v vs i x x = []
    | v, vs, i, .nil => by simp [subConstraintsArgs]
    | v, vs, i, .cons a as => by
        simp [subConstraintsArgs, subConstraintsGArg_refl db _ a, subConstraintsArgs_refl db v vs (i + 1) as]
  theorem subConstraintsFn_refl (db : UDb) : (v : Variance) → (x : Args) → subConstraintsFn db v x x = []
    | v, .nil => by simp [subConstraintsFn]
    | v, .cons a .nil => by simp [subConstraintsFn, subConstraintsGArg_refl db _ a]
    | v, .cons a (.cons a' as) => by
        simp [subConstraintsFn, subConstraintsGArg_refl db _ a, subConstraintsFn_refl db v (.cons a' as)]
end

/-! ## the induction hypothesis on the nested `relate_ty_ty` -/

/-- `rel` behaves as specified on rigid, arity-correct types of depth at most `n` -/
def RelOK (db : UDb) (ar : TyName → Nat) (rel : RelTy) (n : Nat) : Prop :=
  ∀ (v : Variance) (a b : Ty) (st : UState),
    a.rigid = true → b.rigid = true → a.arityOk ar = true → b.arityOk ar = true → a.depth ≤ n →
    rel v a b st =
      if a.eraseLt = b.eraseLt then .ok (st.addG (subConstraints db v a b)) else .error .noSolution

theorem relateConst_rigid {db : UDb} {ar : TyName → Nat} {rel : RelTy} {n : Nat} (hrel : RelOK db ar rel n)
    (jf : Nat) (v : Variance) (ka kb : Const) (st : UState)
    (ha : ka.rigid = true) (hb : kb.rigid = true) (haa : ka.arityOk ar = true) (hab : kb.arityOk ar = true)
    (hd : ka.depth ≤ n) :
    relateConst rel jf v ka kb st =
      if ka.eraseLt = kb.eraseLt then .ok (st.addG (subConstraintsGArg db v (.ct ka) (.ct kb)))
      else .error .noSolution := by
  obtain ⟨ta, va⟩ := ka
  obtain ⟨tb, vb⟩ := kb
  simp [Const.rigid] at ha hb
  simp [Const.arityOk] at haa hab
  simp [Const.depth] at hd
  have h := hrel v ta tb st ha.1 hb.1 haa hab hd
  by_cases he : ta.eraseLt = tb.eraseLt <;> simp only [he, if_true, if_false] at h <;>
    cases va <;> simp [ConstValue.rigid] at ha <;> cases vb <;> simp [ConstValue.rigid] at hb <;>
    simp [relateConst, Table.ctKindOk, Table.normalizeConstShallow, h, he, Const.eraseLt, subConstraintsGArg]

theorem relateGArg_rigid {db : UDb} {ar : TyName → Nat} {rel : RelTy} {n : Nat} (hrel : RelOK db ar rel n)
    (jf : Nat) (v : Variance) (a b : GArg) (st : UState)
    (ha : a.rigid = true) (hb : b.rigid = true) (haa : a.arityOk ar = true) (hab : b.arityOk ar = true)
    (hd : a.depth ≤ n) :
    relateGArg rel jf v a b st =
      if a.eraseLt = b.eraseLt then .ok (st.addG (subConstraintsGArg db v a b)) else .error .noSolution := by
  cases a <;> cases b <;> simp [GArg.rigid] at ha hb <;> simp [GArg.arityOk] at haa hab <;>
    simp [GArg.depth] at hd <;> simp [relateGArg, GArg.eraseLt]
  · rename_i ta tb
    simp [hrel v ta tb st ha hb haa hab hd, subConstraintsGArg]
  · rename_i la lb
    simp [relateLifetime_rigid v la lb st ha hb, subConstraintsGArg]
  · rename_i ka kb
    simp [relateConst_rigid hrel jf v ka kb st ha hb haa hab hd]

theorem Args.eraseLt_length : (a : Args) → a.eraseLt.toList.length = a.toList.length
  | .nil => by simp [Args.eraseLt, Args.toList]
  | .cons a as => by simp [Args.eraseLt, Args.toList, Args.eraseLt_length as]

theorem zipSubsts_rigid {db : UDb} {ar : TyName → Nat} {rel : RelTy} {n : Nat} (hrel : RelOK db ar rel n)
    (jf : Nat) (v : Variance) (vs : Option (List Variance)) :
    (as bs : Args) → (i : Nat) → (st : UState) →
    as.toList.length = bs.toList.length →
    (∀ l, vs = some l → i + as.toList.length ≤ l.length) →
    as.rigid = true → bs.rigid = true → as.arityOk ar = true → bs.arityOk ar = true → as.depth ≤ n →
    zipSubsts rel jf v vs i as bs st =
      if as.eraseLt = bs.eraseLt then .ok (st.addG (subConstraintsArgs db v vs i as bs))
      else .error .noSolution
  | .nil, .nil, i, st, _, _, _, _, _, _, _ => by simp [zipSubsts, subConstraintsArgs]
  | .nil, .cons b bs, i, st, hl, _, _, _, _, _, _ => by simp [Args.toList] at hl
  | .cons a as, .nil, i, st, hl, _, _, _, _, _, _ => by simp [Args.toList] at hl
  | .cons a as, .cons b bs, i, st, hl, hvs, ha, hb, haa, hab, hd => by
      simp [Args.toList] at hl hvs
      simp [Args.rigid] at ha hb
      simp [Args.arityOk] at haa hab
      simp [Args.depth] at hd
      have hg := fun w => relateGArg_rigid hrel jf (v.xform w) a b st ha.1 hb.1 haa.1 hab.1
        (by omega)
      have ih := fun st' => zipSubsts_rigid hrel jf v vs as bs (i + 1) st' hl
        (fun l h => by have := hvs l h; omega) ha.2 hb.2 haa.2 hab.2 (by omega)
      have hpv : ∀ l, vs = some l → l[i]? = some (positionVariance vs i) := by
        intro l h
        have := hvs l h
        have hi : i < l.length := by omega
        subst h
        simp [positionVariance, hi]
      simp only [zipSubsts]
      cases vs with
      | none =>
          by_cases he : a.eraseLt = b.eraseLt
          · simp [hg, he, ih, Args.eraseLt, subConstraintsArgs, positionVariance]
          · simp [hg, he, Args.eraseLt]
      | some l =>
          by_cases he : a.eraseLt = b.eraseLt
          · simp [hpv l rfl, hg, he, ih, Args.eraseLt, subConstraintsArgs]
          · simp [hpv l rfl, hg, he, Args.eraseLt]

/-! ## function pointers -/

theorem zipFnSubst_cons_cons (rel : RelTy) (jf : Nat) (v : Variance) (a a' : GArg) (as : Args)
    (b b' : GArg) (bs : Args) (st : UState) (hlen : as.toList.length = bs.toList.length) :
    zipFnSubst rel jf v (.cons a (.cons a' as)) (.cons b (.cons b' bs)) st =
      match relateGArg rel jf (v.xform .contra) a b st with
      | .ok st' => zipFnSubst rel jf v (.cons a' as) (.cons b' bs) st'
      | .error e => .error e := by
  simp [zipFnSubst, Args.toList, hlen, zipSlice]
  cases relateGArg rel jf (v.xform .contra) a b st <;> simp

theorem zipFnSubst_rigid {db : UDb} {ar : TyName → Nat} {rel : RelTy} {n : Nat} (hrel : RelOK db ar rel n)
    (jf : Nat) (v : Variance) :
    (as bs : Args) → (st : UState) →
    as.isNil = false → bs.isNil = false →
    as.rigid = true → bs.rigid = true → as.arityOk ar = true → bs.arityOk ar = true → as.depth ≤ n →
    zipFnSubst rel jf v as bs st =
      if as.eraseLt = bs.eraseLt then .ok (st.addG (subConstraintsFn db v as bs))
      else .error .noSolution
  | .nil, _, st, h, _, _, _, _, _, _ => by simp [Args.isNil] at h
  | .cons _ _, .nil, st, _, h, _, _, _, _, _ => by simp [Args.isNil] at h
  | .cons a .nil, .cons b .nil, st, _, _, ha, hb, haa, hab, hd => by
      simp [Args.rigid] at ha hb
      simp [Args.arityOk] at haa hab
      simp [Args.depth] at hd
      simp [zipFnSubst, Args.toList, zipSlice, Args.eraseLt, subConstraintsFn,
        relateGArg_rigid hrel jf v a b st ha hb haa hab hd]
  | .cons a .nil, .cons b (.cons b' bs), st, _, _, _, _, _, _, _ => by
      simp [zipFnSubst, Args.toList, Args.eraseLt]
  | .cons a (.cons a' as), .cons b .nil, st, _, _, _, _, _, _, _ => by
      simp [zipFnSubst, Args.toList, Args.eraseLt]
  | .cons a (.cons a' as), .cons b (.cons b' bs), st, _, _, ha, hb, haa, hab, hd => by
      by_cases hlen : as.toList.length = bs.toList.length
      · have ha' : a.rigid = true ∧ (Args.cons a' as).rigid = true := by
          simpa [Args.rigid] using ha
        have hb' : b.rigid = true ∧ (Args.cons b' bs).rigid = true := by
          simpa [Args.rigid] using hb
        have haa' : a.arityOk ar = true ∧ (Args.cons a' as).arityOk ar = true := by
          simpa [Args.arityOk] using haa
        have hab' : b.arityOk ar = true ∧ (Args.cons b' bs).arityOk ar = true := by
          simpa [Args.arityOk] using hab
        have hd' : a.depth ≤ n ∧ (Args.cons a' as).depth ≤ n := by
          have : max a.depth (Args.cons a' as).depth ≤ n := by simpa [Args.depth] using hd
          omega
        have hg := relateGArg_rigid hrel jf (v.xform .contra) a b st ha'.1 hb'.1 haa'.1 hab'.1 hd'.1
        have ih := fun st' => zipFnSubst_rigid hrel jf v (.cons a' as) (.cons b' bs) st' rfl rfl
          ha'.2 hb'.2 haa'.2 hab'.2 hd'.2
        rw [zipFnSubst_cons_cons _ _ _ _ _ _ _ _ _ _ hlen, hg]
        by_cases he : a.eraseLt = b.eraseLt
        · simp only [he, if_true, ih]
          simp [Args.eraseLt, he, subConstraintsFn]
        · simp [he, Args.eraseLt]
      · have hne : ¬ (Args.cons a (.cons a' as)).eraseLt = (Args.cons b (.cons b' bs)).eraseLt := by
          intro h
          simp [Args.eraseLt] at h
          have h1 := Args.eraseLt_length as
          have h2 := Args.eraseLt_length bs
          rw [h.2.2] at h1
          omega
        simp [zipFnSubst, Args.toList, hlen, hne]

theorem relateFnBinders_rigid {db : UDb} {ar : TyName → Nat} {rel : RelTy} {n : Nat} (hrel : RelOK db ar rel n)
    (jf : Nat) (v : Variance) (as bs : Args) (st : UState)
    (hna : as.isNil = false) (hnb : bs.isNil = false)
    (ha : as.rigid = true) (hb : bs.rigid = true) (haa : as.arityOk ar = true) (hab : bs.arityOk ar = true)
    (hd : as.depth ≤ n) :
    relateFnBinders rel jf v 0 as 0 bs st =
      if as.eraseLt = bs.eraseLt then
        .ok (st.addG (match v with
          | .inv => subConstraintsFn db .contra as bs ++ subConstraintsFn db .co as bs
          | v => subConstraintsFn db v as bs))
      else .error .noSolution := by
  have hz := fun w st' => zipFnSubst_rigid hrel jf w as bs st' hna hnb ha hb haa hab hd
  by_cases he : as.eraseLt = bs.eraseLt <;>
    cases v <;>
    simp [relateFnBinders, instFnUniversally_rigid, instFnExistentially_rigid, ha, hb, hz, he]

/-! ## one level of `relate_ty_ty` -/

theorem relateTyStep_refl (rel : RelTy) (db : UDb) (jf : Nat) (v : Variance) (a : Ty) (st : UState)
    (ha : a.rigid = true) : relateTyStep rel db jf v a a st = .ok st := by
  simp [relateTyStep, tyKindOk_rigid _ _ ha, normalizeTyShallow_rigid _ _ ha]

/-- unfold one level of `relateTyStep` on two rigid types with known head constructors -/
macro "step_simp" h:term : tactic =>
  `(tactic| simp [relateTyStep, Table.tyKindOk, Table.normalizeTyShallow, Table.normalizeTyShallowInner, $h:term,
      Ty.isBoundVar, Ty.asAlias, Ty.isErrorTy, Ty.isFunction, Ty.isPlaceholder, Ty.isDyn,
      relateSameCtor, Ty.eraseLt, subConstraints])

section step
variable {db : UDb} {ar : TyName → Nat} {rel : RelTy} {n : Nat}

theorem relateSameCtor_app (jf : Nat) (v : Variance) (na nb : TyName) (as bs : Args) (st : UState) :
    relateSameCtor rel db jf v (.app na as) (.app nb bs) st =
      if na = nb then zipSubsts rel jf v (declaredVariances db na) 0 as bs st else .error .noSolution := by
  cases na <;> cases nb <;> simp [relateSameCtor, declaredVariances] <;> split <;> simp_all

theorem step_all (hdb : db.arityOk ar) (hrel : RelOK db ar rel n) (jf : Nat) (v : Variance) (a b : Ty) (st : UState)
    (ha : a.rigid = true) (hb : b.rigid = true) (haa : a.arityOk ar = true)
    (hab : b.arityOk ar = true) (hd : a.depth ≤ n + 1) (hne : a ≠ b) :
    relateTyStep rel db jf v a b st =
      if a.eraseLt = b.eraseLt then .ok (st.addG (subConstraints db v a b))
      else .error .noSolution := by
  cases a <;> simp [Ty.rigid] at ha <;> cases b <;> simp [Ty.rigid] at hb <;> step_simp hne
  case app.app na as nb bs =>
    simp only [Ty.arityOk, Bool.and_eq_true, beq_iff_eq, Args.length] at haa hab
    simp only [Ty.depth] at hd
    have := relateSameCtor_app (rel := rel) (db := db) jf v na nb as bs st
    simp only [relateSameCtor] at this
    rw [this]
    by_cases hn : na = nb
    · subst hn
      have hz := zipSubsts_rigid hrel jf v (declaredVariances db na) as bs 0 st (by omega)
        (fun l h => by have := hdb na l h; omega) ha hb haa.2 hab.2 (by omega)
      simp [hz]
    · simp [hn]
  case scalar.scalar => simpa using hne
  case foreign.foreign => simpa using hne
  case placeholder.placeholder => simpa using hne
  case array.array ta ka tb kb =>
    simp only [Ty.arityOk, Bool.and_eq_true] at haa hab
    simp only [Ty.depth] at hd
    have h1 := hrel v ta tb st ha.1 hb.1 haa.1 hab.1 (by omega)
    have h2 := fun st' => relateConst_rigid hrel jf v ka kb st' ha.2 hb.2 haa.2 hab.2 (by omega)
    obtain ⟨tka, vka⟩ := ka
    obtain ⟨tkb, vkb⟩ := kb
    by_cases he : ta.eraseLt = tb.eraseLt
    · simp [h1, h2, he, subConstraints, subConstraintsGArg]
    · simp [h1, he]
  case slice.slice ta tb =>
    simp only [Ty.arityOk] at haa hab
    simp only [Ty.depth] at hd
    exact hrel v ta tb st ha hb haa hab (by omega)
  case raw.raw ma ta mb tb =>
    simp only [Ty.arityOk] at haa hab
    simp only [Ty.depth] at hd
    by_cases hm : ma = mb
    · simp [hm, hrel _ ta tb st ha hb haa hab (by omega)]
    · simp [hm]
  case ref.ref ma la ta mb lb tb =>
    simp only [Ty.arityOk] at haa hab
    simp only [Ty.depth] at hd
    by_cases hm : ma = mb
    · have h1 := relateLifetime_rigid (v.xform .contra) la lb st ha.1 hb.1
      have h2 := fun w st' => hrel w ta tb st' ha.2 hb.2 haa hab (by omega)
      by_cases he : ta.eraseLt = tb.eraseLt
      · simp [hm, h1, h2, he]
      · simp [hm, h1, h2, he]
    · simp [hm]
  case function.function nba sa as nbb sb bs =>
    simp only [Ty.arityOk] at haa hab
    simp only [Ty.depth] at hd
    obtain ⟨⟨hna, hnila⟩, hra⟩ := ha
    obtain ⟨⟨hnb, hnilb⟩, hrb⟩ := hb
    subst hna hnb
    by_cases hs : sa = sb
    · have hf := relateFnBinders_rigid hrel jf v as bs st hnila hnilb hra hrb haa hab (by omega)
      cases v <;> simp [hs, hf]
    · simp [hs]
end step

theorem relateTyStep_rigid {db : UDb} {ar : TyName → Nat} {rel : RelTy} {n : Nat} (hdb : db.arityOk ar)
    (hrel : RelOK db ar rel n) (jf : Nat) : RelOK db ar (relateTyStep rel db jf) (n + 1) := by
  intro v a b st ha hb haa hab hd
  by_cases hne : a = b
  · subst hne
    simp [relateTyStep_refl _ _ _ _ _ _ ha, subConstraints_refl]
  · exact step_all hdb hrel jf v a b st ha hb haa hab hd hne

theorem Ty.depth_pos (a : Ty) : 1 ≤ a.depth := by
  cases a <;> simp [Ty.depth]

theorem relateTy_relOK (db : UDb) (ar : TyName → Nat) (hdb : db.arityOk ar) (jf : Nat) :
    ∀ fuel : Nat, RelOK db ar (relateTy db jf fuel) fuel
  | 0 => by
      intro v a b st _ _ _ _ hd
      have := Ty.depth_pos a
      omega
  | n + 1 => by
      have ih := relateTy_relOK db ar hdb jf n
      have := relateTyStep_rigid hdb ih jf
      intro v a b st ha hb haa hab hd
      simpa [relateTy] using this v a b st ha hb haa hab hd

/-- MAIN LEMMA -/
theorem relateTy_rigid (db : UDb) (ar : TyName → Nat) (hdb : db.arityOk ar) (jf : Nat) :
    ∀ (fuel : Nat) (v : Variance) (a b : Ty) (st : UState),
      a.rigid = true → b.rigid = true → a.arityOk ar = true → b.arityOk ar = true → a.depth ≤ fuel →
      relateTy db jf fuel v a b st =
        if a.eraseLt = b.eraseLt then
          .ok { st with goals := st.goals ++ outlivesGoals (subConstraints db v a b) }
        else .error .noSolution := by
  intro fuel v a b st ha hb haa hab hd
  exact relateTy_relOK db ar hdb jf fuel v a b st ha hb haa hab hd

/-! ## corollaries -/

theorem relateTy_rigid_ok_iff (db : UDb) (ar : TyName → Nat) (hdb : db.arityOk ar) (jf : Nat)
    (fuel : Nat) (v : Variance) (a b : Ty) (st : UState)
    (ha : a.rigid = true) (hb : b.rigid = true) (haa : a.arityOk ar = true) (hab : b.arityOk ar = true)
    (hd : a.depth ≤ fuel) :
    (∃ st', relateTy db jf fuel v a b st = .ok st') ↔ a.eraseLt = b.eraseLt := by
  rw [relateTy_rigid db ar hdb jf fuel v a b st ha hb haa hab hd]
  by_cases he : a.eraseLt = b.eraseLt <;> simp [he]

mutual
  theorem Ty.eraseLt_depth' : (a : Ty) → a.eraseLt.depth = a.depth
    | .app n args => by simp [Ty.eraseLt, Ty.depth, Args.eraseLt_depth' args]
    | .scalar s => by simp [Ty.eraseLt]
    | .str => by simp [Ty.eraseLt]
    | .never => by simp [Ty.eraseLt]
    | .foreign id => by simp [Ty.eraseLt]
    | .error => by simp [Ty.eraseLt]
    | .array t c => by simp [Ty.eraseLt, Ty.depth, Ty.eraseLt_depth' t, Const.eraseLt_depth' c]
    | .slice t => by simp [Ty.eraseLt, Ty.depth, Ty.eraseLt_depth' t]
    | .raw m t => by simp [Ty.eraseLt, Ty.depth, Ty.eraseLt_depth' t]
    | .ref m l t => by simp [Ty.eraseLt, Ty.depth, Ty.eraseLt_depth' t]
    | .placeholder ui idx => by simp [Ty.eraseLt]
    | .dyn kinds bounds l => by simp [Ty.eraseLt]
    | .proj id args => by simp [Ty.eraseLt, Ty.depth, Args.eraseLt_depth' args]
    | .opaque id args => by simp [Ty.eraseLt, Ty.depth, Args.eraseLt_depth' args]
    | .function nb sig args => by simp [Ty.eraseLt, Ty.depth, Args.eraseLt_depth' args]
    | .bound d idx => by simp [Ty.eraseLt]
    | .infer x k => by simp [Ty.eraseLt]
  theorem Const.eraseLt_depth' : (c : Const) → c.eraseLt.depth = c.depth
    | .mk ty cv => by simp [Const.eraseLt, Const.depth, Ty.eraseLt_depth' ty]
  theorem GArg.eraseLt_depth' : (g : GArg) → g.eraseLt.depth = g.depth
    | .ty t => by simp [GArg.eraseLt, GArg.depth, Ty.eraseLt_depth' t]
    | .lt l => by simp [GArg.eraseLt, GArg.depth]
    | .ct c => by simp [GArg.eraseLt, GArg.depth, Const.eraseLt_depth' c]
  theorem Args.eraseLt_depth' : (a : Args) → a.eraseLt.depth = a.depth
    | .nil => by simp [Args.eraseLt]
    | .cons a as => by simp [Args.eraseLt, Args.depth, GArg.eraseLt_depth' a, Args.eraseLt_depth' as]
end

theorem eraseLt_depth {a b : Ty} (h : a.eraseLt = b.eraseLt) : a.depth = b.depth := by
  rw [← Ty.eraseLt_depth' a, ← Ty.eraseLt_depth' b, h]

theorem filter_retain_outlives (t : Table) (l : List (Lifetime × Lifetime)) :
    (outlivesGoals l).filter (retainGoal t) = outlivesGoals l := by
  induction l with
  | nil => rfl
  | cons p ps ih =>
      simp only [outlivesGoals, List.map_cons] at ih ⊢
      simp [List.filter_cons, retainGoal, ih]

#print axioms Chalk.relateTy_rigid
#print axioms Chalk.relateTy_rigid_ok_iff
#print axioms Chalk.eraseLt_depth
#print axioms Chalk.filter_retain_outlives

end Chalk
