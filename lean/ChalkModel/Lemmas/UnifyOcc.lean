/-
  Layer 2: the occurs check and generalization on first-order input refine the table
  (`Table.Le`); the occurs check returns a type with the same image under every solution.
-/
import ChalkModel.Lemmas.UnifyTable

namespace Chalk

theorem UState.withTable_ok (st st' : UState) (r : Res Table) (h : st.withTable r = .ok st') :
    ∃ t, r = .ok t ∧ st' = { st with table := t } := by
  unfold UState.withTable at h
  split at h
  · cases h; exact ⟨_, rfl, rfl⟩
  · rename_i e
    cases e <;> simp [liftRes] at h

theorem liftRes_ok {α} (r : Res α) (a : α) (h : liftRes r = .ok a) : r = .ok a := by
  cases r with
  | ok x => simp [liftRes] at h; rw [h]
  | error e => cases e <;> simp [liftRes] at h

/-! ## occurs check -/

def OccTySpec (ar : TyName → Nat) (f : Ty → UState → URes (Ty × UState)) : Prop :=
  ∀ ty st ty1 st1, st.table.Good ar → ty.good ar st.table.numVars = true → f ty st = .ok (ty1, st1) →
    st1.goals = st.goals ∧ st.table.Le ar st1.table ∧ ty1.good ar st1.table.numVars = true ∧
    ∀ θ, st1.table.Models θ → ty1.applyAsg θ = ty.applyAsg θ

mutual
  theorem occTy_spec (ar : TyName → Nat) (J : OccJumps) (hJ : OccTySpec ar J.jT) (c : OccCtx) (outer : Nat) :
      (ty : Ty) → ∀ st ty1 st1, st.table.Good ar → ty.good ar st.table.numVars = true →
        occTy J c outer ty st = .ok (ty1, st1) →
        st1.goals = st.goals ∧ st.table.Le ar st1.table ∧ ty1.good ar st1.table.numVars = true ∧
        ∀ θ, st1.table.Models θ → ty1.applyAsg θ = ty.applyAsg θ
    | .app n args => by
        intro st ty1 st1 hg hgd h
        simp only [occTy] at h
        split at h
        · rename_i args' st' hargs
          cases h
          simp only [Ty.good, Bool.and_eq_true, beq_iff_eq] at hgd
          obtain ⟨h1, h2, h3, h4, h5⟩ := occArgs_spec ar J hJ c outer args st args' st1 hg hgd.2 hargs
          refine ⟨h1, h2, ?_, ?_⟩
          · simp only [Ty.good, Bool.and_eq_true, beq_iff_eq]; exact ⟨by rw [h4]; exact hgd.1, h3⟩
          · intro θ hm; simp only [Ty.applyAsg]; rw [h5 θ hm]
        · cases h
    | .scalar s => by
        intro st ty1 st1 hg hgd h
        simp only [occTy] at h; cases h
        exact ⟨rfl, Table.Le.refl hg, hgd, fun _ _ => rfl⟩
    | .str => by
        intro st ty1 st1 hg hgd h
        simp only [occTy] at h; cases h
        exact ⟨rfl, Table.Le.refl hg, hgd, fun _ _ => rfl⟩
    | .never => by
        intro st ty1 st1 hg hgd h
        simp only [occTy] at h; cases h
        exact ⟨rfl, Table.Le.refl hg, hgd, fun _ _ => rfl⟩
    | .foreign id => by
        intro st ty1 st1 hg hgd h
        simp only [occTy] at h; cases h
        exact ⟨rfl, Table.Le.refl hg, hgd, fun _ _ => rfl⟩
    | .error => by intro st ty1 st1 hg hgd h; simp [Ty.good] at hgd
    | .array t k => by intro st ty1 st1 hg hgd h; simp [Ty.good] at hgd
    | .slice t => by
        intro st ty1 st1 hg hgd h
        simp only [occTy] at h
        split at h
        · rename_i t' st' ht
          cases h
          simp only [Ty.good] at hgd
          obtain ⟨h1, h2, h3, h5⟩ := occTy_spec ar J hJ c outer t st t' st1 hg hgd ht
          refine ⟨h1, h2, by simpa only [Ty.good] using h3, ?_⟩
          intro θ hm; simp only [Ty.applyAsg]; rw [h5 θ hm]
        · cases h
    | .raw m t => by
        intro st ty1 st1 hg hgd h
        simp only [occTy] at h
        split at h
        · rename_i t' st' ht
          cases h
          simp only [Ty.good] at hgd
          obtain ⟨h1, h2, h3, h5⟩ := occTy_spec ar J hJ c outer t st t' st1 hg hgd ht
          refine ⟨h1, h2, by simpa only [Ty.good] using h3, ?_⟩
          intro θ hm; simp only [Ty.applyAsg]; rw [h5 θ hm]
        · cases h
    | .ref m l t => by intro st ty1 st1 hg hgd h; simp [Ty.good] at hgd
    | .placeholder ui idx => by
        intro st ty1 st1 hg hgd h
        simp only [occTy] at h
        split at h
        · cases h
        · cases h
          exact ⟨rfl, Table.Le.refl hg, hgd, fun _ _ => rfl⟩
    | .dyn kinds bounds l => by intro st ty1 st1 hg hgd h; simp [Ty.good] at hgd
    | .proj id args => by intro st ty1 st1 hg hgd h; simp [Ty.good] at hgd
    | .opaque id args => by intro st ty1 st1 hg hgd h; simp [Ty.good] at hgd
    | .function nb sig args => by intro st ty1 st1 hg hgd h; simp [Ty.good] at hgd
    | .bound db idx => by intro st ty1 st1 hg hgd h; simp [Ty.good] at hgd
    | .infer v k => by
        intro st ty1 st1 hg hgd h
        have hv : v < st.table.numVars := by simpa [Ty.good] using hgd
        simp only [occTy] at h
        split at h
        · rename_i val hpv
          have hp : st.table.probeVar v = some (.ty val) := by simp [Table.probeVar, hpv]
          obtain ⟨T, he, hT⟩ := hg.vals v _ hv hp
          cases he
          obtain ⟨h1, h2, h3, h4⟩ := hJ val st ty1 st1 hg hT h
          refine ⟨h1, h2, h3, ?_⟩
          intro θ hm
          rw [h4 θ hm]; simp only [Ty.applyAsg]
          exact ((h2.models θ hm).2 v val hv hp).symm
        · cases h
        · split at h
          · cases h
          · split at h
            · split at h
              · rename_i st' hw
                cases h
                obtain ⟨t', ht', rfl⟩ := UState.withTable_ok _ _ _ hw
                have hle := st.table.unifyVarValue_unbound_Le v _ t' hg hv ht'
                refine ⟨rfl, hle, ?_, fun _ _ => rfl⟩
                exact Ty.good_mono ar _ _ hle.numVars _ hgd
              · cases h
            · cases h
              exact ⟨rfl, Table.Le.refl hg, hgd, fun _ _ => rfl⟩
  theorem occGArg_spec (ar : TyName → Nat) (J : OccJumps) (hJ : OccTySpec ar J.jT) (c : OccCtx) (outer : Nat) :
      (a : GArg) → ∀ st a1 st1, st.table.Good ar → a.good ar st.table.numVars = true →
        occGArg J c outer a st = .ok (a1, st1) →
        st1.goals = st.goals ∧ st.table.Le ar st1.table ∧ a1.good ar st1.table.numVars = true ∧
        ∀ θ, st1.table.Models θ → a1.applyAsg θ = a.applyAsg θ
    | .ty t => by
        intro st a1 st1 hg hgd h
        simp only [occGArg] at h
        split at h
        · rename_i t' st' ht
          cases h
          simp only [GArg.good] at hgd
          obtain ⟨h1, h2, h3, h5⟩ := occTy_spec ar J hJ c outer t st t' st1 hg hgd ht
          refine ⟨h1, h2, by simpa only [GArg.good] using h3, ?_⟩
          intro θ hm; simp only [GArg.applyAsg]; rw [h5 θ hm]
        · cases h
    | .lt l => by intro st a1 st1 hg hgd h; simp [GArg.good] at hgd
    | .ct k => by intro st a1 st1 hg hgd h; simp [GArg.good] at hgd
  theorem occArgs_spec (ar : TyName → Nat) (J : OccJumps) (hJ : OccTySpec ar J.jT) (c : OccCtx) (outer : Nat) :
      (as : Args) → ∀ st as1 st1, st.table.Good ar → as.good ar st.table.numVars = true →
        occArgs J c outer as st = .ok (as1, st1) →
        st1.goals = st.goals ∧ st.table.Le ar st1.table ∧ as1.good ar st1.table.numVars = true ∧
        as1.length = as.length ∧
        ∀ θ, st1.table.Models θ → as1.applyAsg θ = as.applyAsg θ
    | .nil => by
        intro st as1 st1 hg hgd h
        simp only [occArgs] at h; cases h
        exact ⟨rfl, Table.Le.refl hg, hgd, rfl, fun _ _ => rfl⟩
    | .cons a as => by
        intro st as1 st1 hg hgd h
        simp only [occArgs] at h
        simp only [Args.good, Bool.and_eq_true] at hgd
        split at h
        · rename_i a' st' ha
          obtain ⟨a1, a2, a3, a4⟩ := occGArg_spec ar J hJ c outer a st a' st' hg hgd.1 ha
          split at h
          · rename_i as' st2 has
            cases h
            obtain ⟨b1, b2, b3, b4, b5⟩ := occArgs_spec ar J hJ c outer as st' as' st1 a2.good
              (Args.good_mono ar _ _ a2.numVars _ hgd.2) has
            refine ⟨by rw [b1, a1], a2.trans b2, ?_, ?_, ?_⟩
            · simp only [Args.good, Bool.and_eq_true]
              exact ⟨GArg.good_mono ar _ _ b2.numVars _ a3, b3⟩
            · rw [Args.length_cons, Args.length_cons, b4]
            · intro θ hm
              simp only [Args.applyAsg]
              rw [b5 θ hm, a4 θ (b2.models θ hm)]
          · cases h
        · cases h
end

theorem occJumps_spec (ar : TyName → Nat) (c : OccCtx) : ∀ n, OccTySpec ar (occJumps c n).jT
  | 0 => by intro ty st ty1 st1 _ _ h; simp [occJumps] at h
  | n + 1 => by
      intro ty st ty1 st1 hg hgd h
      exact occTy_spec ar _ (occJumps_spec ar c n) c 0 ty st ty1 st1 hg hgd h

theorem occursCheckTy_spec (ar : TyName → Nat) (jf : Nat) (c : OccCtx) : OccTySpec ar (occursCheckTy jf c) := by
  intro ty st ty1 st1 hg hgd h
  exact occTy_spec ar _ (occJumps_spec ar c jf) c 0 ty st ty1 st1 hg hgd h

/-! ## generalization -/

def GenTySpec (ar : TyName → Nat) (f : Ty → Table → URes (Ty × Table)) : Prop :=
  ∀ ty t gen t2, t.Good ar → ty.good ar t.numVars = true → f ty t = .ok (gen, t2) →
    t.Le ar t2 ∧ gen.good ar t2.numVars = true

mutual
  theorem generalizeTy_spec (ar : TyName → Nat) (jG : Variance → Ty → Table → URes (Ty × Table))
      (hJ : ∀ v, GenTySpec ar (jG v)) (db : UDb) (ui : Nat) (v : Variance) :
      (ty : Ty) → ∀ t gen t2, t.Good ar → ty.good ar t.numVars = true →
        generalizeTy jG db ui v ty t = .ok (gen, t2) →
        t.Le ar t2 ∧ gen.good ar t2.numVars = true
    | .app n args => by
        intro t gen t2 hg hgd h
        simp only [generalizeTy] at h
        split at h
        · rename_i args' t' hargs
          cases h
          simp only [Ty.good, Bool.and_eq_true, beq_iff_eq] at hgd
          obtain ⟨h1, h2, h3⟩ := generalizeArgs_spec ar jG hJ db ui _ 0 args t args' t2 hg hgd.2 hargs
          refine ⟨h1, ?_⟩
          simp only [Ty.good, Bool.and_eq_true, beq_iff_eq]; exact ⟨by rw [h3]; exact hgd.1, h2⟩
        · cases h
    | .scalar s => by
        intro t gen t2 hg hgd h
        simp only [generalizeTy] at h; cases h; exact ⟨Table.Le.refl hg, hgd⟩
    | .str => by
        intro t gen t2 hg hgd h
        simp only [generalizeTy] at h; cases h; exact ⟨Table.Le.refl hg, hgd⟩
    | .never => by
        intro t gen t2 hg hgd h
        simp only [generalizeTy] at h; cases h; exact ⟨Table.Le.refl hg, hgd⟩
    | .foreign id => by
        intro t gen t2 hg hgd h
        simp only [generalizeTy] at h; cases h; exact ⟨Table.Le.refl hg, hgd⟩
    | .error => by intro t gen t2 hg hgd h; simp [Ty.good] at hgd
    | .array ty k => by intro t gen t2 hg hgd h; simp [Ty.good] at hgd
    | .slice ty => by
        intro t gen t2 hg hgd h
        simp only [generalizeTy] at h
        split at h
        · rename_i ty' t' hty
          cases h
          simp only [Ty.good] at hgd
          obtain ⟨h1, h2⟩ := generalizeTy_spec ar jG hJ db ui v ty t ty' t2 hg hgd hty
          exact ⟨h1, by simpa only [Ty.good] using h2⟩
        · cases h
    | .raw m ty => by
        intro t gen t2 hg hgd h
        simp only [generalizeTy] at h
        split at h
        · rename_i ty' t' hty
          cases h
          simp only [Ty.good] at hgd
          obtain ⟨h1, h2⟩ := generalizeTy_spec ar jG hJ db ui _ ty t ty' t2 hg hgd hty
          exact ⟨h1, by simpa only [Ty.good] using h2⟩
        · cases h
    | .ref m l ty => by intro t gen t2 hg hgd h; simp [Ty.good] at hgd
    | .placeholder u idx => by
        intro t gen t2 hg hgd h
        simp only [generalizeTy] at h; cases h; exact ⟨Table.Le.refl hg, hgd⟩
    | .dyn kinds bounds l => by intro t gen t2 hg hgd h; simp [Ty.good] at hgd
    | .proj id args => by intro t gen t2 hg hgd h; simp [Ty.good] at hgd
    | .opaque id args => by intro t gen t2 hg hgd h; simp [Ty.good] at hgd
    | .function nb sig args => by intro t gen t2 hg hgd h; simp [Ty.good] at hgd
    | .bound d idx => by intro t gen t2 hg hgd h; simp [Ty.good] at hgd
    | .infer x k => by
        intro t gen t2 hg hgd h
        simp only [generalizeTy] at h
        cases k with
        | integer => simp only at h; cases h; exact ⟨Table.Le.refl hg, hgd⟩
        | float => simp only at h; cases h; exact ⟨Table.Le.refl hg, hgd⟩
        | general =>
          simp only at h
          split at h
          · rename_i ty hn
            have hs := t.normalize_spec hg _ hgd
            rw [hn] at hs
            exact hJ v ty t gen t2 hg hs.1 h
          · split at h
            · cases h; exact ⟨Table.Le.refl hg, hgd⟩
            · cases h
              refine ⟨t.newVariable_Le ui hg, ?_⟩
              simp [Ty.good, Table.newVariable_numVars, Table.newVariable_snd]
  theorem generalizeGArg_spec (ar : TyName → Nat) (jG : Variance → Ty → Table → URes (Ty × Table))
      (hJ : ∀ v, GenTySpec ar (jG v)) (db : UDb) (ui : Nat) (v : Variance) :
      (a : GArg) → ∀ t a1 t2, t.Good ar → a.good ar t.numVars = true →
        generalizeGArg jG db ui v a t = .ok (a1, t2) →
        t.Le ar t2 ∧ a1.good ar t2.numVars = true
    | .ty ty => by
        intro t a1 t2 hg hgd h
        simp only [generalizeGArg] at h
        split at h
        · rename_i ty' t' hty
          cases h
          simp only [GArg.good] at hgd
          obtain ⟨h1, h2⟩ := generalizeTy_spec ar jG hJ db ui v ty t ty' t2 hg hgd hty
          exact ⟨h1, by simpa only [GArg.good] using h2⟩
        · cases h
    | .lt l => by intro t a1 t2 hg hgd h; simp [GArg.good] at hgd
    | .ct k => by intro t a1 t2 hg hgd h; simp [GArg.good] at hgd
  theorem generalizeArgs_spec (ar : TyName → Nat) (jG : Variance → Ty → Table → URes (Ty × Table))
      (hJ : ∀ v, GenTySpec ar (jG v)) (db : UDb) (ui : Nat) (gv : GenVariances) (i : Nat) :
      (as : Args) → ∀ t as1 t2, t.Good ar → as.good ar t.numVars = true →
        generalizeArgs jG db ui gv i as t = .ok (as1, t2) →
        t.Le ar t2 ∧ as1.good ar t2.numVars = true ∧ as1.length = as.length
    | .nil => by
        intro t as1 t2 hg hgd h
        simp only [generalizeArgs] at h; cases h
        exact ⟨Table.Le.refl hg, hgd, rfl⟩
    | .cons a as => by
        intro t as1 t2 hg hgd h
        simp only [generalizeArgs] at h
        simp only [Args.good, Bool.and_eq_true] at hgd
        split at h
        · cases h
        · rename_i w hw
          split at h
          · rename_i a' t1 ha
            obtain ⟨a1, a2⟩ := generalizeGArg_spec ar jG hJ db ui w a t a' t1 hg hgd.1 ha
            split at h
            · rename_i as' t2' has
              cases h
              obtain ⟨b1, b2, b3⟩ := generalizeArgs_spec ar jG hJ db ui gv (i + 1) as t1 as' t2 a1.good
                (Args.good_mono ar _ _ a1.numVars _ hgd.2) has
              refine ⟨a1.trans b1, ?_, ?_⟩
              · simp only [Args.good, Bool.and_eq_true]
                exact ⟨GArg.good_mono ar _ _ b1.numVars _ a2, b2⟩
              · rw [Args.length_cons, Args.length_cons, b3]
            · cases h
          · cases h
end

theorem generalizeJump_spec (ar : TyName → Nat) (db : UDb) (ui : Nat) :
    ∀ n v, GenTySpec ar (generalizeJump db ui n v)
  | 0 => by intro v ty t gen t2 _ _ h; simp [generalizeJump] at h
  | n + 1 => by
      intro v ty t gen t2 hg hgd h
      exact generalizeTy_spec ar _ (generalizeJump_spec ar db ui n) db ui v ty t gen t2 hg hgd h

theorem generalizeTyTop_spec (ar : TyName → Nat) (db : UDb) (jf ui : Nat) (v : Variance) :
    GenTySpec ar (generalizeTyTop db jf ui v) := by
  intro ty t gen t2 hg hgd h
  exact generalizeTy_spec ar _ (generalizeJump_spec ar db ui jf) db ui v ty t gen t2 hg hgd h

end Chalk
