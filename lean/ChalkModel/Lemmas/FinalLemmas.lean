import ChalkModel.Lemmas.SFoldLemmas

/-!
  The value computed by a stateful fold is determined by its FINAL state: if every leaf handler is
  "stable" — what it returned keeps being what the stateless folder `g s''` returns for that leaf,
  for every later state `s''` — then the whole result is `fold (g s'')` of the input for every state
  `s''` at or after the final one.
-/
namespace Chalk

section Final
variable {σ : Type}

def FinalRes {α : Type} (le : σ → σ → Prop) (P : σ → α → Prop) (s : σ) (r : Res (α × σ)) : Prop :=
  ∀ a s', r = .ok (a, s') → le s s' ∧ ∀ s'', le s' s'' → P s'' a

theorem FinalRes.pure {α : Type} {le : σ → σ → Prop} {P : σ → α → Prop} {s s1 : σ} {a : α}
    (h : le s s1) (hp : ∀ s'', le s1 s'' → P s'' a) : FinalRes le P s (.ok (a, s1)) := by
  intro a' s' he; cases he; exact ⟨h, hp⟩

theorem FinalRes.bind {α β : Type} {le : σ → σ → Prop} (trans : ∀ a b c, le a b → le b c → le a c)
    {P1 : σ → α → Prop} {P2 : σ → β → Prop} {s : σ}
    {x : Res (α × σ)} {k : α → σ → Res (β × σ)} (hx : FinalRes le P1 s x)
    (hk : ∀ a s1, le s s1 → (∀ s'', le s1 s'' → P1 s'' a) → FinalRes le P2 s1 (k a s1)) :
    FinalRes le P2 s (bindS x k) := by
  intro r s' h
  obtain ⟨a, s1, h1, h2⟩ := bindS_eq_ok.mp h
  obtain ⟨hb, hc⟩ := hx a s1 h1
  obtain ⟨hb', hc'⟩ := hk a s1 hb hc r s' h2
  exact ⟨trans _ _ _ hb hb', hc'⟩

/-- stability of the leaf handlers of `f` with respect to the family of stateless folders `g` -/
structure FinalHandlers (le : σ → σ → Prop) (g : σ → Folder) (f : SFolder σ) : Prop where
  refl : ∀ s, le s s
  trans : ∀ a b c, le a b → le b c → le a c
  freeVarTy : ∀ db idx o s,
    FinalRes le (fun s'' a => foldTy (g s'') o (.bound (db + o) idx) = .ok a) s (f.freeVarTy db idx o s)
  freeVarLt : ∀ db idx o s,
    FinalRes le (fun s'' a => foldLifetime (g s'') o (.bound (db + o) idx) = .ok a) s (f.freeVarLt db idx o s)
  freeVarConst : ∀ ty db idx o s,
    FinalRes le (fun s'' a => foldConst (g s'') o (.mk ty (.bound (db + o) idx)) = .ok a) s (f.freeVarConst ty db idx o s)
  inferTy : ∀ v k o s, FinalRes le (fun s'' a => foldTy (g s'') o (.infer v k) = .ok a) s (f.inferTy v k o s)
  inferLt : ∀ v o s, FinalRes le (fun s'' a => foldLifetime (g s'') o (.infer v) = .ok a) s (f.inferLt v o s)
  inferConst : ∀ ty v o s,
    FinalRes le (fun s'' a => foldConst (g s'') o (.mk ty (.infer v)) = .ok a) s (f.inferConst ty v o s)
  phTy : ∀ ui idx o s, FinalRes le (fun s'' a => foldTy (g s'') o (.placeholder ui idx) = .ok a) s (f.phTy ui idx o s)
  phLt : ∀ ui idx o s, FinalRes le (fun s'' a => foldLifetime (g s'') o (.placeholder ui idx) = .ok a) s (f.phLt ui idx o s)
  /-- const placeholders when the method receives the type unfolded -/
  phConstN : f.foldsPhConstTy = false → ∀ ty ui idx o s,
    FinalRes le (fun s'' a => foldConst (g s'') o (.mk ty (.placeholder ui idx)) = .ok a) s (f.phConst ty ui idx o s)
  /-- ... and when it is the trait default and receives the folded type `ty'` -/
  phConstF : f.foldsPhConstTy = true → ∀ ty ty' ui idx o s,
    FinalRes le (fun s'' a => foldTy (g s'') o ty = .ok ty' →
      foldConst (g s'') o (.mk ty (.placeholder ui idx)) = .ok a) s (f.phConst ty' ui idx o s)
  noFreeVarFold : f.foldsFreeVarConstTy = false
  noInferFold : f.foldsInferConstTy = false

variable {le : σ → σ → Prop} {g : σ → Folder} {f : SFolder σ}

theorem sfoldLifetime_final (H : FinalHandlers le g f) (o : Nat) (l : Lifetime) (s : σ) :
    FinalRes le (fun s'' a => foldLifetime (g s'') o l = .ok a) s (sfoldLifetime f o l s) := by
  cases l with
  | bound db idx =>
    simp only [sfoldLifetime]
    split
    · rename_i hd
      have := H.freeVarLt (db - o) idx o s
      rwa [Nat.sub_add_cancel hd] at this
    · rename_i hd
      exact FinalRes.pure (H.refl _) fun s'' _ => by simp [foldLifetime, hd]
  | infer v => exact H.inferLt _ _ _
  | placeholder ui idx => exact H.phLt _ _ _ _
  | static => exact FinalRes.pure (H.refl _) fun s'' _ => by simp [foldLifetime]
  | erased => exact FinalRes.pure (H.refl _) fun s'' _ => by simp [foldLifetime]
  | error => exact FinalRes.pure (H.refl _) fun s'' _ => by simp [foldLifetime]

mutual
  theorem sfoldTy_final (H : FinalHandlers le g f) (o : Nat) : (t : Ty) → (s : σ) →
      FinalRes le (fun s'' a => foldTy (g s'') o t = .ok a) s (sfoldTy f o t s)
    | .app n args, s => by
        simp only [sfoldTy]
        exact FinalRes.bind H.trans (sfoldArgs_final H o args s) fun a s1 _ ha =>
          FinalRes.pure (H.refl _) fun s'' hs => by simp [foldTy, ha s'' hs]
    | .scalar sc, s => FinalRes.pure (H.refl _) fun s'' _ => by simp [foldTy]
    | .str, s => FinalRes.pure (H.refl _) fun s'' _ => by simp [foldTy]
    | .never, s => FinalRes.pure (H.refl _) fun s'' _ => by simp [foldTy]
    | .foreign id, s => FinalRes.pure (H.refl _) fun s'' _ => by simp [foldTy]
    | .error, s => FinalRes.pure (H.refl _) fun s'' _ => by simp [foldTy]
    | .array t c, s => by
        simp only [sfoldTy]
        exact FinalRes.bind H.trans (sfoldTy_final H o t s) fun a s1 _ ha =>
          FinalRes.bind H.trans (sfoldConst_final H o c s1) fun b s2 h2 hb =>
            FinalRes.pure (H.refl _) fun s'' hs => by
              simp [foldTy, ha s'' (H.trans _ _ _ h2 hs), hb s'' hs]
    | .slice t, s => by
        simp only [sfoldTy]
        exact FinalRes.bind H.trans (sfoldTy_final H o t s) fun a s1 _ ha =>
          FinalRes.pure (H.refl _) fun s'' hs => by simp [foldTy, ha s'' hs]
    | .raw m t, s => by
        simp only [sfoldTy]
        exact FinalRes.bind H.trans (sfoldTy_final H o t s) fun a s1 _ ha =>
          FinalRes.pure (H.refl _) fun s'' hs => by simp [foldTy, ha s'' hs]
    | .ref m l t, s => by
        simp only [sfoldTy]
        exact FinalRes.bind H.trans (sfoldLifetime_final H o l s) fun a s1 _ ha =>
          FinalRes.bind H.trans (sfoldTy_final H o t s1) fun b s2 h2 hb =>
            FinalRes.pure (H.refl _) fun s'' hs => by
              simp [foldTy, ha s'' (H.trans _ _ _ h2 hs), hb s'' hs]
    | .placeholder ui idx, s => H.phTy _ _ _ _
    | .dyn kinds bounds l, s => by
        simp only [sfoldTy]
        exact FinalRes.bind H.trans (sfoldQWCs_final H (o + 1) bounds s) fun a s1 _ ha =>
          FinalRes.bind H.trans (sfoldLifetime_final H o l s1) fun b s2 h2 hb =>
            FinalRes.pure (H.refl _) fun s'' hs => by
              simp [foldTy, ha s'' (H.trans _ _ _ h2 hs), hb s'' hs]
    | .proj id args, s => by
        simp only [sfoldTy]
        exact FinalRes.bind H.trans (sfoldArgs_final H o args s) fun a s1 _ ha =>
          FinalRes.pure (H.refl _) fun s'' hs => by simp [foldTy, ha s'' hs]
    | .opaque id args, s => by
        simp only [sfoldTy]
        exact FinalRes.bind H.trans (sfoldArgs_final H o args s) fun a s1 _ ha =>
          FinalRes.pure (H.refl _) fun s'' hs => by simp [foldTy, ha s'' hs]
    | .function nb sig args, s => by
        simp only [sfoldTy]
        exact FinalRes.bind H.trans (sfoldArgs_final H (o + 1) args s) fun a s1 _ ha =>
          FinalRes.pure (H.refl _) fun s'' hs => by simp [foldTy, ha s'' hs]
    | .bound db idx, s => by
        simp only [sfoldTy]
        split
        · rename_i hd
          have := H.freeVarTy (db - o) idx o s
          rwa [Nat.sub_add_cancel hd] at this
        · rename_i hd
          exact FinalRes.pure (H.refl _) fun s'' _ => by simp [foldTy, hd]
    | .infer v k, s => H.inferTy _ _ _ _
  theorem sfoldConst_final (H : FinalHandlers le g f) (o : Nat) : (c : Const) → (s : σ) →
      FinalRes le (fun s'' a => foldConst (g s'') o c = .ok a) s (sfoldConst f o c s)
    | .mk ty (.bound db idx), s => by
        simp only [sfoldConst, H.noFreeVarFold]
        split
        · rename_i hd
          have := H.freeVarConst ty (db - o) idx o s
          rw [Nat.sub_add_cancel hd] at this
          simpa using this
        · rename_i hd
          exact FinalRes.pure (H.refl _) fun s'' _ => by simp [foldConst, hd]
    | .mk ty (.infer v), s => by
        simp only [sfoldConst, H.noInferFold]
        simpa using H.inferConst ty v o s
    | .mk ty (.placeholder ui idx), s => by
        simp only [sfoldConst]
        cases hflag : f.foldsPhConstTy with
        | false => simpa using H.phConstN hflag ty ui idx o s
        | true =>
          simp only [if_true]
          exact FinalRes.bind H.trans (sfoldTy_final H o ty s) fun ty' s1 _ ha => by
            intro a s' he
            obtain ⟨h1, h2⟩ := H.phConstF hflag ty ty' ui idx o s1 a s' he
            exact ⟨h1, fun s'' hs => h2 s'' hs (ha s'' (H.trans _ _ _ h1 hs))⟩
    | .mk ty (.concrete k), s => by
        simp only [sfoldConst]
        exact FinalRes.bind H.trans (sfoldTy_final H o ty s) fun a s1 _ ha =>
          FinalRes.pure (H.refl _) fun s'' hs => by simp [foldConst, ha s'' hs]
  theorem sfoldGArg_final (H : FinalHandlers le g f) (o : Nat) : (x : GArg) → (s : σ) →
      FinalRes le (fun s'' a => foldGArg (g s'') o x = .ok a) s (sfoldGArg f o x s)
    | .ty t, s => by
        simp only [sfoldGArg]
        exact FinalRes.bind H.trans (sfoldTy_final H o t s) fun a s1 _ ha =>
          FinalRes.pure (H.refl _) fun s'' hs => by simp [foldGArg, ha s'' hs]
    | .lt l, s => by
        simp only [sfoldGArg]
        exact FinalRes.bind H.trans (sfoldLifetime_final H o l s) fun a s1 _ ha =>
          FinalRes.pure (H.refl _) fun s'' hs => by simp [foldGArg, ha s'' hs]
    | .ct c, s => by
        simp only [sfoldGArg]
        exact FinalRes.bind H.trans (sfoldConst_final H o c s) fun a s1 _ ha =>
          FinalRes.pure (H.refl _) fun s'' hs => by simp [foldGArg, ha s'' hs]
  theorem sfoldArgs_final (H : FinalHandlers le g f) (o : Nat) : (as : Args) → (s : σ) →
      FinalRes le (fun s'' a => foldArgs (g s'') o as = .ok a) s (sfoldArgs f o as s)
    | .nil, s => FinalRes.pure (H.refl _) fun s'' _ => by simp [foldArgs]
    | .cons x as, s => by
        simp only [sfoldArgs]
        exact FinalRes.bind H.trans (sfoldGArg_final H o x s) fun a s1 _ ha =>
          FinalRes.bind H.trans (sfoldArgs_final H o as s1) fun b s2 h2 hb =>
            FinalRes.pure (H.refl _) fun s'' hs => by
              simp [foldArgs, ha s'' (H.trans _ _ _ h2 hs), hb s'' hs]
  theorem sfoldWC_final (H : FinalHandlers le g f) (o : Nat) : (w : WC) → (s : σ) →
      FinalRes le (fun s'' a => foldWC (g s'') o w = .ok a) s (sfoldWC f o w s)
    | .implemented tr args, s => by
        simp only [sfoldWC]
        exact FinalRes.bind H.trans (sfoldArgs_final H o args s) fun a s1 _ ha =>
          FinalRes.pure (H.refl _) fun s'' hs => by simp [foldWC, ha s'' hs]
    | .aliasEqProj id args ty, s => by
        simp only [sfoldWC]
        exact FinalRes.bind H.trans (sfoldArgs_final H o args s) fun a s1 _ ha =>
          FinalRes.bind H.trans (sfoldTy_final H o ty s1) fun b s2 h2 hb =>
            FinalRes.pure (H.refl _) fun s'' hs => by
              simp [foldWC, ha s'' (H.trans _ _ _ h2 hs), hb s'' hs]
    | .aliasEqOpaque id args ty, s => by
        simp only [sfoldWC]
        exact FinalRes.bind H.trans (sfoldArgs_final H o args s) fun a s1 _ ha =>
          FinalRes.bind H.trans (sfoldTy_final H o ty s1) fun b s2 h2 hb =>
            FinalRes.pure (H.refl _) fun s'' hs => by
              simp [foldWC, ha s'' (H.trans _ _ _ h2 hs), hb s'' hs]
    | .ltOutlives x y, s => by
        simp only [sfoldWC]
        exact FinalRes.bind H.trans (sfoldLifetime_final H o x s) fun a s1 _ ha =>
          FinalRes.bind H.trans (sfoldLifetime_final H o y s1) fun b s2 h2 hb =>
            FinalRes.pure (H.refl _) fun s'' hs => by
              simp [foldWC, ha s'' (H.trans _ _ _ h2 hs), hb s'' hs]
    | .tyOutlives t l, s => by
        simp only [sfoldWC]
        exact FinalRes.bind H.trans (sfoldTy_final H o t s) fun a s1 _ ha =>
          FinalRes.bind H.trans (sfoldLifetime_final H o l s1) fun b s2 h2 hb =>
            FinalRes.pure (H.refl _) fun s'' hs => by
              simp [foldWC, ha s'' (H.trans _ _ _ h2 hs), hb s'' hs]
  theorem sfoldQWC_final (H : FinalHandlers le g f) (o : Nat) : (q : QWC) → (s : σ) →
      FinalRes le (fun s'' a => foldQWC (g s'') o q = .ok a) s (sfoldQWC f o q s)
    | .mk kinds wc, s => by
        simp only [sfoldQWC]
        exact FinalRes.bind H.trans (sfoldWC_final H (o + 1) wc s) fun a s1 _ ha =>
          FinalRes.pure (H.refl _) fun s'' hs => by simp [foldQWC, ha s'' hs]
  theorem sfoldQWCs_final (H : FinalHandlers le g f) (o : Nat) : (qs : QWCs) → (s : σ) →
      FinalRes le (fun s'' a => foldQWCs (g s'') o qs = .ok a) s (sfoldQWCs f o qs s)
    | .nil, s => FinalRes.pure (H.refl _) fun s'' _ => by simp [foldQWCs]
    | .cons q qs, s => by
        simp only [sfoldQWCs]
        exact FinalRes.bind H.trans (sfoldQWC_final H o q s) fun a s1 _ ha =>
          FinalRes.bind H.trans (sfoldQWCs_final H o qs s1) fun b s2 h2 hb =>
            FinalRes.pure (H.refl _) fun s'' hs => by
              simp [foldQWCs, ha s'' (H.trans _ _ _ h2 hs), hb s'' hs]
end

end Final

end Chalk
