/-
  Helpers for `Props/C02gen.lean` (the translation of `forall<T> { G }` by a fresh opaque constant):
  a replacement of constants that is the identity outside the set `N` fixes everything that avoids
  `N` (terms, atoms, hypothesis lists).  Builds on `Lemmas/GenericLemmas.lean`.
-/
import ChalkModel.Lemmas.GenericLemmas

namespace Chalk.Sem

mutual
  theorem Tm.repl_of_avoids {N : String → Prop} {ρ : String → Option Tm} (hρ : ∀ c, ¬ N c → ρ c = none) :
      (t : Tm) → t.Avoids N → t.repl ρ = t
    | .var _, _ => by simp [Tm.repl]
    | .app c args, h => by
        simp only [Tm.Avoids] at h
        rw [Tm.repl_app_of_none (hρ c h.1), Tms.repl_of_avoids hρ args h.2]
  theorem Tms.repl_of_avoids {N : String → Prop} {ρ : String → Option Tm} (hρ : ∀ c, ¬ N c → ρ c = none) :
      (ts : Tms) → ts.Avoids N → ts.repl ρ = ts
    | .nil, _ => by simp [Tms.repl]
    | .cons t ts, h => by
        simp only [Tms.Avoids] at h
        simp only [Tms.repl]
        rw [Tm.repl_of_avoids hρ t h.1, Tms.repl_of_avoids hρ ts h.2]
end

theorem Atom.repl_of_avoids {N : String → Prop} {ρ : String → Option Tm} (hρ : ∀ c, ¬ N c → ρ c = none)
    (a : Atom) (h : a.Avoids N) : a.repl ρ = a := by
  simp only [Atom.repl]
  rw [Tms.repl_of_avoids hρ a.args h]

/-- hypotheses that avoid the replaced symbols are fixed by the replacement -/
theorem map_repl_of_avoids {N : String → Prop} {ρ : String → Option Tm} (hρ : ∀ c, ¬ N c → ρ c = none)
    (Γ : List Atom) (h : ∀ a ∈ Γ, a.Avoids N) : Γ.map (Atom.repl ρ) = Γ := by
  induction Γ with
  | nil => rfl
  | cons a Γ ih =>
      simp only [List.map_cons]
      rw [Atom.repl_of_avoids hρ a (h a (List.mem_cons_self ..)),
        ih (fun b hb => h b (List.mem_cons_of_mem _ hb))]

/-- The theorem on constants with hypotheses that avoid the replaced symbols: the hypotheses stay. -/
theorem GHolds.repl_fixed {N : String → Prop} {ρ : String → Option Tm} (hρ : ∀ c, ¬ N c → ρ c = none)
    {P : Program} (hP : P.Avoids N) {Γ : List Atom} (hΓ : ∀ a ∈ Γ, a.Avoids N) {g : Goal} (hg : g.Avoids N)
    (hpos : g.Positive) (θ : Nat → Tm) (h : GHolds P Γ (g.inst θ)) :
    GHolds P Γ (g.inst (fun i => (θ i).repl ρ)) := by
  have h2 := GHolds.repl hρ hP _ (Goal.positive_inst θ g hpos) Γ h
  rw [map_repl_of_avoids hρ Γ hΓ, Goal.repl_inst hρ θ g hg] at h2
  exact h2

/-- executable: every hypothesis' symbols satisfy `p` -/
def hypsAllSyms (p : String → Bool) (Γ : List Atom) : Bool := Γ.all (Atom.allSyms p)

theorem hyps_avoid_of_allSyms {N : String → Prop} {p : String → Bool} (hp : ∀ c, p c = true → ¬ N c)
    (Γ : List Atom) (h : hypsAllSyms p Γ = true) : ∀ a ∈ Γ, a.Avoids N := by
  simp only [hypsAllSyms, List.all_eq_true] at h
  exact fun a ha => Atom.avoids_of_allSyms hp a (h a ha)

end Chalk.Sem
