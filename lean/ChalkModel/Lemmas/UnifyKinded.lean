/-
  Layer for the acyclicity proof: the kind discipline `Table.Kinded`, table extension `Table.Ext`,
  preservation of `Kinded` / `Ranked` by the table steps, and the strengthened specifications of
  the occurs check ("every variable of the result is unbound and outside the class of the
  variable being bound") and of generalization ("variables of the result are variables of the
  input or fresh").
-/
import ChalkModel.Lemmas.UnifyCanon

namespace Chalk

/-! ## the kind discipline -/

def Ty.isInfer : Ty → Bool
  | .infer _ _ => true
  | _ => false

/- every occurrence `.infer v k` carries the kind `κ v` -/
mutual
  def Ty.kinded (κ : Nat → TyVarKind) : Ty → Bool
    | .app _ args => args.kinded κ
    | .slice t => t.kinded κ
    | .raw _ t => t.kinded κ
    | .infer v k => decide (k = κ v)
    | _ => true
  def GArg.kinded (κ : Nat → TyVarKind) : GArg → Bool
    | .ty t => t.kinded κ
    | _ => true
  def Args.kinded (κ : Nat → TyVarKind) : Args → Bool
    | .nil => true
    | .cons a as => a.kinded κ && as.kinded κ
end

/-- The table is well-kinded for the kind assignment `κ`: unallocated variables are general,
    stored types annotate every variable with its kind, classes are kind-uniform, and a variable
    is bound to a variable type only in the form "general variable := integer/float variable"
    (what `relate_ty_ty` does: integer/float variables are bound to scalars only). -/
structure Table.Kinded (κ : Nat → TyVarKind) (t : Table) : Prop where
  fresh : ∀ v, t.numVars ≤ v → κ v = .general
  occ : ∀ v ty, v < t.numVars → t.probeVar v = some (.ty ty) → ty.kinded κ = true
  cls : ∀ v, v < t.numVars → κ (t.find v) = κ v
  varval : ∀ v w k, v < t.numVars → t.probeVar v = some (.ty (.infer w k)) →
    κ v = .general ∧ k ≠ .general

/-! ## extension: old variables untouched, new variables unbound in new classes -/

structure Table.Ext (t t' : Table) : Prop where
  numVars : t.numVars ≤ t'.numVars
  find : ∀ v, v < t.numVars → t'.find v = t.find v
  probe : ∀ v, v < t.numVars → t'.probeVar v = t.probeVar v
  fresh : ∀ v, t.numVars ≤ v → v < t'.numVars → t'.probeVar v = none ∧ t.numVars ≤ t'.find v

theorem Table.Ext.refl (t : Table) : t.Ext t :=
  ⟨Nat.le_refl _, fun _ _ => rfl, fun _ _ => rfl, fun _ h1 h2 => absurd h2 (Nat.not_lt.mpr h1)⟩

theorem Table.Ext.trans {t1 t2 t3 : Table} (h12 : t1.Ext t2) (h23 : t2.Ext t3) : t1.Ext t3 := by
  refine ⟨Nat.le_trans h12.numVars h23.numVars, ?_, ?_, ?_⟩
  · intro v hv
    rw [h23.find v (Nat.lt_of_lt_of_le hv h12.numVars), h12.find v hv]
  · intro v hv
    rw [h23.probe v (Nat.lt_of_lt_of_le hv h12.numVars), h12.probe v hv]
  · intro v h1 h3
    by_cases h2 : v < t2.numVars
    · rw [h23.probe v h2, h23.find v h2]; exact h12.fresh v h1 h2
    · have := h23.fresh v (Nat.le_of_not_lt h2) h3
      exact ⟨this.1, Nat.le_trans h12.numVars this.2⟩

theorem Table.newVariable_Ext (t : Table) (ui : Nat) (hwf : t.WF) : t.Ext (t.newVariable ui).1 := by
  refine ⟨by rw [t.newVariable_numVars]; omega, t.newVariable_find_old ui hwf,
    t.newVariable_probeVar_old ui hwf, ?_⟩
  intro v h1 h2
  rw [t.newVariable_numVars] at h2
  have : v = t.numVars := by omega
  subst this
  rw [t.newVariable_probeVar_new ui hwf, t.newVariable_find_new]
  exact ⟨rfl, Nat.le_refl _⟩

theorem Table.unifyVarValue_unbound_Ext (t : Table) (a u : Nat) (t' : Table) (hwf : t.WF)
    (h : t.unifyVarValue a (.unbound u) = .ok t') : t.Ext t' := by
  obtain ⟨z, hz, rfl⟩ := t.unifyVarValue_cases a _ t' h
  refine ⟨Nat.le_refl _, fun v _ => t.setValue_find _ _ v, ?_, fun v h1 h2 => absurd h2 (Nat.not_lt.mpr h1)⟩
  intro v hv
  rw [t.setValue_probeVar hwf _ _ v hv]
  split
  · rename_i hf
    rw [Table.probeVar_eq t v, hf]
    generalize t.value.getD (t.find a) (.unbound 0) = x at hz
    cases x <;> simp [unifyValues] at hz <;> subst hz <;> rfl
  · rfl

theorem Table.Ext.kinded {κ : Nat → TyVarKind} {t t' : Table} (h : t.Ext t')
    (hk : t.Kinded κ) : t'.Kinded κ := by
  refine ⟨fun v hv => hk.fresh v (Nat.le_trans h.numVars hv), ?_, ?_, ?_⟩
  · intro v ty hv hp
    by_cases hlt : v < t.numVars
    · rw [h.probe v hlt] at hp; exact hk.occ v ty hlt hp
    · rw [(h.fresh v (Nat.le_of_not_lt hlt) hv).1] at hp; cases hp
  · intro v hv
    by_cases hlt : v < t.numVars
    · rw [h.find v hlt]; exact hk.cls v hlt
    · rw [hk.fresh _ (h.fresh v (Nat.le_of_not_lt hlt) hv).2, hk.fresh v (Nat.le_of_not_lt hlt)]
  · intro v w k hv hp
    by_cases hlt : v < t.numVars
    · rw [h.probe v hlt] at hp; exact hk.varval v w k hlt hp
    · rw [(h.fresh v (Nat.le_of_not_lt hlt) hv).1] at hp; cases hp

theorem Table.Ext.ranked {ar : TyName → Nat} {t t' : Table} (h : t.Ext t') (hg : t.goodValues ar)
    (hr : t.Ranked) : t'.Ranked := by
  obtain ⟨N, ρ, hN, hr⟩ := hr
  refine ⟨N, ρ, hN, ?_⟩
  intro v ty hv hp w hw
  by_cases hlt : v < t.numVars
  · rw [h.probe v hlt] at hp
    obtain ⟨T, he, hT⟩ := hg v _ hlt hp
    cases he
    rw [h.find v hlt, h.find w (Ty.tyVars_lt_of_good hT w hw)]
    exact hr v ty hlt hp w hw
  · rw [(h.fresh v (Nat.le_of_not_lt hlt) hv).1] at hp; cases hp

/-! ## re-ranking after a step -/

theorem Table.Ranked_step {ar : TyName → Nat} (t t' : Table) (hg' : t'.Good ar) (hr : t.Ranked)
    (hstep : ∀ v ty w, v < t'.numVars → t'.probeVar v = some (.ty ty) → w ∈ ty.tyVars →
      t'.probeVar w = none ∨
      (v < t.numVars ∧ t.probeVar v = some (.ty ty) ∧ t'.find w = t.find w ∧ t'.find v = t.find v)) :
    t'.Ranked := by
  obtain ⟨N, ρ, hN, hr⟩ := hr
  refine ⟨N + 1, fun x => if t'.probeVar x = none then 0 else ρ x + 1, ?_, ?_⟩
  · intro v
    show (if t'.probeVar v = none then 0 else ρ v + 1) < N + 1
    have := hN v
    split <;> omega
  · intro v ty hv hp w hw
    obtain ⟨T, he, hT⟩ := hg'.vals v _ hv hp
    cases he
    have hw' : w < t'.numVars := Ty.tyVars_lt_of_good hT w hw
    have hpv : t'.probeVar (t'.find v) ≠ none := by
      rw [t'.probeVar_find hg'.wf v hv, hp]; exact fun h => by cases h
    show (if t'.probeVar (t'.find w) = none then 0 else ρ (t'.find w) + 1) <
      (if t'.probeVar (t'.find v) = none then 0 else ρ (t'.find v) + 1)
    rw [if_neg hpv]
    rcases hstep v ty w hv hp hw with hnone | ⟨hv0, hp0, hfw, hfv⟩
    · rw [if_pos (by rw [t'.probeVar_find hg'.wf w hw']; exact hnone)]; omega
    · have := hr v ty hv0 hp0 w hw
      rw [hfw, hfv]
      split <;> omega

/-! ## union of two unbound classes -/

theorem Table.unifyVarVar_unbound {ar : TyName → Nat} (t : Table) (a b : Nat) (t' : Table)
    (hg : t.Good ar) (ha : a < t.numVars) (hb : b < t.numVars)
    (hpa : t.probeVar a = none) (hpb : t.probeVar b = none) (h : t.unifyVarVar a b = .ok t') :
    t'.numVars = t.numVars ∧ (∀ x, x < t.numVars → t'.probeVar x = t.probeVar x) ∧
    (∀ x, x < t.numVars → t'.find x = t.find x ∨
      ((t'.find x = t.find a ∨ t'.find x = t.find b) ∧ (t.find x = t.find a ∨ t.find x = t.find b))) := by
  rcases t.unifyVarVar_cases a b t' hg.wf ha hb h with ⟨rfl, _⟩ | ⟨r1, r2, z, hr, hz, hwf', hfind, hval, hn, _⟩
  · exact ⟨rfl, fun _ _ => rfl, fun _ _ => Or.inl rfl⟩
  · have hfa := t.find_lt hg.wf a ha
    have hfb := t.find_lt hg.wf b hb
    have hva : (t.value.getD (t.find a) (.unbound 0)).toOpt = none := by rw [← Table.probeVar_eq]; exact hpa
    have hvb : (t.value.getD (t.find b) (.unbound 0)).toOpt = none := by rw [← Table.probeVar_eq]; exact hpb
    have hr12 : r1 < t.numVars ∧ r2 < t.numVars ∧
        (t.value.getD r1 (.unbound 0)).toOpt = none ∧ (t.value.getD r2 (.unbound 0)).toOpt = none := by
      rcases hr with ⟨e1, e2⟩ | ⟨e1, e2⟩ <;> subst e1 <;> subst e2
      · exact ⟨hfa, hfb, hva, hvb⟩
      · exact ⟨hfb, hfa, hvb, hva⟩
    obtain ⟨h1, h2, hv1, hv2⟩ := hr12
    have hzn : z.toOpt = none := by
      rcases hz with hz | hz <;> obtain ⟨_, _, s3, _⟩ := unifyValues_spec _ _ _ hz
      · cases hzo : z.toOpt with
        | none => rfl
        | some g => rcases s3 g hzo with h | h
                    · rw [hv1] at h; cases h
                    · rw [hv2] at h; cases h
      · cases hzo : z.toOpt with
        | none => rfl
        | some g => rcases s3 g hzo with h | h
                    · rw [hv2] at h; cases h
                    · rw [hv1] at h; cases h
    refine ⟨hn, ?_, ?_⟩
    · intro x hx
      rw [Table.probeVar_eq, hfind x hx, hval, Table.probeVar_eq t x]
      by_cases c1 : t.find x = r1
      · rw [if_pos c1, getD_set_eq _ _ _ _ (by rw [hg.wf.lenValue]; exact h2), hzn, c1, hv1]
      · rw [if_neg c1]
        by_cases c2 : t.find x = r2
        · rw [c2, getD_set_eq _ _ _ _ (by rw [hg.wf.lenValue]; exact h2), hzn, hv2]
        · rw [getD_set_ne _ _ _ _ _ (Ne.symm c2)]
    · intro x hx
      rw [hfind x hx]
      by_cases c1 : t.find x = r1
      · right
        rw [if_pos c1, c1]
        rcases hr with ⟨e1, e2⟩ | ⟨e1, e2⟩
        · exact ⟨Or.inr e2, Or.inl e1⟩
        · exact ⟨Or.inl e2, Or.inr e1⟩
      · left; rw [if_neg c1]

theorem Table.unifyVarVar_unbound_inv {ar : TyName → Nat} {κ : Nat → TyVarKind} (t : Table) (a b : Nat)
    (t' : Table) (hg : t.Good ar) (hk : t.Kinded κ) (hr : t.Ranked) (ha : a < t.numVars)
    (hb : b < t.numVars) (hpa : t.probeVar a = none) (hpb : t.probeVar b = none) (hκ : κ a = κ b)
    (h : t.unifyVarVar a b = .ok t') : t'.Kinded κ ∧ t'.Ranked := by
  obtain ⟨hn, hprobe, hfind⟩ := t.unifyVarVar_unbound a b t' hg ha hb hpa hpb h
  have hle := (t.unifyVarVar_Le a b t' hg ha hb h).1
  have hbound : ∀ x, x < t.numVars → t.probeVar x ≠ none → t'.find x = t.find x := by
    intro x hx hne
    rcases hfind x hx with h | ⟨_, h | h⟩
    · exact h
    · exfalso; apply hne
      rw [← t.probeVar_find hg.wf x hx, h, t.probeVar_find hg.wf a ha]; exact hpa
    · exfalso; apply hne
      rw [← t.probeVar_find hg.wf x hx, h, t.probeVar_find hg.wf b hb]; exact hpb
  refine ⟨⟨?_, ?_, ?_, ?_⟩, ?_⟩
  · intro v hv; exact hk.fresh v (by omega)
  · intro v ty hv hp
    rw [hn] at hv; rw [hprobe v hv] at hp; exact hk.occ v ty hv hp
  · intro v hv
    rw [hn] at hv
    rcases hfind v hv with h | ⟨h1, h2⟩
    · rw [h]; exact hk.cls v hv
    · have e1 : κ (t'.find v) = κ a := by
        rcases h1 with h1 | h1 <;> rw [h1]
        · exact hk.cls a ha
        · rw [hk.cls b hb]; exact hκ.symm
      have e2 : κ (t.find v) = κ a := by
        rcases h2 with h2 | h2 <;> rw [h2]
        · exact hk.cls a ha
        · rw [hk.cls b hb]; exact hκ.symm
      rw [e1, ← e2]; exact hk.cls v hv
  · intro v w k hv hp
    rw [hn] at hv; rw [hprobe v hv] at hp; exact hk.varval v w k hv hp
  · apply Table.Ranked_step t t' hle.good hr
    intro v ty w hv hp hw
    rw [hn] at hv
    have hp0 : t.probeVar v = some (.ty ty) := by rw [← hprobe v hv]; exact hp
    obtain ⟨T, he, hT⟩ := hg.vals v _ hv hp0
    cases he
    have hw' : w < t.numVars := Ty.tyVars_lt_of_good hT w hw
    by_cases hwn : t.probeVar w = none
    · left; rw [hprobe w hw']; exact hwn
    · right
      exact ⟨hv, hp0, hbound w hw' hwn, hbound v hv (by rw [hp0]; exact fun h => by cases h)⟩

/-! ## binding an unbound class to a type -/

theorem Table.bind_spec (t : Table) (a : Nat) (T : Ty) (t' : Table) (hwf : t.WF)
    (h : t.unifyVarValue a (.bound (.ty T)) = .ok t') :
    t.probeVar a = none ∧ t'.numVars = t.numVars ∧ (∀ x, t'.find x = t.find x) ∧
    ∀ x, x < t.numVars → t'.probeVar x = if t.find x = t.find a then some (.ty T) else t.probeVar x := by
  obtain ⟨z, hz, rfl⟩ := t.unifyVarValue_cases a _ t' h
  have hx : (t.value.getD (t.find a) (.unbound 0)).toOpt = none ∧ z.toOpt = some (.ty T) := by
    generalize t.value.getD (t.find a) (.unbound 0) = x at hz
    cases x <;> simp [unifyValues] at hz
    subst hz; exact ⟨rfl, rfl⟩
  refine ⟨by rw [Table.probeVar_eq]; exact hx.1, rfl, fun x => t.setValue_find _ _ x, ?_⟩
  intro x hxn
  rw [t.setValue_probeVar hwf _ _ x hxn, hx.2]

theorem Table.bind_inv {ar : TyName → Nat} {κ : Nat → TyVarKind} (t : Table) (a : Nat) (T : Ty) (t' : Table)
    (hg : t.Good ar) (hk : t.Kinded κ) (hr : t.Ranked) (ha : a < t.numVars)
    (hT : T.good ar t.numVars = true) (hTk : T.kinded κ = true)
    (hTv : ∀ w k, T = .infer w k → κ a = .general ∧ k ≠ .general)
    (hTu : ∀ w, w ∈ T.tyVars → t.probeVar w = none ∧ t.find w ≠ t.find a)
    (h : t.unifyVarValue a (.bound (.ty T)) = .ok t') : t'.Kinded κ ∧ t'.Ranked := by
  obtain ⟨hpa, hn, hfind, hprobe⟩ := t.bind_spec a T t' hg.wf h
  have hle := (t.unifyVarValue_bound_Le a T t' hg ha hT h).1
  refine ⟨⟨?_, ?_, ?_, ?_⟩, ?_⟩
  · intro v hv; exact hk.fresh v (by omega)
  · intro v ty hv hp
    rw [hn] at hv; rw [hprobe v hv] at hp
    split at hp
    · cases hp; exact hTk
    · exact hk.occ v ty hv hp
  · intro v hv
    rw [hn] at hv; rw [hfind v]; exact hk.cls v hv
  · intro v w k hv hp
    rw [hn] at hv; rw [hprobe v hv] at hp
    split at hp
    · rename_i hf
      cases hp
      have := hTv w k rfl
      refine ⟨?_, this.2⟩
      rw [← hk.cls v hv, hf, hk.cls a ha]; exact this.1
    · exact hk.varval v w k hv hp
  · apply Table.Ranked_step t t' hle.good hr
    intro v ty w hv hp hw
    rw [hn] at hv
    rw [hprobe v hv] at hp
    split at hp
    · cases hp
      left
      have := hTu w hw
      rw [hprobe w (Ty.tyVars_lt_of_good hT w hw), if_neg this.2]; exact this.1
    · right; exact ⟨hv, hp, hfind w, hfind v⟩

/-! ## shallow normalization reaches an unbound variable or a non-variable -/

theorem Table.normalizeInner_noninfer (t : Table) (T : Ty) (h : T.isInfer = false) :
    t.normalizeTyShallowInner T = none := by
  cases T <;> simp [Ty.isInfer] at h <;> rfl

theorem Table.normalize_spec2 {ar : TyName → Nat} {κ : Nat → TyVarKind} (t : Table) (hg : t.Good ar)
    (hk : t.Kinded κ) (a0 : Ty) (ha : a0.good ar t.numVars = true) (hka : a0.kinded κ = true) :
    ((t.normalizeTyShallow a0).getD a0).kinded κ = true ∧
    ∀ v k, (t.normalizeTyShallow a0).getD a0 = .infer v k → t.probeVar v = none := by
  by_cases hi : a0.isInfer = false
  · have : t.normalizeTyShallow a0 = none := by
      unfold Table.normalizeTyShallow; rw [t.normalizeInner_noninfer a0 hi]
    rw [this]
    refine ⟨hka, ?_⟩
    intro v k e
    rw [show (none : Option Ty).getD a0 = a0 from rfl] at e
    rw [e] at hi; simp [Ty.isInfer] at hi
  · cases a0 <;> simp [Ty.isInfer] at hi
    rename_i v k
    have hv : v < t.numVars := by simpa [Ty.good] using ha
    cases hp : t.probeVar v with
    | none =>
      have : t.normalizeTyShallow (.infer v k) = none := by
        simp [Table.normalizeTyShallow, Table.normalizeTyShallowInner, hp]
      rw [this]
      refine ⟨hka, ?_⟩
      intro v' k' e
      rw [show (none : Option Ty).getD (Ty.infer v k) = Ty.infer v k from rfl] at e
      cases e; exact hp
    | some g =>
      obtain ⟨T, he, hT⟩ := hg.vals v g hv hp
      subst he
      have e1 : t.normalizeTyShallow (.infer v k) = some ((t.normalizeTyShallowInner T).getD T) := by
        simp [Table.normalizeTyShallow, Table.normalizeTyShallowInner, hp]
      rw [e1]
      show ((t.normalizeTyShallowInner T).getD T).kinded κ = true ∧
        ∀ v' k', (t.normalizeTyShallowInner T).getD T = .infer v' k' → t.probeVar v' = none
      have hTk := hk.occ v T hv hp
      by_cases hTi : T.isInfer = false
      · rw [t.normalizeInner_noninfer T hTi]
        refine ⟨hTk, ?_⟩
        intro v' k' e
        rw [show (none : Option Ty).getD T = T from rfl] at e
        rw [e] at hTi; simp [Ty.isInfer] at hTi
      · cases T <;> simp [Ty.isInfer] at hTi
        rename_i w k2
        have hw : w < t.numVars := by simpa [Ty.good] using hT
        have hvv := hk.varval v w k2 hv hp
        have hk2 : k2 = κ w := by simpa [Ty.kinded] using hTk
        cases hq : t.probeVar w with
        | none =>
          have : t.normalizeTyShallowInner (.infer w k2) = none := by
            simp [Table.normalizeTyShallowInner, hq]
          rw [this]
          refine ⟨hTk, ?_⟩
          intro v' k' e
          rw [show (none : Option Ty).getD (Ty.infer w k2) = Ty.infer w k2 from rfl] at e
          cases e; exact hq
        | some g2 =>
          obtain ⟨T2, he2, hT2⟩ := hg.vals w g2 hw hq
          subst he2
          have : t.normalizeTyShallowInner (.infer w k2) = some T2 := by
            simp [Table.normalizeTyShallowInner, hq]
          rw [this]
          refine ⟨hk.occ w T2 hw hq, ?_⟩
          intro v' k' e
          rw [show (some T2).getD (Ty.infer w k2) = T2 from rfl] at e
          subst e
          have := (hk.varval w v' k' hw hq).1
          rw [← hk2] at this
          exact absurd this hvv.2

end Chalk
