import ChalkModel.FixedPoint

namespace Chalk.FixedPoint

/-- bound on alternatives per goal and sub-goals per alternative -/
def Instance.Bounded (inst : Instance) (A S : Nat) : Prop :=
  ∀ g, (inst.deps g).length ≤ A ∧ ∀ alt ∈ inst.deps g, alt.length ≤ S

/-- `workBound rounds A S d` bounds the hook's work counter (number of `solve_goal` entries plus
    number of loop iterations of `solve_new_subgoal`) of one `solveGoal` call with depth fuel `d`:
    `W 0 = 0`; `W (d+1) = 1 + rounds * (1 + A * (2 * S) * W d)`:
    one tick at the entry of `solve_goal`, then at most `rounds` iterations, each of which ticks
    once and tries at most `A` alternatives, each of which proves each of its at most `S`
    sub-goals at most twice (once in `fulfillRound`, once more in `suggestPass`), every such proof
    being a `solveGoal` call at depth `d`. -/
def workBound (rounds A S : Nat) : Nat → Nat
  | 0 => 0
  | d + 1 => 1 + rounds * (1 + A * (2 * S) * workBound rounds A S d)

/-! ### (1) generic lemmas over an arbitrary sub-solver -/

theorem fulfillRound_work (rec : SubSolver) (W : Nat)
    (hrec : ∀ c m s, (rec c m s).state.work ≤ s.work + W) :
    ∀ l retained m s,
      (fulfillRound rec l retained m s).state.work ≤ s.work + l.length * W
      ∧ ∀ r m' s', fulfillRound rec l retained m s = .ok (some r, m') s' →
          r.length ≤ retained.length + l.length := by
  intro l
  induction l with
  | nil =>
    intro retained m s
    simp only [fulfillRound, Res.state, List.length_nil]
    refine ⟨by omega, ?_⟩
    intro r m' s' h
    cases h
    omega
  | cons c rest ih =>
    intro retained m s
    have h := hrec c m s
    simp only [fulfillRound]
    rw [List.length_cons, Nat.succ_mul]
    split
    · rename_i site s' heq
      rw [heq] at h
      simp only [Res.state] at h ⊢
      refine ⟨by omega, ?_⟩
      intro r m' s'' h'
      cases h'
    · rename_i v m1 s1 heq
      rw [heq] at h
      simp only [Res.state] at h
      split
      · simp only [Res.state]
        refine ⟨by omega, ?_⟩
        intro r m' s'' h'
        cases h'
      · have ⟨i1, i2⟩ := ih retained m1 s1
        refine ⟨by omega, ?_⟩
        intro r m' s'' h'
        have := i2 r m' s'' h'
        omega
      · have ⟨i1, i2⟩ := ih (retained ++ [c]) m1 s1
        refine ⟨by omega, ?_⟩
        intro r m' s'' h'
        have := i2 r m' s'' h'
        simp only [List.length_append, List.length_cons, List.length_nil] at this
        omega

theorem suggestPass_work (cfg : Cfg) (rec : SubSolver) (W : Nat)
    (hrec : ∀ c m s, (rec c m s).state.work ≤ s.work + W) :
    ∀ l m s, (suggestPass cfg rec l m s).state.work ≤ s.work + l.length * W := by
  intro l
  induction l with
  | nil =>
    intro m s
    simp only [suggestPass, Res.state, List.length_nil]
    omega
  | cons c rest ih =>
    intro m s
    have h := hrec c m s
    simp only [suggestPass]
    rw [List.length_cons, Nat.succ_mul]
    split
    · rename_i site s' heq
      rw [heq] at h
      simp only [Res.state] at h ⊢
      omega
    · rename_i v m1 s1 heq
      rw [heq] at h
      simp only [Res.state] at h
      split
      · split <;> simp only [Res.state] <;> omega
      · simp only [Res.state]; omega
      · have := ih m1 s1
        omega


theorem fulfillSolve_work (cfg : Cfg) (rec : SubSolver) (W : Nat)
    (hrec : ∀ c m s, (rec c m s).state.work ≤ s.work + W) (alt : List Nat) (m : Min) (s : St) :
    (fulfillSolve cfg rec alt m s).state.work ≤ s.work + (alt.length * W + alt.length * W) := by
  have ⟨h1, h2⟩ := fulfillRound_work rec W hrec alt.reverse [] m s
  rw [List.length_reverse] at h1
  simp only [fulfillSolve]
  split
  · rename_i site s' heq
    rw [heq] at h1
    simp only [Res.state] at h1 ⊢
    omega
  · rename_i m' s' heq
    rw [heq] at h1
    simp only [Res.state] at h1 ⊢
    omega
  · rename_i m' s' heq
    rw [heq] at h1
    simp only [Res.state] at h1 ⊢
    omega
  · rename_i r rs m' s' heq
    rw [heq] at h1
    simp only [Res.state] at h1
    have h3 := h2 _ _ _ heq
    simp only [List.length_nil, List.length_reverse, Nat.zero_add] at h3
    have h4 := suggestPass_work cfg rec W hrec (r :: rs).reverse m' s'
    rw [List.length_reverse] at h4
    have h5 : (r :: rs).length * W ≤ alt.length * W := Nat.mul_le_mul_right W h3
    omega

theorem solveFromClauses_work (cfg : Cfg) (rec : SubSolver) (ground : Bool) (X : Nat) :
    ∀ alts, (∀ alt ∈ alts, ∀ m s, (fulfillSolve cfg rec alt m s).state.work ≤ s.work + X) →
    ∀ cur m s, (solveFromClauses cfg rec ground alts cur m s).state.work
      ≤ s.work + alts.length * X := by
  intro alts
  induction alts with
  | nil =>
    intro _ cur m s
    simp only [solveFromClauses, Res.state, List.length_nil]
    omega
  | cons alt rest ih =>
    intro hF cur m s
    have h := hF alt (List.mem_cons_self) m s
    have ih' := ih (fun a ha => hF a (List.mem_cons_of_mem _ ha))
    simp only [solveFromClauses]
    rw [List.length_cons, Nat.succ_mul]
    split
    · rename_i site s' heq
      rw [heq] at h
      simp only [Res.state] at h ⊢
      omega
    · rename_i r m1 s1 heq
      rw [heq] at h
      simp only [Res.state] at h
      split
      · split
        · simp only [Res.state]; omega
        · refine Nat.le_trans (ih' _ m1 s1) ?_
          omega
      · refine Nat.le_trans (ih' _ m1 s1) ?_
        omega

theorem shouldContinue_work (s : St) : (shouldContinue s).2.work = s.work := by
  simp only [shouldContinue]
  split <;> rfl

theorem solveIteration_work (inst : Instance) (cfg : Cfg) (rec : SubSolver) (W A S : Nat)
    (hb : inst.Bounded A S)
    (hrec : ∀ c m s, (rec c m s).state.work ≤ s.work + W) (g : Nat) (m : Min) (s : St) :
    (solveIteration inst cfg rec g m s).state.work ≤ s.work + A * (2 * S) * W := by
  have hsc := shouldContinue_work s
  have ⟨hA, hS⟩ := hb g
  have hF : ∀ alt ∈ inst.deps g, ∀ m s,
      (fulfillSolve cfg rec alt m s).state.work ≤ s.work + (2 * S) * W := by
    intro alt ha m s
    have h1 := fulfillSolve_work cfg rec W hrec alt m s
    have h2 : alt.length * W ≤ S * W := Nat.mul_le_mul_right W (hS alt ha)
    rw [Nat.mul_assoc, Nat.two_mul]
    omega
  have hX : (inst.deps g).length * ((2 * S) * W) ≤ A * (2 * S) * W := by
    rw [Nat.mul_assoc A]
    exact Nat.mul_le_mul_right _ hA
  simp only [solveIteration]
  split
  · rename_i s1 heq
    rw [heq] at hsc
    simp only at hsc
    split <;> simp only [Res.state] <;> omega
  · rename_i s1 heq
    rw [heq] at hsc
    simp only at hsc
    have := solveFromClauses_work cfg rec (inst.ground g) ((2 * S) * W) (inst.deps g) hF none m s1
    omega

theorem tick_work (cfg : Cfg) (s : St) : (tick cfg s).state.work = s.work + 1 := by
  simp only [tick]
  split
  · split <;> rfl
  · rfl

theorem solveNewSubgoal_work (inst : Instance) (cfg : Cfg) (rec : SubSolver) (Y : Nat)
    (g depth dfn : Nat)
    (hit : ∀ m s, (solveIteration inst cfg rec g m s).state.work ≤ s.work + Y) :
    ∀ r s, (solveNewSubgoal inst cfg rec g depth dfn r s).state.work ≤ s.work + r * (1 + Y) := by
  intro r
  induction r with
  | zero =>
    intro s
    simp only [solveNewSubgoal, Res.state]
    omega
  | succ r ih =>
    intro s
    have ht := tick_work cfg s
    simp only [solveNewSubgoal]
    rw [Nat.succ_mul]
    split
    · rename_i site s' heq
      rw [heq] at ht
      simp only [Res.state] at ht ⊢
      omega
    · rename_i s0 heq
      rw [heq] at ht
      simp only [Res.state] at ht
      have hi := hit none s0
      split
      · rename_i site s' heq'
        rw [heq'] at hi
        simp only [Res.state] at hi ⊢
        omega
      · rename_i cur m s1 heq'
        rw [heq'] at hi
        simp only [Res.state] at hi
        split
        · split
          · simp only [Res.state]; omega
          · split
            · split <;> simp only [Res.state, rollbackTo] <;> omega
            · have := ih (rollbackTo (dfn + 1)
                { s1 with stack := setCycle false depth s1.stack,
                          graph := updateNode (fun n => { n with solution := cur }) dfn s1.graph })
              simp only [rollbackTo] at this ⊢
              omega
        · simp only [Res.state]; omega


theorem push_work (cfg : Cfg) (co : Bool) (s : St) : (push cfg co s).state.work = s.work := by
  simp only [push]
  split <;> rfl

theorem pop_work (depth : Nat) (s : St) : (pop depth s).state.work = s.work := by
  simp only [pop]
  split <;> rfl

theorem moveToCache_work (dfn : Nat) (c : List (Nat × V)) (s : St) :
    (moveToCache dfn c s).state.work = s.work := by
  simp only [moveToCache]
  split <;> rfl

/-- (1) the work counter of one `solveGoal` call grows by at most `workBound cfg.rounds A S d`,
    whatever the instance (with at most `A` alternatives per goal and at most `S` sub-goals per
    alternative), the state, and the outcome (value or panic). -/
theorem work_bounded (inst : Instance) (cfg : Cfg) (A S : Nat) (hb : inst.Bounded A S) :
    ∀ d g m s, (solveGoal inst cfg d g m s).state.work ≤ s.work + workBound cfg.rounds A S d := by
  intro d
  induction d with
  | zero =>
    intro g m s
    simp only [solveGoal, Res.state, workBound]
    omega
  | succ d ih =>
    intro g m s
    have ht := tick_work cfg s
    simp only [solveGoal, workBound]
    split
    · rename_i site s' heq
      rw [heq] at ht
      simp only [Res.state] at ht ⊢
      omega
    · rename_i s0 heq
      rw [heq] at ht
      simp only [Res.state] at ht
      split
      · simp only [Res.state]; omega
      · split
        · split
          · simp only [Res.state]; omega
          · split
            · split
              · simp only [Res.state]; omega
              · split <;> simp only [Res.state] <;> omega
            · simp only [Res.state]; omega
        · have hp := push_work cfg (inst.coind g) s0
          split
          · rename_i site s' heq1
            rw [heq1] at hp
            simp only [Res.state] at hp ⊢
            omega
          · rename_i depth s1 heq1
            rw [heq1] at hp
            simp only [Res.state] at hp
            have hsn := solveNewSubgoal_work inst cfg (solveGoal inst cfg d)
              (A * (2 * S) * workBound cfg.rounds A S d) g depth s1.graph.length
              (fun m s => solveIteration_work inst cfg (solveGoal inst cfg d) _ A S hb ih g m s)
              cfg.rounds
              { s1 with graph := s1.graph ++
                  [⟨g, initialValue (inst.coind g), some depth, some s1.graph.length⟩] }
            split
            · rename_i site s' heq2
              rw [heq2] at hsn
              simp only [Res.state] at hsn ⊢
              omega
            · rename_i sub s3 heq2
              rw [heq2] at hsn
              simp only [Res.state] at hsn
              have hpop := pop_work depth
                { s3 with graph := (updateNode (fun n => { n with links := sub, stackDepth := none })
                    s1.graph.length s3.graph) }
              split
              · rename_i site s' heq3
                rw [heq3] at hpop
                simp only [Res.state] at hpop ⊢
                omega
              · rename_i s5 heq3
                rw [heq3] at hpop
                simp only [Res.state] at hpop
                split
                · simp only [Res.state]; omega
                · split
                  · split
                    · rename_i c _
                      split
                      · simp only [Res.state, rollbackTo]; omega
                      · have hmc := moveToCache_work s1.graph.length c s5
                        split
                        · rename_i site s' heq4
                          rw [heq4] at hmc
                          simp only [Res.state] at hmc ⊢
                          omega
                        · rename_i s6 heq4
                          rw [heq4] at hmc
                          simp only [Res.state] at hmc ⊢
                          omega
                    · simp only [Res.state, rollbackTo]; omega
                  · simp only [Res.state]; omega

theorem solveRootGoal_work (inst : Instance) (cfg : Cfg) (A S : Nat) (hb : inst.Bounded A S)
    (g : Nat) (s : St) :
    (solveRootGoal inst cfg g s).state.work
      ≤ s.work + workBound cfg.rounds A S (cfg.overflowDepth + 1) := by
  simp only [solveRootGoal]
  split
  · simp only [Res.state]; omega
  · have h := work_bounded inst cfg A S hb (cfg.overflowDepth + 1) g none
      (if cfg.fixF3 then
        { (if cfg.fixF7 then { s with stack := [], graph := [] } else s) with interrupted := false }
       else (if cfg.fixF7 then { s with stack := [], graph := [] } else s))
    have hw : (if cfg.fixF3 then
        { (if cfg.fixF7 then { s with stack := [], graph := [] } else s) with interrupted := false }
       else (if cfg.fixF7 then { s with stack := [], graph := [] } else s)).work = s.work := by
      split <;> split <;> rfl
    rw [hw] at h
    split
    · rename_i heq
      rw [heq] at h
      simp only [Res.state] at h ⊢
      exact h
    · rename_i heq
      rw [heq] at h
      simp only [Res.state] at h ⊢
      exact h

theorem runCall_work (inst : Instance) (cfg : Cfg) (A S : Nat) (hb : inst.Bounded A S)
    (c : Call) (s : St) :
    (runCall inst cfg c s).state.work ≤ workBound cfg.rounds A S (cfg.overflowDepth + 1) := by
  have h := solveRootGoal_work inst { cfg with budget := c.budget } A S hb c.goal
    { s with oracle := c.oracle, oracleDefault := c.dflt, work := 0 }
  simp only [Nat.zero_add] at h
  exact h


/-! ### (2) an ambiguous iteration ends the loop in the current round -/

theorem reachedFixedPoint_ambig (old : V) : reachedFixedPoint old .ambig = true := by
  cases old <;> rfl

/-- (2) when the iteration's answer is ambiguous the loop of `solveNewSubgoal` returns in the
    current round, for every remaining round fuel `r` (also `r = 0`): the result is `ok` with the
    iteration's minimums, or the out-of-bounds panic of `stack[depth]` / `search_graph[dfn]`;
    there is no further round (no recursive call, in particular never `Site.fuelRounds`). -/
theorem ambig_stops (inst : Instance) (cfg : Cfg) (rec : SubSolver) (g depth dfn r : Nat)
    (s s0 s1 : St) (m : Min)
    (ht : tick cfg s = .ok () s0)
    (hi : solveIteration inst cfg rec g none s0 = .ok (.ambig, m) s1) :
    (∃ s', solveNewSubgoal inst cfg rec g depth dfn (r + 1) s = .ok m s') ∨
      solveNewSubgoal inst cfg rec g depth dfn (r + 1) s = .panic .index s1 := by
  simp only [solveNewSubgoal, ht, hi, reachedFixedPoint_ambig]
  split
  · left
    split
    · exact ⟨_, rfl⟩
    · exact ⟨_, rfl⟩
  · right
    rfl

/-- (2'), same hypotheses: the result does not depend on the remaining round fuel. -/
theorem ambig_stops_fuel_irrelevant (inst : Instance) (cfg : Cfg) (rec : SubSolver)
    (g depth dfn r : Nat) (s s0 s1 : St) (m : Min)
    (ht : tick cfg s = .ok () s0)
    (hi : solveIteration inst cfg rec g none s0 = .ok (.ambig, m) s1) :
    solveNewSubgoal inst cfg rec g depth dfn (r + 1) s
      = solveNewSubgoal inst cfg rec g depth dfn 1 s := by
  simp only [solveNewSubgoal, ht, hi, reachedFixedPoint_ambig]
  rfl


/-! ### (3) why the loop terminates on this value domain -/

/-- the order of the Rust comment: `noSolution < unique < ambig` -/
def V.le : V → V → Bool
  | .noSolution, _ => true
  | .unique, .noSolution => false
  | .unique, _ => true
  | .ambig, .ambig => true
  | .ambig, _ => false

/-- `f` is monotone w.r.t. `V.le` -/
def Monotone (f : V → V) : Prop := ∀ a b, V.le a b = true → V.le (f a) (f b) = true

/-- the loop of `solve_new_subgoal` with the iteration abstracted to a function `f` of the
    previous answer of the goal: `iterate f fuel old` runs at most `fuel` rounds starting from the
    stored answer `old`; `none` = the round fuel ran out (`Site.fuelRounds`);
    `some (r, v)` = the loop stopped (through `reachedFixedPoint`) with answer `v` and `r` rounds
    of fuel LEFT (so `fuel - r` rounds were used). -/
def iterate (f : V → V) : Nat → V → Option (Nat × V)
  | 0, _ => none
  | r + 1, old =>
    let cur := f old
    if reachedFixedPoint old cur then some (r, cur) else iterate f r cur

/-- (3) for a monotone iteration three rounds always suffice, from every start value. -/
theorem monotone_stabilizes (f : V → V) (hf : Monotone f) (x0 : V) :
    (iterate f 3 x0).isSome = true := by
  have m1 := hf .noSolution .unique rfl
  have m2 := hf .unique .ambig rfl
  cases h1 : f .noSolution <;> cases h2 : f .unique <;> cases h3 : f .ambig <;>
    simp only [h1, h2, h3, V.le] at m1 m2 <;> first | contradiction | skip <;>
    cases x0 <;> simp [iterate, reachedFixedPoint, h1, h2, h3]

/-- (3') from the two values `initialValue` can take (`noSolution`, `unique`) two rounds suffice. -/
theorem monotone_stabilizes_initial (f : V → V) (hf : Monotone f) (co : Bool) :
    (iterate f 2 (initialValue co)).isSome = true := by
  have m1 := hf .noSolution .unique rfl
  have m2 := hf .unique .ambig rfl
  cases h1 : f .noSolution <;> cases h2 : f .unique <;> cases h3 : f .ambig <;>
    simp only [h1, h2, h3, V.le] at m1 m2 <;> first | contradiction | skip <;>
    cases co <;> simp [iterate, reachedFixedPoint, initialValue, h1, h2]

/-- a monotone function that needs all three rounds (from `ambig`): the `3` is tight -/
def downF : V → V
  | .noSolution => .noSolution
  | .unique => .noSolution
  | .ambig => .unique

theorem downF_monotone : Monotone downF := by
  intro a b
  cases a <;> cases b <;> decide

theorem downF_two_rounds_fail : iterate downF 2 .ambig = none := by decide
theorem downF_three_rounds : iterate downF 3 .ambig = some (0, .noSolution) := by decide

/-- a non-monotone function: it swaps `noSolution` and `unique` -/
def swapF : V → V
  | .noSolution => .unique
  | .unique => .noSolution
  | .ambig => .ambig

theorem swapF_not_monotone : ¬ Monotone swapF := by
  intro h
  exact absurd (h .noSolution .unique rfl) (by decide)

/-- without monotonicity the loop need not stop: no amount of fuel tried is enough -/
theorem nonmonotone_diverges :
    iterate swapF 3 .noSolution = none ∧ iterate swapF 50 .noSolution = none ∧
    iterate swapF 51 .unique = none := by decide

/-- in fact for every amount of fuel -/
theorem nonmonotone_diverges_all (n : Nat) :
    iterate swapF n .noSolution = none ∧ iterate swapF n .unique = none := by
  induction n with
  | zero => exact ⟨rfl, rfl⟩
  | succ n ih =>
    constructor
    · simp only [iterate, swapF, reachedFixedPoint]
      exact ih.2
    · simp only [iterate, swapF, reachedFixedPoint]
      exact ih.1

/-! ### (4) the exponential shape of `workBound` is real -/

/-- goals `0 .. n`: goal `k < n` has one alternative with the single sub-goal `k + 1`; goal `n`
    is a non-ground goal with two facts (its answer is `ambig`).  All goals inductive. -/
def chainTable (n : Nat) : List (Bool × Bool × List (List Nat)) :=
  (List.range n).map (fun k => (false, false, [[k + 1]])) ++ [(false, false, [[], []])]

def chain (n : Nat) : Instance := Instance.ofTable (chainTable n)

theorem chainTable_get (n g : Nat) :
    (chainTable n)[g]? =
      if g < n then some (false, false, [[g + 1]])
      else if g = n then some (false, false, [[], []]) else none := by
  unfold chainTable
  rw [List.getElem?_append]
  simp only [List.length_map, List.length_range]
  split
  · rename_i h
    simp [h]
  · rename_i h
    split
    · rename_i h2
      subst h2
      simp
    · rename_i h2
      have : g - n = (g - n - 1) + 1 := by omega
      rw [this]
      simp

/-- at most 2 alternatives per goal, at most 1 sub-goal per alternative -/
theorem chain_bounded (n : Nat) : (chain n).Bounded 2 1 := by
  intro g
  simp only [chain, Instance.ofTable, chainTable_get]
  by_cases h : g < n
  · simp [h]
  · by_cases h2 : g = n
    · simp [h2]
    · simp [h, h2]

/-- the hook's work counter of a plain solve of goal 0 of `chain n` on a fresh solver -/
def chainWork (cachingEnabled : Bool) (n : Nat) : Nat :=
  (runCall (chain n) (Cfg.current 100 10) (Call.plain 0) (St.fresh cachingEnabled)).state.work

set_option maxRecDepth 8000 in
/-- (4) with the cache disabled the work doubles per level (`2^(n+2) - 2`: the ambiguous sub-goal
    is proved twice by every goal above it, once in `fulfillRound` and once in `suggestPass`);
    with the cache enabled it grows linearly (`3 n + 2`). -/
theorem workBound_attained_shape :
    chainWork false 3 = 30 ∧ chainWork false 4 = 62 ∧ chainWork false 5 = 126 ∧
    chainWork true 3 = 11 ∧ chainWork true 4 = 14 ∧ chainWork true 5 = 17 := by
  decide

set_option maxRecDepth 8000 in
/-- without the cache the chain attains `workBound` exactly, for the parameters it really uses
    (one round per goal, one non-empty alternative, one sub-goal) -/
theorem workBound_attained_exact :
    chainWork false 3 = workBound 1 1 1 4 ∧ chainWork false 4 = workBound 1 1 1 5 ∧
    chainWork false 5 = workBound 1 1 1 6 := by
  decide

/-- and (1) instantiated on the chains -/
theorem chainWork_le (b : Bool) (n : Nat) : chainWork b n ≤ workBound 10 2 1 101 :=
  runCall_work (chain n) (Cfg.current 100 10) 2 1 (chain_bounded n) (Call.plain 0) (St.fresh b)

end Chalk.FixedPoint

#print axioms Chalk.FixedPoint.work_bounded
#print axioms Chalk.FixedPoint.solveRootGoal_work
#print axioms Chalk.FixedPoint.runCall_work
#print axioms Chalk.FixedPoint.ambig_stops
#print axioms Chalk.FixedPoint.ambig_stops_fuel_irrelevant
#print axioms Chalk.FixedPoint.monotone_stabilizes
#print axioms Chalk.FixedPoint.monotone_stabilizes_initial
#print axioms Chalk.FixedPoint.downF_monotone
#print axioms Chalk.FixedPoint.downF_two_rounds_fail
#print axioms Chalk.FixedPoint.swapF_not_monotone
#print axioms Chalk.FixedPoint.nonmonotone_diverges
#print axioms Chalk.FixedPoint.nonmonotone_diverges_all
#print axioms Chalk.FixedPoint.chain_bounded
#print axioms Chalk.FixedPoint.workBound_attained_shape
#print axioms Chalk.FixedPoint.workBound_attained_exact
#print axioms Chalk.FixedPoint.chainWork_le
