import ChalkModel.Lemmas.ShiftLemmas

namespace Chalk

theorem identitySubstFrom_get (cty : Nat → Ty) (i j : Nat) (kinds : List VarKind) :
    (identitySubstFrom cty i kinds)[j]? = (kinds[j]?).map (VarKind.toBoundVar cty (i + j)) := by
  induction kinds generalizing i j with
  | nil => simp [identitySubstFrom]
  | cons k ks ih =>
    cases j with
    | zero => simp [identitySubstFrom]
    | succ j =>
      simp [identitySubstFrom, ih]
      congr 2; omega

theorem identitySubst_get (cty : Nat → Ty) (j : Nat) (kinds : List VarKind) :
    (identitySubst cty kinds)[j]? = (kinds[j]?).map (VarKind.toBoundVar cty j) := by
  simp [identitySubst, identitySubstFrom_get]

theorem identitySubstFrom_length (cty : Nat → Ty) (i : Nat) (kinds : List VarKind) :
    (identitySubstFrom cty i kinds).length = kinds.length := by
  induction kinds generalizing i with
  | nil => rfl
  | cons k ks ih => simp [identitySubstFrom, ih]

/-! ### Well-scopedness under a binder with kinds `kinds` at depth `outer` -/

def Lifetime.scoped (kinds : List VarKind) (outer : Nat) : Lifetime → Bool
  | .bound db idx => db < outer || (db == outer && kinds[idx]? == some .lt)
  | _ => true

mutual
  def Ty.scoped (cty : Nat → Ty) (kinds : List VarKind) (outer : Nat) : Ty → Bool
    | .app _ args => args.scoped cty kinds outer
    | .scalar _ => true | .str => true | .never => true | .foreign _ => true | .error => true
    | .array t c => t.scoped cty kinds outer && c.scoped cty kinds outer
    | .slice t => t.scoped cty kinds outer
    | .raw _ t => t.scoped cty kinds outer
    | .ref _ l t => l.scoped kinds outer && t.scoped cty kinds outer
    | .placeholder _ _ => true
    | .dyn _ bounds l => bounds.scoped cty kinds (outer + 1) && l.scoped kinds outer
    | .proj _ args => args.scoped cty kinds outer
    | .opaque _ args => args.scoped cty kinds outer
    | .function _ _ args => args.scoped cty kinds (outer + 1)
    | .bound db idx => db < outer || (db == outer && (match kinds[idx]? with | some (.ty _) => true | _ => false))
    | .infer _ _ => true
  def Const.scoped (cty : Nat → Ty) (kinds : List VarKind) (outer : Nat) : Const → Bool
    | .mk ty (.bound db idx) =>
        db < outer || (db == outer && (match kinds[idx]? with | some (.const c) => ty == cty c | _ => false))
    | .mk ty _ => ty.scoped cty kinds outer
  def GArg.scoped (cty : Nat → Ty) (kinds : List VarKind) (outer : Nat) : GArg → Bool
    | .ty t => t.scoped cty kinds outer
    | .lt l => l.scoped kinds outer
    | .ct c => c.scoped cty kinds outer
  def Args.scoped (cty : Nat → Ty) (kinds : List VarKind) (outer : Nat) : Args → Bool
    | .nil => true
    | .cons a as => a.scoped cty kinds outer && as.scoped cty kinds outer
  def WC.scoped (cty : Nat → Ty) (kinds : List VarKind) (outer : Nat) : WC → Bool
    | .implemented _ args => args.scoped cty kinds outer
    | .aliasEqProj _ args ty => args.scoped cty kinds outer && ty.scoped cty kinds outer
    | .aliasEqOpaque _ args ty => args.scoped cty kinds outer && ty.scoped cty kinds outer
    | .ltOutlives a b => a.scoped kinds outer && b.scoped kinds outer
    | .tyOutlives t l => t.scoped cty kinds outer && l.scoped kinds outer
  def QWC.scoped (cty : Nat → Ty) (kinds : List VarKind) (outer : Nat) : QWC → Bool
    | .mk _ wc => wc.scoped cty kinds (outer + 1)
  def QWCs.scoped (cty : Nat → Ty) (kinds : List VarKind) (outer : Nat) : QWCs → Bool
    | .nil => true
    | .cons q qs => q.scoped cty kinds outer && qs.scoped cty kinds outer
end

/-! ### substituting a binder's own variables is the identity -/

theorem foldLifetime_subst_identity (cty : Nat → Ty) (kinds : List VarKind) (outer : Nat) (l : Lifetime)
    (h : l.scoped kinds outer = true) :
    foldLifetime (substFolder (identitySubst cty kinds)) outer l = .ok l := by
  cases l <;> simp [foldLifetime, substFolder]
  case bound db idx =>
    simp [Lifetime.scoped] at h
    intro hle
    rcases h with h | ⟨h1, h2⟩
    · omega
    · subst h1
      simp [identitySubst_get, h2, VarKind.toBoundVar, foldLifetime, shifter]

mutual
  theorem foldTy_subst_identity (cty : Nat → Ty) (kinds : List VarKind) (outer : Nat) : (t : Ty) →
      t.scoped cty kinds outer = true → foldTy (substFolder (identitySubst cty kinds)) outer t = .ok t
    | .app n args, h => by
        simp [Ty.scoped] at h; simp [foldTy, foldArgs_subst_identity cty kinds outer args h]
    | .scalar s, _ => by simp [foldTy]
    | .str, _ => by simp [foldTy]
    | .never, _ => by simp [foldTy]
    | .foreign id, _ => by simp [foldTy]
    | .error, _ => by simp [foldTy]
    | .array t c, h => by
        simp [Ty.scoped] at h
        simp [foldTy, foldTy_subst_identity cty kinds outer t h.1, foldConst_subst_identity cty kinds outer c h.2]
    | .slice t, h => by
        simp [Ty.scoped] at h; simp [foldTy, foldTy_subst_identity cty kinds outer t h]
    | .raw m t, h => by
        simp [Ty.scoped] at h; simp [foldTy, foldTy_subst_identity cty kinds outer t h]
    | .ref m l t, h => by
        simp [Ty.scoped] at h
        simp [foldTy, foldTy_subst_identity cty kinds outer t h.2, foldLifetime_subst_identity cty kinds outer l h.1]
    | .placeholder ui idx, _ => by simp [foldTy, substFolder]
    | .dyn ks bounds l, h => by
        simp [Ty.scoped] at h
        simp [foldTy, foldQWCs_subst_identity cty kinds (outer+1) bounds h.1,
          foldLifetime_subst_identity cty kinds outer l h.2]
    | .proj id args, h => by
        simp [Ty.scoped] at h; simp [foldTy, foldArgs_subst_identity cty kinds outer args h]
    | .opaque id args, h => by
        simp [Ty.scoped] at h; simp [foldTy, foldArgs_subst_identity cty kinds outer args h]
    | .function nb sig args, h => by
        simp [Ty.scoped] at h; simp [foldTy, foldArgs_subst_identity cty kinds (outer+1) args h]
    | .bound db idx, h => by
        simp [Ty.scoped] at h
        simp [foldTy, substFolder]
        intro hle
        rcases h with h | ⟨h1, h2⟩
        · omega
        · subst h1
          cases hk : kinds[idx]? with
          | none => simp [hk] at h2
          | some k =>
            cases k <;> simp [hk] at h2
            simp [identitySubst_get, hk, VarKind.toBoundVar, foldTy, shifter]
    | .infer v k, _ => by simp [foldTy, substFolder]
  theorem foldConst_subst_identity (cty : Nat → Ty) (kinds : List VarKind) (outer : Nat) : (c : Const) →
      c.scoped cty kinds outer = true → foldConst (substFolder (identitySubst cty kinds)) outer c = .ok c
    | .mk ty (.bound db idx), h => by
        simp [Const.scoped] at h
        simp [foldConst, substFolder]
        intro hle
        rcases h with h | ⟨h1, h2⟩
        · omega
        · subst h1
          cases hk : kinds[idx]? with
          | none => simp [hk] at h2
          | some k =>
            cases k <;> simp [hk] at h2
            simp [identitySubst_get, hk, VarKind.toBoundVar, foldConst, shifter, h2]
    | .mk ty (.infer v), h => by
        simp [Const.scoped] at h
        have := foldTy_subst_identity cty kinds outer ty h
        simp [foldConst, substFolder] at *
        simp [this]
    | .mk ty (.placeholder ui idx), h => by
        simp [Const.scoped] at h
        have := foldTy_subst_identity cty kinds outer ty h
        simp [foldConst, substFolder] at *
        simp [this]
    | .mk ty (.concrete k), h => by
        simp [Const.scoped] at h
        simp [foldConst, foldTy_subst_identity cty kinds outer ty h]
  theorem foldGArg_subst_identity (cty : Nat → Ty) (kinds : List VarKind) (outer : Nat) : (a : GArg) →
      a.scoped cty kinds outer = true → foldGArg (substFolder (identitySubst cty kinds)) outer a = .ok a
    | .ty t, h => by simp [GArg.scoped] at h; simp [foldGArg, foldTy_subst_identity cty kinds outer t h]
    | .lt l, h => by simp [GArg.scoped] at h; simp [foldGArg, foldLifetime_subst_identity cty kinds outer l h]
    | .ct c, h => by simp [GArg.scoped] at h; simp [foldGArg, foldConst_subst_identity cty kinds outer c h]
  theorem foldArgs_subst_identity (cty : Nat → Ty) (kinds : List VarKind) (outer : Nat) : (a : Args) →
      a.scoped cty kinds outer = true → foldArgs (substFolder (identitySubst cty kinds)) outer a = .ok a
    | .nil, _ => by simp [foldArgs]
    | .cons a as, h => by
        simp [Args.scoped] at h
        simp [foldArgs, foldGArg_subst_identity cty kinds outer a h.1, foldArgs_subst_identity cty kinds outer as h.2]
  theorem foldWC_subst_identity (cty : Nat → Ty) (kinds : List VarKind) (outer : Nat) : (w : WC) →
      w.scoped cty kinds outer = true → foldWC (substFolder (identitySubst cty kinds)) outer w = .ok w
    | .implemented tr args, h => by
        simp [WC.scoped] at h; simp [foldWC, foldArgs_subst_identity cty kinds outer args h]
    | .aliasEqProj id args ty, h => by
        simp [WC.scoped] at h
        simp [foldWC, foldArgs_subst_identity cty kinds outer args h.1, foldTy_subst_identity cty kinds outer ty h.2]
    | .aliasEqOpaque id args ty, h => by
        simp [WC.scoped] at h
        simp [foldWC, foldArgs_subst_identity cty kinds outer args h.1, foldTy_subst_identity cty kinds outer ty h.2]
    | .ltOutlives a b, h => by
        simp [WC.scoped] at h
        simp [foldWC, foldLifetime_subst_identity cty kinds outer a h.1, foldLifetime_subst_identity cty kinds outer b h.2]
    | .tyOutlives t l, h => by
        simp [WC.scoped] at h
        simp [foldWC, foldTy_subst_identity cty kinds outer t h.1, foldLifetime_subst_identity cty kinds outer l h.2]
  theorem foldQWC_subst_identity (cty : Nat → Ty) (kinds : List VarKind) (outer : Nat) : (q : QWC) →
      q.scoped cty kinds outer = true → foldQWC (substFolder (identitySubst cty kinds)) outer q = .ok q
    | .mk ks wc, h => by
        simp [QWC.scoped] at h; simp [foldQWC, foldWC_subst_identity cty kinds (outer+1) wc h]
  theorem foldQWCs_subst_identity (cty : Nat → Ty) (kinds : List VarKind) (outer : Nat) : (q : QWCs) →
      q.scoped cty kinds outer = true → foldQWCs (substFolder (identitySubst cty kinds)) outer q = .ok q
    | .nil, _ => by simp [foldQWCs]
    | .cons q qs, h => by
        simp [QWCs.scoped] at h
        simp [foldQWCs, foldQWC_subst_identity cty kinds outer q h.1, foldQWCs_subst_identity cty kinds outer qs h.2]
end

end Chalk
