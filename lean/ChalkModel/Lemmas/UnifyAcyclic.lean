/-
  The occurs check's half of unifier soundness: on well-kinded input the table stays acyclic
  (`Table.Ranked`), hence has a canonical solution, hence fully resolving the two related types
  through the resulting table gives equal types.

  Added hypothesis (necessary, see the counterexamples at the end): the kind discipline
  `Table.Kinded κ` (`UnifyKinded.lean`) on the table and `Ty.kinded κ` on the two types.
-/
import ChalkModel.Lemmas.UnifyOccKinded

namespace Chalk

def Sound2 (ar : TyName → Nat) (κ : Nat → TyVarKind) (rel : RelTy) : Prop :=
  ∀ a b st st', st.table.Good ar → st.table.Kinded κ → st.table.Ranked →
    a.good ar st.table.numVars = true → b.good ar st.table.numVars = true →
    a.kinded κ = true → b.kinded κ = true →
    rel .inv a b st = .ok st' → st'.table.Kinded κ ∧ st'.table.Ranked

/-! ## `zip_substs` -/

theorem zipSubsts_sound2 (ar : TyName → Nat) (κ : Nat → TyVarKind) (rel : RelTy) (hrel : Sound ar rel)
    (hrel2 : Sound2 ar κ rel) (jf : Nat) (vs : Option (List Variance)) :
    (as bs : Args) → ∀ (i : Nat) (st st' : UState), st.table.Good ar → st.table.Kinded κ →
      st.table.Ranked →
      as.good ar st.table.numVars = true → bs.good ar st.table.numVars = true →
      as.kinded κ = true → bs.kinded κ = true →
      zipSubsts rel jf .inv vs i as bs st = .ok st' → st'.table.Kinded κ ∧ st'.table.Ranked
  | .nil, .nil => by
      intro i st st' _ hk hr _ _ _ _ h
      simp only [zipSubsts] at h; cases h; exact ⟨hk, hr⟩
  | .nil, .cons b bs => by
      intro i st st' _ hk hr _ _ _ _ h
      simp only [zipSubsts] at h; cases h; exact ⟨hk, hr⟩
  | .cons a as, .nil => by
      intro i st st' _ hk hr _ _ _ _ h
      simp only [zipSubsts] at h; cases h; exact ⟨hk, hr⟩
  | .cons a as, .cons b bs => by
      intro i st st' hg hk hr hga hgb hka hkb h
      simp only [Args.good, Bool.and_eq_true] at hga hgb
      simp only [Args.kinded, Bool.and_eq_true] at hka hkb
      simp only [zipSubsts] at h
      split at h
      · cases h
      · rename_i w _
        rw [Variance.inv_xform] at h
        split at h
        · rename_i st1 hr1
          cases a with
          | lt l => simp [GArg.good] at hga
          | ct c => simp [GArg.good] at hga
          | ty ta =>
            cases b with
            | lt l => simp [GArg.good] at hgb
            | ct c => simp [GArg.good] at hgb
            | ty tb =>
              simp only [relateGArg] at hr1
              simp only [GArg.good] at hga hgb
              simp only [GArg.kinded] at hka hkb
              obtain ⟨_, r2, _⟩ := hrel ta tb st st1 hg hga.1 hgb.1 hr1
              obtain ⟨k1, q1⟩ := hrel2 ta tb st st1 hg hk hr hga.1 hgb.1 hka.1 hkb.1 hr1
              exact zipSubsts_sound2 ar κ rel hrel hrel2 jf vs as bs (i + 1) st1 st' r2.good k1 q1
                (Args.good_mono ar _ _ r2.numVars _ hga.2) (Args.good_mono ar _ _ r2.numVars _ hgb.2)
                hka.2 hkb.2 h
        · cases h

/-! ## `relate_var_ty` -/

theorem relateVarTy_sound2 (ar : TyName → Nat) (κ : Nat → TyVarKind) (rel : RelTy) (hrel2 : Sound2 ar κ rel)
    (db : UDb) (jf : Nat) (var : Nat) (kind : TyVarKind) (ty : Ty) (st st' : UState)
    (hg : st.table.Good ar) (hk : st.table.Kinded κ) (hr : st.table.Ranked)
    (hvar : var < st.table.numVars) (hty : ty.good ar st.table.numVars = true)
    (htyk : ty.kinded κ = true) (hni : ty.isInfer = false)
    (h : relateVarTy rel db jf .inv var kind ty st = .ok st') :
    st'.table.Kinded κ ∧ st'.table.Ranked := by
  unfold relateVarTy at h
  replace h := ite_error_ok h
  split at h
  · cases h
  rename_i ui _
  split at h
  · cases h
  rename_i ty1 st1 hocc
  split at h
  · cases h
  rename_i gen t2 hgen
  split at h
  · cases h
  rename_i st3 hw
  obtain ⟨_, o2, o3, _⟩ := occursCheckTy_spec ar jf _ ty st ty1 st1 hg hty hocc
  obtain ⟨p1, p2, p3⟩ := occursCheckTy_spec2 ar κ jf ⟨var, ui⟩ ty st ty1 st1 hg hk hvar hty htyk hocc
  have k1 : st1.table.Kinded κ := p1.kinded hk
  have r1 : st1.table.Ranked := p1.ranked hg.vals hr
  have hni1 : ty1.isInfer = false := occTy_isInfer ar _ _ 0 ty st ty1 st1 hty hni hocc
  obtain ⟨g1, g2⟩ := generalizeTyTop_spec ar db jf ui .inv ty1 st1.table gen t2 o2.good o3 hgen
  obtain ⟨_, q2, q3, q4⟩ := generalizeTyTop_spec2 ar κ db jf ui .inv ty1 st1.table gen t2 o2.good.wf
    k1.fresh o3 p2 (fun w hw => (p3 w hw).1) hgen
  have hni2 : gen.isInfer = false := generalizeTy_isInfer ar _ db ui .inv ty1 st1.table gen t2 o3 hni1 hgen
  have k2 : t2.Kinded κ := q2.kinded k1
  have r2 : t2.Ranked := q2.ranked o2.good.vals r1
  obtain ⟨t3, ht3, rfl⟩ := UState.withTable_ok _ _ _ hw
  have hvar1 : var < st1.table.numVars := Nat.lt_of_lt_of_le hvar o2.numVars
  have hvar2 : var < t2.numVars := Nat.lt_of_lt_of_le hvar1 g1.numVars
  obtain ⟨b1, _⟩ := t2.unifyVarValue_bound_Le var gen t3 g1.good hvar2 g2 ht3
  have hTu : ∀ w, w ∈ gen.tyVars → t2.probeVar w = none ∧ t2.find w ≠ t2.find var := by
    intro w hw
    rw [q2.find var hvar1]
    rcases q4 w hw with hw1 | ⟨hlo, hhi⟩
    · have hwlt : w < st1.table.numVars := Ty.tyVars_lt_of_good o3 w hw1
      rw [q2.probe w hwlt, q2.find w hwlt]
      exact p3 w hw1
    · have := q2.fresh w hlo hhi
      have hf := st1.table.find_lt o2.good.wf var hvar1
      refine ⟨this.1, ?_⟩
      intro e; rw [e] at this; omega
  obtain ⟨k3, r3⟩ := t2.bind_inv var gen t3 g1.good k2 r2 hvar2 g2 q3
    (fun w k e => by rw [e] at hni2; simp [Ty.isInfer] at hni2) hTu ht3
  exact hrel2 gen ty1 _ st' b1.good k3 r3
    (Ty.good_mono ar _ _ b1.numVars _ g2)
    (Ty.good_mono ar _ _ (Nat.le_trans g1.numVars b1.numVars) _ o3) q3 p2 h

/-! ## same constructor -/

theorem relateSameCtor_sound2 (ar : TyName → Nat) (κ : Nat → TyVarKind) (rel : RelTy) (hrel : Sound ar rel)
    (hrel2 : Sound2 ar κ rel) (db : UDb) (jf : Nat)
    (a b : Ty) (st st' : UState) (hg : st.table.Good ar) (hk : st.table.Kinded κ) (hr : st.table.Ranked)
    (hga : a.good ar st.table.numVars = true) (hgb : b.good ar st.table.numVars = true)
    (hka : a.kinded κ = true) (hkb : b.kinded κ = true)
    (h : relateSameCtor rel db jf .inv a b st = .ok st') :
    st'.table.Kinded κ ∧ st'.table.Ranked := by
  cases a with
  | app n as =>
    cases b <;> simp only [relateSameCtor] at h <;> try (cases h; done)
    rename_i n' bs
    have key : ∃ vs, zipSubsts rel jf .inv vs 0 as bs st = .ok st' := by
      cases n <;> cases n' <;> simp only at h <;>
        first
        | (cases h; done)
        | exact ⟨_, (ite_ok_error h).2⟩
    obtain ⟨vs, hz⟩ := key
    simp only [Ty.good, Bool.and_eq_true, beq_iff_eq] at hga hgb
    simp only [Ty.kinded] at hka hkb
    exact zipSubsts_sound2 ar κ rel hrel hrel2 jf vs as bs 0 st st' hg hk hr hga.2 hgb.2 hka hkb hz
  | scalar s =>
    cases b <;> simp only [relateSameCtor] at h <;> try (cases h; done)
    split at h
    · cases h; exact ⟨hk, hr⟩
    · cases h
  | str =>
    cases b <;> simp only [relateSameCtor] at h <;> try (cases h; done)
    cases h; exact ⟨hk, hr⟩
  | never =>
    cases b <;> simp only [relateSameCtor] at h <;> try (cases h; done)
    cases h; exact ⟨hk, hr⟩
  | foreign i =>
    cases b <;> simp only [relateSameCtor] at h <;> try (cases h; done)
    split at h
    · cases h; exact ⟨hk, hr⟩
    · cases h
  | slice ta =>
    cases b <;> simp only [relateSameCtor] at h <;> try (cases h; done)
    rename_i tb
    simp only [Ty.good] at hga hgb
    simp only [Ty.kinded] at hka hkb
    exact hrel2 ta tb st st' hg hk hr hga hgb hka hkb h
  | raw ma ta =>
    cases b <;> simp only [relateSameCtor] at h <;> try (cases h; done)
    rename_i mb tb
    split at h
    · cases h
    · rw [Variance.inv_xform] at h
      simp only [Ty.good] at hga hgb
      simp only [Ty.kinded] at hka hkb
      exact hrel2 ta tb st st' hg hk hr hga hgb hka hkb h
  | placeholder ui idx => simp only [relateSameCtor] at h; cases h
  | infer v k => simp only [relateSameCtor] at h; cases h
  | error => simp [Ty.good] at hga
  | array t c => simp [Ty.good] at hga
  | ref m l t => simp [Ty.good] at hga
  | dyn kinds bounds l => simp [Ty.good] at hga
  | proj id args => simp [Ty.good] at hga
  | «opaque» id args => simp [Ty.good] at hga
  | function nb sig args => simp [Ty.good] at hga
  | bound d idx => simp [Ty.good] at hga

/-! ## one step of `relate_ty_ty` -/

theorem relateTyStep_sound2 (ar : TyName → Nat) (κ : Nat → TyVarKind) (rel : RelTy) (db : UDb) (jf : Nat)
    (hrel : Sound ar rel) (hrel2 : Sound2 ar κ rel) : Sound2 ar κ (relateTyStep rel db jf) := by
  intro a0 b0 st st' hg hk hr ha0 hb0 hka0 hkb0 h
  unfold relateTyStep at h
  replace h := ite_error_ok h
  obtain ⟨hga, _⟩ := st.table.normalize_spec hg a0 ha0
  obtain ⟨hgb, _⟩ := st.table.normalize_spec hg b0 hb0
  obtain ⟨hka, hua⟩ := st.table.normalize_spec2 hg hk a0 ha0 hka0
  obtain ⟨hkb, hub⟩ := st.table.normalize_spec2 hg hk b0 hb0 hkb0
  simp only at h
  generalize (st.table.normalizeTyShallow a0).getD a0 = a at h hga hka hua
  generalize (st.table.normalizeTyShallow b0).getD b0 = b at h hgb hkb hub
  split at h
  · cases h; exact ⟨hk, hr⟩
  split at h
  · -- two variables
    rename_i v1 k1 v2 k2 _
    have hv1 : v1 < st.table.numVars := by simpa [Ty.good] using hga
    have hv2 : v2 < st.table.numVars := by simpa [Ty.good] using hgb
    have hk1 : k1 = κ v1 := by simpa [Ty.kinded] using hka
    have hk2 : k2 = κ v2 := by simpa [Ty.kinded] using hkb
    have hu1 : st.table.probeVar v1 = none := hua v1 k1 rfl
    have hu2 : st.table.probeVar v2 = none := hub v2 k2 rfl
    have hvv : k1 = k2 → ∀ st', st.withTable (st.table.unifyVarVar v1 v2) = .ok st' →
        st'.table.Kinded κ ∧ st'.table.Ranked := by
      intro hkk st' h
      obtain ⟨t', ht', rfl⟩ := UState.withTable_ok _ _ _ h
      exact st.table.unifyVarVar_unbound_inv v1 v2 t' hg hk hr hv1 hv2 hu1 hu2
        (by rw [← hk1, ← hk2, hkk]) ht'
    have hne : ∀ x y, x < st.table.numVars → y < st.table.numVars → κ x ≠ κ y →
        st.table.find y ≠ st.table.find x := by
      intro x y hx hy hxy e
      apply hxy
      rw [← hk.cls x hx, ← hk.cls y hy, e]
    split at h
    · rename_i hc; exact hvv (by rw [hc.1, hc.2]) _ h
    · split at h
      · rename_i hc; exact hvv hc _ h
      · rename_i hkne
        split at h
        · rename_i hc1
          obtain ⟨t', ht', rfl⟩ := UState.withTable_ok _ _ _ h
          have hk2g : k2 ≠ .general := fun e => hkne (by rw [hc1, e])
          refine st.table.bind_inv v1 (.infer v2 k2) t' hg hk hr hv1 hgb hkb ?_ ?_ ht'
          · intro w k e; cases e
            exact ⟨by rw [← hk1]; exact hc1, hk2g⟩
          · intro w hw
            simp only [Ty.tyVars, List.mem_singleton] at hw; subst hw
            exact ⟨hu2, hne v1 w hv1 hv2 (by rw [← hk1, ← hk2]; exact hkne)⟩
        · split at h
          · rename_i hc1 hc2
            obtain ⟨t', ht', rfl⟩ := UState.withTable_ok _ _ _ h
            refine st.table.bind_inv v2 (.infer v1 k1) t' hg hk hr hv2 hga hka ?_ ?_ ht'
            · intro w k e; cases e
              exact ⟨by rw [← hk2]; exact hc2, hc1⟩
            · intro w hw
              simp only [Ty.tyVars, List.mem_singleton] at hw; subst hw
              exact ⟨hu1, hne v2 w hv2 hv1 (by rw [← hk1, ← hk2]; exact fun e => hkne e.symm)⟩
          · cases h
  · simp [Ty.good] at hga
  · split at h
    · cases h; exact ⟨hk, hr⟩
    · cases h
  · simp [Ty.good] at hga
  · rename_i hnii _ _ _
    have hni2 : ¬ (a.isInfer = true ∧ b.isInfer = true) := by
      intro ⟨h1, h2⟩
      cases a <;> simp [Ty.isInfer] at h1
      cases b <;> simp [Ty.isInfer] at h2
      exact hnii _ _ _ _ rfl rfl
    obtain ⟨fa1, fa2, fa3, fa4, fa5⟩ := Ty.good_flags ar _ a hga
    obtain ⟨fb1, fb2, fb3, fb4, fb5⟩ := Ty.good_flags ar _ b hgb
    rw [fa1, fb1, fa2, fb2] at h
    simp only [Bool.or_false, Bool.false_eq_true, if_false] at h
    split at h
    · have hbi : b.isInfer = false := by
        cases hb : b.isInfer
        · rfl
        · exact absurd ⟨rfl, hb⟩ hni2
      exact relateVarTy_sound2 ar κ rel hrel2 db jf _ _ b st st' hg hk hr
        (by simpa [Ty.good] using hga) hgb hkb hbi h
    · split at h
      · have hai : a.isInfer = false := by
          cases ha : a.isInfer
          · rfl
          · exact absurd ⟨ha, rfl⟩ hni2
        exact relateVarTy_sound2 ar κ rel hrel2 db jf _ _ a st st' hg hk hr
          (by simpa [Ty.good] using hgb) hga hka hai h
      · rw [fa3, fb3, fa4, fb4, fa5, fb5] at h
        simp only [Bool.or_false, Bool.false_eq_true, if_false] at h
        replace h := ite_error_ok h
        exact relateSameCtor_sound2 ar κ rel hrel hrel2 db jf a b st st' hg hk hr hga hgb hka hkb h

theorem relateTy_Sound2 (ar : TyName → Nat) (κ : Nat → TyVarKind) (db : UDb) (jf : Nat) :
    ∀ fuel, Sound2 ar κ (relateTy db jf fuel)
  | 0 => by intro a b st st' _ _ _ _ _ _ _ h; simp [relateTy] at h
  | n + 1 => by
      intro a b st st' hg hk hr ha hb hka hkb h
      exact relateTyStep_sound2 ar κ (relateTy db jf n) db jf (relateTy_Sound ar db jf n)
        (relateTy_Sound2 ar κ db jf n) a b st st' hg hk hr ha hb hka hkb h

/-! ## (2) the table stays acyclic (and well-kinded) -/

theorem relateTy_ranked (db : UDb) (jf : Nat) (ar : TyName → Nat) (κ : Nat → TyVarKind) :
    ∀ (fuel : Nat) (a b : Ty) (st st' : UState),
      st.table.WF → st.table.foValues → st.table.arityValues ar →
      a.fo = true → b.fo = true →
      a.varsBelow st.table.numVars = true → b.varsBelow st.table.numVars = true →
      a.arityOk ar = true → b.arityOk ar = true →
      st.table.Kinded κ → a.kinded κ = true → b.kinded κ = true →
      st.table.Ranked →
      relateTy db jf fuel .inv a b st = .ok st' →
      st'.table.Ranked ∧ st'.table.Kinded κ := by
  intro fuel a b st st' hwf hfo har hafo hbfo hav hbv haa hba hk hka hkb hr h
  have hg : st.table.Good ar := ⟨hwf, (Table.goodValues_iff ar _).mpr ⟨hfo, har⟩⟩
  have := relateTy_Sound2 ar κ db jf fuel a b st st' hg hk hr
    ((Ty.good_iff ar _ a).mpr ⟨hafo, hav, haa⟩) ((Ty.good_iff ar _ b).mpr ⟨hbfo, hbv, hba⟩) hka hkb h
  exact ⟨this.2, this.1⟩

/-! ## (4) the syntactic corollary -/

theorem relateTy_sound_resolve (db : UDb) (jf : Nat) (ar : TyName → Nat) (κ : Nat → TyVarKind) :
    ∀ (fuel : Nat) (a b : Ty) (st st' : UState),
      st.table.WF → st.table.foValues → st.table.arityValues ar →
      a.fo = true → b.fo = true →
      a.varsBelow st.table.numVars = true → b.varsBelow st.table.numVars = true →
      a.arityOk ar = true → b.arityOk ar = true →
      st.table.Kinded κ → a.kinded κ = true → b.kinded κ = true →
      st.table.Ranked →
      relateTy db jf fuel .inv a b st = .ok st' →
      ∃ N, ∀ n, N ≤ n → st'.table.resolve n a = st'.table.resolve n b := by
  intro fuel a b st st' hwf hfo har hafo hbfo hav hbv haa hba hk hka hkb hr h
  exact relateTy_sound_resolve_of_ranked db jf ar fuel a b st st' hwf hfo har hafo hbfo hav hbv haa hba h
    (relateTy_ranked db jf ar κ fuel a b st st' hwf hfo har hafo hbfo hav hbv haa hba hk hka hkb hr h).1

/-! ## the kind discipline is satisfiable by every table a script can build -/

mutual
  theorem Ty.kinded_congr (κ κ' : Nat → TyVarKind) : (t : Ty) →
      (∀ w, w ∈ t.tyVars → κ' w = κ w) → t.kinded κ' = t.kinded κ
    | .app n args => by
        intro h; simp only [Ty.kinded]
        exact Args.kinded_congr κ κ' args (by simpa only [Ty.tyVars] using h)
    | .scalar s => by intro _; rfl
    | .str => by intro _; rfl
    | .never => by intro _; rfl
    | .foreign id => by intro _; rfl
    | .error => by intro _; rfl
    | .array t c => by intro _; rfl
    | .slice t => by
        intro h; simp only [Ty.kinded]
        exact Ty.kinded_congr κ κ' t (by simpa only [Ty.tyVars] using h)
    | .raw m t => by
        intro h; simp only [Ty.kinded]
        exact Ty.kinded_congr κ κ' t (by simpa only [Ty.tyVars] using h)
    | .ref m l t => by intro _; rfl
    | .placeholder ui idx => by intro _; rfl
    | .dyn kinds bounds l => by intro _; rfl
    | .proj id args => by intro _; rfl
    | .opaque id args => by intro _; rfl
    | .function nb sig args => by intro _; rfl
    | .bound db idx => by intro _; rfl
    | .infer v k => by
        intro h; simp only [Ty.kinded]; rw [h v (by simp [Ty.tyVars])]
  theorem GArg.kinded_congr (κ κ' : Nat → TyVarKind) : (a : GArg) →
      (∀ w, w ∈ a.tyVars → κ' w = κ w) → a.kinded κ' = a.kinded κ
    | .ty t => by
        intro h; simp only [GArg.kinded]
        exact Ty.kinded_congr κ κ' t (by simpa only [GArg.tyVars] using h)
    | .lt l => by intro _; rfl
    | .ct c => by intro _; rfl
  theorem Args.kinded_congr (κ κ' : Nat → TyVarKind) : (a : Args) →
      (∀ w, w ∈ a.tyVars → κ' w = κ w) → a.kinded κ' = a.kinded κ
    | .nil => by intro _; rfl
    | .cons a as => by
        intro h; simp only [Args.kinded]
        simp only [Args.tyVars, List.mem_append] at h
        rw [GArg.kinded_congr κ κ' a (fun w hw => h w (Or.inl hw)),
            Args.kinded_congr κ κ' as (fun w hw => h w (Or.inr hw))]
end

theorem Table.new_Kinded : Table.new.Kinded (fun _ => .general) :=
  ⟨fun _ _ => rfl, fun v _ hv => absurd hv (Nat.not_lt_zero v), fun v hv => absurd hv (Nat.not_lt_zero v),
   fun v _ _ hv => absurd hv (Nat.not_lt_zero v)⟩

/-- a new variable may be given any kind -/
theorem Table.newVariable_Kinded (κ : Nat → TyVarKind) (t : Table) (ui : Nat) (k : TyVarKind)
    (hwf : t.WF) (hfo : t.foValues) (hk : t.Kinded κ) :
    (t.newVariable ui).1.Kinded (fun v => if v = t.numVars then k else κ v) := by
  have hn := t.newVariable_numVars ui
  refine ⟨?_, ?_, ?_, ?_⟩
  · intro v hv
    rw [hn] at hv
    show (if v = t.numVars then k else κ v) = .general
    rw [if_neg (by omega)]; exact hk.fresh v (by omega)
  · intro v ty hv hp
    rw [hn] at hv
    by_cases hlt : v < t.numVars
    · rw [t.newVariable_probeVar_old ui hwf v hlt] at hp
      obtain ⟨ty', he, _, hvb⟩ := hfo v _ hlt hp
      cases he
      rw [Ty.kinded_congr κ _ ty (fun w hw => by
        have := Ty.tyVars_lt _ ty hvb w hw
        show (if w = t.numVars then k else κ w) = κ w
        rw [if_neg (by omega)])]
      exact hk.occ v ty hlt hp
    · have : v = t.numVars := by omega
      subst this
      rw [t.newVariable_probeVar_new ui hwf] at hp; cases hp
  · intro v hv
    rw [hn] at hv
    by_cases hlt : v < t.numVars
    · rw [t.newVariable_find_old ui hwf v hlt]
      have := t.find_lt hwf v hlt
      show (if t.find v = t.numVars then k else κ (t.find v)) = (if v = t.numVars then k else κ v)
      rw [if_neg (by omega), if_neg (by omega)]; exact hk.cls v hlt
    · have : v = t.numVars := by omega
      subst this
      rw [t.newVariable_find_new]
  · intro v w k' hv hp
    rw [hn] at hv
    by_cases hlt : v < t.numVars
    · rw [t.newVariable_probeVar_old ui hwf v hlt] at hp
      show (if v = t.numVars then k else κ v) = .general ∧ _
      rw [if_neg (by omega)]; exact hk.varval v w k' hlt hp
    · have : v = t.numVars := by omega
      subst this
      rw [t.newVariable_probeVar_new ui hwf] at hp; cases hp

theorem Table.newUniverse_Kinded (κ : Nat → TyVarKind) (t : Table) (hk : t.Kinded κ) :
    t.newUniverse.1.Kinded κ := by
  refine ⟨hk.fresh, ?_, ?_, ?_⟩
  · intro v ty hv hp; rw [t.newUniverse_probeVar] at hp; exact hk.occ v ty hv hp
  · intro v hv; rw [Table.find_congr t.newUniverse.1 t rfl]; exact hk.cls v hv
  · intro v w k hv hp; rw [t.newUniverse_probeVar] at hp; exact hk.varval v w k hv hp

/-! ## why the kind discipline is there, and non-vacuity -/

/-- COUNTEREXAMPLE without `Ty.kinded`: one variable written with two kinds. Relating `?0`
    (general) with `?0` (integer) on the table with the single unbound variable `?0` succeeds by
    binding `?0 := ?0`; the result is cyclic. All other hypotheses of `relateTy_ranked` hold. -/
example :
    let st : UState := { table := (Table.new.newVariable 0).1 }
    let a : Ty := .infer 0 .general
    let b : Ty := .infer 0 .integer
    st.table.WF ∧ st.table.foValues ∧ st.table.arityValues (fun _ => 0) ∧ st.table.Ranked ∧
    a.fo = true ∧ b.fo = true ∧ a.varsBelow st.table.numVars = true ∧ b.varsBelow st.table.numVars = true ∧
    ∃ st', relateTy exDb 1 1 .inv a b st = .ok st' ∧ ¬ st'.table.Ranked := by
  refine ⟨Table.newVariable_WF _ _ Table.new_WF,
    Table.newVariable_foValues _ _ Table.new_WF Table.new_foValues,
    Table.newVariable_arityValues _ _ _ Table.new_WF (Table.new_arityValues _),
    Table.newVariable_Ranked _ _ Table.new_WF Table.new_Ranked, rfl, rfl, rfl, rfl, _, rfl, ?_⟩
  rintro ⟨N, ρ, _, hr⟩
  have := hr 0 (.infer 0 .integer) (by decide) rfl 0 (by simp [Ty.tyVars])
  exact Nat.lt_irrefl _ this

/-- COUNTEREXAMPLE without the shape part of `Table.Kinded` (all kinds general): on the acyclic
    table `?0 := ?1, ?1 := ?2, ?2 := Adt0<?3>`, two-level normalization of `?0` stops at the
    BOUND variable `?2`; relating `?0` with `?3` then unions the class of `?2` with `?3` and the
    result `?3 := Adt0<?3>` is cyclic. -/
example :
    let t : Table := Table.mk [0, 1, 2, 3] [0, 0, 0, 0]
      [.bound (.ty (.infer 1 .general)), .bound (.ty (.infer 2 .general)),
       .bound (.ty (.app (.adt 0) (.cons (.ty (.infer 3 .general)) .nil))), .unbound 0] 0
    let st : UState := { table := t }
    t.WF ∧ t.Ranked ∧ ∃ st', relateTy exDb 1 1 .inv (.infer 0 .general) (.infer 3 .general) st = .ok st' ∧
      ¬ st'.table.Ranked := by
  intro t st
  refine ⟨⟨rfl, rfl, by decide, by decide⟩, ⟨4, fun v => 3 - v, fun v => by show 3 - v < 4; omega, ?_⟩, _, rfl, ?_⟩
  · intro v ty hv hp w hw
    have hv' : v = 0 ∨ v = 1 ∨ v = 2 ∨ v = 3 := by
      have : v < 4 := hv
      omega
    rcases hv' with rfl | rfl | rfl | rfl
    · have : ty = .infer 1 .general := by
        have e : t.probeVar 0 = some (.ty (.infer 1 .general)) := rfl
        rw [e] at hp; cases hp; rfl
      subst this; simp [Ty.tyVars] at hw; subst hw; decide
    · have : ty = .infer 2 .general := by
        have e : t.probeVar 1 = some (.ty (.infer 2 .general)) := rfl
        rw [e] at hp; cases hp; rfl
      subst this; simp [Ty.tyVars] at hw; subst hw; decide
    · have : ty = .app (.adt 0) (.cons (.ty (.infer 3 .general)) .nil) := by
        have e : t.probeVar 2 = some (.ty (.app (.adt 0) (.cons (.ty (.infer 3 .general)) .nil))) := rfl
        rw [e] at hp; cases hp; rfl
      subst this; simp [Ty.tyVars, Args.tyVars, GArg.tyVars] at hw; subst hw; decide
    · have e : t.probeVar 3 = none := rfl
      rw [e] at hp; cases hp
  · rintro ⟨N, ρ, _, hr⟩
    have := hr 3 (.app (.adt 0) (.cons (.ty (.infer 3 .general)) .nil)) (by decide) rfl 3
      (by simp [Ty.tyVars, Args.tyVars, GArg.tyVars])
    exact Nat.lt_irrefl _ this

/-- NON-VACUITY: `?0` against `Adt0<u8>` on the one-variable table satisfies every hypothesis of
    `relateTy_sound_resolve` (all kinds general) and the theorem yields that both sides resolve
    to the same type from some level on. -/
example :
    let b : Ty := .app (.adt 0) (.cons (.ty (.scalar 1)) .nil)
    let st : UState := { table := (Table.new.newVariable 0).1 }
    ∃ st', relateTy exDb 2 2 .inv (.infer 0 .general) b st = .ok st' ∧ st'.table.Ranked ∧
      ∃ N, ∀ n, N ≤ n → st'.table.resolve n (.infer 0 .general) = st'.table.resolve n b := by
  intro b st
  refine ⟨_, rfl, ?_⟩
  have hwf : st.table.WF := Table.newVariable_WF _ _ Table.new_WF
  have hfo : st.table.foValues := Table.newVariable_foValues _ _ Table.new_WF Table.new_foValues
  have har : st.table.arityValues (fun _ => 1) :=
    Table.newVariable_arityValues _ _ _ Table.new_WF (Table.new_arityValues _)
  have hk : st.table.Kinded (fun v => if v = Table.new.numVars then .general else .general) :=
    Table.newVariable_Kinded _ _ 0 .general Table.new_WF Table.new_foValues Table.new_Kinded
  have hr : st.table.Ranked := Table.newVariable_Ranked _ _ Table.new_WF Table.new_Ranked
  exact ⟨(relateTy_ranked exDb 2 (fun _ => 1) _ 2 (.infer 0 .general) b st _ hwf hfo har
      rfl rfl rfl rfl rfl rfl hk rfl rfl hr rfl).1,
    relateTy_sound_resolve exDb 2 (fun _ => 1) _ 2 (.infer 0 .general) b st _ hwf hfo har
      rfl rfl rfl rfl rfl rfl hk rfl rfl hr rfl⟩

end Chalk

#print axioms Chalk.Table.new_Ranked
#print axioms Chalk.Table.newVariable_Ranked
#print axioms Chalk.Table.newUniverse_Ranked
#print axioms Chalk.relateTy_ranked
#print axioms Chalk.Table.ranked_canon
#print axioms Chalk.relateTy_sound_resolve_of_ranked
#print axioms Chalk.relateTy_sound_resolve
