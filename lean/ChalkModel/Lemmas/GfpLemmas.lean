import ChalkModel.Lemmas.EvalLemmas

namespace Chalk.Sem

theorem CoStep.mono {P : Program} {Γ : List Atom} {X Y : Atom → Prop} (h : ∀ x, X x → Y x) {a : Atom}
    (hs : CoStep P Γ X a) : CoStep P Γ Y a :=
  ⟨hs.1, hs.2.imp id (fun hv => hv.mono h)⟩

/-- the greatest fixed point is a fixed point: unfolding once -/
theorem coHolds_unfold (P : Program) (Γ : List Atom) (a : Atom) :
    CoHolds P Γ a ↔ CoStep P Γ (CoHolds P Γ) a := by
  constructor
  · rintro ⟨X, hX, hXa⟩
    exact (hX a hXa).mono fun x hx => ⟨X, hX, hx⟩
  · intro h
    refine ⟨fun x => CoStep P Γ (CoHolds P Γ) x, ?_, h⟩
    intro x hx
    refine hx.mono ?_
    rintro y ⟨X, hX, hXy⟩
    exact (hX y hXy).mono fun z hz => ⟨X, hX, hz⟩

end Chalk.Sem
