import ChalkModel.GroundRes
import ChalkModel.Lemmas.EvalLemmas

set_option linter.unusedSectionVars false

namespace Chalk.GroundRes
open Chalk.Sem

variable {α : Type} [DecidableEq α]

theorem derivable_iff (cf : α → List (List α)) (a : α) :
    Derivable cf a ↔ ∃ body ∈ cf a, ∀ b ∈ body, Derivable cf b := by
  constructor
  · intro h
    cases h with
    | step hb hall => exact ⟨_, hb, hall⟩
  · rintro ⟨body, hb, hall⟩
    exact .step hb hall

theorem solve_succ (cf : α → List (List α)) (fuel : Nat) (S : List α) (a : α) :
    solve cf (fuel + 1) S a =
      if a ∈ S then .no
      else (cf a).foldr (fun body acc =>
        (body.foldr (fun b acc' => (solve cf fuel (a :: S) b).and acc') .yes).or acc) .no := rfl

/-- `yes` is sound -/
theorem solve_yes (cf : α → List (List α)) : (fuel : Nat) → (S : List α) → (a : α) →
    solve cf fuel S a = .yes → Derivable cf a
  | 0, _, _, h => by simp [solve] at h
  | fuel + 1, S, a, h => by
      rw [solve_succ] at h
      split at h
      · cases h
      · obtain ⟨body, hb, hy⟩ := foldr_or_yes _ _ h
        have := foldr_and_yes _ _ hy
        exact .step hb (fun b hbb => solve_yes cf fuel (a :: S) b (this b hbb))

/-- derivations of height at most `n` in which no atom of `S` is derived -/
def DerH (cf : α → List (List α)) : Nat → List α → α → Prop
  | 0, _, _ => False
  | n + 1, S, a => a ∉ S ∧ ∃ body ∈ cf a, ∀ b ∈ body, DerH cf n S b

theorem DerH.mono (cf : α → List (List α)) : (n : Nat) → (S : List α) → (a : α) →
    DerH cf n S a → DerH cf (n + 1) S a
  | 0, _, _, h => by simp [DerH] at h
  | n + 1, S, a, h => by
      obtain ⟨hs, body, hb, hall⟩ := h
      exact ⟨hs, body, hb, fun b hbb => DerH.mono cf n S b (hall b hbb)⟩

theorem DerH.mono_le (cf : α → List (List α)) {n m : Nat} (h : n ≤ m) (S : List α) (a : α)
    (hd : DerH cf n S a) : DerH cf m S a := by
  induction h with
  | refl => exact hd
  | step _ ih => exact DerH.mono cf _ S a ih

/-- a derivation either avoids `x` as well, or contains a derivation of `x` that is no higher -/
theorem DerH.avoid_or (cf : α → List (List α)) (x : α) : (n : Nat) → (S : List α) → (b : α) →
    DerH cf n S b → DerH cf n (x :: S) b ∨ DerH cf n S x
  | 0, _, _, h => by simp [DerH] at h
  | n + 1, S, b, h => by
      by_cases hbx : b = x
      · subst hbx; exact Or.inr h
      · obtain ⟨hs, body, hb, hall⟩ := h
        by_cases hav : ∀ c ∈ body, DerH cf n (x :: S) c
        · exact Or.inl ⟨by simp [hbx, hs], body, hb, hav⟩
        · have : ∃ c ∈ body, ¬ DerH cf n (x :: S) c := by
            apply Classical.byContradiction
            intro hne
            apply hav
            intro c hc
            apply Classical.byContradiction
            intro hnc
            exact hne ⟨c, hc, hnc⟩
          obtain ⟨c, hc, hnc⟩ := this
          rcases DerH.avoid_or cf x n S c (hall c hc) with h1 | h2
          · exact absurd h1 hnc
          · exact Or.inr (DerH.mono cf n S x h2)

/-- a derivable atom has a derivation whose immediate subderivations do not derive it again -/
theorem DerH.root_fresh (cf : α → List (List α)) : (n : Nat) → (S : List α) → (a : α) →
    DerH cf n S a → a ∉ S ∧ ∃ k, ∃ body ∈ cf a, ∀ b ∈ body, DerH cf k (a :: S) b
  | 0, _, _, h => by simp [DerH] at h
  | n + 1, S, a, h => by
      obtain ⟨hs, body, hb, hall⟩ := h
      by_cases hav : ∀ c ∈ body, DerH cf n (a :: S) c
      · exact ⟨hs, n, body, hb, hav⟩
      · have : ∃ c ∈ body, ¬ DerH cf n (a :: S) c := by
          apply Classical.byContradiction
          intro hne
          apply hav
          intro c hc
          apply Classical.byContradiction
          intro hnc
          exact hne ⟨c, hc, hnc⟩
        obtain ⟨c, hc, hnc⟩ := this
        rcases DerH.avoid_or cf a n S c (hall c hc) with h1 | h2
        · exact absurd h1 hnc
        · exact DerH.root_fresh cf n S a h2

/-- `no` is sound relative to the stack -/
theorem solve_no_aux (cf : α → List (List α)) : (fuel : Nat) → (S : List α) → (a : α) →
    solve cf fuel S a = .no → ∀ n, ¬ DerH cf n S a
  | 0, _, _, h => by simp [solve] at h
  | fuel + 1, S, a, h => by
      intro n hd
      obtain ⟨hs, k, body, hb, hall⟩ := DerH.root_fresh cf n S a hd
      rw [solve_succ] at h
      simp only [hs, if_false] at h
      have hno := foldr_or_no _ _ h body hb
      obtain ⟨b, hbb, hbn⟩ := foldr_and_no _ _ hno
      exact solve_no_aux cf fuel (a :: S) b hbn k (hall b hbb)

theorem derH_of_list (cf : α → List (List α)) (S : List α) : (body : List α) →
    (∀ b ∈ body, ∃ n, DerH cf n S b) → ∃ N, ∀ b ∈ body, DerH cf N S b
  | [], _ => ⟨0, by simp⟩
  | b :: bs, h => by
      obtain ⟨n, hn⟩ := h b (by simp)
      obtain ⟨N, hN⟩ := derH_of_list cf S bs (fun c hc => h c (by simp [hc]))
      refine ⟨max n N, ?_⟩
      intro c hc
      simp only [List.mem_cons] at hc
      rcases hc with rfl | hc
      · exact DerH.mono_le cf (Nat.le_max_left _ _) S _ hn
      · exact DerH.mono_le cf (Nat.le_max_right _ _) S _ (hN c hc)

theorem derH_of_derivable (cf : α → List (List α)) {a : α} (h : Derivable cf a) : ∃ n, DerH cf n [] a := by
  induction h with
  | step hb _ ih =>
      obtain ⟨N, hN⟩ := derH_of_list cf [] _ ih
      exact ⟨N + 1, by simp, _, hb, hN⟩

/-- `no` is sound -/
theorem solve_no (cf : α → List (List α)) (fuel : Nat) (a : α) (h : solve cf fuel [] a = .no) :
    ¬ Derivable cf a := by
  intro hd
  obtain ⟨n, hn⟩ := derH_of_derivable cf hd
  exact solve_no_aux cf fuel [] a h n hn

end Chalk.GroundRes
