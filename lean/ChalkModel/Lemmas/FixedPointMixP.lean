/-
  FixedPointMixP.lean — stratified instances: calls that carry a work budget and/or an arbitrary
  `should_continue` oracle; the cache stays correct, later calls are exact.
-/
import ChalkModel.Lemmas.FixedPointMixN
import ChalkModel.Lemmas.FixedPointSemP

namespace Chalk.FixedPoint.Mix
open Chalk.FixedPoint.Cyc (InCache QuietSt QuietCall)

section
variable {inst : Instance} {P : Nat → Prop} {dom : List Nat} {lvl : Nat → Nat} {cfg : Cfg}

/-- `solve_root_goal` with any budget, quiet oracle (no F10/F16 needed) -/
theorem solveRootGoal_good (hyp : MHyp inst P dom lvl) (h3 : cfg.fixF3 = true) (h7 : cfg.fixF7 = true)
    (hov : dom.length ≤ cfg.overflowDepth) (hr : 2 ≤ cfg.rounds)
    (s : St) (hq : s.oracle = [] ∧ s.oracleDefault = true) (hok : CacheOK P s) (g : Nat) (hg : g ∈ dom) :
    (∃ v s', solveRootGoal inst cfg g s = .ok v s' ∧ Holds P v g ∧
      s'.stack = [] ∧ s'.graph = [] ∧ CacheOK P s' ∧ s'.cache.isSome = s.cache.isSome) ∨
    (∃ s', solveRootGoal inst cfg g s = .panic .budget s' ∧ cfg.budget ≠ none ∧ CacheOK P s') := by
  cases solveRootGoal_general (fx := false) hyp h3 h7 (fun e => by cases e) (fun e => by cases e) hov hr s
      (Or.inr hq) hok g hg with
  | inr h => exact Or.inr h
  | inl h =>
    obtain ⟨v, s', h1, h2, h3', h4, h5, h6, h7'⟩ := h
    refine Or.inl ⟨v, s', h1, ?_, h3', h4, h5, h6⟩
    cases h2 with
    | inl hc => exact hc
    | inr ha =>
      have := h7' hq
      rw [ha.2] at this
      cases this

/-- one call: `fx = true` needs the repairs F10/F16 and allows any oracle; `fx = false` needs a quiet call -/
theorem call_good (fx : Bool) (hyp : MHyp inst P dom lvl) (h3 : cfg.fixF3 = true) (h7 : cfg.fixF7 = true)
    (h10 : fx = true → cfg.fixF10 = true) (h16 : fx = true → cfg.fixF16 = true)
    (hov : dom.length ≤ cfg.overflowDepth) (hr : 2 ≤ cfg.rounds) (s : St) (hok : CacheOK P s)
    (k : Call) (hfx : fx = true ∨ QuietCall k) (hg : k.goal ∈ dom) :
    (∃ v s', runCall inst cfg k s = .ok v s' ∧ (Holds P v k.goal ∨ (v = .ambig ∧ s'.interrupted = true)) ∧
      (QuietCall k → Holds P v k.goal) ∧ CacheOK P s') ∨
    (∃ s', runCall inst cfg k s = .panic .budget s' ∧ k.budget ≠ none ∧ CacheOK P s') := by
  unfold runCall
  cases solveRootGoal_general (fx := fx) (cfg := { cfg with budget := k.budget }) hyp h3 h7 h10 h16 hov hr
      { s with oracle := k.oracle, oracleDefault := k.dflt, work := 0 } hfx hok k.goal hg with
  | inr h => exact Or.inr h
  | inl h =>
    obtain ⟨v, s', h1, h2, _, _, h5, _, h7'⟩ := h
    refine Or.inl ⟨v, s', h1, h2, fun hq => ?_, h5⟩
    cases h2 with
    | inl hc => exact hc
    | inr ha =>
      have := h7' hq
      rw [ha.2] at this
      cases this

theorem call_state (fx : Bool) (hyp : MHyp inst P dom lvl) (h3 : cfg.fixF3 = true) (h7 : cfg.fixF7 = true)
    (h10 : fx = true → cfg.fixF10 = true) (h16 : fx = true → cfg.fixF16 = true)
    (hov : dom.length ≤ cfg.overflowDepth) (hr : 2 ≤ cfg.rounds) (s : St) (hok : CacheOK P s)
    (k : Call) (hfx : fx = true ∨ QuietCall k) (hg : k.goal ∈ dom) : CacheOK P (runCall inst cfg k s).state := by
  cases call_good fx hyp h3 h7 h10 h16 hov hr s hok k hfx hg with
  | inl h => obtain ⟨v, s', h1, _, _, h4⟩ := h; rw [h1]; exact h4
  | inr h => obtain ⟨s', h1, _, h3'⟩ := h; rw [h1]; exact h3'

theorem history_cacheOK (fx : Bool) (hyp : MHyp inst P dom lvl) (h3 : cfg.fixF3 = true) (h7 : cfg.fixF7 = true)
    (h10 : fx = true → cfg.fixF10 = true) (h16 : fx = true → cfg.fixF16 = true)
    (hov : dom.length ≤ cfg.overflowDepth) (hr : 2 ≤ cfg.rounds) :
    ∀ (ks : List Call), (∀ k, k ∈ ks → (fx = true ∨ QuietCall k) ∧ k.goal ∈ dom) → ∀ s, CacheOK P s →
      CacheOK P (runHistory inst cfg ks s)
  | [], _, _, h => h
  | k :: ks, hd, s, h => by
    simp only [runHistory]
    exact history_cacheOK fx hyp h3 h7 h10 h16 hov hr ks (fun x hx => hd x (List.mem_cons_of_mem _ hx)) _
      (call_state fx hyp h3 h7 h10 h16 hov hr s h k (hd k (List.mem_cons_self ..)).1 (hd k (List.mem_cons_self ..)).2)

theorem history_outcomes (fx : Bool) (hyp : MHyp inst P dom lvl) (h3 : cfg.fixF3 = true) (h7 : cfg.fixF7 = true)
    (h10 : fx = true → cfg.fixF10 = true) (h16 : fx = true → cfg.fixF16 = true)
    (hov : dom.length ≤ cfg.overflowDepth) (hr : 2 ≤ cfg.rounds) :
    ∀ (ks : List Call), (∀ k, k ∈ ks → (fx = true ∨ QuietCall k) ∧ k.goal ∈ dom) → ∀ s, CacheOK P s →
      ∀ (i : Nat) (k : Call), ks[i]? = some k →
        (outcomes inst cfg ks s)[i]? = some (.panic .budget) ∧ k.budget ≠ none ∨
        ∃ v, (outcomes inst cfg ks s)[i]? = some (.value v) ∧ (Holds P v k.goal ∨ (v = .ambig ∧ ¬ QuietCall k))
  | [], _, _, _, i, k, hi => by simp at hi
  | k0 :: ks, hd, s, h, i, k, hi => by
    have hk0 := hd k0 (List.mem_cons_self ..)
    simp only [outcomes]
    cases i with
    | zero =>
      simp only [List.getElem?_cons_zero, Option.some.injEq] at hi
      subst hi
      simp only [List.getElem?_cons_zero]
      cases call_good fx hyp h3 h7 h10 h16 hov hr s h k0 hk0.1 hk0.2 with
      | inl h1 =>
        obtain ⟨v, s', e, hc, hq, _⟩ := h1
        rw [e]
        refine Or.inr ⟨v, rfl, ?_⟩
        cases hc with
        | inl hc => exact Or.inl hc
        | inr ha =>
          by_cases hqc : QuietCall k0
          · exact Or.inl (hq hqc)
          · exact Or.inr ⟨ha.1, hqc⟩
      | inr h1 => obtain ⟨s', e, hne, _⟩ := h1; rw [e]; exact Or.inl ⟨rfl, hne⟩
    | succ i =>
      simp only [List.getElem?_cons_succ] at hi ⊢
      exact history_outcomes fx hyp h3 h7 h10 h16 hov hr ks (fun x hx => hd x (List.mem_cons_of_mem _ hx)) _
        (call_state fx hyp h3 h7 h10 h16 hov hr s h k0 hk0.1 hk0.2) i k hi

theorem history_then_plain (fx : Bool) (hyp : MHyp inst P dom lvl) (h3 : cfg.fixF3 = true) (h7 : cfg.fixF7 = true)
    (h10 : fx = true → cfg.fixF10 = true) (h16 : fx = true → cfg.fixF16 = true)
    (hov : dom.length ≤ cfg.overflowDepth) (hr : 2 ≤ cfg.rounds) (b : Bool)
    (ks : List Call) (hd : ∀ k, k ∈ ks → (fx = true ∨ QuietCall k) ∧ k.goal ∈ dom) (g : Nat) (hg : g ∈ dom) :
    ∃ v, solveOn inst cfg g (runHistory inst cfg ks (St.fresh b)) = .value v ∧ Holds P v g := by
  have hok := history_cacheOK fx hyp h3 h7 h10 h16 hov hr ks hd _ (cacheOK_fresh (P := P) b)
  cases call_good fx hyp h3 h7 h10 h16 hov hr _ hok (Call.plain g) (Or.inr ⟨rfl, rfl⟩) hg with
  | inl h =>
    obtain ⟨v, s', e, _, hq, _⟩ := h
    exact ⟨v, by unfold solveOn; rw [e]; rfl, hq ⟨rfl, rfl⟩⟩
  | inr h =>
    obtain ⟨_, _, hne, _⟩ := h
    exact absurd rfl hne

end

end Chalk.FixedPoint.Mix
