/-
  C22 (writer/parser round trip): definitions used by the statements.
  * `wfTy env t` …: every bound variable of `t` refers to an existing binder of `env` of the right
    kind, binders being introduced exactly as the writer/parser introduce them;
  * `szTy t` …: fuel that suffices to parse the printed form (an upper bound of the depth of the
    parser's call chain);
  * `Faithful p`: the parser state's decoding inverts the writer state's encoding of every variable
    that is in scope.
-/
import ChalkModel.Parse

namespace Chalk.Display.Parse
open Chalk.Display

/-- the binder `(d, i)` exists in `env` and has kind `k` -/
def hasKind (env : List (List VK)) (d i : Nat) (k : VK) : Bool := kindAt env d i == some k

def wfLt (env : List (List VK)) : Lt → Bool
  | .bound d i => hasKind env d i .lt
  | _ => true

def wfCt (env : List (List VK)) : Ct → Bool
  | .bound d i => hasKind env d i .ct
  | .val _ => true

mutual
  def wfTy (env : List (List VK)) : Ty → Bool
    | .adt _ args => wfArgs env args
    | .scalar _ => true
    | .tuple ts => wfTys env ts
    | .ref _ l t => wfLt env l && wfTy env t
    | .raw _ t => wfTy env t
    | .slice t => wfTy env t
    | .array t c => wfTy env t && wfCt env c
    | .fnPtr nb args ret => wfTys (List.replicate nb .lt :: env) args && wfTy (List.replicate nb .lt :: env) ret
    | .proj _ _ self targs aargs => wfTy env self && wfArgs env targs && wfArgs env aargs
    | .dyn bs l => wfBoundsNe ([.ty] :: env) bs && wfLt env l
    | .never => true
    | .str => true
    | .bound d i => hasKind env d i .ty
  def wfGArg (env : List (List VK)) : GArg → Bool
    | .ty t => wfTy env t
    | .lt l => wfLt env l
    | .ct c => wfCt env c
  def wfArgs (env : List (List VK)) : Args → Bool
    | .nil => true
    | .cons a as => wfGArg env a && wfArgs env as
  def wfTys (env : List (List VK)) : Tys → Bool
    | .nil => true
    | .cons t ts => wfTy env t && wfTys env ts
  /-- `env` is the environment outside the bound's own binders -/
  def wfBound (env : List (List VK)) : Bound → Bool
    | .trait ks _ args => wfArgs (ks :: env) args
    | .aliasEq ks _ _ targs aargs v => wfArgs (ks :: env) targs && wfArgs (ks :: env) aargs && wfTy (ks :: env) v
  def wfBounds (env : List (List VK)) : Bounds → Bool
    | .nil => true
    | .cons b bs => wfBound env b && wfBounds env bs
  /-- a non-empty list of well-formed bounds (`dyn` needs at least one bound to be parseable) -/
  def wfBoundsNe (env : List (List VK)) : Bounds → Bool
    | .nil => false
    | .cons b bs => wfBound env b && wfBounds env bs
end

/-- well-formedness relative to a parser state -/
def WfTy (p : PSt) (t : Ty) : Prop := wfTy p.env t = true
instance (p : PSt) (t : Ty) : Decidable (WfTy p t) := by unfold WfTy; infer_instance

/-! fuel measures -/
mutual
  def szTy : Ty → Nat
    | .adt _ args => 2 + szArgs args
    | .scalar _ => 1
    | .tuple ts => 1 + szTys ts
    | .ref _ _ t => 1 + szTy t
    | .raw _ t => 1 + szTy t
    | .slice t => 1 + szTy t
    | .array t _ => 1 + szTy t
    | .fnPtr nb args ret => 2 + nb + szTys args + szTy ret
    | .proj _ _ self targs aargs => 2 + szTy self + szArgs targs + szArgs aargs
    | .dyn bs _ => 1 + szBounds bs
    | .never => 1
    | .str => 1
    | .bound _ _ => 1
  def szGArg : GArg → Nat
    | .ty t => 1 + szTy t
    | .lt _ => 1
    | .ct _ => 1
  def szArgs : Args → Nat
    | .nil => 0
    | .cons a as => 1 + szGArg a + szArgs as
  def szTys : Tys → Nat
    | .nil => 0
    | .cons t ts => 1 + szTy t + szTys ts
  def szBound : Bound → Nat
    | .trait ks _ args => 2 + ks.length + szArgs args
    | .aliasEq ks _ _ targs aargs v => 7 + ks.length + szArgs targs + szArgs aargs + szTy v
  def szBounds : Bounds → Nat
    | .nil => 0
    | .cons b bs => 1 + szBound b + szBounds bs
end

/-- The parser state decodes what the writer state encodes, for every variable in scope. -/
structure Faithful (p : PSt) : Prop where
  deep : p.st.deep = p.env.length
  keys : ∀ k w, (k, w) ∈ p.st.remap → k.1 ≤ p.st.deep ∧ w.1 ≤ p.st.deep
  self : ∀ r, p.st.self? = some r → r.1 ≤ p.st.deep
  var : ∀ d i k, kindAt p.env d i = some k → k ≠ .lt →
    p.varOf (p.st.varTok (p.st.inv d i)) = some (d, i)
  lt : ∀ d i, kindAt p.env d i = some .lt →
    ∃ a b, p.st.ltTok (p.st.inv d i) = .ltVar a b ∧ p.decode (a, b) = some (d, i)

/-- keywords a printed type can start with -/
def tyKws : List String :=
  ["(", "&", "*", "[", "for", "fn", "<", "dyn", "!", "str",
   "bool", "char", "isize", "i8", "i16", "i32", "i64", "i128",
   "usize", "u8", "u16", "u32", "u64", "u128", "f16", "f32", "f64", "f128"]

/-- first tokens of a printed type that is not a variable -/
def tyHead : Tok → Bool
  | .name _ => true
  | .kw w => decide (w ∈ tyKws)
  | _ => false

end Chalk.Display.Parse
