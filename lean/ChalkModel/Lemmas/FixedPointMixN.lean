/-
  FixedPointMixN.lean — `solve_root_goal` and histories of plain calls on stratified instances
  (coinductive and inductive goals, no mixed cycle): total correctness.
-/
import ChalkModel.Lemmas.FixedPointMixM

namespace Chalk.FixedPoint.Mix
open Chalk.FixedPoint.Cyc (JE JA MinLe InCache InGraph Def Undef flagAt StackExt stackGoals QuietSt)

section
variable {inst : Instance} {P : Nat → Prop} {dom : List Nat} {lvl : Nat → Nat} {fx : Bool} {cfg : Cfg}

theorem cacheOK_of_none {s : St} (h : s.cache = none) : CacheOK P s := by
  rintro k v ⟨cc, e, _⟩
  rw [h] at e
  cases e

theorem cacheOK_fresh (b : Bool) : CacheOK P (St.fresh b) := by
  rintro k v ⟨cc, e, hk⟩
  cases b with
  | false => cases e
  | true =>
    simp only [St.fresh, if_true, Option.some.injEq] at e
    subst e
    cases hk

/-- `solve_root_goal` on stratified instances with ANY work budget and ANY `should_continue` oracle (the
    repairs F10 and F16 are needed only if the oracle can say "stop": `fx`), caching enabled or disabled:
    it returns the true answer — or `ambig`, and then solving was interrupted —, or it ends in the budget
    panic; the cache it leaves is correct in all cases -/
theorem solveRootGoal_general (hyp : MHyp inst P dom lvl) (h3 : cfg.fixF3 = true) (h7 : cfg.fixF7 = true)
    (h10 : fx = true → cfg.fixF10 = true) (h16 : fx = true → cfg.fixF16 = true)
    (hov : dom.length ≤ cfg.overflowDepth) (hr : 2 ≤ cfg.rounds)
    (s : St) (hfx : fx = true ∨ QuietSt s) (hok : CacheOK P s) (g : Nat) (hg : g ∈ dom) :
    (∃ v s', solveRootGoal inst cfg g s = .ok v s' ∧ (Holds P v g ∨ (v = .ambig ∧ s'.interrupted = true)) ∧
      s'.stack = [] ∧ s'.graph = [] ∧ CacheOK P s' ∧ s'.cache.isSome = s.cache.isSome ∧
      (QuietSt s → s'.interrupted = false)) ∨
    (∃ s', solveRootGoal inst cfg g s = .panic .budget s' ∧ cfg.budget ≠ none ∧ CacheOK P s') := by
  have i1 : Inv inst P dom lvl fx { s with stack := [], graph := [], interrupted := false } := by
    refine ⟨hfx.imp id (fun q => ⟨q, rfl⟩), ?_, hok, ?_, ?_, List.nodup_nil, ?_, ?_, ?_, ?_, ?_, ?_, rfl, ?_, ?_⟩
    · intro i n hn; exact absurd hn (by simp)
    · intro d e he; exact absurd he (by simp)
    · intro i n d i' n' d' hn; exact absurd hn (by simp)
    all_goals first
      | (intro i n d hn; exact absurd hn (by simp))
      | (intro i n hn; exact absurd hn (by simp))
  have hbel : Below inst lvl { s with stack := [], graph := [], interrupted := false } g := by
    intro i n d hn
    exact absurd hn (by simp)
  cases solveGoal_good hyp h3 h10 h16 hov hr (cfg.overflowDepth + 1) g none _ i1 hg hbel
    (by show cfg.overflowDepth < cfg.overflowDepth + 1 + 0; omega) with
  | inr hp =>
    obtain ⟨s', hrun, h2⟩ := hp
    refine Or.inr ⟨s', ?_, h2⟩
    unfold solveRootGoal
    simp only [h7, h3, Bool.not_true, Bool.false_and, Bool.false_eq_true, if_false, if_true]
    rw [hrun]
  | inl hok' =>
  left
  obtain ⟨⟨v, m'⟩, s', hrun⟩ := hok'
  obtain ⟨i', hs', _, hf', _⟩ := solveGoal_sem hyp h3 h10 (cfg.overflowDepth + 1) g none _ v m' s' i1 hg hbel hrun
  have hstack : s'.stack = [] := List.eq_nil_of_length_eq_zero hs'.stack.1
  have hgraph : s'.graph = [] := by
    cases hgr : s'.graph with
    | nil => rfl
    | cons n rest =>
      exfalso
      have hn : s'.graph[0]? = some n := by rw [hgr]; rfl
      cases hsd : n.stackDepth with
      | some d =>
        have := (i'.stk 0 n d hn hsd).1
        rw [hstack] at this
        exact Nat.not_lt_zero _ this
      | none =>
        obtain ⟨l, _, hl⟩ := i'.nonstk 0 n hn hsd
        exact Nat.not_lt_zero _ hl
  refine ⟨v, s', ?_, ?_, hstack, hgraph, i'.cacheOK, hs'.cacheMode, fun q => (hs'.quiet q).2 rfl⟩
  · unfold solveRootGoal
    simp only [h7, h3, Bool.not_true, Bool.false_and, Bool.false_eq_true, if_false, if_true]
    rw [hrun]
  · rcases hf' with h | h | h
    · left
      cases h.2 with
      | inl ht => exact ht
      | inr hw =>
        obtain ⟨i, n, hn, _⟩ := hw
        rw [hgraph] at hn
        simp at hn
    · exact Or.inl h.2.1
    · exact Or.inr h

/-- TOTAL CORRECTNESS of `solve_root_goal` on stratified instances (no interruption, no work budget),
    caching enabled or disabled -/
theorem solveRootGoal_correct (hyp : MHyp inst P dom lvl) (h3 : cfg.fixF3 = true) (h7 : cfg.fixF7 = true)
    (hb : cfg.budget = none) (hov : dom.length ≤ cfg.overflowDepth) (hr : 2 ≤ cfg.rounds)
    (s : St) (hq : s.oracle = [] ∧ s.oracleDefault = true) (hok : CacheOK P s)
    (g : Nat) (hg : g ∈ dom) :
    ∃ v s', solveRootGoal inst cfg g s = .ok v s' ∧ Holds P v g ∧
      s'.stack = [] ∧ s'.graph = [] ∧ CacheOK P s' ∧ s'.cache.isSome = s.cache.isSome := by
  cases solveRootGoal_general (fx := false) hyp h3 h7 (fun e => by cases e) (fun e => by cases e) hov hr s
      (Or.inr hq) hok g hg with
  | inr h => obtain ⟨_, _, hne, _⟩ := h; exact absurd hb hne
  | inl h =>
    obtain ⟨v, s', h1, h2, h3', h4, h5, h6, h7'⟩ := h
    refine ⟨v, s', h1, ?_, h3', h4, h5, h6⟩
    cases h2 with
    | inl hc => exact hc
    | inr ha =>
      have := h7' hq
      rw [ha.2] at this
      cases this

/-- a plain call (`Solver::solve`) -/
theorem plainCall_correct (hyp : MHyp inst P dom lvl) (h3 : cfg.fixF3 = true) (h7 : cfg.fixF7 = true)
    (hov : dom.length ≤ cfg.overflowDepth) (hr : 2 ≤ cfg.rounds)
    (s : St) (hok : CacheOK P s) (g : Nat) (hg : g ∈ dom) :
    ∃ v s', runCall inst cfg (Call.plain g) s = .ok v s' ∧ Holds P v g ∧ CacheOK P s' := by
  obtain ⟨v, s', h1, h2, _, _, h5, _⟩ := solveRootGoal_correct (cfg := { cfg with budget := none }) hyp h3 h7 rfl
    hov hr { s with oracle := [], oracleDefault := true, work := 0 } ⟨rfl, rfl⟩ hok g hg
  exact ⟨v, s', h1, h2, h5⟩

theorem history_ok (hyp : MHyp inst P dom lvl) (h3 : cfg.fixF3 = true) (h7 : cfg.fixF7 = true)
    (hov : dom.length ≤ cfg.overflowDepth) (hr : 2 ≤ cfg.rounds) :
    ∀ (gs : List Nat), (∀ g, g ∈ gs → g ∈ dom) → ∀ s, CacheOK P s →
      CacheOK P (runHistory inst cfg (gs.map Call.plain) s)
  | [], _, _, h => h
  | g :: gs, hd, s, h => by
    simp only [List.map_cons, runHistory]
    obtain ⟨v, s', h1, _, h3'⟩ := plainCall_correct hyp h3 h7 hov hr s h g (hd g (List.mem_cons_self ..))
    rw [h1]
    exact history_ok hyp h3 h7 hov hr gs (fun x hx => hd x (List.mem_cons_of_mem _ hx)) s' h3'

/-- the answer of a plain call after any history of plain calls, cache on (`b = true`) or off -/
theorem history_correct (hyp : MHyp inst P dom lvl) (h3 : cfg.fixF3 = true) (h7 : cfg.fixF7 = true)
    (hov : dom.length ≤ cfg.overflowDepth) (hr : 2 ≤ cfg.rounds) (b : Bool)
    (gs : List Nat) (hd : ∀ g, g ∈ gs → g ∈ dom) (g : Nat) (hg : g ∈ dom) :
    ∃ v, solveOn inst cfg g (runHistory inst cfg (gs.map Call.plain) (St.fresh b)) = .value v ∧
      Holds P v g := by
  have hgood := history_ok hyp h3 h7 hov hr gs hd _ (cacheOK_fresh (P := P) b)
  obtain ⟨v, s', h1, h2, _⟩ := plainCall_correct hyp h3 h7 hov hr _ hgood g hg
  exact ⟨v, by unfold solveOn; rw [h1]; rfl, h2⟩

end

end Chalk.FixedPoint.Mix
