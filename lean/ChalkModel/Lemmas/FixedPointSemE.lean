/-
  FixedPointSemE.lean — leaving the loop of `solve_new_subgoal`: the node stays in the graph as a
  provisional result (`finish_keep`).
-/
import ChalkModel.Lemmas.FixedPointSemD

namespace Chalk.FixedPoint.Cyc

section
variable {c : Bool} {inst : Instance} {dom : List Nat} {fx : Bool}
variable {s0 st s1 : St} {g : Nat} {old cur : V} {m : Min} {new : List Node}

/-- a node of the final graph, seen in `s1` -/
theorem After.node1 (A : After c inst dom fx s0 st s1 g old cur m new) {h5 : Node} {i : Nat} {n : Node}
    (hn : (s0.graph ++ h5 :: new)[i]? = some n) :
    ∃ n', s1.graph[i]? = some n' ∧
      ((i = s0.graph.length ∧ n = h5 ∧ n' = headNode s0 g old) ∨ (i ≠ s0.graph.length ∧ n' = n)) := by
  obtain ⟨n', hn', hc⟩ := mid_corr s0.graph h5 (headNode s0 g old) new i n hn
  exact ⟨n', by rw [A.g1]; exact hn', hc⟩

theorem After.finish_keep (A : After c inst dom fx s0 st s1 g old cur m new) {s5 : St} (P : Popped s0 s1 s5)
    (hfl : ¬ flagAt s1.stack s0.stack.length ∨ old = cur) (l : Nat) (hm : m = some l)
    (hl : l < s0.graph.length) (hg5 : s5.graph = s0.graph ++ (⟨g, cur, none, m⟩ : Node) :: new) :
    Inv c inst dom fx s5 ∧ Step c inst s0 s5 m := by
  have hv : flagAt s1.stack s0.stack.length → old = top c → (⟨g, cur, none, m⟩ : Node).solution = top c := by
    intro hf ho
    cases hfl with
    | inl h => exact absurd hf h
    | inr h => rw [← h]; exact ho
  have hwit : ∀ {lb : Min} {j : Nat}, Wit c inst s1 lb j → Wit c inst s5 lb j :=
    fun h => A.wit P hg5 rfl rfl hv h
  constructor
  · refine ⟨fixes_of_eq A.i1.fixes P.oracle P.oracleDefault P.interrupted, ?_, ?_, A.popCo P, ?_, ?_, ?_, ?_, ?_, ?_, ?_, ?_, ?_⟩
    · intro i n hn ha
      rw [P.interrupted]
      rw [hg5] at hn
      obtain ⟨n', hn', hcase⟩ := A.node1 hn
      cases hcase with
      | inl h =>
        rw [h.2.1] at ha
        have e : cur = .ambig := ha
        have hf := A.fact
        rw [e] at hf
        exact hf.ambig
      | inr h => rw [← h.2] at ha; exact A.i1.amb i n' hn' ha
    · exact fun k v h => A.i1.cacheOK k v (P.inCache.mp h)
    · have := A.i1.nodup
      rw [A.g1] at this
      rw [hg5]
      simpa [List.map_append, headNode] using this
    · intro i n hn v hc
      rw [hg5] at hn
      obtain ⟨n', hn', hcase⟩ := A.node1 hn
      have hgo : n'.goal = n.goal := by
        cases hcase with
        | inl h => rw [h.2.1, h.2.2]; rfl
        | inr h => rw [h.2]
      exact A.i1.disj i n' hn' v (by rw [hgo]; exact P.inCache.mp hc)
    · intro i n hn
      rw [hg5] at hn
      obtain ⟨n', hn', hcase⟩ := A.node1 hn
      have hgo : n'.goal = n.goal := by
        cases hcase with
        | inl h => rw [h.2.1, h.2.2]; rfl
        | inr h => rw [h.2]
      rw [← hgo]; exact A.i1.inDom i n' hn'
    · intro i n hn
      rw [hg5] at hn
      obtain ⟨n', hn', hcase⟩ := A.node1 hn
      cases hcase with
      | inl h => rw [h.2.1]; exact A.cur_val
      | inr h => rw [← h.2]; exact A.i1.val i n' hn'
    · intro i n hn hb
      rw [hg5] at hn
      obtain ⟨n', hn', hcase⟩ := A.node1 hn
      cases hcase with
      | inl h =>
        rw [h.2.1] at hb ⊢
        exact A.fact.not_tgt hb
      | inr h => rw [← h.2] at hb ⊢; exact A.i1.approx i n' hn' hb
    · intro i n d hn hd
      rw [hg5] at hn
      rcases mid_cases _ _ _ i n hn with h1 | h1 | h1
      · have := A.L.i0.stk i n d h1.2 hd
        exact ⟨by rw [P.slen]; exact this.1, this.2⟩
      · rw [h1.2] at hd; cases hd
      · rw [(A.hnew n h1.2.1).1] at hd; cases hd
    · intro i n hn hd
      rw [hg5] at hn
      obtain ⟨n', hn', hcase⟩ := A.node1 hn
      cases hcase with
      | inl h => rw [h.2.1, h.1]; exact ⟨l, hm, hl⟩
      | inr h => rw [← h.2] at hd ⊢; exact A.i1.nonstk i n' hn' hd
    · rw [hg5, stackGoals_append, P.slen, ← A.L.i0.cnt]
      have : stackGoals ((⟨g, cur, none, m⟩ : Node) :: new) = [] := by
        apply stackGoals_nonstack
        intro n hn
        cases List.mem_cons.mp hn with
        | inl e => rw [e]
        | inr e => exact (A.hnew n e).1
      rw [this, List.append_nil]
    · intro i n hn hd htop
      rw [hg5] at hn
      rcases mid_cases _ _ _ i n hn with h1 | h1 | h1
      · exact J.mono (fun j hj => hj.from0 ⟨_, hg5⟩ (fun d hd => (A.popExt P).flag hd))
          (A.L.i0.just i n h1.2 hd htop)
      · rw [h1.2] at htop ⊢
        rcases A.fact with h | h | h
        · exact J.mono (fun j hj => hwit hj) h.2
        · rw [h.1] at htop; exact absurd htop.symm (top_ne_bot c)
        · rw [h.1] at htop; exact absurd htop.symm (top_ne_ambig c)
      · have hn1 : s1.graph[i]? = some n := by rw [A.g1]; exact h1.2.2 _
        exact J.mono (fun j hj => hwit hj) (A.i1.just i n hn1 hd htop)
  · refine ⟨⟨_, hg5, ?_⟩, A.popExt P, fun k v h => P.inCache.mpr (A.cacheExt k v h), ?_, ?_,
      by rw [P.cache, A.step.cacheMode, A.L.cacheMode],
      fun e => by rw [P.interrupted]; exact A.step.intr (A.L.intr e),
      fun q => by
        obtain ⟨q1, i1⟩ := A.L.quiet q
        obtain ⟨q2, i2⟩ := A.step.quiet q1
        exact ⟨⟨by rw [P.oracle]; exact q2.1, by rw [P.oracleDefault]; exact q2.2⟩,
          fun e => by rw [P.interrupted]; exact i2 (i1 e)⟩⟩
    · intro n hn
      cases List.mem_cons.mp hn with
      | inl e => rw [e]; exact ⟨rfl, MinLe.refl _⟩
      | inr e => exact A.hnew n e
    · intro k v h
      cases h with
      | inl h => exact Or.inl (P.inCache.mpr (A.cacheExt k v h))
      | inr h =>
        obtain ⟨i, n, hn, hgo, hvn⟩ := h
        exact Or.inr ⟨i, n, by rw [hg5]; exact getElem?_prefix hn, hgo, hvn⟩
    · intro k hu hd
      apply loop_low A.L A.i1 A.step A.fact k hu
      cases hd with
      | inl h => exact Or.inl (Or.inl (P.inCache.mp h))
      | inr h =>
        obtain ⟨i, n, hn, hgo, hvn⟩ := h
        rw [hg5] at hn
        rcases mid_cases _ _ _ i n hn with h1 | h1 | h1
        · exact absurd (Or.inr ⟨i, n, h1.2, hgo, hvn⟩) (hu _)
        · rw [h1.2] at hgo hvn
          exact Or.inr ⟨hgo.symm, hvn⟩
        · have hn1 : s1.graph[i]? = some n := by rw [A.g1]; exact h1.2.2 _
          exact Or.inl (Or.inr ⟨i, n, hn1, hgo, hvn⟩)

/-- the iteration was interrupted while the head's cycle flag was set: everything above the head has
    been rolled back (F10), the head stays in the graph with the answer `ambig` -/
theorem After.finish_keep_amb (A : After c inst dom fx s0 st s1 g old cur m new) (hcur : cur = .ambig) {s5 : St}
    (P : Popped s0 s1 s5) (l : Nat) (hm : m = some l) (hl : l < s0.graph.length)
    (hg5 : s5.graph = s0.graph ++ [(⟨g, .ambig, none, m⟩ : Node)]) :
    Inv c inst dom fx s5 ∧ Step c inst s0 s5 m := by
  have hint : s1.interrupted = true := by
    have hf := A.fact
    rw [hcur] at hf
    exact hf.ambig
  have hnode : ∀ {i : Nat} {n : Node}, s5.graph[i]? = some n →
      (i < s0.graph.length ∧ s0.graph[i]? = some n) ∨
      (i = s0.graph.length ∧ n = (⟨g, .ambig, none, m⟩ : Node)) := by
    intro i n hn
    rw [hg5] at hn
    rcases mid_cases _ _ _ i n hn with h1 | h1 | h1
    · exact Or.inl h1
    · exact Or.inr h1
    · cases h1.2.1
  have hflag : ∀ d, flagAt s0.stack d → flagAt s5.stack d := fun d hd => (A.popExt P).flag hd
  constructor
  · refine ⟨fixes_of_eq A.i1.fixes P.oracle P.oracleDefault P.interrupted, ?_, ?_, A.popCo P, ?_, ?_, ?_, ?_, ?_, ?_, ?_, ?_, ?_⟩
    · intro i n hn ha
      rw [P.interrupted]; exact hint
    · exact fun k v h => A.i1.cacheOK k v (P.inCache.mp h)
    · have := A.L.inv.nodup
      rw [A.gt] at this
      rw [hg5]
      simpa [List.map_append, headNode] using this
    · intro i n hn v hc
      cases hnode hn with
      | inl h => exact A.i1.disj i n (A.g0 h.2) v (P.inCache.mp hc)
      | inr h =>
        rw [h.2] at hc
        exact A.i1.disj _ _ A.head v (P.inCache.mp hc)
    · intro i n hn
      cases hnode hn with
      | inl h => exact A.L.i0.inDom i n h.2
      | inr h => rw [h.2]; exact A.L.gdom
    · intro i n hn
      cases hnode hn with
      | inl h => exact A.L.i0.val i n h.2
      | inr h => rw [h.2]; exact Or.inr (Or.inr rfl)
    · intro i n hn hb
      cases hnode hn with
      | inl h => exact A.L.i0.approx i n h.2 hb
      | inr h => rw [h.2] at hb; exact absurd hb.symm (bot_ne_ambig c)
    · intro i n d hn hd
      cases hnode hn with
      | inl h =>
        have := A.L.i0.stk i n d h.2 hd
        exact ⟨by rw [P.slen]; exact this.1, this.2⟩
      | inr h => rw [h.2] at hd; cases hd
    · intro i n hn hd
      cases hnode hn with
      | inl h => exact A.L.i0.nonstk i n h.2 hd
      | inr h => rw [h.2, h.1]; exact ⟨l, hm, hl⟩
    · rw [hg5, stackGoals_append, P.slen, ← A.L.i0.cnt]
      have : stackGoals [(⟨g, .ambig, none, m⟩ : Node)] = [] := by
        apply stackGoals_nonstack
        intro n hn
        rw [List.mem_singleton.mp hn]
      rw [this, List.append_nil]
    · intro i n hn hd htop
      cases hnode hn with
      | inl h => exact J.mono (fun j hj => hj.from0 ⟨_, hg5⟩ hflag) (A.L.i0.just i n h.2 hd htop)
      | inr h => rw [h.2] at htop; exact absurd htop.symm (top_ne_ambig c)
  · refine ⟨⟨_, hg5, ?_⟩, A.popExt P, fun k v h => P.inCache.mpr (A.cacheExt k v h), ?_, ?_,
      by rw [P.cache, A.step.cacheMode, A.L.cacheMode],
      fun e => by rw [P.interrupted]; exact A.step.intr (A.L.intr e),
      fun q => by
        obtain ⟨q1, i1⟩ := A.L.quiet q
        obtain ⟨q2, i2⟩ := A.step.quiet q1
        exact ⟨⟨by rw [P.oracle]; exact q2.1, by rw [P.oracleDefault]; exact q2.2⟩,
          fun e => by rw [P.interrupted]; exact i2 (i1 e)⟩⟩
    · intro n hn
      rw [List.mem_singleton.mp hn]; exact ⟨rfl, MinLe.refl _⟩
    · intro k v h
      cases h with
      | inl h => exact Or.inl (P.inCache.mpr (A.cacheExt k v h))
      | inr h =>
        obtain ⟨i, n, hn, hgo, hvn⟩ := h
        exact Or.inr ⟨i, n, by rw [hg5]; exact getElem?_prefix hn, hgo, hvn⟩
    · intro k hu hd
      apply loop_low A.L A.i1 A.step A.fact k hu
      cases hd with
      | inl h => exact Or.inl (Or.inl (P.inCache.mp h))
      | inr h =>
        obtain ⟨i, n, hn, hgo, hvn⟩ := h
        cases hnode hn with
        | inl h1 => exact absurd (Or.inr ⟨i, n, h1.2, hgo, hvn⟩) (hu _)
        | inr h1 =>
          rw [h1.2] at hvn
          exact absurd hvn.symm (bot_ne_ambig c)

end

end Chalk.FixedPoint.Cyc
