/-
  FixedPointSemK.lean — TOTALITY, part 1: the evaluation layer does not panic if the sub-goal
  solver does not; counting argument for the stack depth.
-/
import ChalkModel.Lemmas.FixedPointSemJ

namespace Chalk.FixedPoint.Cyc

/-- pigeonhole: a duplicate-free list inside `dom` is not longer than `dom` -/
theorem nodup_length_le : ∀ (l dom : List Nat), l.Nodup → (∀ x, x ∈ l → x ∈ dom) → l.length ≤ dom.length
  | [], _, _, _ => Nat.zero_le _
  | a :: l, dom, hn, hsub => by
    rw [List.nodup_cons] at hn
    have ha : a ∈ dom := hsub a (List.mem_cons_self ..)
    have ih := nodup_length_le l (dom.erase a) hn.2 (fun x hx => by
      have hne : x ≠ a := fun e => hn.1 (e ▸ hx)
      exact (List.mem_erase_of_ne hne).mpr (hsub x (List.mem_cons_of_mem _ hx)))
    rw [List.length_erase_of_mem ha] at ih
    have : 0 < dom.length := List.length_pos_of_mem ha
    simp only [List.length_cons]
    omega

theorem stackGoals_sublist (gr : List Node) : (stackGoals gr).Sublist (gr.map (·.goal)) := by
  unfold stackGoals
  exact List.Sublist.map _ List.filter_sublist

section
variable {c : Bool} {inst : Instance} {dom : List Nat} {fx : Bool} {rec : SubSolver} {cfg : Cfg}

theorem Inv.stackGoals_dom {s : St} (hi : Inv c inst dom fx s) : ∀ x, x ∈ stackGoals s.graph → x ∈ dom := by
  intro x hx
  have := (stackGoals_sublist s.graph).subset hx
  obtain ⟨n, hn, hgo⟩ := List.mem_map.mp this
  obtain ⟨i, hi'⟩ := List.getElem?_of_mem hn
  rw [← hgo]; exact hi.inDom i n hi'

/-- the stack is never deeper than the number of goals -/
theorem Inv.stack_le {s : St} (hi : Inv c inst dom fx s) : s.stack.length ≤ dom.length := by
  rw [← hi.cnt]
  exact nodup_length_le _ _ (hi.nodup.sublist (stackGoals_sublist _)) hi.stackGoals_dom

/-- … and there is room for a goal that is not yet in the graph -/
theorem Inv.stack_lt {s : St} (hi : Inv c inst dom fx s) {g : Nat} (hg : g ∈ dom) (hu : Undef s g) :
    s.stack.length < dom.length := by
  rw [← hi.cnt]
  have hnot : g ∉ stackGoals s.graph := by
    intro hm
    have := (stackGoals_sublist s.graph).subset hm
    obtain ⟨n, hn, hgo⟩ := List.mem_map.mp this
    obtain ⟨i, hi'⟩ := List.getElem?_of_mem hn
    exact hu n.solution (Or.inr ⟨i, n, hi', hgo, rfl⟩)
  have := nodup_length_le (g :: stackGoals s.graph) dom
    (List.nodup_cons.mpr ⟨hnot, hi.nodup.sublist (stackGoals_sublist _)⟩)
    (fun x hx => by
      cases List.mem_cons.mp hx with
      | inl e => rw [e]; exact hg
      | inr e => exact hi.stackGoals_dom x e)
  simp only [List.length_cons] at this
  omega

/-- totality specification of a sub-goal solver with depth fuel `D` -/
def SubTot (c : Bool) (inst : Instance) (dom : List Nat) (fx : Bool) (cfg : Cfg) (D : Nat) (rec : SubSolver) : Prop :=
  ∀ g m s, Inv c inst dom fx s → g ∈ dom → cfg.overflowDepth < D + s.stack.length →
    ∃ v m' s', rec g m s = .ok (v, m') s'

variable {D : Nat}

/-- every cache entry is the correct answer (vacuous when caching is disabled) -/
def CacheOK (c : Bool) (inst : Instance) (s : St) : Prop := ∀ k v, InCache s k v → Corr c inst k v

/-- the call returned, or it ended in the work-budget panic (only possible if a budget is set)
    and left a correct cache -/
def Good (c : Bool) (inst : Instance) (cfg : Cfg) {α : Type} (r : Res α) : Prop :=
  (∃ a s', r = .ok a s') ∨ (∃ s', r = .panic .budget s' ∧ cfg.budget ≠ none ∧ CacheOK c inst s')

theorem Good.of_none {α : Type} {r : Res α} (h : Good c inst cfg r) (hb : cfg.budget = none) :
    ∃ a s', r = .ok a s' := by
  cases h with
  | inl h => exact h
  | inr h => obtain ⟨_, _, hne, _⟩ := h; exact absurd hb hne

/-- "returns or budget panic" specification of a sub-goal solver with depth fuel `D` -/
def SubGood (c : Bool) (inst : Instance) (dom : List Nat) (fx : Bool) (cfg : Cfg) (D : Nat) (rec : SubSolver) : Prop :=
  ∀ g m s, Inv c inst dom fx s → g ∈ dom → cfg.overflowDepth < D + s.stack.length → Good c inst cfg (rec g m s)

/-- the tick of the work counter -/
theorem tick_cases (cfg : Cfg) {s : St} (hi : Inv c inst dom fx s) :
    tick cfg s = .ok () { s with work := s.work + 1 } ∨
    (∃ s0, tick cfg s = .panic .budget s0 ∧ cfg.budget ≠ none ∧ CacheOK c inst s0) := by
  cases ht : tick cfg s with
  | ok u s0 => left; rw [tick_ok cfg s s0 ht]
  | panic site s0 =>
    right
    obtain ⟨hsite, hbud⟩ := tick_panic_budget cfg s s0 site ht
    subst hsite
    refine ⟨s0, rfl, hbud, ?_⟩
    rw [tick_panic cfg s s0 .budget ht]
    exact hi.cacheOK

theorem fulfillRound_good (hrec : SubSpec c inst dom fx rec) (hgood : SubGood c inst dom fx cfg D rec) :
    ∀ (cs acc : List Nat) (m : Min) (s : St), Inv c inst dom fx s → (∀ x, x ∈ cs → x ∈ dom) →
      cfg.overflowDepth < D + s.stack.length → Good c inst cfg (fulfillRound rec cs acc m s)
  | [], acc, m, s, _, _, _ => Or.inl ⟨_, _, rfl⟩
  | x :: rest, acc, m, s, hi, hd, hres => by
    cases hgood x m s hi (hd x (List.mem_cons_self ..)) hres with
    | inr hp =>
      obtain ⟨s1, hr, h2⟩ := hp
      exact Or.inr ⟨s1, by simp only [fulfillRound, hr], h2⟩
    | inl hok =>
      obtain ⟨⟨v, m1⟩, s1, hr⟩ := hok
      obtain ⟨hi1, hs1, _, hf1⟩ := hrec x m s v m1 s1 hi (hd x (List.mem_cons_self ..)) hr
      simp only [fulfillRound, hr]
      cases v with
      | ambig =>
        exact fulfillRound_good hrec hgood rest (acc ++ [x]) m1 s1 hi1
          (fun y hy => hd y (List.mem_cons_of_mem _ hy)) (by rw [hs1.stack.1]; exact hres)
      | noSolution => exact Or.inl ⟨_, _, rfl⟩
      | unique =>
        exact fulfillRound_good hrec hgood rest acc m1 s1 hi1 (fun y hy => hd y (List.mem_cons_of_mem _ hy))
          (by rw [hs1.stack.1]; exact hres)

theorem suggestPass_good (h16 : fx = true → cfg.fixF16 = true) (hrec : SubSpec c inst dom fx rec)
    (hgood : SubGood c inst dom fx cfg D rec) :
    ∀ (ds : List Nat) (m : Min) (s : St), Inv c inst dom fx s → (∀ x, x ∈ ds → x ∈ dom) →
      s.interrupted = true →
      cfg.overflowDepth < D + s.stack.length → Good c inst cfg (suggestPass cfg rec ds m s)
  | [], m, s, _, _, _, _ => Or.inl ⟨_, _, rfl⟩
  | x :: rest, m, s, hi, hd, hint, hres => by
    cases hgood x m s hi (hd x (List.mem_cons_self ..)) hres with
    | inr hp =>
      obtain ⟨s1, hr, h2⟩ := hp
      exact Or.inr ⟨s1, by simp only [suggestPass, hr], h2⟩
    | inl hok =>
      obtain ⟨⟨v, m1⟩, s1, hr⟩ := hok
      obtain ⟨hi1, hs1, _, _⟩ := hrec x m s v m1 s1 hi (hd x (List.mem_cons_self ..)) hr
      simp only [suggestPass, hr]
      cases v with
      | ambig =>
        exact suggestPass_good h16 hrec hgood rest m1 s1 hi1
          (fun y hy => hd y (List.mem_cons_of_mem _ hy)) (hs1.intr hint) (by rw [hs1.stack.1]; exact hres)
      | noSolution =>
        have h16' : cfg.fixF16 = true := by
          cases hi1.fixes with
          | inl e => exact h16 e
          | inr e =>
            have := hs1.intr hint
            rw [e.2] at this
            cases this
        simp only [h16', if_true]; exact Or.inl ⟨_, _, rfl⟩
      | unique => exact Or.inl ⟨_, _, rfl⟩

theorem fulfillSolve_good (h16 : fx = true → cfg.fixF16 = true) (hrec : SubSpec c inst dom fx rec)
    (hgood : SubGood c inst dom fx cfg D rec)
    (alt : List Nat) (m : Min) (s : St) (hi : Inv c inst dom fx s) (hd : ∀ x, x ∈ alt → x ∈ dom)
    (hres : cfg.overflowDepth < D + s.stack.length) : Good c inst cfg (fulfillSolve cfg rec alt m s) := by
  unfold fulfillSolve
  cases fulfillRound_good hrec hgood alt.reverse [] m s hi (fun x hx => hd x (List.mem_reverse.mp hx)) hres with
  | inr hp =>
    obtain ⟨s1, hr, h2⟩ := hp
    rw [hr]
    exact Or.inr ⟨s1, rfl, h2⟩
  | inl hok =>
    obtain ⟨⟨o, m1⟩, s1, hr⟩ := hok
    obtain ⟨hi1, hs1, _, hcase⟩ := fulfillRound_sem hrec alt.reverse [] m s o m1 s1 hi
      (fun x hx => hd x (List.mem_reverse.mp hx)) hr
    rw [hr]
    cases hcase with
    | inr h => rw [h.1]; exact Or.inl ⟨_, _, rfl⟩
    | inl h =>
      obtain ⟨ret, ho, hsub, hint, _⟩ := h
      rw [List.nil_append] at ho
      subst ho
      cases ret with
      | nil => exact Or.inl ⟨_, _, rfl⟩
      | cons r0 rs =>
        simp only
        exact suggestPass_good h16 hrec hgood (r0 :: rs).reverse m1 s1 hi1
          (fun x hx => hd x (List.mem_reverse.mp (hsub x (List.mem_reverse.mp hx))))
          (hint (by simp)) (by rw [hs1.stack.1]; exact hres)

theorem solveFromClauses_good (h16 : fx = true → cfg.fixF16 = true) (hrec : SubSpec c inst dom fx rec)
    (hgood : SubGood c inst dom fx cfg D rec) :
    ∀ (alts : List (List Nat)) (cur : Option V) (m : Min) (s : St), Inv c inst dom fx s → CurOK s cur →
      (∀ alt, alt ∈ alts → ∀ x, x ∈ alt → x ∈ dom) → cfg.overflowDepth < D + s.stack.length →
      Good c inst cfg (solveFromClauses cfg rec true alts cur m s)
  | [], cur, m, s, _, _, _, _ => Or.inl ⟨_, _, rfl⟩
  | alt :: rest, cur, m, s, hi, hcur, hd, hres => by
    rw [solveFromClauses_cons]
    cases fulfillSolve_good h16 hrec hgood alt m s hi (hd alt (List.mem_cons_self ..)) hres with
    | inr hp =>
      obtain ⟨s1, hr, h2⟩ := hp
      rw [hr]
      exact Or.inr ⟨s1, rfl, h2⟩
    | inl hok =>
      obtain ⟨⟨w, m1⟩, s1, hr⟩ := hok
      obtain ⟨hi1, hs1, _, hcase⟩ := fulfillSolve_sem hrec alt m s w m1 s1 hi (hd alt (List.mem_cons_self ..)) hr
      rw [hr]
      have hcur1 : CurOK s1 cur := hcur.imp id (fun e => ⟨e.1, hs1.intr e.2⟩)
      have hrest := fun (cur' : Option V) (hc' : CurOK s1 cur') =>
        solveFromClauses_good h16 hrec hgood rest cur' m1 s1 hi1 hc'
          (fun a ha => hd a (List.mem_cons_of_mem _ ha)) (by rw [hs1.stack.1]; exact hres)
      rcases hcase with h | h | h
      · rw [h.1]
        have hstep : stepCur true .unique cur = some .unique := by
          cases hcur with
          | inl e => subst e; rfl
          | inr e => rw [e.1]; rfl
        simp only [hstep, trivialTrue, Bool.true_and, beq_self_eq_true, if_true]
        exact Or.inl ⟨_, _, rfl⟩
      · rw [h.1]
        have hstep : stepCur true .noSolution cur = cur := rfl
        simp only [hstep]
        cases hcur with
        | inl e => subst e; exact hrest none (Or.inl rfl)
        | inr e =>
          rw [e.1]
          have := hrest (some .ambig) (Or.inr ⟨rfl, hs1.intr e.2⟩)
          simpa [trivialTrue] using this
      · rw [h.1]
        have hstep : stepCur true .ambig cur = some .ambig := by
          cases hcur with
          | inl e => subst e; rfl
          | inr e => rw [e.1]; rfl
        simp only [hstep]
        have := hrest (some .ambig) (Or.inr ⟨rfl, h.2⟩)
        simpa [trivialTrue] using this

theorem solveIteration_good (hyp : Hyp c inst dom) (h16 : fx = true → cfg.fixF16 = true) (hrec : SubSpec c inst dom fx rec)
    (hgood : SubGood c inst dom fx cfg D rec) (g : Nat) (hg : g ∈ dom) (m : Min) (s : St)
    (hi : Inv c inst dom fx s) (hres : cfg.overflowDepth < D + s.stack.length) :
    Good c inst cfg (solveIteration inst cfg rec g m s) := by
  unfold solveIteration
  obtain ⟨b, o, hb, hq⟩ := shouldContinue_cases s
  rw [hb]
  cases b with
  | false => exact Or.inl ⟨_, _, rfl⟩
  | true =>
    simp only [hyp.ground g hg]
    exact solveFromClauses_good h16 hrec hgood (inst.deps g) none m _ (hi.oracleChange o s.interrupted id (fun q e => ⟨(hq q).2, e⟩))
      (Or.inl rfl) (fun alt ha x hx => hyp.closed g hg alt ha x hx) hres

theorem tick_none (h : cfg.budget = none) (s : St) : tick cfg s = .ok () { s with work := s.work + 1 } := by
  unfold tick
  rw [h]

theorem drain_ok (dfn : Nat) : ∀ (ns : List Node) (cc : List (Nat × V)),
    (∀ n : Node, n ∈ ns → n.stackDepth = none ∧ Min.ge n.links dfn = true) →
    ∃ cc', drainToCache dfn ns cc = .ok cc'
  | [], cc, _ => ⟨cc, rfl⟩
  | n :: ns, cc, h => by
    obtain ⟨h1, h2⟩ := h n (List.mem_cons_self ..)
    simp only [drainToCache, h1, Option.isSome_none, Bool.false_eq_true, if_false, h2, Bool.not_true]
    exact drain_ok dfn ns _ (fun n' hn' => h n' (List.mem_cons_of_mem _ hn'))

end

end Chalk.FixedPoint.Cyc
