/-
  FixedPointSemK.lean — TOTALITY, part 1: the evaluation layer does not panic if the sub-goal
  solver does not; counting argument for the stack depth.
-/
import ChalkModel.Lemmas.FixedPointSemJ

namespace Chalk.FixedPoint.Cyc

/-- pigeonhole: a duplicate-free list inside `dom` is not longer than `dom` -/
theorem nodup_length_le : ∀ (l dom : List Nat), l.Nodup → (∀ x, x ∈ l → x ∈ dom) → l.length ≤ dom.length
  | [], _, _, _ => Nat.zero_le _
  | a :: l, dom, hn, hsub => by
    rw [List.nodup_cons] at hn
    have ha : a ∈ dom := hsub a (List.mem_cons_self ..)
    have ih := nodup_length_le l (dom.erase a) hn.2 (fun x hx => by
      have hne : x ≠ a := fun e => hn.1 (e ▸ hx)
      exact (List.mem_erase_of_ne hne).mpr (hsub x (List.mem_cons_of_mem _ hx)))
    rw [List.length_erase_of_mem ha] at ih
    have : 0 < dom.length := List.length_pos_of_mem ha
    simp only [List.length_cons]
    omega

theorem stackGoals_sublist (gr : List Node) : (stackGoals gr).Sublist (gr.map (·.goal)) := by
  unfold stackGoals
  exact List.Sublist.map _ List.filter_sublist

section
variable {c : Bool} {inst : Instance} {dom : List Nat} {rec : SubSolver} {cfg : Cfg}

theorem Inv.stackGoals_dom {s : St} (hi : Inv c inst dom s) : ∀ x, x ∈ stackGoals s.graph → x ∈ dom := by
  intro x hx
  have := (stackGoals_sublist s.graph).subset hx
  obtain ⟨n, hn, hgo⟩ := List.mem_map.mp this
  obtain ⟨i, hi'⟩ := List.getElem?_of_mem hn
  rw [← hgo]; exact hi.inDom i n hi'

/-- the stack is never deeper than the number of goals -/
theorem Inv.stack_le {s : St} (hi : Inv c inst dom s) : s.stack.length ≤ dom.length := by
  rw [← hi.cnt]
  exact nodup_length_le _ _ (hi.nodup.sublist (stackGoals_sublist _)) hi.stackGoals_dom

/-- … and there is room for a goal that is not yet in the graph -/
theorem Inv.stack_lt {s : St} (hi : Inv c inst dom s) {g : Nat} (hg : g ∈ dom) (hu : Undef s g) :
    s.stack.length < dom.length := by
  rw [← hi.cnt]
  have hnot : g ∉ stackGoals s.graph := by
    intro hm
    have := (stackGoals_sublist s.graph).subset hm
    obtain ⟨n, hn, hgo⟩ := List.mem_map.mp this
    obtain ⟨i, hi'⟩ := List.getElem?_of_mem hn
    exact hu n.solution (Or.inr ⟨i, n, hi', hgo, rfl⟩)
  have := nodup_length_le (g :: stackGoals s.graph) dom
    (List.nodup_cons.mpr ⟨hnot, hi.nodup.sublist (stackGoals_sublist _)⟩)
    (fun x hx => by
      cases List.mem_cons.mp hx with
      | inl e => rw [e]; exact hg
      | inr e => exact hi.stackGoals_dom x e)
  simp only [List.length_cons] at this
  omega

/-- totality specification of a sub-goal solver with depth fuel `D` -/
def SubTot (c : Bool) (inst : Instance) (dom : List Nat) (cfg : Cfg) (D : Nat) (rec : SubSolver) : Prop :=
  ∀ g m s, Inv c inst dom s → g ∈ dom → cfg.overflowDepth < D + s.stack.length →
    ∃ v m' s', rec g m s = .ok (v, m') s'

variable {D : Nat}

theorem fulfillRound_tot (hrec : SubSpec c inst dom rec) (htot : SubTot c inst dom cfg D rec) :
    ∀ (cs acc : List Nat) (m : Min) (s : St), Inv c inst dom s → (∀ x, x ∈ cs → x ∈ dom) →
      cfg.overflowDepth < D + s.stack.length →
      ∃ o m' s', fulfillRound rec cs acc m s = .ok (o, m') s'
  | [], acc, m, s, _, _, _ => ⟨some acc, m, s, rfl⟩
  | x :: rest, acc, m, s, hi, hd, hres => by
    obtain ⟨v, m1, s1, hr⟩ := htot x m s hi (hd x (List.mem_cons_self ..)) hres
    obtain ⟨hi1, hs1, _, hf1⟩ := hrec x m s v m1 s1 hi (hd x (List.mem_cons_self ..)) hr
    simp only [fulfillRound, hr]
    cases v with
    | ambig => exact hf1.ne_ambig.elim
    | noSolution => exact ⟨none, m1, s1, rfl⟩
    | unique =>
      exact fulfillRound_tot hrec htot rest acc m1 s1 hi1 (fun y hy => hd y (List.mem_cons_of_mem _ hy))
        (by rw [hs1.stack.1]; exact hres)

theorem fulfillSolve_tot (hrec : SubSpec c inst dom rec) (htot : SubTot c inst dom cfg D rec)
    (alt : List Nat) (m : Min) (s : St) (hi : Inv c inst dom s) (hd : ∀ x, x ∈ alt → x ∈ dom)
    (hres : cfg.overflowDepth < D + s.stack.length) :
    ∃ v m' s', fulfillSolve cfg rec alt m s = .ok (v, m') s' := by
  obtain ⟨o, m1, s1, hr⟩ := fulfillRound_tot hrec htot alt.reverse [] m s hi
    (fun x hx => hd x (List.mem_reverse.mp hx)) hres
  obtain ⟨_, _, _, hcase⟩ := fulfillRound_sem hrec alt.reverse [] m s o m1 s1 hi
    (fun x hx => hd x (List.mem_reverse.mp hx)) hr
  unfold fulfillSolve
  rw [hr]
  cases hcase with
  | inl h => rw [h.1]; exact ⟨_, _, _, rfl⟩
  | inr h => rw [h.1]; exact ⟨_, _, _, rfl⟩

theorem solveFromClauses_tot (hrec : SubSpec c inst dom rec) (htot : SubTot c inst dom cfg D rec) :
    ∀ (alts : List (List Nat)) (m : Min) (s : St), Inv c inst dom s →
      (∀ alt, alt ∈ alts → ∀ x, x ∈ alt → x ∈ dom) → cfg.overflowDepth < D + s.stack.length →
      ∃ v m' s', solveFromClauses cfg rec true alts none m s = .ok (v, m') s'
  | [], m, s, _, _, _ => ⟨_, _, _, rfl⟩
  | alt :: rest, m, s, hi, hd, hres => by
    obtain ⟨w, m1, s1, hr⟩ := fulfillSolve_tot hrec htot alt m s hi (hd alt (List.mem_cons_self ..)) hres
    obtain ⟨hi1, hs1, _, hcase⟩ := fulfillSolve_sem hrec alt m s w m1 s1 hi (hd alt (List.mem_cons_self ..)) hr
    rw [solveFromClauses_cons, hr]
    cases hcase with
    | inl h =>
      rw [h.1]
      simp only [stepCur, trivialTrue, Bool.true_and, beq_self_eq_true, if_true]
      exact ⟨_, _, _, rfl⟩
    | inr h =>
      rw [h.1]
      simp only [stepCur]
      exact solveFromClauses_tot hrec htot rest m1 s1 hi1 (fun a ha => hd a (List.mem_cons_of_mem _ ha))
        (by rw [hs1.stack.1]; exact hres)

theorem solveIteration_tot (hyp : Hyp c inst dom) (hrec : SubSpec c inst dom rec)
    (htot : SubTot c inst dom cfg D rec) (g : Nat) (hg : g ∈ dom) (m : Min) (s : St)
    (hi : Inv c inst dom s) (hres : cfg.overflowDepth < D + s.stack.length) :
    ∃ v m' s', solveIteration inst cfg rec g m s = .ok (v, m') s' := by
  unfold solveIteration
  rw [shouldContinue_quiet hi.quiet]
  simp only [hyp.ground g hg]
  exact solveFromClauses_tot hrec htot (inst.deps g) m s hi (fun alt ha x hx => hyp.closed g hg alt ha x hx) hres

theorem tick_none (h : cfg.budget = none) (s : St) : tick cfg s = .ok () { s with work := s.work + 1 } := by
  unfold tick
  rw [h]

theorem drain_ok (dfn : Nat) : ∀ (ns : List Node) (cc : List (Nat × V)),
    (∀ n : Node, n ∈ ns → n.stackDepth = none ∧ Min.ge n.links dfn = true) →
    ∃ cc', drainToCache dfn ns cc = .ok cc'
  | [], cc, _ => ⟨cc, rfl⟩
  | n :: ns, cc, h => by
    obtain ⟨h1, h2⟩ := h n (List.mem_cons_self ..)
    simp only [drainToCache, h1, Option.isSome_none, Bool.false_eq_true, if_false, h2, Bool.not_true]
    exact drain_ok dfn ns _ (fun n' hn' => h n' (List.mem_cons_of_mem _ hn'))

end

end Chalk.FixedPoint.Cyc
