/-
  FixedPointSemP.lean — calls that carry a work budget (a panic injected at any work step):
  the cache stays correct, later calls are exact.
-/
import ChalkModel.Lemmas.FixedPointSemN

namespace Chalk.FixedPoint.Cyc

section
variable {c : Bool} {inst : Instance} {dom : List Nat} {fx : Bool} {cfg : Cfg}

/-- a call that is not interrupted; its work budget is arbitrary -/
def QuietCall (k : Call) : Prop := k.oracle = [] ∧ k.dflt = true

theorem cacheOK_fresh (c : Bool) (inst : Instance) (b : Bool) : CacheOK c inst (St.fresh b) := by
  rintro k v ⟨cc, e, hk⟩
  cases b with
  | false => cases e
  | true =>
    simp only [St.fresh, if_true, Option.some.injEq] at e
    subst e
    cases hk

/-- one call with an arbitrary budget: the correct answer, or the budget panic; correct cache after -/
theorem budgetCall_good (hyp : Hyp c inst dom) (h3 : cfg.fixF3 = true) (h7 : cfg.fixF7 = true)
    (hov : dom.length ≤ cfg.overflowDepth) (hr : 2 ≤ cfg.rounds) (s : St) (hok : CacheOK c inst s)
    (k : Call) (hk : QuietCall k) (hg : k.goal ∈ dom) :
    (∃ v s', runCall inst cfg k s = .ok v s' ∧ Corr c inst k.goal v ∧ CacheOK c inst s') ∨
    (∃ s', runCall inst cfg k s = .panic .budget s' ∧ k.budget ≠ none ∧ CacheOK c inst s') := by
  unfold runCall
  cases solveRootGoal_good (cfg := { cfg with budget := k.budget }) hyp h3 h7 hov hr
      { s with oracle := k.oracle, oracleDefault := k.dflt, work := 0 } ⟨hk.1, hk.2⟩ hok k.goal hg with
  | inl h =>
    obtain ⟨v, s', h1, h2, _, _, h5, _⟩ := h
    exact Or.inl ⟨v, s', h1, h2, h5⟩
  | inr h => exact Or.inr h

theorem budgetCall_state (hyp : Hyp c inst dom) (h3 : cfg.fixF3 = true) (h7 : cfg.fixF7 = true)
    (hov : dom.length ≤ cfg.overflowDepth) (hr : 2 ≤ cfg.rounds) (s : St) (hok : CacheOK c inst s)
    (k : Call) (hk : QuietCall k) (hg : k.goal ∈ dom) : CacheOK c inst (runCall inst cfg k s).state := by
  cases budgetCall_good hyp h3 h7 hov hr s hok k hk hg with
  | inl h => obtain ⟨v, s', h1, _, h3'⟩ := h; rw [h1]; exact h3'
  | inr h => obtain ⟨s', h1, _, h3'⟩ := h; rw [h1]; exact h3'

/-- any history of calls with arbitrary budgets keeps the cache correct -/
theorem budgetHistory_cacheOK (hyp : Hyp c inst dom) (h3 : cfg.fixF3 = true) (h7 : cfg.fixF7 = true)
    (hov : dom.length ≤ cfg.overflowDepth) (hr : 2 ≤ cfg.rounds) :
    ∀ (ks : List Call), (∀ k, k ∈ ks → QuietCall k ∧ k.goal ∈ dom) → ∀ s, CacheOK c inst s →
      CacheOK c inst (runHistory inst cfg ks s)
  | [], _, _, h => h
  | k :: ks, hd, s, h => by
    simp only [runHistory]
    exact budgetHistory_cacheOK hyp h3 h7 hov hr ks (fun x hx => hd x (List.mem_cons_of_mem _ hx)) _
      (budgetCall_state hyp h3 h7 hov hr s h k (hd k (List.mem_cons_self ..)).1 (hd k (List.mem_cons_self ..)).2)

/-- every outcome of such a history is the correct answer or the budget panic -/
theorem budgetHistory_outcomes (hyp : Hyp c inst dom) (h3 : cfg.fixF3 = true) (h7 : cfg.fixF7 = true)
    (hov : dom.length ≤ cfg.overflowDepth) (hr : 2 ≤ cfg.rounds) :
    ∀ (ks : List Call), (∀ k, k ∈ ks → QuietCall k ∧ k.goal ∈ dom) → ∀ s, CacheOK c inst s →
      ∀ (i : Nat) (k : Call), ks[i]? = some k →
        (outcomes inst cfg ks s)[i]? = some (.panic .budget) ∧ k.budget ≠ none ∨
        ∃ v, (outcomes inst cfg ks s)[i]? = some (.value v) ∧ Corr c inst k.goal v
  | [], _, _, _, i, k, hi => by simp at hi
  | k0 :: ks, hd, s, h, i, k, hi => by
    have hk0 := hd k0 (List.mem_cons_self ..)
    simp only [outcomes]
    cases i with
    | zero =>
      simp only [List.getElem?_cons_zero, Option.some.injEq] at hi
      subst hi
      simp only [List.getElem?_cons_zero]
      cases budgetCall_good hyp h3 h7 hov hr s h k0 hk0.1 hk0.2 with
      | inl h1 => obtain ⟨v, s', e, hc, _⟩ := h1; rw [e]; exact Or.inr ⟨v, rfl, hc⟩
      | inr h1 => obtain ⟨s', e, hne, _⟩ := h1; rw [e]; exact Or.inl ⟨rfl, hne⟩
    | succ i =>
      simp only [List.getElem?_cons_succ] at hi ⊢
      exact budgetHistory_outcomes hyp h3 h7 hov hr ks (fun x hx => hd x (List.mem_cons_of_mem _ hx)) _
        (budgetCall_state hyp h3 h7 hov hr s h k0 hk0.1 hk0.2) i k hi

/-- after any such history a plain call is exact -/
theorem budgetHistory_then_plain (hyp : Hyp c inst dom) (h3 : cfg.fixF3 = true) (h7 : cfg.fixF7 = true)
    (hov : dom.length ≤ cfg.overflowDepth) (hr : 2 ≤ cfg.rounds) (b : Bool)
    (ks : List Call) (hd : ∀ k, k ∈ ks → QuietCall k ∧ k.goal ∈ dom) (g : Nat) (hg : g ∈ dom) :
    ∃ v, solveOn inst cfg g (runHistory inst cfg ks (St.fresh b)) = .value v ∧ Corr c inst g v := by
  have hok := budgetHistory_cacheOK hyp h3 h7 hov hr ks hd _ (cacheOK_fresh c inst b)
  cases budgetCall_good hyp h3 h7 hov hr _ hok (Call.plain g) ⟨rfl, rfl⟩ hg with
  | inl h =>
    obtain ⟨v, s', e, hc, _⟩ := h
    exact ⟨v, by unfold solveOn; rw [e]; rfl, hc⟩
  | inr h =>
    obtain ⟨_, _, hne, _⟩ := h
    exact absurd rfl hne

end

end Chalk.FixedPoint.Cyc
