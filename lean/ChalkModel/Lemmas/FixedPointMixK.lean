/-
  FixedPointMixK.lean — TOTALITY (mixed polarities), part 1: the evaluation layer does not panic if the sub-goal
  solver does not; counting argument for the stack depth.
-/
import ChalkModel.Lemmas.FixedPointMixJ
import ChalkModel.Lemmas.FixedPointSemK

namespace Chalk.FixedPoint.Mix
open Chalk.FixedPoint.Cyc (JE JA MinLe InCache InGraph Def Undef flagAt StackExt stackGoals
  nodup_length_le stackGoals_sublist shouldContinue_quiet)

section
variable {inst : Instance} {P : Nat → Prop} {dom : List Nat} {lvl : Nat → Nat} {rec : SubSolver} {cfg : Cfg}

theorem Inv.stackGoals_dom {s : St} (hi : Inv inst P dom lvl s) : ∀ x, x ∈ stackGoals s.graph → x ∈ dom := by
  intro x hx
  have := (stackGoals_sublist s.graph).subset hx
  obtain ⟨n, hn, hgo⟩ := List.mem_map.mp this
  obtain ⟨i, hi'⟩ := List.getElem?_of_mem hn
  rw [← hgo]; exact hi.inDom i n hi'

/-- the stack is never deeper than the number of goals -/
theorem Inv.stack_le {s : St} (hi : Inv inst P dom lvl s) : s.stack.length ≤ dom.length := by
  rw [← hi.cnt]
  exact nodup_length_le _ _ (hi.nodup.sublist (stackGoals_sublist _)) hi.stackGoals_dom

/-- … and there is room for a goal that is not yet in the graph -/
theorem Inv.stack_lt {s : St} (hi : Inv inst P dom lvl s) {g : Nat} (hg : g ∈ dom) (hu : Undef s g) :
    s.stack.length < dom.length := by
  rw [← hi.cnt]
  have hnot : g ∉ stackGoals s.graph := by
    intro hm
    have := (stackGoals_sublist s.graph).subset hm
    obtain ⟨n, hn, hgo⟩ := List.mem_map.mp this
    obtain ⟨i, hi'⟩ := List.getElem?_of_mem hn
    exact hu n.solution (Or.inr ⟨i, n, hi', hgo, rfl⟩)
  have := nodup_length_le (g :: stackGoals s.graph) dom
    (List.nodup_cons.mpr ⟨hnot, hi.nodup.sublist (stackGoals_sublist _)⟩)
    (fun x hx => by
      cases List.mem_cons.mp hx with
      | inl e => rw [e]; exact hg
      | inr e => exact hi.stackGoals_dom x e)
  simp only [List.length_cons] at this
  omega

/-- totality specification of a sub-goal solver with depth fuel `D` -/
def SubTot (inst : Instance) (P : Nat → Prop) (dom : List Nat) (lvl : Nat → Nat) (cfg : Cfg) (D : Nat)
    (rec : SubSolver) : Prop :=
  ∀ g m s, Inv inst P dom lvl s → g ∈ dom → Below inst lvl s g → cfg.overflowDepth < D + s.stack.length →
    ∃ v m' s', rec g m s = .ok (v, m') s'

variable {D : Nat}

theorem fulfillRound_tot (hrec : SubSpec inst P dom lvl rec) (htot : SubTot inst P dom lvl cfg D rec) (L : Nat) :
    ∀ (cs acc : List Nat) (m : Min) (s : St), Inv inst P dom lvl s →
      (∀ x, x ∈ cs → x ∈ dom ∧ Below inst lvl s x ∧ lvl x ≤ L) →
      cfg.overflowDepth < D + s.stack.length →
      ∃ o m' s', fulfillRound rec cs acc m s = .ok (o, m') s'
  | [], acc, m, s, _, _, _ => ⟨some acc, m, s, rfl⟩
  | x :: rest, acc, m, s, hi, hd, hres => by
    obtain ⟨hxd, hxb, _⟩ := hd x (List.mem_cons_self ..)
    obtain ⟨v, m1, s1, hr⟩ := htot x m s hi hxd hxb hres
    obtain ⟨hi1, hs1, _, hf1, _⟩ := hrec x m s v m1 s1 hi hxd hxb hr
    simp only [fulfillRound, hr]
    cases v with
    | ambig => exact hf1.ne_ambig.elim
    | noSolution => exact ⟨none, m1, s1, rfl⟩
    | unique =>
      exact fulfillRound_tot hrec htot L rest acc m1 s1 hi1 (fun y hy => by
          obtain ⟨a, b, c⟩ := hd y (List.mem_cons_of_mem _ hy)
          exact ⟨a, b.step hs1, c⟩)
        (by rw [hs1.stack.1]; exact hres)

theorem fulfillSolve_tot (hrec : SubSpec inst P dom lvl rec) (htot : SubTot inst P dom lvl cfg D rec) (L : Nat)
    (alt : List Nat) (m : Min) (s : St) (hi : Inv inst P dom lvl s)
    (hd : ∀ x, x ∈ alt → x ∈ dom ∧ Below inst lvl s x ∧ lvl x ≤ L)
    (hres : cfg.overflowDepth < D + s.stack.length) :
    ∃ v m' s', fulfillSolve cfg rec alt m s = .ok (v, m') s' := by
  obtain ⟨o, m1, s1, hr⟩ := fulfillRound_tot hrec htot L alt.reverse [] m s hi
    (fun x hx => hd x (List.mem_reverse.mp hx)) hres
  obtain ⟨_, _, _, _, hcase⟩ := fulfillRound_sem hrec L 0 alt.reverse [] m s o m1 s1 hi (Nat.zero_le _)
    (fun x hx => hd x (List.mem_reverse.mp hx)) hr
  unfold fulfillSolve
  rw [hr]
  cases hcase with
  | inl h => rw [h.1]; exact ⟨_, _, _, rfl⟩
  | inr h => rw [h.1]; exact ⟨_, _, _, rfl⟩

theorem solveFromClauses_tot (hrec : SubSpec inst P dom lvl rec) (htot : SubTot inst P dom lvl cfg D rec) (L : Nat) :
    ∀ (alts : List (List Nat)) (m : Min) (s : St), Inv inst P dom lvl s →
      (∀ alt, alt ∈ alts → ∀ x, x ∈ alt → x ∈ dom ∧ Below inst lvl s x ∧ lvl x ≤ L) →
      cfg.overflowDepth < D + s.stack.length →
      ∃ v m' s', solveFromClauses cfg rec true alts none m s = .ok (v, m') s'
  | [], m, s, _, _, _ => ⟨_, _, _, rfl⟩
  | alt :: rest, m, s, hi, hd, hres => by
    obtain ⟨w, m1, s1, hr⟩ := fulfillSolve_tot hrec htot L alt m s hi (hd alt (List.mem_cons_self ..)) hres
    obtain ⟨hi1, hs1, _, _, hcase⟩ := fulfillSolve_sem hrec L 0 alt m s w m1 s1 hi (Nat.zero_le _)
      (hd alt (List.mem_cons_self ..)) hr
    rw [solveFromClauses_cons, hr]
    cases hcase with
    | inl h =>
      rw [h.1]
      simp only [stepCur, trivialTrue, Bool.true_and, beq_self_eq_true, if_true]
      exact ⟨_, _, _, rfl⟩
    | inr h =>
      rw [h.1]
      simp only [stepCur]
      exact solveFromClauses_tot hrec htot L rest m1 s1 hi1 (fun a ha y hy => by
          obtain ⟨p, q, r⟩ := hd a (List.mem_cons_of_mem _ ha) y hy
          exact ⟨p, q.step hs1, r⟩)
        (by rw [hs1.stack.1]; exact hres)

theorem solveIteration_tot (hyp : MHyp inst P dom lvl) (hrec : SubSpec inst P dom lvl rec)
    (htot : SubTot inst P dom lvl cfg D rec) (g : Nat) (hg : g ∈ dom) (m : Min) (s : St)
    (hi : Inv inst P dom lvl s) (ht : GTop s g) (hres : cfg.overflowDepth < D + s.stack.length) :
    ∃ v m' s', solveIteration inst cfg rec g m s = .ok (v, m') s' := by
  unfold solveIteration
  rw [shouldContinue_quiet hi.quiet]
  simp only [hyp.ground g hg]
  exact solveFromClauses_tot hrec htot (lvl g) (inst.deps g) m s hi
    (fun alt ha x hx => ⟨hyp.closed g hg alt ha x hx, below_of_dep hi ht (hyp.lvl_le g hg alt ha x hx),
      (hyp.lvl_le g hg alt ha x hx).1⟩) hres

end

end Chalk.FixedPoint.Mix
