/-
  FixedPointMixK.lean — TOTALITY (mixed polarities), part 1: the evaluation layer does not panic if the sub-goal
  solver does not; counting argument for the stack depth.
-/
import ChalkModel.Lemmas.FixedPointMixJ
import ChalkModel.Lemmas.FixedPointSemK

namespace Chalk.FixedPoint.Mix
open Chalk.FixedPoint.Cyc (JE JA MinLe InCache InGraph Def Undef flagAt StackExt stackGoals
  nodup_length_le stackGoals_sublist shouldContinue_cases QuietSt)

section
variable {inst : Instance} {P : Nat → Prop} {dom : List Nat} {lvl : Nat → Nat} {fx : Bool} {rec : SubSolver} {cfg : Cfg}

theorem Inv.stackGoals_dom {s : St} (hi : Inv inst P dom lvl fx s) : ∀ x, x ∈ stackGoals s.graph → x ∈ dom := by
  intro x hx
  have := (stackGoals_sublist s.graph).subset hx
  obtain ⟨n, hn, hgo⟩ := List.mem_map.mp this
  obtain ⟨i, hi'⟩ := List.getElem?_of_mem hn
  rw [← hgo]; exact hi.inDom i n hi'

/-- the stack is never deeper than the number of goals -/
theorem Inv.stack_le {s : St} (hi : Inv inst P dom lvl fx s) : s.stack.length ≤ dom.length := by
  rw [← hi.cnt]
  exact nodup_length_le _ _ (hi.nodup.sublist (stackGoals_sublist _)) hi.stackGoals_dom

/-- … and there is room for a goal that is not yet in the graph -/
theorem Inv.stack_lt {s : St} (hi : Inv inst P dom lvl fx s) {g : Nat} (hg : g ∈ dom) (hu : Undef s g) :
    s.stack.length < dom.length := by
  rw [← hi.cnt]
  have hnot : g ∉ stackGoals s.graph := by
    intro hm
    have := (stackGoals_sublist s.graph).subset hm
    obtain ⟨n, hn, hgo⟩ := List.mem_map.mp this
    obtain ⟨i, hi'⟩ := List.getElem?_of_mem hn
    exact hu n.solution (Or.inr ⟨i, n, hi', hgo, rfl⟩)
  have := nodup_length_le (g :: stackGoals s.graph) dom
    (List.nodup_cons.mpr ⟨hnot, hi.nodup.sublist (stackGoals_sublist _)⟩)
    (fun x hx => by
      cases List.mem_cons.mp hx with
      | inl e => rw [e]; exact hg
      | inr e => exact hi.stackGoals_dom x e)
  simp only [List.length_cons] at this
  omega

/-- totality specification of a sub-goal solver with depth fuel `D` -/
def SubTot (inst : Instance) (P : Nat → Prop) (dom : List Nat) (lvl : Nat → Nat) (fx : Bool) (cfg : Cfg) (D : Nat)
    (rec : SubSolver) : Prop :=
  ∀ g m s, Inv inst P dom lvl fx s → g ∈ dom → Below inst lvl s g → cfg.overflowDepth < D + s.stack.length →
    ∃ v m' s', rec g m s = .ok (v, m') s'

variable {D : Nat}

/-- every cache entry is the true answer (vacuous when caching is disabled) -/
def CacheOK (P : Nat → Prop) (s : St) : Prop := ∀ k v, InCache s k v → Holds P v k

/-- the call returned, or it ended in the work-budget panic (only possible if a budget is set)
    and left a correct cache -/
def Good (P : Nat → Prop) (cfg : Cfg) {α : Type} (r : Res α) : Prop :=
  (∃ a s', r = .ok a s') ∨ (∃ s', r = .panic .budget s' ∧ cfg.budget ≠ none ∧ CacheOK P s')

theorem Good.of_none {α : Type} {r : Res α} (h : Good P cfg r) (hb : cfg.budget = none) :
    ∃ a s', r = .ok a s' := by
  cases h with
  | inl h => exact h
  | inr h => obtain ⟨_, _, hne, _⟩ := h; exact absurd hb hne

/-- "returns or budget panic" specification of a sub-goal solver with depth fuel `D` -/
def SubGood (inst : Instance) (P : Nat → Prop) (dom : List Nat) (lvl : Nat → Nat) (fx : Bool) (cfg : Cfg) (D : Nat)
    (rec : SubSolver) : Prop :=
  ∀ g m s, Inv inst P dom lvl fx s → g ∈ dom → Below inst lvl s g → cfg.overflowDepth < D + s.stack.length →
    Good P cfg (rec g m s)

theorem tick_cases (cfg : Cfg) {s : St} (hi : Inv inst P dom lvl fx s) :
    tick cfg s = .ok () { s with work := s.work + 1 } ∨
    (∃ s0, tick cfg s = .panic .budget s0 ∧ cfg.budget ≠ none ∧ CacheOK P s0) := by
  cases ht : tick cfg s with
  | ok u s0 => left; rw [tick_ok cfg s s0 ht]
  | panic site s0 =>
    right
    obtain ⟨hsite, hbud⟩ := tick_panic_budget cfg s s0 site ht
    subst hsite
    refine ⟨s0, rfl, hbud, ?_⟩
    rw [tick_panic cfg s s0 .budget ht]
    exact hi.cacheOK

theorem fulfillRound_good (hrec : SubSpec inst P dom lvl fx rec) (hgood : SubGood inst P dom lvl fx cfg D rec)
    (L : Nat) :
    ∀ (cs acc : List Nat) (m : Min) (s : St), Inv inst P dom lvl fx s →
      (∀ x, x ∈ cs → x ∈ dom ∧ Below inst lvl s x ∧ lvl x ≤ L) →
      cfg.overflowDepth < D + s.stack.length → Good P cfg (fulfillRound rec cs acc m s)
  | [], acc, m, s, _, _, _ => Or.inl ⟨_, _, rfl⟩
  | x :: rest, acc, m, s, hi, hd, hres => by
    obtain ⟨hxd, hxb, _⟩ := hd x (List.mem_cons_self ..)
    cases hgood x m s hi hxd hxb hres with
    | inr hp =>
      obtain ⟨s1, hr, h2⟩ := hp
      exact Or.inr ⟨s1, by simp only [fulfillRound, hr], h2⟩
    | inl hok =>
      obtain ⟨⟨v, m1⟩, s1, hr⟩ := hok
      obtain ⟨hi1, hs1, _, _, _⟩ := hrec x m s v m1 s1 hi hxd hxb hr
      have hd1 : ∀ y, y ∈ rest → y ∈ dom ∧ Below inst lvl s1 y ∧ lvl y ≤ L := fun y hy => by
        obtain ⟨a, b, c⟩ := hd y (List.mem_cons_of_mem _ hy)
        exact ⟨a, b.step hs1, c⟩
      simp only [fulfillRound, hr]
      cases v with
      | ambig =>
        exact fulfillRound_good hrec hgood L rest (acc ++ [x]) m1 s1 hi1 hd1 (by rw [hs1.stack.1]; exact hres)
      | noSolution => exact Or.inl ⟨_, _, rfl⟩
      | unique =>
        exact fulfillRound_good hrec hgood L rest acc m1 s1 hi1 hd1 (by rw [hs1.stack.1]; exact hres)

theorem suggestPass_good (h16 : fx = true → cfg.fixF16 = true) (hrec : SubSpec inst P dom lvl fx rec)
    (hgood : SubGood inst P dom lvl fx cfg D rec) (L : Nat) :
    ∀ (ds : List Nat) (m : Min) (s : St), Inv inst P dom lvl fx s →
      (∀ x, x ∈ ds → x ∈ dom ∧ Below inst lvl s x ∧ lvl x ≤ L) → s.interrupted = true →
      cfg.overflowDepth < D + s.stack.length → Good P cfg (suggestPass cfg rec ds m s)
  | [], m, s, _, _, _, _ => Or.inl ⟨_, _, rfl⟩
  | x :: rest, m, s, hi, hd, hint, hres => by
    obtain ⟨hxd, hxb, _⟩ := hd x (List.mem_cons_self ..)
    cases hgood x m s hi hxd hxb hres with
    | inr hp =>
      obtain ⟨s1, hr, h2⟩ := hp
      exact Or.inr ⟨s1, by simp only [suggestPass, hr], h2⟩
    | inl hok =>
      obtain ⟨⟨v, m1⟩, s1, hr⟩ := hok
      obtain ⟨hi1, hs1, _, _, _⟩ := hrec x m s v m1 s1 hi hxd hxb hr
      simp only [suggestPass, hr]
      cases v with
      | ambig =>
        exact suggestPass_good h16 hrec hgood L rest m1 s1 hi1 (fun y hy => by
            obtain ⟨a, b, c⟩ := hd y (List.mem_cons_of_mem _ hy)
            exact ⟨a, b.step hs1, c⟩) (hs1.intr hint) (by rw [hs1.stack.1]; exact hres)
      | noSolution =>
        have h16' : cfg.fixF16 = true := by
          cases hi1.fixes with
          | inl e => exact h16 e
          | inr e =>
            have := hs1.intr hint
            rw [e.2] at this
            cases this
        simp only [h16', if_true]; exact Or.inl ⟨_, _, rfl⟩
      | unique => exact Or.inl ⟨_, _, rfl⟩

theorem fulfillSolve_good (h16 : fx = true → cfg.fixF16 = true) (hrec : SubSpec inst P dom lvl fx rec)
    (hgood : SubGood inst P dom lvl fx cfg D rec) (L : Nat)
    (alt : List Nat) (m : Min) (s : St) (hi : Inv inst P dom lvl fx s)
    (hd : ∀ x, x ∈ alt → x ∈ dom ∧ Below inst lvl s x ∧ lvl x ≤ L)
    (hres : cfg.overflowDepth < D + s.stack.length) : Good P cfg (fulfillSolve cfg rec alt m s) := by
  unfold fulfillSolve
  cases fulfillRound_good hrec hgood L alt.reverse [] m s hi (fun x hx => hd x (List.mem_reverse.mp hx)) hres with
  | inr hp =>
    obtain ⟨s1, hr, h2⟩ := hp
    rw [hr]
    exact Or.inr ⟨s1, rfl, h2⟩
  | inl hok =>
    obtain ⟨⟨o, m1⟩, s1, hr⟩ := hok
    obtain ⟨hi1, hs1, _, _, hcase⟩ := fulfillRound_sem hrec L 0 alt.reverse [] m s o m1 s1 hi (Nat.zero_le _)
      (fun x hx => hd x (List.mem_reverse.mp hx)) hr
    rw [hr]
    cases hcase with
    | inr h => rw [h.1]; exact Or.inl ⟨_, _, rfl⟩
    | inl h =>
      obtain ⟨ret, ho, hsub, hint, _⟩ := h
      rw [List.nil_append] at ho
      subst ho
      cases ret with
      | nil => exact Or.inl ⟨_, _, rfl⟩
      | cons r0 rs =>
        simp only
        exact suggestPass_good h16 hrec hgood L (r0 :: rs).reverse m1 s1 hi1
          (fun x hx => by
            obtain ⟨a, b, c⟩ := hd x (List.mem_reverse.mp (hsub x (List.mem_reverse.mp hx)))
            exact ⟨a, b.step hs1, c⟩)
          (hint (by simp)) (by rw [hs1.stack.1]; exact hres)

theorem solveFromClauses_good (h16 : fx = true → cfg.fixF16 = true) (hrec : SubSpec inst P dom lvl fx rec)
    (hgood : SubGood inst P dom lvl fx cfg D rec) (L : Nat) :
    ∀ (alts : List (List Nat)) (cur : Option V) (m : Min) (s : St), Inv inst P dom lvl fx s → CurOK s cur →
      (∀ alt, alt ∈ alts → ∀ x, x ∈ alt → x ∈ dom ∧ Below inst lvl s x ∧ lvl x ≤ L) →
      cfg.overflowDepth < D + s.stack.length →
      Good P cfg (solveFromClauses cfg rec true alts cur m s)
  | [], cur, m, s, _, _, _, _ => Or.inl ⟨_, _, rfl⟩
  | alt :: rest, cur, m, s, hi, hcur, hd, hres => by
    rw [solveFromClauses_cons]
    cases fulfillSolve_good h16 hrec hgood L alt m s hi (hd alt (List.mem_cons_self ..)) hres with
    | inr hp =>
      obtain ⟨s1, hr, h2⟩ := hp
      rw [hr]
      exact Or.inr ⟨s1, rfl, h2⟩
    | inl hok =>
      obtain ⟨⟨w, m1⟩, s1, hr⟩ := hok
      obtain ⟨hi1, hs1, _, _, hcase⟩ := fulfillSolve_sem hrec L 0 alt m s w m1 s1 hi (Nat.zero_le _)
        (hd alt (List.mem_cons_self ..)) hr
      rw [hr]
      have hrest := fun (cur' : Option V) (hc' : CurOK s1 cur') =>
        solveFromClauses_good h16 hrec hgood L rest cur' m1 s1 hi1 hc'
          (fun a ha y hy => by
            obtain ⟨p, q, r⟩ := hd a (List.mem_cons_of_mem _ ha) y hy
            exact ⟨p, q.step hs1, r⟩) (by rw [hs1.stack.1]; exact hres)
      rcases hcase with h | h | h
      · rw [h.1]
        have hstep : stepCur true .unique cur = some .unique := by
          cases hcur with
          | inl e => subst e; rfl
          | inr e => rw [e.1]; rfl
        simp only [hstep, trivialTrue, Bool.true_and, beq_self_eq_true, if_true]
        exact Or.inl ⟨_, _, rfl⟩
      · rw [h.1]
        have hstep : stepCur true .noSolution cur = cur := rfl
        simp only [hstep]
        cases hcur with
        | inl e => subst e; exact hrest none (Or.inl rfl)
        | inr e =>
          rw [e.1]
          have := hrest (some .ambig) (Or.inr ⟨rfl, hs1.intr e.2⟩)
          simpa [trivialTrue] using this
      · rw [h.1]
        have hstep : stepCur true .ambig cur = some .ambig := by
          cases hcur with
          | inl e => subst e; rfl
          | inr e => rw [e.1]; rfl
        simp only [hstep]
        have := hrest (some .ambig) (Or.inr ⟨rfl, h.2⟩)
        simpa [trivialTrue] using this

theorem solveIteration_good (hyp : MHyp inst P dom lvl) (h16 : fx = true → cfg.fixF16 = true)
    (hrec : SubSpec inst P dom lvl fx rec)
    (hgood : SubGood inst P dom lvl fx cfg D rec) (g : Nat) (hg : g ∈ dom) (m : Min) (s : St)
    (hi : Inv inst P dom lvl fx s) (ht : GTop s g) (hres : cfg.overflowDepth < D + s.stack.length) :
    Good P cfg (solveIteration inst cfg rec g m s) := by
  unfold solveIteration
  obtain ⟨b, o, hb, hq⟩ := shouldContinue_cases s
  rw [hb]
  cases b with
  | false => exact Or.inl ⟨_, _, rfl⟩
  | true =>
    simp only [hyp.ground g hg]
    have i1 : Inv inst P dom lvl fx { s with oracle := o } :=
      hi.oracleChange o s.interrupted id (fun q e => ⟨(hq q).2, e⟩)
    have ht1 : GTop { s with oracle := o } g := ht
    exact solveFromClauses_good h16 hrec hgood (lvl g) (inst.deps g) none m _ i1 (Or.inl rfl)
      (fun alt ha x hx => ⟨hyp.closed g hg alt ha x hx, below_of_dep i1 ht1 (hyp.lvl_le g hg alt ha x hx),
        (hyp.lvl_le g hg alt ha x hx).1⟩) hres

end

end Chalk.FixedPoint.Mix
