/-
  Soundness of the unifier on the first-order fragment under the invariant relation, in semantic
  form: every solution of the resulting table is a solution of the original table and equates the
  two types; the table only grows (bound variables keep their values, classes only merge).

  The input must be well-kinded (`Ty.arityOk`, `Table.arityValues`): `zip_substs` truncates to the
  shorter argument list, so without it the statement is false (see the `example` at the end).
-/
import ChalkModel.Lemmas.UnifyOcc

namespace Chalk

/-- what a successful relation of `a` and `b` guarantees -/
def Post (ar : TyName → Nat) (a b : Ty) (st st' : UState) : Prop :=
  st'.goals = st.goals ∧ st.table.Le ar st'.table ∧
  ∀ θ, st'.table.Models θ → a.applyAsg θ = b.applyAsg θ

def Sound (ar : TyName → Nat) (rel : RelTy) : Prop :=
  ∀ a b st st', st.table.Good ar → a.good ar st.table.numVars = true → b.good ar st.table.numVars = true →
    rel .inv a b st = .ok st' → Post ar a b st st'

theorem Post.symm {ar : TyName → Nat} {a b : Ty} {st st' : UState} (h : Post ar a b st st') :
    Post ar b a st st' :=
  ⟨h.1, h.2.1, fun θ hm => (h.2.2 θ hm).symm⟩

theorem Post.refl {ar : TyName → Nat} (a : Ty) (st : UState) (hg : st.table.Good ar) : Post ar a a st st :=
  ⟨rfl, Table.Le.refl hg, fun _ _ => rfl⟩

theorem ite_error_ok {α : Type} {c : Prop} [Decidable c] {e : UErr} {X : URes α} {r : α}
    (h : (if c then .error e else X) = .ok r) : X = .ok r := by
  split at h
  · cases h
  · exact h

theorem ite_ok_error {α : Type} {c : Prop} [Decidable c] {e : UErr} {X : URes α} {r : α}
    (h : (if c then X else .error e) = .ok r) : c ∧ X = .ok r := by
  split at h
  · exact ⟨by assumption, h⟩
  · cases h

theorem Variance.inv_xform (w : Variance) : Variance.xform .inv w = .inv := by
  cases w <;> rfl

/-! ## `zip_substs` -/

theorem zipSubsts_sound (ar : TyName → Nat) (rel : RelTy) (hrel : Sound ar rel) (jf : Nat)
    (vs : Option (List Variance)) :
    (as bs : Args) → ∀ (i : Nat) (st st' : UState), st.table.Good ar →
      as.good ar st.table.numVars = true → bs.good ar st.table.numVars = true →
      as.length = bs.length →
      zipSubsts rel jf .inv vs i as bs st = .ok st' →
      st'.goals = st.goals ∧ st.table.Le ar st'.table ∧
      ∀ θ, st'.table.Models θ → as.applyAsg θ = bs.applyAsg θ
  | .nil, .nil => by
      intro i st st' hg _ _ _ h
      simp only [zipSubsts] at h; cases h
      exact ⟨rfl, Table.Le.refl hg, fun _ _ => rfl⟩
  | .nil, .cons b bs => by
      intro i st st' _ _ _ hl _
      rw [Args.length_cons, Args.length_nil] at hl; omega
  | .cons a as, .nil => by
      intro i st st' _ _ _ hl _
      rw [Args.length_cons, Args.length_nil] at hl; omega
  | .cons a as, .cons b bs => by
      intro i st st' hg hga hgb hl h
      simp only [Args.good, Bool.and_eq_true] at hga hgb
      rw [Args.length_cons, Args.length_cons] at hl
      simp only [zipSubsts] at h
      split at h
      · cases h
      · rename_i w _
        rw [Variance.inv_xform] at h
        split at h
        · rename_i st1 hr
          cases a with
          | lt l => simp [GArg.good] at hga
          | ct c => simp [GArg.good] at hga
          | ty ta =>
            cases b with
            | lt l => simp [GArg.good] at hgb
            | ct c => simp [GArg.good] at hgb
            | ty tb =>
              simp only [relateGArg] at hr
              simp only [GArg.good] at hga hgb
              obtain ⟨r1, r2, r3⟩ := hrel ta tb st st1 hg hga.1 hgb.1 hr
              obtain ⟨z1, z2, z3⟩ := zipSubsts_sound ar rel hrel jf vs as bs (i + 1) st1 st' r2.good
                (Args.good_mono ar _ _ r2.numVars _ hga.2) (Args.good_mono ar _ _ r2.numVars _ hgb.2)
                (by omega) h
              refine ⟨by rw [z1, r1], r2.trans z2, ?_⟩
              intro θ hm
              simp only [Args.applyAsg, GArg.applyAsg]
              rw [z3 θ hm, r3 θ (z2.models θ hm)]
        · cases h

/-! ## `relate_var_ty` -/

theorem relateVarTy_sound (ar : TyName → Nat) (rel : RelTy) (hrel : Sound ar rel) (db : UDb) (jf : Nat)
    (var : Nat) (kind : TyVarKind) (ty : Ty) (st st' : UState) (hg : st.table.Good ar)
    (hvar : var < st.table.numVars) (hty : ty.good ar st.table.numVars = true)
    (h : relateVarTy rel db jf .inv var kind ty st = .ok st') :
    Post ar (.infer var kind) ty st st' := by
  unfold relateVarTy at h
  replace h := ite_error_ok h
  split at h
  · cases h
  rename_i ui _
  split at h
  · cases h
  rename_i ty1 st1 hocc
  split at h
  · cases h
  rename_i gen t2 hgen
  split at h
  · cases h
  rename_i st3 hw
  obtain ⟨o1, o2, o3, o4⟩ := occursCheckTy_spec ar jf _ ty st ty1 st1 hg hty hocc
  obtain ⟨g1, g2⟩ := generalizeTyTop_spec ar db jf ui .inv ty1 st1.table gen t2 o2.good o3 hgen
  obtain ⟨t3, ht3, rfl⟩ := UState.withTable_ok _ _ _ hw
  have hvar2 : var < t2.numVars := Nat.lt_of_lt_of_le hvar (Nat.le_trans o2.numVars g1.numVars)
  obtain ⟨b1, b2⟩ := t2.unifyVarValue_bound_Le var gen t3 g1.good hvar2 g2 ht3
  obtain ⟨r1, r2, r3⟩ := hrel gen ty1 _ st' b1.good
    (Ty.good_mono ar _ _ b1.numVars _ g2)
    (Ty.good_mono ar _ _ (Nat.le_trans g1.numVars b1.numVars) _ o3) h
  refine ⟨by rw [r1]; exact o1, ((o2.trans g1).trans b1).trans r2, ?_⟩
  intro θ hm
  have m3 := r2.models θ hm
  have m2 := b1.models θ m3
  have m1 := g1.models θ m2
  simp only [Ty.applyAsg]
  rw [b2 θ m3, r3 θ hm, o4 θ m1]

/-! ## same constructor -/

theorem relateSameCtor_sound (ar : TyName → Nat) (rel : RelTy) (hrel : Sound ar rel) (db : UDb) (jf : Nat)
    (a b : Ty) (st st' : UState) (hg : st.table.Good ar)
    (hga : a.good ar st.table.numVars = true) (hgb : b.good ar st.table.numVars = true)
    (h : relateSameCtor rel db jf .inv a b st = .ok st') :
    Post ar a b st st' := by
  cases a with
  | app n as =>
    cases b <;> simp only [relateSameCtor] at h <;> try (cases h; done)
    rename_i n' bs
    have key : n = n' ∧ ∃ vs, zipSubsts rel jf .inv vs 0 as bs st = .ok st' := by
      cases n <;> cases n' <;> simp only at h <;>
        first
        | (cases h; done)
        | exact ⟨by rw [(ite_ok_error h).1], _, (ite_ok_error h).2⟩
    obtain ⟨rfl, vs, hz⟩ := key
    simp only [Ty.good, Bool.and_eq_true, beq_iff_eq] at hga hgb
    obtain ⟨z1, z2, z3⟩ := zipSubsts_sound ar rel hrel jf vs as bs 0 st st' hg hga.2 hgb.2
      (by rw [hga.1, hgb.1]) hz
    exact ⟨z1, z2, fun θ hm => by simp only [Ty.applyAsg]; rw [z3 θ hm]⟩
  | scalar s =>
    cases b <;> simp only [relateSameCtor] at h <;> try (cases h; done)
    split at h
    · rename_i e; cases h; subst e; exact Post.refl _ _ hg
    · cases h
  | str =>
    cases b <;> simp only [relateSameCtor] at h <;> try (cases h; done)
    cases h; exact Post.refl _ _ hg
  | never =>
    cases b <;> simp only [relateSameCtor] at h <;> try (cases h; done)
    cases h; exact Post.refl _ _ hg
  | foreign i =>
    cases b <;> simp only [relateSameCtor] at h <;> try (cases h; done)
    split at h
    · rename_i e; cases h; subst e; exact Post.refl _ _ hg
    · cases h
  | slice ta =>
    cases b <;> simp only [relateSameCtor] at h <;> try (cases h; done)
    rename_i tb
    simp only [Ty.good] at hga hgb
    obtain ⟨r1, r2, r3⟩ := hrel ta tb st st' hg hga hgb h
    exact ⟨r1, r2, fun θ hm => by simp only [Ty.applyAsg]; rw [r3 θ hm]⟩
  | raw ma ta =>
    cases b <;> simp only [relateSameCtor] at h <;> try (cases h; done)
    rename_i mb tb
    split at h
    · cases h
    · rename_i hm'
      have hm' : ma = mb := by simpa using hm'
      subst hm'
      rw [Variance.inv_xform] at h
      simp only [Ty.good] at hga hgb
      obtain ⟨r1, r2, r3⟩ := hrel ta tb st st' hg hga hgb h
      exact ⟨r1, r2, fun θ hm => by simp only [Ty.applyAsg]; rw [r3 θ hm]⟩
  | placeholder ui idx => simp only [relateSameCtor] at h; cases h
  | infer v k => simp only [relateSameCtor] at h; cases h
  | error => simp [Ty.good] at hga
  | array t c => simp [Ty.good] at hga
  | ref m l t => simp [Ty.good] at hga
  | dyn kinds bounds l => simp [Ty.good] at hga
  | proj id args => simp [Ty.good] at hga
  | «opaque» id args => simp [Ty.good] at hga
  | function nb sig args => simp [Ty.good] at hga
  | bound d idx => simp [Ty.good] at hga

/-! ## one step of `relate_ty_ty` -/

theorem Ty.good_flags (ar : TyName → Nat) (n : Nat) (a : Ty) (h : a.good ar n = true) :
    a.isBoundVar = false ∧ a.asAlias = none ∧ a.isErrorTy = false ∧ a.isFunction = false ∧
    a.isDyn = false := by
  cases a <;> simp [Ty.good] at h <;>
    simp [Ty.isBoundVar, Ty.asAlias, Ty.isErrorTy, Ty.isFunction, Ty.isDyn]

theorem relateTyStep_sound (ar : TyName → Nat) (rel : RelTy) (db : UDb) (jf : Nat) (hrel : Sound ar rel) :
    Sound ar (relateTyStep rel db jf) := by
  intro a0 b0 st st' hg ha0 hb0 h
  unfold relateTyStep at h
  replace h := ite_error_ok h
  obtain ⟨hga, hma⟩ := st.table.normalize_spec hg a0 ha0
  obtain ⟨hgb, hmb⟩ := st.table.normalize_spec hg b0 hb0
  suffices hp : Post ar ((st.table.normalizeTyShallow a0).getD a0)
      ((st.table.normalizeTyShallow b0).getD b0) st st' by
    refine ⟨hp.1, hp.2.1, ?_⟩
    intro θ hm
    have m0 := hp.2.1.models θ hm
    rw [← hma θ m0, ← hmb θ m0]; exact hp.2.2 θ hm
  simp only at h
  generalize (st.table.normalizeTyShallow a0).getD a0 = a at h hga hma ⊢
  generalize (st.table.normalizeTyShallow b0).getD b0 = b at h hgb hmb ⊢
  clear hma hmb
  split at h
  · rename_i e; cases h; subst e; exact Post.refl _ _ hg
  split at h
  · -- two variables
    rename_i v1 k1 v2 k2 _
    have hv1 : v1 < st.table.numVars := by simpa [Ty.good] using hga
    have hv2 : v2 < st.table.numVars := by simpa [Ty.good] using hgb
    have hvv : ∀ st', st.withTable (st.table.unifyVarVar v1 v2) = .ok st' →
        Post ar (.infer v1 k1) (.infer v2 k2) st st' := by
      intro st' h
      obtain ⟨t', ht', rfl⟩ := UState.withTable_ok _ _ _ h
      obtain ⟨l, m⟩ := st.table.unifyVarVar_Le v1 v2 t' hg hv1 hv2 ht'
      exact ⟨rfl, l, fun θ hm => by simp only [Ty.applyAsg]; exact m θ hm⟩
    split at h
    · exact hvv _ h
    · split at h
      · exact hvv _ h
      · split at h
        · obtain ⟨t', ht', rfl⟩ := UState.withTable_ok _ _ _ h
          obtain ⟨l, m⟩ := st.table.unifyVarValue_bound_Le v1 _ t' hg hv1 hgb ht'
          exact ⟨rfl, l, fun θ hm => by
            have := m θ hm
            simp only [Ty.applyAsg] at this ⊢; exact this⟩
        · split at h
          · obtain ⟨t', ht', rfl⟩ := UState.withTable_ok _ _ _ h
            obtain ⟨l, m⟩ := st.table.unifyVarValue_bound_Le v2 _ t' hg hv2 hga ht'
            exact ⟨rfl, l, fun θ hm => by
              have := m θ hm
              simp only [Ty.applyAsg] at this ⊢; exact this.symm⟩
          · cases h
  · simp [Ty.good] at hga
  · split at h
    · rename_i e; cases h; obtain ⟨rfl, rfl⟩ := e; exact Post.refl _ _ hg
    · cases h
  · simp [Ty.good] at hga
  · obtain ⟨fa1, fa2, fa3, fa4, fa5⟩ := Ty.good_flags ar _ a hga
    obtain ⟨fb1, fb2, fb3, fb4, fb5⟩ := Ty.good_flags ar _ b hgb
    rw [fa1, fb1, fa2, fb2] at h
    simp only [Bool.or_false, Bool.false_eq_true, if_false] at h
    split at h
    · exact relateVarTy_sound ar rel hrel db jf _ _ b st st' hg (by simpa [Ty.good] using hga) hgb h
    · split at h
      · exact (relateVarTy_sound ar rel hrel db jf _ _ a st st' hg (by simpa [Ty.good] using hgb) hga h).symm
      · rw [fa3, fb3, fa4, fb4, fa5, fb5] at h
        simp only [Bool.or_false, Bool.false_eq_true, if_false] at h
        replace h := ite_error_ok h
        exact relateSameCtor_sound ar rel hrel db jf a b st st' hg hga hgb h

theorem relateTy_Sound (ar : TyName → Nat) (db : UDb) (jf : Nat) : ∀ fuel, Sound ar (relateTy db jf fuel)
  | 0 => by intro a b st st' _ _ _ h; simp [relateTy] at h
  | n + 1 => by
      intro a b st st' hg ha hb h
      exact relateTyStep_sound ar (relateTy db jf n) db jf (relateTy_Sound ar db jf n) a b st st' hg ha hb h

/-- MAIN LEMMA (C14) -/
theorem relateTy_sound (db : UDb) (jf : Nat) (ar : TyName → Nat) :
    ∀ (fuel : Nat) (a b : Ty) (st st' : UState),
      st.table.WF → st.table.foValues → st.table.arityValues ar →
      a.fo = true → b.fo = true →
      a.varsBelow st.table.numVars = true → b.varsBelow st.table.numVars = true →
      a.arityOk ar = true → b.arityOk ar = true →
      relateTy db jf fuel .inv a b st = .ok st' →
      st'.table.WF ∧ st'.table.foValues ∧ st'.table.arityValues ar ∧ st'.goals = st.goals ∧
      st.table.numVars ≤ st'.table.numVars ∧
      st'.table.maxUniverse = st.table.maxUniverse ∧
      (∀ θ, st'.table.Models θ → st.table.Models θ ∧ a.applyAsg θ = b.applyAsg θ) ∧
      (∀ v g, v < st.table.numVars → st.table.probeVar v = some g → st'.table.probeVar v = some g) ∧
      (∀ x y, x < st.table.numVars → y < st.table.numVars →
        st.table.find x = st.table.find y → st'.table.find x = st'.table.find y) := by
  intro fuel a b st st' hwf hfo har hafo hbfo hav hbv haa hba h
  have hg : st.table.Good ar := ⟨hwf, (Table.goodValues_iff ar _).mpr ⟨hfo, har⟩⟩
  obtain ⟨p1, p2, p3⟩ := relateTy_Sound ar db jf fuel a b st st' hg
    ((Ty.good_iff ar _ a).mpr ⟨hafo, hav, haa⟩) ((Ty.good_iff ar _ b).mpr ⟨hbfo, hbv, hba⟩) h
  have hv := (Table.goodValues_iff ar _).mp p2.good.vals
  exact ⟨p2.good.wf, hv.1, hv.2, p1, p2.numVars, p2.maxU,
    fun θ hm => ⟨p2.models θ hm, p3 θ hm⟩, p2.probe, p2.find⟩

/-! ## why the arity hypotheses are there, and that the theorem is not vacuous -/

def exDb : UDb := { adtVariance := fun _ => [.inv], fnDefVariance := fun _ => [] }

/-- COUNTEREXAMPLE to the statement without `arityOk`: `zip_substs` truncates to the shorter
    argument list, so `Adt0<u8>` and `Adt0<>` (ill-kinded: one name at two arities) are related
    successfully on the empty table, the table is unchanged, every assignment is a solution of
    it, and no assignment equates the two types. -/
example :
    let a : Ty := .app (.adt 0) (.cons (.ty (.scalar 1)) .nil)
    let b : Ty := .app (.adt 0) .nil
    let st : UState := { table := Table.new }
    st.table.WF ∧ st.table.foValues ∧ a.fo = true ∧ b.fo = true ∧
    a.varsBelow st.table.numVars = true ∧ b.varsBelow st.table.numVars = true ∧
    relateTy exDb 1 1 .inv a b st = .ok st ∧
    ∀ θ, st.table.Models θ ∧ a.applyAsg θ ≠ b.applyAsg θ := by
  refine ⟨Table.new_WF, Table.new_foValues, rfl, rfl, rfl, rfl, rfl, ?_⟩
  intro θ
  refine ⟨⟨fun v hv => absurd hv (Nat.not_lt_zero v), fun v _ hv => absurd hv (Nat.not_lt_zero v)⟩, ?_⟩
  simp [Ty.applyAsg, Args.applyAsg]

/-- NON-VACUITY: on the table with one fresh variable `?0`, relating `?0` with `Adt0<u8>` succeeds,
    all hypotheses of `relateTy_sound` hold (arity table: every name unary), and the theorem
    yields that every solution of the resulting table maps `?0` to `Adt0<u8>`. -/
example :
    let b : Ty := .app (.adt 0) (.cons (.ty (.scalar 1)) .nil)
    let st : UState := { table := (Table.new.newVariable 0).1 }
    ∃ st', relateTy exDb 2 2 .inv (.infer 0 .general) b st = .ok st' ∧
      st'.table.WF ∧ ∀ θ, st'.table.Models θ → θ 0 = b := by
  intro b st
  refine ⟨_, rfl, ?_⟩
  have hwf : st.table.WF := Table.newVariable_WF _ _ Table.new_WF
  have h := relateTy_sound exDb 2 (fun _ => 1) 2 (.infer 0 .general) b st _ hwf
    (Table.newVariable_foValues _ _ Table.new_WF Table.new_foValues)
    (Table.newVariable_arityValues _ _ _ Table.new_WF (Table.new_arityValues _))
    rfl rfl rfl rfl rfl rfl rfl
  exact ⟨h.1, fun θ hm => (h.2.2.2.2.2.2.1 θ hm).2⟩

end Chalk

#print axioms Chalk.relateTy_sound
