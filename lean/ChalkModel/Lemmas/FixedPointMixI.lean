/-
  FixedPointMixI.lean — partial correctness of the loop of `solve_new_subgoal` (mixed polarities).
-/
import ChalkModel.Lemmas.FixedPointMixH
import ChalkModel.Lemmas.FixedPointSemI

namespace Chalk.FixedPoint.Mix
open Chalk.FixedPoint.Cyc (JE JA MinLe InCache InGraph Def Undef flagAt StackExt stackGoals
  getElem?_lt_length getElem?_prefix headNode mid_cases mid_at Rest setCycle_length setCycle_getElem?_ne
  updateNode_mid take_mid afterRound solveNewSubgoal_step solveNewSubgoal_tick_panic solveNewSubgoal_iter_panic)

section
variable {inst : Instance} {P : Nat → Prop} {dom : List Nat} {lvl : Nat → Nat} {fx : Bool} {rec : SubSolver} {cfg : Cfg}

/-- what the loop of `solve_new_subgoal` returns: the situation after its last iteration -/
def LoopPost (inst : Instance) (P : Nat → Prop) (dom : List Nat) (lvl : Nat → Nat) (fx : Bool) (s0 : St) (g : Nat) (sub : Min) (s3 : St) : Prop :=
  ∃ st' s1 old cur new new3, After inst P dom lvl fx s0 st' s1 g old cur sub new ∧
    ((new3 = new ∧ (¬ flagAt s1.stack s0.stack.length ∨ old = cur)) ∨ (new3 = [] ∧ cur = .ambig)) ∧
    s3.graph = s0.graph ++ (⟨g, cur, some s0.stack.length, some s0.graph.length⟩ : Node) :: new3 ∧
    s3.stack.length = s0.stack.length + 1 ∧ (∀ i, i < s0.stack.length → s3.stack[i]? = s1.stack[i]?) ∧
    Rest s1 s3

theorem loop_sem (hyp : MHyp inst P dom lvl) (h3 : cfg.fixF3 = true) (h10 : fx = true → cfg.fixF10 = true)
    (hrec : SubSpec inst P dom lvl fx rec) {s0 : St} {g : Nat} :
    ∀ (r : Nat) (st : St) (sub : Min) (s3 : St), LoopSt inst P dom lvl fx s0 g st →
      solveNewSubgoal inst cfg rec g s0.stack.length s0.graph.length r st = .ok sub s3 →
      LoopPost inst P dom lvl fx s0 g sub s3
  | 0, st, sub, s3, _, h => by simp [solveNewSubgoal] at h
  | r + 1, st, sub, s3, L, h => by
    cases ht : tick cfg st with
    | panic site st0 => rw [solveNewSubgoal_tick_panic _ _ _ _ _ _ _ _ _ _ ht] at h; cases h
    | ok u st0 =>
      have e0 := tick_ok cfg st st0 ht
      have L0 : LoopSt inst P dom lvl fx s0 g st0 := by rw [e0]; exact L.work _
      cases hi : solveIteration inst cfg rec g none st0 with
      | panic site s1 => rw [solveNewSubgoal_iter_panic _ _ _ _ _ _ _ _ _ _ _ ht hi] at h; cases h
      | ok r1 s1 =>
        obtain ⟨cur, m⟩ := r1
        obtain ⟨i1, hs, _, hk, hf⟩ := solveIteration_sem hyp h3 hrec g L.gdom none st0 cur m s1 L0.inv L0.gtop hi
        obtain ⟨old, new, A⟩ := After.intro L0 i1 hs hf hk
        have hlt : s0.stack.length < s1.stack.length := by rw [A.slen]; exact Nat.lt_succ_self _
        have he : s1.stack[s0.stack.length]? = some s1.stack[s0.stack.length] := List.getElem?_eq_getElem hlt
        generalize s1.stack[s0.stack.length] = e at he
        rw [solveNewSubgoal_step inst cfg rec g _ _ r st st0 s1 cur m e _ ht hi he A.head] at h
        have hgr : updateNode (fun n => { n with solution := cur }) s0.graph.length s1.graph =
            s0.graph ++ (⟨g, cur, some s0.stack.length, some s0.graph.length⟩ : Node) :: new := by
          rw [A.g1, updateNode_mid]; rfl
        by_cases hc : e.cycle = true
        · simp only [hc, Bool.not_true, Bool.false_eq_true, if_false] at h
          have hsol : (headNode s0 g old).solution = old := rfl
          rw [hsol] at h
          by_cases hoc : old = cur
          · subst hoc
            have h1 : reachedFixedPoint old old = true := by simp [reachedFixedPoint]
            have h2 : (old != old) = false := by simp
            simp only [h1, h2, Bool.and_false, Bool.false_eq_true, if_true, if_false, Res.ok.injEq] at h
            obtain ⟨hm, hs3⟩ := h
            subst hm; subst hs3
            refine ⟨st0, s1, old, old, new, new, A, Or.inl ⟨rfl, Or.inr rfl⟩, hgr, ?_, ?_, ⟨rfl, rfl, rfl, rfl⟩⟩
            · show (setCycle false s0.stack.length s1.stack).length = _
              rw [setCycle_length, A.slen]
            · intro i hi
              show (setCycle false s0.stack.length s1.stack)[i]? = _
              exact setCycle_getElem?_ne _ _ _ _ (Nat.ne_of_lt hi)
          · by_cases hamb : cur = .ambig
            · -- interrupted: the loop stops, what was computed from the old answer is rolled back (F10)
              subst hamb
              have h1 : reachedFixedPoint old .ambig = true := by simp [reachedFixedPoint]
              have h2 : (old != .ambig) = true := by simpa using hoc
              have h10' : cfg.fixF10 = true := by
                cases A.i1.fixes with
                | inl e => exact h10 e
                | inr e =>
                  have := A.amb rfl
                  rw [e.2] at this
                  cases this
              simp only [h1, h2, h10', Bool.and_self, if_true, Res.ok.injEq] at h
              obtain ⟨hm, hs3⟩ := h
              subst hm; subst hs3
              refine ⟨st0, s1, old, .ambig, new, [], A, Or.inr ⟨rfl, rfl⟩, ?_, ?_, ?_, ⟨rfl, rfl, rfl, rfl⟩⟩
              · show (updateNode _ s0.graph.length s1.graph).take (s0.graph.length + 1) = _
                rw [hgr, take_mid]
              · show (setCycle false s0.stack.length s1.stack).length = _
                rw [setCycle_length, A.slen]
              · intro i hi
                show (setCycle false s0.stack.length s1.stack)[i]? = _
                exact setCycle_getElem?_ne _ _ _ _ (Nat.ne_of_lt hi)
            have h1 : reachedFixedPoint old cur = false := by
              simp [reachedFixedPoint, hoc, hamb]
            simp only [h1, Bool.false_eq_true, if_false] at h
            have L2 : LoopSt inst P dom lvl fx s0 g
                (rollbackTo (s0.graph.length + 1) (afterRound s0.stack.length s0.graph.length cur s1)) := by
              refine A.restart ⟨rfl, rfl, rfl, rfl⟩ rfl ?_
              show (updateNode _ s0.graph.length s1.graph).take (s0.graph.length + 1) = _
              rw [hgr, take_mid]
              rfl
            exact loop_sem hyp h3 h10 hrec r _ sub s3 L2 h
        · have hc' : e.cycle = false := by cases h' : e.cycle <;> simp_all
          simp only [hc', Bool.not_false, if_true, Res.ok.injEq] at h
          obtain ⟨hm, hs3⟩ := h
          subst hm; subst hs3
          refine ⟨st0, s1, old, cur, new, new, A, Or.inl ⟨rfl, Or.inl ?_⟩, hgr, A.slen, fun _ _ => rfl, ⟨rfl, rfl, rfl, rfl⟩⟩
          rintro ⟨e', he', hce'⟩
          rw [he] at he'
          cases he'
          rw [hc'] at hce'
          cases hce'

end

end Chalk.FixedPoint.Mix
