/-
  FixedPointSemL.lean — TOTALITY, part 2: the loop of `solve_new_subgoal` stops within two rounds
  (the iteration is monotone in the provisional answer of the head), `solve_goal` does not panic.
-/
import ChalkModel.Lemmas.FixedPointSemK

namespace Chalk.FixedPoint.Cyc

section
variable {c : Bool} {inst : Instance} {dom : List Nat} {fx : Bool} {rec : SubSolver} {cfg : Cfg}

theorem InG.of_def_top {s : St} {j : Nat} (h : Def s j (top c)) : InG c inst s j :=
  ⟨fun x => Def s x (top c), fun _ hx => Or.inl (Or.inl hx), h⟩

variable {s0 st s1 : St} {g : Nat} {old cur : V} {m : Min} {new : List Node}

theorem After.st_node (A : After c inst dom fx s0 st s1 g old cur m new) {i : Nat} {n : Node}
    (h : st.graph[i]? = some n) : i ≤ s0.graph.length ∧ s1.graph[i]? = some n := by
  rw [A.gt] at h
  cases single_cases _ _ i n h with
  | inl h1 => exact ⟨Nat.le_of_lt h1.1, A.g0 h1.2⟩
  | inr h1 => rw [h1.1, h1.2]; exact ⟨Nat.le_refl _, A.head⟩

/-- an optimistic outcome of the iteration is justified relative to the state the iteration
    started from (upper bound) -/
theorem After.top_inG (A : After c inst dom fx s0 st s1 g old cur m new) (hc : cur = top c) :
    J c inst (InG c inst st) g := by
  have hw : ∀ {lb : Min} {j : Nat}, Wit c inst s1 lb j →
      (∃ n : Node, n ∈ new ∧ n.goal = j ∧ n.solution = top c) ∨ InG c inst st j := by
    intro lb j hw
    cases hw with
    | inl h => exact Or.inr (A.L.inv.tgt_sub_InG h)
    | inr h =>
      obtain ⟨i, n, hn, hgo, hv, _, _⟩ := h
      rw [A.g1] at hn
      rcases mid_cases _ _ _ i n hn with h1 | h1 | h1
      · exact Or.inr (InG.of_def_top (Or.inr ⟨i, n, by rw [A.gt]; exact getElem?_prefix h1.2, hgo, hv⟩))
      · rw [h1.2] at hgo hv
        exact Or.inr (InG.of_def_top (Or.inr ⟨s0.graph.length, _, by rw [A.gt]; exact mid_at _ _ _, hgo, hv⟩))
      · exact Or.inl ⟨n, h1.2.1, hgo, hv⟩
  have hS : ∀ k, (∃ n : Node, n ∈ new ∧ n.goal = k ∧ n.solution = top c) → InG c inst st k := by
    refine InG.coind _ ?_
    intro x hx
    obtain ⟨n, hn, hgo, hv⟩ := hx
    obtain ⟨i, hi, hn1⟩ := A.new_index hn
    refine Or.inr ⟨?_, ?_⟩
    · intro v hd
      cases hd with
      | inl hd => exact A.i1.disj i n hn1 v (by rw [hgo]; exact A.step.cacheExt x v hd)
      | inr hd =>
        obtain ⟨i', n', hn', hgo', _⟩ := hd
        obtain ⟨hle, hn1'⟩ := A.st_node hn'
        have : i' = i := A.i1.index_inj hn1' hn1 (hgo'.trans hgo.symm)
        omega
    · rw [← hgo]
      exact J.mono (fun j hj => hw hj) (A.i1.just i n hn1 (A.hnew n hn).1 hv)
  rcases A.fact with h | h | h
  · exact J.mono (fun j hj => (hw hj).elim (hS j) id) h.2
  · rw [hc] at h; exact absurd h.1 (top_ne_bot c)
  · rw [hc] at h; exact absurd h.1 (top_ne_ambig c)

/-- after a pessimistic outcome the next iteration starts from a smaller relative fixed point -/
theorem After.restart_sub (A : After c inst dom fx s0 st s1 g old cur m new) (hb : cur = bot c) {s2 : St}
    (R : Rest s1 s2) (hg2 : s2.graph = s0.graph ++ [headNode s0 g cur]) :
    ∀ k, InG c inst s2 k → InG c inst st k := by
  have hnode2 : ∀ {i : Nat} {n : Node}, s2.graph[i]? = some n →
      (i < s0.graph.length ∧ s0.graph[i]? = some n) ∨ (i = s0.graph.length ∧ n = headNode s0 g cur) := by
    intro i n hn
    rw [hg2] at hn
    exact single_cases _ _ i n hn
  -- what `s2` holds optimistically, `s1` holds too
  have hopt21 : ∀ x w, (w = top c ∨ w = .ambig) → Def s2 x w → Def s1 x w := by
    intro x w hw hd
    cases hd with
    | inl h => exact Or.inl (R.inCache.mp h)
    | inr h =>
      obtain ⟨i, n, hn, hgo, hv⟩ := h
      cases hnode2 hn with
      | inl h1 => exact Or.inr ⟨i, n, A.g0 h1.2, hgo, hv⟩
      | inr h1 =>
        exfalso
        rw [h1.2] at hv
        have e : cur = w := hv
        rw [hb] at e
        cases hw with
        | inl e2 => rw [e2] at e; exact top_ne_bot c e.symm
        | inr e2 => rw [e2] at e; exact bot_ne_ambig c e
  -- what `st` knows, `s2` knows
  have hdef2 : ∀ x v, Def st x v → ∃ v', Def s2 x v' := by
    intro x v hd
    cases hd with
    | inl h => exact ⟨v, Or.inl (R.inCache.mpr (A.step.cacheExt x v h))⟩
    | inr h =>
      obtain ⟨i, n, hn, hgo, hv⟩ := h
      rw [A.gt] at hn
      cases single_cases _ _ i n hn with
      | inl h1 => exact ⟨v, Or.inr ⟨i, n, by rw [hg2]; exact getElem?_prefix h1.2, hgo, hv⟩⟩
      | inr h1 =>
        rw [h1.2] at hgo
        exact ⟨cur, Or.inr ⟨s0.graph.length, headNode s0 g cur, by rw [hg2]; exact mid_at _ _ _, hgo, rfl⟩⟩
  refine InG.coind _ ?_
  intro x hx
  cases def_or_undef st x with
  | inl hd =>
    obtain ⟨v, hv⟩ := hd
    cases hx.unfold with
    | inl h2 =>
      left
      cases h2 with
      | inl h3 =>
        have : v = top c := A.i1.defFun (A.step.ext x v hv) (hopt21 x _ (Or.inl rfl) h3)
        rw [this] at hv
        exact Or.inl hv
      | inr h3 =>
        have : v = .ambig := A.i1.defFun (A.step.ext x v hv) (hopt21 x _ (Or.inr rfl) h3)
        rw [this] at hv
        exact Or.inr hv
    | inr h2 =>
      obtain ⟨v', hv'⟩ := hdef2 x v hv
      exact absurd hv' (h2.1 v')
  | inr hu =>
    refine Or.inr ⟨hu, ?_⟩
    cases hx.unfold with
    | inl h2 =>
      -- `x` is known to `s2` but not to `st`: it was cached in between, with its correct answer
      have hcache : ∀ w, (w = top c ∨ w = .ambig) → Def s2 x w → Tgt c inst x := by
        intro w hw hd
        cases hd with
        | inl hc =>
          have hc1 : InCache s1 x w := R.inCache.mp hc
          cases A.i1.cacheOK x _ hc1 with
          | inl h => exact h.2
          | inr h =>
            exfalso
            cases hw with
            | inl e => rw [e] at h; exact top_ne_bot c h.1
            | inr e => rw [e] at h; exact bot_ne_ambig c h.1.symm
        | inr hgph =>
          exfalso
          obtain ⟨i, n, hn, hgo, hv⟩ := hgph
          cases hnode2 hn with
          | inl h1 => exact hu _ (Or.inr ⟨i, n, by rw [A.gt]; exact getElem?_prefix h1.2, hgo, hv⟩)
          | inr h1 =>
            rw [h1.2] at hv
            have e : cur = w := hv
            rw [hb] at e
            cases hw with
            | inl e2 => rw [e2] at e; exact top_ne_bot c e.symm
            | inr e2 => rw [e2] at e; exact bot_ne_ambig c e
      have ht : Tgt c inst x := h2.elim (hcache _ (Or.inl rfl)) (hcache _ (Or.inr rfl))
      cases (A.L.inv.tgt_sub_InG ht).unfold with
      | inl h => exact h.elim (fun h' => absurd h' (hu _)) (fun h' => absurd h' (hu _))
      | inr h => exact J.mono (fun j hj => Or.inr hj) h.2
    | inr h2 => exact J.mono (fun j hj => Or.inl hj) h2.2

end

end Chalk.FixedPoint.Cyc
