import ChalkModel.AnswerStream

namespace Chalk

def validAns (a : StoredAnswer) : Bool := !a.delayed

theorem peekFrom_spec : (answers : List StoredAnswer) → (idx0 : Nat) →
    (peekFrom false answers idx0 = .noMore ∧ answers.filter validAns = []) ∨
    (∃ i a, peekFrom false answers idx0 = .answer (idx0 + i) a ∧ i < answers.length ∧
      answers.filter validAns = a :: (answers.drop (i + 1)).filter validAns)
  | [], idx0 => Or.inl ⟨by simp [peekFrom], rfl⟩
  | x :: rest, idx0 => by
      by_cases hx : x.delayed = true
      · rcases peekFrom_spec rest (idx0 + 1) with ⟨h1, h2⟩ | ⟨i, a, h1, h2, h3⟩
        · left; simp [peekFrom, hx, h1, validAns, h2]
        · right
          refine ⟨i + 1, a, ?_, by simp; omega, ?_⟩
          · simp [peekFrom, hx, h1]; omega
          · simp [validAns, hx]; simpa [validAns] using h3
      · right
        refine ⟨0, x, by simp [peekFrom, hx], by simp, ?_⟩
        simp [validAns, hx]

/-- the specification of the callback sequence: the valid answers in table order, each flagged
    `true` iff another valid answer follows -/
def specYields : List StoredAnswer → List (Yield × Bool)
  | [] => []
  | [a] => [(classify a, false)]
  | a :: b :: r => (classify a, true) :: specYields (b :: r)

theorem solveMultiple_spec : (n : Nat) → (answers : List StoredAnswer) → answers.length ≤ n →
    (ds : List Bool) → (∀ d ∈ ds, d = true) → answers.length < ds.length →
    solveMultiple false answers ds = specYields (answers.filter validAns)
  | n, answers, hn, [], _, hl => by simp at hl
  | n, answers, hn, d :: ds, hd, hl => by
      have hdt : d = true := hd d (by simp)
      unfold solveMultiple
      rcases peekFrom_spec answers 0 with ⟨h1, h2⟩ | ⟨i, a, h1, h2, h3⟩
      · simp [h1, h2, specYields]
      · simp only [Nat.zero_add] at h1
        simp only [h1, hdt, if_true]
        have hlen : (answers.drop (i + 1)).length < answers.length := by simp; omega
        cases n with
        | zero => omega
        | succ n =>
          have ih := solveMultiple_spec n (answers.drop (i + 1)) (by omega) ds
            (fun d hd' => hd d (by simp [hd'])) (by simp at hl ⊢; omega)
          rw [ih, h3]
          rcases peekFrom_spec (answers.drop (i + 1)) 0 with ⟨g1, g2⟩ | ⟨j, b, g1, g2, g3⟩
          · simp [g1, g2, specYields]
          · simp only [Nat.zero_add] at g1
            simp [g1, g3, specYields]

/-! ### `push_answer` never stores two answers with the same substitution -/

def STable.Inv (t : STable) : Prop :=
  (t.answers.map (·.key)).Nodup ∧ ∀ a ∈ t.answers, (t.hash.lookup a.key).isSome = true

theorem STable.inv_empty : ({} : STable).Inv := by simp [STable.Inv]

theorem List.lookup_cons_ne_none {k k' : Nat} {v : Bool} {l : List (Nat × Bool)}
    (h : (l.lookup k).isSome = true) : (((k', v) :: l).lookup k).isSome = true := by
  simp only [List.lookup]
  split <;> simp_all

theorem STable.pushAnswer_inv (t : STable) (a : StoredAnswer) (h : t.Inv) (t' : STable) (added : Bool)
    (hp : t.pushAnswer a = .ok (t', added)) : t'.Inv := by
  unfold STable.pushAnswer at hp
  split at hp
  · cases hp
  · cases hl : t.hash.lookup a.key with
    | none =>
      simp [hl] at hp
      obtain ⟨rfl, _⟩ := hp
      constructor
      · simp only [List.map_append, List.map_cons, List.map_nil]
        rw [List.nodup_append]
        refine ⟨h.1, by simp, ?_⟩
        intro x hx y hy
        simp at hy; subst hy
        intro hxy; subst hxy
        simp only [List.mem_map] at hx
        obtain ⟨b, hb, hbk⟩ := hx
        have := h.2 b hb
        rw [hbk, hl] at this
        simp at this
      · intro b hb
        simp only [List.mem_append, List.mem_singleton] at hb
        rcases hb with hb | rfl
        · exact List.lookup_cons_ne_none (h.2 b hb)
        · simp [List.lookup]
    | some w =>
      simp [hl] at hp
      split at hp
      · cases hp
      · simp at hp; obtain ⟨rfl, _⟩ := hp; exact h

/-- any sequence of pushes keeps the stored answers duplicate-free -/
theorem pushes_nodup : (as : List StoredAnswer) → (t t' : STable) → t.Inv →
    as.foldlM (fun (t : STable) a => (t.pushAnswer a).map (·.1)) t = .ok t' → t'.Inv
  | [], t, t', h, hp => by simp [List.foldlM, pure, Except.pure] at hp; subst hp; exact h
  | a :: as, t, t', h, hp => by
      simp only [List.foldlM, bind, Except.bind] at hp
      cases hpa : t.pushAnswer a with
      | error e => simp [hpa, Except.map] at hp
      | ok p =>
        obtain ⟨t1, added⟩ := p
        simp [hpa, Except.map] at hp
        exact pushes_nodup as t1 t' (STable.pushAnswer_inv t a h t1 added hpa) hp

end Chalk
