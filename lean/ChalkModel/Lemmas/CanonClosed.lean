import ChalkModel.Lemmas.CanonLemmas
import ChalkModel.Lemmas.ShiftPure

/-! Closedness of canonical forms: the output of the canonicalizer contains no inference variable,
    and every bound variable that is free in it refers to the canonical binder with an index below
    the number of binders. -/
namespace Chalk

/-- `closedAt n o x`: `x`, standing under `o` binders of its own, has no inference variable, and
    every bound variable in it is either local (`db < o`) or `^o.idx` with `idx < n`, i.e. refers to
    the single enclosing binder of `n` variables.  The types of variable and placeholder constants
    are not inspected: the canonicalizer copies them unchanged, and they are closed scalar types in
    every well-typed term. -/
def Lifetime.closedAt (n o : Nat) : Lifetime → Bool
  | .bound db idx => decide (db < o) || (decide (db = o) && decide (idx < n))
  | .infer _ => false
  | _ => true

mutual
  def Ty.closedAt (n o : Nat) : Ty → Bool
    | .app _ args => args.closedAt n o
    | .scalar _ => true
    | .str => true
    | .never => true
    | .foreign _ => true
    | .error => true
    | .array t c => t.closedAt n o && c.closedAt n o
    | .slice t => t.closedAt n o
    | .raw _ t => t.closedAt n o
    | .ref _ l t => l.closedAt n o && t.closedAt n o
    | .placeholder _ _ => true
    | .dyn _ bounds l => bounds.closedAt n (o + 1) && l.closedAt n o
    | .proj _ args => args.closedAt n o
    | .opaque _ args => args.closedAt n o
    | .function _ _ args => args.closedAt n (o + 1)
    | .bound db idx => decide (db < o) || (decide (db = o) && decide (idx < n))
    | .infer _ _ => false
  def Const.closedAt (n o : Nat) : Const → Bool
    | .mk _ (.bound db idx) => decide (db < o) || (decide (db = o) && decide (idx < n))
    | .mk _ (.infer _) => false
    | .mk _ (.placeholder _ _) => true
    | .mk ty (.concrete _) => ty.closedAt n o
  def GArg.closedAt (n o : Nat) : GArg → Bool
    | .ty t => t.closedAt n o
    | .lt l => l.closedAt n o
    | .ct c => c.closedAt n o
  def Args.closedAt (n o : Nat) : Args → Bool
    | .nil => true
    | .cons a as => a.closedAt n o && as.closedAt n o
  def WC.closedAt (n o : Nat) : WC → Bool
    | .implemented _ args => args.closedAt n o
    | .aliasEqProj _ args ty => args.closedAt n o && ty.closedAt n o
    | .aliasEqOpaque _ args ty => args.closedAt n o && ty.closedAt n o
    | .ltOutlives a b => a.closedAt n o && b.closedAt n o
    | .tyOutlives t l => t.closedAt n o && l.closedAt n o
  def QWC.closedAt (n o : Nat) : QWC → Bool
    | .mk _ wc => wc.closedAt n (o + 1)
  def QWCs.closedAt (n o : Nat) : QWCs → Bool
    | .nil => true
    | .cons q qs => q.closedAt n o && qs.closedAt n o
end

/-! ### shifting a closed term in -/

theorem Lifetime.closedAt_shift (n k c : Nat) (l : Lifetime) (h : l.closedAt n c = true) :
    (l.shift k c).closedAt n (c + k) = true := by
  cases l with
  | bound db idx =>
    by_cases hc : c ≤ db
    · simp [Lifetime.closedAt, Lifetime.shift, hc] at h ⊢; omega
    · simp [Lifetime.closedAt, Lifetime.shift, hc] at h ⊢; omega
  | infer v => simp [Lifetime.closedAt] at h
  | placeholder ui idx => simp [Lifetime.closedAt, Lifetime.shift]
  | static => simp [Lifetime.closedAt, Lifetime.shift]
  | erased => simp [Lifetime.closedAt, Lifetime.shift]
  | error => simp [Lifetime.closedAt, Lifetime.shift]

mutual
  theorem Ty.closedAt_shift (n k c : Nat) : (t : Ty) → t.closedAt n c = true → (t.shift k c).closedAt n (c + k) = true
    | .app _ args, h => by simp [Ty.closedAt, Ty.shift] at *; exact Args.closedAt_shift n k c args h
    | .scalar _, _ => by simp [Ty.closedAt, Ty.shift]
    | .str, _ => by simp [Ty.closedAt, Ty.shift]
    | .never, _ => by simp [Ty.closedAt, Ty.shift]
    | .foreign _, _ => by simp [Ty.closedAt, Ty.shift]
    | .error, _ => by simp [Ty.closedAt, Ty.shift]
    | .array t cn, h => by
        simp [Ty.closedAt, Ty.shift] at *
        exact ⟨Ty.closedAt_shift n k c t h.1, Const.closedAt_shift n k c cn h.2⟩
    | .slice t, h => by simp [Ty.closedAt, Ty.shift] at *; exact Ty.closedAt_shift n k c t h
    | .raw _ t, h => by simp [Ty.closedAt, Ty.shift] at *; exact Ty.closedAt_shift n k c t h
    | .ref _ l t, h => by
        simp [Ty.closedAt, Ty.shift] at *
        exact ⟨Lifetime.closedAt_shift n k c l h.1, Ty.closedAt_shift n k c t h.2⟩
    | .placeholder _ _, _ => by simp [Ty.closedAt, Ty.shift]
    | .dyn _ bounds l, h => by
        simp [Ty.closedAt, Ty.shift] at *
        have := QWCs.closedAt_shift n k (c + 1) bounds h.1
        have e : c + 1 + k = c + k + 1 := by omega
        rw [e] at this
        exact ⟨this, Lifetime.closedAt_shift n k c l h.2⟩
    | .proj _ args, h => by simp [Ty.closedAt, Ty.shift] at *; exact Args.closedAt_shift n k c args h
    | .opaque _ args, h => by simp [Ty.closedAt, Ty.shift] at *; exact Args.closedAt_shift n k c args h
    | .function _ _ args, h => by
        simp [Ty.closedAt, Ty.shift] at *
        have := Args.closedAt_shift n k (c + 1) args h
        have e : c + 1 + k = c + k + 1 := by omega
        rw [e] at this
        exact this
    | .bound db idx, h => by
        simp [Ty.closedAt, Ty.shift] at *
        split <;> simp [Ty.closedAt] <;> omega
    | .infer _ _, h => by simp [Ty.closedAt] at h
  theorem Const.closedAt_shift (n k c : Nat) : (cn : Const) → cn.closedAt n c = true → (cn.shift k c).closedAt n (c + k) = true
    | .mk ty (.bound db idx), h => by
        simp [Const.closedAt, Const.shift] at *
        split <;> simp [Const.closedAt] <;> omega
    | .mk ty (.infer _), h => by simp [Const.closedAt] at h
    | .mk ty (.placeholder _ _), _ => by simp [Const.closedAt, Const.shift]
    | .mk ty (.concrete _), h => by
        simp [Const.closedAt, Const.shift] at *; exact Ty.closedAt_shift n k c ty h
  theorem GArg.closedAt_shift (n k c : Nat) : (a : GArg) → a.closedAt n c = true → (a.shift k c).closedAt n (c + k) = true
    | .ty t, h => by simp [GArg.closedAt, GArg.shift] at *; exact Ty.closedAt_shift n k c t h
    | .lt l, h => by simp [GArg.closedAt, GArg.shift] at *; exact Lifetime.closedAt_shift n k c l h
    | .ct cn, h => by simp [GArg.closedAt, GArg.shift] at *; exact Const.closedAt_shift n k c cn h
  theorem Args.closedAt_shift (n k c : Nat) : (a : Args) → a.closedAt n c = true → (a.shift k c).closedAt n (c + k) = true
    | .nil, _ => by simp [Args.closedAt, Args.shift]
    | .cons a as, h => by
        simp [Args.closedAt, Args.shift] at *
        exact ⟨GArg.closedAt_shift n k c a h.1, Args.closedAt_shift n k c as h.2⟩
  theorem WC.closedAt_shift (n k c : Nat) : (w : WC) → w.closedAt n c = true → (w.shift k c).closedAt n (c + k) = true
    | .implemented _ args, h => by simp [WC.closedAt, WC.shift] at *; exact Args.closedAt_shift n k c args h
    | .aliasEqProj _ args ty, h => by
        simp [WC.closedAt, WC.shift] at *
        exact ⟨Args.closedAt_shift n k c args h.1, Ty.closedAt_shift n k c ty h.2⟩
    | .aliasEqOpaque _ args ty, h => by
        simp [WC.closedAt, WC.shift] at *
        exact ⟨Args.closedAt_shift n k c args h.1, Ty.closedAt_shift n k c ty h.2⟩
    | .ltOutlives a b, h => by
        simp [WC.closedAt, WC.shift] at *
        exact ⟨Lifetime.closedAt_shift n k c a h.1, Lifetime.closedAt_shift n k c b h.2⟩
    | .tyOutlives t l, h => by
        simp [WC.closedAt, WC.shift] at *
        exact ⟨Ty.closedAt_shift n k c t h.1, Lifetime.closedAt_shift n k c l h.2⟩
  theorem QWC.closedAt_shift (n k c : Nat) : (q : QWC) → q.closedAt n c = true → (q.shift k c).closedAt n (c + k) = true
    | .mk _ wc, h => by
        simp [QWC.closedAt, QWC.shift] at *
        have := WC.closedAt_shift n k (c + 1) wc h
        have e : c + 1 + k = c + k + 1 := by omega
        rw [e] at this
        exact this
  theorem QWCs.closedAt_shift (n k c : Nat) : (q : QWCs) → q.closedAt n c = true → (q.shift k c).closedAt n (c + k) = true
    | .nil, _ => by simp [QWCs.closedAt, QWCs.shift]
    | .cons q qs, h => by
        simp [QWCs.closedAt, QWCs.shift] at *
        exact ⟨QWC.closedAt_shift n k c q h.1, QWCs.closedAt_shift n k c qs h.2⟩
end

/-! ### a stateful fold whose leaves are closed produces closed terms -/

section Closed
variable {σ : Type}

/-- a successful step does not shrink the measure `len` below `base`, and its value satisfies `C m`
    for every `m` at or above the measure of the new state -/
def ClosedRes {α : Type} (len : σ → Nat) (C : Nat → α → Bool) (base : Nat) (r : Res (α × σ)) : Prop :=
  ∀ a s', r = .ok (a, s') → base ≤ len s' ∧ ∀ m, len s' ≤ m → C m a = true

theorem ClosedRes.pure {α : Type} {len : σ → Nat} {C : Nat → α → Bool} {base : Nat} {a : α} {s : σ}
    (h : base ≤ len s) (hc : ∀ m, len s ≤ m → C m a = true) : ClosedRes len C base (.ok (a, s)) := by
  intro a' s' he; cases he; exact ⟨h, hc⟩

theorem ClosedRes.bind {α β : Type} {len : σ → Nat} {C1 : Nat → α → Bool} {C2 : Nat → β → Bool} {base : Nat}
    {x : Res (α × σ)} {k : α → σ → Res (β × σ)} (hx : ClosedRes len C1 base x)
    (hk : ∀ a s1, base ≤ len s1 → (∀ m, len s1 ≤ m → C1 m a = true) → ClosedRes len C2 (len s1) (k a s1)) :
    ClosedRes len C2 base (bindS x k) := by
  intro r s' h
  obtain ⟨a, s1, h1, h2⟩ := bindS_eq_ok.mp h
  obtain ⟨hb, hc⟩ := hx a s1 h1
  obtain ⟨hb', hc'⟩ := hk a s1 hb hc r s' h2
  exact ⟨Nat.le_trans hb hb', hc'⟩

structure ClosedHandlers (len : σ → Nat) (f : SFolder σ) : Prop where
  freeVarTy : ∀ db idx o s, ClosedRes len (fun m (a : Ty) => a.closedAt m o) (len s) (f.freeVarTy db idx o s)
  freeVarLt : ∀ db idx o s, ClosedRes len (fun m (a : Lifetime) => a.closedAt m o) (len s) (f.freeVarLt db idx o s)
  freeVarConst : ∀ ty db idx o s, ClosedRes len (fun m (a : Const) => a.closedAt m o) (len s) (f.freeVarConst ty db idx o s)
  inferTy : ∀ v k o s, ClosedRes len (fun m (a : Ty) => a.closedAt m o) (len s) (f.inferTy v k o s)
  inferLt : ∀ v o s, ClosedRes len (fun m (a : Lifetime) => a.closedAt m o) (len s) (f.inferLt v o s)
  inferConst : ∀ ty v o s, ClosedRes len (fun m (a : Const) => a.closedAt m o) (len s) (f.inferConst ty v o s)
  phTy : ∀ ui idx o s, ClosedRes len (fun m (a : Ty) => a.closedAt m o) (len s) (f.phTy ui idx o s)
  phLt : ∀ ui idx o s, ClosedRes len (fun m (a : Lifetime) => a.closedAt m o) (len s) (f.phLt ui idx o s)
  phConst : ∀ ty ui idx o s, ClosedRes len (fun m (a : Const) => a.closedAt m o) (len s) (f.phConst ty ui idx o s)
  noTyFold : f.NoTyFold

variable {len : σ → Nat} {f : SFolder σ}

theorem sfoldLifetime_closed (H : ClosedHandlers len f) (o : Nat) (l : Lifetime) (s : σ) :
    ClosedRes len (fun m (a : Lifetime) => a.closedAt m o) (len s) (sfoldLifetime f o l s) := by
  cases l with
  | bound db idx =>
    simp only [sfoldLifetime]
    split
    · exact H.freeVarLt _ _ _ _
    · rename_i hd
      exact ClosedRes.pure (Nat.le_refl _) fun m _ => by simp [Lifetime.closedAt]; omega
  | infer v => exact H.inferLt _ _ _
  | placeholder ui idx => exact H.phLt _ _ _ _
  | static => exact ClosedRes.pure (Nat.le_refl _) fun m _ => by simp [Lifetime.closedAt]
  | erased => exact ClosedRes.pure (Nat.le_refl _) fun m _ => by simp [Lifetime.closedAt]
  | error => exact ClosedRes.pure (Nat.le_refl _) fun m _ => by simp [Lifetime.closedAt]

mutual
  theorem sfoldTy_closed (H : ClosedHandlers len f) (o : Nat) : (t : Ty) → (s : σ) →
      ClosedRes len (fun m (a : Ty) => a.closedAt m o) (len s) (sfoldTy f o t s)
    | .app n args, s => by
        simp only [sfoldTy]
        exact ClosedRes.bind (sfoldArgs_closed H o args s) fun a s1 _ ha =>
          ClosedRes.pure (Nat.le_refl _) fun m hm => by simpa [Ty.closedAt] using ha m hm
    | .scalar _, s => ClosedRes.pure (Nat.le_refl _) fun m _ => by simp [Ty.closedAt]
    | .str, s => ClosedRes.pure (Nat.le_refl _) fun m _ => by simp [Ty.closedAt]
    | .never, s => ClosedRes.pure (Nat.le_refl _) fun m _ => by simp [Ty.closedAt]
    | .foreign _, s => ClosedRes.pure (Nat.le_refl _) fun m _ => by simp [Ty.closedAt]
    | .error, s => ClosedRes.pure (Nat.le_refl _) fun m _ => by simp [Ty.closedAt]
    | .array t c, s => by
        simp only [sfoldTy]
        exact ClosedRes.bind (sfoldTy_closed H o t s) fun a s1 _ ha =>
          ClosedRes.bind (sfoldConst_closed H o c s1) fun b s2 h2 hb =>
            ClosedRes.pure (Nat.le_refl _) fun m hm => by
              simp [Ty.closedAt, ha m (Nat.le_trans h2 hm), hb m hm]
    | .slice t, s => by
        simp only [sfoldTy]
        exact ClosedRes.bind (sfoldTy_closed H o t s) fun a s1 _ ha =>
          ClosedRes.pure (Nat.le_refl _) fun m hm => by simpa [Ty.closedAt] using ha m hm
    | .raw _ t, s => by
        simp only [sfoldTy]
        exact ClosedRes.bind (sfoldTy_closed H o t s) fun a s1 _ ha =>
          ClosedRes.pure (Nat.le_refl _) fun m hm => by simpa [Ty.closedAt] using ha m hm
    | .ref _ l t, s => by
        simp only [sfoldTy]
        exact ClosedRes.bind (sfoldLifetime_closed H o l s) fun a s1 _ ha =>
          ClosedRes.bind (sfoldTy_closed H o t s1) fun b s2 h2 hb =>
            ClosedRes.pure (Nat.le_refl _) fun m hm => by
              simp [Ty.closedAt, ha m (Nat.le_trans h2 hm), hb m hm]
    | .placeholder ui idx, s => H.phTy _ _ _ _
    | .dyn _ bounds l, s => by
        simp only [sfoldTy]
        exact ClosedRes.bind (sfoldQWCs_closed H (o + 1) bounds s) fun a s1 _ ha =>
          ClosedRes.bind (sfoldLifetime_closed H o l s1) fun b s2 h2 hb =>
            ClosedRes.pure (Nat.le_refl _) fun m hm => by
              simp [Ty.closedAt, ha m (Nat.le_trans h2 hm), hb m hm]
    | .proj _ args, s => by
        simp only [sfoldTy]
        exact ClosedRes.bind (sfoldArgs_closed H o args s) fun a s1 _ ha =>
          ClosedRes.pure (Nat.le_refl _) fun m hm => by simpa [Ty.closedAt] using ha m hm
    | .opaque _ args, s => by
        simp only [sfoldTy]
        exact ClosedRes.bind (sfoldArgs_closed H o args s) fun a s1 _ ha =>
          ClosedRes.pure (Nat.le_refl _) fun m hm => by simpa [Ty.closedAt] using ha m hm
    | .function _ _ args, s => by
        simp only [sfoldTy]
        exact ClosedRes.bind (sfoldArgs_closed H (o + 1) args s) fun a s1 _ ha =>
          ClosedRes.pure (Nat.le_refl _) fun m hm => by simpa [Ty.closedAt] using ha m hm
    | .bound db idx, s => by
        simp only [sfoldTy]
        split
        · exact H.freeVarTy _ _ _ _
        · exact ClosedRes.pure (Nat.le_refl _) fun m _ => by simp [Ty.closedAt]; omega
    | .infer v k, s => H.inferTy _ _ _ _
  theorem sfoldConst_closed (H : ClosedHandlers len f) (o : Nat) : (c : Const) → (s : σ) →
      ClosedRes len (fun m (a : Const) => a.closedAt m o) (len s) (sfoldConst f o c s)
    | .mk ty (.bound db idx), s => by
        simp only [sfoldConst, H.noTyFold.freeVar]
        split
        · exact H.freeVarConst _ _ _ _ _
        · exact ClosedRes.pure (Nat.le_refl _) fun m _ => by simp [Const.closedAt]; omega
    | .mk ty (.infer v), s => by
        simp only [sfoldConst, H.noTyFold.infer]
        exact H.inferConst _ _ _ _
    | .mk ty (.placeholder ui idx), s => by
        simp only [sfoldConst, H.noTyFold.ph]
        exact H.phConst _ _ _ _ _
    | .mk ty (.concrete k), s => by
        simp only [sfoldConst]
        exact ClosedRes.bind (sfoldTy_closed H o ty s) fun a s1 _ ha =>
          ClosedRes.pure (Nat.le_refl _) fun m hm => by simpa [Const.closedAt] using ha m hm
  theorem sfoldGArg_closed (H : ClosedHandlers len f) (o : Nat) : (g : GArg) → (s : σ) →
      ClosedRes len (fun m (a : GArg) => a.closedAt m o) (len s) (sfoldGArg f o g s)
    | .ty t, s => by
        simp only [sfoldGArg]
        exact ClosedRes.bind (sfoldTy_closed H o t s) fun a s1 _ ha =>
          ClosedRes.pure (Nat.le_refl _) fun m hm => by simpa [GArg.closedAt] using ha m hm
    | .lt l, s => by
        simp only [sfoldGArg]
        exact ClosedRes.bind (sfoldLifetime_closed H o l s) fun a s1 _ ha =>
          ClosedRes.pure (Nat.le_refl _) fun m hm => by simpa [GArg.closedAt] using ha m hm
    | .ct c, s => by
        simp only [sfoldGArg]
        exact ClosedRes.bind (sfoldConst_closed H o c s) fun a s1 _ ha =>
          ClosedRes.pure (Nat.le_refl _) fun m hm => by simpa [GArg.closedAt] using ha m hm
  theorem sfoldArgs_closed (H : ClosedHandlers len f) (o : Nat) : (as : Args) → (s : σ) →
      ClosedRes len (fun m (a : Args) => a.closedAt m o) (len s) (sfoldArgs f o as s)
    | .nil, s => ClosedRes.pure (Nat.le_refl _) fun m _ => by simp [Args.closedAt]
    | .cons g as, s => by
        simp only [sfoldArgs]
        exact ClosedRes.bind (sfoldGArg_closed H o g s) fun a s1 _ ha =>
          ClosedRes.bind (sfoldArgs_closed H o as s1) fun b s2 h2 hb =>
            ClosedRes.pure (Nat.le_refl _) fun m hm => by
              simp [Args.closedAt, ha m (Nat.le_trans h2 hm), hb m hm]
  theorem sfoldWC_closed (H : ClosedHandlers len f) (o : Nat) : (w : WC) → (s : σ) →
      ClosedRes len (fun m (a : WC) => a.closedAt m o) (len s) (sfoldWC f o w s)
    | .implemented _ args, s => by
        simp only [sfoldWC]
        exact ClosedRes.bind (sfoldArgs_closed H o args s) fun a s1 _ ha =>
          ClosedRes.pure (Nat.le_refl _) fun m hm => by simpa [WC.closedAt] using ha m hm
    | .aliasEqProj _ args ty, s => by
        simp only [sfoldWC]
        exact ClosedRes.bind (sfoldArgs_closed H o args s) fun a s1 _ ha =>
          ClosedRes.bind (sfoldTy_closed H o ty s1) fun b s2 h2 hb =>
            ClosedRes.pure (Nat.le_refl _) fun m hm => by
              simp [WC.closedAt, ha m (Nat.le_trans h2 hm), hb m hm]
    | .aliasEqOpaque _ args ty, s => by
        simp only [sfoldWC]
        exact ClosedRes.bind (sfoldArgs_closed H o args s) fun a s1 _ ha =>
          ClosedRes.bind (sfoldTy_closed H o ty s1) fun b s2 h2 hb =>
            ClosedRes.pure (Nat.le_refl _) fun m hm => by
              simp [WC.closedAt, ha m (Nat.le_trans h2 hm), hb m hm]
    | .ltOutlives x y, s => by
        simp only [sfoldWC]
        exact ClosedRes.bind (sfoldLifetime_closed H o x s) fun a s1 _ ha =>
          ClosedRes.bind (sfoldLifetime_closed H o y s1) fun b s2 h2 hb =>
            ClosedRes.pure (Nat.le_refl _) fun m hm => by
              simp [WC.closedAt, ha m (Nat.le_trans h2 hm), hb m hm]
    | .tyOutlives t l, s => by
        simp only [sfoldWC]
        exact ClosedRes.bind (sfoldTy_closed H o t s) fun a s1 _ ha =>
          ClosedRes.bind (sfoldLifetime_closed H o l s1) fun b s2 h2 hb =>
            ClosedRes.pure (Nat.le_refl _) fun m hm => by
              simp [WC.closedAt, ha m (Nat.le_trans h2 hm), hb m hm]
  theorem sfoldQWC_closed (H : ClosedHandlers len f) (o : Nat) : (q : QWC) → (s : σ) →
      ClosedRes len (fun m (a : QWC) => a.closedAt m o) (len s) (sfoldQWC f o q s)
    | .mk _ wc, s => by
        simp only [sfoldQWC]
        exact ClosedRes.bind (sfoldWC_closed H (o + 1) wc s) fun a s1 _ ha =>
          ClosedRes.pure (Nat.le_refl _) fun m hm => by simpa [QWC.closedAt] using ha m hm
  theorem sfoldQWCs_closed (H : ClosedHandlers len f) (o : Nat) : (qs : QWCs) → (s : σ) →
      ClosedRes len (fun m (a : QWCs) => a.closedAt m o) (len s) (sfoldQWCs f o qs s)
    | .nil, s => ClosedRes.pure (Nat.le_refl _) fun m _ => by simp [QWCs.closedAt]
    | .cons q qs, s => by
        simp only [sfoldQWCs]
        exact ClosedRes.bind (sfoldQWC_closed H o q s) fun a s1 _ ha =>
          ClosedRes.bind (sfoldQWCs_closed H o qs s1) fun b s2 h2 hb =>
            ClosedRes.pure (Nat.le_refl _) fun m hm => by
              simp [QWCs.closedAt, ha m (Nat.le_trans h2 hm), hb m hm]
end

end Closed

/-! ### the canonicalizer's leaves are closed -/

def cLen (st : CState) : Nat := st.freeVars.length

theorem canonAdd_closed (t : Table) (st st' : CState) (k : VarKind) (r i : Nat)
    (h : canonAdd t st k r = .ok (i, st')) : cLen st ≤ cLen st' ∧ i < cLen st' := by
  unfold canonAdd at h
  cases hu : t.universeOfUnbound r with
  | error e => simp [hu] at h
  | ok u =>
    simp only [hu] at h
    cases hp : posOf r st.freeVars with
    | some j =>
      simp [hp] at h
      obtain ⟨rfl, rfl⟩ := h
      exact ⟨Nat.le_refl _, posOf_lt_length r _ _ hp⟩
    | none =>
      simp [hp] at h
      obtain ⟨rfl, rfl⟩ := h
      simp [cLen]

theorem canonStep_closed (t : Table) (inner : Option (SFolder CState))
    (hin : ∀ f, inner = some f → ClosedHandlers cLen f) : ClosedHandlers cLen (canonStep t inner) := by
  refine
    { freeVarTy := ?_, freeVarLt := ?_, freeVarConst := ?_, inferTy := ?_, inferLt := ?_, inferConst := ?_,
      phTy := ?_, phLt := ?_, phConst := ?_, noTyFold := ⟨rfl, rfl, rfl⟩ }
  · intro db idx o s a s' h; simp [canonStep, forbidFreeVarTy] at h
  · intro db idx o s a s' h; simp [canonStep, forbidFreeVarLt] at h
  · intro ty db idx o s a s' h; simp [canonStep, forbidFreeVarConst] at h
  · -- inferTy
    intro v k o s a s' h
    simp only [canonStep] at h
    cases hp : t.probeVar v with
    | none =>
      simp only [hp] at h
      cases hadd : canonAdd t s (.ty k) (t.find v) with
      | error e => simp [hadd] at h
      | ok p =>
        obtain ⟨i, st'⟩ := p
        simp [hadd] at h
        obtain ⟨rfl, rfl⟩ := h
        obtain ⟨h1, h2⟩ := canonAdd_closed t s st' _ _ i hadd
        exact ⟨h1, fun m hm => by simp [Ty.closedAt]; omega⟩
    | some g =>
      simp only [hp] at h
      cases inner with
      | none => simp at h
      | some f =>
        have IH := hin f rfl
        cases g with
        | ty ty =>
          simp only at h
          obtain ⟨ty', st', hf, hk⟩ := bindS_eq_ok.mp h
          obtain ⟨h1, h2⟩ := sfoldTy_closed IH 0 ty s ty' st' hf
          simp only [Ty.shiftedInFrom, foldTy_shifter] at hk
          simp at hk
          obtain ⟨rfl, rfl⟩ := hk
          exact ⟨h1, fun m hm => by simpa using Ty.closedAt_shift m o 0 ty' (h2 m hm)⟩
        | lt l => simp at h
        | ct c => simp at h
  · -- inferLt
    intro v o s a s' h
    simp only [canonStep] at h
    cases hp : t.probeVar v with
    | none =>
      simp only [hp] at h
      cases hadd : canonAdd t s .lt (t.find v) with
      | error e => simp [hadd] at h
      | ok p =>
        obtain ⟨i, st'⟩ := p
        simp [hadd] at h
        obtain ⟨rfl, rfl⟩ := h
        obtain ⟨h1, h2⟩ := canonAdd_closed t s st' _ _ i hadd
        exact ⟨h1, fun m hm => by simp [Lifetime.closedAt]; omega⟩
    | some g =>
      simp only [hp] at h
      cases inner with
      | none => simp at h
      | some f =>
        have IH := hin f rfl
        cases g with
        | lt l =>
          simp only at h
          obtain ⟨l', st', hf, hk⟩ := bindS_eq_ok.mp h
          obtain ⟨h1, h2⟩ := sfoldLifetime_closed IH 0 l s l' st' hf
          simp only [Lifetime.shiftedInFrom, foldLifetime_shifter] at hk
          simp at hk
          obtain ⟨rfl, rfl⟩ := hk
          exact ⟨h1, fun m hm => by simpa using Lifetime.closedAt_shift m o 0 l' (h2 m hm)⟩
        | ty ty => simp at h
        | ct c => simp at h
  · -- inferConst
    intro ty v o s a s' h
    simp only [canonStep] at h
    cases hp : t.probeVar v with
    | none =>
      simp only [hp] at h
      cases hadd : canonAdd t s (.const ty.scalarCode) (t.find v) with
      | error e => simp [hadd] at h
      | ok p =>
        obtain ⟨i, st'⟩ := p
        simp [hadd] at h
        obtain ⟨rfl, rfl⟩ := h
        obtain ⟨h1, h2⟩ := canonAdd_closed t s st' _ _ i hadd
        exact ⟨h1, fun m hm => by simp [Const.closedAt]; omega⟩
    | some g =>
      simp only [hp] at h
      cases inner with
      | none => simp at h
      | some f =>
        have IH := hin f rfl
        cases g with
        | ct c =>
          simp only at h
          obtain ⟨c', st', hf, hk⟩ := bindS_eq_ok.mp h
          obtain ⟨h1, h2⟩ := sfoldConst_closed IH 0 c s c' st' hf
          simp only [Const.shiftedInFrom, foldConst_shifter] at hk
          simp at hk
          obtain ⟨rfl, rfl⟩ := hk
          exact ⟨h1, fun m hm => by simpa using Const.closedAt_shift m o 0 c' (h2 m hm)⟩
        | ty ty => simp at h
        | lt l => simp at h
  · intro ui idx o s a s' h
    simp only [canonStep] at h; cases h
    exact ⟨Nat.le_refl _, fun m _ => by simp [Ty.closedAt]⟩
  · intro ui idx o s a s' h
    simp only [canonStep] at h; cases h
    exact ⟨Nat.le_refl _, fun m _ => by simp [Lifetime.closedAt]⟩
  · intro ty ui idx o s a s' h
    simp only [canonStep] at h; cases h
    exact ⟨Nat.le_refl _, fun m _ => by simp [Const.closedAt]⟩

theorem canonFolder_closed (t : Table) : (fuel : Nat) → ClosedHandlers cLen (canonFolder t fuel)
  | 0 => canonStep_closed t none (fun f h => by simp at h)
  | n + 1 => canonStep_closed t (some (canonFolder t n)) (fun f h => by
      simp at h; subst h; exact canonFolder_closed t n)

theorem intoBinders_length (t : Table) : (l bs : List (VarKind × Nat)) → intoBinders t l = .ok bs →
    bs.length = l.length
  | [], bs, h => by simp [intoBinders] at h; subst h; rfl
  | (k, r) :: l, bs, h => by
    simp only [intoBinders] at h
    cases hu : t.universeOfUnbound r with
    | error e => simp [hu] at h
    | ok u =>
      simp only [hu] at h
      cases hr : intoBinders t l with
      | error e => simp [hr] at h
      | ok bs' =>
        simp [hr] at h; subst h
        simp [intoBinders_length t l bs' hr]

end Chalk
