import ChalkModel.Lemmas.GoalLemmas

namespace Chalk.Sem

/-- two programs with the same clauses as *sets* (any order, any multiplicity), each clause with
    the same conditions as a set, and the same coinductive predicates -/
def SameProgram (P Q : Program) : Prop :=
  P.coind = Q.coind ∧
  (∀ c ∈ P.clauses, ∃ d ∈ Q.clauses, d.head = c.head ∧ ∀ b, b ∈ d.body ↔ b ∈ c.body) ∧
  (∀ d ∈ Q.clauses, ∃ c ∈ P.clauses, c.head = d.head ∧ ∀ b, b ∈ c.body ↔ b ∈ d.body)

theorem viaClause_same {P Q : Program} (h : SameProgram P Q) {X : Atom → Prop} {a : Atom}
    (hv : ViaClause P X a) : ViaClause Q X a := by
  obtain ⟨c, hc, σ, hs, hb⟩ := hv
  obtain ⟨d, hd, hh, hbd⟩ := h.2.1 c hc
  exact ⟨d, hd, σ, by rw [hh]; exact hs, fun b hbm => hb b ((hbd b).mp hbm)⟩

theorem SameProgram.symm {P Q : Program} (h : SameProgram P Q) : SameProgram Q P :=
  ⟨h.1.symm, h.2.2, h.2.1⟩

theorem coHolds_same {P Q : Program} (h : SameProgram P Q) (Γ : List Atom) (a : Atom)
    (hc : CoHolds P Γ a) : CoHolds Q Γ a := by
  obtain ⟨X, hX, hXa⟩ := hc
  refine ⟨X, ?_, hXa⟩
  intro x hx
  obtain ⟨h1, h2⟩ := hX x hx
  refine ⟨by rw [← h.1]; exact h1, ?_⟩
  rcases h2 with h2 | h2
  · exact Or.inl h2
  · exact Or.inr (viaClause_same h h2)

theorem holds_same {P Q : Program} (h : SameProgram P Q) (Γ : List Atom) (a : Atom)
    (hh : Holds P Γ a) : Holds Q Γ a := by
  intro X hX
  apply hh X
  intro x hx
  apply hX x
  rcases hx with h1 | ⟨h1, h2⟩ | ⟨h1, h2⟩
  · exact Or.inl h1
  · exact Or.inr (Or.inl ⟨by rw [← h.1]; exact h1, coHolds_same h Γ x h2⟩)
  · exact Or.inr (Or.inr ⟨by rw [← h.1]; exact h1, viaClause_same h h2⟩)

theorem gholds_same {P Q : Program} (h : SameProgram P Q) : (g : Goal) → (Γ : List Atom) →
    (GHolds P Γ g ↔ GHolds Q Γ g)
  | .atom a, Γ => ⟨holds_same h Γ a, holds_same h.symm Γ a⟩
  | .tt, _ => Iff.rfl
  | .and g k, Γ => by simp only [GHolds, gholds_same h g Γ, gholds_same h k Γ]
  | .implies hyps g, Γ => by simp only [GHolds, gholds_same h g (hyps ++ Γ)]
  | .not g, Γ => by simp only [GHolds, gholds_same h g Γ]
  | .eq _ _, _ => Iff.rfl

end Chalk.Sem
