/-
  The "theorem on constants" (generalisation lemma) for the declarative semantics of `Sem.lean`:
  opaque constants that occur nowhere in the program may be replaced by arbitrary terms, and truth
  of atoms (both strata) and of positive goals is preserved.  Helpers for `Props/C01gen.lean`.
  No algorithm is involved: everything is about `Holds` / `CoHolds` / `GHolds`.
-/
import ChalkModel.Lemmas.GfpLemmas
import ChalkModel.Contract

namespace Chalk.Sem

/-! ### replacing constants -/

mutual
  /-- replace every constant `c` (a constructor symbol applied to no arguments) with `ρ c = some t`
      by `t`; everything else is kept -/
  def Tm.repl (ρ : String → Option Tm) : Tm → Tm
    | .app c .nil => (ρ c).getD (.app c .nil)
    | .app c (.cons t ts) => .app c (.cons (t.repl ρ) (ts.repl ρ))
    | .var i => .var i
  def Tms.repl (ρ : String → Option Tm) : Tms → Tms
    | .nil => .nil
    | .cons t ts => .cons (t.repl ρ) (ts.repl ρ)
end

def Atom.repl (ρ : String → Option Tm) (a : Atom) : Atom := ⟨a.pred, a.args.repl ρ⟩

def Goal.repl (ρ : String → Option Tm) : Goal → Goal
  | .atom a => .atom (a.repl ρ)
  | .tt => .tt
  | .and g h => .and (g.repl ρ) (h.repl ρ)
  | .implies hyps g => .implies (hyps.map (Atom.repl ρ)) (g.repl ρ)
  | .not g => .not (g.repl ρ)
  | .eq s t => .eq (s.repl ρ) (t.repl ρ)

/-! ### "no symbol of the set `N` occurs" -/

mutual
  /-- no constructor symbol of `N` occurs in the term (with whatever arguments) -/
  def Tm.Avoids (N : String → Prop) : Tm → Prop
    | .app c args => ¬ N c ∧ args.Avoids N
    | .var _ => True
  def Tms.Avoids (N : String → Prop) : Tms → Prop
    | .nil => True
    | .cons t ts => t.Avoids N ∧ ts.Avoids N
end

def Atom.Avoids (N : String → Prop) (a : Atom) : Prop := a.args.Avoids N

def Clause.Avoids (N : String → Prop) (c : Clause) : Prop := c.head.Avoids N ∧ ∀ b ∈ c.body, b.Avoids N

def Program.Avoids (N : String → Prop) (P : Program) : Prop := ∀ c ∈ P.clauses, c.Avoids N

def Goal.Avoids (N : String → Prop) : Goal → Prop
  | .atom a => a.Avoids N
  | .tt => True
  | .and g h => g.Avoids N ∧ h.Avoids N
  | .implies hyps g => (∀ a ∈ hyps, a.Avoids N) ∧ g.Avoids N
  | .not g => g.Avoids N
  | .eq s t => s.Avoids N ∧ t.Avoids N

/-- positive goals: no negation -/
def Goal.Positive : Goal → Prop
  | .atom _ => True
  | .tt => True
  | .and g h => g.Positive ∧ h.Positive
  | .implies _ g => g.Positive
  | .not _ => False
  | .eq _ _ => True

/-! ### executable versions -/

mutual
  /-- every constructor symbol of the term satisfies `p` -/
  def Tm.allSyms (p : String → Bool) : Tm → Bool
    | .app c args => p c && args.allSyms p
    | .var _ => true
  def Tms.allSyms (p : String → Bool) : Tms → Bool
    | .nil => true
    | .cons t ts => t.allSyms p && ts.allSyms p
end

def Atom.allSyms (p : String → Bool) (a : Atom) : Bool := a.args.allSyms p

def Clause.allSyms (p : String → Bool) (c : Clause) : Bool := c.head.allSyms p && c.body.all (Atom.allSyms p)

def Program.allSyms (p : String → Bool) (P : Program) : Bool := P.clauses.all (Clause.allSyms p)

def Goal.allSyms (p : String → Bool) : Goal → Bool
  | .atom a => a.allSyms p
  | .tt => true
  | .and g h => g.allSyms p && h.allSyms p
  | .implies hyps g => hyps.all (Atom.allSyms p) && g.allSyms p
  | .not g => g.allSyms p
  | .eq s t => s.allSyms p && t.allSyms p

def Goal.positiveB : Goal → Bool
  | .atom _ => true
  | .tt => true
  | .and g h => g.positiveB && h.positiveB
  | .implies _ g => g.positiveB
  | .not _ => false
  | .eq _ _ => true

mutual
  theorem Tm.avoids_of_allSyms {N : String → Prop} {p : String → Bool} (hp : ∀ c, p c = true → ¬ N c) :
      (t : Tm) → t.allSyms p = true → t.Avoids N
    | .var _, _ => by simp [Tm.Avoids]
    | .app c args, h => by
        simp only [Tm.allSyms, Bool.and_eq_true] at h
        exact ⟨hp c h.1, Tms.avoids_of_allSyms hp args h.2⟩
  theorem Tms.avoids_of_allSyms {N : String → Prop} {p : String → Bool} (hp : ∀ c, p c = true → ¬ N c) :
      (ts : Tms) → ts.allSyms p = true → ts.Avoids N
    | .nil, _ => by simp [Tms.Avoids]
    | .cons t ts, h => by
        simp only [Tms.allSyms, Bool.and_eq_true] at h
        exact ⟨Tm.avoids_of_allSyms hp t h.1, Tms.avoids_of_allSyms hp ts h.2⟩
end

theorem Atom.avoids_of_allSyms {N : String → Prop} {p : String → Bool} (hp : ∀ c, p c = true → ¬ N c)
    (a : Atom) (h : a.allSyms p = true) : a.Avoids N :=
  Tms.avoids_of_allSyms hp a.args h

theorem Clause.avoids_of_allSyms {N : String → Prop} {p : String → Bool} (hp : ∀ c, p c = true → ¬ N c)
    (c : Clause) (h : c.allSyms p = true) : c.Avoids N := by
  simp only [Clause.allSyms, Bool.and_eq_true, List.all_eq_true] at h
  exact ⟨Atom.avoids_of_allSyms hp _ h.1, fun b hb => Atom.avoids_of_allSyms hp b (h.2 b hb)⟩

theorem Program.avoids_of_allSyms {N : String → Prop} {p : String → Bool} (hp : ∀ c, p c = true → ¬ N c)
    (P : Program) (h : P.allSyms p = true) : P.Avoids N := by
  simp only [Program.allSyms, List.all_eq_true] at h
  exact fun c hc => Clause.avoids_of_allSyms hp c (h c hc)

theorem Goal.avoids_of_allSyms {N : String → Prop} {p : String → Bool} (hp : ∀ c, p c = true → ¬ N c) :
    (g : Goal) → g.allSyms p = true → g.Avoids N
  | .atom a, h => Atom.avoids_of_allSyms hp a h
  | .tt, _ => trivial
  | .and g h, hh => by
      simp only [Goal.allSyms, Bool.and_eq_true] at hh
      exact ⟨Goal.avoids_of_allSyms hp g hh.1, Goal.avoids_of_allSyms hp h hh.2⟩
  | .implies hyps g, hh => by
      simp only [Goal.allSyms, Bool.and_eq_true, List.all_eq_true] at hh
      exact ⟨fun a ha => Atom.avoids_of_allSyms hp a (hh.1 a ha), Goal.avoids_of_allSyms hp g hh.2⟩
  | .not g, hh => Goal.avoids_of_allSyms hp g hh
  | .eq s t, hh => by
      simp only [Goal.allSyms, Bool.and_eq_true] at hh
      exact ⟨Tm.avoids_of_allSyms hp s hh.1, Tm.avoids_of_allSyms hp t hh.2⟩

theorem Goal.positive_iff_positiveB : (g : Goal) → (g.Positive ↔ g.positiveB = true)
  | .atom _ => by simp [Goal.Positive, Goal.positiveB]
  | .tt => by simp [Goal.Positive, Goal.positiveB]
  | .and g h => by
      simp [Goal.Positive, Goal.positiveB, Goal.positive_iff_positiveB g, Goal.positive_iff_positiveB h]
  | .implies _ g => by simp [Goal.Positive, Goal.positiveB, Goal.positive_iff_positiveB g]
  | .not _ => by simp [Goal.Positive, Goal.positiveB]
  | .eq _ _ => by simp [Goal.Positive, Goal.positiveB]

/-! ### replacement commutes with instantiation on avoiding terms -/

theorem Tm.repl_app_of_none {ρ : String → Option Tm} {c : String} (h : ρ c = none) (args : Tms) :
    (Tm.app c args).repl ρ = .app c (args.repl ρ) := by
  cases args with
  | nil => simp [Tm.repl, Tms.repl, h]
  | cons t ts => simp [Tm.repl, Tms.repl]

mutual
  theorem Tm.repl_inst {N : String → Prop} {ρ : String → Option Tm} (hρ : ∀ c, ¬ N c → ρ c = none)
      (θ : Nat → Tm) : (t : Tm) → t.Avoids N → (t.inst θ).repl ρ = t.inst (fun i => (θ i).repl ρ)
    | .var _, _ => by simp [Tm.inst]
    | .app c args, h => by
        simp only [Tm.Avoids] at h
        simp only [Tm.inst]
        rw [Tm.repl_app_of_none (hρ c h.1), Tms.repl_inst hρ θ args h.2]
  theorem Tms.repl_inst {N : String → Prop} {ρ : String → Option Tm} (hρ : ∀ c, ¬ N c → ρ c = none)
      (θ : Nat → Tm) : (ts : Tms) → ts.Avoids N → (ts.inst θ).repl ρ = ts.inst (fun i => (θ i).repl ρ)
    | .nil, _ => by simp [Tms.inst, Tms.repl]
    | .cons t ts, h => by
        simp only [Tms.Avoids] at h
        simp only [Tms.inst, Tms.repl]
        rw [Tm.repl_inst hρ θ t h.1, Tms.repl_inst hρ θ ts h.2]
end

theorem Atom.repl_inst {N : String → Prop} {ρ : String → Option Tm} (hρ : ∀ c, ¬ N c → ρ c = none)
    (θ : Nat → Tm) (a : Atom) (h : a.Avoids N) : (a.inst θ).repl ρ = a.inst (fun i => (θ i).repl ρ) := by
  simp only [Atom.inst, Atom.repl]
  rw [Tms.repl_inst hρ θ a.args h]

theorem Goal.repl_inst {N : String → Prop} {ρ : String → Option Tm} (hρ : ∀ c, ¬ N c → ρ c = none)
    (θ : Nat → Tm) : (g : Goal) → g.Avoids N → (g.inst θ).repl ρ = g.inst (fun i => (θ i).repl ρ)
  | .atom a, h => by simp only [Goal.inst, Goal.repl]; rw [Atom.repl_inst hρ θ a h]
  | .tt, _ => rfl
  | .and g h, hh => by
      simp only [Goal.inst, Goal.repl]
      rw [Goal.repl_inst hρ θ g hh.1, Goal.repl_inst hρ θ h hh.2]
  | .implies hyps g, hh => by
      simp only [Goal.inst, Goal.repl, List.map_map]
      rw [Goal.repl_inst hρ θ g hh.2]
      congr 1
      apply List.map_congr_left
      intro a ha
      exact Atom.repl_inst hρ θ a (hh.1 a ha)
  | .not g, hh => by
      simp only [Goal.inst, Goal.repl]
      rw [Goal.repl_inst hρ θ g hh]
  | .eq s t, hh => by
      simp only [Goal.inst, Goal.repl]
      rw [Tm.repl_inst hρ θ s hh.1, Tm.repl_inst hρ θ t hh.2]

/-! ### transport of derivations -/

/-- a clause step is transported along the replacement (the program avoids the replaced symbols) -/
theorem ViaClause.repl {N : String → Prop} {ρ : String → Option Tm} (hρ : ∀ c, ¬ N c → ρ c = none)
    {P : Program} (hP : P.Avoids N) {X Y : Atom → Prop} (hXY : ∀ b, X b → Y (b.repl ρ)) {a : Atom}
    (hv : ViaClause P X a) : ViaClause P Y (a.repl ρ) := by
  obtain ⟨c, hc, σ, hs, hb⟩ := hv
  refine ⟨c, hc, fun i => (σ i).repl ρ, ?_, ?_⟩
  · rw [← Atom.repl_inst hρ σ c.head (hP c hc).1, hs]
  · intro b hbm
    rw [← Atom.repl_inst hρ σ b ((hP c hc).2 b hbm)]
    exact hXY _ (hb b hbm)

theorem ViaClause.repl_image {N : String → Prop} {ρ : String → Option Tm} (hρ : ∀ c, ¬ N c → ρ c = none)
    {P : Program} (hP : P.Avoids N) {X : Atom → Prop} {a : Atom} (hv : ViaClause P X a) :
    ViaClause P (fun b => ∃ b', X b' ∧ b = b'.repl ρ) (a.repl ρ) :=
  hv.repl hρ hP fun b hb => ⟨b, hb, rfl⟩

/-- the image of a consistent set is consistent -/
theorem CoHolds.repl {N : String → Prop} {ρ : String → Option Tm} (hρ : ∀ c, ¬ N c → ρ c = none)
    {P : Program} (hP : P.Avoids N) {Γ : List Atom} {a : Atom} (h : CoHolds P Γ a) :
    CoHolds P (Γ.map (Atom.repl ρ)) (a.repl ρ) := by
  obtain ⟨X, hX, hXa⟩ := h
  refine ⟨fun b => ∃ b', X b' ∧ b = b'.repl ρ, ?_, a, hXa, rfl⟩
  rintro b ⟨b', hb', rfl⟩
  obtain ⟨h1, h2⟩ := hX b' hb'
  refine ⟨h1, ?_⟩
  rcases h2 with h2 | h2
  · exact Or.inl (List.mem_map_of_mem h2)
  · exact Or.inr (h2.repl_image hρ hP)

theorem IndStep.mono {P : Program} {Γ : List Atom} {X Y : Atom → Prop} (h : ∀ x, X x → Y x) {a : Atom}
    (hs : IndStep P Γ X a) : IndStep P Γ Y a := by
  rcases hs with h1 | h1 | ⟨h1, h2⟩
  · exact Or.inl h1
  · exact Or.inr (Or.inl h1)
  · exact Or.inr (Or.inr ⟨h1, h2.mono h⟩)

/-- `Holds` is closed under its own step -/
theorem Holds.closed {P : Program} {Γ : List Atom} {a : Atom} (h : IndStep P Γ (Holds P Γ) a) : Holds P Γ a :=
  InLfp.closed (Ψ := IndStep P Γ) (fun _ _ hXY _ ha => IndStep.mono hXY ha) h

theorem Holds.repl {N : String → Prop} {ρ : String → Option Tm} (hρ : ∀ c, ¬ N c → ρ c = none)
    {P : Program} (hP : P.Avoids N) {Γ : List Atom} {a : Atom} (h : Holds P Γ a) :
    Holds P (Γ.map (Atom.repl ρ)) (a.repl ρ) := by
  refine h (fun a => Holds P (Γ.map (Atom.repl ρ)) (a.repl ρ)) ?_
  intro x hx
  apply Holds.closed
  rcases hx with h1 | ⟨h1, h2⟩ | ⟨h1, h2⟩
  · exact Or.inl (List.mem_map_of_mem h1)
  · exact Or.inr (Or.inl ⟨h1, h2.repl hρ hP⟩)
  · exact Or.inr (Or.inr ⟨h1, h2.repl hρ hP fun _ hb => hb⟩)

theorem GHolds.repl {N : String → Prop} {ρ : String → Option Tm} (hρ : ∀ c, ¬ N c → ρ c = none)
    {P : Program} (hP : P.Avoids N) : (g : Goal) → g.Positive → (Γ : List Atom) → GHolds P Γ g →
    GHolds P (Γ.map (Atom.repl ρ)) (g.repl ρ)
  | .atom _, _, _, h => Holds.repl hρ hP h
  | .tt, _, _, _ => trivial
  | .and g h, hp, Γ, hh => ⟨GHolds.repl hρ hP g hp.1 Γ hh.1, GHolds.repl hρ hP h hp.2 Γ hh.2⟩
  | .implies hyps g, hp, Γ, hh => by
      have := GHolds.repl hρ hP g hp (hyps ++ Γ) hh
      simpa only [GHolds, Goal.repl, List.map_append] using this
  | .not _, hp, _, _ => hp.elim
  | .eq s t, _, _, hh => by
      simp only [GHolds] at hh
      simp only [Goal.repl, GHolds, hh]

theorem Goal.positive_inst (θ : Nat → Tm) : (g : Goal) → g.Positive → (g.inst θ).Positive
  | .atom _, _ => trivial
  | .tt, _ => trivial
  | .and g h, hp => ⟨Goal.positive_inst θ g hp.1, Goal.positive_inst θ h hp.2⟩
  | .implies _ g, hp => Goal.positive_inst θ g hp
  | .not _, hp => hp.elim
  | .eq _ _, _ => trivial

/-- the entries of an answer substitution, padded with the identity, avoid `N` when its terms do -/
theorem avoids_getD {N : String → Prop} {σ : List Tm} (hσ : ∀ t ∈ σ, t.Avoids N) (i : Nat) :
    (σ.getD i (.var i)).Avoids N := by
  rw [List.getD_eq_getElem?_getD]
  cases h : σ[i]? with
  | none => simp [Tm.Avoids]
  | some t => exact hσ t (List.mem_of_getElem? h)

end Chalk.Sem
