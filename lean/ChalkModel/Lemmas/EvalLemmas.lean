import ChalkModel.Lemmas.MatchLemmas

namespace Chalk.Sem

/-! ### verdict folds -/

theorem Verdict.or_eq_yes (a b : Verdict) : a.or b = .yes ↔ a = .yes ∨ b = .yes := by
  cases a <;> cases b <;> simp [Verdict.or]
theorem Verdict.or_eq_no (a b : Verdict) : a.or b = .no ↔ a = .no ∧ b = .no := by
  cases a <;> cases b <;> simp [Verdict.or]
theorem Verdict.and_eq_yes (a b : Verdict) : a.and b = .yes ↔ a = .yes ∧ b = .yes := by
  cases a <;> cases b <;> simp [Verdict.and]
theorem Verdict.and_eq_no (a b : Verdict) : a.and b = .no ↔ a = .no ∨ b = .no := by
  cases a <;> cases b <;> simp [Verdict.and]

theorem foldr_or_yes {α} (f : α → Verdict) : (l : List α) →
    l.foldr (fun c acc => (f c).or acc) .no = .yes → ∃ c ∈ l, f c = .yes
  | [], h => by simp at h
  | c :: cs, h => by
      rw [List.foldr_cons, Verdict.or_eq_yes] at h
      rcases h with h | h
      · exact ⟨c, by simp, h⟩
      · obtain ⟨d, hd, hfd⟩ := foldr_or_yes f cs h
        exact ⟨d, by simp [hd], hfd⟩

theorem foldr_or_no {α} (f : α → Verdict) : (l : List α) →
    l.foldr (fun c acc => (f c).or acc) .no = .no → ∀ c ∈ l, f c = .no
  | [], _ => by simp
  | c :: cs, h => by
      rw [List.foldr_cons, Verdict.or_eq_no] at h
      intro d hd
      simp at hd
      rcases hd with rfl | hd
      · exact h.1
      · exact foldr_or_no f cs h.2 d hd

theorem foldr_and_yes {α} (g : α → Verdict) : (l : List α) →
    l.foldr (fun b acc => (g b).and acc) .yes = .yes → ∀ b ∈ l, g b = .yes
  | [], _ => by simp
  | b :: bs, h => by
      rw [List.foldr_cons, Verdict.and_eq_yes] at h
      intro d hd
      simp at hd
      rcases hd with rfl | hd
      · exact h.1
      · exact foldr_and_yes g bs h.2 d hd

theorem foldr_and_no {α} (g : α → Verdict) : (l : List α) →
    l.foldr (fun b acc => (g b).and acc) .yes = .no → ∃ b ∈ l, g b = .no
  | [], h => by simp at h
  | b :: bs, h => by
      rw [List.foldr_cons, Verdict.and_eq_no] at h
      rcases h with h | h
      · exact ⟨b, by simp, h⟩
      · obtain ⟨d, hd, hgd⟩ := foldr_and_no g bs h
        exact ⟨d, by simp [hd], hgd⟩

/-- result of trying one clause against `a` with a given verdict function for instantiated body atoms -/
def tryClause (ev : Atom → Verdict) (a : Atom) (c : Clause) : Verdict :=
  match matchAtom c.head a with
  | none => .no
  | some σ =>
      if bodyBound σ c.body then
        c.body.foldr (fun (b : Atom) acc' => (ev (b.inst σ.toFun)).and acc') .yes
      else .unknown

theorem tryClause_yes {ev : Atom → Verdict} {a : Atom} {c : Clause} (h : tryClause ev a c = .yes) :
    ∃ σ : Nat → Tm, c.head.inst σ = a ∧ ∀ b ∈ c.body, ev (b.inst σ) = .yes := by
  unfold tryClause at h
  cases hm : matchAtom c.head a with
  | none => simp [hm] at h
  | some σ =>
    simp only [hm] at h
    split at h
    · exact ⟨σ.toFun, matchAtom_sound hm, foldr_and_yes _ _ h⟩
    · cases h

theorem tryClause_no {ev : Atom → Verdict} {a : Atom} {c : Clause} (h : tryClause ev a c = .no)
    (τ : Nat → Tm) (hτ : c.head.inst τ = a) : ∃ b ∈ c.body, ev (b.inst τ) = .no := by
  unfold tryClause at h
  obtain ⟨σ, hm, hag⟩ := matchAtom_complete τ hτ
  simp only [hm] at h
  split at h
  · rename_i hb
    obtain ⟨b, hbm, hbn⟩ := foldr_and_no _ _ h
    exact ⟨b, hbm, by rw [body_inst_eq hag hb hbm]; exact hbn⟩
  · cases h

theorem ViaClause.mono {P : Program} {X Y : Atom → Prop} (h : ∀ x, X x → Y x) {a : Atom}
    (hv : ViaClause P X a) : ViaClause P Y a := by
  obtain ⟨c, hc, σ, hs, hb⟩ := hv
  exact ⟨c, hc, σ, hs, fun b hb' => h _ (hb b hb')⟩

/-! ### the coinductive stratum -/

/-- `CoStep` with the atoms of `S` assumed -/
def CoStepS (P : Program) (Γ S : List Atom) (X : Atom → Prop) (a : Atom) : Prop :=
  P.coind a.pred = true ∧ (a ∈ Γ ∨ a ∈ S ∨ ViaClause P X a)

theorem evalCo_unfold (P : Program) (Γ : List Atom) (fuel : Nat) (S : List Atom) (a : Atom) :
    evalCo P Γ (fuel + 1) S a =
      if P.coind a.pred = false then .unknown
      else if a ∈ Γ then .yes
      else if a ∈ S then .yes
      else P.clauses.foldr (fun c acc => (tryClause (evalCo P Γ fuel (a :: S)) a c).or acc) .no := by
  simp only [evalCo, tryClause]
  rfl

theorem evalCo_yes (P : Program) (Γ : List Atom) : (fuel : Nat) → (S : List Atom) → (a : Atom) →
    evalCo P Γ fuel S a = .yes → InGfp (CoStepS P Γ S) a
  | 0, _, _, h => by simp [evalCo] at h
  | fuel + 1, S, a, h => by
      rw [evalCo_unfold] at h
      split at h
      · cases h
      · rename_i hco
        have hco' : P.coind a.pred = true := by simpa using hco
        split at h
        · rename_i hg
          exact ⟨fun x => x = a, fun x hx => by subst hx; exact ⟨hco', Or.inl hg⟩, rfl⟩
        · split at h
          · rename_i hs
            exact ⟨fun x => x = a, fun x hx => by subst hx; exact ⟨hco', Or.inr (Or.inl hs)⟩, rfl⟩
          · obtain ⟨c, hc, hyes⟩ := foldr_or_yes _ _ h
            obtain ⟨σ, hσ, hb⟩ := tryClause_yes hyes
            refine ⟨fun x => x = a ∨ InGfp (CoStepS P Γ (a :: S)) x, ?_, Or.inl rfl⟩
            intro x hx
            by_cases hxa : x = a
            · subst hxa
              exact ⟨hco', Or.inr (Or.inr ⟨c, hc, σ, hσ,
                fun b hbm => Or.inr (evalCo_yes P Γ fuel (x :: S) _ (hb b hbm))⟩)⟩
            · rcases hx with hx | hx
              · exact absurd hx hxa
              · obtain ⟨X', hX', hx'⟩ := hx
                obtain ⟨hc1, hc2⟩ := hX' x hx'
                refine ⟨hc1, ?_⟩
                rcases hc2 with hg | hs | hv
                · exact Or.inl hg
                · simp at hs
                  rcases hs with hs | hs
                  · exact absurd hs hxa
                  · exact Or.inr (Or.inl hs)
                · exact Or.inr (Or.inr (hv.mono fun y hy => Or.inr ⟨X', hX', hy⟩))

theorem evalCo_no (P : Program) (Γ : List Atom) : (fuel : Nat) → (S : List Atom) → (a : Atom) →
    evalCo P Γ fuel S a = .no → ¬ InGfp (CoStepS P Γ S) a
  | 0, _, _, h => by simp [evalCo] at h
  | fuel + 1, S, a, h => by
      rw [evalCo_unfold] at h
      split at h
      · cases h
      · split at h
        · cases h
        · split at h
          · cases h
          · rename_i hg hs
            intro ⟨X, hX, hXa⟩
            obtain ⟨_, hstep⟩ := hX a hXa
            rcases hstep with h1 | h1 | ⟨c, hc, τ, hτ, hb⟩
            · exact hg h1
            · exact hs h1
            · have hno := foldr_or_no _ _ h c hc
              obtain ⟨b, hbm, hbn⟩ := tryClause_no hno τ hτ
              refine evalCo_no P Γ fuel (a :: S) _ hbn ⟨X, ?_, hb b hbm⟩
              intro x hx
              obtain ⟨hc1, hc2⟩ := hX x hx
              refine ⟨hc1, ?_⟩
              rcases hc2 with hg' | hs' | hv
              · exact Or.inl hg'
              · exact Or.inr (Or.inl (by simp [hs']))
              · exact Or.inr (Or.inr hv)

theorem coStepS_nil (P : Program) (Γ : List Atom) (a : Atom) :
    InGfp (CoStepS P Γ []) a ↔ CoHolds P Γ a := by
  constructor
  · rintro ⟨X, hX, hXa⟩
    refine ⟨X, ?_, hXa⟩
    intro x hx
    obtain ⟨h1, h2⟩ := hX x hx
    refine ⟨h1, ?_⟩
    rcases h2 with h | h | h
    · exact Or.inl h
    · simp at h
    · exact Or.inr h
  · rintro ⟨X, hX, hXa⟩
    refine ⟨X, ?_, hXa⟩
    intro x hx
    obtain ⟨h1, h2⟩ := hX x hx
    refine ⟨h1, ?_⟩
    rcases h2 with h | h
    · exact Or.inl h
    · exact Or.inr (Or.inr h)

/-! ### the inductive stratum -/

/-- `IndStep` with the (inductive) atoms of `S` forbidden -/
def IndStepS (P : Program) (Γ S : List Atom) (X : Atom → Prop) (a : Atom) : Prop :=
  a ∈ Γ ∨ (P.coind a.pred = true ∧ CoHolds P Γ a) ∨ (P.coind a.pred = false ∧ a ∉ S ∧ ViaClause P X a)

theorem IndStepS.mono {P : Program} {Γ S : List Atom} {X Y : Atom → Prop} (h : ∀ x, X x → Y x) {a : Atom}
    (hs : IndStepS P Γ S X a) : IndStepS P Γ S Y a := by
  rcases hs with h1 | h1 | ⟨h1, h2, h3⟩
  · exact Or.inl h1
  · exact Or.inr (Or.inl h1)
  · exact Or.inr (Or.inr ⟨h1, h2, h3.mono h⟩)

/-- the least fixed point is closed under the operator -/
theorem InLfp.closed {Ψ : (Atom → Prop) → Atom → Prop}
    (mono : ∀ X Y : Atom → Prop, (∀ x, X x → Y x) → ∀ a, Ψ X a → Ψ Y a) {a : Atom}
    (h : Ψ (InLfp Ψ) a) : InLfp Ψ a := by
  intro X hX
  exact hX a (mono _ _ (fun x hx => hx X hX) a h)

theorem evalInd_unfold (P : Program) (Γ : List Atom) (fuel : Nat) (S : List Atom) (a : Atom) :
    evalInd P Γ (fuel + 1) S a =
      if a ∈ Γ then .yes
      else if P.coind a.pred then evalCo P Γ fuel [] a
      else if a ∈ S then .no
      else P.clauses.foldr (fun c acc => (tryClause (evalInd P Γ fuel (a :: S)) a c).or acc) .no := by
  simp only [evalInd, tryClause]
  rfl

theorem evalInd_yes (P : Program) (Γ : List Atom) : (fuel : Nat) → (S : List Atom) → (a : Atom) →
    evalInd P Γ fuel S a = .yes → Holds P Γ a
  | 0, _, _, h => by simp [evalInd] at h
  | fuel + 1, S, a, h => by
      rw [evalInd_unfold] at h
      split at h
      · rename_i hg
        intro X hX; exact hX a (Or.inl hg)
      · split at h
        · rename_i hco
          have := (coStepS_nil P Γ a).mp (evalCo_yes P Γ fuel [] a h)
          intro X hX; exact hX a (Or.inr (Or.inl ⟨hco, this⟩))
        · rename_i hco
          split at h
          · cases h
          · obtain ⟨c, hc, hyes⟩ := foldr_or_yes _ _ h
            obtain ⟨σ, hσ, hb⟩ := tryClause_yes hyes
            intro X hX
            refine hX a (Or.inr (Or.inr ⟨by simpa using hco, c, hc, σ, hσ, fun b hbm => ?_⟩))
            exact evalInd_yes P Γ fuel (a :: S) _ (hb b hbm) X hX

theorem evalInd_no (P : Program) (Γ : List Atom) : (fuel : Nat) → (S : List Atom) → (a : Atom) →
    evalInd P Γ fuel S a = .no → ¬ InLfp (IndStepS P Γ S) a
  | 0, _, _, h => by simp [evalInd] at h
  | fuel + 1, S, a, h => by
      rw [evalInd_unfold] at h
      split at h
      · cases h
      · rename_i hg
        split at h
        · -- coinductive atom refuted in its own stratum
          rename_i hco
          have hnc : ¬ CoHolds P Γ a := fun hc => evalCo_no P Γ fuel [] a h ((coStepS_nil P Γ a).mpr hc)
          intro hl
          have := hl (fun x => x ≠ a) (by
            intro x hx hxa
            subst hxa
            rcases hx with h1 | ⟨_, h1⟩ | ⟨h1, _⟩
            · exact hg h1
            · exact hnc h1
            · simp [hco] at h1)
          exact this rfl
        · rename_i hco
          have hco' : P.coind a.pred = false := by simpa using hco
          split at h
          · -- inductive atom already on the stack
            rename_i hs
            intro hl
            have := hl (fun x => x ≠ a) (by
              intro x hx hxa
              subst hxa
              rcases hx with h1 | ⟨h1, _⟩ | ⟨_, h1, _⟩
              · exact hg h1
              · simp [hco'] at h1
              · exact h1 hs)
            exact this rfl
          · rename_i hs
            intro hl
            -- W := lfp with `a` forbidden as well; it is closed under the operator for `S`
            have hclosed : ∀ x, IndStepS P Γ S (InLfp (IndStepS P Γ (a :: S))) x →
                InLfp (IndStepS P Γ (a :: S)) x := by
              intro x hx
              by_cases hxa : x = a
              · subst hxa
                rcases hx with h1 | ⟨h1, _⟩ | ⟨_, _, c, hc, τ, hτ, hb⟩
                · exact absurd h1 hg
                · simp [hco'] at h1
                · have hno := foldr_or_no _ _ h c hc
                  obtain ⟨b, hbm, hbn⟩ := tryClause_no hno τ hτ
                  exact absurd (hb b hbm) (evalInd_no P Γ fuel (x :: S) _ hbn)
              · refine InLfp.closed (Ψ := IndStepS P Γ (a :: S))
                  (fun X Y hXY a' ha' => IndStepS.mono hXY ha') ?_
                rcases hx with h1 | h1 | ⟨h1, h2, h3⟩
                · exact Or.inl h1
                · exact Or.inr (Or.inl h1)
                · exact Or.inr (Or.inr ⟨h1, by simp [hxa, h2], h3⟩)
            have hW : InLfp (IndStepS P Γ (a :: S)) a := hl _ hclosed
            have := hW (fun x => x ≠ a) (by
              intro x hx hxa
              subst hxa
              rcases hx with h1 | ⟨h1, _⟩ | ⟨_, h1, _⟩
              · exact hg h1
              · simp [hco'] at h1
              · simp at h1)
            exact this rfl

theorem indStepS_nil (P : Program) (Γ : List Atom) (a : Atom) :
    InLfp (IndStepS P Γ []) a ↔ Holds P Γ a := by
  have hiff : ∀ X x, IndStepS P Γ [] X x ↔ IndStep P Γ X x := by
    intro X x
    simp [IndStepS, IndStep]
  constructor
  · intro h X hX
    exact h X (fun x hx => hX x ((hiff X x).mp hx))
  · intro h X hX
    exact h X (fun x hx => hX x ((hiff X x).mpr hx))

end Chalk.Sem
