import ChalkModel.UCanon

/-! Lemmas about `UniverseMap` (sorted insertion, index, the out-of-range rule) and the
    to-canonical / from-canonical folders. -/
namespace Chalk

abbrev StrictSorted (l : List Nat) : Prop := l.Pairwise (· < ·)

theorem mem_umapAdd (u x : Nat) : (l : List Nat) → (x ∈ umapAdd u l ↔ x = u ∨ x ∈ l)
  | [] => by simp [umapAdd]
  | y :: ys => by
    unfold umapAdd
    split
    · simp
    · split
      · rename_i h; subst h; simp
      · simp [mem_umapAdd u x ys]
        constructor
        · rintro (h | h | h) <;> simp [h]
        · rintro (h | h | h) <;> simp [h]

theorem umapAdd_sorted (u : Nat) : (l : List Nat) → StrictSorted l → StrictSorted (umapAdd u l)
  | [], _ => by simp [umapAdd, StrictSorted]
  | y :: ys, h => by
    unfold umapAdd
    have hy := List.pairwise_cons.mp h
    split
    · rename_i hlt
      refine List.pairwise_cons.mpr ⟨?_, h⟩
      intro a ha
      rcases List.mem_cons.mp ha with rfl | ha
      · exact hlt
      · exact Nat.lt_trans hlt (hy.1 a ha)
    · split
      · exact h
      · rename_i h1 h2
        refine List.pairwise_cons.mpr ⟨?_, umapAdd_sorted u ys hy.2⟩
        intro a ha
        rcases (mem_umapAdd u a ys).mp ha with rfl | ha
        · omega
        · exact hy.1 a ha

theorem umapAdd_head_zero (u : Nat) (l : List Nat) (h : l.head? = some 0) : (umapAdd u l).head? = some 0 := by
  cases l with
  | nil => simp at h
  | cons y ys =>
    simp at h; subst h
    unfold umapAdd
    by_cases hu : u = 0
    · subst hu; simp
    · have : ¬ u < 0 := by omega
      simp [this, hu]

/-- the invariants of a universe map: strictly increasing, starts with the root universe -/
structure UMapOk (um : List Nat) : Prop where
  sorted : StrictSorted um
  head : um.head? = some 0

theorem umapNew_ok : UMapOk umapNew := ⟨by simp [umapNew, StrictSorted], by simp [umapNew]⟩

theorem umapAdd_ok (u : Nat) (um : List Nat) (h : UMapOk um) : UMapOk (umapAdd u um) :=
  ⟨umapAdd_sorted u um h.sorted, umapAdd_head_zero u um h.head⟩

theorem addBinderUniverses_ok : (bs : List (VarKind × Nat)) → (um : List Nat) → UMapOk um →
    UMapOk (addBinderUniverses um bs)
  | [], um, h => by simpa [addBinderUniverses] using h
  | (k, u) :: rest, um, h => by
    simp only [addBinderUniverses]
    exact addBinderUniverses_ok rest _ (umapAdd_ok u um h)

theorem addBinderUniverses_mem : (bs : List (VarKind × Nat)) → (um : List Nat) → (x : Nat) →
    (x ∈ addBinderUniverses um bs ↔ x ∈ um ∨ ∃ k, (k, x) ∈ bs)
  | [], um, x => by simp [addBinderUniverses]
  | (k, u) :: rest, um, x => by
    simp only [addBinderUniverses]
    rw [addBinderUniverses_mem rest _ x, mem_umapAdd]
    constructor
    · rintro ((rfl | h) | ⟨k', h⟩)
      · exact .inr ⟨k, by simp⟩
      · exact .inl h
      · exact .inr ⟨k', by simp [h]⟩
    · rintro (h | ⟨k', h⟩)
      · exact .inl (.inr h)
      · rcases List.mem_cons.mp h with h | h
        · left; left; exact (Prod.mk.inj h).2
        · exact .inr ⟨k', h⟩

theorem uCollect_ok : (evs : List VisitEvent) → (um um' : List Nat) → UMapOk um →
    uCollect um evs = .ok um' → UMapOk um'
  | [], um, um', h, he => by simp [uCollect] at he; subst he; exact h
  | .infer v :: rest, um, um', h, he => by simp [uCollect] at he
  | .placeholder ui idx :: rest, um, um', h, he => by
    simp only [uCollect] at he
    exact uCollect_ok rest _ um' (umapAdd_ok ui um h) he

theorem uCollect_mem : (evs : List VisitEvent) → (um um' : List Nat) → uCollect um evs = .ok um' →
    ∀ x, (x ∈ um' ↔ x ∈ um ∨ ∃ idx, VisitEvent.placeholder x idx ∈ evs)
  | [], um, um', he, x => by simp [uCollect] at he; subst he; simp
  | .infer v :: rest, um, um', he, x => by simp [uCollect] at he
  | .placeholder ui idx :: rest, um, um', he, x => by
    simp only [uCollect] at he
    rw [uCollect_mem rest _ um' he x, mem_umapAdd]
    constructor
    · rintro ((rfl | h) | ⟨i, h⟩)
      · exact .inr ⟨idx, by simp⟩
      · exact .inl h
      · exact .inr ⟨i, by simp [h]⟩
    · rintro (h | ⟨i, h⟩)
      · exact .inl (.inr h)
      · rcases List.mem_cons.mp h with h | h
        · left; left; cases h; rfl
        · exact .inr ⟨i, h⟩

theorem uCollect_noInfer : (evs : List VisitEvent) → (um um' : List Nat) → uCollect um evs = .ok um' →
    ∀ v, VisitEvent.infer v ∉ evs
  | [], _, _, _, v => by simp
  | .infer _ :: _, um, um', he, v => by simp [uCollect] at he
  | .placeholder ui idx :: rest, um, um', he, v => by
    simp only [uCollect] at he
    simp [uCollect_noInfer rest _ um' he v]

/-! ### index -/

theorem umapIndex_spec (u : Nat) : (l : List Nat) → (i : Nat) → umapIndex u l = some i → l[i]? = some u
  | [], i, h => by simp [umapIndex] at h
  | x :: xs, i, h => by
    unfold umapIndex at h
    split at h
    · rename_i hx; simp at h; subst h; simp [hx]
    · cases hr : umapIndex u xs with
      | none => simp [hr] at h
      | some j =>
        simp [hr] at h; subst h
        simpa using umapIndex_spec u xs j hr

theorem umapIndex_of_mem (u : Nat) : (l : List Nat) → u ∈ l → ∃ i, umapIndex u l = some i
  | [], h => by simp at h
  | x :: xs, h => by
    unfold umapIndex
    by_cases hx : x = u
    · simp [hx]
    · have : u ∈ xs := by
        rcases List.mem_cons.mp h with h | h
        · exact absurd h.symm hx
        · exact h
      obtain ⟨i, hi⟩ := umapIndex_of_mem u xs this
      simp [hx, hi]

theorem sorted_get_lt (l : List Nat) (hs : StrictSorted l) (i j a b : Nat) (hij : i < j)
    (hi : l[i]? = some a) (hj : l[j]? = some b) : a < b := by
  obtain ⟨hi', rfl⟩ := List.getElem?_eq_some_iff.mp hi
  obtain ⟨hj', rfl⟩ := List.getElem?_eq_some_iff.mp hj
  exact (List.pairwise_iff_getElem.mp hs) i j hi' hj' hij

/-- on a strictly increasing map the index is strictly monotone (and order reflecting) -/
theorem umapIndex_lt_iff (l : List Nat) (hs : StrictSorted l) (a b i j : Nat)
    (ha : umapIndex a l = some i) (hb : umapIndex b l = some j) : a < b ↔ i < j := by
  have hai := umapIndex_spec a l i ha
  have hbj := umapIndex_spec b l j hb
  constructor
  · intro hab
    rcases Nat.lt_trichotomy i j with h | h | h
    · exact h
    · subst h; rw [hai] at hbj; cases hbj; omega
    · have := sorted_get_lt l hs j i b a h hbj hai; omega
  · intro hij
    exact sorted_get_lt l hs i j a b hij hai hbj

theorem umapIndex_zero (l : List Nat) (h : l.head? = some 0) : umapIndex 0 l = some 0 := by
  cases l with
  | nil => simp at h
  | cons x xs => simp at h; subst h; simp [umapIndex]

/-! ### the out-of-range rule -/

theorem getLast?_ge (l : List Nat) (hs : StrictSorted l) (mx : Nat) (h : l.getLast? = some mx)
    (i x : Nat) (hx : l[i]? = some x) : x ≤ mx := by
  obtain ⟨hi, rfl⟩ := List.getElem?_eq_some_iff.mp hx
  have hlast : l[l.length - 1]? = some mx := by
    rw [List.getLast?_eq_getElem?] at h; exact h
  by_cases hlt : i < l.length - 1
  · have := sorted_get_lt l hs i (l.length - 1) l[i] mx hlt (by simp [hi]) hlast
    omega
  · have : i = l.length - 1 := by omega
    subst this
    simp [hi] at hlast
    omega

/-- `map_universe_from_canonical` is total on a non-empty map -/
theorem mapUniverseFromCanonical_ok (um : List Nat) (hne : um ≠ []) (c : Nat) :
    ∃ u, mapUniverseFromCanonical um c = .ok u := by
  unfold mapUniverseFromCanonical
  split
  · exact ⟨_, rfl⟩
  · cases h : um.getLast? with
    | none => simp [List.getLast?_eq_none_iff] at h; exact absurd h hne
    | some mx => exact ⟨_, rfl⟩

theorem mapUniverseFromCanonical_inRange (um : List Nat) (c u : Nat) (hc : c < um.length)
    (h : mapUniverseFromCanonical um c = .ok u) : um[c]? = some u := by
  simp [mapUniverseFromCanonical, hc] at h
  simp [hc, h]

theorem mapUniverseFromCanonical_outOfRange (um : List Nat) (c u : Nat) (hc : ¬ c < um.length)
    (h : mapUniverseFromCanonical um c = .ok u) :
    ∃ mx, um.getLast? = some mx ∧ u = mx + (c - um.length) + 1 := by
  simp only [mapUniverseFromCanonical, hc, if_false] at h
  cases hl : um.getLast? with
  | none => simp [hl] at h
  | some mx => simp [hl] at h; exact ⟨mx, rfl, h.symm⟩

/-- ... and strictly increasing on a strictly increasing map -/
theorem mapUniverseFromCanonical_strictMono (um : List Nat) (hs : StrictSorted um) (c1 c2 u1 u2 : Nat)
    (h1 : mapUniverseFromCanonical um c1 = .ok u1) (h2 : mapUniverseFromCanonical um c2 = .ok u2)
    (hc : c1 < c2) : u1 < u2 := by
  by_cases hb2 : c2 < um.length
  · have hb1 : c1 < um.length := by omega
    exact sorted_get_lt um hs c1 c2 u1 u2 hc (mapUniverseFromCanonical_inRange um c1 u1 hb1 h1)
      (mapUniverseFromCanonical_inRange um c2 u2 hb2 h2)
  · obtain ⟨mx, hl, rfl⟩ := mapUniverseFromCanonical_outOfRange um c2 u2 hb2 h2
    by_cases hb1 : c1 < um.length
    · have := getLast?_ge um hs mx hl c1 u1 (mapUniverseFromCanonical_inRange um c1 u1 hb1 h1)
      omega
    · obtain ⟨mx', hl', rfl⟩ := mapUniverseFromCanonical_outOfRange um c1 u1 hb1 h1
      rw [hl] at hl'; cases hl'
      omega

/-! ### to-canonical followed by from-canonical is the identity -/

theorem to_from_universe (um : List Nat) (u i : Nat) (h : mapUniverseToCanonical um u = some i) :
    mapUniverseFromCanonical um i = .ok u := by
  have hu := umapIndex_spec u um i h
  obtain ⟨hi, hu'⟩ := List.getElem?_eq_some_iff.mp hu
  simp [mapUniverseFromCanonical, hi, hu']

theorem foldLifetime_to_from (um : List Nat) (o : Nat) (l l' : Lifetime)
    (h : foldLifetime (uMapToCanonical um) o l = .ok l') :
    foldLifetime (uMapFromCanonical um) o l' = .ok l := by
  cases l with
  | bound db idx =>
    by_cases hd : o ≤ db
    · simp [foldLifetime, uMapToCanonical, hd] at h; subst h
      simp [foldLifetime, uMapFromCanonical]; omega
    · simp [foldLifetime, hd] at h; subst h; simp [foldLifetime, hd]
  | infer v => simp [foldLifetime, uMapToCanonical] at h
  | placeholder ui idx =>
    simp only [foldLifetime, uMapToCanonical] at h
    cases hm : mapUniverseToCanonical um ui with
    | none => simp [hm] at h
    | some i =>
      simp [hm] at h; subst h
      simp [foldLifetime, uMapFromCanonical, to_from_universe um ui i hm]
  | static => simp [foldLifetime] at h; subst h; simp [foldLifetime]
  | erased => simp [foldLifetime] at h; subst h; simp [foldLifetime]
  | error => simp [foldLifetime] at h; subst h; simp [foldLifetime]

mutual
  theorem foldTy_to_from (um : List Nat) (o : Nat) : (t t' : Ty) →
      foldTy (uMapToCanonical um) o t = .ok t' → foldTy (uMapFromCanonical um) o t' = .ok t
    | .app n args, t', h => by
        cases ha : foldArgs (uMapToCanonical um) o args with
        | error e => simp [foldTy, ha] at h
        | ok a' => simp [foldTy, ha] at h; subst h; simp [foldTy, foldArgs_to_from um o args a' ha]
    | .scalar s, t', h => by simp [foldTy] at h; subst h; simp [foldTy]
    | .str, t', h => by simp [foldTy] at h; subst h; simp [foldTy]
    | .never, t', h => by simp [foldTy] at h; subst h; simp [foldTy]
    | .foreign id, t', h => by simp [foldTy] at h; subst h; simp [foldTy]
    | .error, t', h => by simp [foldTy] at h; subst h; simp [foldTy]
    | .array t c, t', h => by
        cases ht : foldTy (uMapToCanonical um) o t with
        | error e => simp [foldTy, ht] at h
        | ok x =>
          cases hc : foldConst (uMapToCanonical um) o c with
          | error e => simp [foldTy, ht, hc] at h
          | ok y =>
            simp [foldTy, ht, hc] at h; subst h
            simp [foldTy, foldTy_to_from um o t x ht, foldConst_to_from um o c y hc]
    | .slice t, t', h => by
        cases ht : foldTy (uMapToCanonical um) o t with
        | error e => simp [foldTy, ht] at h
        | ok x => simp [foldTy, ht] at h; subst h; simp [foldTy, foldTy_to_from um o t x ht]
    | .raw m t, t', h => by
        cases ht : foldTy (uMapToCanonical um) o t with
        | error e => simp [foldTy, ht] at h
        | ok x => simp [foldTy, ht] at h; subst h; simp [foldTy, foldTy_to_from um o t x ht]
    | .ref m l t, t', h => by
        cases hl : foldLifetime (uMapToCanonical um) o l with
        | error e => simp [foldTy, hl] at h
        | ok y =>
          cases ht : foldTy (uMapToCanonical um) o t with
          | error e => simp [foldTy, hl, ht] at h
          | ok x =>
            simp [foldTy, hl, ht] at h; subst h
            simp [foldTy, foldTy_to_from um o t x ht, foldLifetime_to_from um o l y hl]
    | .placeholder ui idx, t', h => by
        simp only [foldTy, uMapToCanonical] at h
        cases hm : mapUniverseToCanonical um ui with
        | none => simp [hm] at h
        | some i =>
          simp [hm] at h; subst h
          simp [foldTy, uMapFromCanonical, to_from_universe um ui i hm]
    | .dyn kinds bounds l, t', h => by
        cases hb : foldQWCs (uMapToCanonical um) (o + 1) bounds with
        | error e => simp [foldTy, hb] at h
        | ok x =>
          cases hl : foldLifetime (uMapToCanonical um) o l with
          | error e => simp [foldTy, hb, hl] at h
          | ok y =>
            simp [foldTy, hb, hl] at h; subst h
            simp [foldTy, foldQWCs_to_from um (o + 1) bounds x hb, foldLifetime_to_from um o l y hl]
    | .proj id args, t', h => by
        cases ha : foldArgs (uMapToCanonical um) o args with
        | error e => simp [foldTy, ha] at h
        | ok a' => simp [foldTy, ha] at h; subst h; simp [foldTy, foldArgs_to_from um o args a' ha]
    | .opaque id args, t', h => by
        cases ha : foldArgs (uMapToCanonical um) o args with
        | error e => simp [foldTy, ha] at h
        | ok a' => simp [foldTy, ha] at h; subst h; simp [foldTy, foldArgs_to_from um o args a' ha]
    | .function nb sig args, t', h => by
        cases ha : foldArgs (uMapToCanonical um) (o + 1) args with
        | error e => simp [foldTy, ha] at h
        | ok a' => simp [foldTy, ha] at h; subst h; simp [foldTy, foldArgs_to_from um (o + 1) args a' ha]
    | .bound db idx, t', h => by
        by_cases hd : o ≤ db
        · simp [foldTy, uMapToCanonical, hd] at h; subst h
          simp [foldTy, uMapFromCanonical]; omega
        · simp [foldTy, hd] at h; subst h; simp [foldTy, hd]
    | .infer v k, t', h => by simp [foldTy, uMapToCanonical] at h
  theorem foldConst_to_from (um : List Nat) (o : Nat) : (c c' : Const) →
      foldConst (uMapToCanonical um) o c = .ok c' → foldConst (uMapFromCanonical um) o c' = .ok c
    | .mk ty (.bound db idx), c', h => by
        by_cases hd : o ≤ db
        · cases ht : foldTy (uMapToCanonical um) o ty with
          | error e => simp [foldConst, uMapToCanonical, hd] at h ht; simp [ht] at h
          | ok x =>
            have ih := foldTy_to_from um o ty x ht
            simp [foldConst, uMapToCanonical, hd] at h ht; simp [ht] at h; subst h
            simp [foldConst, uMapFromCanonical] at ih ⊢
            simp [ih, hd]
        · simp [foldConst, hd] at h; subst h; simp [foldConst, hd]
    | .mk ty (.infer v), c', h => by simp [foldConst, uMapToCanonical] at h
    | .mk ty (.placeholder ui idx), c', h => by
        simp only [foldConst, uMapToCanonical] at h
        cases hm : mapUniverseToCanonical um ui with
        | none => simp [hm] at h
        | some i =>
          simp [hm] at h; subst h
          simp [foldConst, uMapFromCanonical, to_from_universe um ui i hm]
    | .mk ty (.concrete k), c', h => by
        cases ht : foldTy (uMapToCanonical um) o ty with
        | error e => simp [foldConst, ht] at h
        | ok x => simp [foldConst, ht] at h; subst h; simp [foldConst, foldTy_to_from um o ty x ht]
  theorem foldGArg_to_from (um : List Nat) (o : Nat) : (a a' : GArg) →
      foldGArg (uMapToCanonical um) o a = .ok a' → foldGArg (uMapFromCanonical um) o a' = .ok a
    | .ty t, a', h => by
        cases ht : foldTy (uMapToCanonical um) o t with
        | error e => simp [foldGArg, ht] at h
        | ok x => simp [foldGArg, ht] at h; subst h; simp [foldGArg, foldTy_to_from um o t x ht]
    | .lt l, a', h => by
        cases hl : foldLifetime (uMapToCanonical um) o l with
        | error e => simp [foldGArg, hl] at h
        | ok x => simp [foldGArg, hl] at h; subst h; simp [foldGArg, foldLifetime_to_from um o l x hl]
    | .ct c, a', h => by
        cases hc : foldConst (uMapToCanonical um) o c with
        | error e => simp [foldGArg, hc] at h
        | ok x => simp [foldGArg, hc] at h; subst h; simp [foldGArg, foldConst_to_from um o c x hc]
  theorem foldArgs_to_from (um : List Nat) (o : Nat) : (a a' : Args) →
      foldArgs (uMapToCanonical um) o a = .ok a' → foldArgs (uMapFromCanonical um) o a' = .ok a
    | .nil, a', h => by simp [foldArgs] at h; subst h; simp [foldArgs]
    | .cons a as, a', h => by
        cases ha : foldGArg (uMapToCanonical um) o a with
        | error e => simp [foldArgs, ha] at h
        | ok x =>
          cases has : foldArgs (uMapToCanonical um) o as with
          | error e => simp [foldArgs, ha, has] at h
          | ok y =>
            simp [foldArgs, ha, has] at h; subst h
            simp [foldArgs, foldGArg_to_from um o a x ha, foldArgs_to_from um o as y has]
  theorem foldWC_to_from (um : List Nat) (o : Nat) : (w w' : WC) →
      foldWC (uMapToCanonical um) o w = .ok w' → foldWC (uMapFromCanonical um) o w' = .ok w
    | .implemented tr args, w', h => by
        cases ha : foldArgs (uMapToCanonical um) o args with
        | error e => simp [foldWC, ha] at h
        | ok x => simp [foldWC, ha] at h; subst h; simp [foldWC, foldArgs_to_from um o args x ha]
    | .aliasEqProj id args ty, w', h => by
        cases ha : foldArgs (uMapToCanonical um) o args with
        | error e => simp [foldWC, ha] at h
        | ok x =>
          cases ht : foldTy (uMapToCanonical um) o ty with
          | error e => simp [foldWC, ha, ht] at h
          | ok y =>
            simp [foldWC, ha, ht] at h; subst h
            simp [foldWC, foldArgs_to_from um o args x ha, foldTy_to_from um o ty y ht]
    | .aliasEqOpaque id args ty, w', h => by
        cases ha : foldArgs (uMapToCanonical um) o args with
        | error e => simp [foldWC, ha] at h
        | ok x =>
          cases ht : foldTy (uMapToCanonical um) o ty with
          | error e => simp [foldWC, ha, ht] at h
          | ok y =>
            simp [foldWC, ha, ht] at h; subst h
            simp [foldWC, foldArgs_to_from um o args x ha, foldTy_to_from um o ty y ht]
    | .ltOutlives a b, w', h => by
        cases ha : foldLifetime (uMapToCanonical um) o a with
        | error e => simp [foldWC, ha] at h
        | ok x =>
          cases hb : foldLifetime (uMapToCanonical um) o b with
          | error e => simp [foldWC, ha, hb] at h
          | ok y =>
            simp [foldWC, ha, hb] at h; subst h
            simp [foldWC, foldLifetime_to_from um o a x ha, foldLifetime_to_from um o b y hb]
    | .tyOutlives t l, w', h => by
        cases ht : foldTy (uMapToCanonical um) o t with
        | error e => simp [foldWC, ht] at h
        | ok x =>
          cases hl : foldLifetime (uMapToCanonical um) o l with
          | error e => simp [foldWC, ht, hl] at h
          | ok y =>
            simp [foldWC, ht, hl] at h; subst h
            simp [foldWC, foldTy_to_from um o t x ht, foldLifetime_to_from um o l y hl]
  theorem foldQWC_to_from (um : List Nat) (o : Nat) : (q q' : QWC) →
      foldQWC (uMapToCanonical um) o q = .ok q' → foldQWC (uMapFromCanonical um) o q' = .ok q
    | .mk kinds wc, q', h => by
        cases hw : foldWC (uMapToCanonical um) (o + 1) wc with
        | error e => simp [foldQWC, hw] at h
        | ok x => simp [foldQWC, hw] at h; subst h; simp [foldQWC, foldWC_to_from um (o + 1) wc x hw]
  theorem foldQWCs_to_from (um : List Nat) (o : Nat) : (q q' : QWCs) →
      foldQWCs (uMapToCanonical um) o q = .ok q' → foldQWCs (uMapFromCanonical um) o q' = .ok q
    | .nil, q', h => by simp [foldQWCs] at h; subst h; simp [foldQWCs]
    | .cons q qs, q', h => by
        cases hq : foldQWC (uMapToCanonical um) o q with
        | error e => simp [foldQWCs, hq] at h
        | ok x =>
          cases hqs : foldQWCs (uMapToCanonical um) o qs with
          | error e => simp [foldQWCs, hq, hqs] at h
          | ok y =>
            simp [foldQWCs, hq, hqs] at h; subst h
            simp [foldQWCs, foldQWC_to_from um o q x hq, foldQWCs_to_from um o qs y hqs]
end

theorem mapBinders_to_from (um : List Nat) : (bs bs' : List (VarKind × Nat)) →
    mapBinders (fun u => match mapUniverseToCanonical um u with
                         | some x => .ok x
                         | none => .error pLastNone) bs = .ok bs' →
    mapBinders (mapUniverseFromCanonical um) bs' = .ok bs
  | [], bs', h => by simp [mapBinders] at h; subst h; simp [mapBinders]
  | (k, u) :: rest, bs', h => by
    simp only [mapBinders] at h
    cases hm : mapUniverseToCanonical um u with
    | none => simp [hm] at h
    | some i =>
      simp [hm] at h
      cases hr : mapBinders (fun u => match mapUniverseToCanonical um u with
                         | some x => .ok x
                         | none => .error pLastNone) rest with
      | error e => simp [hr] at h
      | ok r =>
        simp [hr] at h; subst h
        simp [mapBinders, to_from_universe um u i hm, mapBinders_to_from um rest r hr]

end Chalk
