/-
  FixedPointMixG.lean — leaving the loop as the head of a component (mixed polarities): the nodes
  from `dfn` on are moved to the cache (`finish_cache`) or dropped (`finish_discard`); their answers
  are the true ones.
-/
import ChalkModel.Lemmas.FixedPointMixD
import ChalkModel.Lemmas.FixedPointSemG

namespace Chalk.FixedPoint.Mix
open Chalk.FixedPoint.Cyc (JE JA MinLe InCache InGraph Def Undef flagAt StackExt stackGoals
  getElem?_lt_length getElem?_prefix def_or_undef headNode mid_cases mid_at mid_corr Popped
  drain_sub drain_keep drained)

section
variable {inst : Instance} {P : Nat → Prop} {dom : List Nat} {lvl : Nat → Nat} {fx : Bool}
variable {s0 st s1 : St} {g : Nat} {old cur : V} {m : Min} {new : List Node}

theorem After.new_index (A : After inst P dom lvl fx s0 st s1 g old cur m new) {n : Node} (hn : n ∈ new) :
    ∃ i, s0.graph.length < i ∧ s1.graph[i]? = some n := by
  obtain ⟨j, hj⟩ := List.getElem?_of_mem hn
  refine ⟨s0.graph.length + (j + 1), by omega, ?_⟩
  rw [A.g1, List.getElem?_append_right (by omega)]
  have : s0.graph.length + (j + 1) - s0.graph.length = j + 1 := by omega
  rw [this, List.getElem?_cons_succ]
  exact hj

theorem After.drained_index (A : After inst P dom lvl fx s0 st s1 g old cur m new) {n : Node}
    (hn : n ∈ drained g cur m new) :
    ∃ i n', s0.graph.length ≤ i ∧ s1.graph[i]? = some n' ∧ n'.goal = n.goal := by
  cases List.mem_cons.mp hn with
  | inl e => exact ⟨_, _, Nat.le_refl _, A.head, by rw [e]; rfl⟩
  | inr e =>
    obtain ⟨i, hi, hn'⟩ := A.new_index e
    exact ⟨i, n, Nat.le_of_lt hi, hn', rfl⟩

/-- the answers of the drained nodes are the true ones -/
theorem After.drained_corr (A : After inst P dom lvl fx s0 st s1 g old cur m new)
    (hfl : ¬ flagAt s1.stack s0.stack.length ∨ old = cur) (hm : MinLe (some s0.graph.length) m) :
    ∀ n : Node, n ∈ drained g cur m new → n.solution ≠ .ambig → Holds P n.solution n.goal := by
  -- the optimistic ones justify each other
  have hS : ∀ k, (∃ n : Node, n ∈ drained g cur m new ∧ n.goal = k ∧ n.solution = topOf inst k) →
      JV inst (topOf inst k) (Opt inst P (fun j => ∃ n : Node, n ∈ drained g cur m new ∧ n.goal = j ∧
        n.solution = topOf inst j) (topOf inst k)) k := by
    have hw : ∀ {lb : Min} {v : V} {j : Nat}, MinLe (some s0.graph.length) lb → Wit inst P s1 lb v j →
        Opt inst P (fun j => ∃ n : Node, n ∈ drained g cur m new ∧ n.goal = j ∧
          n.solution = topOf inst j) v j := by
      intro lb v j hlb hw
      cases hw with
      | inl h => exact Or.inr h
      | inr h =>
        obtain ⟨i, n, hn, hgo, hv, ht, hl, hf⟩ := h
        have hle : s0.graph.length ≤ i := hlb.trans hl
        rw [A.g1] at hn
        rcases mid_cases _ _ _ i n hn with h1 | h1 | h1
        · exact absurd h1.1 (Nat.not_lt.mpr hle)
        · left
          rw [h1.2] at hgo hv hf
          have hflag : flagAt s1.stack s0.stack.length := hf _ rfl
          have : old = cur := by
            cases hfl with
            | inl h => exact absurd hflag h
            | inr h => exact h
          refine ⟨ht, _, List.mem_cons_self .., hgo, ?_⟩
          show cur = topOf inst j
          rw [← this, ht]; exact hv
        · left
          exact ⟨ht, n, List.mem_cons_of_mem _ h1.2.1, hgo, by rw [ht]; exact hv⟩
    intro k hk
    obtain ⟨n, hn, hgo, hv⟩ := hk
    cases List.mem_cons.mp hn with
    | inl e =>
      rw [e] at hgo hv
      have e1 : g = k := hgo
      subst e1
      have e2 : cur = topOf inst g := hv
      rcases A.fact with h | h | h
      · rw [← e2]; exact JV.mono (fun j hj => hw hm hj) h.2
      · rw [h.1] at e2; exact absurd e2.symm (topOf_ne_botOf inst g)
      · rw [h.1] at e2; exact absurd e2.symm (topOf_ne_ambig inst g)
    | inr e =>
      obtain ⟨i, _, hn1⟩ := A.new_index e
      rw [← hgo] at hv ⊢
      have := A.i1.just i n hn1 (A.hnew n e).1 hv
      rw [hv] at this
      exact JV.mono (fun j hj => hw (hm.trans (A.hnew n e).2) hj) this
  have htgt := A.L.hP.coind _ hS
  intro n hn hna
  have hval : n.solution = topOf inst n.goal ∨ n.solution = botOf inst n.goal ∨ n.solution = .ambig := by
    cases List.mem_cons.mp hn with
    | inl e => rw [e]; exact A.cur_val
    | inr e =>
      obtain ⟨i, _, hn1⟩ := A.new_index e
      exact A.i1.val i n hn1
  rcases hval with h | h | h
  · rw [h]; exact htgt n.goal ⟨n, hn, rfl, h⟩
  · cases List.mem_cons.mp hn with
    | inl e => rw [e] at h ⊢; exact A.cur_holds h
    | inr e =>
      obtain ⟨i, _, hn1⟩ := A.new_index e
      exact A.i1.approx i n hn1 h
  · exact absurd h hna

/-- the invariant of a state that keeps the old graph, pops the stack and has correct cache entries -/
theorem After.inv_old (A : After inst P dom lvl fx s0 st s1 g old cur m new) {s6 : St}
    (hext : StackExt s0.stack s6.stack) (e1 : s6.oracle = s1.oracle) (e2 : s6.oracleDefault = s1.oracleDefault)
    (e3 : s6.interrupted = s1.interrupted)
    (hnode : ∀ (d : Nat) (e : StackEntry), s6.stack[d]? = some e → ∃ (i : Nat) (n : Node),
      s0.graph[i]? = some n ∧ n.stackDepth = some d ∧ e.coinductiveGoal = inst.coind n.goal)
    (hg6 : s6.graph = s0.graph) (hok : ∀ k v, InCache s6 k v → Holds P v k)
    (hdisj : ∀ (i : Nat) (n : Node), s0.graph[i]? = some n → ∀ v, ¬ InCache s6 n.goal v) :
    Inv inst P dom lvl fx s6 := by
  have hflag : ∀ d, flagAt s0.stack d → flagAt s6.stack d := fun d hd => hext.flag hd
  refine ⟨A.fixes5 e1 e2 e3, ?_, hok, ?_, ?_, ?_, ?_, ?_, ?_, ?_, ?_, ?_, ?_, ?_, ?_⟩
  · intro i n hn ha
    rw [hg6] at hn
    rw [e3]
    exact A.i1.amb i n (A.g0 hn) ha
  · intro d e he
    obtain ⟨i, n, hn, h2⟩ := hnode d e he
    exact ⟨i, n, by rw [hg6]; exact hn, h2⟩
  · rw [hg6]; exact A.L.i0.chain
  · rw [hg6]; exact A.L.i0.nodup
  · intro i n hn v hc
    rw [hg6] at hn
    exact hdisj i n hn v hc
  · rw [hg6]; exact A.L.i0.inDom
  · rw [hg6]; exact A.L.i0.val
  · rw [hg6]; exact A.L.i0.approx
  · intro i n d hn hd
    rw [hg6] at hn
    have := A.L.i0.stk i n d hn hd
    exact ⟨by rw [hext.1]; exact this.1, this.2⟩
  · rw [hg6]; exact A.L.i0.nonstk
  · rw [hg6, hext.1]; exact A.L.i0.cnt
  · intro i n hn hd htop
    rw [hg6] at hn
    exact JV.mono (fun j hj => hj.from0 ⟨[], by rw [hg6, List.append_nil]⟩ hflag) (A.L.i0.just i n hn hd htop)
  · rw [hg6]; exact A.L.i0.lvlLinks

theorem After.finish_cache (A : After inst P dom lvl fx s0 st s1 g old cur m new) {s6 : St}
    (Pp : Popped s0 s1 { s6 with cache := s1.cache })
    (hfl : ¬ flagAt s1.stack s0.stack.length ∨ old = cur) (hm : MinLe (some s0.graph.length) m)
    (hg6 : s6.graph = s0.graph) (cc1 cc6 : List (Nat × V)) (hc1 : s1.cache = some cc1)
    (hc6 : s6.cache = some cc6)
    (hdr : drainToCache s0.graph.length (drained g cur m new) cc1 = .ok cc6)
    (hni : s1.interrupted = false) :
    Inv inst P dom lvl fx s6 ∧ (∀ lb, Step inst P s0 s6 lb) ∧ Holds P cur g := by
  have hna : ∀ n : Node, n ∈ drained g cur m new → n.solution ≠ .ambig := by
    intro n hn ha
    have : s1.interrupted = true := by
      cases List.mem_cons.mp hn with
      | inl e =>
        rw [e] at ha
        exact A.amb ha
      | inr e =>
        obtain ⟨i, _, hn1⟩ := A.new_index e
        exact A.i1.amb i n hn1 ha
    rw [hni] at this
    cases this
  have hcorr := fun n hn => A.drained_corr hfl hm n hn (hna n hn)
  have h6i : s6.interrupted = s1.interrupted := Pp.interrupted
  have h6o : s6.oracle = s1.oracle := Pp.oracle
  have h6d : s6.oracleDefault = s1.oracleDefault := Pp.oracleDefault
  have hext : StackExt s0.stack s6.stack := A.popExt (s5 := { s6 with cache := s1.cache }) Pp
  have hfresh : ∀ n : Node, n ∈ drained g cur m new → ∀ v, ¬ InCache s1 n.goal v := by
    intro n hn v hc
    obtain ⟨i, n', _, hn', hgo⟩ := A.drained_index hn
    exact A.i1.disj i n' hn' v (by rw [hgo]; exact hc)
  have hsub : ∀ k v, InCache s6 k v → InCache s1 k v ∨
      ∃ n : Node, n ∈ drained g cur m new ∧ n.goal = k ∧ n.solution = v := by
    intro k v h
    obtain ⟨cc, e, hk⟩ := h
    rw [hc6] at e
    cases e
    cases drain_sub _ _ _ _ hdr k v hk with
    | inl h => exact Or.inl ⟨cc1, hc1, h⟩
    | inr h => exact Or.inr h
  have hkeep : ∀ k v, InCache s1 k v → InCache s6 k v := by
    intro k v h
    obtain ⟨cc, e, hk⟩ := h
    rw [hc1] at e
    cases e
    refine ⟨cc6, hc6, drain_keep _ _ _ _ hdr k v hk ?_⟩
    intro n hn hgo
    exact hfresh n hn v (by rw [hgo]; exact ⟨cc1, hc1, hk⟩)
  have hinv : Inv inst P dom lvl fx s6 := by
    refine A.inv_old hext h6o h6d h6i (A.popNode (s5 := { s6 with cache := s1.cache }) Pp) hg6 ?_ ?_
    · intro k v h
      cases hsub k v h with
      | inl h => exact A.i1.cacheOK k v h
      | inr h =>
        obtain ⟨n, hn, hgo, hv⟩ := h
        rw [← hgo, ← hv]; exact hcorr n hn
    · intro i n hn v hc
      cases hsub _ v hc with
      | inl h => exact A.i1.disj i n (A.g0 hn) v h
      | inr h =>
        obtain ⟨n', hn', hgo, _⟩ := h
        obtain ⟨i', n'', hle, hn'', hgo''⟩ := A.drained_index hn'
        have : i' = i := A.i1.index_inj hn'' (A.g0 hn) (hgo''.trans hgo)
        have := getElem?_lt_length hn
        omega
  refine ⟨hinv, fun lb => ⟨⟨[], by rw [hg6, List.append_nil], fun n hn => by cases hn⟩, hext,
    fun k v h => hkeep k v (A.cacheExt k v h), ?_, ?_,
    by rw [hc6, ← A.L.cacheMode, ← A.step.cacheMode, hc1]; rfl,
    (A.flags h6o h6d h6i).1, (A.flags h6o h6d h6i).2⟩, hcorr _ (List.mem_cons_self ..)⟩
  · intro k v h
    cases h with
    | inl h => exact Or.inl (hkeep k v (A.cacheExt k v h))
    | inr h =>
      obtain ⟨i, n, hn, h2⟩ := h
      exact Or.inr ⟨i, n, by rw [hg6]; exact hn, h2⟩
  · intro k hu hd
    apply loop_low A.L A.i1 A.step A.fact k hu
    cases hd with
    | inl h =>
      cases hsub k _ h with
      | inl h => exact Or.inl (Or.inl h)
      | inr h =>
        obtain ⟨n, hn, hgo, hv⟩ := h
        cases List.mem_cons.mp hn with
        | inl e =>
          rw [e] at hgo hv
          have e1 : g = k := hgo
          subst e1
          exact Or.inr ⟨rfl, hv⟩
        | inr e =>
          obtain ⟨i, _, hn1⟩ := A.new_index e
          exact Or.inl (Or.inr ⟨i, n, hn1, hgo, hv⟩)
    | inr h =>
      obtain ⟨i, n, hn, h2⟩ := h
      rw [hg6] at hn
      exact absurd (Or.inr ⟨i, n, hn, h2⟩) (hu _)

theorem After.finish_discard (A : After inst P dom lvl fx s0 st s1 g old cur m new) {s6 : St}
    (Pp : Popped s0 s1 s6) (hfl : cur ≠ .ambig → ¬ flagAt s1.stack s0.stack.length ∨ old = cur)
    (hm : MinLe (some s0.graph.length) m) (hg6 : s6.graph = s0.graph) :
    Inv inst P dom lvl fx s6 ∧ (∀ lb, Step inst P s0 s6 lb) ∧ (cur ≠ .ambig → Holds P cur g) := by
  have hext : StackExt s0.stack s6.stack := A.popExt Pp
  have hinv : Inv inst P dom lvl fx s6 := by
    refine A.inv_old hext Pp.oracle Pp.oracleDefault Pp.interrupted (A.popNode Pp) hg6
      (fun k v h => A.i1.cacheOK k v (Pp.inCache.mp h)) ?_
    · intro i n hn v hc
      exact A.i1.disj i n (A.g0 hn) v (Pp.inCache.mp hc)
  refine ⟨hinv, fun lb => ⟨⟨[], by rw [hg6, List.append_nil], fun n hn => by cases hn⟩, hext,
    fun k v h => Pp.inCache.mpr (A.cacheExt k v h), ?_, ?_,
    by rw [Pp.cache, A.step.cacheMode, A.L.cacheMode],
    (A.flags Pp.oracle Pp.oracleDefault Pp.interrupted).1, (A.flags Pp.oracle Pp.oracleDefault Pp.interrupted).2⟩,
    fun hne => A.drained_corr (hfl hne) hm _ (List.mem_cons_self ..) hne⟩
  · intro k v h
    cases h with
    | inl h => exact Or.inl (Pp.inCache.mpr (A.cacheExt k v h))
    | inr h =>
      obtain ⟨i, n, hn, h2⟩ := h
      exact Or.inr ⟨i, n, by rw [hg6]; exact hn, h2⟩
  · intro k hu hd
    apply loop_low A.L A.i1 A.step A.fact k hu
    cases hd with
    | inl h => exact Or.inl (Or.inl (Pp.inCache.mp h))
    | inr h =>
      obtain ⟨i, n, hn, h2⟩ := h
      rw [hg6] at hn
      exact absurd (Or.inr ⟨i, n, hn, h2⟩) (hu _)

end

end Chalk.FixedPoint.Mix
