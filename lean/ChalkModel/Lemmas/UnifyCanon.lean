/-
  Acyclic ("ranked") tables have a canonical solution: `canon N` is a solution and resolution is
  stable from level `N` on.  `Ranked` for `new` / `newVariable` / `newUniverse`.  The syntactic
  corollary of `relateTy_sound` on a ranked result table.
-/
import ChalkModel.Lemmas.UnifySound
import ChalkModel.Lemmas.UnifyAcyclicDefs

namespace Chalk

/-! ## `applyAsg` depends on the assignment at `tyVars` only -/

mutual
  theorem Ty.applyAsg_congr (θ θ' : Nat → Ty) : (t : Ty) →
      (∀ w, w ∈ t.tyVars → θ w = θ' w) → t.applyAsg θ = t.applyAsg θ'
    | .app n args => by
        intro h; simp only [Ty.applyAsg]
        rw [Args.applyAsg_congr θ θ' args (by simpa only [Ty.tyVars] using h)]
    | .scalar s => by intro _; rfl
    | .str => by intro _; rfl
    | .never => by intro _; rfl
    | .foreign id => by intro _; rfl
    | .error => by intro _; rfl
    | .array t c => by intro _; rfl
    | .slice t => by
        intro h; simp only [Ty.applyAsg]
        rw [Ty.applyAsg_congr θ θ' t (by simpa only [Ty.tyVars] using h)]
    | .raw m t => by
        intro h; simp only [Ty.applyAsg]
        rw [Ty.applyAsg_congr θ θ' t (by simpa only [Ty.tyVars] using h)]
    | .ref m l t => by intro _; rfl
    | .placeholder ui idx => by intro _; rfl
    | .dyn kinds bounds l => by intro _; rfl
    | .proj id args => by intro _; rfl
    | .opaque id args => by intro _; rfl
    | .function nb sig args => by intro _; rfl
    | .bound db idx => by intro _; rfl
    | .infer v k => by
        intro h; simp only [Ty.applyAsg]; exact h v (by simp [Ty.tyVars])
  theorem GArg.applyAsg_congr (θ θ' : Nat → Ty) : (a : GArg) →
      (∀ w, w ∈ a.tyVars → θ w = θ' w) → a.applyAsg θ = a.applyAsg θ'
    | .ty t => by
        intro h; simp only [GArg.applyAsg]
        rw [Ty.applyAsg_congr θ θ' t (by simpa only [GArg.tyVars] using h)]
    | .lt l => by intro _; rfl
    | .ct c => by intro _; rfl
  theorem Args.applyAsg_congr (θ θ' : Nat → Ty) : (a : Args) →
      (∀ w, w ∈ a.tyVars → θ w = θ' w) → a.applyAsg θ = a.applyAsg θ'
    | .nil => by intro _; rfl
    | .cons a as => by
        intro h; simp only [Args.applyAsg]
        simp only [Args.tyVars, List.mem_append] at h
        rw [GArg.applyAsg_congr θ θ' a (fun w hw => h w (Or.inl hw)),
            Args.applyAsg_congr θ θ' as (fun w hw => h w (Or.inr hw))]
end

mutual
  theorem Ty.tyVars_lt (n : Nat) : (t : Ty) → t.varsBelow n = true → ∀ w, w ∈ t.tyVars → w < n
    | .app nm args => by
        intro h; simp only [Ty.varsBelow] at h; simp only [Ty.tyVars]; exact Args.tyVars_lt n args h
    | .scalar s => by intro _ w hw; simp [Ty.tyVars] at hw
    | .str => by intro _ w hw; simp [Ty.tyVars] at hw
    | .never => by intro _ w hw; simp [Ty.tyVars] at hw
    | .foreign id => by intro _ w hw; simp [Ty.tyVars] at hw
    | .error => by intro _ w hw; simp [Ty.tyVars] at hw
    | .array t c => by intro _ w hw; simp [Ty.tyVars] at hw
    | .slice t => by
        intro h; simp only [Ty.varsBelow] at h; simp only [Ty.tyVars]; exact Ty.tyVars_lt n t h
    | .raw m t => by
        intro h; simp only [Ty.varsBelow] at h; simp only [Ty.tyVars]; exact Ty.tyVars_lt n t h
    | .ref m l t => by intro _ w hw; simp [Ty.tyVars] at hw
    | .placeholder ui idx => by intro _ w hw; simp [Ty.tyVars] at hw
    | .dyn kinds bounds l => by intro _ w hw; simp [Ty.tyVars] at hw
    | .proj id args => by intro _ w hw; simp [Ty.tyVars] at hw
    | .opaque id args => by intro _ w hw; simp [Ty.tyVars] at hw
    | .function nb sig args => by intro _ w hw; simp [Ty.tyVars] at hw
    | .bound db idx => by intro _ w hw; simp [Ty.tyVars] at hw
    | .infer v k => by
        intro h w hw
        simp [Ty.tyVars] at hw; simp [Ty.varsBelow] at h; omega
  theorem GArg.tyVars_lt (n : Nat) : (a : GArg) → a.varsBelow n = true → ∀ w, w ∈ a.tyVars → w < n
    | .ty t => by
        intro h; simp only [GArg.varsBelow] at h; simp only [GArg.tyVars]; exact Ty.tyVars_lt n t h
    | .lt l => by intro _ w hw; simp [GArg.tyVars] at hw
    | .ct c => by intro _ w hw; simp [GArg.tyVars] at hw
  theorem Args.tyVars_lt (n : Nat) : (a : Args) → a.varsBelow n = true → ∀ w, w ∈ a.tyVars → w < n
    | .nil => by intro _ w hw; simp [Args.tyVars] at hw
    | .cons a as => by
        intro h w hw
        simp only [Args.varsBelow, Bool.and_eq_true] at h
        simp only [Args.tyVars, List.mem_append] at hw
        rcases hw with hw | hw
        · exact GArg.tyVars_lt n a h.1 w hw
        · exact Args.tyVars_lt n as h.2 w hw
end

theorem Ty.tyVars_lt_of_good {ar : TyName → Nat} {n : Nat} {t : Ty} (h : t.good ar n = true) :
    ∀ w, w ∈ t.tyVars → w < n :=
  Ty.tyVars_lt n t ((Ty.good_iff ar n t).mp h).2.1

/-! ## `find` outside the table -/

theorem Table.find_ge (t : Table) (v : Nat) (h : t.numVars ≤ v) : t.find v = v :=
  t.find_of_root v (getD_of_le _ _ _ h)

theorem Table.newVariable_find (t : Table) (ui : Nat) (hwf : t.WF) (v : Nat) :
    (t.newVariable ui).1.find v = t.find v := by
  by_cases h1 : v < t.numVars
  · exact t.newVariable_find_old ui hwf v h1
  · by_cases h2 : v = t.numVars
    · subst h2; rw [t.newVariable_find_new, t.find_ge _ (Nat.le_refl _)]
    · rw [Table.find_ge _ v (by rw [t.newVariable_numVars]; omega), t.find_ge v (by omega)]

/-! ## (1) `Ranked` for the table constructors -/

theorem Table.new_Ranked : Table.new.Ranked :=
  ⟨1, fun _ => 0, fun _ => Nat.zero_lt_one, fun v _ hv => absurd hv (Nat.not_lt_zero v)⟩

theorem Table.newVariable_Ranked (t : Table) (ui : Nat) (hwf : t.WF) (h : t.Ranked) :
    (t.newVariable ui).1.Ranked := by
  obtain ⟨N, ρ, hN, hr⟩ := h
  refine ⟨N, ρ, hN, ?_⟩
  intro v ty hv hp w hw
  rw [t.newVariable_numVars] at hv
  rw [t.newVariable_find ui hwf, t.newVariable_find ui hwf]
  by_cases hlt : v < t.numVars
  · rw [t.newVariable_probeVar_old ui hwf v hlt] at hp
    exact hr v ty hlt hp w hw
  · have : v = t.numVars := by omega
    subst this
    rw [t.newVariable_probeVar_new ui hwf] at hp
    cases hp

theorem Table.newUniverse_Ranked (t : Table) (h : t.Ranked) : t.newUniverse.1.Ranked := by
  obtain ⟨N, ρ, hN, hr⟩ := h
  refine ⟨N, ρ, hN, ?_⟩
  intro v ty hv hp w hw
  rw [t.newUniverse_probeVar] at hp
  rw [Table.find_congr t.newUniverse.1 t rfl, Table.find_congr t.newUniverse.1 t rfl]
  exact hr v ty hv hp w hw

/-! ## (3) the canonical solution of a ranked table -/

theorem Table.probeVar_find (t : Table) (hwf : t.WF) (v : Nat) (hv : v < t.numVars) :
    t.probeVar (t.find v) = t.probeVar v := by
  rw [Table.probeVar_eq, Table.probeVar_eq, t.find_find hwf v hv]

theorem Table.canon_succ_bound (t : Table) (n v : Nat) (ty : Ty) (h : t.probeVar v = some (.ty ty)) :
    t.canon (n + 1) v = ty.applyAsg (t.canon n) := by
  rw [Table.canon]; simp only [h]

theorem Table.canon_unbound (t : Table) (n v : Nat) (h : ∀ ty, t.probeVar v ≠ some (.ty ty)) :
    t.canon n v = .infer (t.find v) .general := by
  cases n with
  | zero => rfl
  | succ n =>
    rw [Table.canon]
    split
    · rename_i ty hp; exact absurd hp (h ty)
    · rfl

theorem Table.canon_find (t : Table) (hwf : t.WF) (n v : Nat) (hv : v < t.numVars) :
    t.canon n (t.find v) = t.canon n v := by
  cases n with
  | zero => show Ty.infer _ _ = Ty.infer _ _; rw [t.find_find hwf v hv]
  | succ n =>
    rw [Table.canon, Table.canon, t.probeVar_find hwf v hv, t.find_find hwf v hv]

theorem Table.canon_step (t : Table) (hfo : t.foValues) (ρ : Nat → Nat)
    (hr : ∀ v ty, v < t.numVars → t.probeVar v = some (.ty ty) →
      ∀ w, w ∈ ty.tyVars → ρ (t.find w) < ρ (t.find v)) :
    ∀ n v, v < t.numVars → ρ (t.find v) < n → t.canon (n + 1) v = t.canon n v := by
  intro n
  induction n with
  | zero => intro v _ h; omega
  | succ m ih =>
    intro v hv hρ
    by_cases hb : ∃ ty, t.probeVar v = some (.ty ty)
    · obtain ⟨ty, hp⟩ := hb
      rw [t.canon_succ_bound (m + 1) v ty hp, t.canon_succ_bound m v ty hp]
      apply Ty.applyAsg_congr
      intro w hw
      obtain ⟨ty', he, _, hvb⟩ := hfo v _ hv hp
      cases he
      have hw' := Ty.tyVars_lt _ ty hvb w hw
      have := hr v ty hv hp w hw
      exact ih w hw' (by omega)
    · have hb' : ∀ ty, t.probeVar v ≠ some (.ty ty) := fun ty h => hb ⟨ty, h⟩
      rw [t.canon_unbound _ v hb', t.canon_unbound _ v hb']

theorem Table.ranked_canon (t : Table) (hwf : t.WF) (hfo : t.foValues) (hr : t.Ranked) :
    ∃ N, t.Models (t.canon N) ∧ ∀ n, N ≤ n → ∀ v, v < t.numVars → t.canon n v = t.canon N v := by
  obtain ⟨N, ρ, hN, hr⟩ := hr
  have hstep := t.canon_step hfo ρ hr
  have hstable : ∀ n, N ≤ n → ∀ v, v < t.numVars → t.canon n v = t.canon N v := by
    intro n hn
    induction n with
    | zero => intro v _; have : N = 0 := by omega
              subst this; rfl
    | succ m ih =>
      intro v hv
      by_cases hm : N ≤ m
      · rw [hstep m v hv (Nat.lt_of_lt_of_le (hN _) hm)]; exact ih hm v hv
      · have : N = m + 1 := by omega
        subst this; rfl
  refine ⟨N, ⟨?_, ?_⟩, hstable⟩
  · intro v hv
    exact (t.canon_find hwf N v hv).symm
  · intro v ty hv hp
    rw [← hstable (N + 1) (Nat.le_succ N) v hv]
    exact t.canon_succ_bound N v ty hp

/-! ## (4), given that the result table is ranked -/

theorem relateTy_sound_resolve_of_ranked (db : UDb) (jf : Nat) (ar : TyName → Nat) :
    ∀ (fuel : Nat) (a b : Ty) (st st' : UState),
      st.table.WF → st.table.foValues → st.table.arityValues ar →
      a.fo = true → b.fo = true →
      a.varsBelow st.table.numVars = true → b.varsBelow st.table.numVars = true →
      a.arityOk ar = true → b.arityOk ar = true →
      relateTy db jf fuel .inv a b st = .ok st' → st'.table.Ranked →
      ∃ N, ∀ n, N ≤ n → st'.table.resolve n a = st'.table.resolve n b := by
  intro fuel a b st st' hwf hfo har hafo hbfo hav hbv haa hba h hrk
  obtain ⟨s1, s2, _, _, s5, _, s7, _, _⟩ :=
    relateTy_sound db jf ar fuel a b st st' hwf hfo har hafo hbfo hav hbv haa hba h
  obtain ⟨N, hm, hst⟩ := st'.table.ranked_canon s1 s2 hrk
  refine ⟨N, ?_⟩
  intro n hn
  have key : ∀ ty : Ty, ty.varsBelow st.table.numVars = true →
      st'.table.resolve n ty = st'.table.resolve N ty := by
    intro ty hty
    apply Ty.applyAsg_congr
    intro w hw
    exact hst n hn w (Nat.lt_of_lt_of_le (Ty.tyVars_lt _ ty hty w hw) s5)
  rw [key a hav, key b hbv]
  exact (s7 _ hm).2

end Chalk
