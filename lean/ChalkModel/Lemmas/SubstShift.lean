import ChalkModel.Lemmas.ShiftPure

/-! ### substitution commutes with shifting -/
namespace Chalk

@[simp] theorem Except.map_ok' {ε α β} (f : α → β) (a : α) : Except.map f (Except.ok a : Except ε α) = .ok (f a) := rfl
@[simp] theorem Except.map_error' {ε α β} (f : α → β) (e : ε) : Except.map f (Except.error e : Except ε α) = .error e := rfl

theorem map_shift_get (k : Nat) (σ : List GArg) (i : Nat) :
    (σ.map (GArg.shift k 0))[i]? = (σ[i]?).map (GArg.shift k 0) := by simp

theorem foldLifetime_subst_shift (k : Nat) (σ : List GArg) (o : Nat) (l : Lifetime) :
    (foldLifetime (substFolder σ) o l).map (·.shift k o)
      = foldLifetime (substFolder (σ.map (GArg.shift k 0))) o (l.shift k (o + 1)) := by
  cases l with
  | bound db idx =>
    by_cases h : o ≤ db
    · by_cases h0 : db = o
      · subst h0
        have e : (Lifetime.bound db idx).shift k (db + 1) = .bound db idx := by
          have hn : ¬ (db + 1 ≤ db) := by omega
          simp [Lifetime.shift, hn]
        rw [e]
        simp only [foldLifetime, Nat.le_refl, if_true, Nat.sub_self]
        simp only [substFolder, foldLifetime_shifter, if_true]
        simp only [List.getElem?_map]
        cases hs : σ[idx]? with
        | none => simp
        | some a =>
          cases a with
          | lt s =>
            simp [GArg.shift, foldLifetime_shifter]
            have := Lifetime.shift_shift k db 0 s
            simpa using this
          | ty l => simp [GArg.shift]
          | ct c => simp [GArg.shift]
      · have h1 : o + 1 ≤ db := by omega
        have h2 : o ≤ db + k := by omega
        have h3 : ¬ (db - o = 0) := by omega
        have h4 : ¬ (db + k - o = 0) := by omega
        simp [h, h1, h2, h3, h4, foldLifetime, substFolder, Lifetime.shift]
        omega
    · have h1 : ¬ (o + 1 ≤ db) := by omega
      simp [h, h1, foldLifetime, Lifetime.shift]
  | infer v => simp [foldLifetime, substFolder, Lifetime.shift]
  | placeholder ui idx => simp [foldLifetime, substFolder, Lifetime.shift]
  | static => simp [foldLifetime, Lifetime.shift]
  | erased => simp [foldLifetime, Lifetime.shift]
  | error => simp [foldLifetime, Lifetime.shift]

mutual
  theorem foldTy_subst_shift (k : Nat) (σ : List GArg) (o : Nat) : (t : Ty) →
      (foldTy (substFolder σ) o t).map (·.shift k o)
        = foldTy (substFolder (σ.map (GArg.shift k 0))) o (t.shift k (o + 1))
    | .app n args => by
        have := foldArgs_subst_shift k σ o args
        simp only [foldTy, Ty.shift]
        cases h : foldArgs (substFolder σ) o args <;> simp [h] at this ⊢ <;> simp [← this, Ty.shift]
    | .scalar s => by simp [foldTy, Ty.shift]
    | .str => by simp [foldTy, Ty.shift]
    | .never => by simp [foldTy, Ty.shift]
    | .foreign id => by simp [foldTy, Ty.shift]
    | .error => by simp [foldTy, Ty.shift]
    | .array t cn => by
        have h1 := foldTy_subst_shift k σ o t
        have h2 := foldConst_subst_shift k σ o cn
        simp only [foldTy, Ty.shift]
        cases ht : foldTy (substFolder σ) o t <;> simp [ht] at h1 ⊢ <;> simp [← h1]
        cases hc : foldConst (substFolder σ) o cn <;> simp [hc] at h2 ⊢ <;> simp [← h2, Ty.shift]
    | .slice t => by
        have h1 := foldTy_subst_shift k σ o t
        simp only [foldTy, Ty.shift]
        cases ht : foldTy (substFolder σ) o t <;> simp [ht] at h1 ⊢ <;> simp [← h1, Ty.shift]
    | .raw m t => by
        have h1 := foldTy_subst_shift k σ o t
        simp only [foldTy, Ty.shift]
        cases ht : foldTy (substFolder σ) o t <;> simp [ht] at h1 ⊢ <;> simp [← h1, Ty.shift]
    | .ref m l t => by
        have h1 := foldTy_subst_shift k σ o t
        have h2 := foldLifetime_subst_shift k σ o l
        simp only [foldTy, Ty.shift]
        cases hl : foldLifetime (substFolder σ) o l <;> simp [hl] at h2 ⊢ <;> simp [← h2]
        cases ht : foldTy (substFolder σ) o t <;> simp [ht] at h1 ⊢ <;> simp [← h1, Ty.shift]
    | .placeholder ui idx => by simp [foldTy, Ty.shift, substFolder]
    | .dyn ks bounds l => by
        have h1 := foldQWCs_subst_shift k σ (o+1) bounds
        have h2 := foldLifetime_subst_shift k σ o l
        simp only [foldTy, Ty.shift]
        cases hb : foldQWCs (substFolder σ) (o+1) bounds <;> simp [hb] at h1 ⊢ <;> simp [← h1]
        cases hl : foldLifetime (substFolder σ) o l <;> simp [hl] at h2 ⊢ <;> simp [← h2, Ty.shift]
    | .proj id args => by
        have := foldArgs_subst_shift k σ o args
        simp only [foldTy, Ty.shift]
        cases h : foldArgs (substFolder σ) o args <;> simp [h] at this ⊢ <;> simp [← this, Ty.shift]
    | .opaque id args => by
        have := foldArgs_subst_shift k σ o args
        simp only [foldTy, Ty.shift]
        cases h : foldArgs (substFolder σ) o args <;> simp [h] at this ⊢ <;> simp [← this, Ty.shift]
    | .function nb sig args => by
        have := foldArgs_subst_shift k σ (o+1) args
        simp only [foldTy, Ty.shift]
        cases h : foldArgs (substFolder σ) (o+1) args <;> simp [h] at this ⊢ <;> simp [← this, Ty.shift]
    | .bound db idx => by
        by_cases h : o ≤ db
        · by_cases h0 : db = o
          · subst h0
            have hn : ¬ (db + 1 ≤ db) := by omega
            simp only [Ty.shift, hn, if_false, foldTy, substFolder, Nat.le_refl, if_true, Nat.sub_self]
            simp only [List.getElem?_map]
            cases hs : σ[idx]? with
            | none => simp
            | some a =>
              cases a with
              | ty s =>
                simp [GArg.shift, foldTy_shifter]
                have := Ty.shift_shift k db 0 s
                simpa using this
              | lt l => simp [GArg.shift]
              | ct c => simp [GArg.shift]
          · have h1 : o + 1 ≤ db := by omega
            have h2 : o ≤ db + k := by omega
            have h3 : ¬ (db - o = 0) := by omega
            have h4 : ¬ (db + k - o = 0) := by omega
            simp [h, h1, h2, h3, h4, foldTy, substFolder, Ty.shift]
            omega
        · have h1 : ¬ (o + 1 ≤ db) := by omega
          simp [h, h1, foldTy, Ty.shift]
    | .infer v kd => by simp [foldTy, Ty.shift, substFolder]
  theorem foldConst_subst_shift (k : Nat) (σ : List GArg) (o : Nat) : (c : Const) →
      (foldConst (substFolder σ) o c).map (·.shift k o)
        = foldConst (substFolder (σ.map (GArg.shift k 0))) o (c.shift k (o + 1))
    | .mk ty (.bound db idx) => by
        by_cases h : o ≤ db
        · by_cases h0 : db = o
          · subst h0
            have hn : ¬ (db + 1 ≤ db) := by omega
            simp only [Const.shift, hn, if_false, foldConst, substFolder, Nat.le_refl, if_true, Nat.sub_self]
            simp only [List.getElem?_map]
            cases hs : σ[idx]? with
            | none => simp
            | some a =>
              cases a with
              | ct s =>
                simp [GArg.shift, foldConst_shifter]
                have := Const.shift_shift k db 0 s
                simpa using this
              | ty l => simp [GArg.shift]
              | lt c => simp [GArg.shift]
          · have h1 : o + 1 ≤ db := by omega
            have h2 : o ≤ db + k := by omega
            have h3 : ¬ (db - o = 0) := by omega
            have h4 : ¬ (db + k - o = 0) := by omega
            simp [h, h1, h2, h3, h4, foldConst, substFolder, Const.shift]
            omega
        · have h1 : ¬ (o + 1 ≤ db) := by omega
          simp [h, h1, foldConst, Const.shift]
    | .mk ty (.infer v) => by
        have h1 := foldTy_subst_shift k σ o ty
        simp only [foldConst, Const.shift, substFolder] at h1 ⊢
        cases ht : foldTy (substFolder σ) o ty <;> simp [substFolder] at ht <;> simp [ht] at h1 ⊢ <;>
          simp [← h1, Const.shift]
    | .mk ty (.placeholder ui idx) => by
        have h1 := foldTy_subst_shift k σ o ty
        simp only [foldConst, Const.shift, substFolder] at h1 ⊢
        cases ht : foldTy (substFolder σ) o ty <;> simp [substFolder] at ht <;> simp [ht] at h1 ⊢ <;>
          simp [← h1, Const.shift]
    | .mk ty (.concrete v) => by
        have h1 := foldTy_subst_shift k σ o ty
        simp only [foldConst, Const.shift]
        cases ht : foldTy (substFolder σ) o ty <;> simp [ht] at h1 ⊢ <;> simp [← h1, Const.shift]
  theorem foldGArg_subst_shift (k : Nat) (σ : List GArg) (o : Nat) : (a : GArg) →
      (foldGArg (substFolder σ) o a).map (·.shift k o)
        = foldGArg (substFolder (σ.map (GArg.shift k 0))) o (a.shift k (o + 1))
    | .ty t => by
        have h1 := foldTy_subst_shift k σ o t
        simp only [foldGArg, GArg.shift]
        cases ht : foldTy (substFolder σ) o t <;> simp [ht] at h1 ⊢ <;> simp [← h1, GArg.shift]
    | .lt l => by
        have h1 := foldLifetime_subst_shift k σ o l
        simp only [foldGArg, GArg.shift]
        cases ht : foldLifetime (substFolder σ) o l <;> simp [ht] at h1 ⊢ <;> simp [← h1, GArg.shift]
    | .ct c => by
        have h1 := foldConst_subst_shift k σ o c
        simp only [foldGArg, GArg.shift]
        cases ht : foldConst (substFolder σ) o c <;> simp [ht] at h1 ⊢ <;> simp [← h1, GArg.shift]
  theorem foldArgs_subst_shift (k : Nat) (σ : List GArg) (o : Nat) : (a : Args) →
      (foldArgs (substFolder σ) o a).map (·.shift k o)
        = foldArgs (substFolder (σ.map (GArg.shift k 0))) o (a.shift k (o + 1))
    | .nil => by simp [foldArgs, Args.shift]
    | .cons a as => by
        have h1 := foldGArg_subst_shift k σ o a
        have h2 := foldArgs_subst_shift k σ o as
        simp only [foldArgs, Args.shift]
        cases ha : foldGArg (substFolder σ) o a <;> simp [ha] at h1 ⊢ <;> simp [← h1]
        cases hs : foldArgs (substFolder σ) o as <;> simp [hs] at h2 ⊢ <;> simp [← h2, Args.shift]
  theorem foldWC_subst_shift (k : Nat) (σ : List GArg) (o : Nat) : (w : WC) →
      (foldWC (substFolder σ) o w).map (·.shift k o)
        = foldWC (substFolder (σ.map (GArg.shift k 0))) o (w.shift k (o + 1))
    | .implemented tr args => by
        have := foldArgs_subst_shift k σ o args
        simp only [foldWC, WC.shift]
        cases h : foldArgs (substFolder σ) o args <;> simp [h] at this ⊢ <;> simp [← this, WC.shift]
    | .aliasEqProj id args ty => by
        have h1 := foldArgs_subst_shift k σ o args
        have h2 := foldTy_subst_shift k σ o ty
        simp only [foldWC, WC.shift]
        cases ha : foldArgs (substFolder σ) o args <;> simp [ha] at h1 ⊢ <;> simp [← h1]
        cases ht : foldTy (substFolder σ) o ty <;> simp [ht] at h2 ⊢ <;> simp [← h2, WC.shift]
    | .aliasEqOpaque id args ty => by
        have h1 := foldArgs_subst_shift k σ o args
        have h2 := foldTy_subst_shift k σ o ty
        simp only [foldWC, WC.shift]
        cases ha : foldArgs (substFolder σ) o args <;> simp [ha] at h1 ⊢ <;> simp [← h1]
        cases ht : foldTy (substFolder σ) o ty <;> simp [ht] at h2 ⊢ <;> simp [← h2, WC.shift]
    | .ltOutlives a b => by
        have h1 := foldLifetime_subst_shift k σ o a
        have h2 := foldLifetime_subst_shift k σ o b
        simp only [foldWC, WC.shift]
        cases ha : foldLifetime (substFolder σ) o a <;> simp [ha] at h1 ⊢ <;> simp [← h1]
        cases hb : foldLifetime (substFolder σ) o b <;> simp [hb] at h2 ⊢ <;> simp [← h2, WC.shift]
    | .tyOutlives t l => by
        have h1 := foldTy_subst_shift k σ o t
        have h2 := foldLifetime_subst_shift k σ o l
        simp only [foldWC, WC.shift]
        cases ha : foldTy (substFolder σ) o t <;> simp [ha] at h1 ⊢ <;> simp [← h1]
        cases hb : foldLifetime (substFolder σ) o l <;> simp [hb] at h2 ⊢ <;> simp [← h2, WC.shift]
  theorem foldQWC_subst_shift (k : Nat) (σ : List GArg) (o : Nat) : (q : QWC) →
      (foldQWC (substFolder σ) o q).map (·.shift k o)
        = foldQWC (substFolder (σ.map (GArg.shift k 0))) o (q.shift k (o + 1))
    | .mk ks wc => by
        have := foldWC_subst_shift k σ (o+1) wc
        simp only [foldQWC, QWC.shift]
        cases h : foldWC (substFolder σ) (o+1) wc <;> simp [h] at this ⊢ <;> simp [← this, QWC.shift]
  theorem foldQWCs_subst_shift (k : Nat) (σ : List GArg) (o : Nat) : (q : QWCs) →
      (foldQWCs (substFolder σ) o q).map (·.shift k o)
        = foldQWCs (substFolder (σ.map (GArg.shift k 0))) o (q.shift k (o + 1))
    | .nil => by simp [foldQWCs, QWCs.shift]
    | .cons q qs => by
        have h1 := foldQWC_subst_shift k σ o q
        have h2 := foldQWCs_subst_shift k σ o qs
        simp only [foldQWCs, QWCs.shift]
        cases ha : foldQWC (substFolder σ) o q <;> simp [ha] at h1 ⊢ <;> simp [← h1]
        cases hs : foldQWCs (substFolder σ) o qs <;> simp [hs] at h2 ⊢ <;> simp [← h2, QWCs.shift]
end

end Chalk
