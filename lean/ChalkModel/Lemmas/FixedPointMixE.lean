/-
  FixedPointMixE.lean — leaving the loop (mixed polarities): the node stays in the graph as a
  provisional result (`finish_keep`).
-/
import ChalkModel.Lemmas.FixedPointMixD

namespace Chalk.FixedPoint.Mix
open Chalk.FixedPoint.Cyc (JE JA MinLe InCache InGraph Def Undef flagAt StackExt stackGoals
  getElem?_lt_length getElem?_prefix def_or_undef headNode mid_cases mid_at mid_corr Popped
  stackGoals_append stackGoals_nonstack)

section
variable {inst : Instance} {P : Nat → Prop} {dom : List Nat} {lvl : Nat → Nat} {fx : Bool}
variable {s0 st s1 : St} {g : Nat} {old cur : V} {m : Min} {new : List Node}

/-- a node of the final graph, seen in `s1` -/
theorem After.node1 (A : After inst P dom lvl fx s0 st s1 g old cur m new) {h5 : Node} {i : Nat} {n : Node}
    (hn : (s0.graph ++ h5 :: new)[i]? = some n) :
    ∃ n', s1.graph[i]? = some n' ∧
      ((i = s0.graph.length ∧ n = h5 ∧ n' = headNode s0 g old) ∨ (i ≠ s0.graph.length ∧ n' = n)) := by
  obtain ⟨n', hn', hc⟩ := mid_corr s0.graph h5 (headNode s0 g old) new i n hn
  exact ⟨n', by rw [A.g1]; exact hn', hc⟩

/-- a node of `s1`, seen in the final graph: same goal -/
theorem After.node5 (A : After inst P dom lvl fx s0 st s1 g old cur m new) {h5 : Node} (hgo : h5.goal = g)
    {i : Nat} {n : Node} (hn : s1.graph[i]? = some n) :
    ∃ n', (s0.graph ++ h5 :: new)[i]? = some n' ∧ n'.goal = n.goal := by
  rw [A.g1] at hn
  obtain ⟨n', hn', hc⟩ := mid_corr s0.graph (headNode s0 g old) h5 new i n hn
  refine ⟨n', hn', ?_⟩
  cases hc with
  | inl h => rw [h.2.1, h.2.2]; exact hgo
  | inr h => rw [h.2]

theorem After.finish_keep (A : After inst P dom lvl fx s0 st s1 g old cur m new) {s5 : St} (Pp : Popped s0 s1 s5)
    (hfl : ¬ flagAt s1.stack s0.stack.length ∨ old = cur) (l : Nat) (hm : m = some l)
    (hl : l < s0.graph.length) (hg5 : s5.graph = s0.graph ++ (⟨g, cur, none, m⟩ : Node) :: new) :
    Inv inst P dom lvl fx s5 ∧ Step inst P s0 s5 m := by
  have hv : flagAt s1.stack s0.stack.length → old = (⟨g, cur, none, m⟩ : Node).solution := by
    intro hf
    cases hfl with
    | inl h => exact absurd hf h
    | inr h => exact h
  have hwit : ∀ {lb : Min} {v : V} {j : Nat}, Wit inst P s1 lb v j → Wit inst P s5 lb v j :=
    fun h => A.wit Pp hg5 rfl rfl hv h
  have hstk5 : ∀ {i : Nat} {n : Node} {d : Nat}, s5.graph[i]? = some n → n.stackDepth = some d →
      s0.graph[i]? = some n := by
    intro i n d hn hd
    rw [hg5] at hn
    rcases mid_cases _ _ _ i n hn with h1 | h1 | h1
    · exact h1.2
    · rw [h1.2] at hd; cases hd
    · rw [(A.hnew n h1.2.1).1] at hd; cases hd
  constructor
  · refine ⟨A.fixes5 Pp.oracle Pp.oracleDefault Pp.interrupted, ?_, ?_, ?_, ?_, ?_, ?_, ?_, ?_, ?_, ?_, ?_, ?_, ?_, ?_⟩
    · intro i n hn ha
      rw [Pp.interrupted]
      rw [hg5] at hn
      obtain ⟨n', hn', hcase⟩ := A.node1 hn
      cases hcase with
      | inl h =>
        rw [h.2.1] at ha
        exact A.amb ha
      | inr h => rw [← h.2] at ha; exact A.i1.amb i n' hn' ha
    · exact fun k v h => A.i1.cacheOK k v (Pp.inCache.mp h)
    · intro d e he
      obtain ⟨i, n, hn, hd, hc⟩ := A.popNode Pp d e he
      exact ⟨i, n, by rw [hg5]; exact getElem?_prefix hn, hd, hc⟩
    · intro i n d i' n' d' hn hd hn' hd' hle
      exact A.L.i0.chain i n d i' n' d' (hstk5 hn hd) hd (hstk5 hn' hd') hd' hle
    · have := A.i1.nodup
      rw [A.g1] at this
      rw [hg5]
      simpa [List.map_append, headNode] using this
    · intro i n hn v hc
      rw [hg5] at hn
      obtain ⟨n', hn', hcase⟩ := A.node1 hn
      have hgo : n'.goal = n.goal := by
        cases hcase with
        | inl h => rw [h.2.1, h.2.2]; rfl
        | inr h => rw [h.2]
      exact A.i1.disj i n' hn' v (by rw [hgo]; exact Pp.inCache.mp hc)
    · intro i n hn
      rw [hg5] at hn
      obtain ⟨n', hn', hcase⟩ := A.node1 hn
      have hgo : n'.goal = n.goal := by
        cases hcase with
        | inl h => rw [h.2.1, h.2.2]; rfl
        | inr h => rw [h.2]
      rw [← hgo]; exact A.i1.inDom i n' hn'
    · intro i n hn
      rw [hg5] at hn
      obtain ⟨n', hn', hcase⟩ := A.node1 hn
      cases hcase with
      | inl h => rw [h.2.1]; exact A.cur_val
      | inr h => rw [← h.2]; exact A.i1.val i n' hn'
    · intro i n hn hb
      rw [hg5] at hn
      obtain ⟨n', hn', hcase⟩ := A.node1 hn
      cases hcase with
      | inl h =>
        rw [h.2.1] at hb ⊢
        exact A.cur_holds hb
      | inr h => rw [← h.2] at hb ⊢; exact A.i1.approx i n' hn' hb
    · intro i n d hn hd
      have := A.L.i0.stk i n d (hstk5 hn hd) hd
      exact ⟨by rw [Pp.slen]; exact this.1, this.2⟩
    · intro i n hn hd
      rw [hg5] at hn
      obtain ⟨n', hn', hcase⟩ := A.node1 hn
      cases hcase with
      | inl h => rw [h.2.1, h.1]; exact ⟨l, hm, hl⟩
      | inr h => rw [← h.2] at hd ⊢; exact A.i1.nonstk i n' hn' hd
    · rw [hg5, stackGoals_append, Pp.slen, ← A.L.i0.cnt]
      have : stackGoals ((⟨g, cur, none, m⟩ : Node) :: new) = [] := by
        apply stackGoals_nonstack
        intro n hn
        cases List.mem_cons.mp hn with
        | inl e => rw [e]
        | inr e => exact (A.hnew n e).1
      rw [this, List.append_nil]
    · intro i n hn hd htop
      rw [hg5] at hn
      rcases mid_cases _ _ _ i n hn with h1 | h1 | h1
      · exact JV.mono (fun j hj => hj.from0 ⟨_, hg5⟩ (fun d hd => (A.popExt Pp).flag hd))
          (A.L.i0.just i n h1.2 hd htop)
      · rw [h1.2] at htop ⊢
        have e : cur = topOf inst g := htop
        rcases A.fact with h | h | h
        · exact JV.mono (fun j hj => hwit hj) h.2
        · rw [h.1] at e; exact absurd e.symm (topOf_ne_botOf inst g)
        · rw [h.1] at e; exact absurd e.symm (topOf_ne_ambig inst g)
      · have hn1 : s1.graph[i]? = some n := by rw [A.g1]; exact h1.2.2 _
        exact JV.mono (fun j hj => hwit hj) (A.i1.just i n hn1 hd htop)
    · intro i n l' hn hd hlk
      rw [hg5] at hn
      rcases mid_cases _ _ _ i n hn with h1 | h1 | h1
      · obtain ⟨n', hn', hle⟩ := A.L.i0.lvlLinks i n l' h1.2 hd hlk
        exact ⟨n', by rw [hg5]; exact getElem?_prefix hn', hle⟩
      · rw [h1.2] at hlk ⊢
        have hlk' : m = some l' := hlk
        cases A.link with
        | inl e => rw [e] at hlk'; cases hlk'
        | inr e =>
          obtain ⟨l2, e2, hex⟩ := e
          rw [hlk'] at e2
          cases e2
          have hlt2 : l' < st.graph.length := by
            rw [A.gt, List.length_append]
            have : l = l' := by rw [hm] at hlk'; exact Option.some.inj hlk'
            omega
          obtain ⟨n', hn', hle⟩ := hex hlt2
          obtain ⟨n5, hn5, hgo5⟩ := A.node5 (h5 := (⟨g, cur, none, m⟩ : Node)) rfl hn'
          exact ⟨n5, by rw [hg5]; exact hn5, by rw [hgo5]; exact hle⟩
      · have hn1 : s1.graph[i]? = some n := by rw [A.g1]; exact h1.2.2 _
        obtain ⟨n', hn', hle⟩ := A.i1.lvlLinks i n l' hn1 hd hlk
        obtain ⟨n5, hn5, hgo5⟩ := A.node5 (h5 := (⟨g, cur, none, m⟩ : Node)) rfl hn'
        exact ⟨n5, by rw [hg5]; exact hn5, by rw [hgo5]; exact hle⟩
  · refine ⟨⟨_, hg5, ?_⟩, A.popExt Pp, fun k v h => Pp.inCache.mpr (A.cacheExt k v h), ?_, ?_,
      by rw [Pp.cache, A.step.cacheMode, A.L.cacheMode],
      (A.flags Pp.oracle Pp.oracleDefault Pp.interrupted).1,
      (A.flags Pp.oracle Pp.oracleDefault Pp.interrupted).2⟩
    · intro n hn
      cases List.mem_cons.mp hn with
      | inl e => rw [e]; exact ⟨rfl, MinLe.refl _⟩
      | inr e => exact A.hnew n e
    · intro k v h
      cases h with
      | inl h => exact Or.inl (Pp.inCache.mpr (A.cacheExt k v h))
      | inr h =>
        obtain ⟨i, n, hn, hgo, hvn⟩ := h
        exact Or.inr ⟨i, n, by rw [hg5]; exact getElem?_prefix hn, hgo, hvn⟩
    · intro k hu hd
      apply loop_low A.L A.i1 A.step A.fact k hu
      cases hd with
      | inl h => exact Or.inl (Or.inl (Pp.inCache.mp h))
      | inr h =>
        obtain ⟨i, n, hn, hgo, hvn⟩ := h
        rw [hg5] at hn
        rcases mid_cases _ _ _ i n hn with h1 | h1 | h1
        · exact absurd (Or.inr ⟨i, n, h1.2, hgo, hvn⟩) (hu _)
        · rw [h1.2] at hgo hvn
          have e : g = k := hgo
          subst e
          exact Or.inr ⟨rfl, hvn⟩
        · have hn1 : s1.graph[i]? = some n := by rw [A.g1]; exact h1.2.2 _
          exact Or.inl (Or.inr ⟨i, n, hn1, hgo, hvn⟩)

/-- the iteration was interrupted while the head's cycle flag was set: everything above the head has
    been rolled back (F10), the head stays in the graph with the answer `ambig` -/
theorem After.finish_keep_amb (A : After inst P dom lvl fx s0 st s1 g old cur m new) (hcur : cur = .ambig)
    {s5 : St} (Pp : Popped s0 s1 s5) (l : Nat) (hm : m = some l) (hl : l < s0.graph.length)
    (hg5 : s5.graph = s0.graph ++ [(⟨g, .ambig, none, m⟩ : Node)]) :
    Inv inst P dom lvl fx s5 ∧ Step inst P s0 s5 m := by
  have hint : s1.interrupted = true := A.amb hcur
  have hnode : ∀ {i : Nat} {n : Node}, s5.graph[i]? = some n →
      (i < s0.graph.length ∧ s0.graph[i]? = some n) ∨
      (i = s0.graph.length ∧ n = (⟨g, .ambig, none, m⟩ : Node)) := by
    intro i n hn
    rw [hg5] at hn
    rcases mid_cases _ _ _ i n hn with h1 | h1 | h1
    · exact Or.inl h1
    · exact Or.inr h1
    · cases h1.2.1
  have hstk5 : ∀ {i : Nat} {n : Node} {d : Nat}, s5.graph[i]? = some n → n.stackDepth = some d →
      s0.graph[i]? = some n := by
    intro i n d hn hd
    cases hnode hn with
    | inl h => exact h.2
    | inr h => rw [h.2] at hd; cases hd
  have hflag : ∀ d, flagAt s0.stack d → flagAt s5.stack d := fun d hd => (A.popExt Pp).flag hd
  constructor
  · refine ⟨A.fixes5 Pp.oracle Pp.oracleDefault Pp.interrupted, ?_, ?_, ?_, ?_, ?_, ?_, ?_, ?_, ?_, ?_, ?_, ?_, ?_, ?_⟩
    · intro i n hn ha
      rw [Pp.interrupted]; exact hint
    · exact fun k v h => A.i1.cacheOK k v (Pp.inCache.mp h)
    · intro d e he
      obtain ⟨i, n, hn, hd, hc⟩ := A.popNode Pp d e he
      exact ⟨i, n, by rw [hg5]; exact getElem?_prefix hn, hd, hc⟩
    · intro i n d i' n' d' hn hd hn' hd' hle
      exact A.L.i0.chain i n d i' n' d' (hstk5 hn hd) hd (hstk5 hn' hd') hd' hle
    · have := A.L.inv.nodup
      rw [A.gt] at this
      rw [hg5]
      simpa [List.map_append, headNode] using this
    · intro i n hn v hc
      cases hnode hn with
      | inl h => exact A.i1.disj i n (A.g0 h.2) v (Pp.inCache.mp hc)
      | inr h =>
        rw [h.2] at hc
        exact A.i1.disj _ _ A.head v (Pp.inCache.mp hc)
    · intro i n hn
      cases hnode hn with
      | inl h => exact A.L.i0.inDom i n h.2
      | inr h => rw [h.2]; exact A.L.gdom
    · intro i n hn
      cases hnode hn with
      | inl h => exact A.L.i0.val i n h.2
      | inr h => rw [h.2]; exact Or.inr (Or.inr rfl)
    · intro i n hn hb
      cases hnode hn with
      | inl h => exact A.L.i0.approx i n h.2 hb
      | inr h =>
        rw [h.2] at hb
        have e : V.ambig = botOf inst g := hb
        exact absurd e.symm (botOf_ne_ambig inst g)
    · intro i n d hn hd
      have := A.L.i0.stk i n d (hstk5 hn hd) hd
      exact ⟨by rw [Pp.slen]; exact this.1, this.2⟩
    · intro i n hn hd
      cases hnode hn with
      | inl h => exact A.L.i0.nonstk i n h.2 hd
      | inr h => rw [h.2, h.1]; exact ⟨l, hm, hl⟩
    · rw [hg5, stackGoals_append, Pp.slen, ← A.L.i0.cnt]
      have : stackGoals [(⟨g, .ambig, none, m⟩ : Node)] = [] := by
        apply stackGoals_nonstack
        intro n hn
        rw [List.mem_singleton.mp hn]
      rw [this, List.append_nil]
    · intro i n hn hd htop
      cases hnode hn with
      | inl h => exact JV.mono (fun j hj => hj.from0 ⟨_, hg5⟩ hflag) (A.L.i0.just i n h.2 hd htop)
      | inr h =>
        rw [h.2] at htop
        have e : V.ambig = topOf inst g := htop
        exact absurd e.symm (topOf_ne_ambig inst g)
    · intro i n l' hn hd hlk
      cases hnode hn with
      | inl h =>
        obtain ⟨n', hn', hle⟩ := A.L.i0.lvlLinks i n l' h.2 hd hlk
        exact ⟨n', by rw [hg5]; exact getElem?_prefix hn', hle⟩
      | inr h =>
        rw [h.2] at hlk ⊢
        have hlk' : m = some l' := hlk
        cases A.link with
        | inl e => rw [e] at hlk'; cases hlk'
        | inr e =>
          obtain ⟨l2, e2, hex⟩ := e
          rw [hlk'] at e2
          cases e2
          have hll : l = l' := by rw [hm] at hlk'; exact Option.some.inj hlk'
          have hlt2 : l' < st.graph.length := by
            rw [A.gt, List.length_append]
            omega
          obtain ⟨n', hn', hle⟩ := hex hlt2
          rw [A.g1] at hn'
          rcases mid_cases _ _ _ l' n' hn' with h1 | h1 | h1
          · exact ⟨n', by rw [hg5]; exact getElem?_prefix h1.2, hle⟩
          · omega
          · omega
  · refine ⟨⟨_, hg5, ?_⟩, A.popExt Pp, fun k v h => Pp.inCache.mpr (A.cacheExt k v h), ?_, ?_,
      by rw [Pp.cache, A.step.cacheMode, A.L.cacheMode],
      (A.flags Pp.oracle Pp.oracleDefault Pp.interrupted).1,
      (A.flags Pp.oracle Pp.oracleDefault Pp.interrupted).2⟩
    · intro n hn
      rw [List.mem_singleton.mp hn]; exact ⟨rfl, MinLe.refl _⟩
    · intro k v h
      cases h with
      | inl h => exact Or.inl (Pp.inCache.mpr (A.cacheExt k v h))
      | inr h =>
        obtain ⟨i, n, hn, hgo, hvn⟩ := h
        exact Or.inr ⟨i, n, by rw [hg5]; exact getElem?_prefix hn, hgo, hvn⟩
    · intro k hu hd
      apply loop_low A.L A.i1 A.step A.fact k hu
      cases hd with
      | inl h => exact Or.inl (Or.inl (Pp.inCache.mp h))
      | inr h =>
        obtain ⟨i, n, hn, hgo, hvn⟩ := h
        cases hnode hn with
        | inl h1 => exact absurd (Or.inr ⟨i, n, h1.2, hgo, hvn⟩) (hu _)
        | inr h1 =>
          rw [h1.2] at hvn
          have e : V.ambig = botOf inst k := hvn
          exact absurd e.symm (botOf_ne_ambig inst k)

end

end Chalk.FixedPoint.Mix
